package main

// C27, chained builds: the build-chain-transactions path.  api.buildTxs cannot be imported
// (package api does not build here); its loop is reproduced: the decoded actions go through
// account.MergeSpendAction, every spend_account action through account.SpendAccountChain
// (reserveBtmUtxoChain + buildBtmTxChain: when the BTM spend needs several UTXOs, merge
// transactions of at most txbuilder.ChainTxUtxoNum inputs are produced, each paying the
// merged amount minus txbuilder.ChainTxMergeGas to the address of the first reserved UTXO,
// possibly in several levels), every other action through its Build, then
// TemplateBuilder.Build; on an error TemplateBuilder.Rollback.  Every template of the chain
// is signed like a plain one (txbuilder.Sign, real pseudohsm for a share of the cases),
// finalised and validated.
//
// DIRECT ORACLE (Go only, exact integers), every chain case:
//   - no panic;
//   - a well-formed request covered by mature funds (including the worst-case merge gas)
//     builds; a failed build leaves nothing reserved;
//   - the chain is closed: every input of every transaction is a distinct wallet output or
//     the output of an earlier merge transaction of this chain, with its value;
//   - every merge transaction has one output, paying a program the account manager
//     attributes to the account whose outputs it merges; Template.Fee = inputs - outputs;
//   - the last transaction pays every requested recipient exactly, in order; every other
//     output pays a program of an account that spends that asset here; per (account, asset):
//     wallet outputs consumed - merge fees - change = what was requested from that account;
//     Template.Fee = BTM inputs - BTM outputs = BTM requested in - requested out;
//   - signed by a full quorum, every merge transaction passes ValidateTx (the wallet itself
//     chose its fee), and so does the paying transaction when the request is balanced,
//     legal and pays for its measured gas.
// The chained build is outside the Coq model (checks/C27.json): no correspondence case.

import (
	"context"
	"fmt"
	"math/big"
	"runtime/debug"
	"sort"
	"strings"
	"time"

	"github.com/bytom/bytom/account"
	"github.com/bytom/bytom/blockchain/txbuilder"
	"github.com/bytom/bytom/consensus"
	"github.com/bytom/bytom/protocol/bc"
	"github.com/bytom/bytom/protocol/bc/types"
	"github.com/bytom/bytom/protocol/validation"
	"github.com/bytom/bytom/protocol/vm"
)

type chainTx struct {
	tpl      *txbuilder.Template
	size     uint64
	costs    []int64
	vmOK     []bool
	validErr error
	signErr  error
}

type chainOutcome struct {
	panicked string
	buildErr error
	reserved []int
	txs      []*chainTx // merge transactions in build order, the paying transaction last
}

// worst-case merge gas for n outputs (account.calcMergeGas)
func mergeGas(n, per int) uint64 {
	g := uint64(0)
	for n > 1 {
		g += txbuilder.ChainTxMergeGas
		n -= per - 1
	}
	return g
}

func (w *wallet) finalizeAndValidate(tx *types.Tx, bheight uint64) *chainTx {
	ct := &chainTx{}
	data, err := tx.TxData.MarshalText()
	if err != nil {
		ct.validErr = err
		return ct
	}
	tx.TxData.SerializedSize = uint64(len(data) / 2)
	tx.Tx.SerializedSize = uint64(len(data) / 2)
	ct.size = tx.Tx.SerializedSize
	blk := &bc.Block{BlockHeader: &bc.BlockHeader{Version: 1, Height: bheight}}
	for i := range tx.Inputs {
		cost := nominalCost
		ok := false
		func() {
			defer func() { recover() }()
			var ctx *vm.Context
			switch e := tx.Tx.Entries[tx.Tx.InputIDs[i]].(type) {
			case *bc.Spend:
				so, _ := tx.Tx.OriginalOutput(*e.SpentOutputId)
				ctx = validation.VerifTxVMContext(tx.Tx, blk, e, so.ControlProgram, so.StateData, e.WitnessArguments, converter)
			case *bc.VetoInput:
				vo, _ := tx.Tx.VoteOutput(*e.SpentOutputId)
				ctx = validation.VerifTxVMContext(tx.Tx, blk, e, vo.ControlProgram, vo.StateData, e.WitnessArguments, converter)
			}
			if left, err := vm.Verify(ctx, bigGas); err == nil {
				cost = bigGas - left
				ok = true
			}
		}()
		ct.costs = append(ct.costs, cost)
		ct.vmOK = append(ct.vmOK, ok)
	}
	_, ct.validErr = validation.ValidateTx(tx.Tx, blk, converter)
	return ct
}

func (w *wallet) executeChain(cs *cspec) (o *chainOutcome) {
	o = &chainOutcome{}
	stage := "decode"
	defer func() {
		if r := recover(); r != nil {
			o.panicked = fmt.Sprintf("%s: %v\n%s", stage, r, debug.Stack())
		}
	}()
	old := txbuilder.ChainTxUtxoNum
	if cs.ChainUtxoNum > 1 {
		txbuilder.ChainTxUtxoNum = cs.ChainUtxoNum
	}
	defer func() { txbuilder.ChainTxUtxoNum = old }()
	var actions []txbuilder.Action
	for _, a := range cs.Actions {
		act, err := w.decode(a, cs.Utxos)
		if err != nil {
			panic(fmt.Sprintf("harness: action does not decode: %v", err))
		}
		actions = append(actions, act)
	}
	stage = "merge"
	actions = account.MergeSpendAction(actions)
	stage = "build"
	builder := txbuilder.NewBuilder(time.Unix(farFuture, 0))
	var tpls []*txbuilder.Template
	var err error
	for _, act := range actions {
		if act.ActionType() == "spend_account" {
			var ts []*txbuilder.Template
			ts, err = account.SpendAccountChain(context.Background(), builder, act)
			tpls = append(tpls, ts...)
		} else {
			err = act.Build(context.Background(), builder)
		}
		if err != nil {
			break
		}
	}
	var final *txbuilder.Template
	if err == nil {
		final, _, err = builder.Build()
	}
	if err != nil {
		builder.Rollback()
	}
	ids, _ := w.mgr.VerifC27Reserved()
	for _, h := range ids {
		o.reserved = append(o.reserved, w.utxoLabel(cs.Utxos, h))
	}
	sort.Ints(o.reserved)
	if err != nil {
		o.buildErr = err
		return o
	}
	tpls = append(tpls, final)
	stage = "sign"
	fn := w.signFn(cs)
	var signErrs []error
	for _, tpl := range tpls {
		var serr error
		for r := 0; r < cs.Rounds; r++ {
			if err := txbuilder.Sign(context.Background(), tpl, auth, fn); err != nil {
				serr = err
				break
			}
		}
		signErrs = append(signErrs, serr)
	}
	stage = "validate"
	for i, tpl := range tpls {
		ct := w.finalizeAndValidate(tpl.Transaction, cs.BHeight)
		ct.tpl = tpl
		ct.signErr = signErrs[i]
		o.txs = append(o.txs, ct)
	}
	return o
}

func (w *wallet) chainOracle(cs *cspec, o *chainOutcome) []string {
	var fails []string
	fail := func(f string, a ...interface{}) { fails = append(fails, fmt.Sprintf(f, a...)) }
	if o.panicked != "" {
		first := strings.SplitN(o.panicked, "\n", 2)[0]
		fail("class=panic: the chained wallet path panics (%s)", first)
		return fails
	}
	req := w.request(cs)
	per := cs.ChainUtxoNum
	if per <= 1 {
		per = txbuilder.ChainTxUtxoNum
	}
	// fundable: the plain criterion, and every chained BTM spend also covers the merge gas
	// of merging all the eligible outputs of its account
	fundable := w.fundable(cs)
	chainAccts := map[int]bool{}
	for _, a := range cs.Actions {
		if a.Kind == "spend" {
			if a.Asset != btmLabel {
				fundable = false // SpendAccountChain refuses other assets
			}
			chainAccts[a.Acct] = true
		}
	}
	if fundable {
		for acct := range chainAccts {
			allUU := true
			need := new(big.Int)
			for _, a := range cs.Actions {
				if a.Kind == "spend" && a.Acct == acct {
					need.Add(need, bigU(a.Amount))
					allUU = allUU && a.UU
				}
			}
			have := new(big.Int)
			n := 0
			for _, u := range cs.Utxos {
				if u.acct == acct && u.asset == btmLabel && u.vote == 0 && u.vh <= w.height && (u.where&1 != 0 || allUU) {
					have.Add(have, bigU(u.amount))
					n++
				}
			}
			need.Add(need, bigU(mergeGas(n, per)))
			if have.Cmp(need) < 0 {
				fundable = false
			}
		}
	}
	if o.buildErr != nil {
		if fundable {
			fail("class=fundable-build-failed: a well-formed chained request covered by mature funds (merge gas included) does not build: %v", o.buildErr)
		}
		if len(o.reserved) != 0 {
			fail("class=rollback-leaves-reservation: a failed chained build leaves outputs reserved: %v", o.reserved)
		}
		return fails
	}

	// ---- the chain is closed; who owns what
	type prod struct {
		amount   uint64
		owner    int
		tx       int
		consumed bool
	}
	produced := map[bc.Hash]*prod{}
	seen := map[bc.Hash]bool{}
	walletIn := map[grp]*big.Int{} // wallet outputs consumed anywhere in the chain
	mergeFee := map[grp]*big.Int{}
	addG := func(m map[grp]*big.Int, g grp, v *big.Int) {
		if m[g] == nil {
			m[g] = new(big.Int)
		}
		m[g].Add(m[g], v)
	}
	last := len(o.txs) - 1
	finalIn := map[int]*big.Int{}
	finalOut := map[int]*big.Int{}
	finalInBy := map[grp]*big.Int{} // inputs of the paying transaction per (owner, asset)
	for ti, ct := range o.txs {
		tx := ct.tpl.Transaction
		owners := map[int]bool{}
		inSum := new(big.Int)
		for i, in := range tx.Inputs {
			sid, _ := in.SpentOutputID()
			if seen[sid] {
				fail("class=duplicate-input: chain transaction %d input %d spends an output already spent in this chain", ti, i)
			}
			seen[sid] = true
			asset := assetLabel(in.AssetID())
			owner := 0
			if l := w.utxoLabel(cs.Utxos, sid); l != 0 {
				u := cs.Utxos[l-1]
				if u.amount != in.Amount() || u.asset != asset {
					fail("class=input-value: chain transaction %d input %d does not carry the value of the output it spends", ti, i)
				}
				owner = u.acct
				addG(walletIn, grp{owner, asset}, bigU(in.Amount()))
			} else if p, ok := produced[sid]; ok && p.tx < ti {
				if p.amount != in.Amount() || asset != btmLabel {
					fail("class=input-value: chain transaction %d input %d does not carry the value of the merge output it spends", ti, i)
				}
				p.consumed = true
				owner = p.owner
			} else {
				fail("class=foreign-input: chain transaction %d input %d is neither a wallet output nor an earlier merge output of this chain", ti, i)
				continue
			}
			owners[owner] = true
			inSum.Add(inSum, bigU(in.Amount()))
			if ti == last {
				add(finalIn, asset, bigU(in.Amount()))
				addG(finalInBy, grp{owner, asset}, bigU(in.Amount()))
			} else if asset != btmLabel || !chainAccts[owner] {
				fail("class=merge-input-unrequested: merge transaction %d spends asset %d of account %d, which no chained spend asks for", ti, asset, owner)
			}
		}
		if ti == last {
			continue
		}
		// a merge transaction
		if len(tx.Outputs) != 1 || len(owners) != 1 {
			fail("class=merge-shape: merge transaction %d has %d outputs and merges outputs of %d accounts", ti, len(tx.Outputs), len(owners))
			continue
		}
		out := tx.Outputs[0]
		var owner int
		for a := range owners {
			owner = a
		}
		_, isVote := out.TypedOutput.(*types.VoteOutput)
		if got := w.ownerOf(out.ControlProgram); got != owner || isVote || assetLabel(*out.AssetId) != btmLabel {
			fail("class=merge-output-not-to-spender: merge transaction %d pays a program of account %d (vote=%v), it merges outputs of account %d", ti, got, isVote, owner)
		}
		fee := new(big.Int).Sub(inSum, bigU(out.Amount))
		if fee.Sign() < 0 || fee.Cmp(bigU(ct.tpl.Fee)) != 0 {
			fail("class=fee: merge transaction %d: Template.Fee = %d, inputs - outputs = %v", ti, ct.tpl.Fee, fee)
		}
		addG(mergeFee, grp{owner, btmLabel}, fee)
		produced[*tx.ResultIds[0]] = &prod{amount: out.Amount, owner: owner, tx: ti}
	}
	// ---- the paying transaction
	ft := o.txs[last]
	tx := ft.tpl.Transaction
	pos := 0
	isRecipient := make([]bool, len(tx.Outputs))
	for k, a := range req.recipients {
		found := false
		for ; pos < len(tx.Outputs); pos++ {
			if w.recipientMatches(a, tx.Outputs[pos]) {
				isRecipient[pos] = true
				found = true
				pos++
				break
			}
		}
		if !found {
			fail("class=recipient-not-paid: recipient #%d (%s asset %d amount %d) has no output with exactly its amount and program, in order", k, a.Kind, a.Asset, a.Amount)
			break
		}
	}
	changeBy := map[grp]*big.Int{}
	for i, out := range tx.Outputs {
		add(finalOut, assetLabel(*out.AssetId), bigU(out.Amount))
		if isRecipient[i] {
			continue
		}
		owner := w.ownerOf(out.ControlProgram)
		g := grp{owner, assetLabel(*out.AssetId)}
		if _, isVote := out.TypedOutput.(*types.VoteOutput); isVote || owner == 0 || req.fromAcct[g] == nil {
			fail("class=change-not-to-spender: output %d (asset %d amount %d) is not requested and does not pay a program of an account that spends this asset here", i, g.asset, out.Amount)
			continue
		}
		addG(changeBy, g, bigU(out.Amount))
	}
	// merge outputs nobody spends stay with their account: change
	for _, p := range produced {
		if !p.consumed {
			addG(changeBy, grp{p.owner, btmLabel}, bigU(p.amount))
			w.c.Stats.Count("chain:unspent-merge-output")
		}
	}
	for g, want := range req.fromAcct {
		got := new(big.Int)
		if walletIn[g] != nil {
			got.Set(walletIn[g])
		}
		if mergeFee[g] != nil {
			got.Sub(got, mergeFee[g])
		}
		if changeBy[g] != nil {
			got.Sub(got, changeBy[g])
		}
		if got.Cmp(want) != 0 {
			fail("class=change-amount: account %d asset %d: wallet outputs consumed - merge fees - change = %v, requested %v", g.acct, g.asset, got, want)
		}
	}
	for g := range walletIn {
		if req.fromAcct[g] == nil {
			fail("class=unrequested-input: account %d asset %d is spent without being asked", g.acct, g.asset)
		}
	}
	z := func(m map[int]*big.Int, k int) *big.Int {
		if m[k] == nil {
			return new(big.Int)
		}
		return m[k]
	}
	feeTx := new(big.Int).Sub(z(finalIn, btmLabel), z(finalOut, btmLabel))
	if feeTx.Sign() >= 0 && feeTx.Cmp(bigU(ft.tpl.Fee)) != 0 {
		fail("class=fee: paying transaction: Template.Fee = %d, BTM inputs - outputs = %v", ft.tpl.Fee, feeTx)
	}
	feeReq := new(big.Int).Sub(z(req.in, btmLabel), z(req.out, btmLabel))
	if len(fails) == 0 && feeReq.Cmp(feeTx) != 0 {
		fail("class=fee: paying transaction: BTM inputs - outputs = %v, requested in - out = %v", feeTx, feeReq)
	}
	// ---- verdicts
	balanced := true
	for a, v := range req.in {
		if a != btmLabel && v.Cmp(z(req.out, a)) != 0 {
			balanced = false
		}
	}
	for a, v := range req.out {
		if a != btmLabel && v.Cmp(z(req.in, a)) != 0 {
			balanced = false
		}
	}
	for _, v := range finalIn {
		if v.Cmp(bigU(maxInt64)) > 0 {
			balanced = false
		}
	}
	legal := len(req.recipients) > 0
	for _, a := range req.recipients {
		if a.Kind == "vote" && (a.Asset != btmLabel || a.Amount < consensus.MinVoteOutputAmount || len(w.voteBytes(a.Vote)) != 64) {
			legal = false
		}
	}
	for _, in := range tx.Inputs {
		if vi, ok := in.TypedInput.(*types.VetoInput); ok && len(vi.Vote) != 64 {
			legal = false
		}
	}
	have := map[int]bool{}
	for _, k := range cs.Keys {
		have[k] = true
	}
	keysFor := func(l int) bool {
		if l < 1 || l > len(w.accts) {
			return false
		}
		n := 0
		for _, k := range w.accts[l-1].keys {
			if have[k] {
				n++
			}
		}
		return n >= w.accts[l-1].quorum && cs.Rounds >= w.accts[l-1].quorum
	}
	signedAll := true
	for l := range req.accts {
		if !keysFor(l) {
			signedAll = false
		}
	}
	for ti, ct := range o.txs[:last] {
		// whose outputs does it merge
		owner := 0
		for _, in := range ct.tpl.Transaction.Inputs {
			sid, _ := in.SpentOutputID()
			if l := w.utxoLabel(cs.Utxos, sid); l != 0 {
				owner = cs.Utxos[l-1].acct
			} else if p := produced[sid]; p != nil {
				owner = p.owner
			}
		}
		if keysFor(owner) && ct.signErr == nil && ct.validErr != nil {
			fail("class=chain-merge-tx-rejected: merge transaction %d of %d (%d inputs, account %d, fee %d), signed by a full quorum, is rejected: %v",
				ti+1, last, len(ct.tpl.Transaction.Inputs), owner, ct.tpl.Fee, ct.validErr)
		}
		w.c.Stats.Count(fmt.Sprintf("chain:merge-tx-valid=%v", ct.validErr == nil))
	}
	needGas := int64(ft.size)
	for i, c := range ft.costs {
		if !ft.vmOK[i] {
			c = 10000
		}
		needGas += c
	}
	gas := new(big.Int).Div(feeTx, big.NewInt(consensus.VMGasRate))
	if gas.Cmp(big.NewInt(consensus.MaxGasAmount)) > 0 {
		gas = big.NewInt(consensus.MaxGasAmount)
	}
	paid := feeTx.Sign() >= 0 && gas.Cmp(big.NewInt(2*needGas+1000)) >= 0
	signed := signedAll && ft.signErr == nil
	if len(fails) == 0 && balanced && legal && signed && paid && ft.validErr != nil {
		fail("class=valid-request-rejected: paying transaction of a chain of %d: balanced, funded, fully signed, fee %v (gas needed %d), is rejected: %v", len(o.txs), feeTx, needGas, ft.validErr)
	}
	w.c.Stats.Count(fmt.Sprintf("chain:expect-valid=%v", balanced && legal && signed && paid))
	return fails
}

// ---------------------------------------------------------------- generator

// chainCase: one account (sometimes two) pays BTM through the chained build from 1..12
// outputs of its own, each sitting on one of the account's five addresses (three on the
// receive branch, two on the change branch); the amount is aimed at needing 1..n of them.
func (g *gen) chainCase() *cspec {
	r, w := g.r, g.w
	cs := &cspec{Stream: "chain", BHeight: 50 + uint64(r.Intn(100)), ChainUtxoNum: []int{5, 5, 5, 3}[r.Intn(4)]}
	nSpenders := 1
	if r.Chance(15) {
		nSpenders = 2
	}
	accts := r.Intn(len(w.accts))
	var spenders []int
	for i := 0; i < nSpenders; i++ {
		spenders = append(spenders, 1+(accts+i)%len(w.accts))
	}
	label := 0
	used := map[uint64]bool{}
	newU := func(acct, asset, vote int, amount uint64) *uspec {
		label++
		u := &uspec{label: label, acct: acct, asset: asset, vote: vote, amount: amount}
		ai := w.accts[acct-1]
		u.prog = ai.progs[r.Intn(len(ai.progs))]
		switch r.Intn(10) {
		case 0, 1:
			u.where = 2
		case 2:
			u.where = 3
		default:
			u.where = 1
		}
		if r.Chance(25) {
			u.vh = uint64(r.Intn(int(w.height) + 1))
		}
		u.srcID = bc.NewHash(func() (b [32]byte) { copy(b[:], r.Bytes(32)); return }())
		u.srcPos = uint64(r.Intn(4))
		var in *types.TxInput
		if vote != 0 {
			in = types.NewVetoInput(nil, u.srcID, *assetOf(asset), amount, u.srcPos, u.prog.prog, w.voteBytes(vote), nil)
		} else {
			in = types.NewSpendInput(nil, u.srcID, *assetOf(asset), amount, u.srcPos, u.prog.prog, nil)
		}
		id, err := in.SpentOutputID()
		if err != nil {
			panic(err)
		}
		u.id = id
		cs.Utxos = append(cs.Utxos, u)
		return u
	}
	amount := func() uint64 {
		for {
			var a uint64
			switch r.Intn(12) {
			case 0:
				a = 1 + uint64(r.Intn(5000000)) // below the merge gas
			case 1, 2:
				a = 10000000 + uint64(r.Intn(90000000))
			default:
				a = 100000000 + r.Next()%20000000000
			}
			if !used[a] {
				used[a] = true
				return a
			}
		}
	}
	var acts []*aspec
	btmIn := new(big.Int)
	for _, acct := range spenders {
		n := 1 + r.Intn(8)
		if r.Chance(20) {
			n = 6 + r.Intn(7)
		}
		// one address for all of them (what a wallet that reuses its address, or a restored
		// one, looks like), or a random one each
		oneProg := r.Chance(35)
		var prog *progInfo
		uu := r.Chance(40)
		var elig []*uspec
		for i := 0; i < n; i++ {
			u := newU(acct, btmLabel, 0, amount())
			if oneProg {
				if prog == nil {
					prog = u.prog
				}
				u.prog = prog
				// the id depends on the program: rebuild
				in := types.NewSpendInput(nil, u.srcID, *assetOf(btmLabel), u.amount, u.srcPos, u.prog.prog, nil)
				u.id, _ = in.SpentOutputID()
			}
			if r.Chance(8) {
				u.vh = w.height + 1 + uint64(r.Intn(5))
			}
			if u.vh <= w.height && (u.where&1 != 0 || uu) {
				elig = append(elig, u)
			}
		}
		if len(elig) == 0 {
			continue
		}
		sort.Slice(elig, func(i, j int) bool { return elig[i].amount > elig[j].amount })
		k := 1 + r.Intn(len(elig))
		if k > 6 && r.Chance(60) {
			k = 1 + r.Intn(6)
		}
		sum := uint64(0)
		for _, u := range elig[:k] {
			sum += u.amount
		}
		gasK := mergeGas(k, cs.ChainUtxoNum)
		var s uint64
		switch {
		case sum <= gasK+1:
			s = 1 + sum/2
		case r.Chance(15):
			s = sum - gasK // everything the k largest can pay
		default:
			span := elig[k-1].amount
			if span > sum-gasK-1 {
				span = sum - gasK - 1
			}
			s = sum - gasK - r.Next()%(span+1)
		}
		if s == 0 {
			s = 1
		}
		if r.Chance(25) && s > 1 {
			p := 1 + r.Next()%(s-1)
			acts = append(acts, &aspec{Kind: "spend", Acct: acct, Asset: btmLabel, Amount: p, UU: uu})
			acts = append(acts, &aspec{Kind: "spend", Acct: acct, Asset: btmLabel, Amount: s - p, UU: uu})
		} else {
			acts = append(acts, &aspec{Kind: "spend", Acct: acct, Asset: btmLabel, Amount: s, UU: uu})
		}
		btmIn.Add(btmIn, bigU(s))
	}
	// noise and the other input kinds: vote outputs, other assets, other accounts
	for i, n := 0, r.Intn(5); i < n; i++ {
		acct := 1 + r.Intn(len(w.accts))
		switch r.Intn(3) {
		case 0:
			newU(acct, btmLabel, 1+r.Intn(2), amount())
		case 1:
			newU(acct, 2+r.Intn(2), 0, amount())
		default:
			isSpender := false
			for _, s := range spenders {
				if s == acct {
					isSpender = true
				}
			}
			if !isSpender {
				newU(acct, btmLabel, 0, amount())
			}
		}
	}
	for _, u := range cs.Utxos {
		cs.UtxoDescr = append(cs.UtxoDescr, fmt.Sprintf("%s prog=%d change_branch=%v where=%d", u.coq(), u.prog.label, u.prog.cp.Change, u.where))
	}
	if r.Chance(30) {
		// a particular output of another asset, paid out in full
		for _, u := range cs.Utxos {
			if u.asset != btmLabel && u.vh <= w.height {
				acts = append(acts, &aspec{Kind: "utxo", Out: u.label, UU: u.where == 2 || r.Bool()})
				for _, p := range g.split(u.amount) {
					acts = append(acts, g.recipientFor(u.asset, p, false))
				}
				break
			}
		}
	}
	if r.Chance(25) {
		for _, u := range cs.Utxos {
			if u.vote != 0 && u.vh <= w.height {
				amt := u.amount
				if r.Bool() && amt > 1 {
					amt = 1 + r.Next()%amt
				}
				acts = append(acts, &aspec{Kind: "veto", Acct: u.acct, Asset: btmLabel, Amount: amt, Vote: u.vote, UU: u.where == 2 || r.Bool()})
				btmIn.Add(btmIn, bigU(amt))
				break
			}
		}
	}
	if btmIn.Sign() > 0 {
		var fee uint64
		switch r.Intn(14) {
		case 0:
			fee = 0
		case 1:
			fee = uint64(r.Intn(20000))
		default:
			fee = 40000000 + uint64(r.Intn(60000000))
		}
		if btmIn.Uint64() > fee {
			for _, p := range g.split(btmIn.Uint64() - fee) {
				acts = append(acts, g.recipientFor(btmLabel, p, true))
			}
		}
	}
	if len(acts) == 0 {
		acts = append(acts, g.recipientFor(btmLabel, 5, false))
	}
	for i := len(acts) - 1; i > 0; i-- {
		j := r.Intn(i + 1)
		acts[i], acts[j] = acts[j], acts[i]
	}
	cs.Actions = acts
	for _, k := range w.keys {
		cs.Keys = append(cs.Keys, k.label)
	}
	cs.Rounds = 2
	switch r.Intn(16) {
	case 0:
		cs.Rounds = 1
	case 1:
		cs.Rounds = 3
	case 2:
		drop := 1 + r.Intn(len(cs.Keys))
		var ks []int
		for _, k := range cs.Keys {
			if k != drop {
				ks = append(ks, k)
			}
		}
		cs.Keys = ks
	}
	// every signature through the pseudohsm costs a key decryption (scrypt): small sets only
	cs.UseHSM = len(cs.Utxos) <= 4 && r.Chance(12)
	// a share of requests that must not build (and must leave nothing reserved)
	if r.Chance(14) {
		pick := func(kinds ...string) *aspec {
			var c []*aspec
			for _, a := range cs.Actions {
				for _, k := range kinds {
					if a.Kind == k {
						c = append(c, a)
					}
				}
			}
			if len(c) == 0 {
				return nil
			}
			return c[r.Intn(len(c))]
		}
		switch r.Intn(7) {
		case 0:
			cs.Mutation = "insufficient"
			if a := pick("spend"); a != nil {
				a.Amount = a.Amount*4 + 500000000000
			}
		case 1:
			cs.Mutation = "unknown-account"
			if a := pick("spend"); a != nil {
				a.Acct = -1
			}
		case 2:
			cs.Mutation = "bad-address"
			if a := pick("addr", "vote"); a != nil {
				a.BadAddr = true
			}
		case 3:
			cs.Mutation = "chained-spend-of-other-asset"
			if a := pick("spend"); a != nil {
				a.Asset = 2
			}
		case 4:
			cs.Mutation = "utxo-unknown"
			cs.Actions = append(cs.Actions, &aspec{Kind: "utxo", Out: -1, UU: r.Bool()})
		case 5:
			cs.Mutation = "amount-0"
			if a := pick("spend", "addr", "prog"); a != nil {
				a.Amount = 0
			}
		default:
			cs.Mutation = "merge-gas-not-covered"
			// everything the account has: nothing is left for the merge gas
			if a := pick("spend"); a != nil {
				var sum uint64
				for _, u := range cs.Utxos {
					if u.acct == a.Acct && u.asset == btmLabel && u.vote == 0 {
						sum += u.amount
					}
				}
				if sum > 0 {
					a.Amount = sum
				}
			}
		}
	}
	return cs
}

func (w *wallet) runChainCase(cs *cspec, prev []*uspec) {
	c := w.c
	w.reset(prev)
	w.install(cs.Utxos)
	for _, a := range cs.Actions {
		if a.Kind == "retire" {
			w.retireProg(a)
		}
	}
	o := w.executeChain(cs)
	st := c.Stats
	st.Count("stream=" + cs.Stream)
	if cs.Mutation != "" {
		st.Count("chain:mutation=" + cs.Mutation)
	}
	if cs.UseHSM {
		st.Count("chain:signer=pseudohsm")
	} else {
		st.Count("chain:signer=direct-chainkd")
	}
	st.Count(fmt.Sprintf("chain:utxo-num-per-merge=%d", cs.ChainUtxoNum))
	for _, a := range cs.Actions {
		st.Count("action-kind=" + a.Kind)
	}
	nontrivial := false
	switch {
	case o.panicked != "":
		st.Count("chain:build=panic")
	case o.buildErr != nil:
		st.Count("chain:build=error")
		st.Count(fmt.Sprintf("chain:build-error-class=%d", buildErrClass(o.buildErr)))
	default:
		st.Count("chain:build=ok")
		st.Count(fmt.Sprintf("chain:merge-txs=%d", len(o.txs)-1))
		// the ingredients: how many wallet outputs the chain consumes, and on which branch the
		// first merged output (the one whose address receives the merged amount) sits
		nWallet := 0
		for ti, ct := range o.txs {
			for i, in := range ct.tpl.Transaction.Inputs {
				sid, _ := in.SpentOutputID()
				if l := w.utxoLabel(cs.Utxos, sid); l != 0 {
					u := cs.Utxos[l-1]
					if u.asset == btmLabel && u.vote == 0 {
						nWallet++
					}
					if ti == 0 && i == 0 && len(o.txs) > 1 {
						st.Count(fmt.Sprintf("chain:first-merged-output-on-change-branch=%v", u.prog.cp.Change))
						st.Count(fmt.Sprintf("chain:merging-account=%d(quorum %d of %d)", u.acct, w.accts[u.acct-1].quorum, len(w.accts[u.acct-1].keys)))
					}
				}
			}
		}
		if nWallet > 6 {
			st.Count("chain:btm-outputs-consumed=7+")
		} else {
			st.Count(fmt.Sprintf("chain:btm-outputs-consumed=%d", nWallet))
		}
		ft := o.txs[len(o.txs)-1]
		if ft.validErr == nil {
			st.Count("chain:paying-tx=valid")
		} else {
			st.Count(fmt.Sprintf("chain:paying-tx=rejected-class-%d", verdictClass(ft.validErr)))
		}
		nontrivial = len(o.txs) > 1
	}
	for _, f := range w.chainOracle(cs, o) {
		d := map[string]interface{}{"case": cs, "seed": c.Seed}
		if o.panicked != "" {
			d["panic"] = o.panicked
		}
		st.Fail(f, d)
	}
	st.Case(fmt.Sprintf("chain %v %v %d", cs.UtxoDescr, actionsKey(cs.Actions), cs.ChainUtxoNum), nontrivial)
	if nontrivial && o.txs[len(o.txs)-1].validErr == nil {
		st.Sample(map[string]interface{}{"case": cs, "chain_txs": len(o.txs), "fee": o.txs[len(o.txs)-1].tpl.Fee})
	}
}

func actionsKey(as []*aspec) string {
	var parts []string
	for _, a := range as {
		parts = append(parts, fmt.Sprintf("%+v", *a))
	}
	return strings.Join(parts, ";")
}
