package main

// C27 — built and signed wallet transactions are valid and pay as requested.
//
// The harness drives the real wallet path: JSON actions -> the action decoders of
// account.Manager / txbuilder -> account.MergeSpendAction -> txbuilder.Build ->
// txbuilder.Sign (through the real pseudohsm for a share of the cases, otherwise with
// the same chainkd keys directly, exactly as pseudohsm.XSign does) -> the size fix-up of
// txbuilder.FinalizeTx -> validation.ValidateTx against a mock block.  One real
// account.Manager (hook account/manager_c27_verif.go: NewManager without a chain) over a
// MemDB holds four accounts (1-of-1 BIP44, 2-of-3, 1-of-1 BIP32 rule, 2-of-2) with real
// control programs; every case installs a fresh random UTXO set (DB "ACU:" entries and /
// or the unconfirmed map, also both at once) and a random action list.
//
// DIRECT ORACLE (Go only, exact integers, independent of the Coq model), every case:
//   - no panic in Build / Sign / ValidateTx;
//   - every requested recipient output is present with exactly its asset, amount,
//     program, kind and vote, in request order;
//   - every other output pays a control program the account manager knows as belonging
//     to an account that spends that asset in this request, and per (account, asset):
//     inputs - those outputs = what was requested from that account;
//   - Template.Fee = BTM inputs - BTM outputs = BTM requested in - BTM requested out;
//   - inputs are distinct outputs;
//   - a request that is well-formed, fundable, balanced, pays enough fee for the measured
//     gas and is signed by a full quorum must build and must pass ValidateTx.
// Amount demands (change, fee, fundable => builds, verdict) are made under the check's
// documented side condition only: the wallet's uint64 sums stay below 2^64 (nowrap).
// CHAINED BUILD (chain.go): a stream of its own drives account.SpendAccountChain the way
// api.buildTxs does and applies a direct oracle to every transaction of the chain.
// CORRESPONDENCE: the projection of the outcome (error classes / inputs / outputs / fee /
// reserved outputs after Build / witness shapes / verdict class) against C27.Run.run_case.

import (
	"context"
	"encoding/hex"
	"encoding/json"
	"fmt"
	"io/ioutil"
	"math/big"
	"os"
	"path/filepath"
	"runtime/debug"
	"sort"
	"strings"
	"time"

	log "github.com/sirupsen/logrus"

	"github.com/bytom/bytom/account"
	"github.com/bytom/bytom/blockchain/pseudohsm"
	"github.com/bytom/bytom/blockchain/signers"
	"github.com/bytom/bytom/blockchain/txbuilder"
	"github.com/bytom/bytom/common"
	"github.com/bytom/bytom/consensus"
	"github.com/bytom/bytom/crypto/ed25519/chainkd"
	"github.com/bytom/bytom/crypto/sha3pool"
	dbm "github.com/bytom/bytom/database/leveldb"
	"github.com/bytom/bytom/errors"
	"github.com/bytom/bytom/protocol/bc"
	"github.com/bytom/bytom/protocol/bc/types"
	"github.com/bytom/bytom/protocol/validation"
	"github.com/bytom/bytom/protocol/vm"
	"github.com/bytom/bytom/protocol/vm/vmutil"
	mnem "github.com/bytom/bytom/wallet/mnemonic"

	. "verifharness/hlib"
)

func main() { Main("C27", run, nil) }

const (
	maxInt64    = uint64(1<<63 - 1)
	auth        = "c27-password"
	bigGas      = int64(100000000)
	nominalCost = int64(3000)
	noAsset     = 1 // label: asset_id absent
	btmLabel    = 0
	farFuture   = 4102444800 // 2100-01-01
)

// ---------------------------------------------------------------- the wallet

type keyInfo struct {
	label int
	xpub  chainkd.XPub
	xprv  chainkd.XPrv
}

type progInfo struct {
	label int
	prog  []byte
	addr  string // "" for raw programs
	owner int    // account label, 0 = not ours
	cp    *account.CtrlProgram
}

type acctInfo struct {
	label  int
	acc    *account.Account
	quorum int
	keys   []int // key labels in XPubs order
	progs  []*progInfo
}

type wallet struct {
	c       *Ctx
	db      dbm.DB
	mgr     *account.Manager
	hsm     *pseudohsm.HSM
	keys    []*keyInfo
	accts   []*acctInfo
	progs   []*progInfo          // all labelled programs, label = index+1
	byProg  map[string]*progInfo // hex(program)
	ext     []*progInfo          // external recipients with an address
	raw     []*progInfo          // raw programs for control_program
	height  uint64
	votes   [][]byte // vote key by label-1
	keysDir string
}

func (w *wallet) labelProg(prog []byte, addr string, owner int, cp *account.CtrlProgram) *progInfo {
	if p, ok := w.byProg[hex.EncodeToString(prog)]; ok {
		return p
	}
	p := &progInfo{label: len(w.progs) + 1, prog: prog, addr: addr, owner: owner, cp: cp}
	w.progs = append(w.progs, p)
	w.byProg[hex.EncodeToString(prog)] = p
	return p
}

func assetOf(l int) *bc.AssetID {
	if l == btmLabel {
		return consensus.BTMAssetID
	}
	return &bc.AssetID{V0: uint64(l), V1: 0xc27, V2: 7, V3: uint64(l) * 31}
}

func assetLabel(a bc.AssetID) int {
	if a == *consensus.BTMAssetID {
		return btmLabel
	}
	return int(a.V0)
}

func newWallet(c *Ctx) (*wallet, error) {
	w := &wallet{c: c, db: dbm.NewMemDB(), byProg: map[string]*progInfo{}, height: 100}
	w.mgr = account.VerifNewManager(w.db, func() uint64 { return w.height })
	w.keysDir = filepath.Join(c.Out, "keys")
	os.RemoveAll(w.keysDir)
	if err := os.MkdirAll(w.keysDir, 0700); err != nil {
		return nil, err
	}
	hsm, err := pseudohsm.New(w.keysDir)
	if err != nil {
		return nil, err
	}
	w.hsm = hsm
	for i := 0; i < 7; i++ {
		m, err := mnem.NewMnemonic(c.Rng.Bytes(16), "en")
		if err != nil {
			return nil, err
		}
		xp, err := hsm.ImportKeyFromMnemonic(fmt.Sprintf("key%d", i), auth, m, "en")
		if err != nil {
			return nil, err
		}
		xprv, err := hsm.LoadChainKDKey(xp.XPub, auth)
		if err != nil {
			return nil, err
		}
		w.keys = append(w.keys, &keyInfo{label: i + 1, xpub: xp.XPub, xprv: xprv})
	}
	specs := []struct {
		keys   []int
		quorum int
		rule   uint8
	}{
		{[]int{1}, 1, signers.BIP0044},
		{[]int{2, 3, 4}, 2, signers.BIP0044},
		{[]int{5}, 1, signers.BIP0032},
		{[]int{6, 7}, 2, signers.BIP0044},
	}
	for i, s := range specs {
		var xpubs []chainkd.XPub
		for _, k := range s.keys {
			xpubs = append(xpubs, w.keys[k-1].xpub)
		}
		acc, err := w.mgr.Create(xpubs, s.quorum, fmt.Sprintf("acct%d", i+1), s.rule)
		if err != nil {
			return nil, err
		}
		// XPubs order as stored
		var klabels []int
		for _, xp := range acc.XPubs {
			for _, k := range w.keys {
				if k.xpub == xp {
					klabels = append(klabels, k.label)
				}
			}
		}
		ai := &acctInfo{label: i + 1, acc: acc, quorum: s.quorum, keys: klabels}
		for j := 0; j < 5; j++ {
			cp, err := w.mgr.CreateAddress(acc.ID, j >= 3)
			if err != nil {
				return nil, err
			}
			ai.progs = append(ai.progs, w.labelProg(cp.ControlProgram, cp.Address, ai.label, cp))
		}
		w.accts = append(w.accts, ai)
	}
	for i := 0; i < 4; i++ {
		var prog []byte
		var addr common.Address
		if i%2 == 0 {
			h := c.Rng.Bytes(20)
			a, err := common.NewAddressWitnessPubKeyHash(h, &consensus.ActiveNetParams)
			if err != nil {
				return nil, err
			}
			addr = a
			prog, _ = vmutil.P2WPKHProgram(h)
		} else {
			h := c.Rng.Bytes(32)
			a, err := common.NewAddressWitnessScriptHash(h, &consensus.ActiveNetParams)
			if err != nil {
				return nil, err
			}
			addr = a
			prog, _ = vmutil.P2WSHProgram(h)
		}
		w.ext = append(w.ext, w.labelProg(prog, addr.EncodeAddress(), 0, nil))
	}
	w.raw = append(w.raw, w.labelProg([]byte{byte(vm.OP_TRUE)}, "", 0, nil))
	w.raw = append(w.raw, w.labelProg(append([]byte{byte(vm.OP_DATA_3)}, c.Rng.Bytes(3)...), "", 0, nil))
	w.votes = [][]byte{c.Rng.Bytes(64), c.Rng.Bytes(64), c.Rng.Bytes(33)}
	return w, nil
}

// reset removes the previous case's UTXOs and reservations.
func (w *wallet) reset(prev []*uspec) {
	w.mgr.VerifC27CancelAll()
	var hs []*bc.Hash
	for _, u := range prev {
		w.db.Delete(account.StandardUTXOKey(u.id))
		h := u.id
		hs = append(hs, &h)
	}
	w.mgr.RemoveUnconfirmedUtxo(hs)
}

// ---------------------------------------------------------------- UTXOs

type uspec struct {
	label  int
	acct   int
	asset  int
	vote   int // 0 = nil
	amount uint64
	vh     uint64
	prog   *progInfo
	where  int // 1 DB, 2 unconfirmed, 3 both
	id     bc.Hash
	srcID  bc.Hash
	srcPos uint64
}

func (w *wallet) voteBytes(l int) []byte {
	if l == 0 {
		return nil
	}
	return w.votes[l-1]
}

func (u *uspec) utxo(w *wallet) *account.UTXO {
	return &account.UTXO{
		OutputID:            u.id,
		SourceID:            u.srcID,
		AssetID:             *assetOf(u.asset),
		Amount:              u.amount,
		SourcePos:           u.srcPos,
		ControlProgram:      u.prog.prog,
		Vote:                w.voteBytes(u.vote),
		AccountID:           w.accts[u.acct-1].acc.ID,
		Address:             u.prog.cp.Address,
		ControlProgramIndex: u.prog.cp.KeyIndex,
		ValidHeight:         u.vh,
		Change:              u.prog.cp.Change,
	}
}

func (u *uspec) coq() string {
	return fmt.Sprintf("U %d %d %d %d %d %d", u.label, u.acct, u.asset, u.vote, u.amount, u.vh)
}

func (w *wallet) install(us []*uspec) {
	var unc []*account.UTXO
	for _, u := range us {
		x := u.utxo(w)
		if u.where&1 != 0 {
			data, err := json.Marshal(x)
			if err != nil {
				panic(err)
			}
			w.db.Set(account.StandardUTXOKey(u.id), data)
		}
		if u.where&2 != 0 {
			unc = append(unc, x)
		}
	}
	w.mgr.AddUnconfirmedUtxo(unc)
}

// ---------------------------------------------------------------- actions

type aspec struct {
	Kind    string `json:"kind"`           // spend, utxo, veto, addr, prog, retire, vote
	Acct    int    `json:"acct,omitempty"` // account label; 0 = "", -1 = unknown id
	Asset   int    `json:"asset"`          // asset label; 1 = absent
	Amount  uint64 `json:"amount"`
	UU      bool   `json:"uu,omitempty"`
	Out     int    `json:"out,omitempty"`  // utxo label; 0 = absent; -1 = unknown hash
	Vote    int    `json:"vote,omitempty"` // vote label
	Prog    int    `json:"prog,omitempty"` // program label of the recipient; 0 = empty
	BadAddr bool   `json:"bad_addr,omitempty"`
	Arb     string `json:"arb,omitempty"` // retire: arbitrary data (hex)
}

func (w *wallet) acctID(l int) string {
	switch {
	case l == 0:
		return ""
	case l < 0:
		return "no-such-account"
	}
	return w.accts[l-1].acc.ID
}

func (w *wallet) decode(a *aspec, us []*uspec) (txbuilder.Action, error) {
	m := map[string]interface{}{}
	if a.Asset != noAsset {
		m["asset_id"] = hex.EncodeToString(assetOf(a.Asset).Bytes())
	}
	m["amount"] = a.Amount
	var dec func([]byte) (txbuilder.Action, error)
	switch a.Kind {
	case "spend":
		m["account_id"] = w.acctID(a.Acct)
		m["use_unconfirmed"] = a.UU
		dec = w.mgr.DecodeSpendAction
	case "veto":
		m["account_id"] = w.acctID(a.Acct)
		m["use_unconfirmed"] = a.UU
		if a.Vote != 0 {
			m["vote"] = hex.EncodeToString(w.voteBytes(a.Vote))
		}
		dec = w.mgr.DecodeVetoAction
	case "utxo":
		delete(m, "asset_id")
		delete(m, "amount")
		m["use_unconfirmed"] = a.UU
		if a.Out > 0 {
			m["output_id"] = hex.EncodeToString(us[a.Out-1].id.Bytes())
		} else if a.Out < 0 {
			m["output_id"] = strings.Repeat("ab", 32)
		}
		dec = w.mgr.DecodeSpendUTXOAction
	case "addr", "vote":
		switch {
		case a.BadAddr:
			m["address"] = "bn1qnotanaddress"
		case a.Prog != 0:
			m["address"] = w.progs[a.Prog-1].addr
		default:
			m["address"] = ""
		}
		dec = txbuilder.DecodeControlAddressAction
		if a.Kind == "vote" {
			if a.Vote != 0 {
				m["vote"] = hex.EncodeToString(w.voteBytes(a.Vote))
			}
			dec = txbuilder.DecodeVoteOutputAction
		}
	case "prog":
		if a.Prog != 0 {
			m["control_program"] = hex.EncodeToString(w.progs[a.Prog-1].prog)
		}
		dec = txbuilder.DecodeControlProgramAction
	case "retire":
		m["arbitrary"] = a.Arb
		dec = txbuilder.DecodeRetireAction
	default:
		return nil, fmt.Errorf("unknown kind %q", a.Kind)
	}
	b, err := json.Marshal(m)
	if err != nil {
		return nil, err
	}
	return dec(b)
}

func (w *wallet) retireProg(a *aspec) *progInfo {
	arb, _ := hex.DecodeString(a.Arb)
	p, err := vmutil.RetireProgram(arb)
	if err != nil {
		panic(err)
	}
	return w.labelProg(p, "", 0, nil)
}

func (w *wallet) actionCoq(a *aspec) string {
	b := CoqBool
	rec := func() string {
		switch {
		case a.BadAddr:
			return "RAddrBad"
		case a.Prog == 0 && a.Kind != "prog":
			return "RAddrEmpty"
		case a.Kind == "prog":
			return fmt.Sprintf("(RProg %d)", a.Prog)
		}
		return fmt.Sprintf("(RAddr %d)", a.Prog)
	}
	acct := a.Acct
	if acct < 0 {
		acct = 99
	}
	switch a.Kind {
	case "spend":
		return fmt.Sprintf("ASpend %d %d %d %s", acct, a.Asset, a.Amount, b(a.UU))
	case "veto":
		return fmt.Sprintf("AVeto %d %d %d %d %s", acct, a.Asset, a.Amount, a.Vote, b(a.UU))
	case "utxo":
		switch {
		case a.Out == 0:
			return "ASpendUtxo None " + b(a.UU)
		case a.Out < 0:
			return "ASpendUtxo (Some 9999) " + b(a.UU)
		}
		return fmt.Sprintf("ASpendUtxo (Some %d) %s", a.Out, b(a.UU))
	case "addr", "prog":
		return fmt.Sprintf("AControl %d %d %s", a.Asset, a.Amount, rec())
	case "retire":
		return fmt.Sprintf("ARetire %d %d %d", a.Asset, a.Amount, w.retireProg(a).label)
	case "vote":
		return fmt.Sprintf("AVote %d %d %s %d", a.Asset, a.Amount, rec(), a.Vote)
	}
	panic("kind")
}

// ---------------------------------------------------------------- one case

type cspec struct {
	Utxos     []*uspec `json:"-"`
	UtxoDescr []string `json:"utxos"`
	Actions   []*aspec `json:"actions"`
	Keys      []int    `json:"keys"`   // key labels the signer holds
	Rounds    int      `json:"rounds"` // calls of txbuilder.Sign
	TimeRange uint64   `json:"time_range"`
	BHeight   uint64   `json:"block_height"`
	UseHSM    bool     `json:"use_hsm"`
	Mutation  string   `json:"mutation"`
	Stream    string   `json:"stream"`
	// stream "chain" (chain.go): the build-chain-transactions path; value of txbuilder.ChainTxUtxoNum
	ChainUtxoNum int `json:"chain_utxo_num,omitempty"`
}

func buildErrClass(err error) int {
	switch errors.Root(err) {
	case txbuilder.ErrMissingFields:
		return 1
	case account.ErrFindAccount:
		return 2
	case account.ErrInsufficient:
		return 3
	case account.ErrImmature:
		return 4
	case account.ErrReserved:
		return 5
	case account.ErrMatchUTXO:
		return 6
	case txbuilder.ErrBadAmount:
		return 7
	}
	return 8
}

func verdictClass(err error) int {
	switch errors.Root(err) {
	case nil:
		return 0
	case validation.ErrOverflow:
		return 1
	case validation.ErrNoSource:
		return 2
	case validation.ErrUnbalanced, validation.ErrGasCalculate:
		return 3
	}
	return 4
}

func converter(prog []byte) ([]byte, error) { return nil, fmt.Errorf("no converter") }

func rows(rs [][]string) string {
	var parts []string
	for _, r := range rs {
		parts = append(parts, "["+strings.Join(r, "; ")+"]")
	}
	return "[" + strings.Join(parts, "; ") + "]%Z"
}

func zs(xs ...interface{}) []string {
	var out []string
	for _, x := range xs {
		out = append(out, CoqZ(x))
	}
	return out
}

type outcome struct {
	tag      int
	errs     []int
	fee      uint64
	reserved []int
	verdict  int
	ins      [][]string
	outs     [][]string
	wits     [][]string
	panicked string
	tpl      *txbuilder.Template
	validErr error
	size     uint64
	costs    []int64
	vmOK     []bool
	buildErr error
	signErr  error
}

func (w *wallet) utxoLabel(us []*uspec, h bc.Hash) int {
	for _, u := range us {
		if u.id == h {
			return u.label
		}
	}
	return 0
}

func (w *wallet) voteLabel(v []byte) int {
	if v == nil {
		return 0
	}
	for i, x := range w.votes {
		if string(x) == string(v) {
			return i + 1
		}
	}
	return 77
}

func (w *wallet) progLabel(p []byte) int {
	if x, ok := w.byProg[hex.EncodeToString(p)]; ok {
		return x.label
	}
	return 7777
}

func (w *wallet) signFn(cs *cspec) txbuilder.SignFunc {
	have := map[chainkd.XPub]*keyInfo{}
	for _, l := range cs.Keys {
		have[w.keys[l-1].xpub] = w.keys[l-1]
	}
	return func(_ context.Context, xpub chainkd.XPub, path [][]byte, h [32]byte, pw string) ([]byte, error) {
		k, ok := have[xpub]
		if !ok {
			return nil, pseudohsm.ErrLoadKey
		}
		if cs.UseHSM {
			return w.hsm.XSign(xpub, path, h[:], pw)
		}
		xprv := k.xprv
		if len(path) > 0 {
			xprv = xprv.Derive(path)
		}
		return xprv.Sign(h[:]), nil
	}
}

func (w *wallet) execute(cs *cspec) (o *outcome) {
	o = &outcome{}
	stage := "decode"
	defer func() {
		if r := recover(); r != nil {
			o.panicked = fmt.Sprintf("%s: %v\n%s", stage, r, debug.Stack())
			o.tag = 2
		}
	}()
	var actions []txbuilder.Action
	for _, a := range cs.Actions {
		act, err := w.decode(a, cs.Utxos)
		if err != nil {
			panic(fmt.Sprintf("harness: action does not decode: %v", err))
		}
		actions = append(actions, act)
	}
	stage = "merge"
	actions = account.MergeSpendAction(actions)
	stage = "build"
	tpl, err := txbuilder.Build(context.Background(), nil, actions, time.Unix(farFuture, 0), cs.TimeRange)
	ids, _ := w.mgr.VerifC27Reserved()
	for _, h := range ids {
		o.reserved = append(o.reserved, w.utxoLabel(cs.Utxos, h))
	}
	sort.Ints(o.reserved)
	if err != nil {
		o.tag = 1
		o.buildErr = err
		if errors.Root(err) == txbuilder.ErrAction {
			for _, e := range errors.Data(err)["actions"].([]error) {
				o.errs = append(o.errs, buildErrClass(e))
			}
		} else {
			o.errs = []int{99}
		}
		return o
	}
	o.tpl = tpl
	o.fee = tpl.Fee
	stage = "sign"
	fn := w.signFn(cs)
	for r := 0; r < cs.Rounds; r++ {
		if err := txbuilder.Sign(context.Background(), tpl, auth, fn); err != nil {
			o.signErr = err
			break
		}
	}
	tx := tpl.Transaction
	for _, in := range tx.Inputs {
		veto := 0
		vote := 0
		if vi, ok := in.TypedInput.(*types.VetoInput); ok {
			veto = 1
			vote = w.voteLabel(vi.Vote)
		}
		sid, _ := in.SpentOutputID()
		o.ins = append(o.ins, zs(100, veto, assetLabel(in.AssetID()), in.Amount(), w.utxoLabel(cs.Utxos, sid), w.progLabel(in.ControlProgram()), vote))
		args := in.Arguments()
		nsig := 0
		for _, a := range args {
			if len(a) == 64 {
				nsig++
			} else {
				break
			}
		}
		data := 0
		if len(args) > nsig {
			data = 1
		}
		o.wits = append(o.wits, zs(300, nsig, data))
	}
	for _, out := range tx.Outputs {
		kind, vote := 0, 0
		if vo, ok := out.TypedOutput.(*types.VoteOutput); ok {
			kind = 2
			vote = w.voteLabel(vo.Vote)
		}
		if vmutil.IsUnspendable(out.ControlProgram) {
			kind = 1
		}
		o.outs = append(o.outs, zs(200, kind, assetLabel(*out.AssetId), out.Amount, w.progLabel(out.ControlProgram), vote))
	}
	// txbuilder.FinalizeTx: the serialized size the validator charges storage gas for
	stage = "serialize"
	data, err := tx.TxData.MarshalText()
	if err != nil {
		// txbuilder.FinalizeTx returns this error: the transaction cannot be submitted
		o.validErr = err
		o.verdict = 4
		return o
	}
	tx.TxData.SerializedSize = uint64(len(data) / 2)
	tx.Tx.SerializedSize = uint64(len(data) / 2)
	o.size = tx.Tx.SerializedSize
	blk := &bc.Block{BlockHeader: &bc.BlockHeader{Version: 1, Height: cs.BHeight}}
	stage = "vm"
	for i := range tx.Inputs {
		// the VM's gas use for this input, measured with ample gas.  When the VM rejects the
		// witness there is no cost to measure: a nominal one is recorded, so that the model's
		// verdict rests on the witness shape alone and the oracle still knows what gas a
		// correct witness would have needed
		cost := nominalCost
		ok := false
		func() {
			defer func() { recover() }()
			var ctx *vm.Context
			switch e := tx.Tx.Entries[tx.Tx.InputIDs[i]].(type) {
			case *bc.Spend:
				so, _ := tx.Tx.OriginalOutput(*e.SpentOutputId)
				ctx = validation.VerifTxVMContext(tx.Tx, blk, e, so.ControlProgram, so.StateData, e.WitnessArguments, converter)
			case *bc.VetoInput:
				vo, _ := tx.Tx.VoteOutput(*e.SpentOutputId)
				ctx = validation.VerifTxVMContext(tx.Tx, blk, e, vo.ControlProgram, vo.StateData, e.WitnessArguments, converter)
			}
			if left, err := vm.Verify(ctx, bigGas); err == nil {
				cost = bigGas - left
				ok = true
			}
		}()
		o.costs = append(o.costs, cost)
		o.vmOK = append(o.vmOK, ok)
	}
	stage = "validate"
	_, verr := validation.ValidateTx(tx.Tx, blk, converter)
	o.validErr = verr
	o.verdict = verdictClass(verr)
	return o
}

func (o *outcome) coq() string {
	if o.tag == 2 {
		return rows([][]string{zs(2)})
	}
	var errs []interface{}
	for _, e := range o.errs {
		errs = append(errs, e)
	}
	var rsv []interface{}
	for _, l := range o.reserved {
		rsv = append(rsv, l)
	}
	rs := [][]string{zs(o.tag), zs(errs...), zs(o.fee), zs(rsv...), zs(o.verdict)}
	if o.tag == 1 {
		rs[2] = zs(0)
		return rows(rs)
	}
	rs = append(rs, o.ins...)
	rs = append(rs, o.outs...)
	rs = append(rs, o.wits...)
	return rows(rs)
}

// ---------------------------------------------------------------- the direct oracle

type grp struct{ acct, asset int }

func bigU(x uint64) *big.Int { return new(big.Int).SetUint64(x) }

// requested: what the action list asks for, computed from the request alone.
type requested struct {
	recipients []*aspec         // in request order
	fromAcct   map[grp]*big.Int // spend / veto amounts + fully spent outputs per (account, asset)
	in, out    map[int]*big.Int // per asset
	maxQuorum  int
	accts      map[int]bool
}

func add(m map[int]*big.Int, k int, v *big.Int) {
	if m[k] == nil {
		m[k] = new(big.Int)
	}
	m[k].Add(m[k], v)
}

func (w *wallet) request(cs *cspec) *requested {
	r := &requested{fromAcct: map[grp]*big.Int{}, in: map[int]*big.Int{}, out: map[int]*big.Int{}, accts: map[int]bool{}}
	addG := func(g grp, v *big.Int) {
		if r.fromAcct[g] == nil {
			r.fromAcct[g] = new(big.Int)
		}
		r.fromAcct[g].Add(r.fromAcct[g], v)
	}
	for _, a := range cs.Actions {
		switch a.Kind {
		case "spend", "veto":
			addG(grp{a.Acct, a.Asset}, bigU(a.Amount))
			add(r.in, a.Asset, bigU(a.Amount))
			r.accts[a.Acct] = true
		case "utxo":
			if a.Out > 0 {
				u := cs.Utxos[a.Out-1]
				addG(grp{u.acct, u.asset}, bigU(u.amount))
				add(r.in, u.asset, bigU(u.amount))
				r.accts[u.acct] = true
			}
		default:
			r.recipients = append(r.recipients, a)
			add(r.out, a.Asset, bigU(a.Amount))
		}
	}
	for l := range r.accts {
		if l >= 1 && l <= len(w.accts) && w.accts[l-1].quorum > r.maxQuorum {
			r.maxQuorum = w.accts[l-1].quorum
		}
	}
	return r
}

// ownerOf asks the account manager's own table whose control program this is.
func (w *wallet) ownerOf(prog []byte) int {
	var h [32]byte
	sha3pool.Sum256(h[:], prog)
	raw := w.db.Get(account.ContractKey(h))
	if raw == nil {
		return 0
	}
	cp := &account.CtrlProgram{}
	if json.Unmarshal(raw, cp) != nil {
		return 0
	}
	for _, a := range w.accts {
		if a.acc.ID == cp.AccountID {
			return a.label
		}
	}
	return 0
}

func (w *wallet) recipientMatches(a *aspec, out *types.TxOutput) bool {
	if assetLabel(*out.AssetId) != a.Asset || out.Amount != a.Amount {
		return false
	}
	vo, isVote := out.TypedOutput.(*types.VoteOutput)
	switch a.Kind {
	case "retire":
		return !isVote && string(out.ControlProgram) == string(w.retireProg(a).prog)
	case "vote":
		return isVote && string(vo.Vote) == string(w.voteBytes(a.Vote)) && a.Prog > 0 && string(out.ControlProgram) == string(w.progs[a.Prog-1].prog)
	}
	return !isVote && a.Prog > 0 && string(out.ControlProgram) == string(w.progs[a.Prog-1].prog)
}

// fundable: conservative, from the request and the UTXO set alone: every field present,
// known accounts, and per (account, asset, vote) the mature outputs visible to every action
// of the group cover everything the group is asked for.
func (w *wallet) fundable(cs *cspec) bool {
	type g3 struct{ acct, asset, vote int }
	need := map[g3]*big.Int{}
	allUU := map[g3]bool{}
	seenOut := map[int]bool{}
	calls := map[g3]int{} // Reserve calls per group: the merged spend counts once, every veto once
	spendSeen := map[g3]bool{}
	for _, a := range cs.Actions {
		switch a.Kind {
		case "spend", "veto":
			if a.Acct < 1 || a.Asset == noAsset || a.Amount == 0 {
				return false
			}
			v := 0
			if a.Kind == "veto" {
				v = a.Vote
			}
			k := g3{a.Acct, a.Asset, v}
			if need[k] == nil {
				need[k] = new(big.Int)
				allUU[k] = true
			}
			need[k].Add(need[k], bigU(a.Amount))
			allUU[k] = allUU[k] && a.UU
			if a.Kind == "veto" || !spendSeen[k] {
				calls[k]++
			}
			if a.Kind == "spend" {
				spendSeen[k] = true
			}
		case "utxo":
			if a.Out < 1 || seenOut[a.Out] {
				return false
			}
			seenOut[a.Out] = true
			u := cs.Utxos[a.Out-1]
			if u.vh > w.height || (u.where&1 == 0 && !a.UU) {
				return false
			}
			k := g3{u.acct, u.asset, u.vote}
			if need[k] == nil {
				need[k] = new(big.Int)
				allUU[k] = true
			}
			need[k].Add(need[k], bigU(u.amount))
		default:
			if a.Asset == noAsset || a.Amount == 0 || a.Amount > maxInt64 || a.BadAddr || a.Prog == 0 && a.Kind != "retire" {
				return false
			}
			if a.Kind == "vote" && a.Vote == 0 {
				return false
			}
		}
	}
	// a particular output taken from a group that is also spent by amount: whether both
	// succeed depends on which outputs the amount-based selection picks first; not demanded
	for _, a := range cs.Actions {
		if a.Kind != "utxo" {
			continue
		}
		u := cs.Utxos[a.Out-1]
		for _, b := range cs.Actions {
			if (b.Kind == "spend" && u.vote == 0 || b.Kind == "veto" && u.vote == b.Vote) && b.Acct == u.acct && b.Asset == u.asset {
				return false
			}
		}
	}
	// two separate reservations on one group each take whole outputs: the sum is not enough
	for _, n := range calls {
		if n > 1 {
			return false
		}
	}
	for k, n := range need {
		have := new(big.Int)
		for _, u := range cs.Utxos {
			if u.acct == k.acct && u.asset == k.asset && u.vote == k.vote && u.vh <= w.height && (u.where&1 != 0 || allUU[k]) {
				if u.amount > maxInt64 {
					return false
				}
				have.Add(have, bigU(u.amount))
			}
		}
		if have.Cmp(n) < 0 || have.Cmp(bigU(maxInt64)) > 0 {
			return false
		}
	}
	return len(need) > 0
}

// nowrap: the side condition under which the wallet's uint64 sums are exact: per (account,
// asset) the amounts of the spend actions (MergeSpendAction adds them), and per (account,
// asset, vote) all the outputs of the group, mature or not (Reserve adds what it selected,
// what is reserved and what is immature), sum to less than 2^64.
func (w *wallet) nowrap(cs *cspec) bool {
	two64 := new(big.Int).Lsh(big.NewInt(1), 64)
	type g3 struct{ acct, asset, vote int }
	spend := map[grp]*big.Int{}
	funds := map[g3]*big.Int{}
	for _, a := range cs.Actions {
		if a.Kind == "spend" {
			k := grp{a.Acct, a.Asset}
			if spend[k] == nil {
				spend[k] = new(big.Int)
			}
			spend[k].Add(spend[k], bigU(a.Amount))
		}
	}
	for _, u := range cs.Utxos {
		k := g3{u.acct, u.asset, u.vote}
		if funds[k] == nil {
			funds[k] = new(big.Int)
		}
		funds[k].Add(funds[k], bigU(u.amount))
	}
	for _, v := range spend {
		if v.Cmp(two64) >= 0 {
			return false
		}
	}
	// only the groups a Reserve call of this request looks at
	asked := map[g3]bool{}
	for _, a := range cs.Actions {
		switch a.Kind {
		case "spend":
			asked[g3{a.Acct, a.Asset, 0}] = true
		case "veto":
			asked[g3{a.Acct, a.Asset, a.Vote}] = true
		}
	}
	for k, v := range funds {
		if asked[k] && v.Cmp(two64) >= 0 {
			return false
		}
	}
	return true
}

func (w *wallet) oracle(cs *cspec, o *outcome) []string {
	var fails []string
	fail := func(f string, a ...interface{}) { fails = append(fails, fmt.Sprintf(f, a...)) }
	if o.panicked != "" {
		first := strings.SplitN(o.panicked, "\n", 2)[0]
		fail("class=panic: the wallet path panics (%s)", first)
		return fails
	}
	req := w.request(cs)
	fundable := w.fundable(cs)
	// the documented side condition (checks/C27.json, C26's nowrap): below 2^64 the wallet's
	// uint64 sums are exact; at or above it MergeSpendAction's "+=", Reserve's
	// optAmount+reservedAmount+immatureAmount and TxData.Fee wrap, and nothing about amounts
	// is demanded (such sums exceed any supply: amounts on chain stay below 2^63)
	exact := w.nowrap(cs)
	if !exact {
		fundable = false
		w.c.Stats.Count("oracle:request-outside-nowrap-side-condition")
	}
	if o.tag == 1 {
		if fundable {
			fail("class=fundable-build-failed: a well-formed request covered by mature funds does not build: %v", o.buildErr)
		}
		if len(o.reserved) != 0 {
			fail("class=rollback-leaves-reservation: a failed Build leaves outputs reserved: %v", o.reserved)
		}
		return fails
	}
	tx := o.tpl.Transaction
	// recipients, in order
	pos := 0
	isRecipient := make([]bool, len(tx.Outputs))
	for k, a := range req.recipients {
		found := false
		for ; pos < len(tx.Outputs); pos++ {
			if w.recipientMatches(a, tx.Outputs[pos]) {
				isRecipient[pos] = true
				found = true
				pos++
				break
			}
		}
		if !found {
			fail("class=recipient-not-paid: recipient #%d (%s asset %d amount %d) has no output with exactly its amount and program, in order", k, a.Kind, a.Asset, a.Amount)
			break
		}
	}
	// inputs: distinct, per (account, asset) totals
	inBy := map[grp]*big.Int{}
	inSum := map[int]*big.Int{}
	outSum := map[int]*big.Int{}
	seen := map[bc.Hash]bool{}
	for i, in := range tx.Inputs {
		sid, _ := in.SpentOutputID()
		if seen[sid] {
			fail("class=duplicate-input: input %d spends an output already spent by this transaction", i)
		}
		seen[sid] = true
		l := w.utxoLabel(cs.Utxos, sid)
		if l == 0 {
			fail("class=foreign-input: input %d is not one of the wallet's outputs", i)
			continue
		}
		u := cs.Utxos[l-1]
		if u.amount != in.Amount() || u.asset != assetLabel(in.AssetID()) {
			fail("class=input-value: input %d does not carry the value of the output it spends", i)
		}
		g := grp{u.acct, u.asset}
		if inBy[g] == nil {
			inBy[g] = new(big.Int)
		}
		inBy[g].Add(inBy[g], bigU(in.Amount()))
		add(inSum, u.asset, bigU(in.Amount()))
	}
	// the other outputs are change: to the spending account, exact amount
	changeBy := map[grp]*big.Int{}
	for i, out := range tx.Outputs {
		add(outSum, assetLabel(*out.AssetId), bigU(out.Amount))
		if isRecipient[i] {
			continue
		}
		owner := w.ownerOf(out.ControlProgram)
		g := grp{owner, assetLabel(*out.AssetId)}
		if _, isVote := out.TypedOutput.(*types.VoteOutput); isVote || owner == 0 || req.fromAcct[g] == nil {
			fail("class=change-not-to-spender: output %d (asset %d amount %d) is not requested and does not pay a program of an account that spends this asset here", i, g.asset, out.Amount)
			continue
		}
		if changeBy[g] == nil {
			changeBy[g] = new(big.Int)
		}
		changeBy[g].Add(changeBy[g], bigU(out.Amount))
	}
	two64 := new(big.Int).Lsh(big.NewInt(1), 64)
	for _, v := range inSum {
		if v.Cmp(two64) >= 0 {
			if exact {
				w.c.Stats.Count("oracle:inputs-of-one-asset-sum-to-2^64-or-more")
			}
			exact = false // TxData.Fee / the validator's sums wrap
		}
	}
	for g, want := range req.fromAcct {
		if !exact {
			break
		}
		got := new(big.Int)
		if inBy[g] != nil {
			got.Set(inBy[g])
		}
		if changeBy[g] != nil {
			got.Sub(got, changeBy[g])
		}
		if got.Cmp(want) != 0 {
			fail("class=change-amount: account %d asset %d: inputs - change = %v, requested %v", g.acct, g.asset, got, want)
		}
	}
	for g := range inBy {
		if req.fromAcct[g] == nil {
			fail("class=unrequested-input: account %d asset %d is spent without being asked", g.acct, g.asset)
		}
	}
	// fee
	z := func(m map[int]*big.Int, k int) *big.Int {
		if m[k] == nil {
			return new(big.Int)
		}
		return m[k]
	}
	feeTx := new(big.Int).Sub(z(inSum, btmLabel), z(outSum, btmLabel))
	if exact && feeTx.Sign() >= 0 && feeTx.Cmp(bigU(o.fee)) != 0 {
		fail("class=fee: Template.Fee = %d, BTM inputs - outputs = %v", o.fee, feeTx)
	}
	feeReq := new(big.Int).Sub(z(req.in, btmLabel), z(req.out, btmLabel))
	if exact && len(fails) == 0 && feeReq.Cmp(feeTx) != 0 {
		fail("class=fee: BTM inputs - outputs = %v, requested in - out = %v", feeTx, feeReq)
	}
	// verdict
	balanced := true
	for a, v := range req.in {
		if a != btmLabel && v.Cmp(z(req.out, a)) != 0 {
			balanced = false
		}
	}
	for a, v := range req.out {
		if a != btmLabel && v.Cmp(z(req.in, a)) != 0 {
			balanced = false
		}
	}
	for _, v := range inSum {
		if v.Cmp(bigU(maxInt64)) > 0 {
			balanced = false
		}
	}
	legal := len(req.recipients) > 0 && (cs.TimeRange == 0 || cs.TimeRange >= cs.BHeight)
	for _, a := range req.recipients {
		if a.Kind == "vote" && (a.Asset != btmLabel || a.Amount < consensus.MinVoteOutputAmount || len(w.voteBytes(a.Vote)) != 64) {
			legal = false
		}
	}
	for _, in := range tx.Inputs {
		if vi, ok := in.TypedInput.(*types.VetoInput); ok && len(vi.Vote) != 64 {
			legal = false
		}
	}
	have := map[int]bool{}
	for _, k := range cs.Keys {
		have[k] = true
	}
	signed := cs.Rounds >= req.maxQuorum && o.signErr == nil
	for l := range req.accts {
		if l < 1 {
			continue
		}
		n := 0
		for _, k := range w.accts[l-1].keys {
			if have[k] {
				n++
			}
		}
		if n < w.accts[l-1].quorum {
			signed = false
		}
	}
	needGas := int64(o.size)
	for i, c := range o.costs {
		if !o.vmOK[i] {
			c = 10000
		}
		needGas += c
	}
	gas := new(big.Int).Div(feeTx, big.NewInt(consensus.VMGasRate))
	if gas.Cmp(big.NewInt(consensus.MaxGasAmount)) > 0 {
		gas = big.NewInt(consensus.MaxGasAmount)
	}
	paid := feeTx.Sign() >= 0 && gas.Cmp(big.NewInt(2*needGas+1000)) >= 0
	if exact && len(fails) == 0 && balanced && legal && signed && paid && o.validErr != nil {
		fail("class=valid-request-rejected: balanced, funded, fully signed transaction with fee %v (gas needed %d) is rejected: %v", feeTx, needGas, o.validErr)
	}
	w.c.Stats.Count(fmt.Sprintf("expect-valid=%v", balanced && legal && signed && paid))
	return fails
}

// ---------------------------------------------------------------- generator

type gen struct {
	w *wallet
	r *Rng
}

func (g *gen) amount(stream string) uint64 {
	r := g.r
	if stream == "boundary" {
		switch r.Intn(7) {
		case 0:
			return maxInt64
		case 1:
			return maxInt64 + 1 + uint64(r.Intn(5))
		case 2:
			return 1<<62 + uint64(r.Intn(1000))
		case 3:
			return maxInt64 - uint64(r.Intn(1000))
		case 4:
			return 1 + uint64(r.Intn(3))
		}
	}
	switch r.Intn(10) {
	case 0:
		return 1 + uint64(r.Intn(2000))
	case 1, 2:
		return 100000000 + uint64(r.Intn(1000))*1000000
	}
	return 200000000 + r.Next()%100000000000
}

func (g *gen) utxos(stream string) []*uspec {
	r := g.r
	n := 2 + r.Intn(11)
	if r.Chance(10) {
		n = 12 + r.Intn(10)
	}
	type g3 struct{ acct, asset, vote int }
	used := map[g3]map[uint64]bool{}
	nAccts := 1 + r.Intn(len(g.w.accts))
	var us []*uspec
	for i := 0; i < n; i++ {
		u := &uspec{label: i + 1}
		u.acct = 1 + r.Intn(nAccts)
		if r.Chance(15) {
			u.acct = 1 + r.Intn(len(g.w.accts))
		}
		switch r.Intn(10) {
		case 0, 1, 2, 3, 4:
			u.asset = btmLabel
		case 5, 6, 7:
			u.asset = 2
		default:
			u.asset = 3
		}
		if u.asset == btmLabel && r.Chance(18) {
			u.vote = 1 + r.Intn(2)
			if stream == "boundary" && r.Chance(15) {
				u.vote = 3
			}
		}
		k := g3{u.acct, u.asset, u.vote}
		if used[k] == nil {
			used[k] = map[uint64]bool{}
		}
		for {
			u.amount = g.amount(stream)
			if !used[k][u.amount] {
				break
			}
		}
		used[k][u.amount] = true
		if r.Chance(10) {
			u.vh = g.w.height + 1 + uint64(r.Intn(5))
		} else if r.Chance(30) {
			u.vh = uint64(r.Intn(int(g.w.height) + 1))
		}
		ai := g.w.accts[u.acct-1]
		u.prog = ai.progs[r.Intn(len(ai.progs))]
		switch r.Intn(10) {
		case 0, 1:
			u.where = 2
		case 2:
			u.where = 3
		default:
			u.where = 1
		}
		u.srcID = bc.NewHash(func() (b [32]byte) { copy(b[:], r.Bytes(32)); return }())
		u.srcPos = uint64(r.Intn(4))
		var in *types.TxInput
		if u.vote != 0 {
			in = types.NewVetoInput(nil, u.srcID, *assetOf(u.asset), u.amount, u.srcPos, u.prog.prog, g.w.voteBytes(u.vote), nil)
		} else {
			in = types.NewSpendInput(nil, u.srcID, *assetOf(u.asset), u.amount, u.srcPos, u.prog.prog, nil)
		}
		id, err := in.SpentOutputID()
		if err != nil {
			panic(err)
		}
		u.id = id
		us = append(us, u)
	}
	return us
}

func (g *gen) recipientFor(asset int, amount uint64, allowVote bool) *aspec {
	r := g.r
	a := &aspec{Asset: asset, Amount: amount}
	switch k := r.Intn(12); {
	case k < 4:
		a.Kind = "addr"
		a.Prog = g.w.ext[r.Intn(len(g.w.ext))].label
	case k < 7:
		a.Kind = "addr"
		ai := g.w.accts[r.Intn(len(g.w.accts))]
		a.Prog = ai.progs[r.Intn(len(ai.progs))].label
	case k < 9:
		a.Kind = "prog"
		if r.Bool() {
			a.Prog = g.w.raw[r.Intn(len(g.w.raw))].label
		} else {
			a.Prog = g.w.ext[r.Intn(len(g.w.ext))].label
		}
	case k < 10:
		a.Kind = "retire"
		a.Arb = hex.EncodeToString(r.Bytes(r.Intn(4)))
	default:
		if allowVote && asset == btmLabel && amount >= consensus.MinVoteOutputAmount {
			a.Kind = "vote"
			a.Vote = 1 + r.Intn(2)
			ai := g.w.accts[r.Intn(len(g.w.accts))]
			a.Prog = ai.progs[r.Intn(len(ai.progs))].label
		} else {
			a.Kind = "addr"
			a.Prog = g.w.ext[r.Intn(len(g.w.ext))].label
		}
	}
	return a
}

// split amount into 1..3 positive parts
func (g *gen) split(total uint64) []uint64 {
	n := 1 + g.r.Intn(3)
	var parts []uint64
	for i := 0; i < n-1 && total > 1; i++ {
		p := 1 + g.r.Next()%(total-1)
		parts = append(parts, p)
		total -= p
	}
	if total > 0 {
		parts = append(parts, total)
	}
	return parts
}

func (g *gen) newCase(stream string) *cspec {
	r := g.r
	w := g.w
	cs := &cspec{Stream: stream, BHeight: 50 + uint64(r.Intn(100))}
	cs.Utxos = g.utxos(stream)
	for _, u := range cs.Utxos {
		cs.UtxoDescr = append(cs.UtxoDescr, fmt.Sprintf("%s prog=%d where=%d", u.coq(), u.prog.label, u.where))
	}
	// funds per (account, asset), mature, no vote
	type fund struct {
		g         grp
		conf, all *big.Int
	}
	funds := map[grp]*fund{}
	var order []grp
	for _, u := range cs.Utxos {
		if u.vote != 0 || u.vh > w.height {
			continue
		}
		k := grp{u.acct, u.asset}
		if funds[k] == nil {
			funds[k] = &fund{g: k, conf: new(big.Int), all: new(big.Int)}
			order = append(order, k)
		}
		funds[k].all.Add(funds[k].all, bigU(u.amount))
		if u.where&1 != 0 {
			funds[k].conf.Add(funds[k].conf, bigU(u.amount))
		}
	}
	for i := len(order) - 1; i > 0; i-- {
		j := r.Intn(i + 1)
		order[i], order[j] = order[j], order[i]
	}
	var acts []*aspec
	btmIn := new(big.Int)
	btmSpent := false
	nGroups := 1 + r.Intn(3)
	takeFrom := func(k grp) {
		f := funds[k]
		uu := r.Chance(40)
		avail := f.conf
		if uu {
			avail = f.all
		}
		if avail.Sign() == 0 {
			return
		}
		lim := new(big.Int).Set(avail)
		if lim.Cmp(bigU(maxInt64)) > 0 {
			lim = bigU(maxInt64)
		}
		var s uint64
		switch r.Intn(6) {
		case 0:
			s = lim.Uint64() // everything: no change
		default:
			s = 1 + r.Next()%lim.Uint64()
		}
		if k.asset == btmLabel && s < 300000000 && lim.Uint64() >= 300000000 {
			s = 300000000 + r.Next()%(lim.Uint64()-300000000+1)
		}
		// the spend itself, sometimes as two actions (MergeSpendAction)
		if r.Chance(25) && s > 1 {
			p := 1 + r.Next()%(s-1)
			acts = append(acts, &aspec{Kind: "spend", Acct: k.acct, Asset: k.asset, Amount: p, UU: uu})
			acts = append(acts, &aspec{Kind: "spend", Acct: k.acct, Asset: k.asset, Amount: s - p, UU: uu && r.Bool()})
		} else {
			acts = append(acts, &aspec{Kind: "spend", Acct: k.acct, Asset: k.asset, Amount: s, UU: uu})
		}
		if k.asset == btmLabel {
			btmIn.Add(btmIn, bigU(s))
			btmSpent = true
			return
		}
		for _, p := range g.split(s) {
			acts = append(acts, g.recipientFor(k.asset, p, false))
		}
	}
	for _, k := range order {
		if nGroups == 0 {
			break
		}
		if k.asset == btmLabel && btmSpent && r.Chance(70) {
			continue
		}
		takeFrom(k)
		nGroups--
	}
	if !btmSpent && r.Chance(92) {
		for _, k := range order {
			if k.asset == btmLabel {
				takeFrom(k)
				break
			}
		}
	}
	// a fully spent particular output
	if r.Chance(20) {
		u := cs.Utxos[r.Intn(len(cs.Utxos))]
		if u.vote == 0 && u.vh <= w.height && u.amount <= maxInt64 {
			acts = append(acts, &aspec{Kind: "utxo", Out: u.label, UU: u.where == 2 || r.Bool()})
			if u.asset == btmLabel {
				btmIn.Add(btmIn, bigU(u.amount))
			} else {
				for _, p := range g.split(u.amount) {
					acts = append(acts, g.recipientFor(u.asset, p, false))
				}
			}
		}
	}
	// a veto
	if r.Chance(35) {
		for _, u := range cs.Utxos {
			if u.vote != 0 && u.vh <= w.height && u.amount <= maxInt64 {
				amt := u.amount
				if r.Bool() && amt > 1 {
					amt = 1 + r.Next()%amt
				}
				acts = append(acts, &aspec{Kind: "veto", Acct: u.acct, Asset: u.asset, Amount: amt, Vote: u.vote, UU: u.where == 2 || r.Bool()})
				btmIn.Add(btmIn, bigU(amt))
				break
			}
		}
	}
	// BTM recipients and the fee
	if btmIn.Sign() > 0 {
		var fee uint64
		switch r.Intn(12) {
		case 0:
			fee = 0
		case 1:
			fee = uint64(r.Intn(20000))
		default:
			fee = 40000000 + uint64(r.Intn(60000000))
		}
		lim := btmIn
		if lim.Cmp(bigU(maxInt64)) > 0 {
			lim = bigU(maxInt64)
		}
		if lim.Uint64() > fee {
			for _, p := range g.split(lim.Uint64() - fee) {
				acts = append(acts, g.recipientFor(btmLabel, p, true))
			}
		}
	}
	if len(acts) == 0 {
		acts = append(acts, g.recipientFor(2, 5, false))
	}
	for i := len(acts) - 1; i > 0; i-- {
		j := r.Intn(i + 1)
		acts[i], acts[j] = acts[j], acts[i]
	}
	cs.Actions = acts
	// signing
	for _, k := range w.keys {
		cs.Keys = append(cs.Keys, k.label)
	}
	cs.Rounds = 2
	switch r.Intn(14) {
	case 0:
		cs.Rounds = 1
	case 1:
		cs.Rounds = 3
	case 2:
		drop := 1 + r.Intn(len(cs.Keys))
		var ks []int
		for _, k := range cs.Keys {
			if k != drop {
				ks = append(ks, k)
			}
		}
		cs.Keys = ks
	case 3:
		cs.Keys = cs.Keys[:r.Intn(len(cs.Keys))]
	}
	if r.Chance(10) {
		cs.TimeRange = cs.BHeight - 5 + uint64(r.Intn(10))
	}
	cs.UseHSM = r.Chance(6)
	if stream != "valid" {
		g.mutate(cs)
	}
	return cs
}

func (g *gen) mutate(cs *cspec) {
	r := g.r
	pick := func(kinds ...string) *aspec {
		var c []*aspec
		for _, a := range cs.Actions {
			for _, k := range kinds {
				if a.Kind == k {
					c = append(c, a)
				}
			}
		}
		if len(c) == 0 {
			return nil
		}
		return c[r.Intn(len(c))]
	}
	ins := func(a *aspec) {
		p := r.Intn(len(cs.Actions) + 1)
		cs.Actions = append(cs.Actions[:p], append([]*aspec{a}, cs.Actions[p:]...)...)
	}
	any := cs.Actions[r.Intn(len(cs.Actions))]
	switch m := r.Intn(20); m {
	case 0:
		cs.Mutation = "amount-0"
		if any.Kind != "utxo" {
			any.Amount = 0
		}
	case 1:
		cs.Mutation = "asset-absent"
		if any.Kind != "utxo" {
			any.Asset = noAsset
		}
	case 2:
		cs.Mutation = "unknown-account"
		if a := pick("spend", "veto"); a != nil {
			a.Acct = -1
		}
	case 3:
		cs.Mutation = "empty-account"
		if a := pick("spend", "veto"); a != nil {
			a.Acct = 0
		}
	case 4:
		cs.Mutation = "empty-recipient"
		if a := pick("addr", "prog", "vote"); a != nil {
			a.Prog = 0
		}
	case 5:
		cs.Mutation = "bad-address"
		if a := pick("addr", "vote"); a != nil {
			a.BadAddr = true
		}
	case 6:
		cs.Mutation = "output-amount-over-int64"
		if a := pick("addr", "prog", "retire", "vote"); a != nil {
			a.Amount = maxInt64 + 1 + uint64(r.Intn(3))
		}
	case 7:
		cs.Mutation = "insufficient"
		if a := pick("spend", "veto"); a != nil {
			a.Amount = a.Amount*4 + 50000000000000
		}
	case 8:
		cs.Mutation = "utxo-id-absent"
		ins(&aspec{Kind: "utxo", Out: 0})
	case 9:
		cs.Mutation = "utxo-unknown"
		ins(&aspec{Kind: "utxo", Out: -1, UU: r.Bool()})
	case 10:
		cs.Mutation = "utxo-twice-or-any"
		u := cs.Utxos[r.Intn(len(cs.Utxos))]
		ins(&aspec{Kind: "utxo", Out: u.label, UU: r.Bool()})
		if r.Bool() {
			ins(&aspec{Kind: "utxo", Out: u.label, UU: r.Bool()})
		}
	case 11:
		cs.Mutation = "veto-amount-0"
		a := &aspec{Kind: "veto", Acct: 1 + r.Intn(len(g.w.accts)), Asset: btmLabel, Amount: 0, Vote: r.Intn(3), UU: r.Bool()}
		for _, u := range cs.Utxos {
			if u.vote != 0 && r.Bool() {
				a.Acct, a.Vote = u.acct, u.vote
			}
		}
		ins(a)
	case 12:
		cs.Mutation = "unbalanced"
		if a := pick("addr", "prog", "retire"); a != nil {
			if r.Bool() {
				a.Amount++
			} else if a.Amount > 1 {
				a.Amount--
			}
		}
	case 13:
		cs.Mutation = "vote-output-illegal"
		if a := pick("addr"); a != nil && a.Prog != 0 && g.w.progs[a.Prog-1].addr != "" {
			a.Kind = "vote"
			a.Vote = 1 + r.Intn(3)
		}
	case 14:
		cs.Mutation = "veto-any"
		ins(&aspec{Kind: "veto", Acct: 1 + r.Intn(len(g.w.accts)), Asset: btmLabel, Amount: g.amount("valid"), Vote: r.Intn(4), UU: r.Bool()})
	case 15:
		cs.Mutation = "spend-any"
		ins(&aspec{Kind: "spend", Acct: 1 + r.Intn(len(g.w.accts)), Asset: []int{0, 2, 3, 4}[r.Intn(4)], Amount: g.amount(cs.Stream), UU: r.Bool()})
	case 16:
		cs.Mutation = "only-inputs"
		var keep []*aspec
		for _, a := range cs.Actions {
			if a.Kind == "spend" || a.Kind == "utxo" || a.Kind == "veto" {
				keep = append(keep, a)
			}
		}
		if len(keep) > 0 {
			cs.Actions = keep
		}
	case 17:
		cs.Mutation = "only-outputs"
		var keep []*aspec
		for _, a := range cs.Actions {
			if !(a.Kind == "spend" || a.Kind == "utxo" || a.Kind == "veto") {
				keep = append(keep, a)
			}
		}
		if len(keep) > 0 {
			cs.Actions = keep
		}
	case 18:
		cs.Mutation = "immature-only"
		for _, u := range cs.Utxos {
			if r.Chance(70) {
				u.vh = g.w.height + 1 + uint64(r.Intn(3))
			}
		}
	default:
		cs.Mutation = "spend-amount-over-int64"
		if a := pick("spend"); a != nil {
			a.Amount = maxInt64 + uint64(r.Intn(1000))
		}
	}
}

// ---------------------------------------------------------------- Coq case

func pairs(ps [][2]int) string {
	var it []string
	for _, p := range ps {
		it = append(it, fmt.Sprintf("(%d, %d)", p[0], p[1]))
	}
	return "[" + strings.Join(it, "; ") + "]"
}

func (w *wallet) caseCoq(cs *cspec, o *outcome) string {
	var progs, owners [][2]int
	for _, u := range cs.Utxos {
		progs = append(progs, [2]int{u.label, u.prog.label})
	}
	for _, p := range w.progs {
		if p.owner != 0 {
			owners = append(owners, [2]int{p.label, p.owner})
		}
	}
	var accts []string
	for _, a := range w.accts {
		var ks []string
		for _, k := range a.keys {
			ks = append(ks, fmt.Sprint(k))
		}
		accts = append(accts, fmt.Sprintf("(%d, (%d%%nat, [%s]))", a.label, a.quorum, strings.Join(ks, "; ")))
	}
	var vlens []string
	for i, v := range w.votes {
		vlens = append(vlens, fmt.Sprintf("(%d, %d%%Z)", i+1, len(v)))
	}
	var conf, unc, acts, keys, costs []string
	for _, u := range cs.Utxos {
		if u.where&1 != 0 {
			conf = append(conf, u.coq())
		}
		if u.where&2 != 0 {
			unc = append(unc, u.coq())
		}
	}
	for _, a := range cs.Actions {
		acts = append(acts, w.actionCoq(a))
	}
	for _, k := range cs.Keys {
		keys = append(keys, fmt.Sprint(k))
	}
	for _, c := range o.costs {
		costs = append(costs, fmt.Sprintf("%d%%Z", c))
	}
	return fmt.Sprintf("run_case %s %s [%s] [%s] [%s] [%s] %d [%s] [%s] %d%%nat %d%%Z %d%%Z %d%%Z [%s]",
		pairs(progs), pairs(owners), strings.Join(accts, "; "), strings.Join(vlens, "; "),
		strings.Join(conf, "; "), strings.Join(unc, "; "), w.height, strings.Join(acts, "; "),
		strings.Join(keys, "; "), cs.Rounds, o.size, cs.TimeRange, cs.BHeight, strings.Join(costs, "; "))
}

// ---------------------------------------------------------------- run

func sizeClass(n int) string {
	switch {
	case n == 0:
		return "0"
	case n <= 2:
		return "1-2"
	case n <= 5:
		return "3-5"
	case n <= 10:
		return "6-10"
	}
	return ">10"
}

func (w *wallet) runCase(cs *cspec, prev []*uspec) {
	c := w.c
	w.reset(prev)
	w.install(cs.Utxos)
	for _, a := range cs.Actions {
		if a.Kind == "retire" {
			w.retireProg(a) // give the retire program its label before it is observed
		}
	}
	o := w.execute(cs)
	st := c.Stats
	st.Count("stream=" + cs.Stream)
	if cs.Mutation != "" {
		st.Count("mutation=" + cs.Mutation)
	}
	st.Count("actions=" + sizeClass(len(cs.Actions)))
	st.Count("utxos=" + sizeClass(len(cs.Utxos)))
	for _, a := range cs.Actions {
		st.Count("action-kind=" + a.Kind)
	}
	both := 0
	for _, u := range cs.Utxos {
		if u.where == 3 {
			both++
		}
	}
	if both > 0 {
		st.Count("utxo-confirmed-and-unconfirmed=yes")
	}
	if cs.UseHSM {
		st.Count("signer=pseudohsm")
	} else {
		st.Count("signer=direct-chainkd")
	}
	switch o.tag {
	case 0:
		st.Count("build=ok")
		st.Count("inputs=" + sizeClass(len(o.ins)))
		st.Count("outputs=" + sizeClass(len(o.outs)))
		if o.validErr == nil {
			st.Count("verdict=valid")
		} else {
			st.Count(fmt.Sprintf("verdict=rejected-class-%d", o.verdict))
		}
		multi := false
		for _, wt := range o.wits {
			if wt[1] == "2" {
				multi = true
			}
		}
		if multi {
			st.Count("has-2-signature-witness=yes")
		}
	case 1:
		st.Count("build=error")
		for _, e := range o.errs {
			st.Count(fmt.Sprintf("build-error-class=%d", e))
		}
	default:
		st.Count("build=panic")
	}
	descr := map[string]interface{}{"case": cs}
	for _, f := range w.oracle(cs, o) {
		d := map[string]interface{}{"case": cs, "seed": c.Seed}
		if o.panicked != "" {
			d["panic"] = o.panicked
		}
		st.Fail(f, d)
	}
	key, _ := json.Marshal(descr)
	st.Case(string(key), o.tag == 0 && len(o.ins) > 0 && len(o.outs) > 0)
	if o.tag == 0 && o.validErr == nil {
		st.Sample(map[string]interface{}{"case": cs, "fee": o.fee, "inputs": len(o.ins), "outputs": len(o.outs), "size": o.size, "vm_costs": o.costs})
	}
	id := c.Cases.Add(w.caseCoq(cs, o), o.coq())
	if id < 1000 {
		st.CaseIndex[fmt.Sprint(id)] = cs
	}
}

// fixedCases: hand-written regressions (run first).
func (g *gen) fixedCases() []*cspec {
	w := g.w
	mk := func(us []*uspec, acts []*aspec) *cspec {
		cs := &cspec{Stream: "fixed", BHeight: 60, Rounds: 2, Actions: acts}
		for i, u := range us {
			u.label = i + 1
			ai := w.accts[u.acct-1]
			u.prog = ai.progs[i%len(ai.progs)]
			if u.where == 0 {
				u.where = 1
			}
			u.srcID = bc.Hash{V0: uint64(1000 + i), V1: 0xc27}
			var in *types.TxInput
			if u.vote != 0 {
				in = types.NewVetoInput(nil, u.srcID, *assetOf(u.asset), u.amount, u.srcPos, u.prog.prog, w.voteBytes(u.vote), nil)
			} else {
				in = types.NewSpendInput(nil, u.srcID, *assetOf(u.asset), u.amount, u.srcPos, u.prog.prog, nil)
			}
			u.id, _ = in.SpentOutputID()
			cs.UtxoDescr = append(cs.UtxoDescr, fmt.Sprintf("%s prog=%d where=%d", u.coq(), u.prog.label, u.where))
		}
		cs.Utxos = us
		for _, k := range w.keys {
			cs.Keys = append(cs.Keys, k.label)
		}
		return cs
	}
	ext := w.ext[0].label
	var out []*cspec
	// 1. plain payment with change, single-key account
	out = append(out, mk([]*uspec{{acct: 1, asset: 0, amount: 1000000000}},
		[]*aspec{{Kind: "spend", Acct: 1, Asset: 0, Amount: 600000000}, {Kind: "addr", Asset: 0, Amount: 500000000, Prog: ext}}))
	// 2. 2-of-3 account, two assets, merged spends
	out = append(out, mk([]*uspec{{acct: 2, asset: 0, amount: 900000000}, {acct: 2, asset: 2, amount: 70}, {acct: 2, asset: 2, amount: 50}},
		[]*aspec{{Kind: "spend", Acct: 2, Asset: 2, Amount: 40}, {Kind: "spend", Acct: 2, Asset: 0, Amount: 100000000},
			{Kind: "spend", Acct: 2, Asset: 2, Amount: 45}, {Kind: "prog", Asset: 2, Amount: 85, Prog: w.raw[0].label}}))
	// 3. veto with amount 0 and a matching vote output available (used to panic in optUTXOs)
	out = append(out, mk([]*uspec{{acct: 1, asset: 0, amount: 500000000, vote: 1}, {acct: 1, asset: 0, amount: 900000000}},
		[]*aspec{{Kind: "veto", Acct: 1, Asset: 0, Amount: 0, Vote: 1}, {Kind: "spend", Acct: 1, Asset: 0, Amount: 100000000},
			{Kind: "addr", Asset: 0, Amount: 50000000, Prog: ext}}))
	// 4. an output both confirmed and unconfirmed, request above its value
	out = append(out, mk([]*uspec{{acct: 1, asset: 0, amount: 500000000, where: 3}},
		[]*aspec{{Kind: "spend", Acct: 1, Asset: 0, Amount: 800000000, UU: true}, {Kind: "addr", Asset: 0, Amount: 700000000, Prog: ext}}))
	// 5. veto + re-vote
	out = append(out, mk([]*uspec{{acct: 3, asset: 0, amount: 700000000, vote: 2}, {acct: 3, asset: 0, amount: 400000000}},
		[]*aspec{{Kind: "veto", Acct: 3, Asset: 0, Amount: 700000000, Vote: 2}, {Kind: "spend", Acct: 3, Asset: 0, Amount: 100000000},
			{Kind: "vote", Asset: 0, Amount: 700000000, Prog: w.accts[2].progs[0].label, Vote: 1}, {Kind: "retire", Asset: 0, Amount: 1, Arb: "c27c"}}))
	return out
}

func run(c *Ctx) error {
	log.SetLevel(log.PanicLevel)
	log.SetOutput(ioutil.Discard)
	w, err := newWallet(c)
	if err != nil {
		return err
	}
	defer os.RemoveAll(w.keysDir)
	g := &gen{w: w, r: c.Rng}
	var prev []*uspec
	for _, cs := range g.fixedCases() {
		w.runCase(cs, prev)
		prev = cs.Utxos
	}
	// the chained build (SpendAccountChain): oracle only, see chain.go
	nChain := c.N(500, 3000)
	for i := 0; i < nChain; i++ {
		cs := g.chainCase()
		w.runChainCase(cs, prev)
		prev = cs.Utxos
	}
	n := c.N(900, 6000)
	for i := 0; i < n; i++ {
		stream := "valid"
		switch x := c.Rng.Intn(100); {
		case x < 55:
		case x < 88:
			stream = "malformed"
		default:
			stream = "boundary"
		}
		cs := g.newCase(stream)
		w.runCase(cs, prev)
		prev = cs.Utxos
	}
	c.Stats.Distribution["model_evaluated"] = c.Cases.Len()
	c.Stats.Rule = "nontrivial = Build succeeds with at least one funded input and one output (distinct request + UTXO set); stream chain (SpendAccountChain, oracle only: 1-12 BTM outputs of one or two accounts of the four quorum shapes on receive- and change-branch addresses, amount aimed at consuming 1..7+ of them, ChainTxUtxoNum 5 or 3, 14% requests that must not build): nontrivial = the chain has at least one merge transaction"
	header := "From Coq Require Import List ZArith NArith Bool.\nFrom C27 Require Import Model Run.\nImport ListNotations.\nOpen Scope N_scope.\n"
	return c.Cases.Write(c.Out, header, "cres", "cres_eqb")
}
