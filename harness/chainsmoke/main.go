package main

import (
	"fmt"
	"os"

	"github.com/bytom/bytom/protocol/bc"
	"github.com/bytom/bytom/protocol/bc/types"
	cl "verifharness/chainlib"
)

func main() {
	w := cl.Init(cl.DefaultOptions())
	dir, _ := os.MkdirTemp("", "smoke")
	defer os.RemoveAll(dir)
	n, err := cl.NewNode(dir)
	if err != nil {
		panic(err)
	}
	trunk := w.Trunk(w.Genesis, 17)
	for _, b := range trunk {
		orphan, err := n.Process(b.Block)
		if err != nil || orphan {
			fmt.Println("trunk block", b.Block.Height, "orphan", orphan, "err", err)
			return
		}
	}
	tip := trunk[len(trunk)-1]
	rew := trunk[4].RewardOuts()
	fmt.Println("reward outs at h5:", len(rew), rew[0].Amount())
	tx := cl.NewTx([]cl.Out{rew[0]}, []cl.OutSpec{{Amount: 500000000, Vote: w.Pubs[1][:]}, {Amount: rew[0].Amount() - 500000000 - cl.DefaultFee}}, 0)
	bx := w.NewBlock(tip, []*types.Tx{tx}, cl.BlockOpt{})
	o, err := n.Process(bx.Block)
	fmt.Println("block with tx:", o, err)
	by := w.NewBlock(tip, nil, cl.BlockOpt{Skip: 1})
	by2 := w.NewBlock(by, nil, cl.BlockOpt{})
	o, err = n.Process(by2.Block)
	fmt.Println("orphan deliver:", o, err)
	o, err = n.Process(by.Block)
	fmt.Println("parent deliver:", o, err)
	d := n.Dump([]bc.Hash{rew[0].ID(), cl.Out{tx, 0}.ID(), cl.Out{tx, 1}.ID()}, []bc.Hash{bx.Hash, by.Hash, by2.Hash}, 20)
	fmt.Println(cl.JSON(d))
	fmt.Println("expected best", by2.Hash.String())
	// a vote: key 1..3 vote genesis -> block 4
	for k := 1; k < 4; k++ {
		err := n.Chain.ProcessBlockVerification(w.Vote(k, w.Genesis.Hash, trunk[3].Hash))
		fmt.Println("vote", k, err)
	}
	fmt.Println(cl.JSON(n.Checkpoints([]bc.Hash{w.Genesis.Hash, trunk[3].Hash, trunk[7].Hash})))
	d = n.Dump(nil, nil, 0)
	fmt.Println(d.Justified, d.Finalized)
}
