package main

// C09 — program parsing and assembly are consistent.
//
// Streams (all randomness from c.Rng):
//   exhaustive : every byte string of length <= 2 (quick) / <= 3 (thorough): Go oracle on all,
//                a deterministic sample goes to the Coq model as well
//   random     : programs up to 300 bytes built from pushes (minimal and non-minimal, empty
//                PUSHDATAn), jumps (to boundaries, into instructions, past the end), OP_n,
//                expansion opcodes, plus a malformed stream (truncation, bit flips)
//   builders   : P2WPKH / P2WSH / register / call-contract / retire / coinbase programs
//                from hashes and contracts of all length classes
//   assemble   : token lists from a vocabulary (mnemonics, aliases, unknown names, hex,
//                labels, label and numeric jumps) -> text -> Assemble
// Observables compared with the model: parse result (class, (op,len,data) list),
// Disassemble tokens (labels renamed canonically), Assemble bytes, recognisers, extractors.
// Direct oracle (Go outputs only): no panic, tiling, round trip, recogniser/builder agreement.

import (
	"bytes"
	"encoding/binary"
	"encoding/hex"
	"fmt"
	"strconv"
	"strings"

	"github.com/bytom/bytom/consensus/bcrp"
	"github.com/bytom/bytom/consensus/segwit"
	"github.com/bytom/bytom/errors"
	"github.com/bytom/bytom/math/checked"
	"github.com/bytom/bytom/protocol/vm"
	"github.com/bytom/bytom/protocol/vm/vmutil"
	. "verifharness/hlib"
)

func main() { Main("C09", run, nil) }

// ---------------------------------------------------------------- safe calls

type parsed struct {
	insts    []vm.Instruction
	err      error
	panicked bool
}

func safeParse(p []byte) (r parsed) {
	defer func() {
		if x := recover(); x != nil {
			r.panicked = true
		}
	}()
	r.insts, r.err = vm.ParseProgram(p)
	return
}

type texted struct {
	s        string
	err      error
	panicked bool
}

func safeDis(p []byte) (r texted) {
	defer func() {
		if x := recover(); x != nil {
			r.panicked = true
		}
	}()
	r.s, r.err = vm.Disassemble(p)
	return
}

type bytesRes struct {
	b        []byte
	err      error
	panicked bool
}

func safeBytes(f func() ([]byte, error)) (r bytesRes) {
	defer func() {
		if x := recover(); x != nil {
			r.panicked = true
		}
	}()
	r.b, r.err = f()
	return
}
func safeAsm(s string) bytesRes { return safeBytes(func() ([]byte, error) { return vm.Assemble(s) }) }

func safeBool(f func([]byte) bool, p []byte) (v bool, panicked bool) {
	defer func() {
		if x := recover(); x != nil {
			panicked = true
		}
	}()
	return f(p), false
}

// ---------------------------------------------------------------- tokens

type token struct {
	kind string // name hex jumpl jumpn label
	name string
	data []byte
	jif  bool
	lab  string
	addr string // decimal text of a numeric jump target
}

func tokenize(s string) ([]token, bool) {
	var out []token
	for _, w := range strings.Fields(s) {
		switch {
		case strings.HasPrefix(w, "JUMP:") || strings.HasPrefix(w, "JUMPIF:"):
			jif := strings.HasPrefix(w, "JUMPIF:")
			arg := strings.TrimPrefix(strings.TrimPrefix(w, "JUMPIF:"), "JUMP:")
			if strings.HasPrefix(arg, "$") {
				out = append(out, token{kind: "jumpl", jif: jif, lab: arg})
			} else {
				if _, err := strconv.ParseUint(arg, 10, 64); err != nil {
					return nil, false
				}
				out = append(out, token{kind: "jumpn", jif: jif, addr: arg})
			}
		case strings.HasPrefix(w, "$"):
			out = append(out, token{kind: "label", lab: w})
		case strings.HasPrefix(w, "0x"):
			d, err := hex.DecodeString(w[2:])
			if err != nil {
				return nil, false
			}
			out = append(out, token{kind: "hex", data: d})
		default:
			out = append(out, token{kind: "name", name: w})
		}
	}
	return out, true
}

func (t token) text() string {
	j := "JUMP:"
	if t.jif {
		j = "JUMPIF:"
	}
	switch t.kind {
	case "name":
		return t.name
	case "hex":
		return "0x" + hex.EncodeToString(t.data)
	case "jumpl":
		return j + t.lab
	case "jumpn":
		return j + t.addr
	}
	return t.lab
}

// Coq rendering; labels renamed by first occurrence
func coqTokens(ts []token) string {
	ids := map[string]int{}
	id := func(l string) int {
		if k, ok := ids[l]; ok {
			return k
		}
		k := len(ids)
		ids[l] = k
		return k
	}
	var items []string
	for _, t := range ts {
		switch t.kind {
		case "name":
			items = append(items, fmt.Sprintf("TName \"%s\"%%string", t.name))
		case "hex":
			items = append(items, "THex "+CoqBytes(t.data))
		case "jumpl":
			items = append(items, fmt.Sprintf("TJumpL %s %d%%N", CoqBool(t.jif), id(t.lab)))
		case "jumpn":
			items = append(items, fmt.Sprintf("TJumpN %s %s%%N", CoqBool(t.jif), t.addr))
		case "label":
			items = append(items, fmt.Sprintf("TLabel %d%%N", id(t.lab)))
		}
	}
	return CoqList(items)
}

// ---------------------------------------------------------------- oracle

func isJump(i vm.Instruction) bool { return i.Op == vm.OP_JUMP || i.Op == vm.OP_JUMPIF }
func isPush(i vm.Instruction) bool {
	return i.Op <= vm.OP_PUSHDATA4 || (i.Op >= vm.OP_1 && i.Op <= vm.OP_16)
}

// tiling: consecutive offsets, lengths add up, data is the corresponding slice
func tilingFail(p []byte, is []vm.Instruction) string {
	off := uint64(0)
	for k, i := range is {
		if i.Len < 1 || off+uint64(i.Len) > uint64(len(p)) {
			return fmt.Sprintf("instruction %d at %d has length %d (program %d bytes)", k, off, i.Len, len(p))
		}
		if byte(i.Op) != p[off] {
			return fmt.Sprintf("instruction %d: opcode %#x but program byte %#x", k, byte(i.Op), p[off])
		}
		end := off + uint64(i.Len)
		switch {
		case i.Op >= vm.OP_1 && i.Op <= vm.OP_16:
			if i.Len != 1 || !bytes.Equal(i.Data, []byte{byte(i.Op) - 0x50}) {
				return fmt.Sprintf("instruction %d: small-integer push with data %x len %d", k, i.Data, i.Len)
			}
		default:
			hdr := uint64(1)
			want := -1 // expected data length, -1 = from prefix
			switch {
			case i.Op >= vm.OP_DATA_1 && i.Op <= vm.OP_DATA_75:
				want = int(i.Op)
			case i.Op == vm.OP_PUSHDATA1:
				hdr = 2
				if off+2 <= uint64(len(p)) {
					want = int(p[off+1])
				}
			case i.Op == vm.OP_PUSHDATA2:
				hdr = 3
				if off+3 <= uint64(len(p)) {
					want = int(binary.LittleEndian.Uint16(p[off+1:]))
				}
			case i.Op == vm.OP_PUSHDATA4:
				hdr = 5
				if off+5 <= uint64(len(p)) {
					want = int(binary.LittleEndian.Uint32(p[off+1:]))
				}
			case isJump(i):
				want = 4
			default:
				want = 0
			}
			if uint64(i.Len) != hdr+uint64(len(i.Data)) || want != len(i.Data) {
				return fmt.Sprintf("instruction %d (op %#x): length %d, data %d bytes, header %d, expected data %d", k, byte(i.Op), i.Len, len(i.Data), hdr, want)
			}
			if !bytes.Equal(i.Data, p[off+hdr:end]) {
				return fmt.Sprintf("instruction %d: data %x is not program[%d:%d]", k, i.Data, off+hdr, end)
			}
		}
		off = end
	}
	if off != uint64(len(p)) {
		return fmt.Sprintf("instruction lengths add up to %d, program has %d bytes", off, len(p))
	}
	return ""
}

func boundaries(is []vm.Instruction) []uint32 {
	b := []uint32{0}
	for _, i := range is {
		b = append(b, b[len(b)-1]+i.Len)
	}
	return b
}
func indexOf(b []uint32, a uint32) int {
	for k, x := range b {
		if x == a {
			return k
		}
	}
	return -1
}

// "the same instruction sequence": pushes by data, jumps by opcode and target (a target on
// the k-th boundary moves to the k-th boundary, any other target is kept), others by opcode
func sameInsts(is, is2 []vm.Instruction) string {
	if len(is) != len(is2) {
		return fmt.Sprintf("%d instructions became %d", len(is), len(is2))
	}
	b1, b2 := boundaries(is), boundaries(is2)
	for k := range is {
		a, b := is[k], is2[k]
		switch {
		case isJump(a):
			if a.Op != b.Op || len(a.Data) != 4 || len(b.Data) != 4 {
				return fmt.Sprintf("instruction %d: jump %#x became %#x", k, byte(a.Op), byte(b.Op))
			}
			t1, t2 := binary.LittleEndian.Uint32(a.Data), binary.LittleEndian.Uint32(b.Data)
			if j := indexOf(b1, t1); j >= 0 {
				if b2[j] != t2 {
					return fmt.Sprintf("instruction %d: jump to boundary %d (address %d) now goes to %d, boundary is at %d", k, j, t1, t2, b2[j])
				}
			} else if t1 != t2 {
				return fmt.Sprintf("instruction %d: jump to %d (not a boundary) became %d", k, t1, t2)
			}
		case isPush(a):
			if !isPush(b) || !bytes.Equal(a.Data, b.Data) {
				return fmt.Sprintf("instruction %d: push of %x became op %#x data %x", k, a.Data, byte(b.Op), b.Data)
			}
		default:
			if a.Op != b.Op || len(b.Data) != 0 {
				return fmt.Sprintf("instruction %d: op %#x became %#x", k, byte(a.Op), byte(b.Op))
			}
		}
	}
	return ""
}

type progObs struct {
	pr   parsed
	dis  texted
	asm  bytesRes
	recs [6]bool
}

var recognisers = []struct {
	name string
	f    func([]byte) bool
}{
	{"IsP2WPKHScript", segwit.IsP2WPKHScript}, {"IsP2WSHScript", segwit.IsP2WSHScript},
	{"IsStraightforward", segwit.IsStraightforward}, {"IsP2WScript", segwit.IsP2WScript},
	{"IsBCRPScript", bcrp.IsBCRPScript}, {"IsCallContractScript", bcrp.IsCallContractScript},
}

// runs the implementation on p and applies the oracle; returns the first failure text
func observe(p []byte) (o progObs, fail string) {
	o.pr = safeParse(p)
	if o.pr.panicked {
		return o, "class=panic: ParseProgram panics"
	}
	o.dis = safeDis(p)
	if o.dis.panicked {
		return o, "class=panic: Disassemble panics"
	}
	for k, r := range recognisers {
		v, pn := safeBool(r.f, p)
		if pn {
			return o, "class=panic: " + r.name + " panics"
		}
		o.recs[k] = v
	}
	n := 0
	for _, k := range []int{0, 1, 2, 4, 5} {
		if o.recs[k] {
			n++
		}
	}
	if n > 1 {
		return o, fmt.Sprintf("class=recognisers-overlap: %v", o.recs)
	}
	if o.recs[3] != (o.recs[0] || o.recs[1] || o.recs[2]) {
		return o, "class=recognisers-overlap: IsP2WScript is not the disjunction of its parts"
	}
	if o.pr.err != nil {
		if o.dis.err == nil {
			o.asm = safeAsm(o.dis.s)
		}
		return o, ""
	}
	if f := tilingFail(p, o.pr.insts); f != "" {
		return o, "class=tiling: " + f
	}
	if o.dis.err != nil {
		return o, "class=roundtrip-disassemble: a parsable program does not disassemble: " + o.dis.err.Error()
	}
	o.asm = safeAsm(o.dis.s)
	if o.asm.panicked {
		return o, "class=panic: Assemble panics on " + o.dis.s
	}
	if o.asm.err != nil {
		return o, fmt.Sprintf("class=roundtrip-assemble: Assemble rejects the disassembly %q: %v", o.dis.s, o.asm.err)
	}
	re := safeParse(o.asm.b)
	if re.panicked || re.err != nil {
		return o, fmt.Sprintf("class=roundtrip-reparse: re-assembled program %x does not parse", o.asm.b)
	}
	if f := sameInsts(o.pr.insts, re.insts); f != "" {
		return o, "class=roundtrip-differs: " + f
	}
	// converse shape: a recognised P2W program is the builder's output for its hash
	if o.recs[0] || o.recs[1] {
		h, err := segwit.GetHashFromStandardProg(p)
		q, _ := vmutil.P2WPKHProgram(h)
		if err != nil || !bytes.Equal(q, p) {
			return o, "class=recogniser-builder: recognised P2W program is not the builder's output for its hash"
		}
	}
	if o.recs[5] {
		// a recognised call-contract program is the builder's output for the hash it carries
		var q []byte
		if len(o.pr.insts) == 2 {
			q, _ = vmutil.CallContractProgram(o.pr.insts[1].Data)
		}
		if !bytes.Equal(q, p) {
			return o, "class=recogniser-builder: recognised call-contract program is not the builder's output for its hash"
		}
	}
	if o.recs[4] {
		c, err := bcrp.ParseContract(p)
		if err != nil || len(c) == 0 {
			return o, "class=recogniser-builder: BCRP program without a contract"
		}
	}
	return o, ""
}

// ---------------------------------------------------------------- rendering

func errCode(err error) int {
	switch errors.Root(err) {
	case nil:
		return 0
	case vm.ErrShortProgram:
		return 1
	case vm.ErrLongProgram:
		return 2
	case checked.ErrOverflow:
		return 3
	}
	return 8
}

func extObs(f func() ([]byte, error)) string {
	r := safeBytes(f)
	switch {
	case r.panicked:
		return "(2%N, []%N)"
	case r.err != nil:
		return "(1%N, []%N)"
	}
	return "(0%N, " + CoqBytes(r.b) + ")"
}

func coqProgObs(p []byte, o progObs) (string, bool) {
	code := errCode(o.pr.err)
	var insts []string
	if o.pr.err == nil {
		for _, i := range o.pr.insts {
			insts = append(insts, fmt.Sprintf("(%d%%N, %d%%N, %s)", byte(i.Op), i.Len, CoqBytes(i.Data)))
		}
	}
	dis, asm := "None", "None"
	if o.dis.err == nil {
		ts, ok := tokenize(o.dis.s)
		if !ok {
			return "", false
		}
		dis = "(Some " + coqTokens(ts) + ")"
		if o.asm.err == nil && !o.asm.panicked {
			asm = "(Some " + CoqBytes(o.asm.b) + ")"
		}
	}
	var recs []string
	for _, b := range o.recs {
		recs = append(recs, CoqBool(b))
	}
	ext := []string{
		extObs(func() ([]byte, error) { return segwit.GetHashFromStandardProg(p) }),
		extObs(func() ([]byte, error) { return bcrp.ParseContract(p) }),
		extObs(func() ([]byte, error) { h, err := bcrp.ParseContractHash(p); return h[:], err }),
	}
	return fmt.Sprintf("OProg %d%%N %s %s %s %s %s", code, CoqList(insts), dis, asm, CoqList(recs), CoqList(ext)), true
}

// ---------------------------------------------------------------- generators

func randProgram(r *Rng, st *Stats) []byte {
	var p []byte
	var bounds []int
	target := 1 + r.Intn(300)
	if r.Chance(30) {
		target = 1 + r.Intn(24)
	}
	for len(p) < target {
		bounds = append(bounds, len(p))
		switch r.Intn(12) {
		case 0, 1: // any opcode byte
			p = append(p, byte(r.Next()))
		case 2, 3: // minimal push
			n := r.Intn(80)
			if r.Chance(8) {
				n = 250 + r.Intn(20)
			}
			p = append(p, vm.PushDataBytes(r.Bytes(n))...)
		case 4: // non-minimal / empty PUSHDATAn
			n := r.Intn(4)
			if r.Chance(30) {
				n = r.Intn(90)
			}
			switch r.Intn(3) {
			case 0:
				p = append(p, 0x4c, byte(n))
			case 1:
				p = append(p, 0x4d, byte(n), 0)
			default:
				p = append(p, 0x4e, byte(n), 0, 0, 0)
			}
			p = append(p, r.Bytes(n)...)
		case 5, 6: // jump
			var a uint32
			switch r.Intn(6) {
			case 0:
				a = uint32(bounds[r.Intn(len(bounds))]) // backwards to a boundary
			case 1:
				a = uint32(len(p) + 5) // the next instruction
			case 2:
				a = uint32(r.Intn(target + 8)) // anywhere, mostly inside an instruction
			case 3:
				a = uint32(target) // around the end
			case 4:
				a = uint32(r.Next()) // far away
			default:
				a = uint32(len(p) + 5 + r.Intn(12))
			}
			var b [4]byte
			binary.LittleEndian.PutUint32(b[:], a)
			p = append(p, 0x63+byte(r.Intn(2)), b[0], b[1], b[2], b[3])
		case 7: // OP_n
			p = append(p, 0x51+byte(r.Intn(16)))
		case 8: // expansion opcodes
			ex := []byte{0x50, 0x62, 0x65, 0x8a, 0x8f, 0xa6, 0xb0, 0xc5, 0xd0, 0xff}
			p = append(p, ex[r.Intn(len(ex))])
		default: // ordinary opcodes
			p = append(p, byte(0x61+r.Intn(0x70)))
		}
	}
	// malformed stream
	switch r.Intn(10) {
	case 0:
		p = p[:r.Intn(len(p)+1)]
		st.Count("gen:truncated")
	case 1:
		if len(p) > 0 {
			p[r.Intn(len(p))] ^= 1 << uint(r.Intn(8))
		}
		st.Count("gen:bitflip")
	case 2:
		tails := [][]byte{{0x4c}, {0x4d, 1}, {0x4e, 1, 0, 0}, {0x63, 0, 0}, {0x4c, 200, 1}, {0x20, 1, 2}, {0x4e, 0xff, 0xff, 0xff, 0xff}, {0x4d, 0xff, 0xff, 1}}
		p = append(p, tails[r.Intn(len(tails))]...)
		st.Count("gen:truncated-tail")
	default:
		st.Count("gen:structured")
	}
	if len(p) > 300 {
		p = p[:300]
	}
	return p
}

var bogusNames = []string{"FOO", "PUSHDATA1", "PUSHDATA2", "PUSHDATA4", "JUMP", "JUMPIF", "NOPx5", "DATA_76", "nop", "NOPx100", "x", "DATA_0", "CHECKSIGX"}

func randTokens(r *Rng) []token {
	n := 1 + r.Intn(10)
	labels := []string{"$a", "$b", "$c", "$d"}
	var ts []token
	for k := 0; k < n; k++ {
		switch r.Intn(12) {
		case 0, 1, 2:
			ts = append(ts, token{kind: "name", name: vm.Op(byte(r.Next())).String()})
		case 3:
			if r.Chance(30) {
				ts = append(ts, token{kind: "name", name: []string{"0", "TRUE"}[r.Intn(2)]})
			} else {
				ts = append(ts, token{kind: "name", name: bogusNames[r.Intn(len(bogusNames))]})
			}
		case 4, 5:
			ln := r.Intn(6)
			if r.Chance(25) {
				ln = []int{0, 75, 76, 255, 256, 260}[r.Intn(6)]
			}
			ts = append(ts, token{kind: "hex", data: r.Bytes(ln)})
		case 6, 7:
			ts = append(ts, token{kind: "label", lab: labels[r.Intn(len(labels))]})
		case 8, 9, 10:
			ts = append(ts, token{kind: "jumpl", jif: r.Bool(), lab: labels[r.Intn(len(labels))]})
		default:
			addrs := []string{"0", "5", "77", "4294967295", "4294967296", "18446744073709551615"}
			ts = append(ts, token{kind: "jumpn", jif: r.Bool(), addr: addrs[r.Intn(len(addrs))]})
		}
	}
	if r.Chance(60) {
		// mostly-valid mode: known mnemonics, every label defined exactly once, 32-bit targets
		defined := map[string]bool{}
		var out []token
		for _, t := range ts {
			switch t.kind {
			case "name":
				if _, err := vm.Assemble(t.name); err != nil {
					t.name = vm.Op(byte(0x61 + r.Intn(0x60))).String()
					if strings.HasPrefix(t.name, "JUMP") {
						t.name = "NOP"
					}
				}
			case "label":
				if defined[t.lab] {
					continue
				}
				defined[t.lab] = true
			case "jumpn":
				if len(t.addr) > 9 {
					t.addr = "4294967295"
				}
			}
			out = append(out, t)
		}
		for _, t := range out {
			if t.kind == "jumpl" && !defined[t.lab] {
				defined[t.lab] = true
				out = append(out, token{kind: "label", lab: t.lab})
			}
		}
		ts = out
	}
	return ts
}

// ---------------------------------------------------------------- main

func run(c *Ctx) error {
	st := c.Stats
	header := "From Coq Require Import String.\nFrom Coq Require Import List NArith Bool.\nFrom Verif Require Import Outcome Cmp VM.\nFrom C09 Require Import Model Run.\nImport ListNotations.\n"

	addProg := func(p []byte, o progObs, stream string) {
		obs, ok := coqProgObs(p, o)
		if !ok {
			st.Fail("class=untokenizable: Disassemble output cannot be split into tokens", map[string]interface{}{"program": hex.EncodeToString(p), "text": o.dis.s})
			return
		}
		id := c.Cases.Add("run_prog "+CoqBytes(p), obs)
		st.CaseIndex[fmt.Sprint(id)] = map[string]interface{}{"stream": stream, "program": hex.EncodeToString(p)}
		st.Count("model_evaluated")
	}
	classify := func(p []byte, o progObs) {
		if o.pr.err != nil {
			st.Count(fmt.Sprintf("parse:err%d", errCode(o.pr.err)))
			return
		}
		st.Count("parse:ok")
		b := boundaries(o.pr.insts)
		for _, i := range o.pr.insts {
			switch {
			case isJump(i):
				if indexOf(b, binary.LittleEndian.Uint32(i.Data)) >= 0 {
					st.Count("inst:jump-to-boundary")
				} else {
					st.Count("inst:jump-elsewhere")
				}
			case i.Op >= vm.OP_PUSHDATA1 && i.Op <= vm.OP_PUSHDATA4 && len(i.Data) == 0:
				st.Count("inst:empty-pushdata")
			case i.Op >= vm.OP_PUSHDATA1 && i.Op <= vm.OP_PUSHDATA4:
				st.Count("inst:pushdata")
			case isPush(i):
				st.Count("inst:push")
			case strings.HasPrefix(i.Op.String(), "NOPx"):
				st.Count("inst:expansion")
			default:
				st.Count("inst:op")
			}
		}
	}
	check := func(p []byte, stream string, toModel bool, full bool) {
		o, fail := observe(p)
		if fail != "" {
			st.Fail(fail, map[string]interface{}{"stream": stream, "program": hex.EncodeToString(p)})
			if len(st.OracleFailures) < 20 {
				toModel = true // the first failing inputs are also shown to the model
			}
		}
		if full {
			st.Case(hex.EncodeToString(p), len(p) > 0)
			classify(p, o)
			st.Count(fmt.Sprintf("len:%d-%d", len(p)/50*50, len(p)/50*50+49))
		} else {
			st.Evaluations++
			st.DistinctNontrivial++
		}
		if toModel {
			addProg(p, o, stream)
		}
		if full && len(p)%7 == 3 {
			st.Sample(map[string]interface{}{"program": hex.EncodeToString(p), "parse_error": o.pr.err != nil, "text": o.dis.s, "reassembled": hex.EncodeToString(o.asm.b)})
		}
	}

	// ---- exhaustive small byte strings
	check([]byte{}, "exhaustive", true, true)
	for a := 0; a < 256; a++ {
		check([]byte{byte(a)}, "exhaustive", true, true)
	}
	mod2, mod3 := 53, 20011
	if c.Thorough() {
		mod2, mod3 = 11, 4001
	}
	off2, off3 := c.Rng.Intn(mod2), c.Rng.Intn(mod3)
	special := map[int]bool{0x4c: true, 0x4d: true, 0x4e: true, 0x63: true, 0x64: true, 0x01: true, 0x02: true, 0x4b: true}
	specialB := map[int]bool{0: true, 1: true, 2: true, 0x4c: true, 0x63: true, 0xff: true}
	for a := 0; a < 256; a++ {
		for b := 0; b < 256; b++ {
			sel := (a*256+b)%mod2 == off2 || (special[a] && specialB[b])
			check([]byte{byte(a), byte(b)}, "exhaustive", sel, sel)
		}
	}
	st.Count("exhaustive:len<=2")
	if c.Thorough() {
		for a := 0; a < 256; a++ {
			for b := 0; b < 256; b++ {
				for d := 0; d < 256; d++ {
					sel := (a*65536+b*256+d)%mod3 == off3
					check([]byte{byte(a), byte(b), byte(d)}, "exhaustive", sel, sel)
				}
			}
		}
		st.Count("exhaustive:len=3")
	} else {
		// quick: a sample of the three-byte strings, biased to push/jump first bytes
		for k := 0; k < 3000; k++ {
			a := byte(c.Rng.Next())
			if c.Rng.Chance(50) {
				a = []byte{0x4c, 0x4d, 0x4e, 0x63, 0x64, 0x01, 0x02, 0x03}[c.Rng.Intn(8)]
			}
			check([]byte{a, byte(c.Rng.Next()), byte(c.Rng.Next())}, "three-bytes", k%6 == 0, k%6 == 0)
		}
	}
	st.Exhaustive = true

	// ---- random programs
	nOK, nErr := 0, 0
	for k, n := 0, c.N(1300, 5000); k < n; k++ {
		p := randProgram(c.Rng, st)
		if safeParse(p).err == nil {
			nOK++
		} else {
			nErr++
		}
		check(p, "random", true, true)
	}
	if nOK*5 < nOK+nErr || nErr*20 < nOK+nErr {
		return fmt.Errorf("degenerate random stream: %d parsable, %d rejected", nOK, nErr)
	}

	// ---- many distinct jump targets: Disassemble names its labels from a fixed word list and
	// must keep them distinct when there are more targets than words (k jumps to k distinct
	// instruction starts, k around and beyond the length of the list and its multiples)
	for _, k := range []int{1, 2, 23, 24, 25, 26, 27, 28, 29, 47, 48, 49, 50, 51, 52, 53, 54, 60, 75, 100, 130} {
		for variant := 0; variant < 2; variant++ {
			var prog []byte
			for i := 0; i < k; i++ {
				// each jump targets its own NOP placed after all the jumps (5 bytes per jump)
				target := uint32(5*k + i)
				if variant == 1 { // backwards order of targets, JUMPIF for odd ones
					target = uint32(5*k + (k - 1 - i))
				}
				op := byte(0x63)
				if variant == 1 && i%2 == 1 {
					op = 0x64
				}
				prog = append(prog, op, byte(target), byte(target>>8), byte(target>>16), byte(target>>24))
			}
			for i := 0; i < k; i++ {
				prog = append(prog, 0x61)
			}
			check(prog, "many-jump-targets", k <= 60, k <= 60)
			st.Count("many-jump-targets")
		}
	}

	// ---- builders
	lens := []int{0, 1, 2, 19, 20, 21, 31, 32, 33, 74, 75, 76, 77, 254, 255, 256, 257, 290}
	for k, n := 0, c.N(60, 200); k < n; k++ {
		var ln int
		if k < len(lens) {
			ln = lens[k]
		} else if c.Rng.Chance(50) {
			ln = []int{20, 32}[c.Rng.Intn(2)]
		} else {
			ln = c.Rng.Intn(120)
		}
		h := c.Rng.Bytes(ln)
		type built struct {
			name  string
			prog  []byte
			err   error
			model string
		}
		mk := func(name string, f func([]byte) ([]byte, error), model string) built {
			b, err := f(h)
			return built{name, b, err, model + " " + CoqBytes(h)}
		}
		bs := []built{
			mk("P2WPKHProgram", vmutil.P2WPKHProgram, "p2wpkh_program"),
			mk("P2WSHProgram", vmutil.P2WSHProgram, "p2wsh_program"),
			mk("RegisterProgram", vmutil.RegisterProgram, "register_program"),
			mk("CallContractProgram", vmutil.CallContractProgram, "call_contract_program"),
			mk("RetireProgram", vmutil.RetireProgram, "retire_program"),
		}
		for _, b := range bs {
			desc := map[string]interface{}{"builder": b.name, "arg": hex.EncodeToString(h)}
			if b.err != nil {
				st.Fail("class=recogniser-builder: "+b.name+" fails", desc)
				continue
			}
			id := c.Cases.Add("OBuild ("+b.model+")", "OBuild "+CoqBytes(b.prog))
			st.CaseIndex[fmt.Sprint(id)] = desc
			st.Count("model_evaluated")
			st.Count("builder:" + b.name)
			check(b.prog, "builder:"+b.name, true, true)
			// near misses of the built program: one byte changed (tags, opcodes, lengths), and
			// only the first / only the second data push re-encoded
			if k < 40 && len(b.prog) > 0 && len(b.prog) <= 80 {
				for pos := 0; pos < len(b.prog) && pos < 8; pos++ {
					v := append([]byte{}, b.prog...)
					v[pos] ^= []byte{0x01, 0x20, 0x80}[(pos+k)%3]
					check(v, "near-miss", true, true)
				}
				for which := 0; which < 2; which++ {
					if v := reencodeOnePush(b.prog, which); v != nil {
						check(v, "near-miss", true, true)
					}
				}
				st.Count("near-miss")
			}
			// the same instructions with every data push re-encoded non-minimally (PUSHDATA1/2/4):
			// such a program is not the builder's output, so a recogniser that accepts it must
			// still satisfy the converse-shape rule of observe()
			if k < 40 && len(h) > 0 && len(h) <= 75 {
				for enc := 1; enc <= 3; enc++ {
					if v := reencodePushes(b.prog, enc); v != nil {
						check(v, "reencoded-push", true, true)
						st.Count("reencoded-push")
					}
				}
			}
		}
		builderOracle(st, h)
	}
	// the PUSHDATA2 / PUSHDATA4 length classes (oracle only: too long for the Coq side)
	for _, ln := range []int{300, 65535, 65536, 70000} {
		builderOracle(st, c.Rng.Bytes(ln))
		st.Count("builder:long-argument")
	}
	cb, _ := vmutil.DefaultCoinbaseProgram()
	id := c.Cases.Add("OBuild default_coinbase_program", "OBuild "+CoqBytes(cb))
	st.CaseIndex[fmt.Sprint(id)] = "DefaultCoinbaseProgram"
	check(cb, "builder:coinbase", true, true)

	// ---- Assemble on token lists
	for k, n := 0, c.N(500, 2000); k < n; k++ {
		ts := randTokens(c.Rng)
		var words []string
		for _, t := range ts {
			words = append(words, t.text())
		}
		text := strings.Join(words, " ")
		r := safeAsm(text)
		desc := map[string]interface{}{"stream": "assemble", "text": text}
		st.Case("asm:"+text, true)
		if r.panicked {
			st.Fail("class=panic: Assemble panics", desc)
		}
		obs := "OAsm None"
		if r.err == nil && !r.panicked {
			obs = "OAsm (Some " + CoqBytes(r.b) + ")"
			st.Count("assemble:ok")
			// what assembles must parse unless a numeric/label jump is cut short: not demanded
		} else {
			st.Count("assemble:rejected")
		}
		id := c.Cases.Add("run_asm "+coqTokens(ts), obs)
		st.CaseIndex[fmt.Sprint(id)] = desc
		st.Count("model_evaluated")
	}

	st.Rule = "every byte string of length <= 2 (thorough: <= 3) plus seeded random programs up to 300 bytes (pushes of all encodings incl. empty and non-minimal PUSHDATAn, jumps to boundaries / into instructions / past the end, OP_n, expansion opcodes; truncations and bit flips), the standard-program builders over all length classes of their argument, and token lists for Assemble; a case is non-trivial when the program is non-empty; distinct by program bytes / token text; oracle on every case: no panic, tiling, disassemble-assemble-parse round trip, recogniser/builder agreement and exclusivity; a sample of the exhaustive part and every other case is also evaluated by the Coq model (parse result, tokens, assembled bytes, recognisers, extractors)"
	return c.Cases.Write(c.Out, header, "obs", "obs_eqb")
}

// recogniser(builder(x)) and extractor(builder(x)) on the implementation alone
func builderOracle(st *Stats, h []byte) {
	desc := map[string]interface{}{"arg_len": len(h), "arg": hex.EncodeToString(h[:min(len(h), 40)])}
	fail := func(s string) { st.Fail("class=recogniser-builder: "+s, desc) }
	defer func() {
		if x := recover(); x != nil {
			st.Fail("class=panic: builder/recogniser/extractor panics", desc)
		}
	}()
	p1, _ := vmutil.P2WPKHProgram(h)
	if segwit.IsP2WPKHScript(p1) != (len(h) == 20) {
		fail(fmt.Sprintf("IsP2WPKHScript(P2WPKHProgram(h)) = %v for a %d-byte hash", segwit.IsP2WPKHScript(p1), len(h)))
	}
	p2, _ := vmutil.P2WSHProgram(h)
	if segwit.IsP2WSHScript(p2) != (len(h) == 32) {
		fail(fmt.Sprintf("IsP2WSHScript(P2WSHProgram(h)) = %v for a %d-byte hash", segwit.IsP2WSHScript(p2), len(h)))
	}
	if len(h) == 20 || len(h) == 32 {
		if g, err := segwit.GetHashFromStandardProg(p1); err != nil || !bytes.Equal(g, h) {
			fail("GetHashFromStandardProg(P2W*Program(h)) != h")
		}
	}
	p3, _ := vmutil.RegisterProgram(h)
	if bcrp.IsBCRPScript(p3) != (len(h) > 0) {
		fail(fmt.Sprintf("IsBCRPScript(RegisterProgram(c)) = %v for a %d-byte contract", bcrp.IsBCRPScript(p3), len(h)))
	}
	if g, err := bcrp.ParseContract(p3); err != nil || !bytes.Equal(g, h) {
		fail("ParseContract(RegisterProgram(c)) != c")
	}
	p4, _ := vmutil.CallContractProgram(h)
	if bcrp.IsCallContractScript(p4) != (len(h) == 32) {
		fail(fmt.Sprintf("IsCallContractScript(CallContractProgram(h)) = %v for a %d-byte hash", bcrp.IsCallContractScript(p4), len(h)))
	}
	if len(h) == 32 {
		if g, err := bcrp.ParseContractHash(p4); err != nil || !bytes.Equal(g[:], h) {
			fail("ParseContractHash(CallContractProgram(h)) != h")
		}
	}
	for _, p := range [][]byte{p1, p3, p4} {
		n := 0
		for _, k := range []int{0, 1, 2, 4, 5} {
			if recognisers[k].f(p) {
				n++
			}
		}
		if n > 1 {
			st.Fail("class=recognisers-overlap: a built program is recognised as two shapes", desc)
		}
	}
}

// reencodePushes re-writes every non-empty data push of p with PUSHDATA1 (enc 1), PUSHDATA2 (2) or
// PUSHDATA4 (3); nil when p does not parse or has no such push.
func reencodePushes(p []byte, enc int) []byte {
	pr := safeParse(p)
	if pr.panicked || pr.err != nil {
		return nil
	}
	var out []byte
	changed := false
	for _, in := range pr.insts {
		if (in.Op >= vm.OP_DATA_1 && in.Op <= vm.OP_DATA_75) || in.Op == vm.OP_PUSHDATA1 || in.Op == vm.OP_PUSHDATA2 || in.Op == vm.OP_PUSHDATA4 {
			n := len(in.Data)
			switch enc {
			case 1:
				out = append(out, byte(vm.OP_PUSHDATA1), byte(n))
			case 2:
				out = append(out, byte(vm.OP_PUSHDATA2), byte(n), byte(n>>8))
			default:
				out = append(out, byte(vm.OP_PUSHDATA4), byte(n), byte(n>>8), byte(n>>16), byte(n>>24))
			}
			out = append(out, in.Data...)
			changed = true
			continue
		}
		// copy the instruction's own bytes
		out = append(out, byte(in.Op))
		if isJump(in) {
			out = append(out, in.Data...)
		}
	}
	if !changed {
		return nil
	}
	return out
}

// reencodeOnePush re-writes only the which-th non-empty data push of p with PUSHDATA1.
func reencodeOnePush(p []byte, which int) []byte {
	pr := safeParse(p)
	if pr.panicked || pr.err != nil {
		return nil
	}
	var out []byte
	n, changed := 0, false
	for _, in := range pr.insts {
		if in.Op >= vm.OP_DATA_1 && in.Op <= vm.OP_DATA_75 {
			if n == which {
				out = append(out, byte(vm.OP_PUSHDATA1), byte(len(in.Data)))
				changed = true
			} else {
				out = append(out, byte(in.Op))
			}
			out = append(out, in.Data...)
			n++
			continue
		}
		out = append(out, byte(in.Op))
		if isJump(in) || in.Op == vm.OP_PUSHDATA1 || in.Op == vm.OP_PUSHDATA2 || in.Op == vm.OP_PUSHDATA4 {
			return nil // keep it simple: only programs of plain pushes and single-byte ops
		}
	}
	if !changed {
		return nil
	}
	return out
}

func min(a, b int) int {
	if a < b {
		return a
	}
	return b
}
