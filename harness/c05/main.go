package main

// C05 — decoding untrusted bytes never crashes and uses bounded memory.
//
// Malformed-first generator over the decoding entry points
//     types.Tx.UnmarshalText, types.TxData.UnmarshalText, types.BlockHeader.UnmarshalText,
//     types.Block.UnmarshalText,
//     chainmgr.decodeMessage + the payload accessor of the decoded message (GetBlock,
//     GetMineBlock, GetHeaders, GetBlocks, GetTransaction, GetTransactions),
//     consensusmgr.decodeMessage + GetProposeBlock
// (the two decodeMessage functions through the hooks netsync/chainmgr/decode_verif.go and
// netsync/consensusmgr/decode_verif.go).  Inputs: valid encodings of generated values, then
// truncation at every offset, the varint at every offset replaced by the boundary values
// {0, 1, old-1, old+1, 127, 128, 2^14, 2^20, 2^24, remaining, remaining+1, 2^31-1, 2^31, 2^32,
// 2^63-1, 2^63, 2^64-1}, every byte of the head replaced by type/flag/version values, bit flips,
// insertions, the empty input, random bytes, texts of odd length / with non-hex characters;
// for messages additionally every first byte 0..255.
//
// Direct oracle (implementation only, every case): the call runs under recover() — a panic is
// class=panic-<entry point>; runtime.MemStats.TotalAlloc is read before and after — more than
// 512 bytes per input byte + 64 KiB is class=alloc-not-linear.  Inputs that carry a count of
// 2^26 or more are decoded in a child process under an address-space limit, so that an
// allocation of gigabytes is a recorded failure and not the end of the run.
//
// Correspondence: result class, element counts and recorded size against the Coq model
// (C04/Model.v decoders + C05/Model.v entry points), and the measured allocation against the
// model's allocation meter (measured <= 8 x meter + 64 KiB).
//
// The three historical witnesses are fixed regression cases: tx 0701000102000000 (input with
// asset version 2: MapTx panicked), a header with sup link count 2^24 (128 MiB slice for 76
// bytes), the empty message (index out of range in both decodeMessage functions).

import (
	"bufio"
	"encoding/binary"
	"encoding/hex"
	"encoding/json"
	"fmt"
	"io/ioutil"
	"os"
	"os/exec"
	"runtime"
	"runtime/debug"
	"strings"
	"syscall"

	log "github.com/sirupsen/logrus"
	wire "github.com/tendermint/go-wire"

	"github.com/bytom/bytom/consensus"
	"github.com/bytom/bytom/netsync/chainmgr"
	"github.com/bytom/bytom/netsync/consensusmgr"
	msgs "github.com/bytom/bytom/netsync/messages"
	"github.com/bytom/bytom/protocol/bc"
	"github.com/bytom/bytom/protocol/bc/types"
	. "verifharness/hlib"
)

func main() { Main("C05", runC05, map[string]func([]string) int{"decode": childDecode}) }

const (
	allocPerByte = 512
	allocSlack   = 64 << 10
)

// ---------------------------------------------------------------- entry points

type outcome struct {
	Class int      `json:"class"` // 0 value, 1 error, 3 panic, 4 process died
	Nums  []uint64 `json:"nums"`  // counts of the decoded value
	Alloc uint64   `json:"alloc"`
	Panic string   `json:"panic,omitempty"`
	// messages: what go-wire returned (for the model, which takes the reader as a parameter)
	WireOK  bool   `json:"wire_ok,omitempty"`
	Payload string `json:"payload,omitempty"` // Coq literal of the payload
}

var entries = []string{"tx", "txdata", "header", "block", "chainmsg", "consensusmsg"}

// decode runs one entry point on one input (text for the four UnmarshalText entries, the raw
// message for the two decodeMessage entries) under recover(), measuring TotalAlloc.
func decode(entry string, in []byte) (o outcome) {
	var m0, m1 runtime.MemStats
	runtime.ReadMemStats(&m0)
	defer func() {
		if r := recover(); r != nil {
			o.Class, o.Panic = 3, fmt.Sprint(r)
		}
		runtime.ReadMemStats(&m1)
		o.Alloc = m1.TotalAlloc - m0.TotalAlloc
	}()
	switch entry {
	case "tx":
		var t types.Tx
		if err := t.UnmarshalText(in); err != nil {
			return outcome{Class: 1}
		}
		return outcome{Class: 0, Nums: []uint64{uint64(len(t.Inputs)), uint64(len(t.Outputs)), t.SerializedSize}}
	case "txdata":
		var t types.TxData
		if err := t.UnmarshalText(in); err != nil {
			return outcome{Class: 1}
		}
		return outcome{Class: 0, Nums: []uint64{uint64(len(t.Inputs)), uint64(len(t.Outputs)), t.SerializedSize}}
	case "header":
		var h types.BlockHeader
		if err := h.UnmarshalText(in); err != nil {
			return outcome{Class: 1}
		}
		return outcome{Class: 0, Nums: []uint64{uint64(len(h.SupLinks)), h.Height}}
	case "block":
		var b types.Block
		if err := b.UnmarshalText(in); err != nil {
			return outcome{Class: 1}
		}
		return outcome{Class: 0, Nums: []uint64{uint64(len(b.Transactions)), uint64(len(b.SupLinks))}}
	case "chainmsg":
		t, m, err := chainmgr.VerifDecodeMessage(in)
		if err != nil {
			return outcome{Class: 1}
		}
		o = outcome{Class: 0, WireOK: true}
		var n int
		var aerr error
		switch m := m.(type) {
		case *msgs.BlockMessage:
			o.Payload = "(PBlock " + cB(m.RawBlock) + ")"
			_, aerr = m.GetBlock()
			n = 1
		case *msgs.MineBlockMessage:
			o.Payload = "(PBlock " + cB(m.RawBlock) + ")"
			_, aerr = m.GetMineBlock()
			n = 1
		case *msgs.HeadersMessage:
			o.Payload = "(PHeaders " + cBL(m.RawHeaders) + ")"
			var hs []*types.BlockHeader
			hs, aerr = m.GetHeaders()
			n = len(hs)
		case *msgs.BlocksMessage:
			o.Payload = "(PBlocks " + cBL(m.RawBlocks) + ")"
			var bs []*types.Block
			bs, aerr = m.GetBlocks()
			n = len(bs)
		case *msgs.TransactionMessage:
			o.Payload = "(PTx " + cB(m.RawTx) + ")"
			_, aerr = m.GetTransaction()
			n = 1
		case *msgs.TransactionsMessage:
			o.Payload = "(PTxs " + cBL(m.RawTxs) + ")"
			var ts []*types.Tx
			ts, aerr = m.GetTransactions()
			n = len(ts)
		case nil:
			o.Payload = ""
		default:
			o.Payload = "POther"
		}
		if aerr != nil {
			o.Nums = []uint64{uint64(t), 1}
		} else {
			o.Nums = []uint64{uint64(t), 0, uint64(n)}
		}
		return o
	case "consensusmsg":
		t, m, err := consensusmgr.VerifDecodeMessage(in)
		if err != nil {
			return outcome{Class: 1}
		}
		o = outcome{Class: 0, WireOK: true}
		var n int
		var aerr error
		switch m := m.(type) {
		case *consensusmgr.BlockProposeMsg:
			o.Payload = "(PBlock " + cB(m.RawBlock) + ")"
			_, aerr = m.GetProposeBlock()
			n = 1
		case nil:
			o.Payload = ""
		default:
			o.Payload = "POther"
		}
		if aerr != nil {
			o.Nums = []uint64{uint64(t), 1}
		} else {
			o.Nums = []uint64{uint64(t), 0, uint64(n)}
		}
		return o
	}
	panic("harness: unknown entry " + entry)
}

// child process: "child decode": lines "<entry> <hex input>" on stdin, one JSON outcome per line
func childDecode(args []string) int {
	log.SetOutput(ioutil.Discard)
	lim := syscall.Rlimit{Cur: 6 << 30, Max: 6 << 30}
	syscall.Setrlimit(syscall.RLIMIT_AS, &lim)
	debug.SetGCPercent(50)
	sc := bufio.NewScanner(os.Stdin)
	sc.Buffer(make([]byte, 1<<20), 64<<20)
	w := bufio.NewWriter(os.Stdout)
	for sc.Scan() {
		f := strings.SplitN(sc.Text(), " ", 2)
		in, _ := hex.DecodeString(f[1])
		o := decode(f[0], in)
		js, _ := json.Marshal(o)
		w.Write(js)
		w.WriteString("\n")
		w.Flush()
	}
	return 0
}

type job struct {
	entry string
	in    []byte
}

// runInChild decodes the jobs in child processes; a job that kills its process gets class 4.
func runInChild(jobs []job) []outcome {
	res := make([]outcome, len(jobs))
	for next := 0; next < len(jobs); {
		cmd := exec.Command(os.Args[0], "child", "decode")
		var sb strings.Builder
		for _, j := range jobs[next:] {
			sb.WriteString(j.entry + " " + hex.EncodeToString(j.in) + "\n")
		}
		cmd.Stdin = strings.NewReader(sb.String())
		out, _ := cmd.Output()
		got := 0
		for _, line := range strings.Split(string(out), "\n") {
			if line == "" || next+got >= len(jobs) {
				continue
			}
			var o outcome
			if json.Unmarshal([]byte(line), &o) != nil {
				break
			}
			res[next+got] = o
			got++
		}
		next += got
		if next < len(jobs) { // the child died on this job
			res[next] = outcome{Class: 4}
			next++
		}
	}
	return res
}

// ---------------------------------------------------------------- Coq literals

func cB(b []byte) string {
	if len(b) == 0 {
		return "[]"
	}
	var sb strings.Builder
	fmt.Fprintf(&sb, "(W %d [", len(b))
	for i := 0; i < len(b); i += 7 {
		j := i + 7
		if j > len(b) {
			j = len(b)
		}
		if i > 0 {
			sb.WriteString(";")
		}
		sb.WriteString("0x" + hex.EncodeToString(b[i:j]))
	}
	sb.WriteString("]%uint63)")
	return sb.String()
}
func cBL(l [][]byte) string {
	s := make([]string, len(l))
	for i, b := range l {
		s[i] = cB(b)
	}
	return "[" + strings.Join(s, "; ") + "]"
}

// ---------------------------------------------------------------- seeds (valid encodings)

type gen struct {
	rng        *Rng
	unmappable [][]byte // encodings of generated transactions whose mapping panicked
}

func (g *gen) bytes(max int) []byte {
	if g.rng.Chance(20) {
		return nil
	}
	return g.rng.Bytes(1 + g.rng.Intn(max))
}
func (g *gen) list() [][]byte {
	n := g.rng.Intn(3)
	var l [][]byte
	for i := 0; i < n; i++ {
		l = append(l, g.bytes(6))
	}
	return l
}
func (g *gen) hash() bc.Hash {
	var b [32]byte
	copy(b[:], g.rng.Bytes(32))
	return bc.NewHash(b)
}
func (g *gen) u() uint64 {
	switch g.rng.Intn(4) {
	case 0:
		return uint64(g.rng.Intn(3))
	case 1:
		return uint64(g.rng.Intn(300))
	case 2:
		return g.rng.Next() >> 1 >> uint(g.rng.Intn(63))
	}
	return 1<<63 - 1
}
func (g *gen) sc() types.SpendCommitment {
	a := bc.AssetID(g.hash())
	return types.SpendCommitment{AssetAmount: bc.AssetAmount{AssetId: &a, Amount: g.u()}, SourceID: g.hash(),
		SourcePosition: g.u(), VMVersion: 1, ControlProgram: g.bytes(12), StateData: g.list()}
}
func (g *gen) input(allowIssuance, allowUnknown bool) *types.TxInput {
	in := &types.TxInput{AssetVersion: 1}
	if g.rng.Chance(25) {
		in.CommitmentSuffix = g.bytes(3)
	}
	if g.rng.Chance(25) {
		in.WitnessSuffix = g.bytes(3)
	}
	k := g.rng.Intn(5)
	if k == 0 && !allowIssuance {
		k = 1
	}
	if k == 4 && !allowUnknown {
		k = 3
	}
	switch k {
	case 0:
		in.TypedInput = &types.IssuanceInput{Nonce: g.bytes(8), Amount: g.u(), AssetDefinition: g.bytes(10), VMVersion: 1, IssuanceProgram: g.bytes(10), Arguments: g.list()}
	case 1:
		in.TypedInput = &types.SpendInput{Arguments: g.list(), SpendCommitment: g.sc(), SpendCommitmentSuffix: g.bytes(2)}
	case 2:
		in.TypedInput = &types.CoinbaseInput{Arbitrary: g.bytes(8)}
	case 3:
		in.TypedInput = &types.VetoInput{Arguments: g.list(), Vote: g.bytes(64), SpendCommitment: g.sc()}
	default:
		in.AssetVersion = 2 + uint64(g.rng.Intn(3))
		in.CommitmentSuffix = g.bytes(6)
	}
	return in
}
func (g *gen) output() *types.TxOutput {
	a := bc.AssetID(g.hash())
	o := types.NewOriginalTxOutput(a, g.u(), g.bytes(12), g.list())
	if g.rng.Chance(40) {
		o = types.NewVoteOutput(a, g.u(), g.bytes(12), g.bytes(64), g.list())
	}
	if g.rng.Chance(20) {
		o.CommitmentSuffix = g.bytes(3)
	}
	if g.rng.Chance(6) {
		o.AssetVersion, o.OutputCommitment = 2, types.OutputCommitment{}
	}
	return o
}
func (g *gen) tx(allowIssuance, allowUnknown bool) *types.TxData {
	tx := &types.TxData{Version: 1, TimeRange: g.u()}
	for i, n := 0, g.rng.Intn(4); i < n; i++ {
		tx.Inputs = append(tx.Inputs, g.input(allowIssuance, allowUnknown))
	}
	for i, n := 0, g.rng.Intn(4); i < n; i++ {
		tx.Outputs = append(tx.Outputs, g.output())
	}
	return tx
}
func (g *gen) header() *types.BlockHeader {
	bh := &types.BlockHeader{Version: 1, Height: g.u(), PreviousBlockHash: g.hash(), Timestamp: g.u()}
	bh.TransactionsMerkleRoot = g.hash()
	if g.rng.Chance(70) {
		bh.BlockWitness = g.rng.Bytes(64)
	}
	for i, n := 0, g.rng.Intn(4); i < n; i++ {
		sl := &types.SupLink{SourceHeight: g.u(), SourceHash: g.hash()}
		for k := range sl.Signatures {
			if g.rng.Chance(40) {
				sl.Signatures[k] = g.rng.Bytes(64)
			}
		}
		bh.SupLinks = append(bh.SupLinks, sl)
	}
	return bh
}
// newTx maps a generated transaction.  If mapping panics (it is the same MapTx the decoders run),
// the transaction's encoding is kept for the decode oracle, which reports the panic with its
// input, and a trivial transaction stands in for it.
func (g *gen) newTx(td *types.TxData) (tx *types.Tx) {
	defer func() {
		if recover() != nil {
			if raw, err := td.MarshalText(); err == nil {
				if b, err := hex.DecodeString(string(raw)); err == nil {
					g.unmappable = append(g.unmappable, b)
				}
			}
			tx = types.NewTx(types.TxData{Version: 1})
		}
	}()
	return types.NewTx(*td)
}

func (g *gen) block(allowIssuance bool) *types.Block {
	b := &types.Block{BlockHeader: *g.header()}
	for i, n := 0, g.rng.Intn(3); i < n; i++ {
		b.Transactions = append(b.Transactions, g.newTx(g.tx(allowIssuance, false)))
	}
	return b
}

func mustHex(text []byte, err error) []byte {
	if err != nil {
		panic("harness: seed does not marshal: " + err.Error())
	}
	raw, _ := hex.DecodeString(string(text))
	return raw
}

// a seed: entry point and raw valid input (raw bytes; text entries hex-encode it)
func (g *gen) seed(entry string, allowIssuance bool) []byte {
	switch entry {
	case "tx":
		return mustHex(g.tx(allowIssuance, false).MarshalText())
	case "txdata":
		return mustHex(g.tx(allowIssuance, true).MarshalText())
	case "header":
		return mustHex(g.header().MarshalText())
	case "block":
		return mustHex(g.block(allowIssuance).MarshalText())
	case "chainmsg":
		var m msgs.BlockchainMessage
		switch g.rng.Intn(9) {
		case 0:
			m, _ = msgs.NewBlockMessage(g.block(false))
		case 1:
			m, _ = msgs.NewMinedBlockMessage(g.block(false))
		case 2:
			m, _ = msgs.NewHeadersMessage([]*types.BlockHeader{g.header(), g.header()})
		case 3:
			m, _ = msgs.NewBlocksMessage([]*types.Block{g.block(false), g.block(false)})
		case 4:
			m, _ = msgs.NewTransactionMessage(g.newTx(g.tx(false, false)))
		case 5:
			m, _ = msgs.NewTransactionsMessage([]*types.Tx{g.newTx(g.tx(false, false)), g.newTx(g.tx(false, false))})
		case 6:
			h := g.hash()
			m = msgs.NewGetHeadersMessage([]*bc.Hash{&h}, &h, g.u())
		case 7:
			m = msgs.NewStatusMessage(g.header(), g.header())
		default:
			m = &msgs.GetBlockMessage{Height: g.u()}
		}
		return wire.BinaryBytes(struct{ msgs.BlockchainMessage }{m})
	case "consensusmsg":
		var m consensusmgr.ConsensusMessage
		if g.rng.Chance(60) {
			m, _ = consensusmgr.NewBlockProposeMsg(g.block(false))
		} else {
			m = consensusmgr.NewBlockVerificationMsg(g.hash(), g.hash(), g.rng.Bytes(32), g.rng.Bytes(64))
		}
		return wire.BinaryBytes(struct{ consensusmgr.ConsensusMessage }{m})
	}
	panic("harness: unknown entry")
}

// ---------------------------------------------------------------- mutations

func uvarintAt(b []byte, i int) (val uint64, n int) {
	v, k := binary.Uvarint(b[i:])
	if k <= 0 {
		return uint64(b[i]), 1
	}
	return v, k
}

func putUvarint(v uint64) []byte {
	buf := make([]byte, 10)
	return buf[:binary.PutUvarint(buf, v)]
}

func replaceAt(b []byte, i, n int, with []byte) []byte {
	out := append([]byte{}, b[:i]...)
	out = append(out, with...)
	return append(out, b[i+n:]...)
}

func boundaryValues(old uint64, remaining int) []uint64 {
	return []uint64{0, 1, old - 1, old + 1, 127, 128, 1 << 14, 1 << 20, 1 << 24, uint64(remaining), uint64(remaining) + 1,
		1<<31 - 1, 1 << 31, 1 << 32, 1<<63 - 1, 1 << 63, 1<<64 - 1}
}

var headBytes = []byte{0, 1, 2, 3, 4, 5, 7, 8, 0x10, 0x7f, 0x80, 0xff}

type mcase struct {
	entry string
	in    []byte // raw bytes (hex-encoded for the text entries unless text is set)
	text  []byte // explicit text (malformed hex)
	how   string
	huge  bool // carries a count >= 2^26: decode in the child
}

func (m *mcase) input() []byte {
	if m.text != nil {
		return m.text
	}
	if m.entry == "chainmsg" || m.entry == "consensusmsg" {
		return m.in
	}
	return []byte(hex.EncodeToString(m.in))
}

// all truncations and all varint replacements of one seed
func systematic(entry string, raw []byte, maxPos int) []mcase {
	var out []mcase
	skip := func(i int) bool { // long seeds: the head and the tail
		return len(raw) > maxPos && i >= maxPos*3/4 && i < len(raw)-maxPos/4
	}
	for i := 0; i < len(raw); i++ {
		if skip(i) {
			continue
		}
		out = append(out, mcase{entry: entry, in: append([]byte{}, raw[:i]...), how: "truncate"})
	}
	for i := 0; i < len(raw); i++ {
		if skip(i) {
			continue
		}
		old, n := uvarintAt(raw, i)
		for _, v := range boundaryValues(old, len(raw)-i-n) {
			if v == old {
				continue
			}
			out = append(out, mcase{entry: entry, in: replaceAt(raw, i, n, putUvarint(v)), how: "varint-replace", huge: v >= 1<<26})
		}
	}
	return out
}

func (g *gen) randomMutation(entry string, raw []byte) mcase {
	r := g.rng
	if len(raw) == 0 {
		return mcase{entry: entry, in: raw, how: "empty"}
	}
	switch x := r.Intn(100); {
	case x < 30:
		i := r.Intn(len(raw))
		old, n := uvarintAt(raw, i)
		vs := boundaryValues(old, len(raw)-i-n)
		v := vs[r.Intn(len(vs))]
		return mcase{entry: entry, in: replaceAt(raw, i, n, putUvarint(v)), how: "varint-replace", huge: v >= 1<<26}
	case x < 45:
		return mcase{entry: entry, in: append([]byte{}, raw[:r.Intn(len(raw))]...), how: "truncate"}
	case x < 60:
		i := r.Intn(len(raw))
		if r.Chance(50) && len(raw) > 40 {
			i = r.Intn(40)
		}
		return mcase{entry: entry, in: replaceAt(raw, i, 1, []byte{headBytes[r.Intn(len(headBytes))]}), how: "type-or-flag-byte"}
	case x < 75:
		out := append([]byte{}, raw...)
		out[r.Intn(len(out))] ^= 1 << uint(r.Intn(8))
		return mcase{entry: entry, in: out, how: "bit-flip"}
	case x < 82:
		i := r.Intn(len(raw) + 1)
		return mcase{entry: entry, in: replaceAt(raw, i, 0, r.Bytes(1+r.Intn(3))), how: "insert"}
	case x < 88:
		return mcase{entry: entry, in: append(append([]byte{}, raw...), r.Bytes(1+r.Intn(4))...), how: "trailing-bytes"}
	case x < 94:
		return mcase{entry: entry, in: r.Bytes(r.Intn(60)), how: "random-bytes"}
	default:
		return mcase{entry: entry, in: raw, how: "valid"}
	}
}

func sizeBucket(n int) string {
	switch {
	case n == 0:
		return "0"
	case n < 16:
		return "1-15"
	case n < 128:
		return "16-127"
	case n < 1024:
		return "128-1023"
	}
	return ">=1024"
}

// ---------------------------------------------------------------- the run

var chainRegs = []byte{msgs.BlockRequestByte, msgs.BlockResponseByte, msgs.HeadersRequestByte, msgs.HeadersResponseByte,
	msgs.BlocksRequestByte, msgs.BlocksResponseByte, msgs.StatusByte, msgs.NewTransactionByte, msgs.NewTransactionsByte,
	msgs.NewMineBlockByte, msgs.FilterLoadByte, msgs.FilterAddByte, msgs.FilterClearByte, msgs.MerkleRequestByte, msgs.MerkleResponseByte}
var consensusRegs = []byte{0x10, 0x11}

func regsCoq(rs []byte) string {
	s := make([]string, len(rs))
	for i, b := range rs {
		s[i] = fmt.Sprint(b)
	}
	return "[" + strings.Join(s, "; ") + "]"
}

func runC05(c *Ctx) error {
	log.SetOutput(ioutil.Discard)
	nv := consensus.MaxNumOfValidators
	st := c.Stats
	st.Extra["MaxNumOfValidators"] = nv
	st.Extra["alloc_bound"] = fmt.Sprintf("%d*len+%d (messages: + 3*MaxBlockchainResponseSize for go-wire's own byte-slice preallocation)", allocPerByte, allocSlack)
	g := &gen{rng: c.Rng}
	c.Cases.Shard = 150
	header := "From Coq Require Import List NArith Bool Uint63.\nFrom Verif Require Import Outcome Cmp.\nFrom C04 Require Import Model Run.\nFrom C05 Require Import Model Run.\nImport ListNotations.\nOpen Scope N_scope.\n"

	// warm up pools and lazily initialised tables so that one-time allocations are not charged to a case
	for _, e := range entries {
		for i := 0; i < 3; i++ {
			s := g.seed(e, true)
			decode(e, (&mcase{entry: e, in: s}).input())
		}
	}

	coqBudget := map[string]int{"tx": c.N(260, 900), "txdata": c.N(120, 400), "header": c.N(200, 700), "block": c.N(160, 500),
		"chainmsg": c.N(160, 500), "consensusmsg": c.N(60, 200)}
	coqUsed := map[string]int{}

	var hugeCases []mcase
	handle := func(m mcase, o outcome) {
		in := m.input()
		st.Count("entry." + m.entry)
		st.Count("mutation." + m.how)
		st.Count("input.len." + sizeBucket(len(in)))
		st.Count(fmt.Sprintf("result.%s.%d", m.entry, o.Class))
		desc := map[string]interface{}{"entry": m.entry, "mutation": m.how, "input": hex.EncodeToString(in), "input_len": len(in), "alloc": o.Alloc}
		if m.entry != "chainmsg" && m.entry != "consensusmsg" {
			desc["input"] = string(in)
		}
		switch o.Class {
		case 3:
			st.Fail(fmt.Sprintf("class=panic-%s: decoding panicked: %s", m.entry, o.Panic), desc)
		case 4:
			st.Fail(fmt.Sprintf("class=alloc-not-linear: %s: the process ran out of memory (address space limit 6 GiB) on an input of %d bytes", m.entry, len(in)), desc)
		}
		bound := uint64(allocPerByte*len(in) + allocSlack)
		if m.entry == "chainmsg" || m.entry == "consensusmsg" {
			bound += 3 * msgs.MaxBlockchainResponseSize // go-wire allocates a declared byte-slice length up to its limit (third party)
		}
		if o.Class != 4 && o.Alloc > bound {
			st.Fail(fmt.Sprintf("class=alloc-not-linear: %s allocated %d bytes for an input of %d bytes (bound %d)", m.entry, o.Alloc, len(in), bound), desc)
		}
		if len(in) > 0 {
			r := o.Alloc / uint64(len(in))
			switch {
			case r < 16:
				st.Count("alloc.per-byte.<16")
			case r < 64:
				st.Count("alloc.per-byte.16-63")
			case r < 256:
				st.Count("alloc.per-byte.64-255")
			default:
				st.Count("alloc.per-byte.>=256")
			}
		}
		st.Case(m.entry+"|"+string(in), o.Class == 0 || m.how != "random-bytes")
		if len(st.Samples) < 5 && (o.Class == 0 && m.how != "valid" || len(st.Samples) < 2) {
			st.Sample(desc)
		}
		// correspondence
		if coqUsed[m.entry] >= coqBudget[m.entry] || o.Class == 4 || len(in) > 3000 {
			return
		}
		nums := make([]string, len(o.Nums))
		for i, x := range o.Nums {
			nums[i] = fmt.Sprint(x)
		}
		observed := fmt.Sprintf("(%d%%nat, [%s], true)", o.Class, strings.Join(nums, "; "))
		var model string
		switch m.entry {
		case "tx":
			if m.text != nil {
				model = fmt.Sprintf("run_tx5_text %s %d", cB(m.text), o.Alloc)
			} else {
				model = fmt.Sprintf("run_tx5 %s %d", cB(m.in), o.Alloc)
			}
		case "txdata":
			if m.text != nil {
				model = "run_txdata_text " + cB(m.text)
			} else {
				model = "run_txdata " + cB(m.in)
			}
		case "header":
			if m.text != nil {
				model = fmt.Sprintf("run_header5_text %d%%nat %s %d", nv, cB(m.text), o.Alloc)
			} else {
				model = fmt.Sprintf("run_header5 %d%%nat %s %d", nv, cB(m.in), o.Alloc)
			}
		case "block":
			if m.text != nil {
				model = fmt.Sprintf("run_block5_text %d%%nat %s %d", nv, cB(m.text), o.Alloc)
			} else {
				model = fmt.Sprintf("run_block5 %d%%nat %s %d", nv, cB(m.in), o.Alloc)
			}
		case "chainmsg", "consensusmsg":
			if (strings.HasPrefix(o.Payload, "(PHeaders") || strings.HasPrefix(o.Payload, "(PBlocks")) && strings.Contains(string(in), "\\") {
				return // JSON escapes: outside the forms the model's tokenizer instance covers
			}
			regs := chainRegs
			if m.entry == "consensusmsg" {
				regs = consensusRegs
			}
			w := "(Err EWire)"
			if o.WireOK && o.Payload != "" {
				w = "(Ok " + o.Payload + ")"
			}
			model = fmt.Sprintf("run_msg %d%%nat %s %s %s", nv, regsCoq(regs), cB(in), w)
		}
		if len(model) > 16000 {
			return
		}
		coqUsed[m.entry]++
		id := c.Cases.Add(model, observed)
		st.CaseIndex[fmt.Sprint(id)] = desc
		st.Count("model_evaluated")
	}
	do := func(m mcase) {
		if m.huge {
			hugeCases = append(hugeCases, m)
			return
		}
		handle(m, decode(m.entry, m.input()))
	}

	// ---- regression witnesses
	w1, _ := hex.DecodeString("0701000102000000")
	do(mcase{entry: "tx", in: w1, how: "regression-unknown-asset-version"})
	do(mcase{entry: "txdata", in: w1, how: "regression-unknown-asset-version"})
	{
		b := &types.Block{BlockHeader: types.BlockHeader{Version: 1}}
		raw := mustHex(b.MarshalText())
		raw = append(raw[:len(raw)-1], 0x01)
		raw = append(raw, w1...)
		do(mcase{entry: "block", in: raw, how: "regression-unknown-asset-version"})
		// the same transaction / block inside every message that carries transactions or blocks:
		// the accessor must return an error like the direct decoders, not panic
		txt := func(b []byte) []byte { return []byte(hex.EncodeToString(b)) } // messages carry the text form
		okTx := txt(mustHex(g.tx(false, false).MarshalText()))
		unk := [][]byte{txt(w1), txt(mustHex(g.tx(false, true).MarshalText())), txt(mustHex(g.tx(true, true).MarshalText()))}
		for _, u := range unk {
			for _, m := range []msgs.BlockchainMessage{
				&msgs.TransactionMessage{RawTx: u},
				&msgs.TransactionsMessage{RawTxs: [][]byte{u}},
				&msgs.TransactionsMessage{RawTxs: [][]byte{okTx, u}},
				&msgs.TransactionsMessage{RawTxs: [][]byte{u, okTx, okTx}},
			} {
				do(mcase{entry: "chainmsg", in: wire.BinaryBytes(struct{ msgs.BlockchainMessage }{m}), how: "unknown-asset-version-in-message"})
			}
		}
		for _, m := range []msgs.BlockchainMessage{
			&msgs.BlockMessage{RawBlock: txt(raw)}, &msgs.MineBlockMessage{RawBlock: txt(raw)},
			&msgs.BlocksMessage{RawBlocks: [][]byte{txt(raw)}}, &msgs.BlocksMessage{RawBlocks: [][]byte{txt(mustHex(b.MarshalText())), txt(raw)}},
		} {
			do(mcase{entry: "chainmsg", in: wire.BinaryBytes(struct{ msgs.BlockchainMessage }{m}), how: "unknown-asset-version-in-message"})
		}
		do(mcase{entry: "consensusmsg", in: wire.BinaryBytes(struct{ consensusmgr.ConsensusMessage }{&consensusmgr.BlockProposeMsg{RawBlock: txt(raw)}}), how: "unknown-asset-version-in-message"})
		hraw := mustHex((&types.BlockHeader{Version: 1}).MarshalText())
		for _, cnt := range []uint64{1 << 14, 1 << 20, 1 << 24} {
			v := putUvarint(cnt)
			mut := append(append([]byte{}, hraw[:len(hraw)-2]...), byte(len(v)))
			mut = append(mut, v...)
			do(mcase{entry: "header", in: mut, how: "regression-suplink-count"})
		}
		v := putUvarint(1<<31 - 1)
		mut := append(append([]byte{}, hraw[:len(hraw)-2]...), byte(len(v)))
		do(mcase{entry: "header", in: append(mut, v...), how: "regression-suplink-count", huge: true})
		// counts chosen so that count*k wraps around 2^32 to a small number (a guard written as
		// "count * minimalElementSize > remaining" in 32-bit arithmetic lets them through),
		// followed by enough payload for such a guard to pass
		for k := uint64(3); k <= 130; k++ {
			if k > 48 && k%7 != 0 && k != 97 && k != 128 {
				continue
			}
			cnt := (uint64(1)<<32 + k - 1) / k
			v := putUvarint(cnt)
			body := append(append([]byte{}, v...), make([]byte, 160)...)
			mut := append(append([]byte{}, hraw[:len(hraw)-2]...), putUvarint(uint64(len(body)))...)
			do(mcase{entry: "header", in: append(mut, body...), how: "suplink-count-wraps-32bit", huge: true})
		}
	}
	do(mcase{entry: "chainmsg", in: []byte{}, how: "regression-empty-message"})
	do(mcase{entry: "consensusmsg", in: []byte{}, how: "regression-empty-message"})

	// ---- systematic: every truncation, every varint replaced, for small seeds of every entry
	nSys := c.N(2, 8)
	for _, e := range entries {
		for k := 0; k < nSys; k++ {
			var raw []byte
			for try := 0; try < 50; try++ {
				raw = g.seed(e, false)
				if len(raw) < c.N(140, 260) && len(raw) > 12 {
					break
				}
			}
			for _, m := range systematic(e, raw, c.N(160, 300)) {
				do(m)
			}
		}
	}
	// first byte of a message: every value
	for b := 0; b < 256; b++ {
		for _, e := range []string{"chainmsg", "consensusmsg"} {
			raw := g.seed(e, false)
			do(mcase{entry: e, in: replaceAt(raw, 0, 1, []byte{byte(b)}), how: "first-byte"})
		}
	}
	// malformed text
	for i := 0; i < c.N(60, 400); i++ {
		e := entries[g.rng.Intn(4)]
		text := []byte(hex.EncodeToString(g.seed(e, false)))
		how := "text-odd-length"
		switch g.rng.Intn(4) {
		case 0:
			text = text[:len(text)-1]
		case 1:
			bad := []byte("gGzZ xX-\x00\xff")
			text[g.rng.Intn(len(text))] = bad[g.rng.Intn(len(bad))]
			how = "text-bad-character"
		case 2:
			text = []byte(strings.ToUpper(string(text)))
			how = "text-upper-case"
		default:
			text = []byte{}
			how = "text-empty"
		}
		do(mcase{entry: e, in: nil, text: text, how: how})
	}
	// JSON payloads of headers/blocks messages: white space, null, non-strings
	for i := 0; i < c.N(40, 200); i++ {
		h := g.header()
		js, _ := json.Marshal(h)
		switch g.rng.Intn(6) {
		case 0:
			js = []byte(" " + string(js) + "\n")
		case 1:
			js = []byte("null")
		case 2:
			js = []byte("12")
		case 3:
			js = js[:len(js)-1]
		case 4:
			js = []byte("{}")
		}
		m := &msgs.HeadersMessage{RawHeaders: [][]byte{js}}
		do(mcase{entry: "chainmsg", in: wire.BinaryBytes(struct{ msgs.BlockchainMessage }{m}), how: "json-form"})
	}

	// ---- random mutations of larger seeds
	nRand := c.N(14000, 120000)
	for i := 0; i < nRand; i++ {
		e := entries[g.rng.Intn(len(entries))]
		do(g.randomMutation(e, g.seed(e, i%9 == 0)))
	}

	// ---- generated transactions the harness itself could not map: through the decoders
	for _, raw := range g.unmappable {
		do(mcase{entry: "tx", in: raw, how: "generated-value-panics-in-MapTx"})
		do(mcase{entry: "txdata", in: raw, how: "generated-value-panics-in-MapTx"})
	}
	st.Distribution["generated-unmappable"] = len(g.unmappable)

	// ---- inputs with huge counts: in child processes
	if len(hugeCases) > c.N(2500, 12000) {
		// keep a deterministic sample
		step := len(hugeCases)/c.N(2500, 12000) + 1
		var keep []mcase
		for i := 0; i < len(hugeCases); i++ {
			// regression and crafted cases are always kept; the systematic stream is sampled
			if i%step == 0 || hugeCases[i].how != "varint-replace" {
				keep = append(keep, hugeCases[i])
			}
		}
		hugeCases = keep
	}
	jobs := make([]job, len(hugeCases))
	for i, m := range hugeCases {
		jobs[i] = job{m.entry, m.input()}
	}
	for i, o := range runInChild(jobs) {
		st.Count("decoded-in-child")
		handle(hugeCases[i], o)
	}

	d := st.Distribution
	for _, e := range entries {
		if d[fmt.Sprintf("result.%s.0", e)] == 0 || d[fmt.Sprintf("result.%s.1", e)] == 0 {
			return fmt.Errorf("degenerate input stream for %s: %v", e, d)
		}
	}
	st.Rule = "entry points Tx/TxData/BlockHeader/Block.UnmarshalText and chainmgr/consensusmgr decodeMessage + payload accessor; inputs: valid encodings of generated values (0-3 inputs of every kind incl. unknown asset versions, 0-3 outputs, 0-3 sup links, 0-2 transactions per block, every message struct with a ledger payload), all truncations and all varint replacements {0,1,old±1,127,128,2^14,2^20,2^24,remaining,remaining+1,2^31-1,2^31,2^32,2^63-1,2^63,2^64-1} of small seeds, every first message byte, type/flag/version byte replacements, bit flips, insertions, trailing bytes, random bytes, empty input, odd-length / non-hex / upper-case text, JSON forms (white space, null, number, object, truncated); non-trivial = everything except rejected random bytes; oracle: no panic, TotalAlloc delta <= 512 per input byte + 64 KiB (inputs with counts >= 2^26 decoded in a child process under a 6 GiB address-space limit)"
	return c.Cases.Write(c.Out, header, "obs", "obs_eqb")
}
