package main

// C03 — transaction and block identity commit to all consensus content.
//
// Generates transactions of every input kind (issuance with asset definition, spend, veto,
// coinbase, nil typed input) and output kind (original, vote, unspendable/BCRP, unknown asset
// version) with state data, vote keys, arguments and 0-5 suffix bytes on every suffix field,
// block headers (witness, sup links) and small blocks, all from c.Rng, and
//   * the direct oracle (implementation only): for EVERY single-field mutation of the value
//     (rebuilt from scratch, so no cached id or asset id survives) the canonical dump of the
//     fields the property lists is compared before/after: dump changed => Tx.ID must change
//     (class=id-not-committing); dump unchanged (arguments, witness suffixes, SerializedSize
//     only) => Tx.ID, InputIDs, SpentOutputIDs, ResultIds must all stay
//     (class=id-depends-on-witness).  A change that stays invisible only because the output is
//     unspendable (program starts with OP_FAIL) is class=retirement-data-not-committed.
//     Across the whole run, two different dumps must never share an id.  Headers: version,
//     height, previous hash, timestamp, merkle root must change Hash(); witness and sup links
//     must not.  Blocks: replacing, swapping, removing, duplicating a transaction must change
//     the hash of the header carrying TxMerkleRoot(txs).
//   * the correspondence: Tx.ID, every InputID, SpentOutputID, the mux id and every ResultId of
//     a budgeted sample (and of one random mutant of each) and BlockHeader.Hash() are compared
//     bit-exactly with the Coq model (C03/Model.v) run with the executable SHA3-256.

import (
	"encoding/hex"
	"fmt"
	"hash/fnv"
	"strings"
	"sync"
	"time"

	"github.com/bytom/bytom/protocol/bc"
	"github.com/bytom/bytom/protocol/bc/types"
	. "verifharness/hlib"
)

func main() { Main("C03", run, nil) }

func hk(s string) string {
	h := fnv.New64a()
	h.Write([]byte(s))
	return fmt.Sprintf("%d:%x", len(s), h.Sum64())
}

// ---------------------------------------------------------------- generator

type gen struct {
	rng   *Rng
	small bool // short values (model-evaluated cases)
}

func (g *gen) bytes(max int) []byte {
	r := g.rng
	switch x := r.Intn(100); {
	case x < 10:
		return nil
	case x < 16:
		return []byte{}
	case x < 95 || g.small:
		return r.Bytes(1 + r.Intn(max))
	default:
		return r.Bytes(120 + r.Intn(20)) // around the 1-byte/2-byte length prefix boundary
	}
}

func (g *gen) suffix() []byte {
	r := g.rng
	switch x := r.Intn(100); {
	case x < 50:
		return nil
	case x < 55:
		return []byte{}
	default:
		return r.Bytes(1 + r.Intn(5))
	}
}

func (g *gen) list() [][]byte {
	r := g.rng
	switch x := r.Intn(100); {
	case x < 30:
		return nil
	case x < 36:
		return [][]byte{}
	default:
		n := 1 + r.Intn(3)
		l := make([][]byte, n)
		for i := range l {
			l[i] = g.bytes(10)
		}
		return l
	}
}

var boundaries = []uint64{0, 1, 2, 127, 128, 255, 256, 65535, 65536, 1<<31 - 1, 1 << 31, 1<<32 - 1, 1 << 32,
	1<<56 - 1, 1 << 56, 1<<63 - 1, 1 << 63, 1<<64 - 2, 1<<64 - 1}

// any uint64: writeForHash writes 8 bytes, there is no 63-bit limit in MapTx
func (g *gen) u64() uint64 {
	r := g.rng
	switch x := r.Intn(100); {
	case x < 30:
		return boundaries[r.Intn(len(boundaries))]
	case x < 60:
		return uint64(r.Intn(1000))
	default:
		return r.Next() >> uint(r.Intn(64))
	}
}

func (g *gen) hash() bc.Hash {
	var b [32]byte
	if g.rng.Chance(6) {
		return bc.Hash{}
	}
	copy(b[:], g.rng.Bytes(32))
	return bc.NewHash(b)
}

func (g *gen) assetID() *bc.AssetID {
	if g.rng.Chance(15) {
		a := bc.AssetID{V0: ^uint64(0), V1: ^uint64(0), V2: ^uint64(0), V3: ^uint64(0)} // BTM
		return &a
	}
	a := bc.AssetID(g.hash())
	return &a
}

// control program: mostly spendable, sometimes unspendable (OP_FAIL first), sometimes a BCRP registration
func (g *gen) program(allowFail bool) []byte {
	r := g.rng
	if allowFail && r.Chance(12) {
		switch r.Intn(3) {
		case 0:
			return []byte{0x6a}
		case 1:
			return append([]byte{0x6a}, r.Bytes(1+r.Intn(8))...)
		default:
			c := r.Bytes(1 + r.Intn(6))
			p := []byte{0x6a, 0x04, 'b', 'c', 'r', 'p', 0x01, 0x01, byte(len(c))}
			return append(p, c...)
		}
	}
	p := g.bytes(24)
	if len(p) > 0 && p[0] == 0x6a && !(allowFail && r.Chance(30)) {
		p[0] = 0x6b
	}
	return p
}

func (g *gen) spendCommitment() types.SpendCommitment {
	sc := types.SpendCommitment{
		AssetAmount:    bc.AssetAmount{AssetId: g.assetID(), Amount: g.u64()},
		SourceID:       g.hash(),
		SourcePosition: g.u64(),
		VMVersion:      1,
		ControlProgram: g.program(true),
		StateData:      g.list(),
	}
	if g.rng.Chance(15) {
		sc.VMVersion = g.u64()
	}
	return sc
}

// kinds: 0 issuance 1 spend 2 coinbase 3 veto 4 nil typed input
func (g *gen) input(kind int) *types.TxInput {
	in := &types.TxInput{AssetVersion: 1, CommitmentSuffix: g.suffix(), WitnessSuffix: g.suffix()}
	if g.rng.Chance(5) {
		in.AssetVersion = g.u64()
	}
	switch kind {
	case 0:
		ii := &types.IssuanceInput{Nonce: g.bytes(12), Amount: g.u64(), AssetDefinition: g.bytes(24),
			VMVersion: 1, IssuanceProgram: g.bytes(24), Arguments: g.list()}
		if g.rng.Chance(25) {
			ii.VMVersion = g.u64()
		}
		in.TypedInput = ii
	case 1:
		in.TypedInput = &types.SpendInput{SpendCommitmentSuffix: g.suffix(), Arguments: g.list(), SpendCommitment: g.spendCommitment()}
	case 2:
		in.TypedInput = &types.CoinbaseInput{Arbitrary: g.bytes(16)}
	case 3:
		in.TypedInput = &types.VetoInput{VetoCommitmentSuffix: g.suffix(), Arguments: g.list(), Vote: g.bytes(64), SpendCommitment: g.spendCommitment()}
	default:
		in.AssetVersion = 2
	}
	return in
}

var originalTyped = types.NewOriginalTxOutput(bc.AssetID{}, 0, nil, nil).TypedOutput

func (g *gen) output() *types.TxOutput {
	r := g.rng
	out := &types.TxOutput{AssetVersion: 1, CommitmentSuffix: g.suffix()}
	if r.Chance(40) {
		out.TypedOutput = &types.VoteOutput{Vote: g.bytes(64)}
	} else {
		out.TypedOutput = originalTyped
	}
	if r.Chance(4) { // unknown asset version as decoded: no commitment at all
		out.AssetVersion = 2 + uint64(r.Intn(5))
		return out
	}
	out.OutputCommitment = types.OutputCommitment{AssetAmount: bc.AssetAmount{AssetId: g.assetID(), Amount: g.u64()},
		VMVersion: 1, ControlProgram: g.program(true), StateData: g.list()}
	if r.Chance(15) {
		out.VMVersion = g.u64()
	}
	return out
}

func (g *gen) tx() *types.TxData {
	r := g.rng
	tx := &types.TxData{Version: 1, TimeRange: g.u64(), SerializedSize: g.u64()}
	if r.Chance(35) {
		tx.Version = g.u64()
	}
	nin, nout := r.Intn(4), 1+r.Intn(3)
	if !g.small {
		nin, nout = r.Intn(6), 1+r.Intn(5)
		if r.Chance(2) {
			nin, nout = 20+r.Intn(120), 100+r.Intn(60) // 2-byte counts in mux and header
		}
	}
	if r.Chance(5) {
		nout = 0
	}
	for i := 0; i < nin; i++ {
		k := r.Intn(4)
		if k == 0 && g.small && r.Chance(50) { // issuances cost five SHA3 evaluations in the model
			k = 1
		}
		if r.Chance(1) {
			k = 4
		}
		if i > 0 && r.Chance(6) { // the same input twice
			tx.Inputs = append(tx.Inputs, cloneInput(tx.Inputs[i-1]))
			continue
		}
		tx.Inputs = append(tx.Inputs, g.input(k))
	}
	for i := 0; i < nout; i++ {
		if i > 0 && r.Chance(6) {
			tx.Outputs = append(tx.Outputs, cloneOutput(tx.Outputs[i-1]))
			continue
		}
		tx.Outputs = append(tx.Outputs, g.output())
	}
	return tx
}

func (g *gen) supLink() *types.SupLink {
	sl := &types.SupLink{SourceHeight: g.u64(), SourceHash: g.hash()}
	for i := range sl.Signatures {
		if g.rng.Chance(40) {
			sl.Signatures[i] = g.rng.Bytes(64)
		}
	}
	return sl
}

func (g *gen) header() *types.BlockHeader {
	r := g.rng
	bh := &types.BlockHeader{Version: g.u64(), Height: g.u64(), PreviousBlockHash: g.hash(), Timestamp: g.u64()}
	if r.Chance(50) {
		bh.Version = 1
	}
	bh.TransactionsMerkleRoot = g.hash()
	if r.Chance(80) {
		bh.BlockWitness = r.Bytes(64)
	}
	for i, n := 0, r.Intn(4); i < n; i++ {
		bh.SupLinks = append(bh.SupLinks, g.supLink())
	}
	return bh
}

// ---------------------------------------------------------------- deep copies (fresh structs: no cached ids)

func cp(b []byte) []byte {
	if b == nil {
		return nil
	}
	return append([]byte{}, b...)
}
func cpl(l [][]byte) [][]byte {
	if l == nil {
		return nil
	}
	r := make([][]byte, len(l))
	for i := range l {
		r[i] = cp(l[i])
	}
	return r
}
func cpAsset(a *bc.AssetID) *bc.AssetID {
	if a == nil {
		return nil
	}
	b := *a
	return &b
}
func cloneSC(sc types.SpendCommitment) types.SpendCommitment {
	return types.SpendCommitment{AssetAmount: bc.AssetAmount{AssetId: cpAsset(sc.AssetId), Amount: sc.Amount},
		SourceID: sc.SourceID, SourcePosition: sc.SourcePosition, VMVersion: sc.VMVersion,
		ControlProgram: cp(sc.ControlProgram), StateData: cpl(sc.StateData)}
}
func cloneInput(in *types.TxInput) *types.TxInput {
	r := &types.TxInput{AssetVersion: in.AssetVersion, CommitmentSuffix: cp(in.CommitmentSuffix), WitnessSuffix: cp(in.WitnessSuffix)}
	switch t := in.TypedInput.(type) {
	case *types.IssuanceInput:
		r.TypedInput = &types.IssuanceInput{Nonce: cp(t.Nonce), Amount: t.Amount, AssetDefinition: cp(t.AssetDefinition),
			VMVersion: t.VMVersion, IssuanceProgram: cp(t.IssuanceProgram), Arguments: cpl(t.Arguments)}
	case *types.SpendInput:
		r.TypedInput = &types.SpendInput{SpendCommitmentSuffix: cp(t.SpendCommitmentSuffix), Arguments: cpl(t.Arguments), SpendCommitment: cloneSC(t.SpendCommitment)}
	case *types.CoinbaseInput:
		r.TypedInput = &types.CoinbaseInput{Arbitrary: cp(t.Arbitrary)}
	case *types.VetoInput:
		r.TypedInput = &types.VetoInput{VetoCommitmentSuffix: cp(t.VetoCommitmentSuffix), Arguments: cpl(t.Arguments), Vote: cp(t.Vote), SpendCommitment: cloneSC(t.SpendCommitment)}
	}
	return r
}
func cloneOutput(o *types.TxOutput) *types.TxOutput {
	r := &types.TxOutput{AssetVersion: o.AssetVersion, CommitmentSuffix: cp(o.CommitmentSuffix)}
	r.OutputCommitment = types.OutputCommitment{AssetAmount: bc.AssetAmount{AssetId: cpAsset(o.AssetId), Amount: o.Amount},
		VMVersion: o.VMVersion, ControlProgram: cp(o.ControlProgram), StateData: cpl(o.StateData)}
	if v, ok := o.TypedOutput.(*types.VoteOutput); ok {
		r.TypedOutput = &types.VoteOutput{Vote: cp(v.Vote)}
	} else {
		r.TypedOutput = originalTyped
	}
	return r
}
func cloneTx(tx *types.TxData) *types.TxData {
	r := &types.TxData{Version: tx.Version, SerializedSize: tx.SerializedSize, TimeRange: tx.TimeRange}
	for _, in := range tx.Inputs {
		r.Inputs = append(r.Inputs, cloneInput(in))
	}
	for _, o := range tx.Outputs {
		r.Outputs = append(r.Outputs, cloneOutput(o))
	}
	return r
}
func cloneHeader(bh *types.BlockHeader) *types.BlockHeader {
	r := *bh
	r.BlockWitness = cp(bh.BlockWitness)
	r.SupLinks = nil
	for _, sl := range bh.SupLinks {
		c := *sl
		for i := range c.Signatures {
			c.Signatures[i] = cp(sl.Signatures[i])
		}
		r.SupLinks = append(r.SupLinks, &c)
	}
	return &r
}

// ---------------------------------------------------------------- Coq literals

func cB(b []byte) string {
	if len(b) == 0 {
		return "[]"
	}
	var sb strings.Builder
	fmt.Fprintf(&sb, "(W %d [", len(b))
	for i := 0; i < len(b); i += 7 {
		j := i + 7
		if j > len(b) {
			j = len(b)
		}
		if i > 0 {
			sb.WriteString(";")
		}
		sb.WriteString("0x" + hex.EncodeToString(b[i:j]))
	}
	sb.WriteString("]%uint63)")
	return sb.String()
}
func cBL(l [][]byte) string {
	s := make([]string, len(l))
	for i, b := range l {
		s[i] = cB(b)
	}
	return "[" + strings.Join(s, "; ") + "]"
}
func cHash(h bc.Hash) string { return cB(h.Bytes()) }
func assetBytes(a *bc.AssetID) []byte {
	if a == nil {
		return make([]byte, 32)
	}
	return a.Bytes()
}
func cSC(sc *types.SpendCommitment) string {
	return fmt.Sprintf("(mkSC %s %s %d %d %d %s %s)", cHash(sc.SourceID), cB(assetBytes(sc.AssetId)), sc.Amount,
		sc.SourcePosition, sc.VMVersion, cB(sc.ControlProgram), cBL(sc.StateData))
}
func cInput(in *types.TxInput) string {
	ty := "None"
	switch t := in.TypedInput.(type) {
	case *types.IssuanceInput:
		ty = fmt.Sprintf("(Some (Issuance %s %d %s %d %s %s))", cB(t.Nonce), t.Amount, cB(t.AssetDefinition), t.VMVersion,
			cB(t.IssuanceProgram), cBL(t.Arguments))
	case *types.SpendInput:
		ty = fmt.Sprintf("(Some (Spend %s %s %s))", cSC(&t.SpendCommitment), cB(t.SpendCommitmentSuffix), cBL(t.Arguments))
	case *types.CoinbaseInput:
		ty = fmt.Sprintf("(Some (Coinbase %s))", cB(t.Arbitrary))
	case *types.VetoInput:
		ty = fmt.Sprintf("(Some (Veto %s %s %s %s))", cSC(&t.SpendCommitment), cB(t.VetoCommitmentSuffix), cB(t.Vote), cBL(t.Arguments))
	}
	return fmt.Sprintf("(mkIn %d %s %s %s)", in.AssetVersion, ty, cB(in.CommitmentSuffix), cB(in.WitnessSuffix))
}
func zeroCommitment(o *types.TxOutput) bool {
	return o.AssetId == nil && o.Amount == 0 && o.VMVersion == 0 && len(o.ControlProgram) == 0 && len(o.StateData) == 0
}
func cOutput(o *types.TxOutput) string {
	ty := "OutOriginal"
	if v, ok := o.TypedOutput.(*types.VoteOutput); ok {
		ty = "(OutVote " + cB(v.Vote) + ")"
	}
	oc := "None"
	if !zeroCommitment(o) {
		oc = fmt.Sprintf("(Some (mkOC %s %d %d %s %s))", cB(assetBytes(o.AssetId)), o.Amount, o.VMVersion, cB(o.ControlProgram), cBL(o.StateData))
	}
	return fmt.Sprintf("(mkOut %d %s %s %s)", o.AssetVersion, ty, oc, cB(o.CommitmentSuffix))
}
func cTx(tx *types.TxData) string {
	ins := make([]string, len(tx.Inputs))
	for i, in := range tx.Inputs {
		ins[i] = cInput(in)
	}
	outs := make([]string, len(tx.Outputs))
	for i, o := range tx.Outputs {
		outs[i] = cOutput(o)
	}
	return fmt.Sprintf("(mkTx %d %d %d [%s] [%s])", tx.Version, tx.SerializedSize, tx.TimeRange, strings.Join(ins, "; "), strings.Join(outs, "; "))
}
func cHeader(bh *types.BlockHeader) string {
	sls := make([]string, len(bh.SupLinks))
	for i, sl := range bh.SupLinks {
		sigs := make([][]byte, len(sl.Signatures))
		copy(sigs, sl.Signatures[:])
		sls[i] = fmt.Sprintf("(mkSL %d %s %s)", sl.SourceHeight, cHash(sl.SourceHash), cBL(sigs))
	}
	return fmt.Sprintf("(mkBH %d %d %s %d %s %s [%s])", bh.Version, bh.Height, cHash(bh.PreviousBlockHash), bh.Timestamp,
		cHash(bh.TransactionsMerkleRoot), cB(bh.BlockWitness), strings.Join(sls, "; "))
}

// ---------------------------------------------------------------- the property's field list (canonical dumps)

func kB(b []byte) string { return fmt.Sprintf("%d:%x", len(b), b) }
func kL(l [][]byte) string {
	s := make([]string, len(l))
	for i, b := range l {
		s[i] = kB(b)
	}
	return fmt.Sprintf("%d[%s]", len(l), strings.Join(s, ","))
}
func kSC(sc *types.SpendCommitment) string {
	return fmt.Sprintf("src=%x asset=%x amount=%d pos=%d vm=%d prog=%s state=%s", sc.SourceID.Bytes(), assetBytes(sc.AssetId),
		sc.Amount, sc.SourcePosition, sc.VMVersion, kB(sc.ControlProgram), kL(sc.StateData))
}

// an input's commitment (no arguments, no suffixes)
func keyInput(in *types.TxInput) string {
	switch t := in.TypedInput.(type) {
	case *types.IssuanceInput:
		return fmt.Sprintf("issuance nonce=%s amount=%d def=%s vm=%d prog=%s", kB(t.Nonce), t.Amount, kB(t.AssetDefinition), t.VMVersion, kB(t.IssuanceProgram))
	case *types.SpendInput:
		return "spend " + kSC(&t.SpendCommitment)
	case *types.CoinbaseInput:
		return "coinbase " + kB(t.Arbitrary)
	case *types.VetoInput:
		return "veto " + kSC(&t.SpendCommitment) + " vote=" + kB(t.Vote)
	}
	return "nil"
}

func isUnspendable(prog []byte) bool { return len(prog) > 0 && prog[0] == 0x6a }

// an output's asset, amount, program (with VM version), state data, kind and vote key;
// effective: an unspendable output keeps asset and amount only
func keyOutput(o *types.TxOutput, effective bool) string {
	if effective && isUnspendable(o.ControlProgram) {
		return fmt.Sprintf("retired asset=%x amount=%d", assetBytes(o.AssetId), o.Amount)
	}
	kind := "original"
	if v, ok := o.TypedOutput.(*types.VoteOutput); ok {
		kind = "vote=" + kB(v.Vote)
	}
	return fmt.Sprintf("%s asset=%x amount=%d vm=%d prog=%s state=%s", kind, assetBytes(o.AssetId), o.Amount, o.VMVersion, kB(o.ControlProgram), kL(o.StateData))
}

func keyTx(tx *types.TxData, effective bool) string {
	var sb strings.Builder
	fmt.Fprintf(&sb, "version=%d timerange=%d inputs=%d outputs=%d", tx.Version, tx.TimeRange, len(tx.Inputs), len(tx.Outputs))
	for _, in := range tx.Inputs {
		sb.WriteString("\n in " + keyInput(in))
	}
	for _, o := range tx.Outputs {
		sb.WriteString("\n out " + keyOutput(o, effective))
	}
	return sb.String()
}

func keyHeader(bh *types.BlockHeader) string {
	return fmt.Sprintf("version=%d height=%d prev=%x ts=%d root=%x", bh.Version, bh.Height, bh.PreviousBlockHash.Bytes(), bh.Timestamp, bh.TransactionsMerkleRoot.Bytes())
}

// ---------------------------------------------------------------- running the implementation

type txInfo struct {
	tx       *types.TxData
	panicked bool
	id       bc.Hash
	inputs   []bc.Hash
	spent    []bc.Hash
	mux      bc.Hash
	results  []bc.Hash
	keyC     string
	keyE     string
}

func mapTx(tx *types.TxData) (info *txInfo) {
	info = &txInfo{tx: tx, keyC: keyTx(tx, false), keyE: keyTx(tx, true)}
	defer func() {
		if r := recover(); r != nil {
			info.panicked = true
		}
	}()
	m := types.MapTx(tx)
	info.id = m.ID
	info.inputs = append(info.inputs, m.InputIDs...)
	info.spent = append(info.spent, m.SpentOutputIDs...)
	for _, r := range m.ResultIds {
		info.results = append(info.results, *r)
	}
	for id, e := range m.Entries {
		if _, ok := e.(*bc.Mux); ok {
			info.mux = id
		}
	}
	return info
}

func sameHashes(a, b []bc.Hash) bool {
	if len(a) != len(b) {
		return false
	}
	for i := range a {
		if a[i] != b[i] {
			return false
		}
	}
	return true
}

func (t *txInfo) obsCoq() string {
	if t.panicked {
		return "[]"
	}
	items := []string{cHash(t.id)}
	for _, h := range t.inputs {
		items = append(items, cHash(h))
	}
	items = append(items, "[]")
	for _, h := range t.spent {
		items = append(items, cHash(h))
	}
	items = append(items, "[]", cHash(t.mux))
	for _, h := range t.results {
		items = append(items, cHash(h))
	}
	return "[" + strings.Join(items, "; ") + "]"
}

// ---------------------------------------------------------------- single-field mutations

const (
	mCommitted  = 0 // a field the property lists: the id must change
	mWitness    = 1 // arguments, witness suffixes, SerializedSize: the id must stay
	mUndemanded = 2 // asset versions, commitment suffixes: the property says nothing
)

type mutation struct {
	name  string
	kind  int
	apply func(tx *types.TxData)
}

func (g *gen) mutU64(x uint64) uint64 {
	switch g.rng.Intn(4) {
	case 0:
		return x + 1
	case 1:
		return x - 1
	case 2:
		return x ^ (1 << uint(g.rng.Intn(64)))
	default:
		y := g.u64()
		if y == x {
			y = x + 256
		}
		return y
	}
}

// always a different byte string
func (g *gen) mutBytes(b []byte) []byte {
	r := g.rng
	if len(b) == 0 {
		return r.Bytes(1 + r.Intn(3))
	}
	c := cp(b)
	switch r.Intn(6) {
	case 0:
		return append(c, byte(r.Next()))
	case 1:
		return append(c, 0)
	case 2:
		return c[:len(c)-1]
	case 3:
		return c[1:]
	default:
		c[r.Intn(len(c))] ^= 1 << uint(r.Intn(8))
		return c
	}
}

// always a different list
func (g *gen) mutList(l [][]byte) [][]byte {
	r := g.rng
	c := cpl(l)
	if len(c) == 0 {
		if r.Bool() {
			return [][]byte{{}}
		}
		return [][]byte{r.Bytes(1 + r.Intn(3))}
	}
	switch r.Intn(6) {
	case 0:
		return append(c, []byte{})
	case 1:
		return append(c, r.Bytes(1+r.Intn(3)))
	case 2:
		return c[:len(c)-1]
	case 3:
		return c[1:]
	case 4:
		if len(c) >= 2 && string(c[0]) != string(c[len(c)-1]) {
			c[0], c[len(c)-1] = c[len(c)-1], c[0]
			return c
		}
		fallthrough
	default:
		i := r.Intn(len(c))
		c[i] = g.mutBytes(c[i])
		return c
	}
}

func (g *gen) mutHash(h bc.Hash) bc.Hash {
	b := h.Byte32()
	b[g.rng.Intn(32)] ^= 1 << uint(g.rng.Intn(8))
	return bc.NewHash(b)
}

func (g *gen) mutAsset(a *bc.AssetID) *bc.AssetID {
	var h bc.Hash
	if a != nil {
		h = bc.Hash(*a)
	}
	n := bc.AssetID(g.mutHash(h))
	return &n
}

func (g *gen) scMutations(pre string, get func(tx *types.TxData) *types.SpendCommitment) []mutation {
	return []mutation{
		{pre + ".SourceID", mCommitted, func(tx *types.TxData) { sc := get(tx); sc.SourceID = g.mutHash(sc.SourceID) }},
		{pre + ".AssetId", mCommitted, func(tx *types.TxData) { sc := get(tx); sc.AssetId = g.mutAsset(sc.AssetId) }},
		{pre + ".Amount", mCommitted, func(tx *types.TxData) { sc := get(tx); sc.Amount = g.mutU64(sc.Amount) }},
		{pre + ".SourcePosition", mCommitted, func(tx *types.TxData) { sc := get(tx); sc.SourcePosition = g.mutU64(sc.SourcePosition) }},
		{pre + ".VMVersion", mCommitted, func(tx *types.TxData) { sc := get(tx); sc.VMVersion = g.mutU64(sc.VMVersion) }},
		{pre + ".ControlProgram", mCommitted, func(tx *types.TxData) { sc := get(tx); sc.ControlProgram = g.mutBytes(sc.ControlProgram) }},
		{pre + ".StateData", mCommitted, func(tx *types.TxData) { sc := get(tx); sc.StateData = g.mutList(sc.StateData) }},
	}
}

// every single-field mutation of tx
func (g *gen) mutations(tx *types.TxData) []mutation {
	ms := []mutation{
		{"Version", mCommitted, func(t *types.TxData) { t.Version = g.mutU64(t.Version) }},
		{"TimeRange", mCommitted, func(t *types.TxData) { t.TimeRange = g.mutU64(t.TimeRange) }},
		{"SerializedSize", mWitness, func(t *types.TxData) { t.SerializedSize = g.mutU64(t.SerializedSize) }},
	}
	for i, in := range tx.Inputs {
		i := i
		pre := fmt.Sprintf("Inputs[%d]", i)
		ms = append(ms,
			mutation{pre + ".AssetVersion", mUndemanded, func(t *types.TxData) { t.Inputs[i].AssetVersion = g.mutU64(t.Inputs[i].AssetVersion) }},
			mutation{pre + ".CommitmentSuffix", mUndemanded, func(t *types.TxData) { t.Inputs[i].CommitmentSuffix = g.mutBytes(t.Inputs[i].CommitmentSuffix) }},
			mutation{pre + ".WitnessSuffix", mWitness, func(t *types.TxData) { t.Inputs[i].WitnessSuffix = g.mutBytes(t.Inputs[i].WitnessSuffix) }},
			mutation{pre + ":removed", mCommitted, func(t *types.TxData) { t.Inputs = append(t.Inputs[:i:i], t.Inputs[i+1:]...) }},
			mutation{pre + ":duplicated", mCommitted, func(t *types.TxData) {
				ins := append([]*types.TxInput{}, t.Inputs[:i+1]...)
				ins = append(ins, cloneInput(t.Inputs[i]))
				t.Inputs = append(ins, t.Inputs[i+1:]...)
			}})
		if i+1 < len(tx.Inputs) {
			ms = append(ms, mutation{pre + ":swapped-with-next", mCommitted, func(t *types.TxData) { t.Inputs[i], t.Inputs[i+1] = t.Inputs[i+1], t.Inputs[i] }})
		}
		switch in.TypedInput.(type) {
		case *types.IssuanceInput:
			p := pre + ".Issuance"
			get := func(t *types.TxData) *types.IssuanceInput { return t.Inputs[i].TypedInput.(*types.IssuanceInput) }
			ms = append(ms,
				mutation{p + ".Nonce", mCommitted, func(t *types.TxData) { x := get(t); x.Nonce = g.mutBytes(x.Nonce) }},
				mutation{p + ".Amount", mCommitted, func(t *types.TxData) { x := get(t); x.Amount = g.mutU64(x.Amount) }},
				mutation{p + ".AssetDefinition", mCommitted, func(t *types.TxData) { x := get(t); x.AssetDefinition = g.mutBytes(x.AssetDefinition) }},
				mutation{p + ".VMVersion", mCommitted, func(t *types.TxData) { x := get(t); x.VMVersion = g.mutU64(x.VMVersion) }},
				mutation{p + ".IssuanceProgram", mCommitted, func(t *types.TxData) { x := get(t); x.IssuanceProgram = g.mutBytes(x.IssuanceProgram) }},
				mutation{p + ".Arguments", mWitness, func(t *types.TxData) { x := get(t); x.Arguments = g.mutList(x.Arguments) }})
		case *types.SpendInput:
			p := pre + ".Spend"
			get := func(t *types.TxData) *types.SpendInput { return t.Inputs[i].TypedInput.(*types.SpendInput) }
			ms = append(ms, g.scMutations(p, func(t *types.TxData) *types.SpendCommitment { return &get(t).SpendCommitment })...)
			ms = append(ms,
				mutation{p + ".Arguments", mWitness, func(t *types.TxData) { x := get(t); x.Arguments = g.mutList(x.Arguments) }},
				mutation{p + ".SpendCommitmentSuffix", mUndemanded, func(t *types.TxData) { x := get(t); x.SpendCommitmentSuffix = g.mutBytes(x.SpendCommitmentSuffix) }},
				mutation{p + ":becomes-veto", mCommitted, func(t *types.TxData) {
					x := get(t)
					t.Inputs[i].TypedInput = &types.VetoInput{VetoCommitmentSuffix: x.SpendCommitmentSuffix, Arguments: x.Arguments, SpendCommitment: x.SpendCommitment}
				}})
		case *types.CoinbaseInput:
			ms = append(ms, mutation{pre + ".Coinbase.Arbitrary", mCommitted, func(t *types.TxData) {
				x := t.Inputs[i].TypedInput.(*types.CoinbaseInput)
				x.Arbitrary = g.mutBytes(x.Arbitrary)
			}})
		case *types.VetoInput:
			p := pre + ".Veto"
			get := func(t *types.TxData) *types.VetoInput { return t.Inputs[i].TypedInput.(*types.VetoInput) }
			ms = append(ms, g.scMutations(p, func(t *types.TxData) *types.SpendCommitment { return &get(t).SpendCommitment })...)
			ms = append(ms,
				mutation{p + ".Vote", mCommitted, func(t *types.TxData) { x := get(t); x.Vote = g.mutBytes(x.Vote) }},
				mutation{p + ".Arguments", mWitness, func(t *types.TxData) { x := get(t); x.Arguments = g.mutList(x.Arguments) }},
				mutation{p + ".VetoCommitmentSuffix", mUndemanded, func(t *types.TxData) { x := get(t); x.VetoCommitmentSuffix = g.mutBytes(x.VetoCommitmentSuffix) }},
				mutation{p + ":becomes-spend", mCommitted, func(t *types.TxData) {
					x := get(t)
					t.Inputs[i].TypedInput = &types.SpendInput{SpendCommitmentSuffix: x.VetoCommitmentSuffix, Arguments: x.Arguments, SpendCommitment: x.SpendCommitment}
				}})
		}
	}
	for i, o := range tx.Outputs {
		i := i
		pre := fmt.Sprintf("Outputs[%d]", i)
		ms = append(ms,
			mutation{pre + ".AssetVersion", mUndemanded, func(t *types.TxData) { t.Outputs[i].AssetVersion = g.mutU64(t.Outputs[i].AssetVersion) }},
			mutation{pre + ".CommitmentSuffix", mUndemanded, func(t *types.TxData) { t.Outputs[i].CommitmentSuffix = g.mutBytes(t.Outputs[i].CommitmentSuffix) }},
			mutation{pre + ".AssetId", mCommitted, func(t *types.TxData) { t.Outputs[i].AssetId = g.mutAsset(t.Outputs[i].AssetId) }},
			mutation{pre + ".Amount", mCommitted, func(t *types.TxData) { t.Outputs[i].Amount = g.mutU64(t.Outputs[i].Amount) }},
			mutation{pre + ".VMVersion", mCommitted, func(t *types.TxData) { t.Outputs[i].VMVersion = g.mutU64(t.Outputs[i].VMVersion) }},
			mutation{pre + ".ControlProgram", mCommitted, func(t *types.TxData) { t.Outputs[i].ControlProgram = g.mutBytes(t.Outputs[i].ControlProgram) }},
			mutation{pre + ".StateData", mCommitted, func(t *types.TxData) { t.Outputs[i].StateData = g.mutList(t.Outputs[i].StateData) }},
			mutation{pre + ":removed", mCommitted, func(t *types.TxData) { t.Outputs = append(t.Outputs[:i:i], t.Outputs[i+1:]...) }},
			mutation{pre + ":duplicated", mCommitted, func(t *types.TxData) {
				outs := append([]*types.TxOutput{}, t.Outputs[:i+1]...)
				outs = append(outs, cloneOutput(t.Outputs[i]))
				t.Outputs = append(outs, t.Outputs[i+1:]...)
			}})
		if i+1 < len(tx.Outputs) {
			ms = append(ms, mutation{pre + ":swapped-with-next", mCommitted, func(t *types.TxData) { t.Outputs[i], t.Outputs[i+1] = t.Outputs[i+1], t.Outputs[i] }})
		}
		if _, ok := o.TypedOutput.(*types.VoteOutput); ok {
			ms = append(ms,
				mutation{pre + ".Vote", mCommitted, func(t *types.TxData) {
					v := t.Outputs[i].TypedOutput.(*types.VoteOutput)
					v.Vote = g.mutBytes(v.Vote)
				}},
				mutation{pre + ":becomes-original", mCommitted, func(t *types.TxData) { t.Outputs[i].TypedOutput = originalTyped }})
		} else {
			ms = append(ms, mutation{pre + ":becomes-vote", mCommitted, func(t *types.TxData) {
				var vote []byte
				if g.rng.Bool() {
					vote = g.rng.Bytes(64)
				}
				t.Outputs[i].TypedOutput = &types.VoteOutput{Vote: vote}
			}})
		}
	}
	return ms
}

// field name without the index, for the statistics
func fieldClass(name string) string {
	var sb strings.Builder
	skip := false
	for _, ch := range name {
		switch {
		case ch == '[':
			skip = true
		case ch == ']':
			skip = false
		case !skip:
			sb.WriteRune(ch)
		}
	}
	return sb.String()
}

// ---------------------------------------------------------------- the check

type checker struct {
	c       *Ctx
	g       *gen
	seen    map[bc.Hash]*txInfo // id -> first transaction with that id (>= 1 output)
	known   []OracleFailure     // witnesses of the recorded finding, reported last (capped)
	nKnown  int
	nFail   int
	maxLit  int
	nModel  int
	samples int
}

func short(s string) string {
	if len(s) > 5000 {
		return s[:5000] + "..."
	}
	return s
}

func (k *checker) fail(what string, desc map[string]interface{}) {
	k.nFail++
	k.c.Stats.Fail(what, desc)
}

func (k *checker) knownFinding(what string, desc map[string]interface{}) {
	k.nKnown++
	k.c.Stats.Count("oracle.retirement-data-not-committed")
	if len(k.known) < 3 {
		k.known = append(k.known, OracleFailure{What: what, Case: desc})
	}
}

func (k *checker) addCase(model, observed string, desc map[string]interface{}) {
	id := k.c.Cases.Add(model, observed)
	k.c.Stats.CaseIndex[fmt.Sprint(id)] = desc
	k.c.Stats.Count("model_evaluated")
	k.nModel++
}

// two transactions with different listed content must not share an id
func (k *checker) compare(a, b *txInfo, how string) {
	if a.panicked || b.panicked || (len(a.tx.Outputs) == 0 && len(b.tx.Outputs) == 0) {
		return
	}
	desc := map[string]interface{}{"how": how, "tx_a": short(cTx(a.tx)), "tx_b": short(cTx(b.tx)), "id_a": a.id.String(), "id_b": b.id.String()}
	if a.keyC == b.keyC {
		if a.id != b.id || !sameHashes(a.inputs, b.inputs) || !sameHashes(a.spent, b.spent) || !sameHashes(a.results, b.results) {
			k.fail("class=id-depends-on-witness: "+how+": only witness data differs (arguments, witness suffixes, SerializedSize) and Tx.ID / InputIDs / SpentOutputIDs / ResultIds changed", desc)
		}
		return
	}
	if a.id != b.id {
		return
	}
	if a.keyE == b.keyE {
		k.knownFinding("class=retirement-data-not-committed: "+how+": program tail / VM version / state data / vote key / kind of an unspendable (OP_FAIL) output differ and Tx.ID is the same", desc)
		return
	}
	k.fail("class=id-not-committing: "+how+": a consensus field differs and Tx.ID is the same", desc)
}

func (k *checker) doTx(tx *types.TxData, kind string, toCoq bool) {
	st := k.c.Stats
	base := mapTx(tx)
	lit := cTx(tx)
	desc := map[string]interface{}{"kind": kind, "tx": short(lit)}
	st.Case("tx|"+hk(lit), len(tx.Inputs) >= 1 && len(tx.Outputs) >= 1 && !base.panicked)
	k.countTx(tx, base)
	if toCoq && len(lit) < k.maxLit {
		k.addCase("obs_tx "+lit, base.obsCoq(), desc)
	}
	if base.panicked {
		return
	}
	desc["id"] = base.id.String()
	if k.samples < 3 && len(tx.Inputs) >= 2 && len(tx.Outputs) >= 2 && len(lit) < 3000 {
		k.samples++
		st.Sample(desc)
	}
	// across the run
	if len(tx.Outputs) > 0 {
		if prev, ok := k.seen[base.id]; ok {
			k.compare(prev, base, "two generated transactions")
		} else {
			k.seen[base.id] = base
		}
	}
	// every single-field mutation
	ms := k.g.mutations(tx)
	if len(ms) > 150 { // a large transaction: a random sample of its mutations
		for i := range ms {
			j := i + k.g.rng.Intn(len(ms)-i)
			ms[i], ms[j] = ms[j], ms[i]
		}
		ms = ms[:60]
		st.Count("tx.mutations-sampled")
	}
	pick := -1
	if toCoq && len(ms) > 0 {
		pick = k.g.rng.Intn(len(ms))
	}
	for mi, m := range ms {
		mt := cloneTx(tx)
		m.apply(mt)
		mu := mapTx(mt)
		cls := fieldClass(m.name)
		st.Count("mutation." + cls)
		if mu.panicked {
			k.fail("class=panic: MapTx panicked on the mutant "+m.name, map[string]interface{}{"tx": short(lit), "mutant": short(cTx(mt))})
			continue
		}
		switch {
		case m.kind == mUndemanded:
			if mu.id == base.id {
				st.Count("undemanded.id-unchanged")
			} else {
				st.Count("undemanded.id-changed")
			}
		case mu.keyC == base.keyC && m.kind == mCommitted:
			st.Count("mutation.no-op")
		default:
			if m.kind == mWitness {
				st.Count("oracle.witness-mutants")
			} else {
				st.Count("oracle.committed-mutants")
			}
			k.compare(base, mu, "single-field mutation "+m.name)
		}
		if mi == pick {
			if l2 := cTx(mt); len(l2) < k.maxLit {
				k.addCase("obs_tx "+l2, mu.obsCoq(), map[string]interface{}{"kind": "mutant " + m.name + " of " + kind, "tx": short(l2), "id": mu.id.String()})
			}
		}
	}
}

func bucket(n int) string {
	switch {
	case n <= 3:
		return fmt.Sprint(n)
	case n <= 6:
		return "4-6"
	case n <= 19:
		return "7-19"
	default:
		return "20+"
	}
}

func (k *checker) countTx(tx *types.TxData, info *txInfo) {
	st := k.c.Stats
	st.Count("tx.inputs." + bucket(len(tx.Inputs)))
	st.Count("tx.outputs." + bucket(len(tx.Outputs)))
	if info.panicked {
		st.Count("tx.result.panic")
	} else {
		st.Count("tx.result.mapped")
	}
	for _, in := range tx.Inputs {
		switch t := in.TypedInput.(type) {
		case *types.IssuanceInput:
			st.Count("input.issuance")
			if len(t.AssetDefinition) > 0 {
				st.Count("input.issuance.with-asset-definition")
			}
		case *types.SpendInput:
			st.Count("input.spend")
			if len(t.StateData) > 0 {
				st.Count("input.spend.with-state-data")
			}
			if len(t.SpendCommitmentSuffix) > 0 {
				st.Count("input.spend.with-commitment-suffix")
			}
		case *types.CoinbaseInput:
			st.Count("input.coinbase")
		case *types.VetoInput:
			st.Count("input.veto")
		default:
			st.Count("input.nil-typed")
		}
		if len(in.WitnessSuffix) > 0 {
			st.Count("input.with-witness-suffix")
		}
		if len(in.Arguments()) > 0 {
			st.Count("input.with-arguments")
		}
	}
	for _, o := range tx.Outputs {
		switch {
		case zeroCommitment(o):
			st.Count("output.no-commitment")
		case isUnspendable(o.ControlProgram):
			st.Count("output.unspendable")
		default:
			if _, ok := o.TypedOutput.(*types.VoteOutput); ok {
				st.Count("output.vote")
			} else {
				st.Count("output.original")
			}
		}
		if len(o.StateData) > 0 {
			st.Count("output.with-state-data")
		}
	}
}

// headers: every field
func (k *checker) doHeader(bh *types.BlockHeader, toCoq bool) {
	st := k.c.Stats
	g := k.g
	h0 := bh.Hash()
	lit := cHeader(bh)
	desc := map[string]interface{}{"kind": "header", "header": short(lit), "hash": h0.String()}
	st.Case("header|"+hk(lit), len(bh.SupLinks) >= 1 || len(bh.BlockWitness) > 0)
	st.Count("header.suplinks." + bucket(len(bh.SupLinks)))
	if toCoq && len(lit) < k.maxLit {
		k.addCase("obs_header "+lit, "["+cHash(h0)+"]", desc)
	}
	type hm struct {
		name      string
		committed bool
		apply     func(h *types.BlockHeader)
	}
	hms := []hm{
		{"Version", true, func(h *types.BlockHeader) { h.Version = g.mutU64(h.Version) }},
		{"Height", true, func(h *types.BlockHeader) { h.Height = g.mutU64(h.Height) }},
		{"PreviousBlockHash", true, func(h *types.BlockHeader) { h.PreviousBlockHash = g.mutHash(h.PreviousBlockHash) }},
		{"Timestamp", true, func(h *types.BlockHeader) { h.Timestamp = g.mutU64(h.Timestamp) }},
		{"TransactionsMerkleRoot", true, func(h *types.BlockHeader) { h.TransactionsMerkleRoot = g.mutHash(h.TransactionsMerkleRoot) }},
		{"BlockWitness", false, func(h *types.BlockHeader) { h.BlockWitness = g.mutBytes(h.BlockWitness) }},
		{"SupLinks:added", false, func(h *types.BlockHeader) { h.SupLinks = append(h.SupLinks, g.supLink()) }},
		{"SupLinks:cleared", false, func(h *types.BlockHeader) { h.SupLinks = nil }},
	}
	if len(bh.SupLinks) > 0 {
		hms = append(hms,
			hm{"SupLinks[0].SourceHash", false, func(h *types.BlockHeader) { h.SupLinks[0].SourceHash = g.mutHash(h.SupLinks[0].SourceHash) }},
			hm{"SupLinks[0].SourceHeight", false, func(h *types.BlockHeader) { h.SupLinks[0].SourceHeight = g.mutU64(h.SupLinks[0].SourceHeight) }},
			hm{"SupLinks[0].Signatures", false, func(h *types.BlockHeader) {
				h.SupLinks[0].Signatures[g.rng.Intn(len(h.SupLinks[0].Signatures))] = g.rng.Bytes(64)
			}})
	}
	for _, m := range hms {
		mh := cloneHeader(bh)
		m.apply(mh)
		h1 := mh.Hash()
		st.Count("header-mutation." + m.name)
		d := map[string]interface{}{"header": short(lit), "mutant": short(cHeader(mh)), "field": m.name, "hash": h0.String()}
		same := keyHeader(mh) == keyHeader(bh)
		if m.committed && same {
			continue
		}
		if same && h1 != h0 {
			k.fail("class=id-depends-on-witness: block header: only "+m.name+" differs and BlockHeader.Hash() changed", d)
		}
		if !same && h1 == h0 {
			k.fail("class=id-not-committing: block header: "+m.name+" differs and BlockHeader.Hash() is the same", d)
		}
	}
}

// blocks: the header carries TxMerkleRoot(txs); any change of the id list must change the hash
func (k *checker) doBlock() {
	st := k.c.Stats
	g := k.g
	n := 1 + g.rng.Intn(6)
	var txs []*types.Tx
	for len(txs) < n {
		t := g.tx()
		if mapTx(t).panicked || len(t.Outputs) == 0 {
			continue
		}
		txs = append(txs, types.NewTx(*t))
	}
	bh := g.header()
	hashOf := func(l []*types.Tx) (bc.Hash, bool) {
		var ids []*bc.Tx
		for _, t := range l {
			ids = append(ids, t.Tx)
		}
		root, err := types.TxMerkleRoot(ids)
		if err != nil {
			return bc.Hash{}, false
		}
		h := cloneHeader(bh)
		h.TransactionsMerkleRoot = root
		return h.Hash(), true
	}
	idList := func(l []*types.Tx) string {
		s := make([]string, len(l))
		for i, t := range l {
			s[i] = t.ID.String()
		}
		return strings.Join(s, ",")
	}
	h0, ok := hashOf(txs)
	if !ok {
		k.fail("class=merkle-error: TxMerkleRoot failed", map[string]interface{}{"ids": idList(txs)})
		return
	}
	st.Count("block.transactions." + bucket(n))
	st.Case("block|"+idList(txs), n >= 2)
	try := func(name string, l []*types.Tx) {
		st.Count("block-mutation." + name)
		if idList(l) == idList(txs) {
			st.Count("block-mutation.no-op")
			return
		}
		h1, ok := hashOf(l)
		if ok && h1 == h0 {
			k.fail("class=id-not-committing: block: transaction id list changed ("+name+") and the hash of the header carrying TxMerkleRoot is the same",
				map[string]interface{}{"ids": idList(txs), "mutant_ids": idList(l), "hash": h0.String(), "header": short(cHeader(bh))})
		}
	}
	for i := range txs {
		// a committed field of transaction i changes
		mt := cloneTx(&txs[i].TxData)
		mt.TimeRange = g.mutU64(mt.TimeRange)
		l := append([]*types.Tx{}, txs...)
		l[i] = types.NewTx(*mt)
		try("tx-field-changed", l)
		// witness data of transaction i changes: same id list, same hash
		wt := cloneTx(&txs[i].TxData)
		wt.SerializedSize++
		for _, in := range wt.Inputs {
			in.WitnessSuffix = g.mutBytes(in.WitnessSuffix)
		}
		lw := append([]*types.Tx{}, txs...)
		lw[i] = types.NewTx(*wt)
		if hw, ok := hashOf(lw); !ok || hw != h0 {
			k.fail("class=id-depends-on-witness: block: only witness data of a transaction differs and the block hash changed",
				map[string]interface{}{"ids": idList(txs), "tx": short(cTx(&txs[i].TxData)), "mutant": short(cTx(wt))})
		}
		st.Count("block-mutation.tx-witness-changed")
		l = append(append([]*types.Tx{}, txs[:i]...), txs[i+1:]...)
		try("tx-removed", l)
		l = append(append(append([]*types.Tx{}, txs[:i+1]...), txs[i]), txs[i+1:]...)
		try("tx-duplicated", l)
		if i+1 < len(txs) {
			l = append([]*types.Tx{}, txs...)
			l[i], l[i+1] = l[i+1], l[i]
			try("tx-swapped", l)
		}
	}
}

func corpusTx(prog []byte, state [][]byte) *types.TxData {
	a := bc.AssetID{V0: 1}
	in := types.NewSpendInput(nil, bc.Hash{V0: 9}, a, 10, 0, []byte{0x51}, nil)
	out := types.NewOriginalTxOutput(a, 10, prog, state)
	return &types.TxData{Version: 1, Inputs: []*types.TxInput{in}, Outputs: []*types.TxOutput{out}}
}

func run(c *Ctx) error {
	g := &gen{rng: c.Rng}
	k := &checker{c: c, g: g, seen: map[bc.Hash]*txInfo{}, maxLit: 60000}
	st := c.Stats
	c.Cases.Shard = 8
	header := "From Coq Require Import List NArith Bool Uint63.\nFrom Verif Require Import Outcome Cmp.\nFrom C04 Require Import Model.\nFrom C03 Require Import Model Run.\nImport ListNotations.\nOpen Scope N_scope.\n"
	st.Rule = "TxData of 0-5 inputs (issuance with asset definition / spend / veto / coinbase, rarely a nil typed input or a repeated input) and 0-5 outputs (original / vote / unspendable incl. BCRP registrations / no commitment), occasionally 20-140 inputs and 100-160 outputs; state data, vote keys, arguments, 0-5 bytes on every suffix field, any uint64 for numbers (boundary grid up to 2^64-1), stale SerializedSize; every single-field mutation of each (every number, hash, byte string and list of every input and output, kind changes, removal, duplication, swap); block headers with witness and 0-3 sup links and every field mutated; blocks of 1-6 transactions with the id list mutated.  A transaction case is non-trivial when it has at least one input and one output and MapTx does not panic, a header when it has a witness or a sup link, a block when it has at least two transactions.  Oracle: listed content changed => id changes; only witness data changed => Tx.ID, InputIDs, SpentOutputIDs, ResultIds (block: Hash()) unchanged; two different listed contents never share an id across the run."

	// ---- corpus: the recorded finding (BCRP registrations of different contracts, one id)
	w1 := corpusTx([]byte{0x6a, 0x04, 'b', 'c', 'r', 'p', 0x01, 0x01, 0x01, 0x51}, nil)
	w2 := corpusTx([]byte{0x6a, 0x04, 'b', 'c', 'r', 'p', 0x01, 0x01, 0x01, 0x52}, [][]byte{{1}})
	i1, i2 := mapTx(w1), mapTx(w2)
	k.compare(i1, i2, "corpus-retirement (BCRP registration of contract 51 vs contract 52 with state data [01])")
	k.addCase("obs_tx "+cTx(w1), i1.obsCoq(), map[string]interface{}{"kind": "corpus-retirement", "tx": cTx(w1), "id": i1.id.String()})
	k.addCase("obs_tx "+cTx(w2), i2.obsCoq(), map[string]interface{}{"kind": "corpus-retirement", "tx": cTx(w2), "id": i2.id.String()})
	st.Case("corpus-retirement", true)

	// ---- transactions
	nCoq := c.N(20, 150)
	for i := 0; i < nCoq; i++ {
		g.small = true
		k.doTx(g.tx(), "generated-small", true)
	}
	g.small = false
	nTx := c.N(700, 6000)
	for i := 0; i < nTx; i++ {
		k.doTx(g.tx(), "generated", false)
	}

	// ---- headers
	nHdrCoq := c.N(24, 150)
	nHdr := c.N(1000, 8000)
	for i := 0; i < nHdr; i++ {
		k.doHeader(g.header(), i < nHdrCoq)
	}

	// ---- blocks
	nBlk := c.N(150, 1500)
	for i := 0; i < nBlk; i++ {
		k.doBlock()
	}

	// ---- concurrent stage: an identity is a function of the content alone, so computing the ids
	// of many transactions and headers from several goroutines at once (as the node does: block
	// validation, mempool, API) must give exactly the ids computed one after the other
	{
		nC := c.N(400, 3000)
		g.small = true
		txs := make([]*types.TxData, 0, nC)
		hdrs := make([]*types.BlockHeader, 0, nC)
		for i := 0; i < nC; i++ {
			txs = append(txs, g.tx())
			hdrs = append(hdrs, g.header())
		}
		g.small = false
		type ids struct {
			tx  bc.Hash
			hdr bc.Hash
			ok  bool
		}
		one := func(i int) (r ids) {
			defer func() {
				if recover() != nil {
					r.ok = false
				}
			}()
			r.tx = types.MapTx(cloneTx(txs[i])).ID
			r.hdr = cloneHeader(hdrs[i]).Hash()
			r.ok = true
			return
		}
		seq := make([]ids, nC)
		for i := range seq {
			seq[i] = one(i)
		}
		const workers = 8
		deadline := time.Now().Add(time.Duration(c.N(4, 20)) * time.Second)
		rounds, failed := 0, false
		for round := 0; (round < 3 || time.Now().Before(deadline)) && !failed; round++ {
			rounds++
			par := make([]ids, nC)
			var wg sync.WaitGroup
			for w := 0; w < workers; w++ {
				wg.Add(1)
				go func(w int) {
					defer wg.Done()
					for i := w; i < nC; i += workers {
						par[i] = one(i)
					}
				}(w)
			}
			wg.Wait()
			for i := range seq {
				if seq[i] != par[i] {
					st.Fail(fmt.Sprintf("class=concurrent-id-differs: computed from %d goroutines at once, transaction/header %d gets id %x/%x, alone it gets %x/%x", workers, i, par[i].tx.Bytes()[:6], par[i].hdr.Bytes()[:6], seq[i].tx.Bytes()[:6], seq[i].hdr.Bytes()[:6]),
						map[string]interface{}{"kind": "concurrent", "tx": cTx(txs[i]), "header": cHeader(hdrs[i])})
					failed = true
					break
				}
			}
		}
		st.Distribution["concurrent-rounds"] = rounds
		st.Count("concurrent-stage")
	}

	// witnesses of the recorded finding last: hlib keeps only the first failures
	for _, f := range k.known {
		st.Fail(f.What, f.Case)
	}
	st.Extra["retirement_witnesses_seen"] = k.nKnown
	st.Extra["other_oracle_failures"] = k.nFail
	if st.Distribution["oracle.committed-mutants"] < 100 || st.Distribution["oracle.witness-mutants"] < 50 {
		return fmt.Errorf("degenerate mutation stream: %d committed, %d witness mutants", st.Distribution["oracle.committed-mutants"], st.Distribution["oracle.witness-mutants"])
	}
	return c.Cases.Write(c.Out, header, "list bytes", "obs_eqb")
}
