package main

import (
	"fmt"

	"github.com/bytom/bytom/protocol/bc"
	"github.com/bytom/bytom/protocol/bc/types"
)

func main() {
	a := bc.AssetID{V0: 1}
	mk := func(prog []byte, st [][]byte) bc.Hash {
		in := types.NewSpendInput(nil, bc.Hash{V0: 9}, a, 10, 0, []byte{0x51}, nil)
		out := types.NewOriginalTxOutput(a, 10, prog, st)
		tx := types.NewTx(types.TxData{Version: 1, Inputs: []*types.TxInput{in}, Outputs: []*types.TxOutput{out}})
		return tx.ID
	}
	h1 := mk([]byte{0x6a}, nil)
	h2 := mk([]byte{0x6a, 0x00}, nil)
	h3 := mk([]byte{0x6a, 0x04, 'b', 'c', 'r', 'p', 0x01, 0x01, 0x01, 0x51}, nil)
	h4 := mk([]byte{0x6a, 0x04, 'b', 'c', 'r', 'p', 0x01, 0x01, 0x01, 0x52}, [][]byte{{1}})
	fmt.Println(h1.String(), h2.String(), h3.String(), h4.String())
}
