package main

// C02 — standard programs (P2WPKH, P2WSH with an m-of-n multisig redeem script)
// can be spent only by a witness holding valid signatures, from the committed
// keys, over this transaction's signature hash.
//
// The harness builds real transactions (real chainkd keys, signed through the
// real txbuilder the way the wallet does), validates them with
// validation.ValidateTx, applies every single mutation of the witness and of the
// committed fields, and applies a DIRECT ORACLE that uses only Go primitives
// (ed25519.Verify, sha3, ripemd160, byte-level template match).  The
// correspondence with the Coq model (coq/C02) is written as c02_obs cases:
// VM runs on the validator's own vm.Context (D1), the program builders and the
// signature hash (D2), and the witness layout of the txbuilder (D3).

import (
	"bytes"
	"context"
	"crypto/ed25519"
	"encoding/binary"
	"encoding/hex"
	stderrors "errors"
	"fmt"
	"io/ioutil"
	"runtime/debug"
	"sort"
	"strings"
	"sync"

	log "github.com/sirupsen/logrus"
	"golang.org/x/crypto/sha3"

	"github.com/bytom/bytom/blockchain/txbuilder"
	"github.com/bytom/bytom/consensus"
	"github.com/bytom/bytom/crypto"
	"github.com/bytom/bytom/crypto/ed25519/chainkd"
	"github.com/bytom/bytom/errors"
	"github.com/bytom/bytom/protocol/bc"
	"github.com/bytom/bytom/protocol/bc/types"
	"github.com/bytom/bytom/protocol/validation"
	"github.com/bytom/bytom/protocol/vm"
	"github.com/bytom/bytom/protocol/vm/vmutil"

	. "verifharness/hlib"
	"verifharness/vmlib"
)

func main() { Main("C02", run, nil) }

// ---------------------------------------------------------------- small helpers

func cp(b []byte) []byte { return append([]byte{}, b...) }
func cps(bs [][]byte) [][]byte {
	if bs == nil {
		return nil
	}
	out := make([][]byte, len(bs))
	for i, b := range bs {
		out[i] = cp(b)
	}
	return out
}
func hx(b []byte) string { return hex.EncodeToString(b) }
func hxs(bs [][]byte) []string {
	out := []string{}
	for _, b := range bs {
		out = append(out, hx(b))
	}
	return out
}
func sha3sum(bs ...[]byte) []byte {
	h := sha3.New256()
	for _, b := range bs {
		h.Write(b)
	}
	return h.Sum(nil)
}
func coqItems(bs [][]byte) string {
	var s []string
	for _, b := range bs {
		s = append(s, CoqBytes(b))
	}
	return CoqList(s)
}
func u64p(p *uint64) *uint64 {
	if p == nil {
		return nil
	}
	v := *p
	return &v
}
func bp(p *[]byte) *[]byte {
	if p == nil {
		return nil
	}
	v := cp(*p)
	return &v
}
func hash32(b []byte) bc.Hash {
	var a [32]byte
	copy(a[:], b)
	return bc.NewHash(a)
}
func asset32(b []byte) bc.AssetID {
	var a [32]byte
	copy(a[:], b)
	return bc.NewAssetID(a)
}

type detRand struct{ r *Rng }

func (d detRand) Read(p []byte) (int, error) {
	copy(p, d.r.Bytes(len(p)))
	return len(p), nil
}

const blockHeight = 666

var (
	block1 = &bc.Block{BlockHeader: &bc.BlockHeader{Version: 1, Height: blockHeight, Timestamp: 1600000000000}}
	block2 = &bc.Block{BlockHeader: &bc.BlockHeader{Version: 2, Height: blockHeight, Timestamp: 1600000000000}}
)

func converter(prog []byte) ([]byte, error) { return nil, stderrors.New("no converter") }

func sp(d *types.TxData, i int) *types.SpendInput { return d.Inputs[i].TypedInput.(*types.SpendInput) }

func ser(d *types.TxData) []byte {
	var buf bytes.Buffer
	d.WriteTo(&buf)
	return buf.Bytes()
}

func cloneData(d *types.TxData) *types.TxData {
	n := &types.TxData{Version: d.Version, SerializedSize: d.SerializedSize, TimeRange: d.TimeRange}
	for _, in := range d.Inputs {
		s := in.TypedInput.(*types.SpendInput)
		n.Inputs = append(n.Inputs, types.NewSpendInput(cps(s.Arguments), s.SourceID, *s.AssetId, s.Amount, s.SourcePosition, cp(s.ControlProgram), cps(s.StateData)))
	}
	for _, o := range d.Outputs {
		n.Outputs = append(n.Outputs, types.NewOriginalTxOutput(*o.AssetId, o.Amount, cp(o.ControlProgram), cps(o.StateData)))
	}
	return n
}

func fixSize(d *types.TxData) { d.SerializedSize = uint64(len(ser(d))) }

// ---------------------------------------------------------------- keys and locks

type signer struct {
	ckd  bool
	root chainkd.XPrv
	xpub chainkd.XPub // root xpub
	path [][]byte
	priv ed25519.PrivateKey
	pub  []byte // the 32-byte public key committed in the program
}

func (s *signer) sign(msg []byte) []byte {
	if s.ckd {
		return s.root.Derive(s.path).Sign(msg)
	}
	return ed25519.Sign(s.priv, msg)
}

type lock struct {
	wsh     bool
	ckd     bool
	path    [][]byte
	keys    []*signer
	m       int
	signers []int // ascending key indices of the m signers
	script  []byte
	hash    []byte
	prog    []byte
}

func (l *lock) n() int { return len(l.keys) }
func (l *lock) last() []byte {
	if l.wsh {
		return l.script
	}
	return l.keys[0].pub
}

// argsFor builds the witness over msg signed by the given key indices (in the given order).
func (l *lock) argsFor(msg []byte, who []int) [][]byte {
	var a [][]byte
	for _, k := range who {
		a = append(a, l.keys[k].sign(msg))
	}
	return append(a, cp(l.last()))
}

type gen struct {
	c       *Ctx
	r       *Rng
	pairs   [][2]int
	pairIdx int
	malIdx  int
	cover   map[string]int

	nBase, nBaseAccepted, nMutants, nMutRejected int
	err                                          error
	pool                                         []poolItem // transactions with their sequential verdict, for the concurrent stage
}

func (g *gen) newSigner(ckd bool, path [][]byte) *signer {
	s := &signer{ckd: ckd, path: path}
	if ckd {
		if g.r.Bool() {
			x, err := chainkd.NewXPrv(detRand{g.r})
			if err != nil {
				panic(err)
			}
			s.root = x
		} else {
			s.root = chainkd.RootXPrv(g.r.Bytes(32 + g.r.Intn(33)))
		}
		s.xpub = s.root.XPub()
		s.pub = cp(s.xpub.Derive(path).PublicKey())
	} else {
		s.priv = ed25519.NewKeyFromSeed(g.r.Bytes(32))
		s.pub = cp(s.priv.Public().(ed25519.PublicKey))
	}
	return s
}

func (g *gen) newPath() [][]byte {
	le4 := func(x uint32) []byte {
		var b [4]byte
		binary.LittleEndian.PutUint32(b[:], x)
		return b[:]
	}
	switch g.r.Intn(4) {
	case 0: // BIP44-like, as signers.getBip0044Path
		return [][]byte{{0x2c, 0, 0, 0}, {0x99, 0, 0, 0}, le4(uint32(1 + g.r.Intn(50))), {byte(g.r.Intn(2)), 0, 0, 0}, le4(uint32(1 + g.r.Intn(1000)))}
	case 1: // BIP32-like, as signers.GetBip0032Path
		var a, b [8]byte
		binary.LittleEndian.PutUint64(a[:], uint64(1+g.r.Intn(50)))
		binary.LittleEndian.PutUint64(b[:], uint64(1+g.r.Intn(1000)))
		return [][]byte{{0}, a[:], b[:]}
	case 2:
		return [][]byte{g.r.Bytes(1 + g.r.Intn(8))}
	default:
		return [][]byte{le4(uint32(g.r.Next())), le4(uint32(g.r.Next()))}
	}
}

func (g *gen) subset(n, m int) []int {
	idx := make([]int, n)
	for i := range idx {
		idx[i] = i
	}
	for i := 0; i < m; i++ {
		j := i + g.r.Intn(n-i)
		idx[i], idx[j] = idx[j], idx[i]
	}
	out := append([]int{}, idx[:m]...)
	sort.Ints(out)
	return out
}

func (g *gen) newLock(wsh, ckd bool, m, n int) *lock {
	l := &lock{wsh: wsh, ckd: ckd, m: m}
	if ckd {
		l.path = g.newPath()
	}
	for i := 0; i < n; i++ {
		l.keys = append(l.keys, g.newSigner(ckd, l.path))
	}
	l.signers = g.subset(n, m)
	var err error
	if wsh {
		var pks []ed25519.PublicKey
		for _, k := range l.keys {
			pks = append(pks, ed25519.PublicKey(k.pub))
		}
		if l.script, err = vmutil.P2SPMultiSigProgram(pks, m); err != nil {
			panic(err)
		}
		l.hash = sha3sum(l.script)
		l.prog, err = vmutil.P2WSHProgram(l.hash)
	} else {
		l.hash = crypto.Ripemd160(l.keys[0].pub)
		l.prog, err = vmutil.P2WPKHProgram(l.hash)
	}
	if err != nil {
		panic(err)
	}
	return l
}

func (g *gen) randomLock() *lock {
	ckd := g.r.Chance(72)
	if g.r.Chance(36) {
		return g.newLock(false, ckd, 1, 1)
	}
	p := g.pairs[g.pairIdx%len(g.pairs)]
	g.pairIdx++
	return g.newLock(true, ckd, p[0], p[1])
}

// ---------------------------------------------------------------- the direct oracle (Go primitives only)

// stdKind: 1 = byte-exact 00 14 <20>, 2 = byte-exact 00 20 <32>, 0 = anything else.
func stdKind(prog []byte) int {
	if len(prog) == 22 && prog[0] == 0x00 && prog[1] == 0x14 {
		return 1
	}
	if len(prog) == 34 && prog[0] == 0x00 && prog[1] == 0x20 {
		return 2
	}
	return 0
}

// smallInt decodes OP_0 / OP_1..OP_16 / a minimal little-endian pushdata (> 16) at p.
func smallInt(s []byte, p, end int) (v uint64, np int, ok bool) {
	if p >= end {
		return 0, p, false
	}
	b := s[p]
	switch {
	case b == 0x00:
		return 0, p + 1, true
	case b >= 0x51 && b <= 0x60:
		return uint64(b - 0x50), p + 1, true
	case b >= 0x01 && b <= 0x08:
		k := int(b)
		if p+1+k > end || s[p+k] == 0 {
			return 0, p, false
		}
		for i := k - 1; i >= 0; i-- {
			v = v<<8 | uint64(s[p+1+i])
		}
		if v <= 16 {
			return 0, p, false
		}
		return v, p + 1 + k, true
	}
	return 0, p, false
}

// matchMultisig: ae (20 <32 bytes>)* <m> <n> ad with n = number of keys, m <= n, (m >= 1 or n == 0).
func matchMultisig(s []byte) (pks [][]byte, m int, ok bool) {
	if len(s) < 4 || s[0] != 0xae || s[len(s)-1] != 0xad {
		return nil, 0, false
	}
	end := len(s) - 1
	p := 1
	for p < end && s[p] == 0x20 && p+33 <= end {
		pks = append(pks, s[p+1:p+33])
		p += 33
	}
	mv, p, ok1 := smallInt(s, p, end)
	if !ok1 {
		return nil, 0, false
	}
	nv, p, ok2 := smallInt(s, p, end)
	if !ok2 || p != end {
		return nil, 0, false
	}
	if nv != uint64(len(pks)) || mv > nv || (mv == 0 && nv > 0) {
		return nil, 0, false
	}
	return pks, int(mv), true
}

func edVerify(pk, msg, sig []byte) bool {
	if len(pk) != ed25519.PublicKeySize {
		return false
	}
	return ed25519.Verify(ed25519.PublicKey(pk), msg, sig)
}

// existsAssignment: is there k_1 < ... < k_m with Verify(pk[k_j], msg, sigs[j]) for all j?
// Exhaustive search over the m-subsets (results of Verify memoised per (j,k)).
func existsAssignment(pks [][]byte, msg []byte, sigs [][]byte) bool {
	m, n := len(sigs), len(pks)
	memo := make([]int8, m*n)
	ver := func(j, k int) bool {
		if memo[j*n+k] == 0 {
			memo[j*n+k] = -1
			if edVerify(pks[k], msg, sigs[j]) {
				memo[j*n+k] = 1
			}
		}
		return memo[j*n+k] == 1
	}
	var rec func(j, from int) bool
	rec = func(j, from int) bool {
		if j == m {
			return true
		}
		for k := from; k <= n-(m-j); k++ {
			if ver(j, k) && rec(j+1, k+1) {
				return true
			}
		}
		return false
	}
	return rec(0, 0)
}

// specOK: does input i (with a byte-exact standard program) carry a matching witness?
func specOK(prog []byte, args [][]byte, sh []byte) bool {
	switch stdKind(prog) {
	case 1:
		h := prog[2:]
		if len(args) < 2 {
			return false
		}
		pk, sig := args[len(args)-1], args[len(args)-2]
		if len(pk) != 32 || !bytes.Equal(crypto.Ripemd160(pk), h) {
			return false
		}
		return edVerify(pk, sh, sig)
	case 2:
		h := prog[2:]
		if len(args) < 1 {
			return false
		}
		script := args[len(args)-1]
		if !bytes.Equal(sha3sum(script), h) {
			return false
		}
		pks, m, ok := matchMultisig(script)
		if !ok {
			return true // committed script is not the multisig template: nothing to demand
		}
		if len(args)-1 < m {
			return false
		}
		sigs := args[len(args)-1-m : len(args)-1]
		return existsAssignment(pks, sh, sigs)
	}
	return true
}

// ---------------------------------------------------------------- validation + oracle

func safeValidate(tx *bc.Tx, blk *bc.Block) (err error, panicked bool) {
	defer func() {
		if r := recover(); r != nil {
			err = fmt.Errorf("panic: %v", r)
			panicked = true
		}
	}()
	_, err = validation.ValidateTx(tx, blk, converter)
	return
}

func rejClass(err error) string {
	c := vmlib.ErrClass(err)
	if !strings.HasPrefix(c, "EOther") {
		return "rej:" + c
	}
	switch errors.Root(err) {
	case validation.ErrUnbalanced, validation.ErrGasCalculate:
		// the mux check ranges over a Go map: which of the two is reported first is not deterministic
		return "rej:mux-unbalanced-or-gas-calculate"
	}
	return "rej:" + strings.ReplaceAll(errors.Root(err).Error(), " ", "-")
}

func spendOf(tx *types.Tx, i int) (*bc.Spend, *bc.OriginalOutput) {
	s := tx.Tx.Entries[tx.Tx.InputIDs[i]].(*bc.Spend)
	o := tx.Tx.Entries[*s.SpentOutputId].(*bc.OriginalOutput)
	return s, o
}

func vmContext(tx *types.Tx, blk *bc.Block, i int) *vm.Context {
	s, o := spendOf(tx, i)
	return validation.VerifTxVMContext(tx.Tx, blk, s, o.ControlProgram, o.StateData, s.WitnessArguments, converter)
}

// vmChain replays what checkValid does with the gas: initial gas = min(fee/VMGasRate, MaxGasAmount),
// the inputs are verified in order, each with what the previous one left.
func vmChain(tx *types.Tx, blk *bc.Block) (gasAt []int64, errs []error) {
	var in, out uint64
	for _, x := range tx.Inputs {
		if x.AssetID() == *consensus.BTMAssetID {
			in += x.Amount()
		}
	}
	for _, o := range tx.Outputs {
		if *o.AssetId == *consensus.BTMAssetID {
			out += o.Amount
		}
	}
	g := int64(0)
	if in >= out {
		g = int64((in - out) / uint64(consensus.VMGasRate))
		if g > consensus.MaxGasAmount {
			g = consensus.MaxGasAmount
		}
	}
	for i := range tx.Inputs {
		gasAt = append(gasAt, g)
		left, err := vm.Verify(vmContext(tx, blk, i), g)
		errs = append(errs, err)
		if err == nil {
			g = left
		}
	}
	return
}

type poolItem struct {
	tx       *types.Tx
	blk      *bc.Block
	accepted bool
	kind     string
}

type checked struct {
	accepted bool
	err      error
	gasAt    []int64
	vmErrs   []error
}

func (c *checked) chain(tx *types.Tx, blk *bc.Block) {
	if c.gasAt == nil {
		c.gasAt, c.vmErrs = vmChain(tx, blk)
	}
}

// check validates tx, applies the oracle, records the statistics.
func (g *gen) check(tx *types.Tx, blk *bc.Block, kind, what string, input int, isMutant bool) *checked {
	st := g.c.Stats
	err, panicked := safeValidate(tx.Tx, blk)
	res := &checked{accepted: err == nil, err: err}
	if !panicked && (len(g.pool) < 1500 || g.r.Chance(10)) {
		it := poolItem{tx, blk, err == nil, kind}
		if len(g.pool) < 1500 {
			g.pool = append(g.pool, it)
		} else {
			g.pool[g.r.Intn(len(g.pool))] = it
		}
	}
	txhex, _ := tx.TxData.MarshalText()
	desc := func(i int) map[string]interface{} {
		return map[string]interface{}{"raw_tx": string(txhex), "serialized_size": tx.TxData.SerializedSize, "input": i, "mutation": kind,
			"changed": what, "mutated_input": input, "block_version": blk.Version, "block_height": blk.Height, "tx_id": hx(tx.ID.Bytes())}
	}
	nStd, allOK := 0, true
	for i := range tx.Inputs {
		s := sp(&tx.TxData, i)
		own := sha3sum(tx.Tx.InputIDs[i].Bytes(), tx.ID.Bytes())
		if !bytes.Equal(own, tx.SigHash(uint32(i)).Bytes()) {
			st.Fail(fmt.Sprintf("class=sighash-differs: tx.SigHash(%d) is not sha3_256(inputID || txID)", i), desc(i))
		}
		if stdKind(s.ControlProgram) == 0 {
			continue
		}
		nStd++
		if !specOK(s.ControlProgram, s.Arguments, own) {
			allOK = false
			if res.accepted {
				st.Fail(fmt.Sprintf("class=accepted-mutant: %s accepted although input %d has no matching witness", kind, i), desc(i))
			}
		}
	}
	// consistency of the validator with the VM verdicts on its own contexts (every base
	// transaction, every accepted transaction, a third of the rejected mutants)
	if !isMutant || res.accepted || g.r.Chance(33) {
		res.chain(tx, blk)
		allPass := true
		for _, e := range res.vmErrs {
			if e != nil {
				allPass = false
			}
		}
		st.Count("validator-vm-checked")
		if res.accepted && !allPass {
			st.Fail("class=validator-vm-disagree: transaction accepted although the VM rejects an input on the validator's own context", desc(-1))
		}
		if !res.accepted && !panicked && allPass && !strings.HasPrefix(vmlib.ErrClass(err), "EOther") {
			st.Fail("class=validator-vm-disagree: transaction rejected with a VM error although the VM accepts every input on the validator's own context", desc(-1))
		}
	}
	if !isMutant && !res.accepted {
		st.Fail(fmt.Sprintf("class=valid-spend-rejected: correctly signed transaction rejected: %v", errors.Root(err)), desc(-1))
	}
	// statistics
	key := hx(sha3sum(ser(&tx.TxData), []byte(fmt.Sprintf("|%d|%d", tx.TxData.SerializedSize, blk.Version))))
	st.Case(key, isMutant || nStd >= 1)
	if isMutant {
		st.Count("mut:" + kind)
		g.nMutants++
		if !res.accepted {
			g.nMutRejected++
		}
		if allOK {
			st.Count("mutant-still-valid")
		}
	}
	if res.accepted {
		st.Count("accepted")
	} else {
		st.Count("rejected")
		if panicked {
			st.Count("rej:panic")
		} else {
			st.Count(rejClass(err))
		}
	}
	return res
}

// ---------------------------------------------------------------- base transactions

type baseTx struct {
	data  types.TxData
	tx    *types.Tx
	locks []*lock
	tpl   *txbuilder.Template
}

var errNoKey = stderrors.New("key not available")

func keyOf(xpub chainkd.XPub, path [][]byte) string {
	s := string(xpub[:])
	for _, p := range path {
		s += "|" + string(p)
	}
	return s
}

// signFnFor: the pseudo-HSM: signs (like pseudohsm.XSign) only with the allowed keys.
func signFnFor(allowed map[string]chainkd.XPrv) txbuilder.SignFunc {
	return func(_ context.Context, xpub chainkd.XPub, path [][]byte, h [32]byte, _ string) ([]byte, error) {
		root, ok := allowed[keyOf(xpub, path)]
		if !ok {
			return nil, errNoKey
		}
		if len(path) > 0 {
			root = root.Derive(path)
		}
		return root.Sign(h[:]), nil
	}
}

// instruction lays out the signing instruction exactly like account.UtxoToInputs.
func instruction(pos int, l *lock) *txbuilder.SigningInstruction {
	si := &txbuilder.SigningInstruction{Position: uint32(pos)}
	var xpubs []chainkd.XPub
	for _, k := range l.keys {
		xpubs = append(xpubs, k.xpub)
	}
	si.AddRawWitnessKeys(xpubs, l.path, l.m)
	si.WitnessComponents = append(si.WitnessComponents, txbuilder.DataWitness(cp(l.last())))
	return si
}

func (g *gen) outProgram() []byte {
	switch g.r.Intn(8) {
	case 0:
		return []byte{0x51}
	case 1, 2, 3:
		p, _ := vmutil.P2WSHProgram(g.r.Bytes(32))
		return p
	default:
		p, _ := vmutil.P2WPKHProgram(g.r.Bytes(20))
		return p
	}
}

func (g *gen) smallState() [][]byte {
	if g.r.Chance(12) {
		return [][]byte{g.r.Bytes(1 + g.r.Intn(12))}
	}
	return nil
}

// signAll signs data (inputs locked by locks) : chainkd locks through txbuilder.Sign, plain
// ed25519 locks directly. Returns the signed template.
func (g *gen) signAll(data *types.TxData, locks []*lock) *txbuilder.Template {
	tx0 := types.NewTx(*data)
	tpl := &txbuilder.Template{Transaction: tx0}
	allowed := map[string]chainkd.XPrv{}
	maxQ := 0
	for i, l := range locks {
		if l == nil {
			tpl.SigningInstructions = append(tpl.SigningInstructions, &txbuilder.SigningInstruction{Position: uint32(i)})
			continue
		}
		if l.ckd {
			tpl.SigningInstructions = append(tpl.SigningInstructions, instruction(i, l))
			for _, k := range l.signers {
				allowed[keyOf(l.keys[k].xpub, l.path)] = l.keys[k].root
			}
			if l.m > maxQ {
				maxQ = l.m
			}
		} else {
			si := &txbuilder.SigningInstruction{Position: uint32(i)}
			for _, a := range l.argsFor(tx0.SigHash(uint32(i)).Bytes(), l.signers) {
				si.WitnessComponents = append(si.WitnessComponents, txbuilder.DataWitness(a))
			}
			tpl.SigningInstructions = append(tpl.SigningInstructions, si)
		}
	}
	fn := signFnFor(allowed)
	if maxQ == 0 {
		maxQ = 1
	}
	for k := 0; k < maxQ; k++ {
		if err := txbuilder.Sign(context.Background(), tpl, "", fn); err != nil {
			panic(err)
		}
	}
	return tpl
}

func (g *gen) buildBase() *baseTx {
	r := g.r
	nIn, nOut := 1+r.Intn(3), 1+r.Intn(3)
	locks := make([]*lock, nIn)
	for i := range locks {
		locks[i] = g.randomLock()
	}
	if nIn >= 2 && r.Chance(30) { // two inputs locked by the same keys: cross-input replay is meaningful
		locks[1] = locks[0]
		if nIn == 3 && r.Chance(30) {
			locks[2] = locks[0]
		}
	}
	btm := *consensus.BTMAssetID
	other := asset32(r.Bytes(32))
	inAsset := make([]bc.AssetID, nIn)
	nOther := 0
	for i := range inAsset {
		inAsset[i] = btm
		if i > 0 && r.Chance(35) {
			inAsset[i] = other
			nOther++
		}
	}
	outAsset := make([]bc.AssetID, nOut)
	for i := range outAsset {
		outAsset[i] = btm
	}
	nOtherOut := 0
	if nOther > 0 {
		k := r.Intn(nOut)
		outAsset[k] = other
		nOtherOut = 1
		for i := range outAsset {
			if i != k && r.Chance(40) {
				outAsset[i] = other
				nOtherOut++
			}
		}
	}
	amount := func() uint64 { return 1 + r.Next()%(uint64(1)<<uint(10+r.Intn(34))) }
	split := func(total uint64, k int) []uint64 { // k parts, each >= 1
		parts := make([]uint64, k)
		rest := total - uint64(k)
		for i := 0; i < k; i++ {
			parts[i] = 1
			if i == k-1 {
				parts[i] += rest
			} else {
				x := r.Next() % (rest + 1)
				parts[i] += x
				rest -= x
			}
		}
		return parts
	}
	outAmt := make([]uint64, nOut)
	var btmOut uint64
	for i := range outAmt {
		if outAsset[i] == btm {
			outAmt[i] = amount()
			btmOut += outAmt[i]
		}
	}
	var otherIns []uint64
	if nOtherOut > 0 { // the second asset is balanced exactly
		total := uint64(nOther+nOtherOut) + amount()
		otherIns = split(total, nOther)
		outs := split(total, nOtherOut)
		k := 0
		for i := range outAmt {
			if outAsset[i] == other {
				outAmt[i] = outs[k]
				k++
			}
		}
	}
	// gas between ~ (8000 + 9000 per input) and above the cap
	minGas := int64(8000 + 9000*nIn)
	var gasWanted int64
	switch r.Intn(5) {
	case 0:
		gasWanted = minGas + int64(r.Intn(5000))
	case 1:
		gasWanted = 300000 + int64(r.Intn(50000))
	default:
		gasWanted = minGas + int64(r.Intn(int(300000-minGas)))
	}
	fee := uint64(gasWanted)*200 + uint64(r.Intn(200))
	nBtmIn := nIn - nOther
	btmIns := split(btmOut+fee, nBtmIn)
	data := types.TxData{Version: 1}
	switch r.Intn(3) {
	case 0:
		data.TimeRange = 0
	case 1:
		data.TimeRange = blockHeight
	default:
		data.TimeRange = blockHeight + uint64(r.Intn(1000))
	}
	a, b := 0, 0
	for i := 0; i < nIn; i++ {
		var amt uint64
		if inAsset[i] == btm {
			amt = btmIns[a]
			a++
		} else {
			amt = otherIns[b]
			b++
		}
		data.Inputs = append(data.Inputs, types.NewSpendInput(nil, hash32(r.Bytes(32)), inAsset[i], amt, uint64(r.Intn(4)), cp(locks[i].prog), g.smallState()))
	}
	for i := 0; i < nOut; i++ {
		data.Outputs = append(data.Outputs, types.NewOriginalTxOutput(outAsset[i], outAmt[i], g.outProgram(), g.smallState()))
	}
	tpl := g.signAll(&data, locks)
	signed := tpl.Transaction.TxData
	fixSize(&signed)
	b0 := &baseTx{data: *cloneData(&signed), locks: locks, tpl: tpl}
	b0.tx = types.NewTx(*cloneData(&b0.data))
	return b0
}

// ---------------------------------------------------------------- mutations

type mutant struct {
	kind  string
	level string // "witness", "committed", "uncommitted"
	input int    // mutated input, -1 = transaction level
	what  string
	data  *types.TxData
	blk   *bc.Block
}

func (g *gen) flip(b []byte, pos int) string {
	bit := byte(1) << uint(g.r.Intn(8))
	b[pos] ^= bit
	return fmt.Sprintf("byte %d ^= 0x%02x", pos, bit)
}

func insertAt(a [][]byte, p int, x []byte) [][]byte {
	out := append([][]byte{}, a[:p]...)
	out = append(out, x)
	return append(out, a[p:]...)
}
func removeAt(a [][]byte, p int) [][]byte {
	out := append([][]byte{}, a[:p]...)
	return append(out, a[p+1:]...)
}

// mutants returns every single mutation of the base transaction.
func (g *gen) mutants(b *baseTx) []*mutant {
	r := g.r
	var out []*mutant
	baseSer := ser(&b.data)
	add := func(kind, level string, input int, blk *bc.Block, keepSize bool, f func(d *types.TxData) string) {
		d := cloneData(&b.data)
		what := f(d)
		if what == "" {
			return
		}
		if !keepSize {
			fixSize(d)
		}
		if d.SerializedSize == b.data.SerializedSize && blk == block1 && bytes.Equal(ser(d), baseSer) {
			g.c.Stats.Count("noop-mutation-skipped")
			return
		}
		out = append(out, &mutant{kind: kind, level: level, input: input, what: what, data: d, blk: blk})
	}
	baseTx := b.tx
	nIn, nOut := len(b.data.Inputs), len(b.data.Outputs)

	// ---- witness level
	for ii := 0; ii < nIn; ii++ {
		i := ii
		l := b.locks[i]
		nsig := len(sp(&b.data, i).Arguments) - 1
		sighash := baseTx.SigHash(uint32(i)).Bytes()
		w := func(kind string, f func(s *types.SpendInput) string) {
			add(kind, "witness", i, block1, false, func(d *types.TxData) string { return f(sp(d, i)) })
		}
		for jj := 0; jj < nsig; jj++ {
			j := jj
			for _, cl := range []struct {
				name string
				pos  int
			}{{"first", 0}, {"last", 63}, {"R", r.Intn(32)}, {"S", 32 + r.Intn(32)}} {
				cl := cl
				w("sig-flip-"+cl.name, func(s *types.SpendInput) string {
					return fmt.Sprintf("signature %d: %s", j, g.flip(s.Arguments[j], cl.pos))
				})
			}
		}
		if !l.wsh {
			w("pubkey-flip", func(s *types.SpendInput) string {
				return "public key argument: " + g.flip(s.Arguments[nsig], r.Intn(32))
			})
			w("fresh-keypair", func(s *types.SpendInput) string {
				k := g.newSigner(false, nil)
				s.Arguments[0], s.Arguments[1] = k.sign(sighash), cp(k.pub)
				return "signature and public key replaced by a fresh key pair's"
			})
		} else {
			n := l.n()
			for kk := 0; kk < n; kk++ {
				k := kk
				w("script-pubkey-flip", func(s *types.SpendInput) string {
					return fmt.Sprintf("redeem script, public key %d: %s", k, g.flip(s.Arguments[nsig], 1+33*k+1+r.Intn(32)))
				})
			}
			if n > 0 {
				w("script-push-flip", func(s *types.SpendInput) string {
					return "redeem script, push opcode of a key: " + g.flip(s.Arguments[nsig], 1+33*r.Intn(n))
				})
			}
			w("script-m-flip", func(s *types.SpendInput) string { return "redeem script, m: " + g.flip(s.Arguments[nsig], 1+33*n) })
			w("script-n-flip", func(s *types.SpendInput) string { return "redeem script, n: " + g.flip(s.Arguments[nsig], 2+33*n) })
			w("script-op-flip", func(s *types.SpendInput) string {
				return "redeem script, TXSIGHASH opcode: " + g.flip(s.Arguments[nsig], 0)
			})
			w("script-op-flip", func(s *types.SpendInput) string {
				return "redeem script, CHECKMULTISIG opcode: " + g.flip(s.Arguments[nsig], len(s.Arguments[nsig])-1)
			})
			w("script-replace-fresh-1of1", func(s *types.SpendInput) string {
				k := g.newSigner(false, nil)
				scr, _ := vmutil.P2SPMultiSigProgram([]ed25519.PublicKey{k.pub}, 1)
				s.Arguments = [][]byte{k.sign(sighash), scr}
				return "witness replaced by a valid 1-of-1 witness of a fresh key"
			})
			if l.m >= 2 {
				w("script-lower-quorum", func(s *types.SpendInput) string {
					var pks []ed25519.PublicKey
					for _, k := range l.keys {
						pks = append(pks, k.pub)
					}
					scr, _ := vmutil.P2SPMultiSigProgram(pks, l.m-1)
					s.Arguments = append(cps(s.Arguments[1:nsig]), scr)
					return "redeem script with the same keys and quorum m-1, m-1 valid signatures"
				})
			}
		}
		w("sig-truncate", func(s *types.SpendInput) string {
			j := r.Intn(nsig)
			s.Arguments[j] = s.Arguments[j][:63]
			return fmt.Sprintf("signature %d truncated to 63 bytes", j)
		})
		w("sig-extend", func(s *types.SpendInput) string {
			j := r.Intn(nsig)
			s.Arguments[j] = append(s.Arguments[j], byte(r.Next()))
			return fmt.Sprintf("signature %d extended to 65 bytes", j)
		})
		w("sig-fresh-key", func(s *types.SpendInput) string {
			j := r.Intn(nsig)
			s.Arguments[j] = g.newSigner(false, nil).sign(sighash)
			return fmt.Sprintf("signature %d replaced by a valid signature of the sighash by a non-committed key", j)
		})
		w("sig-empty", func(s *types.SpendInput) string {
			for j := 0; j < nsig; j++ {
				s.Arguments[j] = []byte{}
			}
			return "all signatures replaced by empty strings"
		})
		w("no-witness", func(s *types.SpendInput) string { s.Arguments = nil; return "all arguments removed" })
		if nsig >= 2 {
			w("sig-swap", func(s *types.SpendInput) string {
				a := r.Intn(nsig)
				c := (a + 1 + r.Intn(nsig-1)) % nsig
				s.Arguments[a], s.Arguments[c] = s.Arguments[c], s.Arguments[a]
				return fmt.Sprintf("signatures %d and %d swapped", a, c)
			})
			w("sig-reverse", func(s *types.SpendInput) string {
				for a, c := 0, nsig-1; a < c; a, c = a+1, c-1 {
					s.Arguments[a], s.Arguments[c] = s.Arguments[c], s.Arguments[a]
				}
				return "all signatures reversed"
			})
			w("sig-dup-replace", func(s *types.SpendInput) string {
				a := r.Intn(nsig)
				c := (a + 1 + r.Intn(nsig-1)) % nsig
				s.Arguments[c] = cp(s.Arguments[a])
				return fmt.Sprintf("signature %d replaced by a copy of signature %d", c, a)
			})
			w("sig-m-minus-1", func(s *types.SpendInput) string {
				s.Arguments = removeAt(s.Arguments, nsig-1)
				return "top signature removed: m-1 signatures"
			})
			w("sig-wrong-key-order", func(s *types.SpendInput) string {
				who := g.subset(l.n(), l.m)
				for a, c := 0, len(who)-1; a < c; a, c = a+1, c-1 {
					who[a], who[c] = who[c], who[a]
				}
				s.Arguments = l.argsFor(sighash, who)
				return fmt.Sprintf("valid signatures of keys %v, in descending key order", who)
			})
		}
		if l.wsh && l.n() > l.m {
			w("resign-other-subset", func(s *types.SpendInput) string {
				who := g.subset(l.n(), l.m)
				s.Arguments = l.argsFor(sighash, who)
				return fmt.Sprintf("valid signatures by another signer subset %v in key order (may differ from the base only by the subset)", who)
			})
		}
		w("sig-drop", func(s *types.SpendInput) string {
			j := r.Intn(nsig)
			s.Arguments = removeAt(s.Arguments, j)
			return fmt.Sprintf("signature %d dropped", j)
		})
		w("sig-dup-extra", func(s *types.SpendInput) string {
			a, p := r.Intn(nsig), r.Intn(nsig+1)
			s.Arguments = insertAt(s.Arguments, p, cp(s.Arguments[a]))
			return fmt.Sprintf("copy of signature %d inserted at argument position %d", a, p)
		})
		w("junk-arg-bottom", func(s *types.SpendInput) string {
			s.Arguments = insertAt(s.Arguments, 0, r.Bytes(r.Intn(41)))
			return "junk argument inserted below the signatures"
		})
		w("junk-arg-top", func(s *types.SpendInput) string {
			s.Arguments = append(s.Arguments, r.Bytes(r.Intn(41)))
			return "junk argument appended above the public key / redeem script"
		})
		w("drop-last-arg", func(s *types.SpendInput) string {
			s.Arguments = s.Arguments[:nsig]
			return "last argument (public key / redeem script) dropped"
		})
		w("replay-sibling-tx", func(s *types.SpendInput) string {
			sib := cloneData(&b.data)
			x := sp(sib, i)
			var how string
			if r.Bool() {
				bs := x.SourceID.Bytes()
				bs[r.Intn(32)] ^= 1 << uint(r.Intn(8))
				x.SourceID = hash32(bs)
				how = "source id"
			} else {
				x.Amount++
				how = "amount"
			}
			sh := types.NewTx(*sib).SigHash(uint32(i)).Bytes()
			s.Arguments = l.argsFor(sh, l.signers)
			return "signatures made by the committed keys for a sibling transaction (same keys, same outputs, different " + how + ")"
		})
		for jj := 0; jj < nIn; jj++ {
			j := jj
			if j != i && b.locks[j] == l {
				w("replay-cross-input", func(s *types.SpendInput) string {
					s.Arguments = cps(sp(&b.data, j).Arguments)
					return fmt.Sprintf("witness of input %d (same keys) used for input %d", j, i)
				})
				break
			}
		}
		w("sign-txid", func(s *types.SpendInput) string {
			s.Arguments = l.argsFor(baseTx.ID.Bytes(), l.signers)
			return "signatures over the transaction id instead of the signature hash"
		})
	}

	// ---- committed fields (signatures stay those of the base transaction)
	cm := func(kind string, input int, f func(d *types.TxData) string) {
		add(kind, "committed", input, block1, false, f)
	}
	bump := func(d *types.TxData, asset bc.AssetID, exceptOut int, delta int) bool { // adjust an output (or, failing that, an input) of the asset
		for k, o := range d.Outputs {
			if k != exceptOut && *o.AssetId == asset && (delta > 0 || o.Amount >= 1) {
				o.Amount = uint64(int64(o.Amount) + int64(delta))
				return true
			}
		}
		return false
	}
	for ii := 0; ii < nIn; ii++ {
		i := ii
		cm("in-amount+1", i, func(d *types.TxData) string { sp(d, i).Amount++; return "input amount + 1" })
		cm("in-amount-1", i, func(d *types.TxData) string { sp(d, i).Amount--; return "input amount - 1" })
		cm("in-amount+1-rebalanced", i, func(d *types.TxData) string {
			s := sp(d, i)
			s.Amount++
			if !bump(d, *s.AssetId, -1, 1) {
				return ""
			}
			return "input amount + 1 and an output of the same asset + 1"
		})
		cm("in-asset-flip", i, func(d *types.TxData) string {
			s := sp(d, i)
			bs := s.AssetId.Bytes()
			w := g.flip(bs, r.Intn(32))
			a := asset32(bs)
			s.AssetId = &a
			return "input asset id: " + w
		})
		cm("in-sourceid-flip", i, func(d *types.TxData) string {
			s := sp(d, i)
			bs := s.SourceID.Bytes()
			w := g.flip(bs, r.Intn(32))
			s.SourceID = hash32(bs)
			return "input source id: " + w
		})
		cm("in-sourcepos+1", i, func(d *types.TxData) string { sp(d, i).SourcePosition++; return "input source position + 1" })
		cm("in-sourcepos-1", i, func(d *types.TxData) string {
			if sp(d, i).SourcePosition == 0 {
				return ""
			}
			sp(d, i).SourcePosition--
			return "input source position - 1"
		})
		cm("in-prog-hash-flip", i, func(d *types.TxData) string {
			s := sp(d, i)
			return "committed hash inside the spent control program: " + g.flip(s.ControlProgram, 2+r.Intn(len(s.ControlProgram)-2))
		})
		cm("in-state-add", i, func(d *types.TxData) string {
			s := sp(d, i)
			s.StateData = append(s.StateData, r.Bytes(1+r.Intn(8)))
			return "state item added to the spent output"
		})
	}
	for oo := 0; oo < nOut; oo++ {
		o := oo
		cm("out-amount+1", -1, func(d *types.TxData) string { d.Outputs[o].Amount++; return fmt.Sprintf("output %d amount + 1", o) })
		cm("out-amount-1", -1, func(d *types.TxData) string { d.Outputs[o].Amount--; return fmt.Sprintf("output %d amount - 1", o) })
		cm("out-amount+1-rebalanced", -1, func(d *types.TxData) string {
			d.Outputs[o].Amount++
			if !bump(d, *d.Outputs[o].AssetId, o, -1) {
				for k := range d.Inputs {
					if *sp(d, k).AssetId == *d.Outputs[o].AssetId {
						sp(d, k).Amount++
						return fmt.Sprintf("output %d amount + 1, input %d amount + 1", o, k)
					}
				}
				return ""
			}
			return fmt.Sprintf("output %d amount + 1, another output of the asset - 1", o)
		})
		cm("out-asset-flip", -1, func(d *types.TxData) string {
			bs := d.Outputs[o].AssetId.Bytes()
			w := g.flip(bs, r.Intn(32))
			a := asset32(bs)
			d.Outputs[o].AssetId = &a
			return fmt.Sprintf("output %d asset id: %s", o, w)
		})
		cm("out-prog-flip", -1, func(d *types.TxData) string {
			p := d.Outputs[o].ControlProgram
			return fmt.Sprintf("output %d control program: %s", o, g.flip(p, r.Intn(len(p))))
		})
		cm("out-state-add", -1, func(d *types.TxData) string {
			d.Outputs[o].StateData = append(d.Outputs[o].StateData, r.Bytes(1+r.Intn(8)))
			return fmt.Sprintf("output %d: state item added", o)
		})
	}
	cm("timerange-change", -1, func(d *types.TxData) string {
		if d.TimeRange == 0 {
			d.TimeRange = blockHeight + uint64(r.Intn(100))
		} else if r.Bool() {
			d.TimeRange = 0
		} else {
			d.TimeRange++
		}
		return fmt.Sprintf("time range %d -> %d", b.data.TimeRange, d.TimeRange)
	})
	cm("version-2", -1, func(d *types.TxData) string { d.Version = 2; return "transaction version 2 (block version 1)" })
	add("version-2-block-v2", "committed", -1, block2, false, func(d *types.TxData) string {
		d.Version = 2
		return "transaction version 2, validated in a block of version 2"
	})
	cm("add-output", -1, func(d *types.TxData) string {
		p, _ := vmutil.P2WPKHProgram(r.Bytes(20))
		d.Outputs = append(d.Outputs, types.NewOriginalTxOutput(*consensus.BTMAssetID, 1+uint64(r.Intn(100)), p, nil))
		return "BTM output added (paid from the fee)"
	})
	if nOut >= 2 {
		cm("remove-output", -1, func(d *types.TxData) string {
			k := r.Intn(nOut)
			for t := 0; t < nOut; t++ { // prefer a BTM output: the value goes to the fee, the balance stays valid
				if *d.Outputs[(k+t)%nOut].AssetId == *consensus.BTMAssetID {
					k = (k + t) % nOut
					break
				}
			}
			d.Outputs = append(d.Outputs[:k:k], d.Outputs[k+1:]...)
			return fmt.Sprintf("output %d removed", k)
		})
		cm("swap-outputs", -1, func(d *types.TxData) string {
			a := r.Intn(nOut)
			c := (a + 1 + r.Intn(nOut-1)) % nOut
			d.Outputs[a], d.Outputs[c] = d.Outputs[c], d.Outputs[a]
			return fmt.Sprintf("outputs %d and %d swapped", a, c)
		})
	}
	cm("add-input-unsigned", -1, func(d *types.TxData) string {
		d.Inputs = append(d.Inputs, types.NewSpendInput(nil, hash32(r.Bytes(32)), *consensus.BTMAssetID, 1000, 0, []byte{0x51}, nil))
		return "anyone-can-spend BTM input added"
	})
	cm("add-input-signed", -1, func(d *types.TxData) string {
		l := g.newLock(false, false, 1, 1)
		d.Inputs = append(d.Inputs, types.NewSpendInput(nil, hash32(r.Bytes(32)), *consensus.BTMAssetID, 1000, 0, cp(l.prog), nil))
		k := len(d.Inputs) - 1
		sp(d, k).Arguments = l.argsFor(types.NewTx(*cloneData(d)).SigHash(uint32(k)).Bytes(), l.signers)
		return "correctly signed P2WPKH BTM input added"
	})
	if nIn >= 2 {
		cm("remove-input", -1, func(d *types.TxData) string {
			k := r.Intn(nIn)
			d.Inputs = append(d.Inputs[:k:k], d.Inputs[k+1:]...)
			return fmt.Sprintf("input %d removed", k)
		})
		cm("swap-inputs", -1, func(d *types.TxData) string {
			a := r.Intn(nIn)
			c := (a + 1 + r.Intn(nIn-1)) % nIn
			d.Inputs[a], d.Inputs[c] = d.Inputs[c], d.Inputs[a]
			return fmt.Sprintf("inputs %d and %d swapped (with their witnesses)", a, c)
		})
	}
	// not committed: the signature hash is unchanged, the spend stays valid
	add("serialized-size-only", "uncommitted", -1, block1, true, func(d *types.TxData) string {
		d.SerializedSize++
		return "SerializedSize + 1 (not committed by the transaction id)"
	})
	return out
}

// ---------------------------------------------------------------- D1: VM cases on the validator's own context

// vmCase runs input i of tx on the validator's context with the given gas and adds the
// correspondence case  c02_case <raw program> ...  vs  (observables, [converted program]).
func (g *gen) vmCase(tx *types.Tx, blk *bc.Block, i int, gas int64, kind, what string) *vmlib.Obs {
	_, spent := spendOf(tx, i)
	raw := spent.ControlProgram.Code
	ctx := vmContext(tx, blk, i)
	cs := &vmlib.Case{Code: cp(ctx.Code), Args: cps(ctx.Arguments), State: cps(ctx.StateData), Gas: gas, VMVersion: ctx.VMVersion,
		TxVersion: u64p(ctx.TxVersion), Height: u64p(ctx.BlockHeight), AssetID: bp(ctx.AssetID), Amount: u64p(ctx.Amount),
		DestPos: u64p(ctx.DestPos), SpentID: bp(ctx.SpentOutputID), EntryID: cp(ctx.EntryID), SigHash: cp(ctx.TxSigHash()), HasCO: false}
	o := vmlib.RunCtx(cs, vmContext(tx, blk, i))
	s := vmlib.CoqModel(cs, o)
	marker := "(mk_context " + CoqBytes(cs.Code) + " "
	if !strings.HasPrefix(s, "vm_case ") || !strings.Contains(s, marker) {
		g.err = fmt.Errorf("vmlib.CoqModel has an unexpected shape")
		return o
	}
	// The sha256 / ripemd160 tables of vmlib.CoqModel list every item of the run; they are the
	// oracles of OP_SHA256 / OP_HASH160 only.  When the run (at any depth) never executed the
	// opcode the table is dropped: the case text, which dominates the Coq evaluation time, shrinks
	// by more than half.  (If the model executed the opcode where the VM did not, the lookup
	// yields the empty string and the case shows up as a mismatch, as it should.)
	ops := executedOps(vmContext(tx, blk, i), gas)
	const pre = "vm_case (mk_crypto "
	a := len(pre)
	b1 := matchList(s, a)
	b2 := -1
	if b1 > 0 && b1 < len(s) && s[b1] == ' ' {
		b2 = matchList(s, b1+1)
	}
	if !strings.HasPrefix(s, pre) || b1 < 0 || b2 < 0 {
		g.err = fmt.Errorf("vmlib.CoqModel has an unexpected shape (crypto tables)")
		return o
	}
	l1, l2 := s[a:b1], s[b1+1:b2]
	if !ops["SHA256"] {
		l1 = "[]"
	}
	if !ops["HASH160"] {
		l2 = "[]"
	}
	s = "c02_case " + CoqBytes(raw) + " (mk_crypto " + l1 + " " + l2 + s[b2:]
	s = strings.Replace(s, marker, "(fun code_ => mk_context code_ ", 1)
	obs := "(" + vmlib.CoqObs(o) + ", [" + CoqBytes(ctx.Code) + "])"
	id := g.c.Cases.Add(s, obs)
	desc := vmlib.Describe(cs, o)
	desc["raw_program"] = hx(raw)
	desc["mutation"] = kind
	desc["changed"] = what
	desc["input"] = i
	desc["entry_id"] = hx(cs.EntryID)
	desc["sighash"] = hx(cs.SigHash)
	desc["tx_id"] = hx(tx.ID.Bytes())
	desc["block_version"] = blk.Version
	g.c.Stats.CaseIndex[fmt.Sprint(id)] = desc
	g.c.Stats.Count("vm-case")
	g.c.Stats.Count("vm:" + map[bool]string{true: "ok", false: o.Err}[o.Err == ""])
	if g.c.Stats.Distribution["vm-case"]%97 == 1 {
		g.c.Stats.Sample(desc)
	}
	return o
}

// matchList returns the index just after the bracketed list starting at s[at], or -1.
func matchList(s string, at int) int {
	if at >= len(s) || s[at] != '[' {
		return -1
	}
	depth := 0
	for k := at; k < len(s); k++ {
		switch s[k] {
		case '[':
			depth++
		case ']':
			depth--
			if depth == 0 {
				return k + 1
			}
		}
	}
	return -1
}

// executedOps runs the context once more with tracing and returns the names of the
// instructions executed at any depth.
func executedOps(ctx *vm.Context, gas int64) map[string]bool {
	var buf bytes.Buffer
	vm.TraceOut = &buf
	vm.Verify(ctx, gas)
	vm.TraceOut = nil
	ops := map[string]bool{}
	for _, line := range strings.Split(buf.String(), "\n") {
		if strings.HasPrefix(line, "vm ") {
			if f := strings.Fields(line); len(f) >= 7 {
				ops[f[6]] = true
			}
		}
	}
	return ops
}

var smallGas = []int64{500, 1500, 3000, 0, 7000}

// ---------------------------------------------------------------- D1b: almost-standard programs

type malformed struct {
	name string
	wsh  bool
	f    func(h []byte, r *Rng) []byte
}

func cat(bs ...[]byte) []byte {
	var o []byte
	for _, b := range bs {
		o = append(o, b...)
	}
	return o
}

var malformedPrograms = []malformed{
	{"p2wpkh-19-bytes-after-14", false, func(h []byte, r *Rng) []byte { return cat([]byte{0x00, 0x14}, h[:19]) }},
	{"p2wpkh-21-bytes-after-14", false, func(h []byte, r *Rng) []byte { return cat([]byte{0x00, 0x14}, h, r.Bytes(1)) }},
	{"p2wpkh-data19", false, func(h []byte, r *Rng) []byte { return cat([]byte{0x00, 0x13}, h[:19]) }},
	{"p2wpkh-data21", false, func(h []byte, r *Rng) []byte { return cat([]byte{0x00, 0x15}, h, r.Bytes(1)) }},
	{"p2wsh-31-bytes-after-20", true, func(h []byte, r *Rng) []byte { return cat([]byte{0x00, 0x20}, h[:31]) }},
	{"p2wsh-33-bytes-after-20", true, func(h []byte, r *Rng) []byte { return cat([]byte{0x00, 0x20}, h, r.Bytes(1)) }},
	{"p2wsh-data31", true, func(h []byte, r *Rng) []byte { return cat([]byte{0x00, 0x1f}, h[:31]) }},
	{"p2wsh-data33", true, func(h []byte, r *Rng) []byte { return cat([]byte{0x00, 0x21}, h, r.Bytes(1)) }},
	{"p2wpkh-version-1", false, func(h []byte, r *Rng) []byte { return cat([]byte{0x51, 0x14}, h) }},
	{"p2wsh-version-1", true, func(h []byte, r *Rng) []byte { return cat([]byte{0x51, 0x20}, h) }},
	{"p2wpkh-version-random", false, func(h []byte, r *Rng) []byte { return cat([]byte{byte(0x52 + r.Intn(15)), 0x14}, h) }},
	{"p2wpkh-three-instructions", false, func(h []byte, r *Rng) []byte { return cat([]byte{0x00, 0x14}, h, []byte{0x51}) }},
	{"p2wsh-three-instructions", true, func(h []byte, r *Rng) []byte { return cat([]byte{0x00, 0x20}, h, []byte{0x51}) }},
	{"p2wpkh-pushdata1", false, func(h []byte, r *Rng) []byte { return cat([]byte{0x00, 0x4c, 0x14}, h) }},
	{"p2wsh-pushdata1", true, func(h []byte, r *Rng) []byte { return cat([]byte{0x00, 0x4c, 0x20}, h) }},
	{"p2wpkh-pushdata2", false, func(h []byte, r *Rng) []byte { return cat([]byte{0x00, 0x4d, 0x14, 0x00}, h) }},
	{"hash-push-alone-20", false, func(h []byte, r *Rng) []byte { return cat([]byte{0x14}, h) }},
	{"hash-push-alone-32", true, func(h []byte, r *Rng) []byte { return cat([]byte{0x20}, h) }},
	{"p2wpkh-truncated-push", false, func(h []byte, r *Rng) []byte { return cat([]byte{0x00, 0x14}, h[:r.Intn(19)]) }},
	{"p2wsh-truncated-push", true, func(h []byte, r *Rng) []byte { return cat([]byte{0x00, 0x20}, h[:r.Intn(31)]) }},
	{"version-only", false, func(h []byte, r *Rng) []byte { return []byte{0x00} }},
	{"two-version-bytes", true, func(h []byte, r *Rng) []byte { return cat([]byte{0x00, 0x00, 0x20}, h) }},
	{"empty-program", false, func(h []byte, r *Rng) []byte { return []byte{} }},
	{"op-fail", true, func(h []byte, r *Rng) []byte { return []byte{0x6a} }},
	{"op-true", false, func(h []byte, r *Rng) []byte { return []byte{0x51} }},
	{"bcrp-call-like", true, func(h []byte, r *Rng) []byte { return cat([]byte{0x04, 0x62, 0x63, 0x72, 0x70, 0x20}, h) }},
	{"bcrp-call-like-20", false, func(h []byte, r *Rng) []byte { return cat([]byte{0x04, 0x62, 0x63, 0x72, 0x70, 0x14}, h) }},
	{"truncated-pushdata1", true, func(h []byte, r *Rng) []byte { return []byte{0x00, 0x4c} }},
	{"truncated-pushdata4", true, func(h []byte, r *Rng) []byte { return cat([]byte{0x00, 0x4e, 0x20, 0x00}, h[:r.Intn(8)]) }},
	// standard programs whose committed script is consistent but not the wallet's template
	{"p2wsh-of-op-true", true, nil}, {"p2wsh-of-empty-script", true, nil}, {"p2wsh-of-op-fail", true, nil},
	{"p2wsh-of-multisig-plus-true", true, nil}, {"p2wsh-of-multisig-m-raised", true, nil}, {"p2wsh-of-checksig-script", true, nil},
	{"p2wsh-of-looping-script", true, nil},
}

// malformedCase builds a one-input transaction spending an almost-standard program with the
// witness of the corresponding standard program, and runs it through the D1 path.
func (g *gen) malformedCase() {
	r := g.r
	mf := malformedPrograms[g.malIdx%len(malformedPrograms)]
	g.malIdx++
	var l *lock
	if mf.wsh {
		p := g.pairs[r.Intn(len(g.pairs))]
		if p[1] > 3 {
			p = [2]int{1 + r.Intn(2), 2}
		}
		l = g.newLock(true, false, p[0], p[1])
	} else {
		l = g.newLock(false, false, 1, 1)
	}
	var prog []byte
	var script []byte // for the consistent non-template variants
	if mf.f != nil {
		prog = mf.f(l.hash, r)
	} else {
		switch mf.name {
		case "p2wsh-of-op-true":
			script = []byte{0x51}
		case "p2wsh-of-empty-script":
			script = []byte{}
		case "p2wsh-of-op-fail":
			script = []byte{0x6a}
		case "p2wsh-of-multisig-plus-true":
			script = cat(l.script, []byte{0x51})
		case "p2wsh-of-multisig-m-raised":
			script = cp(l.script)
			script[1+33*l.n()]++ // m+1: one signature short (or m > n: bad value)
		case "p2wsh-of-checksig-script":
			script = cat([]byte{0xae, 0x20}, l.keys[l.signers[0]].pub, []byte{0xac}) // TXSIGHASH <pk> CHECKSIG
		case "p2wsh-of-looping-script":
			script = []byte{0x51, 0x75, 0x63, 0x00, 0x00, 0x00, 0x00} // TRUE DROP JUMP:0 — runs until the gas is gone (stack does not grow: the trace stays linear)
		}
		prog, _ = vmutil.P2WSHProgram(sha3sum(script))
	}
	fee := uint64(200 * (20000 + r.Intn(100000)))
	out := 1 + r.Next()%1000000
	data := &types.TxData{Version: 1, TimeRange: 0}
	data.Inputs = append(data.Inputs, types.NewSpendInput(nil, hash32(r.Bytes(32)), *consensus.BTMAssetID, fee+out, uint64(r.Intn(3)), prog, g.smallState()))
	data.Outputs = append(data.Outputs, types.NewOriginalTxOutput(*consensus.BTMAssetID, out, g.outProgram(), nil))
	sh := types.NewTx(*cloneData(data)).SigHash(0).Bytes()
	args := l.argsFor(sh, l.signers)
	if script != nil {
		args[len(args)-1] = script
	}
	sp(data, 0).Arguments = args
	fixSize(data)
	tx := types.NewTx(*data)
	kind := "malformed:" + mf.name
	res := g.check(tx, block1, kind, "spent control program "+hx(prog), 0, true)
	res.chain(tx, block1)
	gas := res.gasAt[0]
	if r.Chance(25) {
		gas = smallGas[r.Intn(len(smallGas))]
	}
	if mf.name == "p2wsh-of-looping-script" { // keep the number of steps (trace, model fuel) moderate
		gas = 2000 + int64(r.Intn(5000))
	}
	g.vmCase(tx, block1, 0, gas, kind, "spent control program "+hx(prog))
	g.c.Stats.Count("d1b:" + mf.name)
}

// ---------------------------------------------------------------- D2: builders and the signature hash

func (g *gen) builderCases(b *baseTx) {
	r := g.r
	st := g.c.Stats
	addCase := func(kind int, h []byte, pks [][]byte, m int, observed [][]byte, what string) {
		pl := "[]"
		if len(pks) > 0 {
			pl = coqItems(pks)
		}
		model := fmt.Sprintf("c02_items (c02_build %d%%N %s %s %d%%N)", kind, CoqBytes(h), pl, m)
		obs := "c02_items []"
		if len(observed) > 0 {
			obs = "c02_items " + coqItems(observed)
		}
		id := g.c.Cases.Add(model, obs)
		st.CaseIndex[fmt.Sprint(id)] = map[string]interface{}{"builder": what, "hash": hx(h), "pubkeys": hxs(pks), "m": m, "observed": hxs(observed)}
		st.Count(fmt.Sprintf("d2:kind%d", kind))
		st.Case(fmt.Sprintf("d2|%d|%x|%x|%d", kind, h, pks, m), true)
	}
	hashOf := func() []byte {
		switch r.Intn(4) {
		case 0:
			return r.Bytes(20)
		case 1:
			return r.Bytes(32)
		case 2:
			return r.Bytes([]int{0, 1, 19, 21, 31, 33, 75, 76, 77, 80}[r.Intn(10)])
		default:
			return r.Bytes(r.Intn(81))
		}
	}
	obs1 := func(p []byte, err error) [][]byte {
		if err != nil {
			return nil
		}
		return [][]byte{p}
	}
	h := hashOf()
	if r.Bool() {
		addCase(0, h, nil, 0, obs1(vmutil.P2WPKHProgram(h)), "vmutil.P2WPKHProgram")
	} else {
		addCase(0, h, nil, 0, obs1(vmutil.P2WSHProgram(h)), "vmutil.P2WSHProgram")
	}
	h = hashOf()
	addCase(1, h, nil, 0, obs1(vmutil.P2PKHSigProgram(h)), "vmutil.P2PKHSigProgram")
	h = hashOf()
	addCase(2, h, nil, 0, obs1(vmutil.P2SHProgram(h)), "vmutil.P2SHProgram")
	n := r.Intn(21)
	if r.Chance(40) {
		n = r.Intn(7)
	}
	var pks [][]byte
	var epks []ed25519.PublicKey
	for i := 0; i < n; i++ {
		k := r.Bytes(32)
		if r.Chance(8) {
			k = r.Bytes(r.Intn(81))
		}
		pks = append(pks, k)
		epks = append(epks, ed25519.PublicKey(k))
	}
	m := r.Intn(n + 2)
	if n > 0 && r.Chance(50) {
		m = 1 + r.Intn(n)
	}
	addCase(3, nil, pks, m, obs1(vmutil.P2SPMultiSigProgram(epks, m)), "vmutil.P2SPMultiSigProgram")
	i := r.Intn(len(b.tx.Inputs))
	addCase(4, b.tx.Tx.InputIDs[i].Bytes(), [][]byte{b.tx.ID.Bytes()}, 0, [][]byte{b.tx.SigHash(uint32(i)).Bytes()}, "bc.Tx.SigHash")
}

// ---------------------------------------------------------------- D3: witness layout of the txbuilder

func slotsOf(sigs [][]byte) string {
	var s []string
	for _, x := range sigs {
		s = append(s, CoqBytes(x))
	}
	return CoqList(s)
}

func (g *gen) rawWitnessCase(tpl *txbuilder.Template, i int, what string) {
	si := tpl.SigningInstructions[i]
	rw, ok := si.WitnessComponents[0].(*txbuilder.RawTxSigWitness)
	if !ok || len(si.WitnessComponents) != 2 {
		return
	}
	dw := si.WitnessComponents[1].(txbuilder.DataWitness)
	var slots [][]byte
	for _, s := range rw.Sigs {
		slots = append(slots, []byte(s))
	}
	args := tpl.Transaction.Inputs[i].Arguments()
	model := fmt.Sprintf("c02_items (c02_witness %d%%nat %s %s)", rw.Quorum, slotsOf(slots), CoqBytes(dw))
	obs := "c02_items " + coqItems(args)
	id := g.c.Cases.Add(model, obs)
	g.c.Stats.CaseIndex[fmt.Sprint(id)] = map[string]interface{}{"witness_layout": what, "quorum": rw.Quorum, "slots": hxs(slots), "last": hx(dw), "arguments": hxs(args)}
	g.c.Stats.Count("d3:raw-" + what)
	g.c.Stats.Case(fmt.Sprintf("d3|%d|%x|%x", rw.Quorum, slots, []byte(dw)), true)
}

// partialCases: templates signed with fewer / more keys than the quorum.
func (g *gen) partialCases(b *baseTx) {
	r := g.r
	var cands []int
	for i, l := range b.locks {
		if l.ckd {
			cands = append(cands, i)
		}
	}
	if len(cands) == 0 {
		return
	}
	i := cands[r.Intn(len(cands))]
	l := b.locks[i]
	data := cloneData(&b.data)
	for k := range data.Inputs {
		sp(data, k).Arguments = nil
	}
	tpl := &txbuilder.Template{Transaction: types.NewTx(*data)}
	for k := range data.Inputs {
		if k == i {
			tpl.SigningInstructions = append(tpl.SigningInstructions, instruction(k, l))
		} else {
			tpl.SigningInstructions = append(tpl.SigningInstructions, &txbuilder.SigningInstruction{Position: uint32(k)})
		}
	}
	allowed := map[string]chainkd.XPrv{}
	for _, k := range g.subset(l.n(), r.Intn(l.n()+1)) {
		allowed[keyOf(l.keys[k].xpub, l.path)] = l.keys[k].root
	}
	calls := 1 + r.Intn(l.n()+1)
	for k := 0; k < calls; k++ {
		if err := txbuilder.Sign(context.Background(), tpl, "", signFnFor(allowed)); err != nil {
			panic(err)
		}
	}
	g.rawWitnessCase(tpl, i, "partial")
}

// sigWitnessCase: the SignatureWitness layout (signature program), not used by standard programs.
func (g *gen) sigWitnessCase() {
	r := g.r
	n := 1 + r.Intn(4)
	q := 1 + r.Intn(n)
	if r.Chance(10) {
		q = r.Intn(n + 2)
	}
	path := g.newPath()
	var keys []*signer
	var xpubs []chainkd.XPub
	for i := 0; i < n; i++ {
		k := g.newSigner(true, path)
		keys = append(keys, k)
		xpubs = append(xpubs, k.xpub)
	}
	data := &types.TxData{Version: 1}
	data.Inputs = append(data.Inputs, types.NewSpendInput(nil, hash32(r.Bytes(32)), *consensus.BTMAssetID, 1000000+uint64(r.Intn(1000)), 0, []byte{0x51}, nil))
	data.Outputs = append(data.Outputs, types.NewOriginalTxOutput(*consensus.BTMAssetID, 1+uint64(r.Intn(1000)), g.outProgram(), nil))
	fixSize(data)
	tpl := &txbuilder.Template{Transaction: types.NewTx(*data), AllowAdditional: r.Chance(30)}
	si := &txbuilder.SigningInstruction{Position: 0}
	var before [][]byte
	for k := r.Intn(3); k > 0; k-- {
		d := r.Bytes(r.Intn(12))
		before = append(before, d)
		si.WitnessComponents = append(si.WitnessComponents, txbuilder.DataWitness(d))
	}
	si.AddWitnessKeys(xpubs, path, q)
	tpl.SigningInstructions = []*txbuilder.SigningInstruction{si}
	allowed := map[string]chainkd.XPrv{}
	for _, k := range g.subset(n, r.Intn(n+1)) {
		allowed[keyOf(keys[k].xpub, path)] = keys[k].root
	}
	calls := 1 + r.Intn(n+1)
	for k := 0; k < calls; k++ {
		if err := txbuilder.Sign(context.Background(), tpl, "", signFnFor(allowed)); err != nil {
			panic(err)
		}
	}
	sw := si.WitnessComponents[len(si.WitnessComponents)-1].(*txbuilder.SignatureWitness)
	var slots [][]byte
	for _, s := range sw.Sigs {
		slots = append(slots, []byte(s))
	}
	args := tpl.Transaction.Inputs[0].Arguments()
	bl := "[]"
	if len(before) > 0 {
		bl = coqItems(before)
	}
	model := fmt.Sprintf("c02_items (c02_sigwitness %s %d%%nat %s %s)", bl, sw.Quorum, slotsOf(slots), CoqBytes(sw.Program))
	id := g.c.Cases.Add(model, "c02_items "+coqItems(args))
	g.c.Stats.CaseIndex[fmt.Sprint(id)] = map[string]interface{}{"witness_layout": "signature-witness", "quorum": sw.Quorum, "slots": hxs(slots),
		"before": hxs(before), "sigprog": hx(sw.Program), "arguments": hxs(args)}
	g.c.Stats.Count("d3:signature-witness")
	g.c.Stats.Case(fmt.Sprintf("d3s|%d|%x|%x|%x", sw.Quorum, slots, before, []byte(sw.Program)), true)
	// the signatures are over sha3(sigprog)
	h := sha3sum(sw.Program)
	for k, s := range slots {
		if len(s) > 0 && !edVerify(keys[k].pub, h, s) {
			g.c.Stats.Fail("class=sigwitness-signature: SignatureWitness signature is not over sha3_256(signature program)", g.c.Stats.CaseIndex[fmt.Sprint(id)])
		}
	}
}

// ---------------------------------------------------------------- run

func run(c *Ctx) error {
	log.SetOutput(ioutil.Discard)
	// vmlib.RunCtx allocates a 1 MiB scanner buffer per run: with the default GC target the
	// runtime keeps returning and re-faulting these pages; let the heap breathe instead.
	debug.SetGCPercent(1500)
	g := &gen{c: c, r: c.Rng, cover: map[string]int{}}
	for n := 1; n <= 6; n++ {
		for m := 1; m <= n; m++ {
			g.pairs = append(g.pairs, [2]int{m, n})
		}
	}
	for i := len(g.pairs) - 1; i > 0; i-- {
		j := g.r.Intn(i + 1)
		g.pairs[i], g.pairs[j] = g.pairs[j], g.pairs[i]
	}
	r := g.r
	st := c.Stats
	nBase := c.N(60, 400)
	perBaseVM := 6
	for bi := 0; bi < nBase; bi++ {
		b := g.buildBase()
		g.nBase++
		st.Count(fmt.Sprintf("inputs:%d", len(b.locks)))
		st.Count(fmt.Sprintf("outputs:%d", len(b.data.Outputs)))
		for _, l := range b.locks {
			if l.wsh {
				st.Count("p2wsh")
				st.Count(fmt.Sprintf("msig:%d-of-%d", l.m, l.n()))
			} else {
				st.Count("p2wpkh")
			}
			if l.ckd {
				st.Count("keys:chainkd")
			} else {
				st.Count("keys:ed25519")
			}
		}
		res := g.check(b.tx, block1, "base", "", -1, false)
		// D3 on the fully signed template
		for i, l := range b.locks {
			if l.ckd {
				g.rawWitnessCase(b.tpl, i, "signed")
			}
		}
		if r.Chance(60) {
			g.partialCases(b)
		}
		if r.Chance(50) {
			g.sigWitnessCase()
		}
		g.builderCases(b)
		if !res.accepted {
			continue
		}
		g.nBaseAccepted++
		if bi%17 == 0 {
			txhex, _ := b.data.MarshalText()
			st.Sample(map[string]interface{}{"base_tx": string(txhex), "inputs": len(b.locks), "gas": res.gasAt[0]})
		}
		// D1 on every input of the base transaction, with the validator's real gas
		for i := range b.locks {
			gas := res.gasAt[i]
			if r.Chance(12) {
				gas = smallGas[r.Intn(len(smallGas))]
			}
			g.vmCase(b.tx, block1, i, gas, "base", "")
		}
		// every single mutation: validate + oracle
		muts := g.mutants(b)
		type done struct {
			m   *mutant
			tx  *types.Tx
			res *checked
		}
		var ds []done
		for _, m := range muts {
			tx := types.NewTx(*m.data)
			ds = append(ds, done{m, tx, g.check(tx, m.blk, m.kind, m.what, m.input, true)})
		}
		// D1 on a sample of the mutants: the kinds least covered so far first
		for k := 0; k < perBaseVM && len(ds) > 0; k++ {
			best, bestN := -1, 0
			off := r.Intn(len(ds))
			for t := range ds {
				idx := (t + off) % len(ds)
				if n := g.cover[ds[idx].m.kind]; best < 0 || n < bestN {
					best, bestN = idx, n
				}
			}
			d := ds[best]
			g.cover[d.m.kind]++
			ds = append(ds[:best], ds[best+1:]...)
			i := d.m.input
			if i < 0 || i >= len(d.tx.Inputs) {
				i = r.Intn(len(d.tx.Inputs))
			}
			d.res.chain(d.tx, d.m.blk)
			gas := d.res.gasAt[i]
			if r.Chance(30) {
				gas = smallGas[r.Intn(len(smallGas))]
			}
			g.vmCase(d.tx, d.m.blk, i, gas, d.m.kind, d.m.what)
			st.Count("vm-level:" + d.m.level)
		}
		// D1b
		g.malformedCase()
		if r.Chance(45) {
			g.malformedCase()
		}
		if g.err != nil {
			return g.err
		}
	}
	// F. concurrent validation: the validator runs its transactions on several worker goroutines
	// (ValidateTxs) and RPC handlers validate at the same time. Every transaction validated while
	// others are being validated must get the verdict it got alone; an accepted mutant here is a
	// spend without a matching witness. Verdicts are schedule-independent facts: any divergence is
	// a violation, agreement proves nothing.
	if len(g.pool) > 0 {
		workers, rounds := 8, c.N(1500, 6000)
		type div struct {
			it  poolItem
			got bool
		}
		divs := make(chan div, workers)
		var wg sync.WaitGroup
		for w := 0; w < workers; w++ {
			wg.Add(1)
			rr := NewRng(c.Seed*1000003 + uint64(w))
			go func() {
				defer wg.Done()
				for k := 0; k < rounds; k++ {
					it := g.pool[rr.Intn(len(g.pool))]
					err, panicked := safeValidate(it.tx.Tx, it.blk)
					if panicked || (err == nil) != it.accepted {
						select {
						case divs <- div{it, err == nil}:
						default:
						}
						return
					}
				}
			}()
		}
		wg.Wait()
		close(divs)
		st.Distribution["concurrent-validations"] = workers * rounds
		for d := range divs {
			txhex, _ := d.it.tx.TxData.MarshalText()
			st.Fail(fmt.Sprintf("class=concurrent-verdict-differs: %s transaction validated alone: accepted=%v; validated while 7 other goroutines validate other transactions: accepted=%v", d.it.kind, d.it.accepted, d.got),
				map[string]interface{}{"raw_tx": string(txhex), "mutation": d.it.kind})
			break
		}
		// the batch API: results[i] must describe transaction i
		for rep := 0; rep < c.N(20, 80); rep++ {
			var txs []*bc.Tx
			var want []bool
			blk := g.pool[0].blk
			for k := 0; k < 12; k++ {
				it := g.pool[r.Intn(len(g.pool))]
				if it.blk != blk {
					continue
				}
				txs = append(txs, it.tx.Tx)
				want = append(want, it.accepted)
			}
			res := validation.ValidateTxs(txs, blk, converter)
			for i := range txs {
				if i < len(res) && (res[i].GetError() == nil) != want[i] {
					st.Fail(fmt.Sprintf("class=concurrent-verdict-differs: ValidateTxs result %d of a %d-transaction batch says accepted=%v, the transaction alone: accepted=%v", i, len(txs), res[i].GetError() == nil, want[i]), map[string]interface{}{"batch": len(txs), "index": i})
					rep = 1 << 30
					break
				}
			}
		}
	}
	st.Distribution["model_evaluated"] = c.Cases.Len()
	st.Distribution["base-accepted"] = g.nBaseAccepted
	st.Rule = "base transactions: version 1, 1-3 spend inputs locked by P2WPKH or P2WSH(m-of-n multisig, all 1<=m<=n<=6 in rotation), real chainkd keys (wallet derivation paths) signed through txbuilder.Sign with RawTxSigWitness+DataWitness instructions laid out like account.UtxoToInputs, or plain ed25519 keys; random m-subset of signers; 1-3 outputs, BTM fee giving 17k..350k gas, optionally a second exactly balanced asset, optional state data, two inputs sharing keys in ~30% of multi-input transactions. Every accepted base transaction gets EVERY single mutation (witness level: bit flips in each signature's first/last/R/S bytes, in each public key, m, n, opcodes of the redeem script, truncated/extended/foreign/reordered/dropped/duplicated signatures, replayed signatures of a sibling transaction or of another input, signatures over the tx id; committed level: every input and output field, time range, version, added/removed/reordered inputs and outputs; uncommitted: SerializedSize). Every transaction is validated by validation.ValidateTx and judged by the direct oracle (exhaustive m-subset search with ed25519.Verify over sha3_256(inputID||txID)). Model cases: VM run of every base input and of ~6 mutants per base on the validator's own vm.Context (real and small gas), almost-standard programs, builders, sighash, witness layouts. distinct = distinct serialized transaction (with witness and size) / distinct builder or layout input; non-trivial = a mutant, or a base transaction with at least one standard input, or a builder/layout case"
	// E. degenerate-run guard (an oracle failure explains a run without accepted bases / rejected mutants)
	if len(st.OracleFailures) == 0 {
		if g.nBaseAccepted*100 < g.nBase*95 {
			return fmt.Errorf("degenerate run: only %d of %d base transactions accepted and no oracle failure explains it", g.nBaseAccepted, g.nBase)
		}
		if g.nMutRejected == 0 {
			return fmt.Errorf("degenerate run: no mutant was rejected (%d mutants)", g.nMutants)
		}
	}
	c.Cases.Shard = 100
	// C02/Model.v opens N_scope at top level, which is exported to importers: re-open Z_scope
	// (the scope vmlib prints gas values and traces in) after the imports.
	header := vmlib.Header + "From Verif Require Import Sha3.\nFrom C02 Require Import Model Run.\nOpen Scope Z_scope.\n"
	return c.Cases.Write(c.Out, header, "c02_obs", "c02_obs_eqb")
}
