// C18 — the node never signs or admits slashable votes: correspondence and oracle harness.
//
// Shares the driver of C16 (harness/c16/engine).  Cases: block trees with forks delivered in order, out of order
// and with verification messages that precede their target block; one validator that signs everything it is
// asked to; malformed messages; epoch-closing blocks with unusable sup links next to honest siblings.
// Oracle (independent of the model): the set of votes the node produced or accepted - every
// ValidCasperSignMsg posted on its event dispatcher and every signature that enters a checkpoint of its
// in-memory tree - contains, per public key, no two votes with equal target height and different targets and no
// two votes one of whose spans lies strictly inside the other.
package main

import (
	"verifharness/c16/engine"
	. "verifharness/hlib"
)

func main() {
	Main("C18", run, map[string]func([]string) int{"batch": engine.ChildBatch})
}

func run(c *Ctx) error {
	g := &engine.Gen{R: c.Rng}
	cases := engine.Corpus(0, false)
	id := len(cases)
	add := func(stream string, p engine.Profile, k int) {
		for i := 0; i < k; i++ {
			q := p
			q.Local = c.Rng.Intn(q.N)
			if c.Rng.Chance(10) {
				q.Local = engine.Outsider
			}
			cases = append(cases, g.Random(id, stream, q))
			id++
		}
	}
	base := engine.Profile{N: 4, Carried: 30, Forged: 8, Forks: 3, Trunk: 14, Malformed: 4, Byz: true}
	add("forks-byzantine", base, c.N(40, 300))
	sh := base
	sh.Shuffle = true
	add("out-of-order", sh, c.N(25, 200))
	ea := base
	ea.Early = true
	add("early-messages", ea, c.N(15, 120))
	bad := base
	bad.BadBlocks, bad.Malformed = 30, 15
	add("bad-link-blocks", bad, c.N(25, 180))
	long := base
	long.Trunk, long.Forks = 22, 3
	add("long", long, c.N(15, 100))
	return engine.RunProperty(c, engine.Oracles{C18: true}, cases,
		"a case counts as non-trivial when the node admitted a verification message, signed a vote of its own or justified a checkpoint")
}
