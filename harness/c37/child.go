package main

// Child process of the C37 harness: runs ONE scenario on a real node (protocol.Chain on
// LevelDB) with real concurrent goroutines, a progress watchdog and goroutine-dump sampling.
//
//	h_c37 child run <scenario.json> <scratch dir>
//
// prints exactly one JSON line (Result) on stdout.  The same code is compiled a second time with
// the race detector (go build -race); race reports go to the file named by GORACE=log_path.

import (
	"encoding/json"
	"fmt"
	"os"
	"path/filepath"
	"regexp"
	"runtime"
	"sort"
	"strconv"
	"strings"
	"sync"
	"sync/atomic"
	"time"

	"github.com/bytom/bytom/protocol/bc/types"
	cl "verifharness/chainlib"
)

// ---------------------------------------------------------------- scenario format

// Block names: "G" genesis, "T<h>" trunk block of height h, "A<h>" / "B<h>" / "C<h>" blocks of the
// branches forking off the trunk tip.  Transactions: Txs[i] spends In (either "R<h>" = the
// epoch-reward output of trunk block T<h>, or "X<i>.<pos>" = an output of Txs[i]).
type TxSpec struct {
	In   []string `json:"in"`
	NOut int      `json:"nout"`
	Vote int      `json:"vote,omitempty"` // >0: first output is a vote output for key Vote-1
	Bad  bool     `json:"bad,omitempty"`  // outputs exceed the inputs: validation rejects it and the pool remembers the error
}

type Event struct {
	K     string `json:"k"` // block | vote | tx | read | sleep
	Block string `json:"b,omitempty"`
	Key   int    `json:"key,omitempty"`
	Src   string `json:"s,omitempty"`
	Tgt   string `json:"t,omitempty"`
	Tx    int    `json:"tx,omitempty"`
	API   string `json:"api,omitempty"`
	Ms    int    `json:"ms,omitempty"`
}

type Worker struct {
	Kind   string  `json:"kind"` // vote | block | tx | read   (decides the model process it maps to)
	Events []Event `json:"ev"`
}

type Scenario struct {
	ID       int              `json:"id"`
	Stream   string           `json:"stream"`
	Seed     uint64           `json:"seed"`
	Trunk    int              `json:"trunk"`
	Branches map[string]int   `json:"branches"` // "A" -> number of blocks above the trunk
	BlockTxs map[string][]int `json:"blocktxs,omitempty"`
	Txs      []TxSpec         `json:"txs,omitempty"`
	Setup    []Event          `json:"setup"`
	Workers  []Worker         `json:"workers"`
	SampleMs int              `json:"sample_ms"` // goroutine-dump sampling period during the concurrent phase (0: none)
	Expect   string           `json:"expect"`    // harness-side expectation, for statistics only
}

// one goroutine of the node or of the harness, as seen in a dump
type GPos struct {
	Proc  string `json:"p"`           // bp | loop | vote0.. | block0.. | tx0.. | read0..
	State string `json:"s"`           // goroutine state (chan receive, sync.RWMutex.RLock, running, ...)
	Path  string `json:"path"`        // call path inside protocol/ and protocol/casper: "file:line>file:line" (outermost first); "" = not inside
	Leaf  bool   `json:"leaf"`        // the innermost non-runtime frame is the last element of Path (blocked exactly at a modelled operation)
	Funcs string `json:"f,omitempty"` // function names of Path (for classification and for people)
}

type Result struct {
	ID        int      `json:"id"`
	Outcome   string   `json:"outcome"` // completed | stuck | setup-stuck
	Class     string   `json:"class,omitempty"`
	Calls     int      `json:"calls"`   // calls that returned
	Pending   int      `json:"pending"` // calls that never returned
	Errors    int      `json:"errors"`  // calls that returned an error
	Stuck     []GPos   `json:"stuck,omitempty"`
	Dump      string   `json:"dump,omitempty"` // the relevant goroutines of the final dump, verbatim
	Samples   [][]GPos `json:"samples,omitempty"`
	Info      string   `json:"info,omitempty"`
	ElapsedMs int64    `json:"ms"`
}

// ---------------------------------------------------------------- world

type world struct {
	w      *cl.World
	blocks map[string]*cl.BlockInfo
	txs    []*types.Tx
}

func buildWorld(sc *Scenario) (*world, error) {
	w := cl.Init(cl.DefaultOptions())
	wd := &world{w: w, blocks: map[string]*cl.BlockInfo{"G": w.Genesis}}
	// transactions first need the trunk's coinbases: build trunk, then txs, then branches
	tip := w.Genesis
	for h := 1; h <= sc.Trunk; h++ {
		tip = w.NewBlock(tip, nil, cl.BlockOpt{})
		wd.blocks[fmt.Sprintf("T%d", h)] = tip
	}
	for i, ts := range sc.Txs {
		var ins []cl.Out
		for _, in := range ts.In {
			switch {
			case strings.HasPrefix(in, "R"):
				b := wd.blocks["T"+in[1:]]
				if b == nil || len(b.RewardOuts()) == 0 {
					return nil, fmt.Errorf("tx %d: no reward output %s", i, in)
				}
				ins = append(ins, b.RewardOuts()[0])
			case strings.HasPrefix(in, "X"):
				parts := strings.Split(in[1:], ".")
				j, _ := strconv.Atoi(parts[0])
				p, _ := strconv.Atoi(parts[1])
				if j >= i {
					return nil, fmt.Errorf("tx %d: forward reference %s", i, in)
				}
				ins = append(ins, cl.Out{Tx: wd.txs[j], Pos: p})
			default:
				return nil, fmt.Errorf("tx %d: bad input %s", i, in)
			}
		}
		var sum uint64
		for _, in := range ins {
			sum += in.Amount()
		}
		n := ts.NOut
		if n < 1 {
			n = 1
		}
		each := (sum - cl.DefaultFee) / uint64(n)
		if ts.Bad {
			each = sum/uint64(n) + 1 + uint64(i)
		}
		var outs []cl.OutSpec
		for k := 0; k < n; k++ {
			o := cl.OutSpec{Amount: each}
			if k == 0 && ts.Vote > 0 {
				o.Vote = w.Pubs[ts.Vote-1][:]
			}
			outs = append(outs, o)
		}
		wd.txs = append(wd.txs, cl.NewTx(ins, outs, 0))
	}
	names := make([]string, 0, len(sc.Branches))
	for n := range sc.Branches {
		names = append(names, n)
	}
	sort.Strings(names)
	for bi, name := range names {
		parent := tip
		for k := 1; k <= sc.Branches[name]; k++ {
			h := sc.Trunk + k
			bn := fmt.Sprintf("%s%d", name, h)
			var txs []*types.Tx
			for _, ti := range sc.BlockTxs[bn] {
				txs = append(txs, wd.txs[ti])
			}
			opt := cl.BlockOpt{}
			if k == 1 {
				opt.Skip = bi // sibling first blocks differ by their time slot
			}
			parent = w.NewBlock(parent, txs, opt)
			wd.blocks[bn] = parent
		}
	}
	return wd, nil
}

// ---------------------------------------------------------------- goroutine dumps

var (
	reHeader = regexp.MustCompile(`^goroutine (\d+) \[([^\]]*)\]:$`)
	reFile   = regexp.MustCompile(`^\t(\S+):(\d+)`)
)

type frame struct {
	fn   string
	file string
	line int
}

type gor struct {
	id     int
	state  string
	frames []frame // innermost first
	text   string
}

func parseDump(dump string) []gor {
	var out []gor
	for _, blk := range strings.Split(dump, "\n\n") {
		lines := strings.Split(strings.TrimSpace(blk), "\n")
		if len(lines) == 0 {
			continue
		}
		m := reHeader.FindStringSubmatch(lines[0])
		if m == nil {
			continue
		}
		g := gor{text: blk}
		g.id, _ = strconv.Atoi(m[1])
		st := m[2]
		if i := strings.Index(st, ","); i >= 0 { // "chan receive, 2 minutes", "select, locked to thread"
			st = st[:i]
		}
		g.state = st
		for i := 1; i+1 < len(lines); i += 2 {
			fn := lines[i]
			if strings.HasPrefix(fn, "created by ") {
				break
			}
			if j := strings.LastIndex(fn, "("); j > 0 {
				fn = fn[:j]
			}
			fm := reFile.FindStringSubmatch(lines[i+1])
			if fm == nil {
				continue
			}
			ln, _ := strconv.Atoi(fm[2])
			g.frames = append(g.frames, frame{fn: fn, file: fm[1], line: ln})
		}
		out = append(out, g)
	}
	return out
}

// relFile maps an absolute source path to "protocol/x.go" / "protocol/casper/x.go" when the file
// lies directly in one of the two modelled package directories; "" otherwise.
func relFile(file string) string {
	i := strings.LastIndex(file, "/protocol/")
	if i < 0 {
		return ""
	}
	rel := file[i+1:]
	parts := strings.Split(rel, "/")
	if len(parts) == 2 || (len(parts) == 3 && parts[1] == "casper") {
		if strings.HasSuffix(rel, "_test.go") {
			return ""
		}
		return rel
	}
	return ""
}

func isRuntimeFrame(fn string) bool {
	return strings.HasPrefix(fn, "runtime.") || strings.HasPrefix(fn, "sync.") || strings.HasPrefix(fn, "internal/") ||
		strings.HasPrefix(fn, "sync/atomic.")
}

var blockedStates = map[string]bool{
	"chan receive": true, "chan send": true, "select": true, "sync.Mutex.Lock": true,
	"sync.RWMutex.RLock": true, "sync.RWMutex.Lock": true, "semacquire": true, "sync.Cond.Wait": true,
	"chan receive (nil chan)": true, "chan send (nil chan)": true, "select (no cases)": true,
	"sync.WaitGroup.Wait": true,
}

// procOf names the model process a goroutine belongs to (by its outermost frames).
func procOf(g *gor) string {
	for i := len(g.frames) - 1; i >= 0; i-- {
		fn := g.frames[i].fn
		switch {
		case strings.HasSuffix(fn, "protocol.(*Chain).blockProcessor"):
			return "bp"
		case strings.HasSuffix(fn, "casper.(*Casper).authVerificationLoop"):
			return "loop"
		case strings.HasPrefix(fn, "main.workerEntry"):
			return "w" + strings.TrimPrefix(fn, "main.workerEntry")
		}
	}
	return ""
}

func position(g *gor, proc string) GPos {
	p := GPos{Proc: proc, State: g.state}
	// frames innermost first; skip the runtime/sync prefix
	k := 0
	for k < len(g.frames) && isRuntimeFrame(g.frames[k].fn) {
		k++
	}
	var path, funcs []string
	first := true
	for i := k; i < len(g.frames); i++ {
		rf := relFile(g.frames[i].file)
		if rf == "" {
			first = false
			continue
		}
		if first {
			p.Leaf = true
		}
		first = false
		path = append([]string{fmt.Sprintf("%s:%d", rf, g.frames[i].line)}, path...)
		fn := g.frames[i].fn
		if j := strings.LastIndex(fn, "/"); j >= 0 {
			fn = fn[j+1:]
		}
		funcs = append([]string{fn}, funcs...)
	}
	p.Path = strings.Join(path, ">")
	p.Funcs = strings.Join(funcs, ">")
	return p
}

func takeDump() string {
	buf := make([]byte, 1<<20)
	for {
		n := runtime.Stack(buf, true)
		if n < len(buf) {
			return string(buf[:n])
		}
		buf = make([]byte, 2*len(buf))
	}
}

// snapshot returns the positions of all model-relevant goroutines, keyed by process, plus the
// verbatim text of those goroutines.
func snapshot(names map[string]string) ([]GPos, string) {
	gs := parseDump(takeDump())
	var ps []GPos
	var text []string
	for i := range gs {
		proc := procOf(&gs[i])
		if proc == "" {
			continue
		}
		if strings.HasPrefix(proc, "w") {
			if n, ok := names[proc[1:]]; ok {
				proc = n
			} else {
				continue
			}
		}
		ps = append(ps, position(&gs[i], proc))
		text = append(text, gs[i].text)
	}
	sort.Slice(ps, func(i, j int) bool { return ps[i].Proc < ps[j].Proc })
	return ps, strings.Join(text, "\n\n")
}

// ---------------------------------------------------------------- workers

// Distinct entry functions, so that a goroutine dump tells the workers apart.
//
//go:noinline
func workerEntry0(f func()) { f(); runtime.KeepAlive(f) }

//go:noinline
func workerEntry1(f func()) { f(); runtime.KeepAlive(f) }

//go:noinline
func workerEntry2(f func()) { f(); runtime.KeepAlive(f) }

//go:noinline
func workerEntry3(f func()) { f(); runtime.KeepAlive(f) }

//go:noinline
func workerEntry4(f func()) { f(); runtime.KeepAlive(f) }

//go:noinline
func workerEntry5(f func()) { f(); runtime.KeepAlive(f) }

//go:noinline
func workerEntry6(f func()) { f(); runtime.KeepAlive(f) }

//go:noinline
func workerEntry7(f func()) { f(); runtime.KeepAlive(f) }

var workerEntries = []func(func()){workerEntry0, workerEntry1, workerEntry2, workerEntry3, workerEntry4, workerEntry5, workerEntry6, workerEntry7}

type runner struct {
	sc      *Scenario
	wd      *world
	n       *cl.Node
	done    int64 // calls returned
	started int64 // calls started
	errs    int64
}

func (r *runner) exec(e Event) {
	atomic.AddInt64(&r.started, 1)
	var err error
	switch e.K {
	case "block":
		_, err = r.n.Process(r.wd.blocks[e.Block].Block)
	case "vote":
		err = r.n.Chain.ProcessBlockVerification(r.wd.w.Vote(e.Key, r.wd.blocks[e.Src].Hash, r.wd.blocks[e.Tgt].Hash))
	case "tx":
		_, err = r.n.Chain.ValidateTx(r.wd.txs[e.Tx])
	case "read":
		switch e.API {
		case "best":
			r.n.Chain.BestBlockHeader()
			r.n.Chain.BestBlockHeight()
			r.n.Chain.BestChain()
		case "justified":
			_, err = r.n.Chain.LastJustifiedHeader()
		case "finalized":
			_, err = r.n.Chain.LastFinalizedHeader()
			r.n.Chain.FinalizedHeight()
		case "inmain":
			h := r.wd.blocks[e.Block].Hash
			r.n.Chain.InMainChain(h)
			r.n.Chain.BlockExist(&h)
		case "pool":
			r.n.Pool.GetTransactions()
		case "have":
			if len(r.wd.txs) > 0 {
				r.n.Pool.HaveTransaction(&r.wd.txs[0].ID)
				r.n.Pool.GetTransaction(&r.wd.txs[0].ID)
			}
		case "validators":
			h := r.wd.blocks[e.Block].Hash
			_, err = r.n.Chain.AllValidators(&h)
		}
	case "waiter":
		// Chain.BlockWaiter as the wallet, the contract tracer and the websocket notifier use it:
		// either wait for the height (bounded) or drop the channel (they do so on a rescan / shutdown)
		ch := r.n.Chain.BlockWaiter(uint64(e.Ms))
		if e.API == "wait" {
			// the scenario delivers blocks up to this height: the waiter must be woken.  A waiter
			// that is not is left blocked here, so that the standstill detector reports the call
			<-ch
		}
	case "sleep":
		time.Sleep(time.Duration(e.Ms) * time.Millisecond)
	}
	if err != nil {
		atomic.AddInt64(&r.errs, 1)
	}
	atomic.AddInt64(&r.done, 1)
}

func sameStuck(a, b []GPos) bool {
	if len(a) != len(b) {
		return false
	}
	for i := range a {
		if a[i] != b[i] {
			return false
		}
	}
	return true
}

// allBlocked: every tracked goroutine that still exists is in a blocked state, and is blocked AT an
// operation of the two modelled packages (not somewhere below an opaque call such as a LevelDB
// write stalled by a compaction, whose progress depends on goroutines that are not tracked).
func allBlocked(ps []GPos) bool {
	for _, p := range ps {
		if !blockedStates[p.State] {
			return false
		}
		if p.Path != "" && !p.Leaf {
			return false
		}
	}
	return len(ps) > 0
}

// classify names the cyclic wait shown by a dump.  The known class is recognised by the functions
// involved, as DESIGN.md/C37 states it: a goroutine inside Casper.tryRollback waiting on a channel,
// and the chain's block processor waiting for the casper lock.
func classify(ps []GPos) string {
	inRollback, bpOnCasperLock := false, false
	for _, p := range ps {
		if strings.Contains(p.Funcs, "(*Casper).tryRollback") && (p.State == "chan receive" || p.State == "chan send") {
			inRollback = true
		}
		// (RWMutex.Lock queues on its inner mutex first: the dump then says sync.Mutex.Lock)
		if p.Proc == "bp" && (strings.HasPrefix(p.State, "sync.RWMutex.") || p.State == "sync.Mutex.Lock" || p.State == "semacquire") && strings.Contains(p.Funcs, "(*Casper).") {
			bpOnCasperLock = true
		}
	}
	if inRollback && bpOnCasperLock {
		return "auth-rollback-lock-cycle"
	}
	return "stuck-other"
}

// waitAll waits until cond() or a confirmed standstill.  A standstill is confirmed when no call
// has returned for `quiet`, and two dumps taken `gap` apart show every tracked goroutine blocked at
// identical positions.  Returns the stuck positions (nil: finished).
func (r *runner) waitAll(finished func() bool, names map[string]string, hard time.Duration) ([]GPos, string) {
	const quiet = 2500 * time.Millisecond
	const gap = 700 * time.Millisecond
	start := time.Now()
	last := atomic.LoadInt64(&r.done)
	lastChange := time.Now()
	for !finished() {
		time.Sleep(20 * time.Millisecond)
		if d := atomic.LoadInt64(&r.done); d != last {
			last, lastChange = d, time.Now()
		}
		if time.Since(lastChange) > quiet {
			a, _ := snapshot(names)
			if allBlocked(a) {
				time.Sleep(gap)
				b, text := snapshot(names)
				if allBlocked(b) && sameStuck(a, b) && atomic.LoadInt64(&r.done) == last && !finished() {
					return b, text
				}
			}
			lastChange = time.Now().Add(-quiet + gap) // look again soon
		}
		if time.Since(start) > hard {
			b, text := snapshot(names)
			return b, text // not all blocked: reported as "slow", never as a deadlock
		}
	}
	return nil, ""
}

func childRun(args []string) int {
	if len(args) != 2 {
		return 2
	}
	raw, err := os.ReadFile(args[0])
	if err != nil {
		fmt.Fprintln(os.Stderr, err)
		return 2
	}
	var sc Scenario
	if err := json.Unmarshal(raw, &sc); err != nil {
		fmt.Fprintln(os.Stderr, err)
		return 2
	}
	res := runScenario(&sc, args[1])
	js, _ := json.Marshal(res)
	fmt.Println(string(js))
	return 0
}

func runScenario(sc *Scenario, scratch string) *Result {
	t0 := time.Now()
	res := &Result{ID: sc.ID}
	wd, err := buildWorld(sc)
	if err != nil {
		res.Outcome, res.Info = "harness-error", err.Error()
		return res
	}
	n, err := cl.NewNode(filepath.Join(scratch, fmt.Sprintf("node_%d", sc.ID)))
	if err != nil {
		res.Outcome, res.Info = "harness-error", err.Error()
		return res
	}
	r := &runner{sc: sc, wd: wd, n: n}
	finish := func() *Result {
		res.Calls = int(atomic.LoadInt64(&r.done))
		res.Pending = int(atomic.LoadInt64(&r.started) - atomic.LoadInt64(&r.done))
		res.Errors = int(atomic.LoadInt64(&r.errs))
		res.ElapsedMs = time.Since(t0).Milliseconds()
		return res
	}
	// ---- setup: sequential, on one worker goroutine (so that a hang here is seen as well)
	names := map[string]string{"0": "setup"}
	var setupDone int32
	go workerEntries[0](func() {
		for _, e := range sc.Setup {
			r.exec(e)
		}
		atomic.StoreInt32(&setupDone, 1)
	})
	if stuck, text := r.waitAll(func() bool { return atomic.LoadInt32(&setupDone) == 1 }, names, 240*time.Second); stuck != nil {
		res.Stuck, res.Dump = stuck, text
		if allBlocked(stuck) {
			res.Outcome, res.Class = "setup-stuck", classify(stuck)
		} else {
			res.Outcome = "slow"
		}
		return finish()
	}
	// ---- concurrent phase
	names = map[string]string{}
	counts := map[string]int{}
	var wg sync.WaitGroup
	var allDone int32
	gate := make(chan struct{})
	for i, wk := range sc.Workers {
		if i >= len(workerEntries) {
			break
		}
		name := fmt.Sprintf("%s%d", wk.Kind, counts[wk.Kind])
		counts[wk.Kind]++
		names[strconv.Itoa(i)] = name
		wg.Add(1)
		wk := wk
		go workerEntries[i](func() {
			defer wg.Done()
			<-gate
			for _, e := range wk.Events {
				r.exec(e)
			}
		})
	}
	go func() { wg.Wait(); atomic.StoreInt32(&allDone, 1) }()
	stopSampler := make(chan struct{})
	var samplerWG sync.WaitGroup
	if sc.SampleMs > 0 {
		samplerWG.Add(1)
		go func() {
			defer samplerWG.Done()
			rng := sc.Seed*0x9e3779b97f4a7c15 + 77
			for len(res.Samples) < 400 {
				rng = rng*6364136223846793005 + 1442695040888963407
				d := time.Duration(sc.SampleMs)*time.Millisecond/2 + time.Duration(rng>>33)%(time.Duration(sc.SampleMs)*time.Millisecond)
				select {
				case <-stopSampler:
					return
				case <-time.After(d):
				}
				ps, _ := snapshot(names)
				res.Samples = append(res.Samples, ps)
			}
		}()
	}
	close(gate)
	stuck, text := r.waitAll(func() bool { return atomic.LoadInt32(&allDone) == 1 }, names, 240*time.Second)
	close(stopSampler)
	samplerWG.Wait()
	if stuck != nil {
		res.Stuck, res.Dump = stuck, text
		if allBlocked(stuck) {
			res.Outcome, res.Class = "stuck", classify(stuck)
		} else {
			res.Outcome = "slow"
		}
		return finish()
	}
	// let the casper background loop drain before the process exits (race detector sees its accesses)
	time.Sleep(150 * time.Millisecond)
	res.Outcome = "completed"
	return finish()
}
