// C37 — concurrent block, vote and transaction processing neither races nor deadlocks.
//
// Dynamic side of the check (the deciding side is the Coq development coq/C37: a checked
// exploration of the synchronisation skeleton that tools/syncskel extracts from the source).
//
// A scenario is a block tree (real signed blocks of a 4-key federation, epoch length 4, built
// offline by chainlib), a sequential set-up phase and up to four WORKERS that run concurrently as
// real goroutines against one real node (protocol.Chain on LevelDB, in a child process):
// verification-message submitters (Chain.ProcessBlockVerification), block submitters
// (Chain.ProcessBlock), transaction submitters (Chain.ValidateTx) and readers of the query API.
//
// Direct oracle (implementation only), on every scenario:
//   - every call returns: a progress watchdog declares a standstill only when no call has returned
//     for 2.5 s AND two goroutine dumps 0.7 s apart show every tracked goroutine (workers, the chain's
//     block processor, casper's cached-vote loop) blocked at identical positions; the dump is the
//     evidence and names the class (class=auth-rollback-lock-cycle when a goroutine waits inside
//     Casper.tryRollback while the block processor waits for casper's lock; class=stuck-other else);
//   - the node does not crash;
//   - under `go build -race` (a second binary built at run time) the race detector reports nothing
//     that involves the node's code.
//     A hard time-out without such a dump is counted ("slow") and reported as nothing.
//
// Correspondence with the model: goroutine dumps are sampled during the concurrent phase; every
// goroutine found blocked exactly at an operation of the skeleton is mapped (by its call path
// file:line>file:line...) to the program counter of the generated model process; the projection
// {process -> pc} of every sample must be a REACHABLE state of the model configuration with the
// same workers, and the positions of a standstill must be a DEADLOCK state of it (C37.Run tables,
// evaluated by vm_compute).  Race reports are mapped to pairs of access regions in the same way.
package main

import (
	"bytes"
	"encoding/json"
	"fmt"
	"os"
	"os/exec"
	"path/filepath"
	"regexp"
	"sort"
	"strconv"
	"strings"
	"sync"
	"time"

	. "verifharness/hlib"
)

func main() { Main("C37", runC37, map[string]func([]string) int{"run": childRun}) }

// ---------------------------------------------------------------- skeleton (from tools/syncskel -json)

type skAcc struct {
	Field string `json:"field"`
	Write bool   `json:"write"`
	Path  string `json:"path"`
}

type skNode struct {
	PC    int      `json:"pc"`
	Kind  string   `json:"kind"`
	Act   string   `json:"act"`
	Obj   string   `json:"obj"`
	Accs  []skAcc  `json:"accs"`
	Path  string   `json:"path"`
	Paths []string `json:"paths"`
}

type skProc struct {
	Name  string   `json:"name"`
	Nodes []skNode `json:"nodes"`
}

type skeleton struct {
	Procs []skProc `json:"procs"`
	// per process: call path of a blocking operation -> pc ; call path of an access -> pc of its region
	at   map[string]map[string]int
	acc  map[string]map[string]int
	halt map[string]int
}

func loadSkeleton(root, repo string) (*skeleton, error) {
	cmd := exec.Command(filepath.Join(root, "build", "bin", "syncskel"), "-json", repo)
	var stderr bytes.Buffer
	cmd.Stderr = &stderr
	out, err := cmd.Output()
	if err != nil {
		return nil, fmt.Errorf("syncskel -json: %v: %s", err, stderr.String())
	}
	sk := &skeleton{at: map[string]map[string]int{}, acc: map[string]map[string]int{}, halt: map[string]int{}}
	if err := json.Unmarshal(out, sk); err != nil {
		return nil, err
	}
	for _, p := range sk.Procs {
		at, acc := map[string]int{}, map[string]int{}
		sk.halt[p.Name] = -1
		for _, n := range p.Nodes {
			switch {
			case n.Kind == "halt":
				sk.halt[p.Name] = n.PC
			case n.Kind == "op" && n.Act == "acc":
				// a goroutine waiting for a leaf lock inside the region is inside the region
				for _, q := range n.Paths {
					at[q] = n.PC
				}
				for _, a := range n.Accs {
					acc[a.Path] = n.PC
				}
			case n.Kind == "op" || n.Kind == "sel":
				if n.Path != "" {
					at[n.Path] = n.PC
				}
				for _, q := range n.Paths {
					at[q] = n.PC
				}
			}
		}
		sk.at[p.Name], sk.acc[p.Name] = at, acc
	}
	return sk, nil
}

// ---------------------------------------------------------------- scenario generation

func blk(b string) Event { return Event{K: "block", Block: b} }
func vote(k int, s, t string) Event {
	return Event{K: "vote", Key: k, Src: s, Tgt: t}
}
func read(api, b string) Event { return Event{K: "read", API: api, Block: b} }

func chain(prefix string, from, to int) []Event {
	var r []Event
	for h := from; h <= to; h++ {
		r = append(r, blk(fmt.Sprintf("%s%d", prefix, h)))
	}
	return r
}

var readAPIs = []string{"best", "justified", "finalized", "inmain", "pool", "have", "validators"}

func randReads(r *Rng, n int, blocks []string) []Event {
	var ev []Event
	for i := 0; i < n; i++ {
		ev = append(ev, read(readAPIs[r.Intn(len(readAPIs))], blocks[r.Intn(len(blocks))]))
	}
	return ev
}

// model configuration of a scenario: number of workers of each kind
type cfgKey struct{ v, b, t, r int }

// configurations for which C37.Run has a table
var tables = map[cfgKey]string{
	{1, 0, 0, 0}: "v1b0t0r0", {1, 0, 0, 1}: "v1b0t0r1", {1, 1, 0, 0}: "v1b1t0r0", {1, 1, 0, 1}: "v1b1t0r1",
	{1, 1, 1, 1}: "v1b1t1r1", {2, 1, 0, 1}: "v2b1t0r1", {1, 2, 0, 1}: "v1b2t0r1", {0, 2, 1, 1}: "v0b2t1r1",
	{0, 1, 2, 1}: "v0b1t2r1", {0, 2, 0, 1}: "v0b2t0r1",
}

func cfgOf(sc *Scenario) cfgKey {
	var k cfgKey
	for _, w := range sc.Workers {
		switch w.Kind {
		case "vote":
			k.v++
		case "block":
			k.b++
		case "tx":
			k.t++
		case "read":
			k.r++
		}
	}
	return k
}

// directed: the confirmed deadlock.  Trunk T1..Tn (n = 4 or 8), branch A (long, delivered), branch B
// (shorter, delivered up to its first checkpoint); keys 1,2 vote src -> B checkpoint in the set-up,
// the third vote arrives from a worker and completes the supermajority: the best chain moves.
func genFlip(r *Rng, id int) *Scenario {
	trunk := 4 * (1 + r.Intn(2))
	cp := trunk + 4 // height of the first checkpoint above the trunk
	src := "G"
	alen := 8
	sc := &Scenario{ID: id, Stream: "flip", Seed: r.Next(), Trunk: trunk, Branches: map[string]int{"A": alen, "B": 4 + r.Intn(2)}, SampleMs: 40, Expect: "deadlock"}
	sc.Setup = append(sc.Setup, chain("T", 1, trunk)...)
	sc.Setup = append(sc.Setup, chain("A", trunk+1, trunk+alen)...)
	sc.Setup = append(sc.Setup, chain("B", trunk+1, trunk+sc.Branches["B"])...)
	tgt := fmt.Sprintf("B%d", cp)
	keys := []int{1, 2, 3}
	if r.Bool() {
		keys = []int{3, 1, 2}
	}
	sc.Setup = append(sc.Setup, vote(keys[0], src, tgt), vote(keys[1], src, tgt))
	sc.Workers = []Worker{{Kind: "vote", Events: []Event{vote(keys[2], src, tgt)}}}
	names := []string{"G", "T1", fmt.Sprintf("A%d", trunk+2), tgt}
	switch r.Intn(4) {
	case 1:
		sc.Workers = append(sc.Workers, Worker{Kind: "read", Events: append([]Event{{K: "sleep", Ms: 100 + r.Intn(200)}}, randReads(r, 3, names)...)})
	case 2:
		sc.Branches["A"] = alen + 1
		sc.Workers = append(sc.Workers, Worker{Kind: "block", Events: []Event{{K: "sleep", Ms: r.Intn(150)}, blk(fmt.Sprintf("A%d", trunk+alen+1))}})
	case 3:
		sc.Branches["A"] = alen + 1
		sc.Workers = append(sc.Workers, Worker{Kind: "block", Events: []Event{{K: "sleep", Ms: r.Intn(150)}, blk(fmt.Sprintf("A%d", trunk+alen+1))}},
			Worker{Kind: "read", Events: append([]Event{{K: "sleep", Ms: 100 + r.Intn(200)}}, randReads(r, 3, names)...)})
	}
	return sc
}

// safe: votes justify TRUNK checkpoints only (they lie on every branch, so no vote can move the best
// chain), while two branches, transactions and queries arrive concurrently.
func genSafe(r *Rng, id int) *Scenario {
	sc := &Scenario{ID: id, Stream: "safe", Seed: r.Next(), Trunk: 16, Branches: map[string]int{"A": 3 + r.Intn(4), "B": 2 + r.Intn(4)}, SampleMs: 3, Expect: "completes"}
	sc.Setup = chain("T", 1, 16)
	// transactions: 0 spends the h5 reward, 1 spends an output of 0 (orphan if submitted first), 2 spends the h9 reward
	sc.Txs = []TxSpec{{In: []string{"R5"}, NOut: 2}, {In: []string{"X0.0"}, NOut: 1}, {In: []string{"R9"}, NOut: 1}, {In: []string{"X0.1", "X2.0"}, NOut: 1}}
	if r.Bool() {
		sc.BlockTxs = map[string][]int{"A18": {0}} // branch A confirms tx 0 at height 18 (needs A >= 2)
	}
	var votes []Event
	votes = append(votes, vote(1, "G", "T4"), vote(2, "G", "T4"), vote(3, "G", "T4"))
	votes = append(votes, vote(1, "T4", "T8"), vote(2, "T4", "T8"), vote(3, "T4", "T8"))
	votes = append(votes, vote(0, "G", "T4"), vote(2, "G", "T4")) // own key / duplicate
	if r.Bool() {
		votes = append(votes, vote(1, "T8", "T12"), vote(2, "T8", "T12"), vote(3, "T8", "T12"))
	}
	a := chain("A", 17, 16+sc.Branches["A"])
	b := chain("B", 17, 16+sc.Branches["B"])
	names := []string{"G", "T4", "T16", "A17", "B17"}
	txs := []Event{{K: "tx", Tx: 1}, {K: "tx", Tx: 0}, {K: "tx", Tx: 2}, {K: "tx", Tx: 3}, {K: "tx", Tx: 0}}
	switch r.Intn(5) {
	case 0:
		sc.Workers = []Worker{{Kind: "vote", Events: votes}, {Kind: "block", Events: append(a, b...)}, {Kind: "tx", Events: txs}, {Kind: "read", Events: randReads(r, 12, names)}}
	case 1:
		sc.Workers = []Worker{{Kind: "vote", Events: votes}, {Kind: "block", Events: a}, {Kind: "block", Events: b}, {Kind: "read", Events: randReads(r, 12, names)}}
	case 2:
		sc.Workers = []Worker{{Kind: "vote", Events: votes[:4]}, {Kind: "vote", Events: votes[4:]}, {Kind: "block", Events: append(a, b...)}, {Kind: "read", Events: randReads(r, 12, names)}}
	case 3:
		sc.Workers = []Worker{{Kind: "block", Events: a}, {Kind: "block", Events: b}, {Kind: "tx", Events: txs}, {Kind: "read", Events: randReads(r, 12, names)}}
	default:
		sc.Workers = []Worker{{Kind: "block", Events: append(b, a...)}, {Kind: "tx", Events: txs}, {Kind: "tx", Events: []Event{{K: "tx", Tx: 2}, {K: "tx", Tx: 3}, {K: "tx", Tx: 1}}}, {Kind: "read", Events: randReads(r, 12, names)}}
	}
	return sc
}

// early: verification messages arrive BEFORE their target block (cached by AuthVerification, replayed
// by casper's background loop when the next epoch starts) while blocks of both branches are being
// delivered: the path through authCachedMsg, concurrent with ApplyBlock.
func genEarly(r *Rng, id int) *Scenario {
	sc := &Scenario{ID: id, Stream: "early", Seed: r.Next(), Trunk: 4, Branches: map[string]int{"A": 13, "B": 5}, SampleMs: 3, Expect: "any"}
	sc.Setup = append(chain("T", 1, 4), chain("A", 5, 12)...)
	for _, k := range []int{1, 2, 3} {
		sc.Setup = append(sc.Setup, vote(k, "G", "B8"))
	}
	sc.Setup = append(sc.Setup, chain("B", 5, 8)...)
	w1 := []Event{blk("B9")}
	w2 := []Event{blk("A13"), blk("A14"), blk("A15"), blk("A16"), blk("A17")}
	if r.Bool() {
		w1, w2 = w2, w1
	}
	sc.Workers = []Worker{{Kind: "block", Events: w1}, {Kind: "block", Events: w2},
		{Kind: "read", Events: randReads(r, 8, []string{"G", "T4", "A12", "B8"})}}
	return sc
}

// mixed: random interleaving of deliveries (also out of order and repeated), verification messages
// for checkpoints of both branches (may or may not complete a supermajority against the best chain),
// malformed messages (unknown source / target, the tree root as target, wrong signer), queries.
func genMixed(r *Rng, id int) *Scenario {
	trunk := 4
	sc := &Scenario{ID: id, Stream: "mixed", Seed: r.Next(), Trunk: trunk, Branches: map[string]int{"A": 6 + r.Intn(7), "B": 4 + r.Intn(6), "C": 1 + r.Intn(3)}, SampleMs: 3, Expect: "any"}
	sc.Setup = chain("T", 1, trunk)
	pre := 1 + r.Intn(4)
	sc.Setup = append(sc.Setup, chain("A", 5, 4+pre)...)
	a := chain("A", 5+pre, 4+sc.Branches["A"])
	b := chain("B", 5, 4+sc.Branches["B"])
	cblocks := chain("C", 5, 4+sc.Branches["C"])
	if r.Chance(40) && len(b) > 2 { // out of order: orphans
		i := r.Intn(len(b) - 1)
		b[i], b[i+1] = b[i+1], b[i]
	}
	if r.Chance(30) {
		b = append(b, b[r.Intn(len(b))]) // a repeat
	}
	var votes []Event
	tgtA, tgtB := "A8", "B8"
	order := r.Intn(3)
	for _, k := range []int{1, 2, 3} {
		switch order {
		case 0: // A8 first: B8 votes by the same keys are then refused (same target height)
			votes = append(votes, vote(k, "G", tgtA))
		case 1: // B8 only: may move the best chain
			votes = append(votes, vote(k, "G", tgtB))
		default: // two keys each: no supermajority
			if k < 3 {
				votes = append(votes, vote(k, "G", tgtA))
			} else {
				votes = append(votes, vote(k, "G", tgtB))
			}
		}
	}
	// malformed / boundary messages
	bad := []Event{vote(1, "G", "G"), vote(2, "A6", "A8"), vote(3, "G", "C5"), vote(1, "T4", "G"), vote(0, "G", "T4"), vote(1, "G", "T4")}
	for i := 0; i < 2+r.Intn(3); i++ {
		votes = append(votes, bad[r.Intn(len(bad))])
	}
	for i := len(votes) - 1; i > 0; i-- {
		j := r.Intn(i + 1)
		votes[i], votes[j] = votes[j], votes[i]
	}
	names := []string{"G", "T4", "A5", "B5", "C5"}
	switch r.Intn(4) {
	case 0:
		sc.Workers = []Worker{{Kind: "vote", Events: votes}, {Kind: "block", Events: append(append(a, b...), cblocks...)}, {Kind: "read", Events: randReads(r, 10, names)}}
	case 1:
		sc.Workers = []Worker{{Kind: "vote", Events: votes}, {Kind: "block", Events: a}, {Kind: "block", Events: append(b, cblocks...)}, {Kind: "read", Events: randReads(r, 10, names)}}
	case 2:
		h := len(votes) / 2
		sc.Workers = []Worker{{Kind: "vote", Events: votes[:h]}, {Kind: "vote", Events: votes[h:]}, {Kind: "block", Events: append(append(b, a...), cblocks...)}, {Kind: "read", Events: randReads(r, 10, names)}}
	default:
		sc.Workers = []Worker{{Kind: "vote", Events: votes}, {Kind: "block", Events: append(append(b, cblocks...), a...)}}
	}
	return sc
}

// race-directed: many cached verification messages and many epoch-opening blocks on both branches,
// so that casper's loop (authCachedMsg) overlaps with ApplyBlock's tree updates.
func genRaceDirected(r *Rng, id int) *Scenario {
	sc := &Scenario{ID: id, Stream: "race-directed", Seed: r.Next(), Trunk: 4, Branches: map[string]int{"A": 17, "B": 9}, SampleMs: 0, Expect: "any"}
	sc.Setup = append(chain("T", 1, 4), chain("A", 5, 12)...)
	for _, k := range []int{1, 2, 3} {
		sc.Setup = append(sc.Setup, vote(k, "G", "B8"))
	}
	// also cache messages for the later checkpoints of both branches
	for _, k := range []int{1, 2} {
		sc.Setup = append(sc.Setup, vote(k, "B8", "B12"))
	}
	sc.Setup = append(sc.Setup, chain("B", 5, 8)...)
	sc.Workers = []Worker{{Kind: "block", Events: chain("B", 9, 13)}, {Kind: "block", Events: chain("A", 13, 21)},
		{Kind: "read", Events: randReads(r, 6, []string{"G", "T4", "A12", "B8"})}}
	return sc
}

// waiter-directed (race tier): block waiters (Chain.BlockWaiter) for heights the scenario reaches,
// some awaited and some dropped before the height arrives, while blocks move the tip and the
// chain state is queried.
func genWaiterDirected(r *Rng, id int) *Scenario {
	sc := &Scenario{ID: id, Stream: "waiter-directed", Seed: r.Next(), Trunk: 16, Branches: map[string]int{"A": 4, "B": 5}, SampleMs: 0, Expect: "completes"}
	sc.Setup = chain("T", 1, 16)
	var wa, wb []Event
	for i := 0; i < 10; i++ {
		how := []string{"drop", "wait", "wait"}[r.Intn(3)]
		e := Event{K: "waiter", Ms: 15 + r.Intn(9), API: how} // dropped: heights 15..23 (reached already, later, never)
		if how == "wait" {
			e.Ms = 16 + r.Intn(5) // awaited: heights 16..20, all reached by the blocks of the scenario
		}
		if r.Bool() {
			wa = append(wa, e)
		} else {
			wb = append(wb, e, Event{K: "sleep", Ms: r.Intn(3)})
		}
	}
	reads := randReads(r, 10, []string{"G", "T4", "T16", "A18"})
	blocks := append(chain("A", 17, 20), chain("B", 17, 21)...)
	sc.Workers = []Worker{{Kind: "read", Events: wa}, {Kind: "read", Events: wb}, {Kind: "block", Events: blocks}, {Kind: "read", Events: reads}}
	return sc
}

// errcache-directed (race tier): several submitters keep re-submitting the same rejected
// transactions (each re-submission looks the transaction up in the pool's error cache) while
// valid ones are submitted and the pool is queried.
func genErrCacheDirected(r *Rng, id int) *Scenario {
	sc := &Scenario{ID: id, Stream: "errcache-directed", Seed: r.Next(), Trunk: 16, Branches: map[string]int{"A": 2}, SampleMs: 0, Expect: "completes"}
	sc.Setup = chain("T", 1, 16)
	sc.Txs = []TxSpec{{In: []string{"R5"}, NOut: 2, Bad: true}, {In: []string{"R9"}, NOut: 1, Bad: true}, {In: []string{"R13"}, NOut: 1}, {In: []string{"R9"}, NOut: 2, Bad: true}}
	sub := func(n int) []Event {
		var ev []Event
		for i := 0; i < n; i++ {
			ev = append(ev, Event{K: "tx", Tx: []int{0, 1, 3, 0, 1, 2}[r.Intn(6)]})
		}
		return ev
	}
	var reads []Event
	for i := 0; i < 30; i++ {
		reads = append(reads, read([]string{"have", "pool", "best"}[r.Intn(3)], "T16"), Event{K: "sleep", Ms: 1 + r.Intn(2)})
	}
	sc.Workers = []Worker{{Kind: "tx", Events: sub(60)}, {Kind: "tx", Events: sub(60)}, {Kind: "tx", Events: sub(60)}, {Kind: "read", Events: reads}}
	if r.Bool() {
		sc.Workers = append(sc.Workers, Worker{Kind: "block", Events: chain("A", 17, 18)})
	}
	return sc
}

// pool-directed (race tier): transaction submitters, a block submitter whose branch confirms some of
// them (the chain then removes them from the pool), and a reader that keeps querying the pool and the
// chain state.
func genPoolDirected(r *Rng, id int) *Scenario {
	sc := &Scenario{ID: id, Stream: "pool-directed", Seed: r.Next(), Trunk: 16, Branches: map[string]int{"A": 4, "B": 3}, SampleMs: 0, Expect: "completes"}
	sc.Setup = chain("T", 1, 16)
	sc.Txs = []TxSpec{{In: []string{"R5"}, NOut: 2}, {In: []string{"X0.0"}, NOut: 1}, {In: []string{"R9"}, NOut: 1}, {In: []string{"X0.1", "X2.0"}, NOut: 1}, {In: []string{"R13"}, NOut: 2}}
	sc.BlockTxs = map[string][]int{"A18": {0}, "A19": {2}, "B18": {4}}
	var reads []Event
	for i := 0; i < 40; i++ { // spread over the time the submitters need
		api := []string{"pool", "pool", "pool", "have", "best", "justified", "inmain"}[r.Intn(7)]
		reads = append(reads, read(api, "T16"), Event{K: "sleep", Ms: 1 + r.Intn(3)})
	}
	t1 := []Event{{K: "tx", Tx: 1}, {K: "tx", Tx: 0}, {K: "tx", Tx: 3}, {K: "tx", Tx: 2}, {K: "tx", Tx: 0}}
	t2 := []Event{{K: "tx", Tx: 4}, {K: "tx", Tx: 2}, {K: "tx", Tx: 3}, {K: "tx", Tx: 1}}
	blocks := append(chain("A", 17, 20), chain("B", 17, 19)...)
	if r.Bool() {
		sc.Workers = []Worker{{Kind: "block", Events: blocks}, {Kind: "tx", Events: t1}, {Kind: "tx", Events: t2}, {Kind: "read", Events: reads}}
	} else {
		sc.Workers = []Worker{{Kind: "block", Events: chain("A", 17, 20)}, {Kind: "block", Events: chain("B", 17, 19)}, {Kind: "tx", Events: append(t1, t2...)}, {Kind: "read", Events: reads}}
	}
	return sc
}

// ---------------------------------------------------------------- running children

func jobs() int {
	if v, err := strconv.Atoi(os.Getenv("VERIF_JOBS")); err == nil && v > 0 {
		if v > 8 {
			v = 8
		}
		return v
	}
	return 6
}

type runOut struct {
	sc    *Scenario
	res   *Result
	crash string // child died
	races []raceReport
	race  bool // ran under the race detector
	tries int
}

func scratchBase() string {
	if st, err := os.Stat("/dev/shm"); err == nil && st.IsDir() {
		return "/dev/shm"
	}
	return os.TempDir()
}

func runChild(bin string, sc *Scenario, dir string, race bool) *runOut {
	out := &runOut{sc: sc, race: race}
	f := filepath.Join(dir, fmt.Sprintf("sc_%d.json", sc.ID))
	js, _ := json.Marshal(sc)
	os.WriteFile(f, js, 0644)
	scratch, err := os.MkdirTemp(scratchBase(), "c37-node-")
	if err != nil {
		out.crash = err.Error()
		return out
	}
	defer os.RemoveAll(scratch)
	cmd := exec.Command(bin, "child", "run", f, scratch)
	var stdout, stderr bytes.Buffer
	cmd.Stdout, cmd.Stderr = &stdout, &stderr
	logPrefix := filepath.Join(dir, fmt.Sprintf("race_%d", sc.ID))
	cmd.Env = append(os.Environ(), "GORACE=log_path="+logPrefix+" halt_on_error=0 exitcode=0 history_size=3")
	done := make(chan error, 1)
	if err := cmd.Start(); err != nil {
		out.crash = err.Error()
		return out
	}
	go func() { done <- cmd.Wait() }()
	select {
	case err = <-done:
	case <-time.After(600 * time.Second):
		cmd.Process.Kill()
		<-done
		out.res = &Result{ID: sc.ID, Outcome: "slow", Info: "child killed after 600 s"}
		return out
	}
	var res Result
	line := strings.TrimSpace(stdout.String())
	if i := strings.LastIndex(line, "\n"); i >= 0 {
		line = line[i+1:]
	}
	if jerr := json.Unmarshal([]byte(line), &res); jerr != nil || err != nil {
		tail := stderr.String()
		if len(tail) > 3000 {
			tail = tail[len(tail)-3000:]
		}
		out.crash = fmt.Sprintf("child exit: %v; stderr tail: %s", err, tail)
		return out
	}
	out.res = &res
	if race {
		logs, _ := filepath.Glob(logPrefix + ".*")
		for _, l := range logs {
			data, _ := os.ReadFile(l)
			out.races = append(out.races, parseRaces(string(data))...)
			os.Remove(l)
		}
	}
	return out
}

// ---------------------------------------------------------------- race reports

type raceStack struct {
	Kind   string   `json:"kind"` // "Write" | "Read" | "Previous write" | ...
	Frames []string `json:"frames"`
	Path   string   `json:"path"` // call path inside protocol/ and protocol/casper, outermost first
	Proc   string   `json:"proc"`
}

type raceReport struct {
	A, B raceStack
	Node bool   // a frame of the node's code (github.com/bytom/bytom/...) is involved
	Text string // first lines
}

var reRaceHead = regexp.MustCompile(`^(Write|Read|Previous write|Previous read|Atomic write|Previous atomic write|Atomic read|Previous atomic read) at 0x[0-9a-f]+ by (main goroutine|goroutine \d+):`)

func parseRaces(log string) []raceReport {
	var out []raceReport
	for _, blk := range strings.Split(log, "==================") {
		if !strings.Contains(blk, "WARNING: DATA RACE") {
			continue
		}
		lines := strings.Split(blk, "\n")
		var stacks []raceStack
		var cur *raceStack
		var frames []frame
		flush := func() {
			if cur == nil {
				return
			}
			g := gor{frames: frames}
			cur.Proc = procOf(&g)
			var path []string
			for i := len(frames) - 1; i >= 0; i-- {
				if rf := relFile(frames[i].file); rf != "" {
					path = append(path, fmt.Sprintf("%s:%d", rf, frames[i].line))
				}
				cur.Frames = append(cur.Frames, frames[i].fn)
			}
			cur.Path = strings.Join(path, ">")
			stacks = append(stacks, *cur)
			cur, frames = nil, nil
		}
		for i := 0; i < len(lines); i++ {
			l := lines[i]
			if m := reRaceHead.FindStringSubmatch(strings.TrimSpace(l)); m != nil {
				flush()
				cur = &raceStack{Kind: m[1]}
				continue
			}
			if strings.HasPrefix(strings.TrimSpace(l), "Goroutine ") {
				flush()
				continue
			}
			if cur != nil && strings.HasPrefix(l, "  ") && !strings.HasPrefix(l, "      ") && i+1 < len(lines) {
				fn := strings.TrimSpace(l)
				if j := strings.LastIndex(fn, "("); j > 0 {
					fn = fn[:j]
				}
				loc := strings.TrimSpace(lines[i+1])
				if k := strings.Index(loc, " "); k > 0 {
					loc = loc[:k]
				}
				if c := strings.LastIndex(loc, ":"); c > 0 {
					ln, _ := strconv.Atoi(loc[c+1:])
					frames = append(frames, frame{fn: fn, file: loc[:c], line: ln})
				}
				i++
			}
		}
		flush()
		if len(stacks) < 2 {
			continue
		}
		rr := raceReport{A: stacks[0], B: stacks[1]}
		for _, s := range stacks[:2] {
			for _, f := range s.Frames {
				if strings.Contains(f, "github.com/bytom/bytom/") {
					rr.Node = true
				}
			}
		}
		t := strings.TrimSpace(blk)
		if len(t) > 2500 {
			t = t[:2500]
		}
		rr.Text = t
		out = append(out, rr)
	}
	return out
}

// accPC: the access region of process proc whose access path is the longest prefix of path.
func (sk *skeleton) accPC(proc, path string) (int, bool) {
	best, bestLen := -1, -1
	for p, pc := range sk.acc[proc] {
		if (path == p || strings.HasPrefix(path, p+">")) && len(p) > bestLen {
			best, bestLen = pc, len(p)
		}
	}
	return best, best >= 0
}

// ---------------------------------------------------------------- model side of a scenario

func modelProc(name string) string {
	for _, k := range []string{"vote", "block", "tx", "read"} {
		if strings.HasPrefix(name, k) {
			return k
		}
	}
	return name // bp, loop
}

// pid of a tracked goroutine in the model configuration (bp 0, loop 1, votes, blocks, txs, reads)
func pidOf(name string, k cfgKey) int {
	switch {
	case name == "bp":
		return 0
	case name == "loop":
		return 1
	}
	kind := modelProc(name)
	i, _ := strconv.Atoi(strings.TrimPrefix(name, kind))
	switch kind {
	case "vote":
		return 2 + i
	case "block":
		return 2 + k.v + i
	case "tx":
		return 2 + k.v + k.b + i
	case "read":
		return 2 + k.v + k.b + k.t + i
	}
	return -1
}

// projection of one dump: "pid:pc" pairs (sorted) for the goroutines blocked exactly at a modelled
// operation; finished workers are at their halt node.  ok=false: a goroutine sits at a blocking
// position inside the modelled packages that the skeleton does not know (reported separately).
func (sk *skeleton) project(ps []GPos, sc *Scenario, k cfgKey) (proj [][2]int, unknown []string) {
	seen := map[string]bool{}
	for _, p := range ps {
		seen[p.Proc] = true
		if p.Proc == "setup" {
			continue
		}
		if !blockedStates[p.State] || !p.Leaf || p.Path == "" {
			continue // running, or blocked somewhere below an opaque call: position unknown
		}
		pc, ok := sk.at[modelProc(p.Proc)][p.Path]
		if !ok {
			unknown = append(unknown, p.Proc+"@"+p.Path+"["+p.State+"]")
			continue
		}
		proj = append(proj, [2]int{pidOf(p.Proc, k), pc})
	}
	// workers whose goroutine is gone have returned from all their calls
	counts := map[string]int{}
	for _, w := range sc.Workers {
		name := fmt.Sprintf("%s%d", w.Kind, counts[w.Kind])
		counts[w.Kind]++
		if !seen[name] {
			if h := sk.halt[w.Kind]; h >= 0 {
				proj = append(proj, [2]int{pidOf(name, k), h})
			}
		}
	}
	sort.Slice(proj, func(i, j int) bool { return proj[i][0] < proj[j][0] })
	return proj, unknown
}

func kindOfPid(pid int, k cfgKey) string {
	switch i := pid - 2; {
	case pid == 0:
		return "bp"
	case pid == 1:
		return "loop"
	case i < k.v:
		return "vote"
	case i < k.v+k.b:
		return "block"
	case i < k.v+k.b+k.t:
		return "tx"
	}
	return "read"
}

func coqProj(p [][2]int) string {
	var items []string
	for _, x := range p {
		items = append(items, fmt.Sprintf("(%d, %d)", x[0], x[1]))
	}
	return "[" + strings.Join(items, "; ") + "]"
}

// ---------------------------------------------------------------- the run

func runC37(c *Ctx) error {
	root := filepath.Dir(filepath.Dir(filepath.Dir(os.Args[0])))
	if abs, err := filepath.Abs(os.Args[0]); err == nil {
		root = filepath.Dir(filepath.Dir(filepath.Dir(abs)))
	}
	repo := os.Getenv("VERIF_REPO")
	if repo == "" {
		repo = "/repo"
	}
	sk, err := loadSkeleton(root, repo)
	if err != nil {
		// the translator no longer accepts the source (the driver reports that as a broken
		// obligation): still run every scenario so that the watchdog and the race detector can
		// produce a concrete failing input; only the model correspondence is skipped
		fmt.Fprintln(os.Stderr, "c37: skeleton unavailable, running the oracles only:", err)
		c.Stats.Count("skeleton-unavailable")
		sk = &skeleton{at: map[string]map[string]int{}, acc: map[string]map[string]int{}, halt: map[string]int{}}
		tables = map[cfgKey]string{}
	}
	c.Stats.Rule = "a scenario is non-trivial when at least two workers ran concurrently against the node and at least one sampled dump (or the standstill dump) placed a goroutine at a skeleton operation other than the idle points of the two server loops; distinctness by (stream, workers, events)"

	// ---- scenarios
	var scs []*Scenario
	id := 0
	add := func(n int, g func(*Rng, int) *Scenario) {
		for i := 0; i < n; i++ {
			scs = append(scs, g(c.Rng, id))
			id++
		}
	}
	add(c.N(3, 8), genFlip)
	add(c.N(6, 24), genSafe)
	add(c.N(3, 10), genEarly)
	add(c.N(8, 40), genMixed)
	// race tier: the race-directed scenarios plus a sample of the others, under the race detector
	var raceScs []*Scenario
	for i := 0; i < c.N(4, 14); i++ {
		raceScs = append(raceScs, genRaceDirected(c.Rng, id))
		id++
	}
	for i := 0; i < c.N(2, 6); i++ {
		raceScs = append(raceScs, genPoolDirected(c.Rng, id))
		id++
	}
	for i := 0; i < c.N(2, 5); i++ {
		raceScs = append(raceScs, genErrCacheDirected(c.Rng, id))
		id++
	}
	for i := 0; i < c.N(2, 5); i++ {
		raceScs = append(raceScs, genWaiterDirected(c.Rng, id))
		id++
	}
	for i := 0; i < c.N(1, 4); i++ {
		s := genSafe(c.Rng, id)
		s.SampleMs = 0
		raceScs = append(raceScs, s)
		id++
	}
	for i := 0; i < c.N(3, 10); i++ {
		m := genMixed(c.Rng, id)
		m.SampleMs = 0
		raceScs = append(raceScs, m)
		id++
	}
	if c.Replay != "" {
		c.Stats.Count("replay-run")
	}

	// ---- race binary (built at run time; CGO is needed)
	raceBin := filepath.Join(root, "build", "bin", "h_c37_race")
	raceOK := true
	{
		args := []string{"build"}
		if repo != "/repo" {
			args = append(args, "-modfile="+filepath.Join(root, "build", "go.alt.mod"))
		}
		args = append(args, "-race", "-tags", "verif", "-o", raceBin, "./c37")
		cmd := exec.Command("go", args...)
		cmd.Dir = filepath.Join(root, "harness")
		cmd.Env = append(os.Environ(), "CGO_ENABLED=1", "GOFLAGS=-mod=mod", "GOPROXY=off", "GOSUMDB=off", "GOTOOLCHAIN=local")
		t0 := time.Now()
		if out, err := cmd.CombinedOutput(); err != nil {
			raceOK = false
			tail := string(out)
			if len(tail) > 1500 {
				tail = tail[len(tail)-1500:]
			}
			// the node's code no longer builds with -race (or cgo is gone): say so loudly
			return fmt.Errorf("go build -race failed: %v: %s", err, tail)
		}
		c.Stats.Extra["race_build_s"] = int(time.Since(t0).Seconds())
	}

	// ---- run
	dir, err := os.MkdirTemp(c.Out, "c37-run-")
	if err != nil {
		return err
	}
	defer os.RemoveAll(dir)
	type job struct {
		sc   *Scenario
		race bool
	}
	var jobsList []job
	for _, s := range scs {
		jobsList = append(jobsList, job{s, false})
	}
	if raceOK {
		for _, s := range raceScs {
			jobsList = append(jobsList, job{s, true})
		}
	}
	results := make([]*runOut, len(jobsList))
	var wg sync.WaitGroup
	sem := make(chan struct{}, jobs())
	for i, j := range jobsList {
		wg.Add(1)
		go func(i int, j job) {
			defer wg.Done()
			sem <- struct{}{}
			defer func() { <-sem }()
			bin := os.Args[0]
			if j.race {
				bin = raceBin
			}
			results[i] = runChild(bin, j.sc, dir, j.race)
		}(i, j)
	}
	wg.Wait()

	// ---- judge
	knownShown := 0
	for _, ro := range results {
		sc := ro.sc
		k := cfgOf(sc)
		key, _ := json.Marshal(struct {
			S string
			W []Worker
			U []Event
		}{sc.Stream, sc.Workers, sc.Setup})
		c.Stats.Count("stream:" + sc.Stream)
		if ro.race {
			c.Stats.Count("ran-under-race-detector")
		}
		c.Stats.Count(fmt.Sprintf("workers:v%db%dt%dr%d", k.v, k.b, k.t, k.r))
		for _, w := range sc.Workers {
			for _, e := range w.Events {
				c.Stats.Count("event:" + e.K)
			}
		}
		if ro.crash != "" {
			c.Stats.Count("outcome:child-crash")
			c.Stats.Case(string(key), false)
			c.Stats.Fail("class=child-crash: the node's process died during scenario "+sc.Stream+": "+firstLine(ro.crash), map[string]interface{}{"scenario": sc, "stderr": ro.crash})
			continue
		}
		res := ro.res
		c.Stats.Count("outcome:" + res.Outcome)
		if res.Outcome == "harness-error" {
			return fmt.Errorf("scenario %d (%s): %s", sc.ID, sc.Stream, res.Info)
		}
		if res.Errors > 0 {
			c.Stats.Count("scenarios-with-refused-calls")
		}
		sawBusy := false
		// -- oracle: every call returns
		if res.Outcome == "stuck" || res.Outcome == "setup-stuck" {
			c.Stats.Count("standstill:" + res.Class)
			what := fmt.Sprintf("class=%s: %d call(s) never returned in a %s scenario; goroutine dump shows %s", res.Class, res.Pending, sc.Stream, describe(res.Stuck))
			if res.Class != "auth-rollback-lock-cycle" || knownShown < 3 {
				// (the known class is reported a few times only: hlib keeps the first 20 failures)
				c.Stats.Fail(what, map[string]interface{}{"scenario": sc, "stuck": res.Stuck, "dump": res.Dump})
			}
			if res.Class == "auth-rollback-lock-cycle" {
				knownShown++
			}
		}
		// -- oracle: race detector
		for _, rr := range ro.races {
			if !rr.Node {
				c.Stats.Count("race-report-outside-the-node(ignored)")
				continue
			}
			c.Stats.Count("race-report")
			c.Stats.Fail(fmt.Sprintf("class=data-race: %s at %s against %s at %s", rr.A.Kind, top(rr.A), rr.B.Kind, top(rr.B)),
				map[string]interface{}{"scenario": sc, "report": rr.Text})
			// model side: both accesses must be regions that are simultaneously occupied in some reachable state
			if name, ok := tables[k]; ok {
				pa, oka := sk.accPC(modelProcOfStack(rr.A.Proc, sc), rr.A.Path)
				pb, okb := sk.accPC(modelProcOfStack(rr.B.Proc, sc), rr.B.Path)
				if oka && okb {
					proj := [][2]int{{pidOfStack(rr.A.Proc, sc, k), pa}, {pidOfStack(rr.B.Proc, sc, k), pb}}
					cid := c.Cases.Add(fmt.Sprintf("[proj_ok tbl_%s false %s]", name, coqProj(proj)), "[true]")
					c.Stats.CaseIndex[strconv.Itoa(cid)] = map[string]interface{}{"scenario": sc.ID, "kind": "race-regions", "proj": proj}
				} else {
					c.Stats.Count("race-report-not-mapped-to-model-regions")
				}
			}
		}
		// -- correspondence: sampled dumps (and the standstill) against the model's reachable states
		if name, ok := tables[k]; ok && !ro.race {
			distinct := map[string][][2]int{}
			var order []string
			for _, smp := range res.Samples {
				proj, unknown := sk.project(smp, sc, k)
				for _, u := range unknown {
					// a correspondence break (the translator does not know a blocking position), not a property violation
					c.Stats.Count("position-unknown-to-skeleton")
					cid := c.Cases.Add("[false]", "[true]")
					c.Stats.CaseIndex[strconv.Itoa(cid)] = map[string]interface{}{"scenario": sc.ID, "kind": "goroutine blocks at a position that is not an operation of the extracted skeleton", "position": u}
				}
				if len(proj) == 0 {
					continue
				}
				s := coqProj(proj)
				if _, ok := distinct[s]; !ok {
					distinct[s] = proj
					order = append(order, s)
				}
				for _, x := range proj {
					idle := x[0] <= 1 && x[1] == 0 // idle points of the two server loops (bp: select; loop: receive)
					finished := x[0] >= 2 && x[1] == sk.halt[kindOfPid(x[0], k)]
					if !idle && !finished {
						sawBusy = true
					}
				}
			}
			c.Stats.Count(fmt.Sprintf("samples:%s", bucket(len(res.Samples))))
			c.Stats.Count(fmt.Sprintf("distinct-projections:%s", bucket(len(order))))
			if len(order) > 0 {
				var exprs, obs []string
				for _, s := range order {
					exprs = append(exprs, fmt.Sprintf("proj_ok tbl_%s false %s", name, s))
					obs = append(obs, "true")
				}
				cid := c.Cases.Add("["+strings.Join(exprs, "; ")+"]", "["+strings.Join(obs, "; ")+"]")
				c.Stats.CaseIndex[strconv.Itoa(cid)] = map[string]interface{}{"scenario": sc.ID, "stream": sc.Stream, "kind": "sampled-positions", "table": name, "n": len(order)}
				c.Stats.Distribution["model_evaluated"] += len(order)
			}
			if res.Outcome == "stuck" {
				proj, _ := sk.project(res.Stuck, sc, k)
				if len(proj) > 0 {
					sawBusy = true
					cid := c.Cases.Add(fmt.Sprintf("[proj_ok tbl_%s true %s]", name, coqProj(proj)), "[true]")
					c.Stats.CaseIndex[strconv.Itoa(cid)] = map[string]interface{}{"scenario": sc.ID, "stream": sc.Stream, "kind": "standstill-is-model-deadlock", "table": name, "proj": proj}
					c.Stats.Distribution["model_evaluated"]++
				}
			}
			if sc.Stream == "safe" && len(order) > 0 {
				// no verification message of a safe scenario can move the best chain: the guarded model must explain it too
				var exprs, obs []string
				for _, s := range order {
					exprs = append(exprs, fmt.Sprintf("proj_ok tblg_%s false %s", name, s))
					obs = append(obs, "true")
				}
				cid := c.Cases.Add("["+strings.Join(exprs, "; ")+"]", "["+strings.Join(obs, "; ")+"]")
				c.Stats.CaseIndex[strconv.Itoa(cid)] = map[string]interface{}{"scenario": sc.ID, "stream": sc.Stream, "kind": "sampled-positions-guarded-model", "table": name}
				c.Stats.Distribution["model_evaluated"] += len(order)
			}
		} else if !ok {
			c.Stats.Count("no-model-table-for-this-worker-mix")
		}
		nontrivial := len(sc.Workers) >= 2 && (sawBusy || res.Outcome == "stuck" || (ro.race && res.Calls > len(sc.Setup)))
		c.Stats.Case(string(key), nontrivial)
		c.Stats.Sample(map[string]interface{}{"stream": sc.Stream, "workers": fmt.Sprintf("v%db%dt%dr%d", k.v, k.b, k.t, k.r), "outcome": res.Outcome, "class": res.Class,
			"calls": res.Calls, "pending": res.Pending, "refused": res.Errors, "samples": len(res.Samples), "race_detector": ro.race})
	}
	header := "From Coq Require Import NArith List Bool.\nFrom C37 Require Import Lts Run.\nImport ListNotations.\nOpen Scope N_scope.\n"
	return c.Cases.Write(c.Out, header, "list bool", "bools_eqb")
}

func modelProcOfStack(proc string, sc *Scenario) string {
	if proc == "bp" || proc == "loop" {
		return proc
	}
	if strings.HasPrefix(proc, "w") {
		if i, err := strconv.Atoi(proc[1:]); err == nil && i < len(sc.Workers) {
			return sc.Workers[i].Kind
		}
	}
	return ""
}

func pidOfStack(proc string, sc *Scenario, k cfgKey) int {
	if proc == "bp" {
		return 0
	}
	if proc == "loop" {
		return 1
	}
	if strings.HasPrefix(proc, "w") {
		if i, err := strconv.Atoi(proc[1:]); err == nil && i < len(sc.Workers) {
			n := 0
			for j := 0; j < i; j++ {
				if sc.Workers[j].Kind == sc.Workers[i].Kind {
					n++
				}
			}
			return pidOf(fmt.Sprintf("%s%d", sc.Workers[i].Kind, n), k)
		}
	}
	return -1
}

func firstLine(s string) string {
	s = strings.TrimSpace(s)
	if i := strings.Index(s, "\n"); i >= 0 {
		s = s[:i]
	}
	if len(s) > 300 {
		s = s[:300]
	}
	return s
}

func top(s raceStack) string {
	for i := len(s.Frames) - 1; i >= 0; i-- {
		if strings.Contains(s.Frames[i], "github.com/bytom/bytom/") {
			f := s.Frames[i]
			return f[strings.LastIndex(f, "/")+1:]
		}
	}
	if len(s.Frames) > 0 {
		return s.Frames[len(s.Frames)-1]
	}
	return "?"
}

func describe(ps []GPos) string {
	var r []string
	for _, p := range ps {
		f := p.Funcs
		if i := strings.LastIndex(f, ">"); i >= 0 {
			f = f[i+1:]
		}
		if f == "" {
			f = "(outside the modelled packages)"
		}
		r = append(r, fmt.Sprintf("%s [%s] in %s", p.Proc, p.State, f))
	}
	return strings.Join(r, "; ")
}

func bucket(n int) string {
	switch {
	case n == 0:
		return "0"
	case n <= 3:
		return "1-3"
	case n <= 10:
		return "4-10"
	case n <= 40:
		return "11-40"
	}
	return ">40"
}
