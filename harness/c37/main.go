package main

import (
	. "verifharness/hlib"
)

func main() { Main("C37", runC37, map[string]func([]string) int{"run": childRun}) }

func runC37(c *Ctx) error { return nil }
