package main

// C07 — VM execution terminates within the gas limit.
//
// Generator: multi-instruction programs assembled from the opcode vocabulary with
// back edges (JUMP/JUMPIF to instruction boundaries, into the middle of instructions,
// beyond the end), counted and unbounded loops, push/drop refund loops, nested
// CHECKPREDICATE (depth <= 4, limits 0 / small / large), CHECKMULTISIG with and
// without keys, the regression family of the repaired child-refund defect, and a
// malformed stream (random bytes, bit flips, truncations). Limits 0 .. 100000.
//
// Direct oracle (Go only, every case): Verify returns within a wall-clock bound;
// 0 <= gasLeft <= limit; no negative run limit in the trace; the depth-0 potential
// (run limit + cost of data stack + cost of alt stack, recomputed from the trace)
// drops by >= 1 per executed instruction; trace length <= initial potential;
// a program without CHECKPREDICATE re-run with less gas than it consumed fails
// with gasLeft 0; GasState.updateUsage accepts the returned gas.
//
// Correspondence: lib/VMRun.vm_case (gas, error class, final stack, first 64 trace
// steps, step count) and C07.Model.update_usage.

import (
	"bufio"
	"bytes"
	"crypto/ed25519"
	"encoding/binary"
	"encoding/hex"
	"fmt"
	"strings"
	"time"

	"github.com/bytom/bytom/protocol/validation"
	"github.com/bytom/bytom/protocol/vm"
	"verifharness/fraglib"
	. "verifharness/hlib"
	"verifharness/vmlib"
)

func main() { Main("C07", run, nil) }

// ---------------------------------------------------------------- assembler

type ins struct {
	b     []byte
	jmp   int // index of the target instruction (-1: none); len(prog) = end of program
	delta int // added to the target offset (1 = into the middle of the instruction)
}

func raw(bs ...byte) ins       { return ins{b: bs, jmp: -1} }
func push(d []byte) ins        { return ins{b: vm.PushDataBytes(d), jmp: -1} }
func pushInt(n uint64) ins     { return ins{b: vm.PushDataUint64(n), jmp: -1} }
func jump(op byte, to int) ins { return ins{b: []byte{op, 0, 0, 0, 0}, jmp: to} }
func jumpRaw(op byte, t uint32) ins {
	b := []byte{op, 0, 0, 0, 0}
	binary.LittleEndian.PutUint32(b[1:], t)
	return ins{b: b, jmp: -1}
}

func assemble(p []ins) []byte {
	offs := make([]int, len(p)+1)
	for i, x := range p {
		offs[i+1] = offs[i] + len(x.b)
	}
	var out []byte
	for _, x := range p {
		b := append([]byte{}, x.b...)
		if x.jmp >= 0 {
			t := x.jmp
			if t > len(p) {
				t = len(p)
			}
			binary.LittleEndian.PutUint32(b[len(b)-4:], uint32(offs[t]+x.delta))
		}
		out = append(out, b...)
	}
	return out
}

// shift jump targets when a block is placed at instruction index base
func place(base int, blk []ins) []ins {
	out := make([]ins, len(blk))
	for i, x := range blk {
		if x.jmp >= 0 {
			x.jmp += base
		}
		out[i] = x
	}
	return out
}

// ---------------------------------------------------------------- vocabulary

type opd struct {
	op      byte
	in, out int
}

var plainOps = []opd{
	{0x8b, 1, 1}, {0x8c, 1, 1}, {0x8d, 1, 1}, {0x8e, 1, 1}, {0x91, 1, 1}, {0x92, 1, 1},
	{0x93, 2, 1}, {0x94, 2, 1}, {0x95, 2, 1}, {0x96, 2, 1}, {0x97, 2, 1}, {0x98, 2, 1}, {0x99, 2, 1},
	{0x9a, 2, 1}, {0x9b, 2, 1}, {0x9c, 2, 1}, {0x9e, 2, 1}, {0x9f, 2, 1}, {0xa0, 2, 1}, {0xa1, 2, 1},
	{0xa2, 2, 1}, {0xa3, 2, 1}, {0xa4, 2, 1}, {0xa5, 3, 1},
	{0x75, 1, 0}, {0x76, 1, 2}, {0x6d, 2, 0}, {0x6e, 2, 4}, {0x6f, 3, 6}, {0x70, 4, 6}, {0x71, 6, 6},
	{0x72, 4, 4}, {0x73, 1, 2}, {0x74, 0, 1}, {0x77, 2, 1}, {0x78, 2, 3}, {0x7b, 3, 3}, {0x7c, 2, 2}, {0x7d, 2, 3},
	{0x7e, 2, 1}, {0x82, 1, 2}, {0x89, 2, 1}, {0x83, 1, 1}, {0x84, 2, 1}, {0x85, 2, 1}, {0x86, 2, 1}, {0x87, 2, 1},
	{0xa8, 1, 1}, {0xaa, 1, 1}, {0xab, 1, 1},
	{0xae, 0, 1}, {0xc2, 0, 1}, {0xc3, 0, 1}, {0xc4, 0, 1}, {0xc9, 0, 1}, {0xca, 0, 1}, {0xcb, 0, 1}, {0xcd, 0, 1},
	{0x61, 0, 0}, {0x75, 1, 0}, {0x76, 1, 2}, {0x7c, 2, 2}, {0x78, 2, 3},
}
var altOps = []opd{{0x6b, 1, 0}, {0x6c, 0, 1}}
var rareOps = []opd{{0x69, 1, 0}, {0x88, 2, 0}, {0x9d, 2, 0}, {0x6a, 0, 0}, {0xac, 3, 1}, {0xc1, 5, 1}, {0x50, 0, 0}, {0xb1, 0, 0}, {0xff, 0, 0}, {0x62, 0, 0}}

type gen struct {
	r      *Rng
	useAlt bool
	feat   map[string]bool
}

func (g *gen) item() []byte {
	r := g.r
	switch r.Intn(12) {
	case 0, 1, 2, 3:
		return vm.Uint64Bytes(uint64(r.Intn(20)))
	case 4:
		return vm.Uint64Bytes(uint64(r.Intn(70000)))
	case 5:
		return r.Bytes(32)
	case 6:
		return r.Bytes(60 + r.Intn(300)) // PUSHDATA1 / PUSHDATA2
	case 7:
		return vmlib.Item(r)
	default:
		return r.Bytes(r.Intn(24))
	}
}

// straight-line block; depth is the approximate stack depth on entry
func (g *gen) block(n int, depth *int) []ins {
	r := g.r
	var out []ins
	for i := 0; i < n; i++ {
		switch k := r.Intn(100); {
		case k < 30 || *depth == 0:
			if r.Chance(50) {
				out = append(out, raw(byte(0x51+r.Intn(16))))
			} else if r.Chance(15) {
				out = append(out, raw(0x00))
			} else {
				out = append(out, push(g.item()))
			}
			*depth++
		case k < 34:
			// PICK / ROLL with a plausible index
			out = append(out, pushInt(uint64(r.Intn(*depth+1))), raw([]byte{0x79, 0x7a}[r.Intn(2)]))
		case k < 38:
			// SUBSTR / LEFT / RIGHT on a fresh string
			s := r.Bytes(r.Intn(30))
			switch r.Intn(3) {
			case 0:
				out = append(out, push(s), pushInt(uint64(r.Intn(len(s)+2))), pushInt(uint64(r.Intn(len(s)+2))), raw(0x7f))
			case 1:
				out = append(out, push(s), pushInt(uint64(r.Intn(len(s)+2))), raw(0x80))
			default:
				out = append(out, push(s), pushInt(uint64(r.Intn(len(s)+2))), raw(0x81))
			}
			*depth++
		case k < 41 && g.useAlt:
			o := altOps[r.Intn(2)]
			out = append(out, raw(o.op))
			*depth += o.out - o.in
			g.feat["alt"] = true
		case k < 44:
			o := rareOps[r.Intn(len(rareOps))]
			out = append(out, raw(o.op))
			*depth += o.out - o.in
		default:
			o := plainOps[r.Intn(len(plainOps))]
			if o.in > *depth && r.Chance(85) {
				out = append(out, raw(byte(0x51+r.Intn(16))))
				*depth++
				continue
			}
			out = append(out, raw(o.op))
			*depth += o.out - o.in
		}
		if *depth < 0 {
			*depth = 0
		}
	}
	return out
}

// neutral loop body (stack effect 0 when it does not fail)
func (g *gen) neutral() []ins {
	r := g.r
	switch r.Intn(9) {
	case 0:
		return []ins{push(g.item()), raw(0x75)}
	case 1:
		return []ins{raw(0x76), raw(0x75)}
	case 2:
		return []ins{push(r.Bytes(r.Intn(40))), push(r.Bytes(r.Intn(40))), raw(0x7e), raw(0x75)}
	case 3:
		return []ins{push(r.Bytes(100 + r.Intn(200))), raw(0xa8), raw(0x75)}
	case 4:
		return []ins{raw(0x74), raw(0x75)}
	case 5:
		return []ins{raw(0xc4), raw(0x82), raw(0x6d)}
	case 6:
		return []ins{raw(0x61)}
	case 7:
		return []ins{raw(0x51), raw(0x52), raw(0x93), raw(0x53), raw(0x9c), raw(0x69)}
	default:
		return []ins{push(g.item()), raw(0x76), raw(0x87), raw(0x75)}
	}
}

func (g *gen) limitArg() uint64 {
	if g.r.Chance(6) {
		// int64 boundary of the limit operand: from 2^63 on it must be rejected (BadValue), never
		// reinterpreted as a negative limit that credits the parent
		return []uint64{1 << 63, 1<<64 - 1, 1<<64 - 50000, 1<<63 + 7, 1<<63 - 1}[g.r.Intn(5)]
	}
	switch g.r.Intn(4) {
	case 0:
		return 0
	case 1:
		return uint64(1 + g.r.Intn(40))
	case 2:
		return uint64(40 + g.r.Intn(400))
	default:
		return uint64(1000 + g.r.Intn(50000))
	}
}

// child programs whose last instruction pushes with a deferred cost
var deferredTails = [][]byte{{0xc4}, {0xc2}, {0xca}, {0xcb}, {0xae}, {0xc4, 0x82}, {0x51, 0x76, 0x7e}, {0xc4, 0xc4, 0x7e}, {0x00, 0x91}, {0xc4, 0xa8, 0xc4, 0x7e}}

// one structured pattern appended at instruction index base
func (g *gen) pattern(base int, depth *int, nest int) []ins {
	r := g.r
	switch k := r.Intn(100); {
	case k < 30:
		return g.block(1+r.Intn(8), depth)
	case k < 42: // counted loop
		g.feat["counted-loop"] = true
		n := uint64(1 + r.Intn(12))
		body := g.neutral()
		p := []ins{pushInt(n)}
		p = append(p, body...)
		p = append(p, raw(0x8c), raw(0x76), jump(0x64, 1), raw(0x75))
		return place(base, p)
	case k < 52: // unbounded refund loop: runs until the gas is gone
		g.feat["gas-loop"] = true
		body := g.neutral()
		p := append([]ins{}, body...)
		p = append(p, jump(0x63, 0))
		return place(base, p)
	case k < 60: // forward conditional skip
		g.feat["forward-jump"] = true
		blk := g.block(1+r.Intn(4), depth)
		p := []ins{raw(byte([]byte{0x00, 0x51}[r.Intn(2)])), jump(0x64, 2+len(blk))}
		p = append(p, blk...)
		return place(base, p)
	case k < 78 && nest < 4: // CHECKPREDICATE
		g.feat["checkpredicate"] = true
		if nest+1 >= 2 {
			g.feat[fmt.Sprintf("nest%d", nest+1)] = true
		}
		nargs := r.Intn(3)
		var p []ins
		for i := 0; i < nargs; i++ {
			p = append(p, push(g.item()))
		}
		var child []byte
		switch r.Intn(5) {
		case 0:
			child = append(r.Bytes(0), deferredTails[r.Intn(len(deferredTails))]...)
		case 1:
			child = []byte{0x51, 0x63, 0, 0, 0, 0} // loops until its limit is gone (the stack grows: trace is quadratic)
			g.feat["gas-loop"] = true
		default:
			cd := nargs
			child = assemble(g.program(1+r.Intn(3), &cd, nest+1))
		}
		n := uint64(nargs)
		if r.Chance(30) {
			n = uint64(r.Intn(nargs + 2))
		}
		p = append(p, pushInt(n), push(child), pushInt(g.limitArg()), raw(0xc0))
		switch r.Intn(4) {
		case 0:
			p = append(p, raw(0x69))
		case 1:
			p = append(p, raw(0x75))
		default:
			*depth++
		}
		return p
	case k < 84: // CHECKMULTISIG without keys (costs nothing) or with keys
		g.feat["multisig"] = true
		msg := r.Bytes(32)
		if r.Chance(60) {
			p := []ins{push(msg), raw(0x00), raw(0x00), raw(0xad)}
			if r.Chance(50) {
				p = append(p, raw(0x75))
			} else {
				*depth++
			}
			return p
		}
		pub, priv, _ := ed25519.GenerateKey(detRand{r})
		sig := ed25519.Sign(priv, msg)
		if r.Chance(30) {
			sig[3] ^= 1
		}
		*depth++
		return []ins{push(sig), push(msg), push(pub), raw(0x51), raw(0x51), raw(0xad)}
	case k < 90: // backward jump to an arbitrary earlier instruction, guarded by a counter or not
		g.feat["back-edge"] = true
		t := 0
		if base > 0 {
			t = r.Intn(base)
		}
		if r.Chance(50) {
			return []ins{raw(byte(0x51 + r.Intn(3))), {b: []byte{0x64, 0, 0, 0, 0}, jmp: t}}
		}
		return []ins{{b: []byte{0x63, 0, 0, 0, 0}, jmp: t}}
	case k < 95: // jump into the middle of an instruction / beyond the end / far away
		g.feat["odd-jump"] = true
		op := []byte{0x63, 0x64}[r.Intn(2)]
		var p []ins
		if op == 0x64 {
			p = append(p, raw(0x51))
		}
		switch r.Intn(4) {
		case 0:
			t := 0
			if base > 0 {
				t = r.Intn(base)
			}
			p = append(p, ins{b: []byte{op, 0, 0, 0, 0}, jmp: t, delta: 1})
		case 1:
			p = append(p, jumpRaw(op, uint32(1000+r.Intn(100000))))
		case 2:
			p = append(p, jumpRaw(op, 0xffffffff-uint32(r.Intn(3))))
		default:
			p = append(p, ins{b: []byte{op, 0, 0, 0, 0}, jmp: 1 << 30})
		}
		return p
	default:
		return g.block(2+r.Intn(5), depth)
	}
}

func (g *gen) program(npat int, depth *int, nest int) []ins {
	var p []ins
	for i := 0; i < npat; i++ {
		p = append(p, g.pattern(len(p), depth, nest)...)
	}
	if g.r.Chance(40) {
		p = append(p, raw(0x51))
	}
	return p
}

type detRand struct{ r *Rng }

func (d detRand) Read(p []byte) (int, error) {
	copy(p, d.r.Bytes(len(p)))
	return len(p), nil
}

// regression family of the repaired defect (commit "drop a VM's stacks when the deferred
// cost of its last instruction cannot be paid"): 0 <tail> lim CHECKPREDICATE DROP JUMP 0 + padding
func (g *gen) regression() []byte {
	r := g.r
	tail := deferredTails[r.Intn(len(deferredTails))]
	lim := uint64(1 + r.Intn(14))
	p := []ins{raw(0x00), push(tail), pushInt(lim), raw(0xc0), raw(0x75), jump(0x63, 0)}
	code := assemble(p)
	return append(code, r.Bytes(r.Intn(400))...)
}

func (g *gen) malformed(base []byte) []byte {
	r := g.r
	switch r.Intn(4) {
	case 0:
		return r.Bytes(r.Intn(60))
	case 1:
		b := append([]byte{}, base...)
		for i := 0; i < 1+r.Intn(3) && len(b) > 0; i++ {
			b[r.Intn(len(b))] ^= 1 << uint(r.Intn(8))
		}
		return b
	case 2:
		if len(base) == 0 {
			return base
		}
		return base[:r.Intn(len(base))]
	default:
		b := append([]byte{}, base...)
		return append(b, []byte{0x4c, 0x4d, 0x4e, 0x63, 0x64, 0x4b}[r.Intn(6)])
	}
}

func gasLimit(r *Rng, cap int64) int64 {
	var g int64
	switch k := r.Intn(100); {
	case k < 10:
		g = int64(r.Intn(21))
	case k < 35:
		g = int64(21 + r.Intn(380))
	case k < 80:
		g = int64(400 + r.Intn(4600))
	case k < 96:
		g = int64(5000 + r.Intn(15000))
	default:
		g = int64(20000 + r.Intn(80001))
	}
	if g > cap {
		g = cap
	}
	return g
}

// ---------------------------------------------------------------- running

type vres struct {
	gas int64
	err error
}

// Verify without tracing under a wall-clock bound; ok=false means it did not return.
func verifyBounded(cs *vmlib.Case, gas int64, d time.Duration) (int64, error, bool) {
	ch := make(chan vres, 1)
	ctx := cs.Context()
	go func() {
		g, e := vm.Verify(ctx, gas)
		ch <- vres{g, e}
	}()
	select {
	case r := <-ch:
		return r.gas, r.err, true
	case <-time.After(d):
		return 0, nil, false
	}
}

type countWriter struct{ n int64 }

func (w *countWriter) Write(p []byte) (int, error) { w.n += int64(len(p)); return len(p), nil }

type seg struct {
	depth  int
	pc     uint64
	limit  int64
	name   string
	blocks [][][]byte
}

func tracedRun(cs *vmlib.Case) (int64, error, []*seg) {
	var buf bytes.Buffer
	vm.TraceOut = &buf
	gas, err := vm.Verify(cs.Context(), cs.Gas)
	vm.TraceOut = nil
	var segs []*seg
	sc := bufio.NewScanner(&buf)
	sc.Buffer(make([]byte, 1<<20), 1<<26)
	for sc.Scan() {
		line := sc.Text()
		if strings.HasPrefix(line, "vm ") {
			s := &seg{}
			fmt.Sscanf(line, "vm %d pc %d limit %d %s", &s.depth, &s.pc, &s.limit, &s.name)
			segs = append(segs, s)
			continue
		}
		if strings.HasPrefix(line, "  stack ") && len(segs) > 0 {
			var k int
			fmt.Sscanf(line, "  stack %d:", &k)
			i := strings.Index(line, ": ")
			b, _ := hex.DecodeString(line[i+2:])
			s := segs[len(segs)-1]
			if k == 0 || len(s.blocks) == 0 {
				s.blocks = append(s.blocks, nil)
			}
			s.blocks[len(s.blocks)-1] = append(s.blocks[len(s.blocks)-1], b)
		}
	}
	return gas, err, segs
}

func cost(st [][]byte) int64 {
	var c int64
	for _, it := range st {
		c += 8 + int64(len(it))
	}
	return c
}

func isZeroNum(b []byte) bool {
	if len(b) > 32 {
		return false
	}
	for _, x := range b {
		if x != 0 {
			return false
		}
	}
	return true
}

// ---------------------------------------------------------------- the harness

func run(c *Ctx) error {
	r := c.Rng
	n := c.N(500, 2000)
	knownReported := 0
	hung := false
	for idx := 0; idx < n && !hung; idx++ {
		g := &gen{r: r, useAlt: r.Chance(30), feat: map[string]bool{}}
		cs := &vmlib.Case{VMVersion: 1, EntryID: r.Bytes(32)}
		kind := ""
		depth := 0
		gcap := int64(100000)
		switch k := r.Intn(100); {
		case k < 62:
			kind = "structured"
			for i := r.Intn(4); i > 0; i-- {
				cs.Args = append(cs.Args, g.item())
			}
			depth = len(cs.Args)
			cs.Code = assemble(g.program(1+r.Intn(5), &depth, 0))
		case k < 74:
			kind = "regression-child-refund"
			cs.Code = g.regression()
		case k < 84:
			kind = "gas-loop"
			body := g.neutral()
			p := append([]ins{}, body...)
			p = append(p, jump(0x63, 0))
			cs.Code = assemble(p)
			g.feat["gas-loop"] = true
		case k < 92:
			kind = "malformed"
			d := 2
			cs.Args = [][]byte{g.item(), g.item()}
			cs.Code = g.malformed(assemble(g.program(1+r.Intn(3), &d, 0)))
		default:
			kind = "deep-nesting"
			d := 0
			p := g.program(1, &d, 0)
			for lvl := 0; lvl < 4; lvl++ {
				child := assemble(p)
				lim := uint64(0) // 0 = hand the child everything that is left
				if r.Chance(40) {
					lim = g.limitArg()
				}
				p = []ins{pushInt(0), push(child), pushInt(lim), raw(0xc0)}
				if r.Chance(50) {
					p = append(p, g.neutral()...)
				}
			}
			cs.Code = assemble(p)
			g.feat["checkpredicate"] = true
			g.feat["nest4"] = true
		}
		if g.feat["gas-loop"] || g.feat["back-edge"] || kind == "regression-child-refund" {
			// loops run until the gas is gone: one model step costs O(program length) under vm_compute
			lc := int64(1500)
			if k := r.Intn(100); k >= 95 {
				lc = 20000
			} else if k >= 70 {
				lc = 4000
			}
			if gcap > lc {
				gcap = lc
			}
		}
		cs.Gas = gasLimit(r, gcap)
		if kind == "deep-nesting" && cs.Gas < 2000 && r.Chance(80) {
			cs.Gas += 2000 // four nested CHECKPREDICATEs cost 4*256 before the innermost child starts
		}
		switch r.Intn(4) {
		case 0, 1:
			cs.TxVersion = vmlib.U64(1)
		case 2:
			cs.TxVersion = vmlib.U64(2)
		}
		if r.Chance(2) {
			cs.VMVersion = 2
		}
		if r.Chance(80) {
			cs.Height = vmlib.U64(r.Next() >> uint(r.Intn(64)))
			cs.AssetID = vmlib.Bp(r.Bytes(32))
			cs.Amount = vmlib.U64(r.Next() >> uint(r.Intn(64)))
			cs.DestPos = vmlib.U64(uint64(r.Intn(5)))
			cs.SpentID = vmlib.Bp(r.Bytes(32))
			cs.SigHash = r.Bytes(32)
			cs.HasCO = true
		}
		if g.useAlt && r.Chance(50) {
			for i := 1 + r.Intn(2); i > 0; i-- {
				cs.State = append(cs.State, g.item())
			}
		}

		desc := map[string]interface{}{"kind": kind, "code": hex.EncodeToString(cs.Code), "gas": cs.Gas}
		fail := func(what string) { c.Stats.Fail(what, desc) }

		// O1: termination within a wall-clock bound (no tracing: a hang must not eat memory)
		gas0, err0, ok := verifyBounded(cs, cs.Gas, 20*time.Second)
		if !ok {
			desc["args"] = fmt.Sprintf("%x", cs.Args)
			fail(fmt.Sprintf("class=non-termination: vm.Verify did not return within 20s (limit %d)", cs.Gas))
			c.Stats.Case(fmt.Sprintf("%x|%d", cs.Code, cs.Gas), true)
			hung = true
			break
		}
		// a loop that grows the stack prints a trace quadratic in the number of steps: measure first
		var cw countWriter
		vm.TraceOut = &cw
		vm.Verify(cs.Context(), cs.Gas)
		vm.TraceOut = nil
		if cw.n > 24<<20 {
			c.Stats.Count("trace-too-large-skipped")
			c.Stats.Case(fmt.Sprintf("%x|%x|%d", cs.Code, cs.Args, cs.Gas), false)
			if gas0 < 0 || gas0 > cs.Gas {
				fail(fmt.Sprintf("class=gas-range: gas left %d outside [0,%d]", gas0, cs.Gas))
			}
			continue
		}
		// traced run for the oracle, traced run of vmlib for the correspondence
		gasT, errT, segs := tracedRun(cs)
		o := vmlib.Run(cs)
		for k, v := range vmlib.Describe(cs, o) {
			desc[k] = v
		}
		desc["kind"] = kind
		if gasT != gas0 || vmlib.ErrClass(errT) != vmlib.ErrClass(err0) || o.Gas != gas0 {
			fail(fmt.Sprintf("class=nondeterministic: repeated Verify gave gas %d/%d/%d", gas0, gasT, o.Gas))
		}
		errc := vmlib.ErrClass(err0)

		// O2: gas range
		if gas0 < 0 || gas0 > cs.Gas {
			fail(fmt.Sprintf("class=gas-range: gas left %d outside [0,%d]", gas0, cs.Gas))
		}

		// O4/O5: per-step potential at depth 0, run limits never negative
		maxDepth := 0
		var cur [][]byte // top first
		for i := len(cs.Args) - 1; i >= 0; i-- {
			cur = append(cur, cs.Args[i])
		}
		alt := append([][]byte{}, cs.State...) // top last
		known := errc != "EUnsupportedVM" && len(segs) > 0
		// when an initial push fails there is no trace; when arguments exceed the limit nothing runs
		var prevPhi int64
		var prevName string
		var prevTopZero bool
		havePrev := false
		steps0, zeroCost := 0, 0
		var phi0 int64 = -1
		checkDrop := func(phi int64, at string) {
			if !havePrev {
				return
			}
			if phi <= prevPhi-1 {
				return
			}
			if prevName == "CHECKMULTISIG" && prevTopZero && phi == prevPhi {
				zeroCost++
				if knownReported < 2 {
					knownReported++
					fail(fmt.Sprintf("class=zero-cost-multisig0: CHECKMULTISIG with numPubkeys = 0 consumed no gas (potential %d before and after, %s)", phi, at))
				}
				return
			}
			fail(fmt.Sprintf("class=potential-not-decreasing: instruction %s left the potential at %d (before: %d), %s", prevName, phi, prevPhi, at))
		}
		for i := 0; i < len(segs); i++ {
			s := segs[i]
			if s.depth > maxDepth {
				maxDepth = s.depth
			}
			if s.limit < 0 {
				fail(fmt.Sprintf("class=negative-runlimit: run limit %d at depth %d pc %d", s.limit, s.depth, s.pc))
			}
			if s.depth != 0 {
				continue
			}
			steps0++
			if !known {
				continue
			}
			phi := s.limit + cost(cur) + cost(alt)
			if phi0 < 0 {
				phi0 = phi
			}
			checkDrop(phi, fmt.Sprintf("step %d pc %d", steps0-1, s.pc))
			prevPhi, prevName, havePrev = phi, s.name, true
			prevTopZero = len(cur) > 0 && isZeroNum(cur[0])
			// stack after this step
			j := i + 1
			for j < len(segs) && segs[j].depth != 0 {
				j++
			}
			before := cur
			switch {
			case strings.HasPrefix(s.name, "NOPx"):
			case j == i+1:
				if len(s.blocks) >= 1 {
					cur = s.blocks[0]
				} else {
					cur = nil
				}
			default:
				last := segs[j-1]
				if len(last.blocks) >= 1 {
					cur = last.blocks[len(last.blocks)-1]
				} else {
					known = false
				}
			}
			if j < len(segs) || errc == "" || errc == "EFalseVMResult" { // the step succeeded
				switch s.name {
				case "TOALTSTACK":
					if len(before) > 0 {
						alt = append(alt, before[0])
					}
				case "FROMALTSTACK":
					if len(alt) > 0 {
						alt = alt[:len(alt)-1]
					}
				}
			}
		}
		if known && havePrev && (errc == "" || errc == "EFalseVMResult") {
			checkDrop(gas0+cost(cur)+cost(alt), "end of run")
		}
		// O3: trace length bounded by the initial potential
		if phi0 >= 0 && int64(steps0) > phi0+int64(zeroCost)+1 {
			fail(fmt.Sprintf("class=trace-length: %d top-level steps from an initial potential of %d", steps0, phi0))
		}

		// O7: less gas than the run consumed => the run fails with nothing left (no CHECKPREDICATE byte)
		used := cs.Gas - gas0
		if !bytes.Contains(cs.Code, []byte{0xc0}) && cs.VMVersion == 1 && used >= 1 && cs.Gas <= 20000 {
			l2 := used - 1
			if r.Chance(50) {
				l2 = int64(r.Intn(int(used)))
			}
			g2, e2, ok2 := verifyBounded(cs, l2, 20*time.Second)
			if !ok2 {
				fail(fmt.Sprintf("class=non-termination: vm.Verify did not return within 20s (limit %d)", l2))
				hung = true
			} else {
				c.Stats.Count("insufficient-rerun")
				ec2 := vmlib.ErrClass(e2)
				if g2 != 0 || (ec2 != "ERunLimitExceeded" && ec2 != "EUnexpected") {
					fail(fmt.Sprintf("class=insufficient-gas-runs-on: consumed %d of %d, but with limit %d the run ended with gas %d error %q", used, cs.Gas, l2, g2, ec2))
				}
			}
		}

		// O8: the validator's bookkeeping accepts the returned gas
		usedBefore := int64(r.Intn(1000))
		storage := int64(0)
		switch r.Intn(3) {
		case 1:
			storage = int64(r.Intn(int(cs.Gas) + 2))
		case 2:
			storage = gas0 + int64(r.Intn(3)) - 1
		}
		gs := &validation.GasState{GasLeft: cs.Gas, GasUsed: usedBefore, StorageGas: storage}
		uerr := gs.UpdateUsageVerif(gas0)
		ucls := validation.GasErrClassVerif(uerr)
		if ucls == "calc" || ucls == "other" {
			fail(fmt.Sprintf("class=updateusage: updateUsage(%d) with GasLeft %d failed: %v", gas0, cs.Gas, uerr))
		}
		if gs.GasLeft < 0 || gs.GasUsed < usedBefore || gs.GasLeft+gs.GasUsed != cs.Gas+usedBefore {
			fail(fmt.Sprintf("class=updateusage: bookkeeping not conserved: left %d used %d from left %d used %d", gs.GasLeft, gs.GasUsed, cs.Gas, usedBefore))
		}
		ucode := map[string]int{"": 0, "calc": 2, "overcredit": 3, "other": 9}[ucls]
		if ucls == "calc" && gas0 < 0 {
			ucode = 1
		}

		// statistics
		key := fmt.Sprintf("%x|%x|%x|%d|%v", cs.Code, cs.Args, cs.State, cs.Gas, cs.TxVersion != nil && *cs.TxVersion == 1)
		c.Stats.Case(key, steps0 >= 3 && errc != "EUnsupportedVM")
		c.Stats.Count("kind:" + kind)
		if errc == "" {
			c.Stats.Count("result:ok")
		} else {
			c.Stats.Count("result:" + errc)
		}
		for f := range g.feat {
			c.Stats.Count("feature:" + f)
		}
		c.Stats.Count(fmt.Sprintf("depth:%d", maxDepth))
		switch {
		case cs.Gas <= 20:
			c.Stats.Count("limit:0-20")
		case cs.Gas <= 400:
			c.Stats.Count("limit:21-400")
		case cs.Gas <= 5000:
			c.Stats.Count("limit:401-5000")
		case cs.Gas <= 20000:
			c.Stats.Count("limit:5001-20000")
		default:
			c.Stats.Count("limit:20001-100000")
		}
		switch {
		case steps0 == 0:
			c.Stats.Count("steps:0")
		case steps0 < 10:
			c.Stats.Count("steps:1-9")
		case steps0 < 100:
			c.Stats.Count("steps:10-99")
		case steps0 < 1000:
			c.Stats.Count("steps:100-999")
		default:
			c.Stats.Count("steps:1000+")
		}
		if zeroCost > 0 {
			c.Stats.Count("zero-cost-multisig0-steps")
		}
		if known && phi0 >= 0 {
			c.Stats.Count("potential-checked")
		}
		if idx%97 == 5 {
			c.Stats.Sample(desc)
		}

		model := strings.Replace(vmlib.CoqModel(cs, o), "vm_case ", "c07_case ", 1) + fmt.Sprintf(" %s %s", CoqZ(usedBefore), CoqZ(storage))
		obs := fmt.Sprintf("(%s, (%d%%N, %s, %s))", vmlib.CoqObs(o), ucode, CoqZ(gs.GasLeft), CoqZ(gs.GasUsed))
		id := c.Cases.Add(model, obs)
		c.Stats.CaseIndex[fmt.Sprint(id)] = desc
	}
	c.Stats.Distribution["model_evaluated"] = c.Cases.Len()
	c.Stats.Rule = "programs assembled from the opcode vocabulary: straight-line blocks (stack-aware choice of ~75 opcodes incl. splice, hash, context, alt-stack, PICK/ROLL, expansion NOPs), counted loops (n .. 1SUB DUP JUMPIF), unbounded push/drop refund loops ending in a back JUMP, forward JUMPIF, back edges to arbitrary earlier instructions, jumps into the middle of instructions / beyond the end / to 2^32-1, CHECKPREDICATE with generated children nested up to depth 4 (child limit 0 / 1-40 / 40-440 / 1000-51000; children ending in a deferred push with tiny limits), CHECKMULTISIG with zero keys and with a real ed25519 key; the regression family '0 <PROGRAM..> lim CHECKPREDICATE DROP JUMP 0 + padding'; malformed stream (random bytes, bit flips, truncation, dangling push opcodes); gas limits 0..100000 (10% <= 20, 25% <= 400, 45% <= 5000, 16% <= 20000, 4% above); tx version 1 / 2 / absent; distinct = distinct (program, args, state, gas, expansion flag); non-trivial = at least 3 executed top-level instructions"
	c.Cases.Shard = 60
	if err := c.Cases.Write(c.Out, vmlib.Header+"From C07 Require Import Model Run.\n", "c07obs", "c07obs_eqb"); err != nil {
		return err
	}
	txGasStage(c)
	// translator cross-check: the generated GasState.updateUsage (C07/Tie.v) against the compiled one
	return fraglib.GasState(c, "updateUsage")
}
