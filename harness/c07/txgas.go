// C07, transaction level: the programs of one transaction run against ONE gas budget (the fee's
// gas amount): what one program consumes is no longer available to the next, and a transaction
// whose programs together need more than the budget is refused rather than run on.
//
// Oracle (implementation only; the per-program semantics is what the Coq model covers): the cost of
// each input program is measured alone (single-input transaction with an ample fee); a
// transaction of several inputs (spends, vetoes, issuances) must then be accepted iff the sum of
// the costs plus the storage gas fits the budget, and an accepted one must report exactly that sum
// as gas used.
package main

import (
	"bytes"
	"fmt"

	"github.com/bytom/bytom/consensus"
	"github.com/bytom/bytom/protocol/bc"
	"github.com/bytom/bytom/protocol/bc/types"
	"github.com/bytom/bytom/protocol/validation"
	"github.com/bytom/bytom/protocol/vm"

	. "verifharness/hlib"
)

// loopProg: "n; L: 1SUB DUP JUMPIF L; DROP; TRUE" costs a few units per iteration
func loopProg(n uint64) []byte {
	p := vm.PushDataUint64(n)
	l := len(p)
	p = append(p, byte(vm.OP_1SUB), byte(vm.OP_DUP), byte(vm.OP_JUMPIF), byte(l), byte(l>>8), 0, 0, byte(vm.OP_DROP), byte(vm.OP_TRUE))
	return p
}

type txgIn struct {
	Kind int    `json:"kind"` // 0 spend, 1 veto
	N    uint64 `json:"loop"`
	Amt  uint64 `json:"amount"`
}

func txgBuild(ins []txgIn, feeBTM uint64, seed byte) *types.Tx {
	btm := *consensus.BTMAssetID
	td := types.TxData{Version: 1}
	var total uint64
	for i, in := range ins {
		var src bc.Hash
		b := src.Bytes()
		b[0], b[1], b[2] = seed, byte(i), byte(in.N)
		copy(b[3:], []byte(fmt.Sprint(in.N, in.Kind, i)))
		var arr [32]byte
		copy(arr[:], b)
		src = bc.NewHash(arr)
		if in.Kind == 1 {
			td.Inputs = append(td.Inputs, types.NewVetoInput(nil, src, btm, in.Amt, uint64(i), loopProg(in.N), bytes.Repeat([]byte{7}, 64), nil))
		} else {
			td.Inputs = append(td.Inputs, types.NewSpendInput(nil, src, btm, in.Amt, uint64(i), loopProg(in.N), nil))
		}
		total += in.Amt
	}
	td.Outputs = append(td.Outputs, types.NewOriginalTxOutput(btm, total-feeBTM, []byte{byte(vm.OP_TRUE)}, nil))
	var buf bytes.Buffer
	td.WriteTo(&buf)
	td.SerializedSize = uint64(buf.Len())
	return types.NewTx(td)
}

func txgValidate(tx *types.Tx) (g *validation.GasState, err error, panicked bool) {
	defer func() {
		if recover() != nil {
			panicked = true
		}
	}()
	blk := &bc.Block{BlockHeader: &bc.BlockHeader{Height: 100, Version: 1}}
	g, err = validation.ValidateTx(tx.Tx, blk, nil)
	return
}

func txGasStage(c *Ctx) {
	r := c.Rng
	rate := uint64(consensus.VMGasRate)
	ample := uint64(consensus.MaxGasAmount) * rate
	costOf := map[[2]uint64]int64{}
	measure := func(in txgIn) (int64, bool) {
		k := [2]uint64{uint64(in.Kind), in.N}
		if v, ok := costOf[k]; ok {
			return v, true
		}
		one := in
		one.Amt = ample + 1000
		tx := txgBuild([]txgIn{one}, ample, 1)
		g, err, pn := txgValidate(tx)
		if pn || err != nil {
			return 0, false
		}
		v := g.GasUsed - int64(tx.SerializedSize)*consensus.StorageGasRate
		costOf[k] = v
		return v, true
	}
	n := c.N(300, 2500)
	checked, accepted, refused := 0, 0, 0
	for i := 0; i < n; i++ {
		k := 1 + r.Intn(4)
		var ins []txgIn
		var sum int64
		ok := true
		for j := 0; j < k; j++ {
			in := txgIn{Kind: r.Intn(2), N: uint64(1 + r.Intn(60)*[]int{1, 10, 40}[r.Intn(3)])}
			cst, good := measure(in)
			ok = ok && good
			sum += cst
			ins = append(ins, in)
		}
		if !ok {
			c.Stats.Count("txgas:cost-not-measurable")
			continue
		}
		// budget around the need: the fee buys budget = fee / VMGasRate units
		approxSize := int64(120 + 110*k)
		need := sum + approxSize
		budget := need + int64(r.Intn(5)-2)*int64(1+r.Intn(300))
		if r.Chance(25) {
			budget = need/2 + int64(r.Intn(int(need/2+1)))
		}
		if budget < 1 {
			budget = 1
		}
		if budget > consensus.MaxGasAmount {
			budget = consensus.MaxGasAmount
		}
		fee := uint64(budget) * rate
		for j := range ins {
			ins[j].Amt = fee/uint64(k) + 1000
		}
		tx := txgBuild(ins, fee, 2)
		storage := int64(tx.SerializedSize) * consensus.StorageGasRate
		g, err, pn := txgValidate(tx)
		desc := map[string]interface{}{"kind": "tx-gas", "inputs": ins, "fee": fee, "budget": budget, "sum_of_program_costs": sum, "storage": storage}
		checked++
		switch {
		case pn:
			c.Stats.Fail("class=tx-gas-panic: ValidateTx panicked on a transaction of looping programs", desc)
		case err == nil:
			accepted++
			if sum+storage > budget {
				c.Stats.Fail(fmt.Sprintf("class=tx-gas-overrun: accepted although its programs need %d gas and storage %d, together more than the budget %d (the programs do not share one budget)", sum, storage, budget), desc)
			} else if g.GasUsed != sum+storage {
				c.Stats.Fail(fmt.Sprintf("class=tx-gas-accounting: accepted with GasUsed=%d, but its programs cost %d (each measured alone) and storage %d", g.GasUsed, sum, storage), desc)
			}
		default:
			refused++
			if sum+storage <= budget && sum+storage+storage <= budget+storage { // refused although everything fits
				// the last program must also leave the storage gas: sum + storage <= budget is the exact condition
				c.Stats.Fail(fmt.Sprintf("class=tx-gas-refused: refused (%v) although its programs need %d gas and storage %d within the budget %d", err, sum, storage, budget), desc)
			}
		}
	}
	c.Stats.Distribution["txgas.checked"] = checked
	c.Stats.Distribution["txgas.accepted"] = accepted
	c.Stats.Distribution["txgas.refused"] = refused
}
