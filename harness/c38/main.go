package main

// C38 — blocks proposed by the node pass the node's own validation
// (proposal/proposal.go, protocol/validation/block.go).
//
// A case is a short life of one fresh real node (protocol.Chain on LevelDB, in a CHILD PROCESS):
// a trunk of 16..23 empty blocks built offline by chainlib (their coinbases pay three different
// reward programs, so that epoch rewards are spread over several programs), then 2..4 ROUNDS.  In a
// round the harness submits transactions to the node's pool through Chain.ValidateTx (valid
// transfers and splits, double-spend pairs, parent+child chains, time ranges that expire exactly at
// the next height, immature coinbase spends, votes and still-locked vetoes, two-input transactions
// whose second input conflicts, plus a malformed stream the pool must refuse), calls the REAL
// proposer proposal.NewBlockTemplate for a time slot of the node's own key (sometimes through the
// add-only hook VerifNewBlockTemplate with the warn timer already fired), and feeds the block to
// Chain.ProcessBlock.  Scripted kinds: "many" (a 60-way split and its 60 children: several batches),
// "gas" (children that burn ~290k gas each until the block gas limit cuts the batch), "huge"
// (thorough: > 1024 transactions, the soft limit).  A few rounds ask for a slot that is NOT the
// node's, or a timestamp below parent + interval: the hypotheses of the theorem fail there and the
// validator must refuse the block (correspondence only, no oracle).
//
// Direct oracle (implementation outputs only, never the model), for every round in the node's own
// slot: ProcessBlock returns (false, nil), the block is the best block afterwards and is reported
// InMainChain, every transaction in it other than the coinbase was in the pool, and no output is
// spent twice inside it.  A crash or hang of the node is an oracle failure too.
//
// Correspondence: per round, against C38.Run.run_case: the block's transaction ids in order, the
// coinbase outputs (program, amount), which pool transactions were removed from the pool, what
// ProcessBlock returned and the best block afterwards, the utxo entries of all touched outputs.

import (
	"bufio"
	"bytes"
	"encoding/hex"
	"encoding/json"
	"fmt"
	"os"
	"os/exec"
	"path/filepath"
	"sort"
	"strconv"
	"strings"
	"sync"
	"time"

	"github.com/bytom/bytom/consensus"
	"github.com/bytom/bytom/errors"
	"github.com/bytom/bytom/proposal"
	"github.com/bytom/bytom/protocol"
	"github.com/bytom/bytom/protocol/bc"
	"github.com/bytom/bytom/protocol/bc/types"
	"github.com/bytom/bytom/protocol/validation"
	cl "verifharness/chainlib"
	. "verifharness/hlib"
)

func main() { Main("C38", runC38, map[string]func([]string) int{"batch": childBatch}) }

// ---------------------------------------------------------------- case format

type Case struct {
	ID   int    `json:"id"`
	Seed uint64 `json:"seed"`
	Kind string `json:"kind"` // random | many | gas | huge
}

type MTx struct {
	ID        int      `json:"id"`
	Version   uint64   `json:"v"`
	Size      uint64   `json:"sz"`
	TimeRange uint64   `json:"tr"`
	Spends    []int    `json:"sp"`
	Outs      [][2]int `json:"out"` // (output label, 0 normal / 2 vote), utxo-relevant outputs only
	Rank      int      `json:"rank"`
	Gas       int64    `json:"gas"` // validation.ValidateTx under a Version-1 header of the new height; -1 = rejected
	Kind      string   `json:"k"`
}

type Entry struct {
	Label  int    `json:"l"`
	Type   int    `json:"t"`
	Height uint64 `json:"h"`
	Spent  bool   `json:"s"`
}

type Round struct {
	Best      int         `json:"best"`
	Height    uint64      `json:"height"`
	Time      uint64      `json:"time"`
	Stored    []int       `json:"stored"`
	DB        []Entry     `json:"db"`
	CkTime    uint64      `json:"ckt"`
	Rewards   [][2]uint64 `json:"rewards"`
	Order     [][2]uint64 `json:"order"`
	Script    int         `json:"script"`
	Me        int         `json:"me"`
	Ts        uint64      `json:"ts"`
	Now       uint64      `json:"now"`
	StopFirst bool        `json:"stop"`
	InSlot    bool        `json:"inslot"`
	Pool      []MTx       `json:"pool"`
	CbID      int         `json:"cbid"`
	CbSize    uint64      `json:"cbsize"`
	CbOuts    []int       `json:"cbouts"`
	CbGas     int64       `json:"cbgas"`
	NewID     int         `json:"newid"`
	Tracked   []int       `json:"tracked"`
	// observed
	ProposeErr string      `json:"perr"`
	BlockTxs   []int       `json:"btxs"`
	CbObs      [][2]uint64 `json:"cbobs"`
	Removed    []bool      `json:"removed"`
	Orphan     bool        `json:"orphan"`
	Err        int         `json:"err"`
	ErrText    string      `json:"errtext"`
	BestAfter  int         `json:"bestafter"`
	After      []*Entry    `json:"after"`
	// oracle / statistics
	Fails     []string `json:"fails"`
	Submitted int      `json:"submitted"`
	Refused   int      `json:"refused"`
	Orphaned  int      `json:"orphaned"`
	GasSum    int64    `json:"gassum"`
	Tie       bool     `json:"tie"`
}

type Result struct {
	ID     int      `json:"id"`
	Kind   string   `json:"kind"`
	Local  int      `json:"local"`
	Trunk  int      `json:"trunk"`
	Rounds []*Round `json:"rounds"`
	Panic  string   `json:"panic"`
	Hang   bool     `json:"hang"`
	// a block of the trunk (valid by construction) was refused: the rounds cannot run
	TrunkFail string `json:"trunkfail"`
}

// ---------------------------------------------------------------- child: one case

type labeler struct{ m map[string]int }

func (l *labeler) get(k string) int {
	if v, ok := l.m[k]; ok {
		return v
	}
	v := len(l.m) + 1
	l.m[k] = v
	return v
}

type outRef struct {
	out    cl.Out
	kind   int // 0 normal, 1 coinbase, 2 vote
	height uint64
}

func spendable(o outRef, h uint64) bool {
	switch o.kind {
	case 1:
		return o.height+consensus.CoinbasePendingBlockNumber <= h
	case 2:
		return o.height+3 <= h
	}
	return true
}

var rewardProgs = [][]byte{{0x51}, {0x51, 0x51}, {0x52}}

const fee = cl.DefaultFee

func errClass(err error) int {
	switch {
	case err == nil:
		return 0
	case errors.Root(err) == protocol.ErrBadBlock:
		return 1
	}
	return 2
}

type runner struct {
	w      *cl.World
	n      *cl.Node
	r      *Rng
	local  int
	blocks labeler
	txs    labeler
	outs   labeler
	progs  labeler
	stored []int
	avail  []outRef // confirmed unspent outputs, by the harness's own bookkeeping
	ckTime uint64   // timestamp of the last epoch-boundary block at or below the tip (own bookkeeping)
	// scripted gas kinds: number of heavy transactions that fit into a block, padding of the tuned transaction
	heavyK   int
	tunedPad int
	tunedOK  bool
}

func (x *runner) confirm(tx *types.Tx, h uint64, coinbase bool) {
	for _, id := range tx.Tx.SpentOutputIDs {
		for i, o := range x.avail {
			if o.out.ID() == id {
				x.avail = append(x.avail[:i:i], x.avail[i+1:]...)
				break
			}
		}
	}
	for i, o := range tx.Outputs {
		if o.Amount == 0 || len(o.ControlProgram) > 0 && o.ControlProgram[0] == 0x6a {
			continue
		}
		k := 0
		if coinbase {
			k = 1
		} else if o.OutputType() == types.VoteOutputType {
			k = 2
		}
		x.avail = append(x.avail, outRef{cl.Out{Tx: tx, Pos: i}, k, h})
	}
}

// describe projects a transaction to the model's record.
func (x *runner) describe(tx *types.Tx) MTx {
	m := MTx{ID: x.txs.get(tx.ID.String()), Version: tx.Version, Size: tx.SerializedSize, TimeRange: tx.TimeRange, Spends: []int{}, Outs: [][2]int{}}
	for _, id := range tx.Tx.SpentOutputIDs {
		m.Spends = append(m.Spends, x.outs.get(id.String()))
	}
	for _, id := range tx.Tx.ResultIds {
		switch e := tx.Tx.Entries[*id].(type) {
		case *bc.OriginalOutput:
			if e.Source.Value.Amount > 0 {
				m.Outs = append(m.Outs, [2]int{x.outs.get(id.String()), 0})
			}
		case *bc.VoteOutput:
			if e.Source.Value.Amount > 0 {
				m.Outs = append(m.Outs, [2]int{x.outs.get(id.String()), 2})
			}
		}
	}
	return m
}

func (x *runner) entry(id bc.Hash) *Entry {
	e, err := x.n.Store.GetUtxo(&id)
	if err != nil || e == nil {
		return nil
	}
	return &Entry{Label: x.outs.get(id.String()), Type: int(e.Type), Height: e.BlockHeight, Spent: e.Spent}
}

type pending struct {
	tx   *types.Tx
	kind string
}

// burner: OP_1 followed by n OP_SHA3 - anyone can spend it, at the price of ~64 gas per instruction
func burner(n int) []byte { return burner2(n, 0) }

// burner2: as burner, followed by q OP_NOP (1 gas each; with the 2 hex digits of storage: 3 per NOP)
func burner2(n, q int) []byte {
	p := []byte{0x51}
	for i := 0; i < n; i++ {
		p = append(p, 0xaa)
	}
	for i := 0; i < q; i++ {
		p = append(p, 0x61)
	}
	return p
}

const heavyN = 4300

// padProg: an anyone-can-spend program of 1+p bytes (2 storage gas per byte for the transaction that creates it)
func padProg(p int) []byte {
	pr := []byte{0x51}
	for i := 0; i < p; i++ {
		pr = append(pr, 0x61)
	}
	return pr
}

func heavyTx(in cl.Out) *types.Tx { return cl.NewTx([]cl.Out{in}, []cl.OutSpec{{Amount: 1000000}}, 0) }
func tunedTx(in cl.Out, pad int) *types.Tx {
	return cl.NewTx([]cl.Out{in}, []cl.OutSpec{{Amount: 1000000, Program: padProg(pad)}}, 0)
}

func (x *runner) gasOf(tx *types.Tx) int64 {
	gs, err := validation.ValidateTx(tx.Tx, &bc.Block{BlockHeader: &bc.BlockHeader{Version: 1, Height: 1}}, x.n.Chain.ProgramConverter)
	if err != nil {
		return -1
	}
	return gs.GasUsed
}

// tune finds a burner program (m SHA3, q NOP) and an output padding p such that the transaction spending an
// output of amount each under that program uses exactly target gas (measured with the real validation.ValidateTx).
func (x *runner) tune(src cl.Out, each uint64, target int64) (m, q, p int, ok bool) {
	measure := func(m, q, p int) int64 {
		parent := cl.NewTx([]cl.Out{src}, []cl.OutSpec{{Amount: each, Program: burner2(m, q)}}, 0)
		return x.gasOf(tunedTx(cl.Out{Tx: parent, Pos: 0}, p))
	}
	for m = int(target/64) + 4; m > 0; m-- {
		g0 := measure(m, 0, 0)
		if g0 < 0 || g0 > target {
			continue
		}
		diff := target - g0
		if diff > 400 {
			return 0, 0, 0, false
		}
		q = 0
		if diff%2 == 1 {
			if diff < 3 {
				continue
			}
			q, diff = 1, diff-3
		}
		p = int(diff / 2)
		if p > 100 {
			continue
		}
		if measure(m, q, p) == target {
			return m, q, p, true
		}
	}
	return 0, 0, 0, false
}

// genPool plans the submissions of one round (in submission order).
func (x *runner) genPool(kind string, round int, best uint64) []pending {
	h := best + 1
	var subs []pending
	used := map[bc.Hash]bool{} // outputs spent by a planned transaction
	var usedList []cl.Out      // the same, for picking a conflict
	var fresh []cl.Out         // outputs of planned (unconfirmed) transactions
	pick := func(pred func(o outRef) bool) (outRef, bool) {
		var cand []outRef
		for _, o := range x.avail {
			if !used[o.out.ID()] && pred(o) {
				cand = append(cand, o)
			}
		}
		if len(cand) == 0 {
			return outRef{}, false
		}
		return cand[x.r.Intn(len(cand))], true
	}
	matureRich := func(o outRef) bool { return spendable(o, h) && o.out.Amount() > 3*fee+3000000 && o.kind != 2 }
	add := func(tx *types.Tx, kind string, ins []cl.Out) {
		subs = append(subs, pending{tx, kind})
		for _, in := range ins {
			if !used[in.ID()] {
				used[in.ID()] = true
				usedList = append(usedList, in)
			}
		}
		for i, o := range tx.Outputs {
			if o.Amount > 0 && o.OutputType() == types.OriginalOutputType && !(len(o.ControlProgram) > 0 && o.ControlProgram[0] == 0x6a) {
				fresh = append(fresh, cl.Out{Tx: tx, Pos: i})
			}
		}
	}
	split := func(in cl.Out, k int, tr uint64, feeAmt uint64) *types.Tx {
		return cl.Transfer([]cl.Out{in}, k, feeAmt, tr)
	}
	switch kind {
	case "many", "huge":
		if round != 0 {
			break
		}
		k := 60
		per := uint64(8000000)
		f := uint64(20000000)
		if kind == "huge" {
			k, per, f = 1040, 600000, 40000000
		}
		o, ok := pick(func(o outRef) bool { return spendable(o, h) && o.kind != 2 && o.out.Amount() > uint64(k)*per+f })
		if !ok {
			break
		}
		var specs []cl.OutSpec
		for i := 0; i < k; i++ {
			specs = append(specs, cl.OutSpec{Amount: per})
		}
		specs = append(specs, cl.OutSpec{Amount: o.out.Amount() - uint64(k)*per - f})
		parent := cl.NewTx([]cl.Out{o.out}, specs, 0)
		add(parent, "split", []cl.Out{o.out})
		cf := uint64(fee)
		if kind == "huge" {
			cf = 300000
		}
		for i := 0; i < k; i++ {
			in := cl.Out{Tx: parent, Pos: i}
			add(split(in, 1, 0, cf), "chain", []cl.Out{in})
		}
		return subs
	case "gas", "gas-exact0", "gas-exact-1", "gas-exact+1", "gas-skip":
		const each, ffee, small = 62000000, 60000000, 12000000
		isHeavy := func(o outRef) bool { return len(o.out.Tx.Outputs[o.out.Pos].ControlProgram) == heavyN+1 }
		isTuned := func(o outRef) bool {
			l := len(o.out.Tx.Outputs[o.out.Pos].ControlProgram)
			return l > 100 && l != heavyN+1
		}
		if round == 0 {
			// funding: two transactions (serialized size is counted in hex digits: 22 burner outputs of
			// 4.3 KB are ~190k storage gas), each turning two mature reward outputs into 22 burner outputs of 62M;
			// the second one also makes 16 small outputs, and (gas-exact*) its first burner is the tuned one
			var rich []cl.Out
			for _, o := range x.avail {
				if matureRich(o) {
					rich = append(rich, o.out)
				}
			}
			if len(rich) < 4 {
				break
			}
			dummy := cl.NewTx([]cl.Out{rich[0]}, []cl.OutSpec{{Amount: each, Program: burner(heavyN)}}, 0)
			gh := x.gasOf(heavyTx(cl.Out{Tx: dummy, Pos: 0}))
			if gh <= 0 {
				break
			}
			x.heavyK = int(int64(consensus.MaxBlockGas) / gh)
			tuned := burner(heavyN)
			if strings.HasPrefix(kind, "gas-exact") {
				delta := map[string]int64{"gas-exact0": 0, "gas-exact-1": -1, "gas-exact+1": 1}[kind]
				target := int64(consensus.MaxBlockGas) - int64(x.heavyK)*gh + delta
				if m, q, p, ok := x.tune(rich[0], each, target); ok {
					tuned, x.tunedPad, x.tunedOK = burner2(m, q), p, true
				}
			}
			for f := 0; f < 2; f++ {
				ins := rich[2*f : 2*f+2]
				sum := ins[0].Amount() + ins[1].Amount()
				k := 22
				need := ffee + uint64(k)*each + 1000
				if f == 1 {
					need += 16 * small
				}
				if sum < need {
					continue
				}
				var specs []cl.OutSpec
				for i := 0; i < k; i++ {
					prog := burner(heavyN)
					if f == 1 && i == 0 {
						prog = tuned
					}
					specs = append(specs, cl.OutSpec{Amount: each, Program: prog})
				}
				rest := sum - ffee - uint64(k)*each
				if f == 1 {
					for i := 0; i < 16; i++ {
						specs = append(specs, cl.OutSpec{Amount: small})
					}
					rest -= 16 * small
				}
				specs = append(specs, cl.OutSpec{Amount: rest})
				add(cl.NewTx(ins, specs, 0), "fund-burners", ins)
			}
			return subs
		}
		var heavy, smalls []outRef
		var tunedOut *outRef
		for i, o := range x.avail {
			switch {
			case isHeavy(o):
				heavy = append(heavy, o)
			case isTuned(o):
				tunedOut = &x.avail[i]
			case o.kind == 0 && o.out.Amount() == small:
				smalls = append(smalls, o)
			}
		}
		filler := func(kind string) {
			if len(smalls) > 0 {
				o := smalls[0]
				smalls = smalls[1:]
				add(split(o.out, 1, 0, fee), kind, []cl.Out{o.out})
			}
		}
		if round == 1 && strings.HasPrefix(kind, "gas-exact") && tunedOut != nil && x.tunedOK && len(heavy) >= x.heavyK {
			// heavyK heavy transactions, then the one tuned so that the sum is MaxBlockGas + delta, then small ones
			for _, o := range heavy[:x.heavyK] {
				add(heavyTx(o.out), "burn", []cl.Out{o.out})
			}
			add(tunedTx(tunedOut.out, x.tunedPad), "tuned", []cl.Out{tunedOut.out})
			for i := 0; i < 3; i++ {
				filler("behind-tuned")
			}
			return subs
		}
		if round == 1 && kind == "gas-skip" && len(heavy) > x.heavyK && x.heavyK+1 < 48 {
			// heavyK heavy transactions exhaust the budget; the next heavy one (the parent) does not fit and ends its
			// batch; fillers up to index 47; the parent's child opens the next batch of 16
			for _, o := range heavy[:x.heavyK] {
				add(heavyTx(o.out), "burn", []cl.Out{o.out})
			}
			po := heavy[x.heavyK]
			parent := cl.NewTx([]cl.Out{po.out}, []cl.OutSpec{{Amount: 1000000}, {Amount: 2000000}}, 0)
			add(parent, "skip-parent", []cl.Out{po.out})
			for len(subs) < 48 {
				before := len(subs)
				filler("skip-filler")
				if len(subs) == before {
					break
				}
			}
			add(cl.NewTx([]cl.Out{{Tx: parent, Pos: 0}}, []cl.OutSpec{{Amount: 500000}}, 0), "skip-child", []cl.Out{{Tx: parent, Pos: 0}})
			filler("behind-child")
			filler("behind-child")
			return subs
		}
		// spend every confirmed burner output: ~284k gas each
		for _, o := range x.avail {
			if (isHeavy(o) || isTuned(o)) && !used[o.out.ID()] {
				add(heavyTx(o.out), "burn", []cl.Out{o.out})
			}
		}
		// and a few ordinary ones behind them
		for i := 0; i < 3; i++ {
			if o, ok := pick(matureRich); ok {
				add(split(o.out, 1, 0, fee), "transfer", []cl.Out{o.out})
			}
		}
		return subs
	}
	n := x.r.Intn(9)
	if x.r.Chance(20) {
		n += 10 + x.r.Intn(14) // more than one batch
	}
	for i := 0; i < n; i++ {
		p := x.r.Intn(100)
		switch {
		case p < 22: // transfer / split of a confirmed output
			if o, ok := pick(matureRich); ok {
				k := 1 + x.r.Intn(3)
				if x.r.Chance(30) {
					k = 4 + x.r.Intn(8)
				}
				tr := uint64(0)
				if x.r.Chance(20) {
					tr = h + uint64(x.r.Intn(3))
				}
				add(split(o.out, k, tr, fee), "transfer", []cl.Out{o.out})
			}
		case p < 42: // child of a planned transaction
			if len(fresh) > 0 {
				j := x.r.Intn(len(fresh))
				in := fresh[j]
				if !used[in.ID()] && in.Amount() > fee+2000000 {
					add(split(in, 1+x.r.Intn(2), 0, fee), "chain", []cl.Out{in})
				}
			}
		case p < 54: // double spend of something already planned
			if len(usedList) > 0 {
				in := usedList[x.r.Intn(len(usedList))]
				if in.Amount() > 2*fee+2000000 {
					add(split(in, 1+x.r.Intn(2), 0, fee+uint64(1+x.r.Intn(1000))), "conflict", []cl.Out{in})
				}
			}
		case p < 62: // expires exactly at the new height (admitted under the best block's height)
			if o, ok := pick(matureRich); ok {
				add(split(o.out, 1, best, fee), "expired", []cl.Out{o.out})
			}
		case p < 70: // immature coinbase output
			if o, ok := pick(func(o outRef) bool { return o.kind == 1 && !spendable(o, h) && o.out.Amount() > fee+1000 }); ok {
				add(split(o.out, 1, 0, fee), "immature", []cl.Out{o.out})
			}
		case p < 78: // vote
			if o, ok := pick(func(o outRef) bool { return matureRich(o) && o.out.Amount() > 150000000 }); ok {
				a := o.out.Amount()
				tx := cl.NewTx([]cl.Out{o.out}, []cl.OutSpec{{Amount: 100000000 + uint64(x.r.Intn(1000)), Vote: x.w.Pubs[x.r.Intn(4)][:]}, {Amount: a - 100001000 - fee}}, 0)
				add(tx, "vote", []cl.Out{o.out})
			}
		case p < 84: // veto (locked or not)
			if o, ok := pick(func(o outRef) bool { return o.kind == 2 }); ok {
				k := "veto"
				if !spendable(o, h) {
					k = "veto-locked"
				}
				add(split(o.out, 1, 0, fee), k, []cl.Out{o.out})
			}
		case p < 92: // two inputs, the second one already taken by a planned transaction
			if o, ok := pick(matureRich); ok && len(usedList) > 0 {
				in2 := usedList[x.r.Intn(len(usedList))]
				if in2.ID() != o.out.ID() {
					ins := []cl.Out{o.out, in2}
					add(cl.Transfer(ins, 1, fee, 0), "partial", ins)
					// and later a plain spend of the first input (the builder's view keeps it marked spent)
					if x.r.Chance(60) {
						add(split(o.out, 2, 0, fee+7), "after-partial", []cl.Out{o.out})
					}
				}
			}
		case p < 95: // malformed: transaction version 2 (the pool must refuse it)
			if o, ok := pick(matureRich); ok {
				td := split(o.out, 1, 0, fee).TxData
				td.Version = 2
				bs, _ := td.MarshalText()
				td.SerializedSize = uint64(len(bs))
				subs = append(subs, pending{types.NewTx(td), "bad-version"})
			}
		case p < 97: // malformed: the same input twice
			if o, ok := pick(matureRich); ok {
				subs = append(subs, pending{cl.NewTx([]cl.Out{o.out, o.out}, []cl.OutSpec{{Amount: o.out.Amount()}}, 0), "dup-input"})
			}
		default: // orphan: parent never submitted
			if o, ok := pick(matureRich); ok {
				hidden := split(o.out, 1, 0, fee)
				subs = append(subs, pending{split(cl.Out{Tx: hidden, Pos: 0}, 1, 0, fee), "orphan"})
			}
		}
	}
	return subs
}

func (x *runner) round(kind string, idx int) (*Round, error) {
	n := x.n
	bh := n.Chain.BestBlockHeader()
	bestHash := bh.Hash()
	best := bh.Height
	h := best + 1
	rd := &Round{Best: x.blocks.get(bestHash.String()), Height: best, Time: bh.Timestamp, Stored: append([]int{}, x.stored...),
		Script: x.progs.get("51"), Me: x.local + 1, InSlot: true}

	// ---- pool
	subs := x.genPool(kind, idx, best)
	kindOf := map[bc.Hash]string{}
	for _, s := range subs {
		rd.Submitted++
		kindOf[s.tx.ID] = s.kind
		orphan, err := n.Chain.ValidateTx(s.tx)
		if err != nil {
			rd.Refused++
			if os.Getenv("VERIF_DEBUG") != "" {
				fmt.Fprintln(os.Stderr, "refused:", s.kind, err)
			}
		} else if orphan {
			rd.Orphaned++
		}
	}
	descs := n.Pool.GetTransactions()
	byAdded := append([]*protocol.TxDesc{}, descs...)
	sort.Slice(byAdded, func(i, j int) bool { return byAdded[i].Added.Before(byAdded[j].Added) })
	rank := map[bc.Hash]int{}
	for i, d := range byAdded {
		rank[d.Tx.ID] = i + 1
		if i > 0 && !byAdded[i-1].Added.Before(d.Added) {
			rd.Tie = true
		}
	}
	inPool := map[bc.Hash]*types.Tx{}
	var tracked []bc.Hash
	seen := map[bc.Hash]bool{}
	track := func(id bc.Hash) {
		if !seen[id] {
			seen[id] = true
			tracked = append(tracked, id)
		}
	}
	scratch := &bc.Block{BlockHeader: &bc.BlockHeader{Version: 1, Height: h}}
	for _, d := range descs {
		m := x.describe(d.Tx)
		m.Rank = rank[d.Tx.ID]
		m.Kind = kindOf[d.Tx.ID]
		if m.Kind == "" {
			m.Kind = "leftover"
		}
		m.Gas = -1
		if gs, err := validation.ValidateTx(d.Tx.Tx, scratch, n.Chain.ProgramConverter); err == nil {
			m.Gas = gs.GasUsed
		}
		rd.Pool = append(rd.Pool, m)
		inPool[d.Tx.ID] = d.Tx
		for _, id := range d.Tx.Tx.SpentOutputIDs {
			track(id)
		}
		for _, id := range d.Tx.Tx.ResultIds {
			switch d.Tx.Tx.Entries[*id].(type) {
			case *bc.OriginalOutput, *bc.VoteOutput:
				track(*id)
			}
		}
	}

	// ---- checkpoint and slot
	ck, err := n.Chain.PrevCheckpointByPrevHash(&bestHash)
	if err != nil {
		return nil, fmt.Errorf("PrevCheckpointByPrevHash: %v", err)
	}
	rd.CkTime = ck.Timestamp
	var progHex []string
	for p := range ck.Rewards {
		progHex = append(progHex, p)
	}
	sort.Strings(progHex)
	for _, p := range progHex {
		rd.Rewards = append(rd.Rewards, [2]uint64{uint64(x.progs.get(p)), ck.Rewards[p]})
	}
	parent := &cl.BlockInfo{Block: &types.Block{BlockHeader: *bh}, CkTimestamp: x.ckTime}
	mode := 0 // own slot
	if p := x.r.Intn(100); p < 8 {
		mode = 1 // somebody else's slot
	} else if p < 12 {
		mode = 2 // too early
	}
	if kind != "random" {
		mode = 0 // scripted kinds are always judged by the oracle
	}
	var ts uint64
	for skip := 0; skip < 12; skip++ {
		t, who := x.w.ProposerSlot(parent, skip)
		if (mode != 1 && who == x.local) || (mode == 1 && who != x.local) {
			ts = t
			break
		}
	}
	if mode == 2 {
		ts = bh.Timestamp + 1 + uint64(x.r.Intn(5999))
	}
	rd.InSlot = mode == 0
	rd.Ts = ts
	validator, err := n.Chain.GetValidator(&bestHash, ts)
	if err != nil {
		return nil, fmt.Errorf("GetValidator: %v", err)
	}
	if mode == 0 && validator.PubKey != hex.EncodeToString(x.w.Pubs[x.local][:]) {
		return nil, fmt.Errorf("slot bookkeeping disagrees with GetValidator at height %d", h)
	}

	// ---- the real proposer
	var block *types.Block
	rd.StopFirst = !strings.HasPrefix(kind, "gas") && x.r.Chance(15)
	if rd.StopFirst {
		warn := make(chan time.Time, 1)
		warn <- time.Now()
		block, err = proposal.VerifNewBlockTemplate(n.Chain, validator, nil, ts, warn, make(chan time.Time))
	} else {
		block, err = proposal.NewBlockTemplate(n.Chain, validator, nil, ts, time.Hour, 2*time.Hour)
	}
	if err != nil {
		rd.ProposeErr = err.Error()
		rd.Order = rd.Rewards
		for _, id := range tracked {
			rd.Tracked = append(rd.Tracked, x.outs.get(id.String()))
			if e := x.entry(id); e != nil {
				rd.DB = append(rd.DB, *e)
			}
		}
		return rd, nil
	}
	blockHash := block.Hash()
	rd.NewID = x.blocks.get(blockHash.String())
	cb := block.Transactions[0]
	cbm := x.describe(cb)
	rd.CbID, rd.CbSize = cbm.ID, cbm.Size
	for _, o := range cbm.Outs {
		rd.CbOuts = append(rd.CbOuts, o[0])
	}
	for _, id := range cb.Tx.ResultIds {
		if _, ok := cb.Tx.Entries[*id].(*bc.OriginalOutput); ok {
			track(*id)
		}
	}
	rd.CbGas = -1
	if gs, err := validation.ValidateTx(cb.Tx, &bc.Block{BlockHeader: &bc.BlockHeader{Version: 1, Height: h}, Transactions: []*bc.Tx{cb.Tx}}, n.Chain.ProgramConverter); err == nil {
		rd.CbGas = gs.GasUsed
	}
	// the order in which the reward map was iterated: the proposer's own program first, the others as they appear
	amount := map[int]uint64{}
	for _, r := range rd.Rewards {
		amount[int(r[0])] = r[1]
	}
	if a, ok := amount[rd.Script]; ok && h%4 == 1 && h != 1 {
		rd.Order = append(rd.Order, [2]uint64{uint64(rd.Script), a})
	}
	for i, o := range cb.Outputs {
		pl := x.progs.get(hex.EncodeToString(o.ControlProgram))
		rd.CbObs = append(rd.CbObs, [2]uint64{uint64(pl), o.Amount})
		if i > 0 {
			rd.Order = append(rd.Order, [2]uint64{uint64(pl), amount[pl]})
		}
	}
	if !(h%4 == 1 && h != 1) {
		rd.Order = rd.Rewards
	}
	for _, tx := range block.Transactions {
		rd.BlockTxs = append(rd.BlockTxs, x.txs.get(tx.ID.String()))
	}
	after := map[bc.Hash]bool{}
	for _, d := range n.Pool.GetTransactions() {
		after[d.Tx.ID] = true
	}
	for _, d := range descs {
		rd.Removed = append(rd.Removed, !after[d.Tx.ID])
	}
	for _, id := range tracked {
		rd.Tracked = append(rd.Tracked, x.outs.get(id.String()))
		if e := x.entry(id); e != nil {
			rd.DB = append(rd.DB, *e)
		}
	}

	// ---- oracle part 1 (block content)
	if rd.InSlot {
		spent := map[bc.Hash]bool{}
		for i, tx := range block.Transactions {
			if i > 0 && inPool[tx.ID] == nil {
				rd.Fails = append(rd.Fails, fmt.Sprintf("class=foreign-tx: transaction %s of the proposed block (height %d) was not in the pool", tx.ID.String(), h))
			}
			for _, id := range tx.Tx.SpentOutputIDs {
				if spent[id] {
					rd.Fails = append(rd.Fails, fmt.Sprintf("class=conflict-in-block: output %s is spent twice inside the proposed block (height %d)", id.String(), h))
				}
				spent[id] = true
			}
		}
	}
	for i, tx := range block.Transactions {
		if i > 0 {
			if gs, err := validation.ValidateTx(tx.Tx, scratch, n.Chain.ProgramConverter); err == nil {
				rd.GasSum += gs.GasUsed
			}
		}
	}

	// ---- fed back to the chain, the way blockproposer does
	rd.Now = uint64(time.Now().UnixNano() / 1e6)
	orphan, perr := n.Chain.ProcessBlock(block)
	rd.Orphan, rd.Err = orphan, errClass(perr)
	if perr != nil {
		rd.ErrText = perr.Error()
	}
	nb := n.Chain.BestBlockHeader()
	nbh := nb.Hash()
	rd.BestAfter = x.blocks.get(nbh.String())
	for _, id := range tracked {
		rd.After = append(rd.After, x.entry(id))
	}
	if rd.InSlot {
		switch {
		case perr != nil || orphan:
			rd.Fails = append(rd.Fails, fmt.Sprintf("class=proposed-block-rejected: ProcessBlock of the node's own block (height %d, %d transactions, pool of %d, epoch-first %v, stop %v) returned orphan=%v err=%v",
				h, len(block.Transactions), len(descs), h%4 == 1, rd.StopFirst, orphan, perr))
		case nbh != blockHash:
			rd.Fails = append(rd.Fails, fmt.Sprintf("class=proposed-block-not-best: the node's own block (height %d) was stored without error but the best block is %s at height %d", h, nbh.String(), nb.Height))
		case !n.Chain.InMainChain(blockHash):
			rd.Fails = append(rd.Fails, fmt.Sprintf("class=proposed-block-not-in-main-chain: height %d", h))
		}
	}
	if perr == nil && !orphan {
		x.stored = append(x.stored, rd.NewID)
	}
	if nbh == blockHash {
		for i, tx := range block.Transactions {
			x.confirm(tx, h, i == 0)
		}
		if h%4 == 0 {
			x.ckTime = block.Timestamp
		}
	}
	return rd, nil
}

func runCase(w *cl.World, c *Case, base string, local int) (*Result, error) {
	r := NewRng(c.Seed)
	res := &Result{ID: c.ID, Kind: c.Kind, Local: local}
	trunkLen := 16 + r.Intn(8)
	rounds := 2 + r.Intn(3)
	switch c.Kind {
	case "gas", "gas-exact0", "gas-exact-1", "gas-exact+1", "gas-skip":
		trunkLen, rounds = 28+r.Intn(2), 3
	case "many":
		trunkLen, rounds = 16+r.Intn(4), 2
	case "huge":
		trunkLen, rounds = 17, 1
	}
	res.Trunk = trunkLen
	dir := filepath.Join(base, fmt.Sprintf("node_%d", c.ID))
	os.RemoveAll(dir)
	n, err := cl.NewNode(dir)
	if err != nil {
		return nil, err
	}
	x := &runner{w: w, n: n, r: r, local: local, blocks: labeler{map[string]int{}}, txs: labeler{map[string]int{}},
		outs: labeler{map[string]int{}}, progs: labeler{map[string]int{}}}
	x.progs.get("51")
	x.stored = append(x.stored, x.blocks.get(w.Genesis.Hash.String()))
	tip := w.Genesis
	for i := 0; i < trunkLen; i++ {
		prog := rewardProgs[0]
		if c.Kind == "random" && r.Chance(45) {
			prog = rewardProgs[1+r.Intn(2)]
		}
		tip = w.NewBlock(tip, nil, cl.BlockOpt{RewardProgram: prog, Skip: r.Intn(2) * r.Intn(2)})
		orphan, err := n.Process(tip.Block)
		if err != nil || orphan {
			// an offline-built valid block (its own slot, timestamp parent + k*interval) refused by the node
			res.TrunkFail = fmt.Sprintf("class=valid-block-rejected: block %d of the offline-built trunk (empty, signed for its slot, timestamp %d, parent timestamp %d) was refused: orphan=%v err=%v",
				tip.Block.Height, tip.Block.Timestamp, tip.Parent.Block.Timestamp, orphan, err)
			return res, nil
		}
		x.stored = append(x.stored, x.blocks.get(tip.Hash.String()))
		x.confirm(tip.Block.Transactions[0], tip.Block.Height, true)
	}
	x.ckTime = tip.CkTimestamp
	for i := 0; i < rounds; i++ {
		rd, err := x.round(c.Kind, i)
		if err != nil {
			return nil, err
		}
		res.Rounds = append(res.Rounds, rd)
	}
	return res, nil
}

// child batch <file> <scratch dir> <local key>: prints "BEGIN <id>" before and one JSON result line after every case.
func childBatch(args []string) int {
	if len(args) != 3 {
		return 2
	}
	base := args[1]
	local, _ := strconv.Atoi(args[2])
	raw, err := os.ReadFile(args[0])
	if err != nil {
		fmt.Fprintln(os.Stderr, err)
		return 2
	}
	var cases []*Case
	if err := json.Unmarshal(raw, &cases); err != nil {
		fmt.Fprintln(os.Stderr, err)
		return 2
	}
	opt := cl.DefaultOptions()
	opt.LocalKey = local
	w := cl.Init(opt)
	out := bufio.NewWriter(os.Stdout)
	for _, c := range cases {
		fmt.Fprintf(out, "BEGIN %d\n", c.ID)
		out.Flush()
		r, err := runCase(w, c, base, local)
		if err != nil {
			fmt.Fprintln(os.Stderr, "harness child error:", err)
			return 3
		}
		js, _ := json.Marshal(r)
		out.Write(js)
		out.WriteString("\n")
		out.Flush()
	}
	return 0
}

// ---------------------------------------------------------------- parent: dispatch to children

func jobs() int {
	if v, err := strconv.Atoi(os.Getenv("VERIF_JOBS")); err == nil && v > 0 {
		if v > 12 {
			v = 12
		}
		return v
	}
	return 6
}

func runChunk(dir string, k int, cases []*Case, res map[int]*Result, mu *sync.Mutex) error {
	for len(cases) > 0 {
		f := filepath.Join(dir, fmt.Sprintf("chunk_%d.json", k))
		js, _ := json.Marshal(cases)
		if err := os.WriteFile(f, js, 0644); err != nil {
			return err
		}
		base := filepath.Join(dir, fmt.Sprintf("nodes_%d_%d", k, len(cases)))
		cmd := exec.Command(os.Args[0], "child", "batch", f, base, fmt.Sprint(k%4))
		var stderr bytes.Buffer
		cmd.Stderr = &stderr
		stdout, err := cmd.StdoutPipe()
		if err != nil {
			return err
		}
		if err := cmd.Start(); err != nil {
			return err
		}
		lines := make(chan string, 16)
		go func() {
			sc := bufio.NewScanner(stdout)
			sc.Buffer(make([]byte, 1<<20), 1<<28)
			for sc.Scan() {
				lines <- sc.Text()
			}
			close(lines)
		}()
		current, done, hang := -1, 0, false
	loop:
		for {
			select {
			case l, ok := <-lines:
				if !ok {
					break loop
				}
				if strings.HasPrefix(l, "BEGIN ") {
					current, _ = strconv.Atoi(l[6:])
					continue
				}
				r := &Result{}
				if err := json.Unmarshal([]byte(l), r); err != nil {
					cmd.Process.Kill()
					cmd.Wait()
					return fmt.Errorf("unparseable child output %q", tail(l, 300))
				}
				mu.Lock()
				res[r.ID] = r
				mu.Unlock()
				done++
				current = -1
			case <-time.After(300 * time.Second):
				hang = true
				cmd.Process.Kill()
				break loop
			}
		}
		err = cmd.Wait()
		os.RemoveAll(base)
		if err == nil && !hang && done == len(cases) {
			return nil
		}
		if current < 0 || done >= len(cases) || cases[done].ID != current {
			return fmt.Errorf("child failed outside a case: %v: %s", err, tail(stderr.String(), 800))
		}
		if ee, ok := err.(*exec.ExitError); ok && ee.ExitCode() == 3 {
			return fmt.Errorf("child: %s", tail(stderr.String(), 800))
		}
		r := &Result{ID: current, Hang: hang, Kind: cases[done].Kind}
		if !hang {
			r.Panic = panicHead(stderr.String())
		}
		mu.Lock()
		res[current] = r
		mu.Unlock()
		cases = cases[done+1:]
	}
	return nil
}

func tail(s string, n int) string {
	if len(s) > n {
		return s[len(s)-n:]
	}
	return s
}

func panicHead(trace string) string {
	var keep []string
	for _, l := range strings.Split(trace, "\n") {
		l = strings.TrimSpace(l)
		if strings.HasPrefix(l, "panic:") || strings.HasPrefix(l, "[signal") || strings.HasPrefix(l, "fatal error:") ||
			(strings.HasPrefix(l, "github.com/bytom/bytom/") && len(keep) < 8) {
			if i := strings.Index(l, "(0x"); i > 0 {
				l = l[:i]
			}
			keep = append(keep, l)
		}
	}
	if len(keep) == 0 {
		return "abnormal exit: " + tail(trace, 300)
	}
	return strings.Join(keep, " | ")
}

func runAll(cases []*Case) (map[int]*Result, error) {
	tmp := ""
	if st, err := os.Stat("/dev/shm"); err == nil && st.IsDir() {
		tmp = "/dev/shm"
	}
	dir, err := os.MkdirTemp(tmp, "c38-run-")
	if err != nil {
		return nil, err
	}
	defer os.RemoveAll(dir)
	res := map[int]*Result{}
	var mu sync.Mutex
	var chunks [][]*Case
	// round-robin, so that the expensive scripted cases (listed first) land in different children
	nch := (len(cases) + 7) / 8
	chunks = make([][]*Case, nch)
	for i, cs := range cases {
		chunks[i%nch] = append(chunks[i%nch], cs)
	}
	ch := make(chan int)
	errs := make(chan error, len(chunks)+1)
	var wg sync.WaitGroup
	for wk := 0; wk < jobs(); wk++ {
		wg.Add(1)
		go func() {
			defer wg.Done()
			for k := range ch {
				if err := runChunk(dir, k, chunks[k], res, &mu); err != nil {
					errs <- err
				}
			}
		}()
	}
	for k := range chunks {
		ch <- k
	}
	close(ch)
	wg.Wait()
	select {
	case err := <-errs:
		return nil, err
	default:
	}
	return res, nil
}

// ---------------------------------------------------------------- Coq expressions

func coqInts(xs []int) string {
	var s []string
	for _, x := range xs {
		s = append(s, fmt.Sprint(x))
	}
	return CoqList(s)
}

func coqPairsU(ps [][2]uint64) string {
	var s []string
	for _, p := range ps {
		s = append(s, fmt.Sprintf("(%d,%d)", p[0], p[1]))
	}
	return CoqList(s)
}

func coqEntry(e *Entry) string {
	if e == nil {
		return "None"
	}
	return fmt.Sprintf("(Some (%d,%d,%s))", e.Type, e.Height, CoqBool(e.Spent))
}

func modelExpr(rd *Round) string {
	var db, pool, core []string
	for _, e := range rd.DB {
		db = append(db, fmt.Sprintf("(%d,(%d,%d,%s))", e.Label, e.Type, e.Height, CoqBool(e.Spent)))
	}
	gas := func(g int64) string {
		if g < 0 {
			return "None"
		}
		return fmt.Sprintf("(Some %d)", g)
	}
	for _, t := range rd.Pool {
		var outs []string
		for _, o := range t.Outs {
			outs = append(outs, fmt.Sprintf("(%d,%d)", o[0], o[1]))
		}
		pool = append(pool, fmt.Sprintf("(%d, T %d %d %d %d %s %s)", t.Rank, t.ID, t.Version, t.Size, t.TimeRange, coqInts(t.Spends), CoqList(outs)))
		core = append(core, fmt.Sprintf("(%d,false,%s)", t.ID, gas(t.Gas)))
	}
	if rd.ProposeErr == "" {
		core = append(core, fmt.Sprintf("(%d,true,%s)", rd.CbID, gas(rd.CbGas)))
	}
	return fmt.Sprintf("rc %d %d %d %s %s %d %s %s %d %d %d %d %s %s %s (%d,%d,%s) %d %s",
		rd.Best, rd.Height, rd.Time, coqInts(rd.Stored), CoqList(db), rd.CkTime, coqPairsU(rd.Rewards), coqPairsU(rd.Order),
		rd.Script, rd.Me, rd.Ts, rd.Now, CoqBool(rd.StopFirst), CoqList(pool), CoqList(core),
		rd.CbID, rd.CbSize, coqInts(rd.CbOuts), rd.NewID, coqInts(rd.Tracked))
}

func observedExpr(rd *Round) string {
	if rd.ProposeErr != "" {
		return "None"
	}
	var rem, after []string
	for _, b := range rd.Removed {
		rem = append(rem, CoqBool(b))
	}
	for _, e := range rd.After {
		after = append(after, coqEntry(e))
	}
	return fmt.Sprintf("(Some (%s, %s, %s, (%s,%d,%d), %s))", coqInts(rd.BlockTxs), coqPairsU(rd.CbObs), CoqList(rem),
		CoqBool(rd.Orphan), rd.Err, rd.BestAfter, CoqList(after))
}

// ---------------------------------------------------------------- the run

func bucket(n int) string {
	switch {
	case n == 0:
		return "0"
	case n <= 4:
		return "1_4"
	case n <= 16:
		return "5_16"
	case n <= 64:
		return "17_64"
	case n <= 1024:
		return "65_1024"
	}
	return "over_1024"
}

func runC38(c *Ctx) error {
	var cases []*Case
	add := func(kind string) {
		cases = append(cases, &Case{ID: len(cases), Seed: c.Rng.Next(), Kind: kind})
	}
	for i := 0; i < c.N(1, 3); i++ {
		add("gas")
		add("gas-exact0")
		add("gas-exact-1")
		add("gas-exact+1")
		add("gas-skip")
	}
	for i := 0; i < c.N(3, 10); i++ {
		add("many")
	}
	for i := 0; i < c.N(0, 1); i++ {
		add("huge")
	}
	for i := 0; i < c.N(60, 420); i++ {
		add("random")
	}
	res, err := runAll(cases)
	if err != nil {
		return err
	}
	perClass := map[string]int{}
	fail := func(f string, desc interface{}) {
		cls := strings.SplitN(f, ":", 2)[0]
		c.Stats.Count("oracle_" + cls)
		if perClass[cls] < 3 {
			perClass[cls]++
			c.Stats.Fail(f, desc)
		}
	}
	for _, cs := range cases {
		r := res[cs.ID]
		if r == nil {
			return fmt.Errorf("no result for case %d", cs.ID)
		}
		c.Stats.Count("case_kind_" + cs.Kind)
		if r.Panic != "" || r.Hang {
			what := "class=node-crash: the node process died while a proposed block was built or processed: " + r.Panic
			if r.Hang {
				what = "class=node-hang: no answer from the node within 300 s"
			}
			fail(what, map[string]interface{}{"seed": cs.Seed, "kind": cs.Kind})
			c.Cases.Add("(None : cres)", "(Some ([], [], [], (false,0,0), []))")
			c.Stats.Case(fmt.Sprint(cs.Seed, cs.Kind), true)
			continue
		}
		if r.TrunkFail != "" {
			fail(r.TrunkFail, map[string]interface{}{"seed": cs.Seed, "kind": cs.Kind, "trunk": r.Trunk})
			c.Stats.Case(fmt.Sprint(cs.Seed, cs.Kind), true)
			continue
		}
		for ri, rd := range r.Rounds {
			desc := map[string]interface{}{"seed": cs.Seed, "kind": cs.Kind, "local_key": r.Local, "trunk": r.Trunk, "round": ri,
				"height": rd.Height + 1, "ts": rd.Ts, "stop_first": rd.StopFirst, "in_slot": rd.InSlot, "pool": len(rd.Pool),
				"block_txs": len(rd.BlockTxs), "orphan": rd.Orphan, "err": rd.Err, "err_text": rd.ErrText, "propose_err": rd.ProposeErr}
			if len(rd.Fails) > 0 {
				desc["round_data"] = rd
				c.Stats.Count("oracle_failed_rounds")
			}
			for _, f := range rd.Fails {
				fail(f, desc)
			}
			if rd.Tie {
				c.Stats.Count("dropped_equal_arrival_times")
				continue
			}
			id := c.Cases.Add(modelExpr(rd), observedExpr(rd))
			nontrivial := rd.InSlot && len(rd.BlockTxs) > 1
			c.Stats.Case(fmt.Sprint(cs.Seed, cs.Kind, ri), nontrivial)
			c.Stats.Count("rounds")
			c.Stats.Count("model_evaluated")
			c.Stats.Count("pool_size_" + bucket(len(rd.Pool)))
			if rd.ProposeErr != "" {
				c.Stats.Count("propose_error")
				continue
			}
			c.Stats.Count("block_txs_" + bucket(len(rd.BlockTxs)-1))
			c.Stats.Count(fmt.Sprintf("height_mod_4_is_%d", (rd.Height+1)%4))
			if (rd.Height+1)%4 == 1 {
				c.Stats.Count(fmt.Sprintf("epoch_first_coinbase_outputs_%d", len(rd.CbObs)))
				if len(rd.CbObs) > 0 && rd.CbObs[0][1] == 0 {
					c.Stats.Count("epoch_first_own_program_unrewarded")
				}
			}
			switch {
			case !rd.InSlot && rd.Ts < rd.Time+6000:
				c.Stats.Count("hypothesis_off_timestamp_too_early")
			case !rd.InSlot:
				c.Stats.Count("hypothesis_off_foreign_slot")
			default:
				c.Stats.Count("own_slot")
			}
			c.Stats.Count(fmt.Sprintf("process_err_%d_orphan_%v", rd.Err, rd.Orphan))
			if rd.StopFirst {
				c.Stats.Count("warn_timer_fired")
				if len(rd.Pool) > 16 {
					c.Stats.Count("warn_timer_fired_pool_over_one_batch")
				}
			}
			nrem, kept := 0, len(rd.BlockTxs)-1
			for _, b := range rd.Removed {
				if b {
					nrem++
				}
			}
			c.Stats.Count("removed_from_pool_" + bucket(nrem))
			if left := len(rd.Pool) - nrem - kept; left > 0 && !rd.StopFirst && rd.InSlot {
				c.Stats.Count("left_in_pool_by_gas_or_soft_limit")
			}
			if rd.GasSum > 9000000 {
				c.Stats.Count("block_gas_over_9M")
			}
			switch rd.GasSum {
			case int64(consensus.MaxBlockGas):
				c.Stats.Count("block_gas_exactly_MaxBlockGas")
			case int64(consensus.MaxBlockGas) - 1:
				c.Stats.Count("block_gas_MaxBlockGas_minus_1")
			}
			if strings.HasPrefix(cs.Kind, "gas") && ri == 1 {
				c.Stats.Count(fmt.Sprintf("scripted_%s_round1_block_gas_%d_txs_%d_err_%d", cs.Kind, rd.GasSum, len(rd.BlockTxs)-1, rd.Err))
			}
			inBlock := map[int]bool{}
			for _, t := range rd.BlockTxs {
				inBlock[t] = true
			}
			for _, t := range rd.Pool {
				v := "kept"
				if !inBlock[t.ID] {
					v = "not_kept"
				}
				c.Stats.Count("pool_tx_" + t.Kind + "_" + v)
			}
			c.Stats.Count(fmt.Sprintf("submissions_refused_by_pool_%s", bucket(rd.Refused)))
			if len(rd.Fails) > 0 || id < 3 || id%c.N(60, 400) == 7 {
				d := map[string]interface{}{"seed": cs.Seed, "kind": cs.Kind, "round": ri, "height": rd.Height + 1, "pool": len(rd.Pool),
					"block_txs": rd.BlockTxs, "coinbase": rd.CbObs, "process": []interface{}{rd.Orphan, rd.Err, rd.BestAfter}, "in_slot": rd.InSlot}
				if len(rd.Fails) > 0 || id < 3 {
					c.Stats.CaseIndex[fmt.Sprint(id)] = d
				}
				c.Stats.Sample(d)
			}
		}
	}
	c.Stats.Rule = "a case is a fresh real node (LevelDB, child process): 16..29 offline-built trunk blocks whose coinbases pay three different programs, then 1..4 rounds of: submit transactions through Chain.ValidateTx (transfers/splits, double-spend pairs, parent+child chains, time range = best height (expires at the next), immature coinbase spends, votes, locked and unlocked vetoes, two-input transactions with a conflicting second input followed by a spend of the first, and a malformed stream: version 2, duplicated input, orphans), call the real proposal.NewBlockTemplate for a slot of the node's own key (15% through the hook with the warn timer already fired; 12% for a foreign slot or a timestamp below parent+interval, where the validator must refuse), feed the block to Chain.ProcessBlock; scripted kinds: 60-way split with its 60 children (several batches), ~40 transactions burning ~290k gas each (block gas limit cuts the batch), thorough: 1041 transactions (soft limit); one evaluation = one round; distinct = distinct (seed, kind, round); non-trivial = own slot and at least one pool transaction in the block; oracle on implementation outputs only: ProcessBlock returns (false, nil), the block is best and InMainChain, all its transactions were pooled, no output spent twice inside it, no crash"
	header := "From Coq Require Import ZArith NArith List Bool.\nFrom C38 Require Import Model Run.\nImport ListNotations.\nOpen Scope N_scope.\nDefinition rc := run_case.\nDefinition ty (p : N * N) : N * utype := (fst p, match snd p with 2 => Vote | 1 => Coinbase | _ => Normal end).\nDefinition T i v sz tr sp ou := mkT i v sz tr sp (map ty ou).\n"
	c.Cases.Shard = c.N(20, 60)
	return c.Cases.Write(c.Out, header, "cres", "cres_eqb")
}
