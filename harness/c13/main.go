package main

// C13 — blocks violating consensus rules never enter the main chain; valid blocks are accepted
// (protocol/validation/block.go, protocol/validation/tx.go, protocol/state/utxo_view.go,
// protocol/block.go).
//
// A case is a history for one fresh real node (protocol.Chain on LevelDB, in a CHILD PROCESS):
// a trunk of 16 empty blocks, then a random block tree of 6..12 blocks (heights 17..) carrying
// transactions (splits, transfers, votes, vetoes, coinbase spends), built offline by chainlib, in
// which ONE block is mutated so that it breaks exactly one consensus rule (or, for a few kinds,
// stays valid on purpose).  The mutant sits on the main branch or on a fork; valid blocks are
// built beside it and (sometimes) on top of it.  Blocks are delivered parents first.
//
// The child describes every block purely from its content, with small integer labels for
// hashes (blocks, transactions, outputs, programs), and supplies the tables of the primitives the
// model takes as parameters: per transaction the verdict and gas of validation.ValidateTx, per block
// the federation key its witness verifies under, the transaction list its merkle root commits to,
// its reward (fees + subsidy from the harness's own bookkeeping) and the rank of its hash string.
//
// Direct oracle (implementation outputs and the generator's knowledge of which block was broken —
// never the model): no crash/hang; the broken block never becomes best or an ancestor of best and
// is never reported InMainChain; no descendant of it either; an unbroken block is never rejected as
// a bad block; an unbroken block that outranks (height, then hash string) every other unbroken
// stored block becomes best when it is delivered; at the end best is the highest-ranked unbroken
// block delivered.
//
// Correspondence: per delivery (orphan flag, error class, label of the best block afterwards),
// finally InMainChain of every block, against C13.Run.run_case.

import (
	"bufio"
	"bytes"
	"encoding/hex"
	"encoding/json"
	"fmt"
	"os"
	"os/exec"
	"path/filepath"
	"sort"
	"strconv"
	"strings"
	"sync"
	"time"

	"github.com/bytom/bytom/consensus"
	"github.com/bytom/bytom/errors"
	"github.com/bytom/bytom/protocol"
	"github.com/bytom/bytom/protocol/bc"
	"github.com/bytom/bytom/protocol/bc/types"
	"github.com/bytom/bytom/protocol/validation"
	cl "verifharness/chainlib"
	. "verifharness/hlib"
)

func main() { Main("C13", runC13, map[string]func([]string) int{"batch": childBatch}) }

// ---------------------------------------------------------------- case format

type Case struct {
	ID   int    `json:"id"`
	Seed uint64 `json:"seed"`
	Kind string `json:"kind"` // mutation kind ("" = generator picks), or a scripted scenario name
	Fork int    `json:"fork"` // 0 mutant on the preferred branch, 1 on a fork, 2 generator picks
}

// model-side description of a transaction / block (labels are small integers)
type MTx struct {
	ID     int      `json:"id"`
	Spends [][2]int `json:"sp"`  // (output label, claimed type 0 normal / 2 vote)
	Outs   [][2]int `json:"out"` // (output label, type 0 normal / 2 vote), utxo-relevant outputs only (amount > 0)
	Gas    int64    `json:"gas"` // -1: validation.ValidateTx rejects the transaction in this block
}

type MBlock struct {
	Label   int        `json:"l"`
	Parent  int        `json:"p"`
	Height  uint64     `json:"h"`
	Version uint64     `json:"v"`
	Time    uint64     `json:"t"`
	Sig     int        `json:"sig"`  // federation key (1..4) under which the witness verifies for this block's hash, 0 = none
	Root    []int      `json:"root"` // tx labels the committed merkle root was computed over ([0] = unknown root)
	Txs     []MTx      `json:"txs"`
	Cb      [][3]uint64 `json:"cb"` // coinbase (first tx) outputs: program label, amount, 1 = original BTM output
	Reward  uint64     `json:"rw"`   // fees + subsidy of this block (harness bookkeeping)
	Rank    int        `json:"rank"` // rank of the hash's hex string among the case's blocks
	Broken  bool       `json:"broken"` // generator knowledge: this block (or an ancestor) was mutated into an invalid one
	Mutant  bool       `json:"mutant"`
	SpendBad bool      `json:"spendbad"` // the mutation is a spend-rule violation (block passes saveBlock)
}

type Step struct {
	Block  int  `json:"b"`
	Orphan bool `json:"o"`
	Err    int  `json:"e"` // 0 none, 1 ErrBadBlock, 2 other
	Best   int  `json:"best"`
	MutIn  bool `json:"mi"` // InMainChain(mutant) after this delivery
}

type Result struct {
	ID      int      `json:"id"`
	Kind    string   `json:"kind"`
	Valid   bool     `json:"valid"` // the mutation kind keeps the block valid
	Now     uint64   `json:"now"`
	Blocks  []MBlock `json:"blocks"` // label order, 0 = genesis
	Steps   []Step   `json:"steps"`
	InMain  []bool   `json:"inmain"` // per label, at the end
	Mutant  int      `json:"mutant"` // label, -1 none
	Relock  bool     `json:"relock"` // scripted: a veto is detached before the mutant (a locked-vote spend) is attached
	Panic   string   `json:"panic,omitempty"`
	Hang    bool     `json:"hang,omitempty"`
	Note    string   `json:"note,omitempty"`
}

// ---------------------------------------------------------------- child: builds and runs cases on real nodes

const trunkLen = 16

type outRef struct {
	out    cl.Out
	kind   int // 0 normal, 1 coinbase, 2 vote
	height uint64
}

type bstate struct {
	avail []outRef
	spent []outRef
}

func (s *bstate) clone() *bstate {
	return &bstate{avail: append([]outRef(nil), s.avail...), spent: append([]outRef(nil), s.spent...)}
}

type node struct {
	bi     *cl.BlockInfo
	label  int
	parent *node
	st     *bstate
	broken bool
	mutant bool
	skip   int // next Skip to use for a child (siblings differ by time slot)
}

type gen struct {
	w      *cl.World
	r      *Rng
	nodes  []*node
	mutant *node
	kind   string
	valid  bool
	spendBad bool
	now    uint64
}

func (g *gen) add(parent *node, bi *cl.BlockInfo, st *bstate) *node {
	n := &node{bi: bi, label: len(g.nodes), parent: parent, st: st, broken: parent != nil && parent.broken}
	g.nodes = append(g.nodes, n)
	return n
}

func spendable(o outRef, h uint64) bool {
	switch o.kind {
	case 1:
		return o.height+consensus.CoinbasePendingBlockNumber <= h
	case 2:
		return o.height+consensus.VotePendingBlockNums(h) <= h
	}
	return true
}

// applyTx updates the planner's view of a branch.
func applyTx(st *bstate, tx *types.Tx, h uint64, coinbase bool) {
	for _, id := range tx.Tx.SpentOutputIDs {
		for i, o := range st.avail {
			if o.out.ID() == id {
				st.spent = append(st.spent, o)
				st.avail = append(st.avail[:i:i], st.avail[i+1:]...)
				break
			}
		}
	}
	for i, o := range tx.Outputs {
		if o.Amount == 0 || len(o.ControlProgram) != 1 {
			continue // zero outputs are not utxos; outputs under the gas-burning programs are spent by the gas scenario only
		}
		k := 0
		if coinbase {
			k = 1
		} else if o.OutputType() == types.VoteOutputType {
			k = 2
		}
		st.avail = append(st.avail, outRef{cl.Out{Tx: tx, Pos: i}, k, h})
	}
}

const fee = cl.DefaultFee

// mkTx spends the given outputs into k outputs (one of them a vote with probability pv).
func (g *gen) mkTx(ins []outRef, k int, vote bool, timeRange uint64) *types.Tx {
	var sum uint64
	var outs []cl.Out
	for _, o := range ins {
		sum += o.out.Amount()
		outs = append(outs, o.out)
	}
	if sum < fee+uint64(k)*1000000 {
		k = 1
	}
	rest := sum / 2
	if sum > fee+1000 {
		rest = sum - fee
	}
	var specs []cl.OutSpec
	for i := 0; i < k; i++ {
		a := rest / uint64(k-i)
		if i < k-1 && a > 2000000 {
			a = a/2 + uint64(g.r.Intn(int(a/2)))
		}
		sp := cl.OutSpec{Amount: a}
		if vote && i == 0 {
			// a vote output needs MinVoteOutputAmount
			min := consensus.MinVoteOutputAmount
			if rest >= min+uint64(k-1)*1000000 {
				room := rest - uint64(k-1)*1000000 - min
				a = min + uint64(g.r.Intn(int(room/2+1)))
				sp.Amount = a
				sp.Vote = g.w.Pubs[g.r.Intn(len(g.w.Pubs))][:]
			}
		}
		rest -= a
		specs = append(specs, sp)
	}
	return cl.NewTx(outs, specs, timeRange)
}

// randomTxs picks valid transactions for a block at height h on a branch in state st.
func (g *gen) randomTxs(st *bstate, h uint64, max int) []*types.Tx {
	var txs []*types.Tx
	tmp := st.clone()
	n := g.r.Intn(max + 1)
	for i := 0; i < n; i++ {
		var cand []outRef
		for _, o := range tmp.avail {
			if spendable(o, h) && o.out.Amount() > fee+3000000 {
				cand = append(cand, o)
			}
		}
		if len(cand) == 0 {
			break
		}
		ins := []outRef{cand[g.r.Intn(len(cand))]}
		if len(cand) > 2 && g.r.Chance(25) {
			o2 := cand[g.r.Intn(len(cand))]
			if o2.out.ID() != ins[0].out.ID() {
				ins = append(ins, o2)
			}
		}
		tr := uint64(0)
		if g.r.Chance(15) {
			tr = h + uint64(g.r.Intn(3))
		}
		tx := g.mkTx(ins, 1+g.r.Intn(3), g.r.Chance(30), tr)
		txs = append(txs, tx)
		applyTx(tmp, tx, h, false)
	}
	return txs
}

func (g *gen) finish(parent *node, bi *cl.BlockInfo) *node {
	st := parent.st.clone()
	h := parent.bi.Block.Height + 1
	for i, tx := range bi.Block.Transactions {
		applyTx(st, tx, h, i == 0)
	}
	parent.skip++
	return g.add(parent, bi, st)
}

// validBlock extends parent by a valid block with random transactions.
func (g *gen) validBlock(parent *node, maxTx int) *node {
	h := parent.bi.Block.Height + 1
	var txs []*types.Tx
	if h == trunkLen+1 {
		// first body block: split the first matured reward into normal outputs and a vote output
		for _, o := range parent.st.avail {
			if spendable(o, h) && o.kind == 1 {
				txs = append(txs, g.mkTx([]outRef{o}, 4, true, 0))
				break
			}
		}
	} else {
		txs = g.randomTxs(parent.st, h, maxTx)
	}
	return g.finish(parent, g.w.NewBlock(parent.bi, txs, cl.BlockOpt{Skip: parent.skip}))
}

func (g *gen) resign(b *types.Block, key int) {
	b.BlockWitness = g.w.Keys[key].Sign(b.Hash().Bytes())
}

var kinds = []string{
	"version", "height-plus", "height-minus", "prev-grand", "prev-unknown", "time-low", "time-before-parent", "time-high", "time-future-ok",
	"bad-signer", "sig-garbage", "wrong-slot", "merkle-random", "merkle-swap",
	"tx-unbalanced", "tx-timerange", "tx-timerange-ok", "cb-extra-out", "cb-nonzero", "cb-two-inputs", "no-coinbase", "empty-block",
	"reward-plus", "reward-minus", "reward-missing", "reward-wrongprog", "reward-split-ok",
	"spend-missing", "spend-spent", "spend-immature", "spend-locked", "inblock-double", "dup-tx", "gas-over", "none",
	"spend-immature-edge", "spend-mature-edge-ok", "spend-locked-edge", "veto-edge-ok",
	"reward-extra-zero-foreign", "reward-extra-zero-same-ok",
}

// scripted scenarios (built by their own functions, run in every tier)
var scripted = []string{"reorg-double", "reorg-double-created", "cb-extra-zero-h1"}
var scriptedGas = []string{"gas-exact-ok", "gas-over-last"}

var spendKinds = map[string]bool{"spend-missing": true, "spend-spent": true, "spend-immature": true, "spend-locked": true, "inblock-double": true, "dup-tx": true,
	"spend-immature-edge": true, "spend-locked-edge": true}
var validKinds = map[string]bool{"time-future-ok": true, "tx-timerange-ok": true, "reward-split-ok": true, "none": true,
	"spend-mature-edge-ok": true, "veto-edge-ok": true, "reward-extra-zero-same-ok": true}

func pickSpendable(g *gen, st *bstate, h uint64) (outRef, bool) {
	var cand []outRef
	for _, o := range st.avail {
		if spendable(o, h) && o.out.Amount() > fee+3000000 {
			cand = append(cand, o)
		}
	}
	if len(cand) == 0 {
		return outRef{}, false
	}
	return cand[g.r.Intn(len(cand))], true
}

// mutantBlock tries to build a block on parent that breaks the rule named by kind; ok=false when the
// prerequisites are not met at this position.
func (g *gen) mutantBlock(parent *node, kind string) (*node, bool) {
	w := g.w
	h := parent.bi.Block.Height + 1
	E := w.Opt.BlocksOfEpoch
	iv := consensus.ActiveNetParams.BlockTimeInterval
	skip := parent.skip
	ts, proposer := w.ProposerSlot(parent.bi, skip)
	txs := g.randomTxs(parent.st, h, 2)
	opt := cl.BlockOpt{Skip: skip}
	switch kind {
	case "none":
	case "version":
		opt.Mutate = func(b *types.Block) { b.Version = 2 }
	case "height-plus":
		opt.Mutate = func(b *types.Block) { b.Height = h + 1 }
	case "height-minus":
		opt.Mutate = func(b *types.Block) { b.Height = h - 1 }
	case "prev-grand":
		if parent.parent == nil {
			return nil, false
		}
		gp := parent.parent.bi.Hash
		opt.Mutate = func(b *types.Block) { b.PreviousBlockHash = gp }
	case "prev-unknown":
		opt.Mutate = func(b *types.Block) { b.PreviousBlockHash = bc.NewHash([32]byte{0xde, 0xad, byte(g.r.Intn(256))}) }
	case "time-low":
		opt.Mutate = func(b *types.Block) { b.Timestamp = parent.bi.Block.Timestamp + iv - 1 - uint64(g.r.Intn(2))*iv }
		opt.MutateAfter = func(b *types.Block) { g.resign(b, (proposer+3)%4) } // the slot before
	case "time-before-parent":
		// strictly earlier than the parent, signed by the validator whose slot that timestamp falls into
		m := g.r.Intn(2)
		opt.Mutate = func(b *types.Block) { b.Timestamp = parent.bi.Block.Timestamp - 1 - uint64(m)*iv }
		opt.MutateAfter = func(b *types.Block) { g.resign(b, (proposer+8-2-m)%4) }
	case "time-high", "time-future-ok":
		round := iv * uint64(len(w.Keys))
		limit := g.now + consensus.ActiveNetParams.MaxTimeOffsetMs
		var target uint64
		if kind == "time-high" {
			target = limit + 3600000
		} else {
			target = limit - 2*3600000
		}
		m := (target - ts) / round
		if kind == "time-high" {
			m++
		}
		opt.Mutate = func(b *types.Block) { b.Timestamp = ts + m*round }
	case "bad-signer":
		opt.BadSigner = true
	case "sig-garbage":
		opt.MutateAfter = func(b *types.Block) { b.BlockWitness[g.r.Intn(len(b.BlockWitness))] ^= 1 << uint(g.r.Intn(8)) }
	case "wrong-slot":
		// the block hash does not cover the witness: a later sibling in the same slot would be the same block
		// (same hash) with a good signature, so the siblings' slots are moved past the mutant's
		d := uint64(1 + g.r.Intn(3))
		opt.Mutate = func(b *types.Block) { b.Timestamp = ts + d*iv }
		defer func() { parent.skip += int(d) }()
	case "merkle-random":
		opt.MutateAfter = func(b *types.Block) {
			b.TransactionsMerkleRoot = bc.NewHash([32]byte{0xbe, 0xef, byte(g.r.Intn(256))})
			g.resign(b, proposer)
		}
	case "merkle-swap":
		o, ok := pickSpendable(g, parent.st, h)
		if !ok {
			return nil, false
		}
		txa := g.mkTx([]outRef{o}, 1, false, 0)
		txb := g.mkTx([]outRef{o}, 2, false, 0)
		txs = []*types.Tx{txa}
		opt.MutateAfter = func(b *types.Block) { b.Transactions[1] = txb }
	case "tx-unbalanced":
		o, ok := pickSpendable(g, parent.st, h)
		if !ok {
			return nil, false
		}
		txs = append(txs[:0:0], cl.NewTx([]cl.Out{o.out}, []cl.OutSpec{{Amount: o.out.Amount() + 1 + uint64(g.r.Intn(1000))}}, 0))
	case "tx-timerange", "tx-timerange-ok":
		o, ok := pickSpendable(g, parent.st, h)
		if !ok {
			return nil, false
		}
		tr := h - 1
		if kind == "tx-timerange-ok" {
			tr = h
		}
		txs = []*types.Tx{g.mkTx([]outRef{o}, 1, false, tr)}
	case "cb-extra-out":
		if h%E == 1 {
			return nil, false
		}
		opt.CoinbaseOuts = []cl.OutSpec{{Amount: 0}, {Amount: 0}}
	case "cb-nonzero":
		if h%E == 1 {
			return nil, false
		}
		opt.CoinbaseOuts = []cl.OutSpec{{Amount: 1 + uint64(g.r.Intn(5))}}
	case "cb-two-inputs":
		// regression (repaired crash): a first transaction with two coinbase inputs
		if h%E == 1 {
			return nil, false
		}
		opt.Mutate = func(b *types.Block) {
			td := types.TxData{Version: 1, Inputs: []*types.TxInput{types.NewCoinbaseInput([]byte{0x00, 0x01}), types.NewCoinbaseInput([]byte{0x00, 0x02})},
				Outputs: []*types.TxOutput{types.NewOriginalTxOutput(*consensus.BTMAssetID, 0, cl.OpTrue, nil)}}
			bs, _ := td.MarshalText()
			td.SerializedSize = uint64(len(bs))
			b.Transactions[0] = types.NewTx(td)
		}
	case "no-coinbase":
		// the first transaction is an ordinary transfer with a single zero-amount output
		if h%E == 1 {
			return nil, false
		}
		o, ok := pickSpendable(g, parent.st, h)
		if !ok {
			return nil, false
		}
		first := cl.NewTx([]cl.Out{o.out}, []cl.OutSpec{{Amount: 0}}, 0)
		txs = nil
		opt.Mutate = func(b *types.Block) { b.Transactions = []*types.Tx{first} }
	case "cb-extra-zero-h1":
		// height 1 is epoch-first with an empty reward table: a zero placeholder at index 0 is skipped, any further
		// output (zero amount, reward or foreign program) makes the table differ
		if h != 1 {
			return nil, false
		}
		extra := cl.OutSpec{Amount: 0}
		if g.r.Bool() {
			extra.Program = []byte{0x52}
		}
		opt.CoinbaseOuts = []cl.OutSpec{{Amount: 0}, extra}
		txs = nil
	case "reward-plus", "reward-minus", "reward-missing", "reward-wrongprog", "reward-split-ok", "reward-extra-zero-foreign", "reward-extra-zero-same-ok":
		if h%E != 1 {
			return nil, false
		}
		amt := parent.bi.EpochRewards[hex.EncodeToString(cl.OpTrue)]
		if len(parent.bi.EpochRewards) != 1 || amt < 10 {
			return nil, false
		}
		switch kind {
		case "reward-plus":
			opt.CoinbaseOuts = []cl.OutSpec{{Amount: amt + 1}}
		case "reward-minus":
			opt.CoinbaseOuts = []cl.OutSpec{{Amount: amt - 1}}
		case "reward-missing":
			opt.CoinbaseOuts = []cl.OutSpec{{Amount: 0}}
		case "reward-wrongprog":
			opt.CoinbaseOuts = []cl.OutSpec{{Amount: 0}, {Amount: amt, Program: []byte{0x52}}}
		case "reward-split-ok":
			a := 1 + uint64(g.r.Intn(int(amt/2)))
			opt.CoinbaseOuts = []cl.OutSpec{{Amount: a}, {Amount: amt - a}}
		case "reward-extra-zero-foreign":
			// the amounts match the table exactly, plus a ZERO output to a program outside the table at index >= 1:
			// only a zero placeholder at index 0 is skipped by checkoutRewardCoinbase
			switch g.r.Intn(3) {
			case 0:
				opt.CoinbaseOuts = []cl.OutSpec{{Amount: amt}, {Amount: 0, Program: []byte{0x52}}}
			case 1:
				opt.CoinbaseOuts = []cl.OutSpec{{Amount: 0}, {Amount: amt}, {Amount: 0, Program: []byte{0x52}}}
			default:
				opt.CoinbaseOuts = []cl.OutSpec{{Amount: 0}, {Amount: 0, Program: []byte{0x53}}, {Amount: amt}}
			}
		case "reward-extra-zero-same-ok":
			// a zero output to a program that IS in the table adds nothing to its sum: accepted
			if g.r.Bool() {
				opt.CoinbaseOuts = []cl.OutSpec{{Amount: amt}, {Amount: 0}}
			} else {
				opt.CoinbaseOuts = []cl.OutSpec{{Amount: 0}, {Amount: amt}, {Amount: 0}}
			}
		}
	case "spend-missing":
		o, ok := pickSpendable(g, parent.st, h)
		if !ok {
			return nil, false
		}
		// the ghost is never included anywhere; no other transaction of this block spends o, because an output id
		// commits only to the spent inputs and the output itself: a twin of the ghost would create the same output
		ghost := g.mkTx([]outRef{o}, 1, false, 0)
		txs = []*types.Tx{g.mkTx([]outRef{{cl.Out{Tx: ghost, Pos: 0}, 0, h}}, 1, false, 0)}
	case "spend-spent":
		var cand []outRef
		for _, o := range parent.st.spent {
			if o.out.Amount() > fee+3000000 {
				cand = append(cand, o)
			}
		}
		if len(cand) == 0 {
			return nil, false
		}
		txs = append(txs, g.mkTx([]outRef{cand[g.r.Intn(len(cand))]}, 1+g.r.Intn(2), false, 0))
	case "spend-immature", "spend-locked":
		want := 1
		if kind == "spend-locked" {
			want = 2
		}
		var cand []outRef
		for _, o := range parent.st.avail {
			if o.kind == want && !spendable(o, h) && o.out.Amount() > fee+3000000 {
				cand = append(cand, o)
			}
		}
		if len(cand) == 0 {
			return nil, false
		}
		txs = append(txs, g.mkTx([]outRef{cand[g.r.Intn(len(cand))]}, 1, false, 0))
	case "spend-immature-edge", "spend-mature-edge-ok", "spend-locked-edge", "veto-edge-ok":
		// a coinbase / vote output exactly one block before, or exactly at, the end of its waiting period
		want, wait, early := 1, consensus.CoinbasePendingBlockNumber, uint64(0)
		if kind == "spend-locked-edge" || kind == "veto-edge-ok" {
			want, wait = 2, consensus.VotePendingBlockNums(h)
		}
		if kind == "spend-immature-edge" || kind == "spend-locked-edge" {
			early = 1
		}
		var cand []outRef
		for _, o := range parent.st.avail {
			if o.kind == want && o.height+wait == h+early && o.out.Amount() > fee+3000000 {
				cand = append(cand, o)
			}
		}
		if len(cand) == 0 {
			return nil, false
		}
		txs = []*types.Tx{g.mkTx([]outRef{cand[g.r.Intn(len(cand))]}, 1+g.r.Intn(2), false, 0)}
	case "inblock-double":
		o, ok := pickSpendable(g, parent.st, h)
		if !ok {
			return nil, false
		}
		txs = []*types.Tx{g.mkTx([]outRef{o}, 1, false, 0), g.mkTx([]outRef{o}, 2, false, 0)}
	case "dup-tx":
		o, ok := pickSpendable(g, parent.st, h)
		if !ok {
			return nil, false
		}
		t := g.mkTx([]outRef{o}, 1, false, 0)
		txs = []*types.Tx{t, t}
	case "gas-over":
		return nil, false // built by gasOver (needs many transactions)
	case "empty-block":
		opt.MutateAfter = nil
	default:
		return nil, false
	}
	var bi *cl.BlockInfo
	if kind == "empty-block" {
		// built by hand: chainlib's bookkeeping needs a first transaction
		good := w.NewBlock(parent.bi, nil, cl.BlockOpt{Skip: skip})
		b := cl.CloneBlock(good.Block)
		b.Transactions = nil
		root, err := types.TxMerkleRoot(nil)
		if err != nil {
			return nil, false
		}
		b.TransactionsMerkleRoot = root
		g.resign(b, proposer)
		bi = &cl.BlockInfo{Block: b, Hash: b.Hash(), Parent: parent.bi, CkTimestamp: good.CkTimestamp, EpochRewards: good.EpochRewards,
			PrevRewards: good.PrevRewards, Votes: good.Votes, Proposer: proposer}
		w.Blocks[bi.Hash] = bi
	} else {
		bi = w.NewBlock(parent.bi, txs, opt)
	}
	n := g.finish(parent, bi)
	n.mutant = true
	g.valid = validKinds[kind]
	g.spendBad = spendKinds[kind]
	if !g.valid {
		n.broken = true
	}
	g.mutant = n
	g.kind = kind
	return n, true
}

// best unbroken node by (height, hash string)
func (g *gen) preferred() *node {
	var best *node
	for _, n := range g.nodes {
		if n.broken {
			continue
		}
		if best == nil || n.bi.Block.Height > best.bi.Block.Height ||
			(n.bi.Block.Height == best.bi.Block.Height && n.bi.Hash.String() > best.bi.Hash.String()) {
			best = n
		}
	}
	return best
}

// scenario builds the block tree of a case; the delivery order is the creation order (labels).
func buildScenario(w *cl.World, trunk []*cl.BlockInfo, c *Case, now uint64) *gen {
	g := &gen{w: w, r: NewRng(c.Seed), now: now}
	st := &bstate{}
	root := g.add(nil, w.Genesis, st)
	cur := root
	for _, bi := range trunk {
		s := cur.st.clone()
		for i, tx := range bi.Block.Transactions {
			applyTx(s, tx, bi.Block.Height, i == 0)
		}
		cur.skip = 1
		cur = g.add(cur, bi, s)
	}
	if c.Kind == "relock" {
		g.relock(cur)
		return g
	}
	if c.Kind == "stuck" {
		g.stuck(cur)
		return g
	}
	switch c.Kind {
	case "reorg-double", "reorg-double-created":
		g.reorgDouble(cur, c.Kind == "reorg-double-created")
		return g
	case "cb-extra-zero-h1":
		first := g.validBlock(cur, 0)
		second := g.validBlock(first, 2)
		g.mutantBlock(g.nodes[0], c.Kind)
		g.validBlock(g.validBlock(second, 2), 2)
		return g
	case "gas-exact-ok", "gas-over-last":
		g.gasScenario(cur, c.Kind == "gas-over-last")
		return g
	}
	kind := c.Kind
	if kind == "" {
		kind = kinds[g.r.Intn(len(kinds))]
	}
	if kind == "gas-over" || (kind == "no-coinbase" && c.Kind == "") {
		kind = "version" // gas-over is not reachable with a handful of transactions (MaxBlockGas is a constant)
	}
	steps := 6 + g.r.Intn(7)
	at := 1 + g.r.Intn(steps-2)
	if strings.HasPrefix(kind, "reward-") || strings.Contains(kind, "-edge") {
		at = 0 // heights 17, 21, 25 are epoch-first; the waiting periods end at fixed heights: try from the start
	}
	onFork := c.Fork == 1 || (c.Fork == 2 && g.r.Chance(40))
	for i := 0; i < steps; i++ {
		pref := g.preferred()
		if g.mutant == nil && i >= at {
			parent := pref
			if onFork && pref.parent != nil && pref.label > trunkLen {
				// fork below the preferred tip: the mutant starts a side branch
				parent = pref.parent
				if g.r.Chance(30) && parent.parent != nil && parent.label > trunkLen {
					parent = parent.parent
				}
			}
			if _, ok := g.mutantBlock(parent, kind); ok {
				continue
			}
			if i >= steps-3 {
				// prerequisites never met: fall back to a kind that always applies
				kind = []string{"version", "bad-signer", "spend-missing", "time-low"}[g.r.Intn(4)]
			}
		}
		var parent *node
		switch x := g.r.Intn(100); {
		case g.mutant != nil && x < 25:
			// build on the mutant or one of its descendants
			var ds []*node
			for _, n := range g.nodes {
				if n.broken || n == g.mutant {
					ds = append(ds, n)
				}
			}
			parent = ds[g.r.Intn(len(ds))]
		case x < 45 && pref.label > trunkLen:
			// fork from an earlier unbroken body block
			var cs []*node
			for _, n := range g.nodes[trunkLen:] {
				if !n.broken && n.bi.Block.Height+3 > pref.bi.Block.Height {
					cs = append(cs, n)
				}
			}
			parent = cs[g.r.Intn(len(cs))]
		default:
			parent = pref
		}
		g.validBlock(parent, 3)
	}
	if g.mutant == nil {
		g.kind, g.valid = "none", true
	}
	return g
}

// relock: a vote output is created in block V; branch X vetoes it after the lock (legal); branch Y forks at V and
// vetoes it at once (still locked: the mutant) and then outgrows X.
func (g *gen) relock(tip *node) {
	first := g.validBlock(tip, 0) // h17: split with a vote output
	var vote outRef
	for _, o := range first.st.avail {
		if o.kind == 2 {
			vote = o
		}
	}
	x := first
	for i := 0; i < 2; i++ {
		x = g.finish(x, g.w.NewBlock(x.bi, nil, cl.BlockOpt{Skip: x.skip}))
	}
	veto := g.mkTx([]outRef{vote}, 1, false, 0)
	x = g.finish(x, g.w.NewBlock(x.bi, []*types.Tx{veto}, cl.BlockOpt{Skip: x.skip})) // h20: 17+3 <= 20
	early := g.mkTx([]outRef{vote}, 2, false, 0)
	y := g.finish(first, g.w.NewBlock(first.bi, []*types.Tx{early}, cl.BlockOpt{Skip: first.skip})) // h18: locked
	y.mutant, y.broken = true, true
	g.mutant, g.kind, g.spendBad = y, "relock", true
	for i := 0; i < 3; i++ {
		y = g.validBlock(y, 0)
	}
}

// stuck: a block with a bad spend on top of best is stored; a valid sibling with a smaller hash string follows.
func (g *gen) stuck(tip *node) {
	first := g.validBlock(tip, 0)
	second := g.validBlock(first, 1)
	g.mutantBlock(second, "spend-missing")
	for i := 0; i < 3; i++ {
		g.validBlock(second, 1)
	}
	n := g.validBlock(g.preferred(), 1)
	g.validBlock(n, 1)
}

func (g *gen) plain(parent *node, txs []*types.Tx) *node {
	return g.finish(parent, g.w.NewBlock(parent.bi, txs, cl.BlockOpt{Skip: parent.skip}))
}

// reorgDouble: a cross-block double spend whose two blocks are attached by ONE reorganisation.  The main branch
// M1,M2(,M3) is delivered first; the side branch A1 (spends X), A2 (spends X again) - or, with created=true,
// A1 (turns X into Y), A2 (spends Y), A3 (spends Y again) - is stored block by block and then overtakes the main
// branch, so that reorganizeChain attaches the whole side branch in one call.
func (g *gen) reorgDouble(tip *node, created bool) {
	first := g.validBlock(tip, 0) // h17: split
	var x outRef
	for _, o := range first.st.avail {
		if o.kind == 0 && o.out.Amount() > 4*fee+8000000 {
			x = o
		}
	}
	m := first
	nmain := 2
	if created {
		nmain = 3
	}
	for i := 0; i < nmain; i++ {
		m = g.plain(m, nil)
	}
	t1 := g.mkTx([]outRef{x}, 2, false, 0)
	a := g.plain(first, []*types.Tx{t1})
	spentTwice := x
	if created {
		y := outRef{cl.Out{Tx: t1, Pos: 0}, 0, a.bi.Block.Height}
		a = g.plain(a, []*types.Tx{g.mkTx([]outRef{y}, 1, false, 0)})
		spentTwice = y
	}
	bad := g.plain(a, []*types.Tx{g.mkTx([]outRef{spentTwice}, 2, false, 0)})
	bad.mutant, bad.broken = true, true
	g.mutant, g.kind, g.spendBad = bad, "reorg-double", true
	if created {
		g.kind = "reorg-double-created"
	}
	g.validBlock(bad, 0) // a descendant of the broken block: higher than the main branch
	// the valid branch goes on
	m = g.validBlock(m, 1)
	m = g.validBlock(m, 1)
	g.validBlock(m, 1)
}

// ---- block gas limit: ~35 transactions burning ~290k gas each

// burner: OP_1 followed by n OP_SHA3 and q OP_NOP - anyone can spend it, at the price of ~64 gas per SHA3
func burner(n, q int) []byte {
	p := []byte{0x51}
	for i := 0; i < n; i++ {
		p = append(p, 0xaa)
	}
	for i := 0; i < q; i++ {
		p = append(p, 0x61)
	}
	return p
}

const heavyN = 4300

func padProg(p int) []byte { return burner(0, p) }

// gasOf measures a transaction as a node sees it: after the wire round trip (SerializedSize, which the storage gas
// is charged on, is the decoded byte length there; chainlib sets it to the length of the hex text when building).
func gasOf(tx *types.Tx) int64 {
	bs, err := tx.MarshalText()
	if err != nil {
		return -1
	}
	rt := &types.Tx{}
	if err := rt.UnmarshalText(bs); err != nil {
		return -1
	}
	tx = rt
	gs, err := validation.ValidateTx(tx.Tx, &bc.Block{BlockHeader: &bc.BlockHeader{Version: 1, Height: 1}}, func(p []byte) ([]byte, error) { return p, nil })
	if err != nil {
		return -1
	}
	return gs.GasUsed
}

func burnTx(in cl.Out, pad int) *types.Tx {
	return cl.NewTx([]cl.Out{in}, []cl.OutSpec{{Amount: 1000000, Program: padProg(pad)}}, 0)
}

// tune finds a burner program (m SHA3, q NOP) and an output padding p such that the transaction spending an output
// of amount each under that program uses exactly target gas (measured with the real validation.ValidateTx).
func tune(src cl.Out, each uint64, target int64) (m, q, p int, ok bool) {
	measure := func(m, q, p int) int64 {
		parent := cl.NewTx([]cl.Out{src}, []cl.OutSpec{{Amount: each, Program: burner(m, q)}}, 0)
		return gasOf(burnTx(cl.Out{Tx: parent, Pos: 0}, p))
	}
	for m = int(target/64) + 4; m > 0; m-- {
		g0 := measure(m, 0, 0)
		if g0 < 0 || g0 > target {
			continue
		}
		diff := int(target - g0)
		if diff > 400 {
			return 0, 0, 0, false
		}
		// a NOP in the spent program costs about 2 (one step, one byte), a byte of output program about 1;
		// length prefixes may add a byte here and there, so the neighbourhood is searched and every candidate measured
		for q = 0; q <= 2; q++ {
			for p = diff - 2*q - 3; p <= diff-2*q+1; p++ {
				if p >= 0 && measure(m, q, p) == target {
					return m, q, p, true
				}
			}
		}
	}
	return 0, 0, 0, false
}

// gasScenario: empty blocks up to height 23 (three rewards mature), a funding block (each reward becomes 17 outputs
// under the heavy burner program, one of them under a tuned program), then the block under test: K heavy
// transactions and LAST the tuned one, so that the gas of the block's transactions sums to MaxBlockGas exactly
// (valid) or exceeds it by one, through the last transaction only (over = true: invalid).
func (g *gen) gasScenario(tip *node, over bool) {
	const each, ffee = 62000000, 60000000
	x := tip
	for x.bi.Block.Height < 23 {
		x = g.plain(x, nil)
	}
	h := x.bi.Block.Height + 1
	var rich []cl.Out
	for _, o := range x.st.avail {
		if o.kind == 1 && spendable(o, h) && o.out.Amount() > ffee+10*each {
			rich = append(rich, o.out)
		}
	}
	g.kind, g.valid = "none", true
	if len(rich) < 3 {
		return
	}
	dummy := cl.NewTx([]cl.Out{rich[0]}, []cl.OutSpec{{Amount: each, Program: burner(heavyN, 0)}}, 0)
	gh := gasOf(burnTx(cl.Out{Tx: dummy, Pos: 0}, 0))
	if gh <= 0 {
		return
	}
	k := int(int64(consensus.MaxBlockGas) / gh)
	target := int64(consensus.MaxBlockGas) - int64(k)*gh
	if over {
		target++
	}
	if target < 3000 { // too small for any transaction: take one heavy transaction less
		k--
		target += gh
	}
	tm, tq, tp, ok := tune(rich[0], each, target)
	if !ok {
		return
	}
	var funds []*types.Tx
	var heavy []cl.Out
	var tuned cl.Out
	for f, in := range rich {
		n := int((in.Amount() - ffee - 1000) / each)
		var specs []cl.OutSpec
		for i := 0; i < n; i++ {
			prog := burner(heavyN, 0)
			if f == 0 && i == 0 {
				prog = burner(tm, tq)
			}
			specs = append(specs, cl.OutSpec{Amount: each, Program: prog})
		}
		specs = append(specs, cl.OutSpec{Amount: in.Amount() - ffee - uint64(n)*each})
		tx := cl.NewTx([]cl.Out{in}, specs, 0)
		funds = append(funds, tx)
		for i := 0; i < n; i++ {
			if f == 0 && i == 0 {
				tuned = cl.Out{Tx: tx, Pos: 0}
			} else {
				heavy = append(heavy, cl.Out{Tx: tx, Pos: i})
			}
		}
	}
	if len(heavy) < k {
		return
	}
	fund := g.plain(x, funds)
	var txs []*types.Tx
	for i := 0; i < k; i++ {
		txs = append(txs, burnTx(heavy[i], 0))
	}
	txs = append(txs, burnTx(tuned, tp))
	m := g.plain(fund, txs)
	m.mutant = true
	g.mutant, g.kind, g.valid, g.spendBad = m, "gas-exact-ok", true, false
	if over {
		m.broken = true
		g.kind, g.valid = "gas-over-last", false
	}
	// valid blocks beside it and beyond
	s := g.validBlock(fund, 1)
	g.validBlock(s, 1)
}

type labeler struct {
	m map[string]int
}

func (l *labeler) get(k string) int {
	if v, ok := l.m[k]; ok {
		return v
	}
	v := len(l.m) + 1
	l.m[k] = v
	return v
}

func errClass(err error) int {
	switch {
	case err == nil:
		return 0
	case errors.Root(err) == protocol.ErrBadBlock:
		return 1
	}
	return 2
}

func describe(g *gen) []MBlock {
	w := g.w
	outs, txl, progs := &labeler{map[string]int{}}, &labeler{map[string]int{}}, &labeler{map[string]int{}}
	blockLabel := map[bc.Hash]int{}
	for _, n := range g.nodes {
		blockLabel[n.bi.Hash] = n.label
	}
	var hs []string
	for _, n := range g.nodes {
		hs = append(hs, n.bi.Hash.String())
	}
	sort.Strings(hs)
	rank := map[string]int{}
	for i, h := range hs {
		rank[h] = i + 1
	}
	conv := func(p []byte) ([]byte, error) { return p, nil }
	// merkle roots of the transaction lists seen (a root commits to its list)
	rootOf := map[bc.Hash][]int{}
	idsOf := func(txs []*types.Tx) []int {
		var ids []int
		for _, tx := range txs {
			ids = append(ids, txl.get(tx.ID.String()))
		}
		return ids
	}
	var res []MBlock
	for _, n := range g.nodes {
		b := n.bi.Block
		mb := MBlock{Label: n.label, Height: b.Height, Version: b.Version, Time: b.Timestamp, Rank: rank[n.bi.Hash.String()],
			Broken: n.broken, Mutant: n.mutant, Parent: 9999}
		if n.label == 0 {
			mb.Parent = 9998
		} else if l, ok := blockLabel[b.PreviousBlockHash]; ok {
			mb.Parent = l
		}
		if n.mutant {
			mb.SpendBad = g.spendBad
		}
		hash := b.Hash()
		for k := range w.Pubs {
			if w.Pubs[k].Verify(hash.Bytes(), b.BlockWitness) {
				mb.Sig = k + 1
			}
		}
		// gas as the node computes it: on the block after the wire round trip (see gasOf)
		bcb := types.MapBlock(cl.CloneBlock(b))
		for i, tx := range b.Transactions {
			mt := MTx{ID: txl.get(tx.ID.String()), Gas: -1, Spends: [][2]int{}, Outs: [][2]int{}}
			if gs, err := validation.ValidateTx(bcb.Transactions[i], bcb, conv); err == nil {
				mt.Gas = gs.GasUsed
			}
			for _, id := range tx.Tx.SpentOutputIDs {
				t := 0
				if _, ok := tx.Tx.Entries[id].(*bc.VoteOutput); ok {
					t = 2
				}
				mt.Spends = append(mt.Spends, [2]int{outs.get(id.String()), t})
			}
			for _, id := range tx.Tx.ResultIds {
				switch e := tx.Tx.Entries[*id].(type) {
				case *bc.OriginalOutput:
					if e.Source.Value.Amount != 0 {
						mt.Outs = append(mt.Outs, [2]int{outs.get(id.String()), 0})
					}
				case *bc.VoteOutput:
					if e.Source.Value.Amount != 0 {
						mt.Outs = append(mt.Outs, [2]int{outs.get(id.String()), 2})
					}
				}
			}
			mb.Txs = append(mb.Txs, mt)
		}
		if mb.Txs == nil {
			mb.Txs = []MTx{}
		}
		mb.Cb = [][3]uint64{}
		if len(b.Transactions) > 0 {
			for _, o := range b.Transactions[0].Outputs {
				ok := uint64(0)
				if o.OutputType() == types.OriginalOutputType && *o.AssetId == *consensus.BTMAssetID {
					ok = 1
				}
				mb.Cb = append(mb.Cb, [3]uint64{uint64(progs.get(hex.EncodeToString(o.ControlProgram))), o.Amount, ok})
			}
			// reward of this block from the harness's bookkeeping: growth of the epoch table entry of the block's program
			rp := hex.EncodeToString(b.Transactions[0].Outputs[0].ControlProgram)
			mb.Reward = n.bi.EpochRewards[rp]
			if n.parent != nil && n.parent.bi.Block.Height%w.Opt.BlocksOfEpoch != 0 {
				mb.Reward -= n.parent.bi.EpochRewards[rp]
			}
		}
		var bt []*bc.Tx
		for _, tx := range b.Transactions {
			bt = append(bt, tx.Tx)
		}
		if actual, err := types.TxMerkleRoot(bt); err == nil {
			rootOf[actual] = idsOf(b.Transactions)
		}
		res = append(res, mb)
	}
	// committed roots: the list it was computed over when known (own list, or the list before a swap)
	for i, n := range g.nodes {
		b := n.bi.Block
		if ids, ok := rootOf[b.TransactionsMerkleRoot]; ok {
			res[i].Root = ids
		} else if n.mutant && g.kind == "merkle-swap" {
			res[i].Root = []int{res[i].Txs[0].ID, 99999}
		} else {
			res[i].Root = []int{0}
		}
		if res[i].Root == nil {
			res[i].Root = []int{}
		}
	}
	return res
}

func runCase(w *cl.World, trunk []*cl.BlockInfo, c *Case, base string) (*Result, error) {
	now := uint64(time.Now().UnixNano() / 1e6)
	g := buildScenario(w, trunk, c, now)
	dir := filepath.Join(base, fmt.Sprintf("node_%d", c.ID))
	os.RemoveAll(dir)
	n, err := cl.NewNode(dir)
	if err != nil {
		return nil, err
	}
	r := &Result{ID: c.ID, Kind: g.kind, Valid: g.valid, Now: now, Mutant: -1, Relock: c.Kind == "relock"}
	if g.mutant != nil {
		r.Mutant = g.mutant.label
	}
	label := map[bc.Hash]int{}
	for _, x := range g.nodes {
		if _, dup := label[x.bi.Hash]; dup {
			// two generated blocks share a hash (it does not cover the witness): not a history of distinct blocks
			r.Note = "hash-collision"
			return r, nil
		}
		label[x.bi.Hash] = x.label
	}
	r.Blocks = describe(g)
	deliver := func(x *node) {
		orphan, err := n.Process(x.bi.Block)
		bh := n.Chain.BestBlockHeader().Hash()
		st := Step{Block: x.label, Orphan: orphan, Err: errClass(err), Best: -1}
		if l, ok := label[bh]; ok {
			st.Best = l
		}
		if g.mutant != nil {
			st.MutIn = n.Chain.InMainChain(g.mutant.bi.Hash)
		}
		r.Steps = append(r.Steps, st)
	}
	rr := NewRng(c.Seed ^ 0x5bd1e995)
	for _, x := range g.nodes[1:] {
		deliver(x)
		// now and then a block is delivered again (the mutant more often)
		if x.label > trunkLen && (rr.Chance(6) || (x.mutant && rr.Chance(30))) && r.Blocks[x.label].Parent != 9999 {
			deliver(x)
		}
	}
	if g.mutant != nil && rr.Chance(25) && r.Blocks[g.mutant.label].Parent != 9999 {
		deliver(g.mutant)
	}
	for _, x := range g.nodes {
		r.InMain = append(r.InMain, n.Chain.InMainChain(x.bi.Hash))
	}
	return r, nil
}

// child batch <file> <scratch dir>: prints "BEGIN <id>" before and one JSON result line after every case.
func childBatch(args []string) int {
	if len(args) != 2 {
		return 2
	}
	base := args[1]
	raw, err := os.ReadFile(args[0])
	if err != nil {
		fmt.Fprintln(os.Stderr, err)
		return 2
	}
	var cases []*Case
	if err := json.Unmarshal(raw, &cases); err != nil {
		fmt.Fprintln(os.Stderr, err)
		return 2
	}
	// a two-range vote-lock schedule: 3 blocks below height 22, 5 blocks from there on; the lock that
	// applies is the one in force at the height of the SPENDING block (state.applySpendUtxo)
	opts := cl.DefaultOptions()
	opts.VotePendingSwitch, opts.VotePendingLate = 22, 5
	w := cl.Init(opts)
	trunk := w.Trunk(w.Genesis, trunkLen)
	out := bufio.NewWriter(os.Stdout)
	for _, c := range cases {
		fmt.Fprintf(out, "BEGIN %d\n", c.ID)
		out.Flush()
		r, err := runCase(w, trunk, c, base)
		if err != nil {
			fmt.Fprintln(os.Stderr, "harness child error:", err)
			return 3
		}
		js, _ := json.Marshal(r)
		out.Write(js)
		out.WriteString("\n")
		out.Flush()
	}
	return 0
}

// ---------------------------------------------------------------- parent: dispatch to children

func jobs() int {
	if v, err := strconv.Atoi(os.Getenv("VERIF_JOBS")); err == nil && v > 0 {
		if v > 12 {
			v = 12
		}
		return v
	}
	return 6
}

func runChunk(dir string, k int, cases []*Case, res map[int]*Result, mu *sync.Mutex) error {
	for len(cases) > 0 {
		f := filepath.Join(dir, fmt.Sprintf("chunk_%d.json", k))
		js, _ := json.Marshal(cases)
		if err := os.WriteFile(f, js, 0644); err != nil {
			return err
		}
		base := filepath.Join(dir, fmt.Sprintf("nodes_%d_%d", k, len(cases)))
		cmd := exec.Command(os.Args[0], "child", "batch", f, base)
		var stderr bytes.Buffer
		cmd.Stderr = &stderr
		stdout, err := cmd.StdoutPipe()
		if err != nil {
			return err
		}
		if err := cmd.Start(); err != nil {
			return err
		}
		lines := make(chan string, 16)
		go func() {
			sc := bufio.NewScanner(stdout)
			sc.Buffer(make([]byte, 1<<20), 1<<26)
			for sc.Scan() {
				lines <- sc.Text()
			}
			close(lines)
		}()
		current, done, hang := -1, 0, false
	loop:
		for {
			select {
			case l, ok := <-lines:
				if !ok {
					break loop
				}
				if strings.HasPrefix(l, "BEGIN ") {
					current, _ = strconv.Atoi(l[6:])
					continue
				}
				r := &Result{}
				if err := json.Unmarshal([]byte(l), r); err != nil {
					cmd.Process.Kill()
					cmd.Wait()
					return fmt.Errorf("unparseable child output %q", tail(l, 300))
				}
				mu.Lock()
				res[r.ID] = r
				mu.Unlock()
				done++
				current = -1
			case <-time.After(180 * time.Second):
				hang = true
				cmd.Process.Kill()
				break loop
			}
		}
		err = cmd.Wait()
		os.RemoveAll(base)
		if err == nil && !hang && done == len(cases) {
			return nil
		}
		if current < 0 || done >= len(cases) || cases[done].ID != current {
			return fmt.Errorf("child failed outside a case: %v: %s", err, tail(stderr.String(), 800))
		}
		if ee, ok := err.(*exec.ExitError); ok && ee.ExitCode() == 3 {
			return fmt.Errorf("child: %s", tail(stderr.String(), 800))
		}
		r := &Result{ID: current, Hang: hang, Mutant: -1}
		if !hang {
			r.Panic = panicHead(stderr.String())
		}
		mu.Lock()
		res[current] = r
		mu.Unlock()
		cases = cases[done+1:]
	}
	return nil
}

func tail(s string, n int) string {
	if len(s) > n {
		return s[len(s)-n:]
	}
	return s
}

func panicHead(trace string) string {
	var keep []string
	for _, l := range strings.Split(trace, "\n") {
		l = strings.TrimSpace(l)
		if strings.HasPrefix(l, "panic:") || strings.HasPrefix(l, "[signal") || strings.HasPrefix(l, "fatal error:") ||
			(strings.HasPrefix(l, "github.com/bytom/bytom/") && len(keep) < 8) {
			if i := strings.Index(l, "(0x"); i > 0 {
				l = l[:i]
			}
			keep = append(keep, l)
		}
	}
	if len(keep) == 0 {
		return "abnormal exit: " + tail(trace, 300)
	}
	return strings.Join(keep, " | ")
}

func runAll(cases []*Case) (map[int]*Result, error) {
	tmp := ""
	if st, err := os.Stat("/dev/shm"); err == nil && st.IsDir() {
		tmp = "/dev/shm"
	}
	dir, err := os.MkdirTemp(tmp, "c13-run-")
	if err != nil {
		return nil, err
	}
	defer os.RemoveAll(dir)
	res := map[int]*Result{}
	var mu sync.Mutex
	var chunks [][]*Case
	per := 25
	for lo := 0; lo < len(cases); lo += per {
		hi := lo + per
		if hi > len(cases) {
			hi = len(cases)
		}
		chunks = append(chunks, cases[lo:hi])
	}
	ch := make(chan int)
	errs := make(chan error, len(chunks)+1)
	var wg sync.WaitGroup
	for wk := 0; wk < jobs(); wk++ {
		wg.Add(1)
		go func() {
			defer wg.Done()
			for k := range ch {
				if err := runChunk(dir, k, chunks[k], res, &mu); err != nil {
					errs <- err
				}
			}
		}()
	}
	for k := range chunks {
		ch <- k
	}
	close(ch)
	wg.Wait()
	select {
	case err := <-errs:
		return nil, err
	default:
	}
	return res, nil
}

// ---------------------------------------------------------------- oracle (implementation outputs only)

func outranks(a, b *MBlock) bool {
	return a.Height > b.Height || (a.Height == b.Height && a.Rank > b.Rank)
}

func oracle(r *Result) []string {
	var fails []string
	if r.Panic != "" {
		return []string{"class=crash: the node process died while processing the history: " + r.Panic}
	}
	if r.Hang {
		return []string{"class=hang: the node did not answer within the time limit"}
	}
	ancestorOrSelfBroken := func(l int) bool { return l >= 0 && l < len(r.Blocks) && r.Blocks[l].Broken }
	// vote outputs the mutant spends while they are locked
	lockedOuts := map[int]bool{}
	if r.Mutant >= 0 && (r.Kind == "spend-locked" || r.Kind == "spend-locked-edge" || r.Kind == "relock") {
		for _, t := range r.Blocks[r.Mutant].Txs {
			for _, sp := range t.Spends {
				if sp[1] == 2 {
					lockedOuts[sp[0]] = true
				}
			}
		}
	}
	// vetoSeen: some earlier main chain (ancestors of the best block) held ANOTHER block spending one of them,
	// i.e. a reorganisation has detached a veto of that output (the C10 height loss then forgets its lock)
	vetoSeen := false
	noteMain := func(best int) {
		for l, n := best, 0; l > 0 && l < len(r.Blocks) && n < len(r.Blocks); l, n = r.Blocks[l].Parent, n+1 {
			if l == r.Mutant {
				continue
			}
			for _, t := range r.Blocks[l].Txs {
				for _, sp := range t.Spends {
					if lockedOuts[sp[0]] {
						vetoSeen = true
					}
				}
			}
		}
	}
	connectedClass := func() string {
		if vetoSeen {
			return "class=locked-vote-spend-connected-after-reorg"
		}
		return "class=invalid-block-connected"
	}
	delivered := map[int]bool{0: true}
	stuckSeen := false
	for i, s := range r.Steps {
		b := &r.Blocks[s.Block]
		delivered[s.Block] = true
		if ancestorOrSelfBroken(s.Best) || s.Best < 0 {
			cls := connectedClass()
			fails = append(fails, fmt.Sprintf("%s: after delivery %d (block %d) the best block is %d, which is or descends from the block broken by mutation %q (label %d)", cls, i, s.Block, s.Best, r.Kind, r.Mutant))
			break
		}
		if r.Mutant >= 0 && !r.Valid && s.MutIn {
			cls := connectedClass()
			fails = append(fails, fmt.Sprintf("%s: after delivery %d InMainChain reports the block broken by mutation %q (label %d)", cls, i, r.Kind, r.Mutant))
			break
		}
		noteMain(s.Best)
		if !b.Broken {
			if s.Err == 1 {
				fails = append(fails, fmt.Sprintf("class=valid-block-rejected: delivery %d: unbroken block %d (case kind %q) is rejected as a bad block", i, s.Block, r.Kind))
				break
			}
			if s.Orphan {
				fails = append(fails, fmt.Sprintf("class=valid-block-rejected: delivery %d: unbroken block %d is treated as an orphan although its parent was delivered", i, s.Block))
				break
			}
			// valid blocks are accepted: an unbroken block that outranks every other unbroken delivered block becomes best
			top := true
			for l := range delivered {
				if l != s.Block && !r.Blocks[l].Broken && outranks(&r.Blocks[l], b) {
					top = false
				}
			}
			if top && s.Best != s.Block && !stuckSeen {
				// is a stored broken block (one that passed saveBlock: a spend-rule violation or a descendant) ahead of it?
				behind := false
				for l := range delivered {
					if r.Blocks[l].Broken && outranks(&r.Blocks[l], b) && r.Mutant >= 0 && r.Blocks[r.Mutant].SpendBad {
						behind = true
					}
				}
				if behind {
					fails = append(fails, fmt.Sprintf("class=stuck-behind-bad-spend: delivery %d: valid block %d extends the valid chain and outranks every other valid block but is not connected (error class %d, best stays %d): a stored block with an invalid spend (mutation %q, label %d, or a descendant) outranks it and the reorganisation towards it fails", i, s.Block, s.Err, s.Best, r.Kind, r.Mutant))
				} else {
					fails = append(fails, fmt.Sprintf("class=valid-block-not-connected: delivery %d: valid block %d outranks every other valid block but is not connected (error class %d, best %d, case kind %q)", i, s.Block, s.Err, s.Best, r.Kind))
				}
				stuckSeen = true
			}
		}
	}
	if len(r.InMain) == len(r.Blocks) {
		for l := range r.Blocks {
			if r.Blocks[l].Broken && r.InMain[l] && len(fails) == 0 {
				fails = append(fails, fmt.Sprintf("class=invalid-block-connected: at the end InMainChain reports block %d, which is or descends from the block broken by mutation %q", l, r.Kind))
			}
		}
	}
	return fails
}

// ---------------------------------------------------------------- Coq expressions

func coqPairs(ps [][2]int) string {
	var it []string
	for _, p := range ps {
		it = append(it, fmt.Sprintf("(%d,%d)", p[0], p[1]))
	}
	return CoqList(it)
}

func coqInts(xs []int) string {
	var it []string
	for _, x := range xs {
		it = append(it, fmt.Sprint(x))
	}
	return CoqList(it)
}

func modelExpr(r *Result) string {
	var bs []string
	for _, b := range r.Blocks {
		var txs []string
		for _, t := range b.Txs {
			gas := "None"
			if t.Gas >= 0 {
				gas = fmt.Sprintf("(Some %d)", t.Gas)
			}
			txs = append(txs, fmt.Sprintf("T %d %s %s %s", t.ID, coqPairs(t.Spends), coqPairs(t.Outs), gas))
		}
		var cb []string
		for _, c := range b.Cb {
			cb = append(cb, fmt.Sprintf("(%d,%d,%d)", c[0], c[1], c[2]))
		}
		bs = append(bs, fmt.Sprintf("B %d %d %d %d %d %d %s %s %s %d %d", b.Label, b.Parent, b.Height, b.Version, b.Time, b.Sig,
			coqInts(b.Root), CoqList(txs), CoqList(cb), b.Reward, b.Rank))
	}
	var ds []string
	for _, s := range r.Steps {
		ds = append(ds, fmt.Sprint(s.Block))
	}
	return fmt.Sprintf("rc %d %s %s", r.Now, CoqList(bs), CoqList(ds))
}

func observedExpr(r *Result) string {
	if r.Panic != "" || r.Hang {
		return "None"
	}
	var st []string
	for _, s := range r.Steps {
		best := s.Best
		if best < 0 {
			best = 9997
		}
		st = append(st, fmt.Sprintf("(%s,%d,%d)", CoqBool(s.Orphan), s.Err, best))
	}
	var im []string
	for _, b := range r.InMain {
		im = append(im, CoqBool(b))
	}
	return fmt.Sprintf("(Some (%s, %s))", CoqList(st), CoqList(im))
}

// ---------------------------------------------------------------- the run

func runC13(c *Ctx) error {
	var cases []*Case
	add := func(kind string, fork int) {
		cases = append(cases, &Case{ID: len(cases), Seed: c.Rng.Next(), Kind: kind, Fork: fork})
	}
	// regression / scripted scenarios first
	for i := 0; i < c.N(2, 6); i++ {
		add("cb-two-inputs", i%2)
		add("relock", 0)
		add("stuck", 0)
		for _, k := range scripted {
			add(k, 0)
		}
	}
	for i := 0; i < c.N(1, 2); i++ {
		for _, k := range scriptedGas {
			add(k, 0)
		}
	}
	// every mutation kind on the main branch and on a fork
	rounds := c.N(4, 14)
	for k := 0; k < rounds; k++ {
		for _, kind := range kinds {
			if kind == "gas-over" || kind == "no-coinbase" {
				// gas-over: not reachable with a handful of transactions; no-coinbase (first transaction an ordinary
				// transfer with one zero output) is accepted by the code and not named by the property: not judged
				continue
			}
			add(kind, k%2)
		}
	}
	// random stream: the generator picks kind and place
	for i := 0; i < c.N(90, 500); i++ {
		add("", 2)
	}
	res, err := runAll(cases)
	if err != nil {
		return err
	}
	perClass := map[string]int{}
	for _, cs := range cases {
		r := res[cs.ID]
		if r == nil {
			return fmt.Errorf("no result for case %d", cs.ID)
		}
		if r.Note == "hash-collision" {
			c.Stats.Count("dropped_hash_collision")
			continue
		}
		fails := oracle(r)
		desc := map[string]interface{}{"seed": cs.Seed, "kind": cs.Kind, "fork": cs.Fork, "mutation": r.Kind, "mutant": r.Mutant, "steps": r.Steps, "inmain": r.InMain, "panic": r.Panic}
		if len(fails) > 0 {
			desc["blocks"] = r.Blocks
		}
		for _, f := range fails {
			// the stats file keeps 20 failures: at most 2 per class, so that no class is crowded out
			cls := strings.SplitN(f, ":", 2)[0]
			c.Stats.Count("oracle_" + cls)
			if perClass[cls] < 2 {
				perClass[cls]++
				c.Stats.Fail(f, desc)
			}
		}
		if len(fails) > 0 {
			c.Stats.Count("oracle_failed_cases")
		}
		id := c.Cases.Add(modelExpr(r), observedExpr(r))
		c.Stats.Count("model_evaluated")
		c.Stats.Case(fmt.Sprint(cs.Seed, cs.Kind, cs.Fork), r.Mutant >= 0 && !r.Valid)
		c.Stats.Count("kind_" + r.Kind)
		if r.Mutant >= 0 {
			m := r.Blocks[r.Mutant]
			side := "mutant_extends_best"
			// was the mutant's parent the best block when the mutant arrived?
			for i, s := range r.Steps {
				if s.Block == r.Mutant {
					if i > 0 && r.Steps[i-1].Best != m.Parent {
						side = "mutant_on_side_branch"
					}
					c.Stats.Count(fmt.Sprintf("mutant_first_delivery_err_%d_orphan_%v", s.Err, s.Orphan))
					break
				}
			}
			c.Stats.Count(side)
			c.Stats.Count(fmt.Sprintf("mutant_height_%d", m.Height))
		}
		nb, ntx, desc2 := len(r.Blocks), 0, 0
		for _, b := range r.Blocks {
			ntx += len(b.Txs)
			if b.Broken && !b.Mutant {
				desc2++
			}
		}
		c.Stats.Count(fmt.Sprintf("blocks_%d_%d", nb/4*4, nb/4*4+3))
		c.Stats.Count(fmt.Sprintf("txs_in_case_%d_%d", (ntx-nb)/4*4, (ntx-nb)/4*4+3))
		c.Stats.Count(fmt.Sprintf("descendants_of_mutant_%d", desc2))
		reorgFail := false
		for _, s := range r.Steps {
			c.Stats.Count(fmt.Sprintf("step_err_%d_orphan_%v", s.Err, s.Orphan))
			if s.Err == 2 {
				reorgFail = true
			}
		}
		if reorgFail {
			c.Stats.Count("case_with_failed_reorganisation")
		}
		if r.Panic != "" {
			c.Stats.Count("case_panic")
		}
		if len(fails) > 0 || id < 3 || id%c.N(80, 600) == 7 {
			d := map[string]interface{}{"seed": cs.Seed, "kind": cs.Kind, "fork": cs.Fork, "mutation": r.Kind, "mutant": r.Mutant, "steps": r.Steps, "inmain": r.InMain}
			if len(fails) > 0 || id < 3 {
				c.Stats.CaseIndex[fmt.Sprint(id)] = d
			}
			c.Stats.Sample(d)
		}
	}
	c.Stats.Rule = "a case is a history for a fresh real node (LevelDB, child process): 16 empty trunk blocks, then a random tree of 6..12 real signed blocks with transactions (splits, transfers, votes, vetoes, coinbase spends; 4-key federation, epoch length 4, vote lock 3), ONE block mutated to break one consensus rule (header: version, height, parent, timestamp low/high, signer, signature bits, slot; body: merkle root, swapped transaction, invalid transaction, time range, coinbase shape incl. the two-coinbase-input regression, reward amount/program at an epoch-first block; spends: missing, already spent, immature coinbase, locked vote, in-block double spend, duplicate transaction) or kept valid on purpose (far-future timestamp inside the window, time range = height, split reward, none), placed on the preferred branch or on a fork, with valid blocks beside it and on top of it, some blocks delivered twice; scripted: locked-vote spend re-attached after a reorganisation, valid block stuck behind a stored bad-spend block; distinct = distinct (seed, kind, placement); non-trivial = the case contains an invalid block; oracle on implementation outputs only: no crash, the broken block and its descendants never best / InMainChain, unbroken blocks never rejected, an unbroken block outranking all other unbroken blocks becomes best"
	header := "From Coq Require Import ZArith NArith List Bool.\nFrom C13 Require Import Model Run.\nImport ListNotations.\nOpen Scope N_scope.\nDefinition rc := run_case.\nDefinition B := mkB.\nDefinition ty (p : N * N) : N * utype := (fst p, match snd p with 2 => Vote | 1 => Coinbase | _ => Normal end).\nDefinition T i sp ou g := mkT i (map ty sp) (map ty ou) g.\n"
	c.Cases.Shard = c.N(40, 120)
	return c.Cases.Write(c.Out, header, "cres", "cres_eqb")
}
