package main

// C01 — validated transactions conserve value and report the true fee.
//
// Builds real types.TxData values (all input kinds: spend, issuance, veto, coinbase;
// all output kinds: original, vote, retirement), maps them with types.MapTx and runs
// validation.ValidateTx against a mock block.  Every case goes through
//   * the direct oracle: exact per-asset sums with math/big over the TxData alone;
//     if the validator accepted: every non-BTM asset balances, BTM out <= BTM in,
//     GasState.BTMValue == BTM in - BTM out == TxData.Fee(); a coinbase transaction
//     reports fee 0 and creates BTM only; ValidateTx never panics;
//   * the correspondence (a sample of the cases): the same transaction evaluated by the
//     Coq model C01/Model.v (verdict class, BTMValue, Fee()).
// Streams: balanced multisets (mostly valid, boundary totals up to 2^63-1), raw random
// multisets with boundary amounts up to 2^64-1, uint64 wrap-around attacks, single-field
// mutations of accepted transactions, the coinbase family, and a fixed corpus (the
// witness of the open finding coinbase-mixed-fee and the two-coinbase regression).

import (
	"bytes"
	"encoding/json"
	"fmt"
	"io/ioutil"
	"math"
	"math/big"
	"sort"
	"strings"

	"github.com/bytom/bytom/consensus"
	"github.com/bytom/bytom/crypto/sha3pool"
	"github.com/bytom/bytom/errors"
	"github.com/bytom/bytom/protocol/bc"
	"github.com/bytom/bytom/protocol/bc/types"
	"github.com/bytom/bytom/protocol/validation"
	"github.com/bytom/bytom/protocol/vm"
	"verifharness/fraglib"
	. "verifharness/hlib"
)

func main() { Main("C01", runC01, nil) }

// ---- case description (replayable, JSON) -------------------------------------

const (
	kSpend = iota
	kIssue
	kVeto
	kCoinbase
)
const (
	oOrig = iota
	oRetire
	oVote
)

var ikindName = []string{"KSpend", "KIssue", "KVeto", "KCoinbase"}
var okindName = []string{"KOrig", "KRetire", "KVote"}

type inSpec struct {
	Kind   int    `json:"kind"`   // 0 spend, 1 issuance, 2 veto, 3 coinbase
	Asset  int    `json:"asset"`  // 0 = BTM, k>=1 = issuable asset k
	Amount uint64 `json:"amount"` // decimal in JSON
	Src    uint64 `json:"src"`    // seed of the source id / nonce / arbitrary
	Prog   int    `json:"prog"`   // 0 TRUE, 1 TRUE TRUE, 2 FALSE
	Aux    int    `json:"aux"`    // vote length (veto) / arbitrary length (coinbase)
}
type outSpec struct {
	Kind   int    `json:"kind"` // 0 original, 1 retirement, 2 vote
	Asset  int    `json:"asset"`
	Amount uint64 `json:"amount"`
	Aux    int    `json:"aux"` // vote length
}
type caseSpec struct {
	Stream     string    `json:"stream"`
	Version    uint64    `json:"version"`
	SizeMode   int       `json:"size_mode"` // 0 = serialized length (or estimate), 1 = explicit Size
	Size       uint64    `json:"size"`
	TimeRange  uint64    `json:"time_range"`
	BlkVersion uint64    `json:"block_version"`
	BlkHeight  uint64    `json:"block_height"`
	First      bool      `json:"first_in_block"`
	Ins        []inSpec  `json:"inputs"`
	Outs       []outSpec `json:"outputs"`
}

func (s *caseSpec) clone() *caseSpec {
	c := *s
	c.Ins = append([]inSpec{}, s.Ins...)
	c.Outs = append([]outSpec{}, s.Outs...)
	return &c
}

// ---- building the real transaction -------------------------------------------

var progs = [][]byte{{byte(vm.OP_TRUE)}, {byte(vm.OP_TRUE), byte(vm.OP_TRUE)}, {byte(vm.OP_FALSE)}}

const nAssets = 5 // labels 0..4

var assetIDs [nAssets]bc.AssetID

func sha3(b []byte) (h bc.Hash) {
	var x [32]byte
	sha3pool.Sum256(x[:], b)
	return bc.NewHash(x)
}

func initAssets() {
	assetIDs[0] = *consensus.BTMAssetID
	for k := 1; k < nAssets; k++ {
		def := sha3([]byte{byte(k)})
		assetIDs[k] = bc.ComputeAssetID(issuanceProg(k), 1, &def)
	}
}

// the issuance program is part of the asset's identity
func issuanceProg(k int) []byte {
	if k == 4 {
		return progs[1]
	}
	return progs[0]
}

func seedHash(seed uint64) bc.Hash {
	return sha3([]byte(fmt.Sprintf("src-%d", seed)))
}

func fill(n int, seed uint64) []byte {
	b := make([]byte, n)
	for i := range b {
		b[i] = byte(seed>>uint(8*(i%8))) ^ byte(i)
	}
	return b
}

func build(s *caseSpec) types.TxData {
	td := types.TxData{Version: s.Version, TimeRange: s.TimeRange}
	for _, in := range s.Ins {
		a := assetIDs[in.Asset%nAssets]
		switch in.Kind {
		case kSpend:
			td.Inputs = append(td.Inputs, types.NewSpendInput(nil, seedHash(in.Src), a, in.Amount, in.Src%3, progs[in.Prog%3], nil))
		case kIssue:
			k := in.Asset % nAssets
			td.Inputs = append(td.Inputs, types.NewIssuanceInput([]byte(fmt.Sprintf("n%d", in.Src)), in.Amount, issuanceProg(k), nil, []byte{byte(k)}))
		case kVeto:
			td.Inputs = append(td.Inputs, types.NewVetoInput(nil, seedHash(in.Src), a, in.Amount, in.Src%3, progs[in.Prog%3], fill(in.Aux, in.Src), nil))
		case kCoinbase:
			td.Inputs = append(td.Inputs, types.NewCoinbaseInput(fill(in.Aux, in.Src)))
		}
	}
	for _, o := range s.Outs {
		a := assetIDs[o.Asset%nAssets]
		switch o.Kind {
		case oOrig:
			td.Outputs = append(td.Outputs, types.NewOriginalTxOutput(a, o.Amount, progs[0], nil))
		case oRetire:
			td.Outputs = append(td.Outputs, types.NewOriginalTxOutput(a, o.Amount, []byte{byte(vm.OP_FAIL)}, nil))
		case oVote:
			td.Outputs = append(td.Outputs, types.NewVoteOutput(a, o.Amount, progs[0], fill(o.Aux, 7), nil))
		}
	}
	if s.SizeMode == 1 {
		td.SerializedSize = s.Size
	} else {
		var buf bytes.Buffer
		if _, err := td.WriteTo(&buf); err == nil && buf.Len() > 0 {
			td.SerializedSize = uint64(buf.Len())
		} else { // amounts above 2^63-1 have no wire form: use an estimate
			td.SerializedSize = uint64(10 + 120*len(s.Ins) + 50*len(s.Outs))
		}
	}
	return td
}

// the program an input runs and the model-side asset label of the mux source
func (in inSpec) program() []byte {
	switch in.Kind {
	case kIssue:
		return issuanceProg(in.Asset % nAssets)
	case kCoinbase:
		return nil
	}
	return progs[in.Prog%3]
}

// ---- VM probe: the answer of vm.Verify for the straight-line programs used ---------

type vmAns struct {
	ok   bool
	cost int64
}

var vmCache = map[string]vmAns{}

func probeVM(prog []byte) vmAns {
	if a, ok := vmCache[string(prog)]; ok {
		return a
	}
	one := uint64(1)
	const limit = int64(1) << 40
	left, err := vm.Verify(&vm.Context{VMVersion: 1, Code: prog, TxVersion: &one}, limit)
	a := vmAns{ok: err == nil, cost: limit - left}
	vmCache[string(prog)] = a
	return a
}

// ---- running one case ---------------------------------------------------------

type result struct {
	class    int // 0 accepted, 1 value error, 2 other error, 3 panic
	btmValue uint64
	fee      uint64
	errText  string
}

func classify(err error) int {
	switch errors.Root(err) {
	case validation.ErrOverflow, validation.ErrNoSource, validation.ErrUnbalanced, validation.ErrGasCalculate:
		return 1
	}
	return 2
}

func runImpl(s *caseSpec, td *types.TxData) (r result, tx *types.Tx) {
	defer func() {
		if p := recover(); p != nil {
			r.class = 3
			r.errText = fmt.Sprint("panic: ", p)
		}
	}()
	tx = types.NewTx(*td)
	blk := &bc.Block{BlockHeader: &bc.BlockHeader{Height: s.BlkHeight, Version: s.BlkVersion}}
	if s.First {
		blk.Transactions = []*bc.Tx{tx.Tx}
	} else if len(s.Ins) > 0 && s.Ins[0].Kind == kCoinbase && s.Src0()%2 == 1 {
		// a coinbase transaction that is not the first of a non-empty block
		other := types.NewTx(types.TxData{Version: 1, SerializedSize: 1,
			Inputs:  []*types.TxInput{types.NewCoinbaseInput([]byte("first"))},
			Outputs: []*types.TxOutput{types.NewOriginalTxOutput(*consensus.BTMAssetID, 0, progs[0], nil)}})
		blk.Transactions = []*bc.Tx{other.Tx, tx.Tx}
	}
	r.fee = td.Fee()
	g, err := validation.ValidateTx(tx.Tx, blk, nil)
	if err != nil {
		r.class = classify(err)
		r.errText = err.Error()
		return
	}
	r.class = 0
	r.btmValue = g.BTMValue
	return
}

func (s *caseSpec) Src0() uint64 {
	if len(s.Ins) == 0 {
		return 0
	}
	return s.Ins[0].Src
}

// ---- direct oracle: math/big over the TxData alone ------------------------------

var maxInt64 = big.NewInt(math.MaxInt64)

type sums struct {
	in, out map[bc.AssetID]*big.Int
	nCb     int
	nIn     int
}

func txSums(td *types.TxData) sums {
	s := sums{in: map[bc.AssetID]*big.Int{}, out: map[bc.AssetID]*big.Int{}, nIn: len(td.Inputs)}
	add := func(m map[bc.AssetID]*big.Int, a bc.AssetID, v uint64) {
		if m[a] == nil {
			m[a] = new(big.Int)
		}
		m[a].Add(m[a], new(big.Int).SetUint64(v))
	}
	for _, in := range td.Inputs {
		switch t := in.TypedInput.(type) {
		case *types.SpendInput:
			add(s.in, *t.AssetId, t.Amount)
		case *types.VetoInput:
			add(s.in, *t.AssetId, t.Amount)
		case *types.IssuanceInput:
			add(s.in, t.AssetID(), t.Amount)
		case *types.CoinbaseInput:
			s.nCb++
		}
	}
	for _, o := range td.Outputs {
		add(s.out, *o.AssetId, o.Amount)
	}
	return s
}

func get(m map[bc.AssetID]*big.Int, a bc.AssetID) *big.Int {
	if v := m[a]; v != nil {
		return v
	}
	return new(big.Int)
}

// oracle returns the list of violated clauses ("class=...: ...")
func oracle(s *caseSpec, td *types.TxData, r result) []string {
	var bad []string
	if r.class == 3 {
		return []string{"class=panic: ValidateTx panicked: " + r.errText}
	}
	if r.class != 0 {
		return nil
	}
	// the property speaks about transactions that went through the value check: every
	// block a node validates against has version 1 (then an accepted transaction has
	// version 1 and at least one output)
	if s.BlkVersion != 1 && len(td.Outputs) == 0 {
		return nil
	}
	sm := txSums(td)
	btm := *consensus.BTMAssetID
	assets := map[bc.AssetID]bool{}
	for a := range sm.in {
		assets[a] = true
	}
	for a := range sm.out {
		assets[a] = true
	}
	for a := range assets {
		if a == btm {
			continue
		}
		if get(sm.in, a).Cmp(get(sm.out, a)) != 0 {
			bad = append(bad, fmt.Sprintf("class=conservation: accepted with asset %x in=%s out=%s", a.Bytes()[:4], get(sm.in, a), get(sm.out, a)))
		}
	}
	bv := new(big.Int).SetUint64(r.btmValue)
	fee := new(big.Int).SetUint64(r.fee)
	switch {
	case sm.nCb == 0:
		diff := new(big.Int).Sub(get(sm.in, btm), get(sm.out, btm))
		if diff.Sign() < 0 {
			bad = append(bad, fmt.Sprintf("class=btm-created: accepted with BTM in=%s < out=%s", get(sm.in, btm), get(sm.out, btm)))
		}
		if bv.Cmp(diff) != 0 {
			bad = append(bad, fmt.Sprintf("class=fee-reported: GasState.BTMValue=%s but BTM in-out=%s", bv, diff))
		}
		if fee.Cmp(bv) != 0 {
			bad = append(bad, fmt.Sprintf("class=fee-mismatch: GasState.BTMValue=%s but TxData.Fee()=%s", bv, fee))
		}
	case sm.nCb == 1 && sm.nIn == 1:
		if bv.Sign() != 0 || fee.Sign() != 0 {
			bad = append(bad, fmt.Sprintf("class=coinbase-fee: coinbase transaction accepted with BTMValue=%s Fee()=%s (both must be 0)", bv, fee))
		}
		for a := range sm.out {
			if a != btm {
				bad = append(bad, fmt.Sprintf("class=coinbase-asset: coinbase transaction creates asset %x", a.Bytes()[:4]))
			}
		}
		if get(sm.out, btm).Cmp(maxInt64) > 0 {
			bad = append(bad, fmt.Sprintf("class=coinbase-wrap: coinbase transaction accepted with output total %s > 2^63-1", get(sm.out, btm)))
		}
	default:
		// a coinbase input mixed with other inputs (open finding when the fees differ)
		if fee.Cmp(bv) != 0 {
			bad = append(bad, fmt.Sprintf("class=coinbase-mixed-fee: a transaction mixing a coinbase input with other inputs is accepted with GasState.BTMValue=%s but TxData.Fee()=%s", bv, fee))
		}
	}
	return bad
}

// ---- Coq side -------------------------------------------------------------------

func coqTx(s *caseSpec, td *types.TxData, tx *types.Tx) (tbl, blk, t string) {
	var tb, ins, outs []string
	// entry-id labels: 1 + index of the first input with the same id
	lab := make([]int, len(s.Ins))
	for i := range s.Ins {
		lab[i] = i + 1
		for j := 0; j < i; j++ {
			if tx.Tx.InputIDs[j] == tx.Tx.InputIDs[i] {
				lab[i] = lab[j]
				break
			}
		}
	}
	for i, in := range s.Ins {
		a := vmAns{}
		if in.Kind != kCoinbase {
			a = probeVM(in.program())
		}
		tb = append(tb, fmt.Sprintf("(%s,%d)", CoqBool(a.ok), a.cost))
		asset, amount := in.Asset%nAssets, in.Amount
		if in.Kind == kCoinbase {
			asset, amount = 0, 0
		}
		ins = append(ins, fmt.Sprintf("mkIn %s %d%%N %d %d%%N %d", ikindName[in.Kind], asset, amount, lab[i], in.Aux))
	}
	for _, o := range s.Outs {
		outs = append(outs, fmt.Sprintf("mkOut %s %d%%N %d %d", okindName[o.Kind], o.Asset%nAssets, o.Amount, o.Aux))
	}
	// b_first: block.Transactions[0] is this transaction
	t = fmt.Sprintf("(mkT %d %d %d %s %s)", td.Version, td.SerializedSize, td.TimeRange, CoqList(ins), CoqList(outs))
	blk = fmt.Sprintf("(mkB %d %d %s)", s.BlkVersion, s.BlkHeight, CoqBool(s.First))
	return CoqList(tb), blk, t
}

func coqObs(r result) string {
	if r.class == 0 {
		return fmt.Sprintf("(0, [%d; %d])", r.btmValue, r.fee)
	}
	return fmt.Sprintf("(%d, [%d])", r.class, r.fee)
}

// ---- generators -------------------------------------------------------------------

var boundary = []uint64{0, 1, 1<<31 - 1, 1<<31 + 1, 1<<63 - 1, 1 << 63, math.MaxUint64}

func amountRaw(r *Rng) uint64 {
	switch r.Intn(10) {
	case 0, 1, 2, 3:
		return boundary[r.Intn(len(boundary))]
	case 4, 5:
		return r.Next() // uniform over uint64
	case 6:
		return r.Next() >> 1 // uniform below 2^63
	case 7:
		return uint64(r.Intn(4))
	default:
		return r.Next() >> uint(1+r.Intn(63))
	}
}

// a total below 2^63 with emphasis on the boundary
func total(r *Rng) uint64 {
	switch r.Intn(10) {
	case 0:
		return 1<<63 - 1
	case 1:
		return 1<<63 - 1 - uint64(r.Intn(1000))
	case 2:
		return 1<<31 - 1 + uint64(r.Intn(3))
	case 3:
		return uint64(r.Intn(3))
	case 4:
		return r.Next() >> 1
	case 5:
		return 1<<32 - 1 + uint64(r.Intn(3))
	default:
		return r.Next() >> uint(2+r.Intn(60))
	}
}

// split t into n non-negative parts (zeros allowed)
func split(r *Rng, t uint64, n int) []uint64 {
	if n == 0 {
		return nil
	}
	cuts := make([]uint64, n-1)
	for i := range cuts {
		if t == math.MaxUint64 {
			cuts[i] = r.Next()
		} else {
			cuts[i] = r.Next() % (t + 1)
		}
	}
	sort.Slice(cuts, func(i, j int) bool { return cuts[i] < cuts[j] })
	parts := make([]uint64, n)
	prev := uint64(0)
	for i, c := range cuts {
		parts[i] = c - prev
		prev = c
	}
	parts[n-1] = t - prev
	return parts
}

func pickProg(r *Rng) int {
	switch x := r.Intn(100); {
	case x < 90:
		return 0
	case x < 97:
		return 1
	}
	return 2
}

func baseSpec(r *Rng, stream string) *caseSpec {
	s := &caseSpec{Stream: stream, Version: 1, BlkVersion: 1, BlkHeight: uint64(1 + r.Intn(1000))}
	switch r.Intn(10) {
	case 0:
		s.TimeRange = s.BlkHeight + uint64(r.Intn(3))
	case 1:
		s.TimeRange = r.Next()>>1 | s.BlkHeight
	}
	return s
}

var srcCounter uint64

func nextSrc() uint64 { srcCounter++; return srcCounter }

// balanced multisets: every asset's inputs and outputs share one total; the BTM
// difference is a fee chosen around the gas the transaction needs
func genBalanced(r *Rng) *caseSpec {
	s := baseSpec(r, "balanced")
	na := 1 + r.Intn(4) // assets in use, BTM included
	nIn := 1 + r.Intn(12)
	nOut := 1 + r.Intn(12)
	if nIn < na {
		nIn = na
	}
	used := []int{0}
	for _, k := range perm4(r) {
		if len(used) < na {
			used = append(used, k)
		}
	}
	inAsset := make([]int, nIn)
	for i := range inAsset {
		if i < len(used) {
			inAsset[i] = used[i] // every asset in use has an input
		} else {
			inAsset[i] = used[r.Intn(len(used))]
		}
	}
	outAsset := make([]int, nOut)
	for i := range outAsset {
		outAsset[i] = used[r.Intn(len(used))]
	}
	// gas the transaction will need: storage (size estimate) + VM runs
	for i := 0; i < nIn; i++ {
		in := inSpec{Asset: inAsset[i], Src: nextSrc(), Prog: 0}
		switch x := r.Intn(100); {
		case x < 60 || inAsset[i] == 0 && x < 80:
			in.Kind = kSpend
		case x < 80:
			in.Kind = kIssue
		default:
			in.Kind, in.Aux = kVeto, 64
		}
		if r.Chance(8) {
			in.Prog = pickProg(r)
		}
		s.Ins = append(s.Ins, in)
	}
	for i := 0; i < nOut; i++ {
		o := outSpec{Asset: outAsset[i]}
		switch x := r.Intn(100); {
		case x < 75:
			o.Kind = oOrig
		case x < 88:
			o.Kind = oRetire
		default:
			if o.Asset == 0 {
				o.Kind, o.Aux = oVote, 64
			}
		}
		s.Outs = append(s.Outs, o)
	}
	for _, a := range used {
		var ii, oo []int
		for i := range s.Ins {
			if s.Ins[i].Asset == a {
				ii = append(ii, i)
			}
		}
		for i := range s.Outs {
			if s.Outs[i].Asset == a {
				oo = append(oo, i)
			}
		}
		t := total(r)
		outT := t
		if a == 0 {
			// fee: what the gas needs (size is a few hundred bytes per entry), with slack
			need := uint64(200 * (150*nIn + 60*nOut + 20*nIn + 64))
			var fee uint64
			switch r.Intn(10) {
			case 0:
				fee = uint64(r.Intn(int(need))) // too little gas, or just enough by luck
			case 1:
				fee = need + uint64(r.Intn(200))
			case 2:
				fee = 200*300000 + uint64(r.Intn(1000)) // gas cap
			case 3:
				fee = r.Next() >> uint(2+r.Intn(40))
			default:
				fee = need + uint64(r.Intn(1000000))
			}
			votes := 0
			for _, i := range oo {
				if s.Outs[i].Kind == oVote {
					votes++
				}
			}
			minOut := uint64(votes) * consensus.MinVoteOutputAmount
			if len(oo) == 0 {
				t, outT = fee, 0
			} else {
				if t < minOut {
					t = minOut + t
				}
				outT = t
				if fee > math.MaxInt64-t {
					fee = math.MaxInt64 - t
				}
				t = outT + fee
			}
			parts := split(r, outT-minOut, len(oo))
			for j, i := range oo {
				s.Outs[i].Amount = parts[j]
				if s.Outs[i].Kind == oVote {
					s.Outs[i].Amount += consensus.MinVoteOutputAmount
				}
			}
		} else {
			parts := split(r, outT, len(oo))
			for j, i := range oo {
				s.Outs[i].Amount = parts[j]
			}
			if len(oo) == 0 {
				t = 0
			}
		}
		parts := split(r, t, len(ii))
		for j, i := range ii {
			s.Ins[i].Amount = parts[j]
		}
	}
	return s
}

// raw random multisets, boundary amounts over the whole uint64 range
func genRaw(r *Rng) *caseSpec {
	s := baseSpec(r, "raw")
	nIn, nOut := 1+r.Intn(12), 1+r.Intn(12)
	na := 1 + r.Intn(4)
	small := r.Chance(40) // tiny amounts balance by luck
	for i := 0; i < nIn; i++ {
		in := inSpec{Kind: r.Intn(3), Asset: r.Intn(na), Amount: amountRaw(r), Src: nextSrc(), Prog: pickProg(r), Aux: 64}
		if small {
			in.Amount = uint64(r.Intn(3))
		}
		if in.Kind == kIssue && in.Asset == 0 {
			in.Kind = kSpend
		}
		if i == 0 && r.Chance(70) { // gas
			in.Kind, in.Asset, in.Amount, in.Prog = kSpend, 0, 100000000+uint64(r.Intn(3)), 0
		}
		if r.Chance(2) {
			in.Kind, in.Aux = kCoinbase, r.Intn(4)
		}
		s.Ins = append(s.Ins, in)
	}
	for i := 0; i < nOut; i++ {
		o := outSpec{Kind: r.Intn(3), Asset: r.Intn(na), Amount: amountRaw(r), Aux: 64}
		if small {
			o.Amount = uint64(r.Intn(3))
		}
		if o.Kind == oVote && r.Chance(80) {
			o.Kind = oOrig
		}
		s.Outs = append(s.Outs, o)
	}
	if r.Chance(5) {
		s.Outs = nil
	}
	return s
}

// uint64 / int64 wrap-around attacks: the inputs of one asset total 2^64 + k (or 2^63 + k)
// and the outputs total k; gas is paid by a separate BTM input
func genWrap(r *Rng) *caseSpec {
	s := baseSpec(r, "wrap")
	s.Ins = append(s.Ins, inSpec{Kind: kSpend, Asset: 0, Amount: 100000000, Src: nextSrc()})
	a := r.Intn(4) // 0 = the attack is on BTM itself
	k := uint64(r.Intn(1000))
	switch r.Intn(6) {
	case 0: // 2^64-1 + (1+k) = 2^64 + k
		s.Ins = append(s.Ins, inSpec{Kind: kSpend, Asset: a, Amount: math.MaxUint64, Src: nextSrc()},
			inSpec{Kind: kSpend, Asset: a, Amount: 1 + k, Src: nextSrc()})
	case 1: // 2^63 + 2^63 + k
		s.Ins = append(s.Ins, inSpec{Kind: kSpend, Asset: a, Amount: 1 << 63, Src: nextSrc()},
			inSpec{Kind: kSpend, Asset: a, Amount: 1 << 63, Src: nextSrc()},
			inSpec{Kind: kSpend, Asset: a, Amount: k, Src: nextSrc()})
	case 2: // three amounts below 2^63 whose total passes 2^64
		s.Ins = append(s.Ins, inSpec{Kind: kSpend, Asset: a, Amount: 1<<63 - 1, Src: nextSrc()},
			inSpec{Kind: kSpend, Asset: a, Amount: 1<<63 - 1, Src: nextSrc()},
			inSpec{Kind: kSpend, Asset: a, Amount: 2 + k, Src: nextSrc()})
	case 3: // outputs wrap instead: in k, out 2^64-1 and 1+k
		s.Ins = append(s.Ins, inSpec{Kind: kSpend, Asset: a, Amount: k, Src: nextSrc()})
		s.Outs = append(s.Outs, outSpec{Asset: a, Amount: math.MaxUint64}, outSpec{Asset: a, Amount: 1 + k})
		k = 0
	case 4: // in 2^63-1 twice, out 2^63-1 twice: the source total overflows int64
		s.Ins = append(s.Ins, inSpec{Kind: kSpend, Asset: a, Amount: 1<<63 - 1, Src: nextSrc()},
			inSpec{Kind: kSpend, Asset: a, Amount: 1<<63 - 1, Src: nextSrc()})
		s.Outs = append(s.Outs, outSpec{Asset: a, Amount: 1<<63 - 1}, outSpec{Asset: a, Amount: 1<<63 - 1})
		k = 0
	case 5: // a negative int64 reading: in 2^63+k (reads as -2^63+k), plus 2^63, out k
		s.Ins = append(s.Ins, inSpec{Kind: kIssue, Asset: 1 + a%3, Amount: 1<<63 + k, Src: nextSrc()},
			inSpec{Kind: kIssue, Asset: 1 + a%3, Amount: 1 << 63, Src: nextSrc()})
		a = 1 + a%3
	}
	if k > 0 || r.Bool() {
		s.Outs = append(s.Outs, outSpec{Asset: a, Amount: k})
	}
	if a != 0 || r.Bool() {
		s.Outs = append(s.Outs, outSpec{Asset: 0, Amount: uint64(r.Intn(1000))})
	}
	return s
}

// the coinbase family
func genCoinbase(r *Rng) *caseSpec {
	s := baseSpec(r, "coinbase")
	s.First = r.Chance(90)
	s.Ins = []inSpec{{Kind: kCoinbase, Src: nextSrc(), Aux: r.Intn(6)}}
	switch r.Intn(12) {
	case 0, 1, 2: // ordinary: one zero output, or rewards
		s.Outs = []outSpec{{Amount: 0}}
		for i := r.Intn(4); i > 0; i-- {
			s.Outs = append(s.Outs, outSpec{Amount: 285388127 * uint64(1+r.Intn(5))})
		}
	case 3: // boundary totals
		t := total(r)
		for _, p := range split(r, t, 1+r.Intn(4)) {
			s.Outs = append(s.Outs, outSpec{Amount: p})
		}
	case 4: // uint64 total wraps to a small number
		k := uint64(r.Intn(100))
		s.Outs = []outSpec{{Amount: 1<<63 - 1}, {Amount: 1<<63 - 1}, {Amount: 2 + k}}
	case 5:
		s.Outs = []outSpec{{Amount: 1 << 63}, {Amount: 1 << 63}}
		if r.Bool() {
			s.Outs = []outSpec{{Amount: math.MaxUint64}, {Amount: 1 + uint64(r.Intn(5))}}
		}
	case 6: // non-BTM output
		s.Outs = []outSpec{{Amount: uint64(r.Intn(3))}, {Asset: 1 + r.Intn(3), Amount: uint64(r.Intn(3))}}
	case 7: // two coinbase inputs (regression: nil destination of the first one)
		s.Ins = append(s.Ins, inSpec{Kind: kCoinbase, Src: nextSrc(), Aux: r.Intn(6)})
		if r.Chance(30) {
			s.Ins[1] = s.Ins[0] // same arbitrary: same entry id
		}
		if r.Chance(30) {
			s.Ins = append(s.Ins, inSpec{Kind: kCoinbase, Src: nextSrc(), Aux: 1})
		}
		s.Outs = []outSpec{{Amount: uint64(r.Intn(100))}}
	case 8: // coinbase not at index 0
		s.Ins = []inSpec{{Kind: kSpend, Asset: 0, Amount: 100000000, Src: nextSrc()}, s.Ins[0]}
		s.Outs = []outSpec{{Amount: uint64(r.Intn(100))}}
	case 9: // arbitrary size limit
		s.Ins[0].Aux = consensus.CoinbaseArbitrarySizeLimit - 1 + r.Intn(3)
		s.Outs = []outSpec{{Amount: 0}}
	case 10, 11: // mixed with other inputs (open finding coinbase-mixed-fee when accepted)
		a := r.Intn(3)
		amt := uint64(400000 + r.Intn(1000000))
		s.Ins = append(s.Ins, inSpec{Kind: kSpend, Asset: a, Amount: amt, Src: nextSrc()})
		s.Outs = []outSpec{{Amount: uint64(r.Intn(2000000))}}
		if a != 0 {
			s.Outs = append(s.Outs, outSpec{Asset: a, Amount: amt})
		}
	}
	return s
}

// one single-field mutation of an accepted transaction
func mutate(r *Rng, base *caseSpec) (*caseSpec, string) {
	s := base.clone()
	s.Stream = "mutation"
	pm := func(x uint64) uint64 {
		if r.Bool() {
			return x + 1
		}
		return x - 1
	}
	for tries := 0; tries < 10; tries++ {
		switch r.Intn(16) {
		case 0:
			i := r.Intn(len(s.Ins))
			s.Ins[i].Amount = pm(s.Ins[i].Amount)
			return s, "in-amount"
		case 1:
			if len(s.Outs) == 0 {
				continue
			}
			i := r.Intn(len(s.Outs))
			s.Outs[i].Amount = pm(s.Outs[i].Amount)
			return s, "out-amount"
		case 2:
			i := r.Intn(len(s.Ins))
			s.Ins[i].Asset = (s.Ins[i].Asset + 1 + r.Intn(3)) % 4
			if s.Ins[i].Kind == kIssue && s.Ins[i].Asset == 0 {
				s.Ins[i].Kind = kSpend
			}
			return s, "in-asset"
		case 3:
			if len(s.Outs) == 0 {
				continue
			}
			i := r.Intn(len(s.Outs))
			s.Outs[i].Asset = (s.Outs[i].Asset + 1 + r.Intn(3)) % 4
			return s, "out-asset"
		case 4:
			if len(s.Outs) == 0 {
				continue
			}
			i := r.Intn(len(s.Outs))
			s.Outs = append(s.Outs[:i], s.Outs[i+1:]...)
			return s, "drop-output"
		case 5:
			if len(s.Outs) == 0 {
				continue
			}
			s.Outs = append(s.Outs, s.Outs[r.Intn(len(s.Outs))])
			return s, "dup-output"
		case 6:
			if len(s.Ins) < 2 {
				continue
			}
			i := r.Intn(len(s.Ins))
			s.Ins = append(s.Ins[:i], s.Ins[i+1:]...)
			return s, "drop-input"
		case 7:
			s.Ins = append(s.Ins, s.Ins[r.Intn(len(s.Ins))])
			return s, "dup-input"
		case 8:
			if len(s.Outs) == 0 {
				continue
			}
			i := r.Intn(len(s.Outs))
			s.Outs[i].Kind = (s.Outs[i].Kind + 1 + r.Intn(2)) % 3
			s.Outs[i].Aux = 64
			return s, "out-kind"
		case 9:
			i := r.Intn(len(s.Ins))
			if s.Ins[i].Kind == kCoinbase {
				continue
			}
			s.Ins[i].Kind = (s.Ins[i].Kind + 1 + r.Intn(2)) % 3
			s.Ins[i].Aux = 64
			if s.Ins[i].Kind == kIssue && s.Ins[i].Asset == 0 {
				s.Ins[i].Kind = kVeto
			}
			return s, "in-kind"
		case 10:
			s.SizeMode = 1
			s.Size = []uint64{0, 1, 1 << 63, math.MaxUint64, 1<<63 - 1, 300000, 1 << 31}[r.Intn(7)]
			return s, "size"
		case 11:
			if r.Bool() {
				s.Version = uint64(r.Intn(3))
			} else {
				s.BlkVersion = uint64(r.Intn(3))
			}
			if r.Chance(30) {
				s.Version, s.BlkVersion, s.Outs = 2, 2, nil
			}
			return s, "version"
		case 12:
			s.TimeRange = uint64(r.Intn(int(s.BlkHeight) + 2))
			return s, "time-range"
		case 13:
			if r.Bool() && len(s.Outs) > 0 {
				i := r.Intn(len(s.Outs))
				s.Outs[i].Kind, s.Outs[i].Aux = oVote, 63+r.Intn(3)
			} else {
				i := r.Intn(len(s.Ins))
				if s.Ins[i].Kind == kCoinbase {
					continue
				}
				s.Ins[i].Kind, s.Ins[i].Aux = kVeto, 63+r.Intn(3)
			}
			return s, "vote-key"
		case 14:
			i := r.Intn(len(s.Ins))
			s.Ins[i].Prog = 1 + r.Intn(2)
			return s, "program"
		case 15:
			s.Ins = append([]inSpec{{Kind: kCoinbase, Src: nextSrc(), Aux: 2}}, s.Ins...)
			s.First = r.Chance(80)
			return s, "add-coinbase"
		}
	}
	return s, "none"
}

// perm4 returns a permutation of the non-BTM asset labels 1..4
func perm4(r *Rng) []int {
	p := []int{1, 2, 3, 4}
	for i := len(p) - 1; i > 0; i-- {
		j := r.Intn(i + 1)
		p[i], p[j] = p[j], p[i]
	}
	return p
}

// ---- the run ------------------------------------------------------------------

type runner struct {
	c         *Ctx
	accepted  []*caseSpec
	knownSeen int
	toCoq     int
}

func specJSON(s *caseSpec) interface{} {
	// amounts as decimal strings: JSON numbers lose precision above 2^53
	type jin struct {
		Kind   string `json:"kind"`
		Asset  int    `json:"asset"`
		Amount string `json:"amount"`
		Src    uint64 `json:"src"`
		Prog   int    `json:"prog"`
		Aux    int    `json:"aux"`
	}
	type jout struct {
		Kind   string `json:"kind"`
		Asset  int    `json:"asset"`
		Amount string `json:"amount"`
		Aux    int    `json:"aux"`
	}
	var ins []jin
	var outs []jout
	for _, i := range s.Ins {
		ins = append(ins, jin{ikindName[i.Kind], i.Asset, fmt.Sprint(i.Amount), i.Src, i.Prog, i.Aux})
	}
	for _, o := range s.Outs {
		outs = append(outs, jout{okindName[o.Kind], o.Asset, fmt.Sprint(o.Amount), o.Aux})
	}
	raw, _ := json.Marshal(s)
	return map[string]interface{}{"stream": s.Stream, "version": s.Version, "block_version": s.BlkVersion,
		"block_height": s.BlkHeight, "first_in_block": s.First, "time_range": s.TimeRange,
		"size_mode": s.SizeMode, "size": fmt.Sprint(s.Size), "inputs": ins, "outputs": outs,
		"spec": string(raw)}
}

func (rn *runner) one(s *caseSpec, coq bool) result {
	c := rn.c
	td := build(s)
	r, tx := runImpl(s, &td)
	key := fmt.Sprintf("%+v", *s)
	nontrivial := r.class == 1 || (r.class == 0 && len(s.Ins)+len(s.Outs) >= 3)
	c.Stats.Case(key, nontrivial)
	c.Stats.Count("stream:" + s.Stream)
	c.Stats.Count(fmt.Sprintf("result:%s", []string{"accepted", "rejected-value", "rejected-other", "panic"}[r.class]))
	c.Stats.Count(fmt.Sprintf("%s:%s", s.Stream, []string{"accepted", "rejected-value", "rejected-other", "panic"}[r.class]))
	c.Stats.Count(fmt.Sprintf("inputs:%02d", len(s.Ins)))
	c.Stats.Count(fmt.Sprintf("outputs:%02d", len(s.Outs)))
	assets := map[int]bool{}
	for _, i := range s.Ins {
		c.Stats.Count("in-kind:" + ikindName[i.Kind])
		if i.Kind != kCoinbase {
			assets[i.Asset%nAssets] = true
			if i.Amount > math.MaxInt64 {
				c.Stats.Count("amount>2^63-1")
			}
		}
	}
	for _, o := range s.Outs {
		c.Stats.Count("out-kind:" + okindName[o.Kind])
		assets[o.Asset%nAssets] = true
		if o.Amount > math.MaxInt64 {
			c.Stats.Count("amount>2^63-1")
		}
	}
	c.Stats.Count(fmt.Sprintf("assets:%d", len(assets)))
	if r.class == 0 {
		c.Stats.Sample(map[string]interface{}{"case": specJSON(s), "BTMValue": fmt.Sprint(r.btmValue), "Fee": fmt.Sprint(r.fee)})
		if s.Stream == "balanced" && len(rn.accepted) < 4000 {
			rn.accepted = append(rn.accepted, s)
		}
	}
	for _, what := range oracle(s, &td, r) {
		c.Stats.Count("oracle:" + strings.SplitN(what, ":", 2)[0])
		if strings.HasPrefix(what, "class=coinbase-mixed-fee") {
			// the open finding: keep a few witnesses, never crowd out other failures
			rn.knownSeen++
			if rn.knownSeen > 2 {
				continue
			}
		}
		c.Stats.Fail(what, specJSON(s))
	}
	if coq && tx != nil {
		tbl, blk, t := coqTx(s, &td, tx)
		id := c.Cases.Add(fmt.Sprintf("run_case CS %s %s %s", tbl, blk, t), coqObs(r))
		if id < 400 || r.class == 3 {
			c.Stats.CaseIndex[fmt.Sprint(id)] = specJSON(s)
		}
		c.Stats.Count("model_evaluated")
		rn.toCoq++
	}
	return r
}

func corpus() []*caseSpec {
	b := func(first bool) *caseSpec {
		return &caseSpec{Stream: "corpus", Version: 1, BlkVersion: 1, BlkHeight: 666, First: first}
	}
	var cs []*caseSpec
	// open finding coinbase-mixed-fee (tx_test.go TestCoinbase case #4 and two more)
	m1 := b(true)
	m1.SizeMode, m1.Size = 1, 1
	m1.Ins = []inSpec{{Kind: kCoinbase, Src: 1}, {Kind: kSpend, Asset: 0, Amount: 100000000, Src: 8}}
	m1.Outs = []outSpec{{Amount: 888}, {Amount: 90000000}}
	m2 := b(true)
	m2.Ins = []inSpec{{Kind: kCoinbase, Src: 1, Aux: 1}, {Kind: kSpend, Asset: 0, Amount: 500000, Src: 9}}
	m2.Outs = []outSpec{{Amount: 700000}}
	m3 := b(true)
	m3.Ins = []inSpec{{Kind: kCoinbase, Src: 1, Aux: 1}, {Kind: kSpend, Asset: 1, Amount: 500000, Src: 10}}
	m3.Outs = []outSpec{{Amount: 10}, {Asset: 1, Amount: 500000}}
	// regression a1b2e3d5: two coinbase inputs with different arbitrary data (was a nil dereference)
	p1 := b(true)
	p1.Ins = []inSpec{{Kind: kCoinbase, Src: 1, Aux: 1}, {Kind: kCoinbase, Src: 2, Aux: 1}}
	p1.Outs = []outSpec{{Amount: 10}}
	p2 := b(true)
	p2.Ins = []inSpec{{Kind: kCoinbase, Src: 1, Aux: 1}, {Kind: kSpend, Asset: 0, Amount: 100000000, Src: 11}, {Kind: kCoinbase, Src: 2, Aux: 1}}
	p2.Outs = []outSpec{{Amount: 10}}
	// a version-2 transaction without outputs in a version-2 block skips the mux check
	u := b(false)
	u.Version, u.BlkVersion = 2, 2
	u.Ins = []inSpec{{Kind: kSpend, Asset: 0, Amount: 100000, Src: 12}}
	// the Coq examples
	e := b(false)
	e.SizeMode, e.Size = 1, 600
	e.Ins = []inSpec{{Kind: kSpend, Asset: 0, Amount: 900000000, Src: 13}, {Kind: kSpend, Asset: 1, Amount: 70, Src: 14},
		{Kind: kIssue, Asset: 2, Amount: 5, Src: 15}, {Kind: kVeto, Asset: 0, Amount: 200000000, Src: 16, Aux: 64}, {Kind: kSpend, Asset: 1, Amount: 30, Src: 17}}
	e.Outs = []outSpec{{Amount: 500000000}, {Kind: oVote, Amount: 300000000, Aux: 64}, {Kind: oRetire, Asset: 1, Amount: 100},
		{Asset: 2, Amount: 5}, {Amount: 299000000}}
	g := b(false)
	g.SizeMode, g.Size = 1, 200
	g.Ins = []inSpec{{Kind: kSpend, Asset: 0, Amount: 1<<63 - 1, Src: 18}, {Kind: kSpend, Asset: 1, Amount: 1<<63 - 2, Src: 19}, {Kind: kSpend, Asset: 1, Amount: 1, Src: 20}}
	g.Outs = []outSpec{{Amount: 1<<63 - 1 - 60000}, {Asset: 1, Amount: 1<<63 - 1}}
	cw := b(true)
	cw.Ins = []inSpec{{Kind: kCoinbase, Src: 3, Aux: 3}}
	cw.Outs = []outSpec{{Amount: 1<<63 - 1}, {Amount: 1<<63 - 1}, {Amount: 7}}
	return append(cs, m1, m2, m3, p1, p2, u, e, g, cw)
}

func runC01(c *Ctx) error {
	initAssets()
	rn := &runner{c: c}
	r := c.Rng

	if c.Replay != "" {
		if raw, err := ioutil.ReadFile(c.Replay); err == nil {
			var rp struct {
				Failure struct {
					Case struct {
						Spec string `json:"spec"`
					} `json:"case"`
				} `json:"failure"`
			}
			if json.Unmarshal(raw, &rp) == nil && rp.Failure.Case.Spec != "" {
				var s caseSpec
				if json.Unmarshal([]byte(rp.Failure.Case.Spec), &s) == nil {
					s.Stream = "replay"
					rn.one(&s, true)
				}
			}
		}
	}

	for _, s := range corpus() {
		rn.one(s, true)
	}

	nCoq := c.N(2400, 10000)
	nTotal := c.N(40000, 200000)
	// which cases go to Coq: the first nCoq/2 and then every k-th
	every := (nTotal - nCoq/2) / (nCoq / 2)
	for i := 0; i < nTotal; i++ {
		coq := i < nCoq/2 || (i-nCoq/2)%every == 0
		var s *caseSpec
		switch x := r.Intn(100); {
		case x < 50:
			s = genBalanced(r)
		case x < 60:
			s = genRaw(r)
		case x < 67:
			s = genWrap(r)
		case x < 77:
			s = genCoinbase(r)
		default:
			if len(rn.accepted) == 0 {
				s = genBalanced(r)
			} else {
				var what string
				s, what = mutate(r, rn.accepted[r.Intn(len(rn.accepted))])
				c.Stats.Count("mutation:" + what)
			}
		}
		rn.one(s, coq)
	}

	// batch API: validation.ValidateTxs runs its transactions on worker goroutines; result i must
	// describe transaction i (verdict and reported fee), whatever order the workers finish in.
	// Cheap and expensive programs alternate so that completion order differs from input order.
	{
		heavy := []byte{}
		for k := 0; k < 150; k++ {
			heavy = append(heavy, 0x51, 0xaa, 0x75) // TRUE SHA3 DROP
		}
		heavy = append(heavy, 0x51)
		batches := c.N(25, 120)
		for b := 0; b < batches; b++ {
			var txs []*bc.Tx
			var tds []*types.Tx
			n := 4 + c.Rng.Intn(12)
			for i := 0; i < n; i++ {
				prog := []byte{0x51}
				if i%2 == 0 {
					prog = heavy
				}
				fee := uint64(100000000 + 1000000*uint64(i) + uint64(c.Rng.Intn(1000)))
				amt := fee + uint64(c.Rng.Intn(1000000))
				if c.Rng.Chance(10) {
					fee = amt + 1 // unbalanced: must be rejected at index i
				}
				td := types.TxData{Version: 1,
					Inputs:  []*types.TxInput{types.NewSpendInput(nil, seedHash(nextSrc()), *consensus.BTMAssetID, amt, 0, prog, nil)},
					Outputs: []*types.TxOutput{types.NewOriginalTxOutput(*consensus.BTMAssetID, amt-fee, []byte{0x51}, nil)}}
				if fee > amt {
					td.Outputs[0].Amount = amt + 1
				}
				bs, _ := td.MarshalText()
				td.SerializedSize = uint64(len(bs))
				tx := types.NewTx(td)
				tds = append(tds, tx)
				txs = append(txs, tx.Tx)
			}
			blk := &bc.Block{BlockHeader: &bc.BlockHeader{Height: 100, Version: 1}}
			res := validation.ValidateTxs(txs, blk, nil)
			c.Stats.Count("batch:ValidateTxs")
			for i, tx := range tds {
				g, err := validation.ValidateTx(tx.Tx, blk, nil)
				if i >= len(res) {
					c.Stats.Fail("class=batch-result-misplaced: ValidateTxs returned fewer results than transactions", map[string]interface{}{"batch": n})
					break
				}
				if (res[i].GetError() == nil) != (err == nil) {
					c.Stats.Fail(fmt.Sprintf("class=batch-result-misplaced: ValidateTxs result %d of %d: accepted=%v, the transaction alone: accepted=%v", i, n, res[i].GetError() == nil, err == nil), map[string]interface{}{"batch": n, "index": i})
					b = batches
					break
				}
				if err == nil && (res[i].GetGasState().BTMValue != g.BTMValue || g.BTMValue != tx.Fee()) {
					c.Stats.Fail(fmt.Sprintf("class=batch-result-misplaced: ValidateTxs result %d of %d reports fee %d, the transaction's fee is %d (Fee() %d)", i, n, res[i].GetGasState().BTMValue, g.BTMValue, tx.Fee()), map[string]interface{}{"batch": n, "index": i})
					b = batches
					break
				}
			}
		}
	}

	d := c.Stats.Distribution
	acc, rej := d["result:accepted"], d["result:rejected-value"]+d["result:rejected-other"]
	c.Stats.Extra["acceptance_rate"] = fmt.Sprintf("%.3f", float64(acc)/float64(acc+rej+d["result:panic"]))
	c.Stats.Extra["balanced_acceptance_rate"] = fmt.Sprintf("%.3f", float64(d["balanced:accepted"])/float64(d["stream:balanced"]))
	c.Stats.Extra["vm_probe"] = fmt.Sprintf("TRUE=%+v TRUE,TRUE=%+v FALSE=%+v", probeVM(progs[0]), probeVM(progs[1]), probeVM(progs[2]))
	c.Stats.Extra["known_finding_witnesses_seen"] = rn.knownSeen
	if acc*5 < acc+rej || rej*20 < acc+rej {
		return fmt.Errorf("degenerate stream: accepted=%d rejected=%d", acc, rej)
	}
	if d["balanced:accepted"]*2 < d["stream:balanced"] {
		return fmt.Errorf("degenerate balanced stream: accepted=%d of %d", d["balanced:accepted"], d["stream:balanced"])
	}

	c.Stats.Rule = "real types.TxData (1-12 inputs: spend/issuance/veto/coinbase; 0-13 outputs: original/vote/retirement; 1-4 assets incl. BTM; OP_TRUE-style programs) mapped by types.MapTx and validated by validation.ValidateTx against a mock block. Streams: balanced multisets with per-asset totals on the boundary (0,1,2^31,2^32,2^63-1-k, uniform) and fees around the gas need; raw multisets with amounts from {0,1,2^31-1,2^31+1,2^63-1,2^63,2^64-1} and uniform; uint64/int64 wrap-around attacks (totals 2^64+k, 2^63+k); the coinbase family (rewards, wrapped totals, non-BTM outputs, two coinbases, misplaced, mixed with other inputs); single-field mutations of accepted transactions (amount +-1, asset swap, drop/duplicate output or input, kind change, size, version, time range, vote key, program, added coinbase). A case is non-trivial when it is accepted with at least 3 inputs+outputs or rejected with a value error. Oracle (math/big on the TxData): accepted => every non-BTM asset in = out; without coinbase: BTM out <= in and GasState.BTMValue = in - out = TxData.Fee(); coinbase-only: BTMValue = Fee() = 0, BTM outputs only, total <= 2^63-1; never a panic."
	hdr := "From Coq Require Import ZArith NArith List Bool.\nFrom Verif Require Import Outcome.\nFrom C01 Require Import Model Run.\nImport ListNotations.\nOpen Scope Z_scope.\n" +
		fmt.Sprintf("Definition CS : consts := mkC %d %d %d %d %d.\n", consensus.VMGasRate, consensus.MaxGasAmount, consensus.StorageGasRate, consensus.MinVoteOutputAmount, consensus.CoinbaseArbitrarySizeLimit)
	if err := c.Cases.Write(c.Out, hdr, "obs", "obs_eqb"); err != nil {
		return err
	}
	// translator cross-check: the generated GasState methods (C01/Tie.v) against the compiled ones
	return fraglib.GasState(c, "")
}
