package main

// C15 — validator set and block-proposer schedule are deterministic.
//
// Each case is a branch history: an initial checkpoint (votes map, status,
// timestamp), a list of blocks whose transactions carry veto inputs and vote
// outputs, the consensus parameters (BlocksOfEpoch, BlockTimeInterval,
// MinValidatorVoteNum, federation keys) and a list of block times.  The harness
// walks the branch with the real state.NewCheckpoint / Checkpoint.Increase the
// way casper.applyBlockToCheckpoint does, then evaluates AllValidators,
// EffectiveValidators and GetValidator(t) 20 times each (Go randomises map
// iteration; half of the repetitions also rebuild the votes map in another
// insertion order).
//
// Direct oracle (implementation outputs only, no model):
//   * all repetitions give the same projected result;
//   * the effective validators equal the declarative ranking computed from the
//     implementation's own votes map: candidates = tallies >= minimum (status
//     not Growing); Order = number of candidates with more votes, or equal votes
//     and a greater key; the at most ten with Order < 10; else the federation
//     keys by position;
//   * for every t at or after the epoch start (no uint64 overflow in the
//     configuration) exactly one effective validator has Order
//     ((t-start)/interval) mod n and GetValidator(t) returns it;
//   * on histories where no veto exceeds the running tally and nothing
//     overflows, the votes map equals votes minus vetoes (math/big);
//   * with real keys: validation.ValidateBlockHeader accepts a header at time t
//     signed by the scheduled validator and by no other validator.
//
// Correspondence: the projected results against C15.Run.run_case (vm_compute).

import (
	"encoding/hex"
	"fmt"
	"math/big"
	"sort"
	"strings"

	"github.com/bytom/bytom/config"
	"github.com/bytom/bytom/consensus"
	"github.com/bytom/bytom/crypto/ed25519/chainkd"
	"github.com/bytom/bytom/protocol/bc"
	"github.com/bytom/bytom/protocol/bc/types"
	"github.com/bytom/bytom/protocol/state"
	"github.com/bytom/bytom/protocol/validation"
	"verifharness/fraglib"
	. "verifharness/hlib"
)

func main() { Main("C15", run, nil) }

const reps = 20

type rngReader struct{ r *Rng }

func (rr rngReader) Read(p []byte) (int, error) {
	copy(p, rr.r.Bytes(len(p)))
	return len(p), nil
}

// ---- case description ------------------------------------------------------

type inSpec struct {
	Veto bool   `json:"veto"`
	Key  string `json:"key,omitempty"` // hex of the vote bytes
	Amt  uint64 `json:"amt"`
}
type outSpec struct {
	Vote bool   `json:"vote"`
	Key  string `json:"key,omitempty"`
	Amt  uint64 `json:"amt"`
}
type txSpec struct {
	Ins  []inSpec  `json:"ins"`
	Outs []outSpec `json:"outs"`
}
type blockSpec struct {
	Height uint64   `json:"height"`
	Ts     uint64   `json:"ts"`
	Txs    []txSpec `json:"txs"`
}
type kv struct {
	K string `json:"k"` // map key as hex of its bytes (the key itself may be any string)
	V uint64 `json:"v"`
}
type caseSpec struct {
	Index    int         `json:"index"`
	E        uint64      `json:"blocks_of_epoch"`
	Interval uint64      `json:"interval"`
	MinV     uint64      `json:"min_vote"`
	Fed      []string    `json:"federation"` // hex xpubs
	Solo     bool        `json:"solo"`
	Height0  uint64      `json:"height0"`
	Ts0      uint64      `json:"ts0"`
	Status0  uint8       `json:"status0"`
	Votes0   []kv        `json:"votes0"`
	Blocks   []blockSpec `json:"blocks"`
	Times    []uint64    `json:"times"`
	Valid    bool        `json:"valid_history"`
	Real     bool        `json:"real_keys"`
}

// ---- projections -----------------------------------------------------------

type vrec struct {
	Pub   string
	Order int
	Votes uint64
}

func projMap(m map[string]*state.Validator) []vrec {
	var out []vrec
	for k, v := range m {
		if v == nil {
			out = append(out, vrec{Pub: k, Order: -1})
			continue
		}
		out = append(out, vrec{v.PubKey, v.Order, v.VoteNum})
	}
	sort.Slice(out, func(i, j int) bool {
		if out[i].Order != out[j].Order {
			return out[i].Order < out[j].Order
		}
		return out[i].Pub < out[j].Pub
	})
	return out
}

func projList(l []*state.Validator) []vrec {
	var out []vrec
	for _, v := range l {
		out = append(out, vrec{v.PubKey, 0, v.VoteNum})
	}
	return out
}

func eqV(a, b []vrec) bool {
	if len(a) != len(b) {
		return false
	}
	for i := range a {
		if a[i] != b[i] {
			return false
		}
	}
	return true
}

type gvres struct {
	Panic bool
	Nil   bool
	V     vrec
}

func callGV(cp *state.Checkpoint, t uint64) (r gvres) {
	defer func() {
		if e := recover(); e != nil {
			r = gvres{Panic: true}
		}
	}()
	v := cp.GetValidator(t)
	if v == nil {
		return gvres{Nil: true}
	}
	return gvres{V: vrec{v.PubKey, v.Order, v.VoteNum}}
}

// long byte strings (the real xpubs and their hex forms) are defined once in the
// header of every case file and referred to by name: Coq's front end is slow on
// long numeral lists
var keyNames = map[string]string{}
var keyDefs strings.Builder

func nameKey(b []byte) {
	if _, ok := keyNames[string(b)]; ok {
		return
	}
	name := fmt.Sprintf("key%d", len(keyNames))
	keyNames[string(b)] = name
	fmt.Fprintf(&keyDefs, "Definition %s : key := %s.\n", name, CoqBytes(b))
}
func coqBytes(b []byte) string {
	if n, ok := keyNames[string(b)]; ok {
		return n
	}
	return CoqBytes(b)
}
func coqKey(s string) string { return coqBytes([]byte(s)) }

func coqVrec(v vrec) string {
	return fmt.Sprintf("(%s, %d, %d)", coqKey(v.Pub), v.Order, v.Votes)
}

// ---- declarative ranking (oracle) -------------------------------------------

type cand struct {
	k string
	v uint64
}

// beats: a ranks before b
func beats(a, b cand) bool {
	if a.v != b.v {
		return a.v > b.v
	}
	return a.k > b.k
}

func specEffective(votes map[string]uint64, status state.CheckpointStatus, minv uint64, fed []string) (eff []vrec, all []vrec) {
	var cs []cand
	if status != state.Growing {
		for k, v := range votes {
			if v >= minv {
				cs = append(cs, cand{k, v})
			}
		}
	}
	if len(cs) == 0 {
		for i, f := range fed {
			eff = append(eff, vrec{f, i, 0})
		}
		return eff, nil
	}
	all = make([]vrec, len(cs))
	for _, c := range cs {
		rank := 0
		for _, d := range cs {
			if beats(d, c) {
				rank++
			}
		}
		all[rank] = vrec{c.k, 0, c.v}
		if rank < 10 {
			eff = append(eff, vrec{c.k, rank, c.v})
		}
	}
	sort.Slice(eff, func(i, j int) bool { return eff[i].Order < eff[j].Order })
	return eff, all
}

// ---- generation -------------------------------------------------------------

type keyring struct {
	voteXprv []chainkd.XPrv
	fedXprv  []chainkd.XPrv
	byPub    map[string]chainkd.XPrv // hex xpub -> xprv
}

func newKeyring(r *Rng) *keyring {
	kr := &keyring{byPub: map[string]chainkd.XPrv{}}
	for i := 0; i < 16; i++ {
		x, _ := chainkd.NewXPrv(rngReader{r})
		kr.voteXprv = append(kr.voteXprv, x)
		kr.byPub[x.XPub().String()] = x
		xp := x.XPub()
		nameKey(xp[:])
		nameKey([]byte(xp.String()))
	}
	for i := 0; i < 6; i++ {
		x, _ := chainkd.NewXPrv(rngReader{r})
		kr.fedXprv = append(kr.fedXprv, x)
		kr.byPub[x.XPub().String()] = x
		nameKey([]byte(x.XPub().String()))
	}
	return kr
}

var byteAlphabet = []byte{0x00, 0x01, 0x09, 0x0a, 0x0f, 0x10, 0x7f, 0x80, 0xa0, 0xff}

func pick64(r *Rng, xs ...uint64) uint64 { return xs[r.Intn(len(xs))] }

func genCase(idx int, r *Rng, kr *keyring, st *Stats) *caseSpec {
	c := &caseSpec{Index: idx}
	c.Real = r.Chance(12)
	// vote keys (the bytes put into VetoInput.Vote / VoteOutput.Vote)
	nk := 1 + r.Intn(16)
	if r.Chance(30) {
		nk = 11 + r.Intn(6) // more than ten candidates
	}
	var keys [][]byte
	if c.Real {
		perm := shuffled(r, 16)
		for i := 0; i < nk; i++ {
			xp := kr.voteXprv[perm[i]].XPub()
			keys = append(keys, append([]byte{}, xp[:]...))
		}
	} else {
		seen := map[string]bool{}
		for len(keys) < nk {
			l := 1 + r.Intn(3)
			b := make([]byte, l)
			for i := range b {
				b[i] = byteAlphabet[r.Intn(len(byteAlphabet))]
			}
			if r.Chance(40) && len(keys) > 0 { // extend an existing key: prefix relation
				p := keys[r.Intn(len(keys))]
				b = append(append([]byte{}, p...), byteAlphabet[r.Intn(len(byteAlphabet))])
			}
			if !seen[string(b)] && len(b) <= 4 {
				seen[string(b)] = true
				keys = append(keys, b)
			}
		}
	}
	// parameters
	c.E = pick64(r, 1, 2, 3, 3, 4, 4, 5)
	if r.Chance(1) {
		c.E = 0
	}
	c.Interval = pick64(r, 6000, 6000, 6000, 6000, 1, 2, 500, 1+uint64(r.Intn(10000)))
	if r.Chance(4) {
		c.Interval = pick64(r, 0, 1<<62, 1<<63, ^uint64(0), (1<<64-1)/3+1)
	}
	c.MinV = pick64(r, 1, 50, 50, 100, 100, 101, 150, 1000)
	if r.Chance(5) {
		c.MinV = pick64(r, 0, 100000000, 1<<63, ^uint64(0))
	}
	nf := 1 + r.Intn(5)
	if r.Chance(3) {
		nf = 0
	}
	fperm := shuffled(r, 6)
	for i := 0; i < nf; i++ {
		c.Fed = append(c.Fed, kr.fedXprv[fperm[i]].XPub().String())
	}
	if nf >= 2 && r.Chance(2) { // repeated federation key (configuration error)
		c.Fed[nf-1] = c.Fed[0]
	}
	if r.Chance(3) {
		c.Solo = true
	}
	// initial checkpoint
	c.Ts0 = pick64(r, 0, 1000, 1700000000000, 1700000000000, 1700000003000, 1<<63)
	if r.Chance(2) {
		c.Ts0 = ^uint64(0) - uint64(r.Intn(20000))
	}
	c.Status0 = uint8(r.Intn(4))
	c.Valid = r.Chance(65)
	amounts := []uint64{10, 50, 50, 100, 100, 100, 150, 1000}
	shadow := map[string]uint64{} // generator-side running tally (floor rule), hex key -> tally
	present := map[string]bool{}
	many := nk >= 11 && r.Chance(50) // all keys start as candidates: more than ten qualify
	if many {
		c.MinV = pick64(r, 1, 10, 50)
	}
	if many || r.Chance(60) {
		n0 := r.Intn(len(keys) + 1)
		if many {
			n0 = len(keys)
		}
		perm := shuffled(r, len(keys))
		for i := 0; i < n0; i++ {
			hk := hex.EncodeToString(keys[perm[i]])
			v := amounts[r.Intn(len(amounts))]
			if r.Chance(8) && !many {
				v = 0
			}
			if !c.Valid && r.Chance(5) {
				v = pick64(r, ^uint64(0), 1<<63, ^uint64(0)-50)
			}
			c.Votes0 = append(c.Votes0, kv{hex.EncodeToString([]byte(hk)), v})
			shadow[hk] = v
			present[hk] = true
		}
		if !c.Real && r.Chance(15) { // map keys that are not lower-case hex (bytewise unsigned order)
			for _, s := range []string{"AB", "\xff\x01", "zz", "0", ""} {
				if r.Chance(50) && !present[s] {
					c.Votes0 = append(c.Votes0, kv{hex.EncodeToString([]byte(s)), amounts[r.Intn(len(amounts))]})
					present[s] = true
				}
			}
		}
	}
	// blocks: often end exactly at an epoch end so that the status is Unjustified
	E := c.E
	if E == 0 {
		E = 3
	}
	c.Height0 = E*uint64(r.Intn(3)) + uint64(r.Intn(int(E)+1))
	nb := r.Intn(9)
	if r.Chance(60) {
		// stop on a multiple of E
		target := (c.Height0/E + 1 + uint64(r.Intn(2))) * E
		nb = int(target - c.Height0)
	}
	ts := c.Ts0
	for b := 0; b < nb; b++ {
		step := c.Interval
		if step == 0 || step > 1<<40 {
			step = 7
		}
		ts += step * uint64(1+r.Intn(3))
		bs := blockSpec{Height: c.Height0 + uint64(b) + 1, Ts: ts}
		ntx := 1 + r.Intn(3)
		for t := 0; t < ntx; t++ {
			var tx txSpec
			if t == 0 { // coinbase-like first transaction: one plain output
				tx.Outs = append(tx.Outs, outSpec{})
			}
			nin := r.Intn(4)
			for i := 0; i < nin; i++ {
				if r.Chance(25) {
					tx.Ins = append(tx.Ins, inSpec{Amt: amounts[r.Intn(len(amounts))]})
					continue
				}
				k := keys[r.Intn(len(keys))]
				hk := hex.EncodeToString(k)
				cur := shadow[hk]
				var amt uint64
				if c.Valid {
					if cur == 0 {
						continue
					}
					switch r.Intn(4) {
					case 0:
						amt = cur // exactly the tally: entry is removed
					case 1:
						amt = cur - 1
					case 2:
						amt = 1 + uint64(r.Intn(int(min64(cur, 1000))))
					default:
						amt = amounts[r.Intn(len(amounts))]
						if amt > cur {
							amt = cur
						}
					}
				} else {
					switch r.Intn(6) {
					case 0:
						amt = cur
					case 1:
						amt = cur + 1
					case 2:
						amt = cur - 1 // wraps to 2^64-1 when cur = 0
					case 3:
						amt = 0
					case 4:
						amt = amounts[r.Intn(len(amounts))]
					default:
						amt = pick64(r, ^uint64(0), 1<<63, 1)
					}
				}
				tx.Ins = append(tx.Ins, inSpec{Veto: true, Key: hk, Amt: amt})
				if cur > amt {
					shadow[hk] = cur - amt
				} else {
					delete(shadow, hk)
				}
			}
			nout := r.Intn(4)
			for i := 0; i < nout; i++ {
				if r.Chance(20) {
					tx.Outs = append(tx.Outs, outSpec{Amt: amounts[r.Intn(len(amounts))]})
					continue
				}
				k := keys[r.Intn(len(keys))]
				hk := hex.EncodeToString(k)
				amt := amounts[r.Intn(len(amounts))]
				if r.Chance(4) {
					amt = 0
				}
				if !c.Valid && r.Chance(6) {
					amt = pick64(r, ^uint64(0), 1<<63, ^uint64(0)-shadow[hk]+1, ^uint64(0)-shadow[hk])
				}
				if c.Valid && shadow[hk]+amt < amt {
					amt = 0
				}
				tx.Outs = append(tx.Outs, outSpec{Vote: true, Key: hk, Amt: amt})
				shadow[hk] += amt
			}
			bs.Txs = append(bs.Txs, tx)
		}
		c.Blocks = append(c.Blocks, bs)
	}
	return c
}

func min64(a, b uint64) uint64 {
	if a < b {
		return a
	}
	return b
}

func shuffled(r *Rng, n int) []int {
	p := make([]int, n)
	for i := range p {
		p[i] = i
	}
	for i := n - 1; i > 0; i-- {
		j := r.Intn(i + 1)
		p[i], p[j] = p[j], p[i]
	}
	return p
}

// block times to query, relative to the final checkpoint
func genTimes(r *Rng, cpTs, interval uint64, n int) []uint64 {
	start := cpTs + interval
	var out []uint64
	if n == 0 {
		n = 1
	}
	iv := interval
	cnt := 6 + r.Intn(5)
	for i := 0; i < cnt; i++ {
		j := uint64(r.Intn(3*n + 2))
		var off uint64
		switch r.Intn(5) {
		case 0:
			off = 0
		case 1:
			off = iv - 1 // last millisecond of the slot
		case 2:
			off = 1
		case 3:
			if iv > 0 {
				off = uint64(r.Next() % iv)
			}
		default:
			off = iv // first millisecond of the next slot
		}
		out = append(out, start+j*iv+off)
	}
	out = append(out, start) // exactly the epoch start
	if r.Chance(30) {        // before the start / far away: only compared with the model
		out = append(out, pick64(r, start-1, cpTs, 0, ^uint64(0), start-iv-1))
	}
	return out
}

// ---- building real objects ----------------------------------------------------

func mustHex(s string) []byte {
	b, err := hex.DecodeString(s)
	if err != nil {
		panic(err)
	}
	return b
}

func buildBlock(prev bc.Hash, bs blockSpec) *types.Block {
	b := &types.Block{BlockHeader: types.BlockHeader{Version: 1, Height: bs.Height, PreviousBlockHash: prev, Timestamp: bs.Ts}}
	for ti, ts := range bs.Txs {
		td := types.TxData{Version: 1}
		if ti == 0 {
			td.Inputs = append(td.Inputs, types.NewCoinbaseInput([]byte{byte(bs.Height)}))
		}
		for i, in := range ts.Ins {
			src := bc.NewHash([32]byte{byte(ti), byte(i), byte(bs.Height)})
			if in.Veto {
				td.Inputs = append(td.Inputs, types.NewVetoInput(nil, src, *consensus.BTMAssetID, in.Amt, uint64(i), []byte{0x51}, mustHex(in.Key), nil))
			} else {
				td.Inputs = append(td.Inputs, types.NewSpendInput(nil, src, *consensus.BTMAssetID, in.Amt, uint64(i), []byte{0x51}, nil))
			}
		}
		for _, o := range ts.Outs {
			if o.Vote {
				td.Outputs = append(td.Outputs, types.NewVoteOutput(*consensus.BTMAssetID, o.Amt, []byte{0x51}, mustHex(o.Key), nil))
			} else {
				td.Outputs = append(td.Outputs, types.NewOriginalTxOutput(*consensus.BTMAssetID, o.Amt, []byte{0x51}, nil))
			}
		}
		b.Transactions = append(b.Transactions, &types.Tx{TxData: td})
	}
	return b
}

func setParams(c *caseSpec, kr *keyring) {
	p := consensus.MainNetParams
	p.Name = "verif"
	if c.Solo {
		p.Name = consensus.SoloNetParams.Name
		cfg := config.DefaultConfig()
		x := kr.fedXprv[0]
		cfg.XPrv = &x
		config.CommonConfig = cfg
	}
	p.BlocksOfEpoch = c.E
	p.BlockTimeInterval = c.Interval
	p.MinValidatorVoteNum = c.MinV
	p.MaxTimeOffsetMs = 1 << 62
	p.FederationXpubs = nil
	for _, f := range c.Fed {
		var xp chainkd.XPub
		copy(xp[:], mustHex(f))
		p.FederationXpubs = append(p.FederationXpubs, xp)
	}
	consensus.ActiveNetParams = p
}

// walk the branch; ok=false when the implementation panicked
func walk(c *caseSpec) (cp *state.Checkpoint, ok bool) {
	defer func() {
		if e := recover(); e != nil {
			cp, ok = nil, false
		}
	}()
	cp = &state.Checkpoint{Height: c.Height0, Timestamp: c.Ts0, Status: state.CheckpointStatus(c.Status0),
		Hash: bc.NewHash([32]byte{1}), Rewards: map[string]uint64{}, Votes: map[string]uint64{}}
	for _, e := range c.Votes0 {
		cp.Votes[string(mustHex(e.K))] = e.V
	}
	for _, bs := range c.Blocks {
		blk := buildBlock(cp.Hash, bs)
		// casper.applyBlockToCheckpoint: a child checkpoint at the first block of an epoch
		if c.E != 0 && blk.Height%c.E == 1 {
			cp = state.NewCheckpoint(cp)
		}
		if err := cp.Increase(blk); err != nil {
			panic("harness: Increase refused a correctly chained block: " + err.Error())
		}
	}
	return cp, true
}

func reshuffleVotes(cp *state.Checkpoint, r *Rng) {
	ks := make([]string, 0, len(cp.Votes))
	for k := range cp.Votes {
		ks = append(ks, k)
	}
	sort.Strings(ks)
	p := shuffled(r, len(ks))
	m := make(map[string]uint64, len(ks))
	for _, i := range p {
		m[ks[i]] = cp.Votes[ks[i]]
	}
	cp.Votes = m
}

func sortedVotes(m map[string]uint64) []kv {
	var out []kv
	for k, v := range m {
		out = append(out, kv{k, v})
	}
	sort.Slice(out, func(i, j int) bool { return out[i].K < out[j].K })
	return out
}

// ---- model expression ---------------------------------------------------------

func modelExpr(c *caseSpec, fedEff []string, times []uint64) string {
	var sb strings.Builder
	fmt.Fprintf(&sb, "run_case %d%%nat %d %d %d ", consensus.MaxNumOfValidators, c.E, c.Interval, c.MinV)
	var fs []string
	for _, f := range fedEff {
		fs = append(fs, coqKey(f))
	}
	sb.WriteString(CoqList(fs))
	// initial votes sorted by key bytes
	v0 := map[string]uint64{}
	for _, e := range c.Votes0 {
		v0[string(mustHex(e.K))] = e.V
	}
	var es []string
	for _, e := range sortedVotes(v0) {
		es = append(es, fmt.Sprintf("(%s, %d)", coqKey(e.K), e.V))
	}
	fmt.Fprintf(&sb, " (CP %d %d %d %s) ", c.Height0, c.Ts0, c.Status0, CoqList(es))
	var bl []string
	for _, b := range c.Blocks {
		var txs []string
		for _, t := range b.Txs {
			var ins, outs []string
			for _, i := range t.Ins {
				if i.Veto {
					ins = append(ins, fmt.Sprintf("IVeto %s %d", coqBytes(mustHex(i.Key)), i.Amt))
				} else {
					ins = append(ins, "IOther")
				}
			}
			for _, o := range t.Outs {
				if o.Vote {
					outs = append(outs, fmt.Sprintf("OVote %s %d", coqBytes(mustHex(o.Key)), o.Amt))
				} else {
					outs = append(outs, "OOther")
				}
			}
			txs = append(txs, fmt.Sprintf("T %s %s", CoqList(ins), CoqList(outs)))
		}
		bl = append(bl, fmt.Sprintf("B %d %d %s", b.Height, b.Ts, CoqList(txs)))
	}
	sb.WriteString(CoqList(bl))
	var tl []string
	for _, t := range times {
		tl = append(tl, fmt.Sprint(t))
	}
	sb.WriteString(" " + CoqList(tl))
	return sb.String()
}

// ---- one case -------------------------------------------------------------------

func bigU(x uint64) *big.Int { return new(big.Int).SetUint64(x) }

func runCase(c *Ctx, cs *caseSpec, kr *keyring) {
	st := c.Stats
	fail := func(what string, extra map[string]interface{}) {
		d := map[string]interface{}{"case": cs}
		for k, v := range extra {
			d[k] = v
		}
		st.Fail(what, d)
	}
	setParams(cs, kr)
	fedEff := cs.Fed
	if cs.Solo {
		fedEff = []string{kr.fedXprv[0].XPub().String()}
	}
	degenerate := cs.E == 0 || cs.Interval == 0 || len(fedEff) == 0
	fedDup := false
	for i := range fedEff {
		for j := 0; j < i; j++ {
			if fedEff[i] == fedEff[j] {
				degenerate, fedDup = true, true
			}
		}
	}
	cp, ok := walk(cs)
	if !ok {
		st.Count("branch:panic")
		if cs.E != 0 {
			fail("class=branch-panic: applying a well-formed branch panicked", nil)
		}
		id := c.Cases.Add(modelExpr(cs, fedEff, nil), "None")
		st.CaseIndex[fmt.Sprint(id)] = map[string]interface{}{"index": cs.Index}
		st.Count("model_evaluated")
		st.Case(fmt.Sprint("panic", cs.Index), false)
		return
	}
	st.Count("branch:ok")

	// ---- oracle 1: tally = votes - vetoes on valid histories (math/big) ----
	if cs.Valid {
		want := map[string]*big.Int{}
		for _, e := range cs.Votes0 {
			want[string(mustHex(e.K))] = bigU(e.V)
		}
		get := func(k string) *big.Int {
			if want[k] == nil {
				want[k] = new(big.Int)
			}
			return want[k]
		}
		for _, b := range cs.Blocks {
			for _, t := range b.Txs {
				for _, i := range t.Ins {
					if i.Veto {
						get(i.Key).Sub(get(i.Key), bigU(i.Amt))
					}
				}
				for _, o := range t.Outs {
					if o.Vote {
						get(o.Key).Add(get(o.Key), bigU(o.Amt))
					}
				}
			}
		}
		for k, w := range want {
			if w.Sign() < 0 || w.BitLen() > 64 {
				panic("harness: history marked valid is not")
			}
			if got := cp.Votes[k]; got != w.Uint64() {
				fail(fmt.Sprintf("class=tally: key %x has tally %d, votes minus vetoes is %s", k, got, w), nil)
			}
		}
		for k, got := range cp.Votes {
			if want[k] == nil && got != 0 {
				fail(fmt.Sprintf("class=tally: key %x has tally %d but never received a vote", k, got), nil)
			}
		}
		st.Count("history:valid")
	} else {
		st.Count("history:wild")
	}

	// ---- evaluate 20 times ----
	votesDump := sortedVotes(cp.Votes)
	var eff0, all0 []vrec
	for rep := 0; rep < reps; rep++ {
		if rep%2 == 1 {
			reshuffleVotes(cp, c.Rng)
		}
		all := projList(cp.AllValidators())
		eff := projMap(cp.EffectiveValidators())
		if rep == 0 {
			eff0, all0 = eff, all
			continue
		}
		if !eqV(all, all0) {
			fail("class=nondeterministic: AllValidators differs between evaluations of the same checkpoint",
				map[string]interface{}{"first": all0, "other": all})
			break
		}
		if !eqV(eff, eff0) {
			fail("class=nondeterministic: EffectiveValidators differs between evaluations of the same checkpoint",
				map[string]interface{}{"first": eff0, "other": eff})
			break
		}
	}
	// ---- oracle 2: declarative ranking ----
	specEff, specAll := specEffective(cp.Votes, cp.Status, cs.MinV, fedEff)
	if fedDup && len(specAll) == 0 {
		// a repeated federation key is a configuration error: the property says nothing; model only
		st.Count("validators:federation-with-repeated-key")
	} else if !eqV(eff0, specEff) {
		fail("class=ranking: EffectiveValidators is not the top ten by (votes, key) among tallies >= minimum, else the federation",
			map[string]interface{}{"got": eff0, "want": specEff, "votes": votesDump})
	}
	if !eqV(all0, specAll) {
		fail("class=ranking: AllValidators is not the candidates ranked by (votes, key)",
			map[string]interface{}{"got": all0, "want": specAll, "votes": votesDump})
	}
	if len(eff0) > 10 && len(specAll) > 0 {
		fail("class=ranking: more than ten effective validators", map[string]interface{}{"got": eff0})
	}
	switch {
	case len(specAll) == 0:
		st.Count("validators:federation")
	case len(specAll) > 10:
		st.Count("validators:more-than-ten-candidates")
	case len(specAll) == 10:
		st.Count("validators:exactly-ten-candidates")
	default:
		st.Count("validators:1-9-candidates")
	}
	ties := false
	for i := 1; i < len(specAll); i++ {
		if specAll[i].Votes == specAll[i-1].Votes {
			ties = true
		}
	}
	if ties {
		st.Count("validators:tie-on-votes")
	}
	st.Count(fmt.Sprintf("status:%d", cp.Status))
	st.Count(fmt.Sprintf("blocks:%d", len(cs.Blocks)))
	st.Count(fmt.Sprintf("keys_in_map:%d", len(cp.Votes)))

	// ---- schedule ----
	n := len(eff0)
	times := genTimes(c.Rng, cp.Timestamp, cs.Interval, n)
	cs.Times = times
	start := cp.Timestamp + cs.Interval
	noOverflow := n >= 1 && cs.Interval >= 1 && start >= cp.Timestamp &&
		new(big.Int).Mul(bigU(uint64(n)), bigU(cs.Interval)).BitLen() <= 64 && !degenerate
	var gvObs []string
	for _, t := range times {
		first := callGV(cp, t)
		for rep := 1; rep < reps; rep++ {
			if g := callGV(cp, t); g != first {
				fail(fmt.Sprintf("class=nondeterministic: GetValidator(%d) differs between evaluations", t),
					map[string]interface{}{"first": first, "other": g})
				break
			}
		}
		switch {
		case first.Panic:
			gvObs = append(gvObs, "None")
			st.Count("getvalidator:panic")
		case first.Nil:
			gvObs = append(gvObs, "(Some None)")
			st.Count("getvalidator:nil")
		default:
			gvObs = append(gvObs, "(Some (Some "+coqVrec(first.V)+"))")
			st.Count("getvalidator:validator")
		}
		if noOverflow && t >= start {
			// oracle 3: exactly one validator, round-robin by slot
			slot := int(((t - start) / cs.Interval) % uint64(n))
			cnt := 0
			var want vrec
			for _, v := range eff0 {
				if v.Order == slot {
					cnt++
					want = v
				}
			}
			if cnt != 1 {
				fail(fmt.Sprintf("class=schedule: %d validators have order %d at time %d", cnt, slot, t),
					map[string]interface{}{"effective": eff0})
			} else if first.Panic || first.Nil || first.V != want {
				fail(fmt.Sprintf("class=schedule: GetValidator(%d) is not the validator of slot %d (start %d, interval %d, n %d)", t, slot, start, cs.Interval, n),
					map[string]interface{}{"got": first, "want": want, "effective": eff0})
			}
			st.Count("time:at-or-after-start")
			if (t-start)%cs.Interval == 0 {
				st.Count("time:slot-boundary")
			}
		} else if !noOverflow {
			st.Count("time:degenerate-config-or-overflow")
		} else {
			st.Count("time:before-start")
		}
	}

	// ---- oracle 4: block header validation accepts exactly the scheduled signer ----
	if noOverflow && cs.Interval < 1<<40 && start < 1<<62 {
		held := 0
		for _, v := range eff0 {
			if _, ok := kr.byPub[v.Pub]; ok {
				held++
			}
		}
		if held == n && (cs.Real || len(specAll) == 0) {
			parent := &types.BlockHeader{Version: 1, Height: cp.Height, Timestamp: cp.Timestamp}
			for q := 0; q < 2; q++ {
				j := uint64(c.Rng.Intn(2*n + 1))
				t := start + j*cs.Interval + uint64(c.Rng.Next()%cs.Interval)
				slot := int(((t - start) / cs.Interval) % uint64(n))
				hdr := &types.BlockHeader{Version: 1, Height: cp.Height + 1, PreviousBlockHash: parent.Hash(), Timestamp: t}
				for _, v := range eff0 {
					x := kr.byPub[v.Pub]
					hdr.BlockWitness.Set(x.Sign(hdr.Hash().Bytes()))
					err := safeValidate(hdr, parent, cp)
					accepted := err == nil
					if accepted != (v.Order == slot) {
						fail(fmt.Sprintf("class=signer: header at time %d signed by the validator of order %d: accepted=%v, scheduled order is %d", t, v.Order, accepted, slot),
							map[string]interface{}{"effective": eff0, "err": fmt.Sprint(err)})
					}
					if accepted {
						st.Count("header:accepted")
					} else {
						st.Count("header:rejected")
					}
				}
			}
		}
	}

	// ---- correspondence ----
	var votesC, allC, effC []string
	for _, e := range votesDump {
		votesC = append(votesC, fmt.Sprintf("(%s, %d)", coqKey(e.K), e.V))
	}
	for _, v := range all0 {
		allC = append(allC, fmt.Sprintf("(%s, %d)", coqKey(v.Pub), v.Votes))
	}
	for _, v := range eff0 {
		effC = append(effC, coqVrec(v))
	}
	obs := fmt.Sprintf("Some (%d, %d, %d, %s, %s, %s, %s)", cp.Status, cp.Height, cp.Timestamp,
		CoqList(votesC), CoqList(allC), CoqList(effC), CoqList(gvObs))
	expr := modelExpr(cs, fedEff, times)
	id := c.Cases.Add(expr, obs)
	short := expr
	if len(short) > 400 {
		short = short[:400] + "..."
	}
	st.CaseIndex[fmt.Sprint(id)] = map[string]interface{}{"index": cs.Index, "model": short}
	st.Count("model_evaluated")
	st.Case(expr, n >= 1 && len(cs.Blocks)+len(cs.Votes0) > 0)
	if degenerate {
		st.Count("config:degenerate")
	}
	if cs.Real {
		st.Count("keys:real-xpubs")
	} else {
		st.Count("keys:short")
	}
	if cs.Index%397 == 0 {
		st.Sample(map[string]interface{}{"case": cs, "effective": eff0, "votes": votesDump})
	}
}

func safeValidate(hdr, parent *types.BlockHeader, cp *state.Checkpoint) (err error) {
	defer func() {
		if e := recover(); e != nil {
			err = fmt.Errorf("panic: %v", e)
		}
	}()
	return validation.ValidateBlockHeader(hdr, parent, cp)
}

func run(c *Ctx) error {
	kr := newKeyring(c.Rng)
	n := c.N(1200, 6000)
	c.Cases.Shard = c.N(86, 220) // 14 shards in the quick tier: one per core the driver uses
	for i := 0; i < n; i++ {
		cs := genCase(i, c.Rng, kr, c.Stats)
		runCase(c, cs, kr)
	}
	c.Stats.Rule = "each case is a distinct branch history (initial votes map, status, timestamp; 0-10 blocks with veto inputs and vote outputs over 1-16 keys with frequent ties, prefixes, vetoes equal to / above the tally, wrap-around amounts in the wild stream), consensus parameters and 7-12 block times (slot boundaries, +-1 ms, before the start); a case is non-trivial when the effective validator set is non-empty and the history is not empty; every case runs the real NewCheckpoint/Increase/AllValidators/EffectiveValidators/GetValidator 20 times and is compared with the declarative oracle and with the Coq model"
	header := "From Coq Require Import List NArith.\nFrom Verif Require Import Outcome Cmp.\nFrom C15 Require Import Model Run.\nImport ListNotations.\nOpen Scope N_scope.\n" + keyDefs.String()
	if err := c.Cases.Write(c.Out, header, "case_result", "case_eqb"); err != nil {
		return err
	}
	// translator cross-check: the generated getValidatorOrder (C15/Tie.v) against the compiled one
	if err := fraglib.ValidatorOrder(c); err != nil {
		return err
	}
	// last: chainlib.Init sets the global consensus parameters
	return chainStage(c)
}
