// C15, chain level: the schedule a running node answers with (Chain.GetValidator, through casper's
// checkpoint lookup and its caches) is the schedule of the checkpoint that governs the block being
// proposed, whatever queries were made before.  Real node on LevelDB, blocks built offline by
// chainlib (4-key federation, epochs of 4 blocks, skipped slots so that epochs do not last a whole
// number of rounds).  Oracle: for every block of the chain and a few later slots, the key the node
// names for (parent, time) is the key chainlib's own bookkeeping schedules, and the node accepts the
// block signed by that key - also right after validator queries about the parent.
package main

import (
	"fmt"
	"os"

	"github.com/bytom/bytom/protocol/bc"

	cl "verifharness/chainlib"
	. "verifharness/hlib"
)

func chainStage(c *Ctx) error {
	r := c.Rng
	w := cl.Init(cl.DefaultOptions())
	rounds := c.N(6, 30)
	checked := 0
	for round := 0; round < rounds; round++ {
		dir, err := os.MkdirTemp("", "c15chain")
		if err != nil {
			return err
		}
		node, err := cl.NewNode(dir)
		if err != nil {
			os.RemoveAll(dir)
			return fmt.Errorf("chainlib.NewNode: %v", err)
		}
		parent := w.Genesis
		var hist []map[string]interface{}
		fail := func(class, what string) {
			c.Stats.Fail("class="+class+": "+what, map[string]interface{}{"kind": "chain-schedule", "round": round, "history": hist})
		}
		ok := true
		for h := 1; h <= 14 && ok; h++ {
			skip := 0
			if r.Chance(35) {
				skip = 1 + r.Intn(3)
			}
			queried := r.Chance(50)
			hist = append(hist, map[string]interface{}{"height": h, "skip": skip, "validators_queried_first": queried})
			ph := parent.Hash
			if queried {
				// the queries a node serves about its tip (API, block proposer, vote handling)
				node.Chain.AllValidators(&ph)
				node.Chain.GetValidator(&ph, parent.Block.Timestamp)
			}
			for k := 0; k <= skip+2; k++ {
				ts, want := w.ProposerSlot(parent, k)
				v, err := node.Chain.GetValidator(&ph, ts)
				checked++
				if err != nil {
					fail("schedule-error", fmt.Sprintf("Chain.GetValidator(block at height %d, its %d-th next slot) fails: %v", h-1, k, err))
					ok = false
					break
				}
				if v.PubKey != w.Pubs[want].String() {
					got := -1
					for i := range w.Pubs {
						if w.Pubs[i].String() == v.PubKey {
							got = i
						}
					}
					fail("schedule-differs", fmt.Sprintf("for a child of the block at height %d in its %d-th next slot the node schedules validator %d, the governing checkpoint schedules validator %d", h-1, k, got, want))
					ok = false
					break
				}
			}
			if !ok {
				break
			}
			b := w.NewBlock(parent, nil, cl.BlockOpt{Skip: skip})
			orphan, err := node.Process(b.Block)
			if err != nil || orphan {
				fail("scheduled-block-refused", fmt.Sprintf("the block at height %d signed by the scheduled validator %d is refused: orphan=%v err=%v", h, b.Proposer, orphan, err))
				break
			}
			if best := node.Chain.BestBlockHash(); *best != bc.Hash(b.Hash) {
				fail("scheduled-block-refused", fmt.Sprintf("the block at height %d did not become the best block", h))
				break
			}
			parent = b
		}
		node.CloseSettled()
		os.RemoveAll(dir)
	}
	c.Stats.Distribution["chain-schedule.checked"] = checked
	return nil
}
