package main

// C12 — blocks delivered in any order are all connected without crashing
// (protocol/block.go processBlock / saveBlock / saveSubBlock, protocol/orphan_manage.go).
//
// A case is a block tree rooted at genesis (block i = label i, parent label < i;
// siblings differ by their time slot; a few blocks are made invalid by a header
// mutation) and a delivery order (a permutation of the labels; the malformed
// stream also repeats and omits blocks).  Real signed blocks are built offline
// by chainlib; every case runs on a fresh real node (protocol.Chain on LevelDB)
// inside a CHILD PROCESS, because a panic in the chain's goroutine kills the
// process: an abnormal exit of the child while a case is in progress is the
// observable Panic of that case.
//
// Direct oracle (implementation outputs only, no model): no panic / hang; the
// stored set equals the closure of the delivered set (a delivered valid block
// is stored iff all its ancestors were delivered and are valid); no valid
// orphan is left whose parent is stored; every delivered valid block is either
// stored or waiting in the orphan pool; the orphan index lists every waiting
// valid orphan under its parent; delivering the same set in tree order to a fresh
// node stores the same set.
//
// Correspondence: per delivery (orphan flag, error class), finally stored /
// orphan membership per block and the orphan index per parent, against the Coq
// model C12.Run.run_case.

import (
	"bufio"
	"bytes"
	"encoding/json"
	"fmt"
	"os"
	"os/exec"
	"path/filepath"
	"sort"
	"strconv"
	"strings"
	"sync"
	"time"

	"github.com/bytom/bytom/database"
	dbm "github.com/bytom/bytom/database/leveldb"
	"github.com/bytom/bytom/errors"
	"github.com/bytom/bytom/event"
	"github.com/bytom/bytom/protocol"
	"github.com/bytom/bytom/protocol/bc"
	"github.com/bytom/bytom/protocol/bc/types"
	cl "verifharness/chainlib"
	. "verifharness/hlib"
)

func main() { Main("C12", runC12, map[string]func([]string) int{"batch": childBatch}) }

// ---------------------------------------------------------------- case format

type Case struct {
	ID      int    `json:"id"`
	Kind    string `json:"kind"`
	Parents []int  `json:"parents"`       // Parents[i] = label of the parent of block i+1 (0 = genesis)
	Bad     []int  `json:"bad"`           // per block: 0 valid, 1 header version 2 (invalid), 2 signed by the wrong key (invalid)
	Order   []int  `json:"order"`         // delivered labels, in order
	Ref     bool   `json:"ref"`           // also deliver the same set in tree order to a second fresh node
	Par     int    `json:"par,omitempty"` // >1: the order is delivered in windows of Par blocks, each window from Par goroutines at once
}

type Step struct {
	Orphan bool `json:"orphan"`
	Err    int  `json:"err"` // 0 none, 1 ErrBadBlock, 2 any other error
}

type Result struct {
	ID     int     `json:"id"`
	Steps  []Step  `json:"steps"`
	Stored []bool  `json:"stored"`        // per label 0..n: store.GetBlockHeader succeeds
	Orphan []bool  `json:"orphan"`        // per label 0..n: OrphanManage.BlockExist
	Exist  []bool  `json:"exist"`         // per label 0..n: Chain.BlockExist
	Prev   [][]int `json:"prev"`          // per label 0..n as parent: labels listed by GetPrevOrphans (-1 = unknown hash)
	Best   uint64  `json:"best"`          // height of Chain.BestBlockHeader
	Ref    []bool  `json:"ref,omitempty"` // per label: stored by a fresh node that got the same set in tree order
	Panic  string  `json:"panic,omitempty"`
	Hang   bool    `json:"hang,omitempty"`
}

func (c *Case) n() int { return len(c.Parents) }

func (c *Case) treeKey() string {
	return fmt.Sprint(c.Parents, c.Bad)
}

// ---------------------------------------------------------------- child: runs cases on real nodes

type builtTree struct {
	blocks []*cl.BlockInfo // index = label
}

func buildTree(w *cl.World, c *Case) *builtTree {
	t := &builtTree{blocks: []*cl.BlockInfo{w.Genesis}}
	nchild := map[int]int{}
	for i, p := range c.Parents {
		opt := cl.BlockOpt{Skip: nchild[p]}
		nchild[p]++
		switch c.Bad[i] {
		case 1:
			opt.Mutate = func(b *types.Block) { b.Version = 2 }
		case 2:
			opt.BadSigner = true
		}
		t.blocks = append(t.blocks, w.NewBlock(t.blocks[p], nil, opt))
	}
	return t
}

func errClass(err error) int {
	switch {
	case err == nil:
		return 0
	case errors.Root(err) == protocol.ErrBadBlock:
		return 1
	}
	return 2
}

// The node's LevelDB stays open until the child exits: the node's background goroutines (casper's
// verification loop) keep reading it and panic on a closed database.
func runOne(w *cl.World, t *builtTree, c *Case, base string) (*Result, error) {
	return runNode(w, t, c, base, false)
}

func runNode(w *cl.World, t *builtTree, c *Case, base string, ref bool) (*Result, error) {
	dir := filepath.Join(base, fmt.Sprintf("node_%d_%v", c.ID, ref))
	if err := os.MkdirAll(dir, 0755); err != nil {
		return nil, err
	}
	db := dbm.NewDB("core", "leveldb", dir)
	store := database.NewStore(db)
	disp := event.NewDispatcher()
	pool := protocol.NewTxPool(store, disp)
	om := protocol.NewOrphanManage()
	chain, err := protocol.NewChainWithOrphanManage(store, pool, om, disp)
	if err != nil {
		return nil, err
	}
	r := &Result{ID: c.ID}
	if c.Ref && !ref {
		// the reference run: the same set of blocks, parents first, each once
		seen := map[int]bool{}
		var sorted []int
		for _, l := range c.Order {
			if !seen[l] {
				seen[l] = true
				sorted = append(sorted, l)
			}
		}
		sort.Ints(sorted)
		rr, err := runNode(w, t, &Case{ID: c.ID, Parents: c.Parents, Bad: c.Bad, Order: sorted}, base, true)
		if err != nil {
			return nil, err
		}
		r.Ref = rr.Stored
	}
	if c.Par > 1 {
		// peers deliver blocks concurrently: each window of Par deliveries is made from Par goroutines
		r.Steps = make([]Step, len(c.Order))
		for at := 0; at < len(c.Order); at += c.Par {
			var wg sync.WaitGroup
			for k := at; k < at+c.Par && k < len(c.Order); k++ {
				wg.Add(1)
				go func(k int) {
					defer wg.Done()
					orphan, err := chain.ProcessBlock(cl.CloneBlock(t.blocks[c.Order[k]].Block))
					r.Steps[k] = Step{orphan, errClass(err)}
				}(k)
			}
			wg.Wait()
		}
	} else {
		for _, l := range c.Order {
			orphan, err := chain.ProcessBlock(cl.CloneBlock(t.blocks[l].Block))
			r.Steps = append(r.Steps, Step{orphan, errClass(err)})
		}
	}
	label := map[bc.Hash]int{}
	for i, b := range t.blocks {
		label[b.Hash] = i
	}
	for _, b := range t.blocks {
		h := b.Hash
		_, err := store.GetBlockHeader(&h)
		r.Stored = append(r.Stored, err == nil)
		r.Orphan = append(r.Orphan, om.BlockExist(&h))
		r.Exist = append(r.Exist, chain.BlockExist(&h))
		prev, _ := om.GetPrevOrphans(&h)
		ls := []int{}
		for _, p := range prev {
			if l, ok := label[*p]; ok {
				ls = append(ls, l)
			} else {
				ls = append(ls, -1)
			}
		}
		r.Prev = append(r.Prev, ls)
	}
	r.Best = chain.BestBlockHeader().Height
	return r, nil
}

// child batch <file> <scratch dir>: prints "BEGIN <id>" before and one JSON result line after every case.
func childBatch(args []string) int {
	if len(args) != 2 {
		return 2
	}
	base := args[1]
	raw, err := os.ReadFile(args[0])
	if err != nil {
		fmt.Fprintln(os.Stderr, err)
		return 2
	}
	var cases []*Case
	if err := json.Unmarshal(raw, &cases); err != nil {
		fmt.Fprintln(os.Stderr, err)
		return 2
	}
	w := cl.Init(cl.DefaultOptions())
	out := bufio.NewWriter(os.Stdout)
	var lastKey string
	var tree *builtTree
	for _, c := range cases {
		fmt.Fprintf(out, "BEGIN %d\n", c.ID)
		out.Flush()
		if k := c.treeKey(); k != lastKey || tree == nil {
			tree, lastKey = buildTree(w, c), k
		}
		r, err := runOne(w, tree, c, base)
		if err != nil {
			fmt.Fprintln(os.Stderr, "harness child error:", err)
			return 3
		}
		js, _ := json.Marshal(r)
		out.Write(js)
		out.WriteString("\n")
		out.Flush()
	}
	return 0
}

// ---------------------------------------------------------------- parent: dispatch to children

func jobs() int {
	if v, err := strconv.Atoi(os.Getenv("VERIF_JOBS")); err == nil && v > 0 {
		if v > 12 {
			v = 12
		}
		return v
	}
	return 6
}

// runChunk runs the cases in child processes; a crash of the child is attributed to the case in
// progress and the remaining cases continue in a new child.
func runChunk(dir string, k int, cases []*Case, res map[int]*Result, mu *sync.Mutex) error {
	for len(cases) > 0 {
		f := filepath.Join(dir, fmt.Sprintf("chunk_%d.json", k))
		js, _ := json.Marshal(cases)
		if err := os.WriteFile(f, js, 0644); err != nil {
			return err
		}
		base := filepath.Join(dir, fmt.Sprintf("nodes_%d_%d", k, len(cases)))
		cmd := exec.Command(os.Args[0], "child", "batch", f, base)
		var stderr bytes.Buffer
		cmd.Stderr = &stderr
		stdout, err := cmd.StdoutPipe()
		if err != nil {
			return err
		}
		if err := cmd.Start(); err != nil {
			return err
		}
		lines := make(chan string, 16)
		go func() {
			sc := bufio.NewScanner(stdout)
			sc.Buffer(make([]byte, 1<<20), 1<<26)
			for sc.Scan() {
				lines <- sc.Text()
			}
			close(lines)
		}()
		current, done, hang := -1, 0, false
	loop:
		for {
			select {
			case l, ok := <-lines:
				if !ok {
					break loop
				}
				if strings.HasPrefix(l, "BEGIN ") {
					current, _ = strconv.Atoi(l[6:])
					continue
				}
				r := &Result{}
				if err := json.Unmarshal([]byte(l), r); err != nil {
					cmd.Process.Kill()
					cmd.Wait()
					return fmt.Errorf("unparseable child output %q", l)
				}
				mu.Lock()
				res[r.ID] = r
				mu.Unlock()
				done++
				current = -1
			case <-time.After(120 * time.Second):
				hang = true
				cmd.Process.Kill()
				break loop
			}
		}
		err = cmd.Wait()
		os.RemoveAll(base)
		if err == nil && !hang && done == len(cases) {
			return nil
		}
		if current < 0 || done >= len(cases) || cases[done].ID != current {
			return fmt.Errorf("child failed outside a case: %v: %s", err, tail(stderr.String(), 800))
		}
		if ee, ok := err.(*exec.ExitError); ok && ee.ExitCode() == 3 {
			return fmt.Errorf("child: %s", tail(stderr.String(), 800))
		}
		r := &Result{ID: current, Hang: hang}
		if !hang {
			r.Panic = panicHead(stderr.String())
		}
		mu.Lock()
		res[current] = r
		mu.Unlock()
		cases = cases[done+1:]
	}
	return nil
}

func tail(s string, n int) string {
	if len(s) > n {
		return s[len(s)-n:]
	}
	return s
}

// panicHead keeps the panic message and the first frames inside the bytom module.
func panicHead(trace string) string {
	var keep []string
	for _, l := range strings.Split(trace, "\n") {
		l = strings.TrimSpace(l)
		if strings.HasPrefix(l, "panic:") || strings.HasPrefix(l, "[signal") || strings.HasPrefix(l, "fatal error:") ||
			(strings.HasPrefix(l, "github.com/bytom/bytom/") && len(keep) < 8) {
			if i := strings.Index(l, "(0x"); i > 0 {
				l = l[:i]
			}
			keep = append(keep, l)
		}
	}
	if len(keep) == 0 {
		return "abnormal exit: " + tail(trace, 300)
	}
	return strings.Join(keep, " | ")
}

func runAll(cases []*Case) (map[int]*Result, error) {
	// scratch LevelDB directories: on tmpfs when there is one (the store syncs every block)
	tmp := ""
	if st, err := os.Stat("/dev/shm"); err == nil && st.IsDir() {
		tmp = "/dev/shm"
	}
	dir, err := os.MkdirTemp(tmp, "c12-run-")
	if err != nil {
		return nil, err
	}
	defer os.RemoveAll(dir)
	// keep equal trees together (the child caches the built tree), chunks of ~40 cases
	res := map[int]*Result{}
	var mu sync.Mutex
	var chunks [][]*Case
	per := 60
	if len(cases) > 6000 {
		per = 250
	}
	for lo := 0; lo < len(cases); lo += per {
		hi := lo + per
		if hi > len(cases) {
			hi = len(cases)
		}
		chunks = append(chunks, cases[lo:hi])
	}
	ch := make(chan int)
	errs := make(chan error, len(chunks)+1)
	var wg sync.WaitGroup
	for wk := 0; wk < jobs(); wk++ {
		wg.Add(1)
		go func() {
			defer wg.Done()
			for k := range ch {
				if err := runChunk(dir, k, chunks[k], res, &mu); err != nil {
					errs <- err
				}
			}
		}()
	}
	for k := range chunks {
		ch <- k
	}
	close(ch)
	wg.Wait()
	select {
	case err := <-errs:
		return nil, err
	default:
	}
	return res, nil
}

// ---------------------------------------------------------------- generator

// rooted unordered trees with n non-root nodes and at most maxDeg children per node, as canonical
// parent vectors (node labels in preorder, children ordered by non-increasing canonical code).
func treeShapes(n, maxDeg int) [][]int {
	type tr struct {
		code string
		kids []*tr
		size int
	}
	memo := map[int][]*tr{}
	var bySize func(m int) []*tr // trees with m nodes (including their root)
	bySize = func(m int) []*tr {
		if v, ok := memo[m]; ok {
			return v
		}
		var out []*tr
		// choose a multiset of subtrees with total size m-1, at most maxDeg of them
		var all []*tr
		for s := 1; s <= m-1; s++ {
			all = append(all, bySize(s)...)
		}
		sort.Slice(all, func(i, j int) bool {
			if all[i].size != all[j].size {
				return all[i].size > all[j].size
			}
			return all[i].code > all[j].code
		})
		var rec func(from, left, deg int, cur []*tr)
		rec = func(from, left, deg int, cur []*tr) {
			if left == 0 {
				t := &tr{size: m, kids: append([]*tr(nil), cur...)}
				code := "("
				for _, k := range cur {
					code += k.code
				}
				t.code = code + ")"
				out = append(out, t)
				return
			}
			if deg == maxDeg {
				return
			}
			for i := from; i < len(all); i++ {
				if all[i].size <= left {
					rec(i, left-all[i].size, deg+1, append(cur, all[i]))
				}
			}
		}
		rec(0, m-1, 0, nil)
		memo[m] = out
		return out
	}
	var shapes [][]int
	for _, t := range bySize(n + 1) {
		var parents []int
		next := 0
		var walk func(x *tr, me int)
		walk = func(x *tr, me int) {
			for _, k := range x.kids {
				next++
				parents = append(parents, me)
				walk(k, next)
			}
		}
		walk(t, 0)
		shapes = append(shapes, parents)
	}
	return shapes
}

func permutations(n int) [][]int {
	var out [][]int
	a := make([]int, n)
	for i := range a {
		a[i] = i + 1
	}
	var rec func(k int)
	rec = func(k int) {
		if k == n {
			out = append(out, append([]int(nil), a...))
			return
		}
		for i := k; i < n; i++ {
			a[k], a[i] = a[i], a[k]
			rec(k + 1)
			a[k], a[i] = a[i], a[k]
		}
	}
	rec(0)
	return out
}

// upToSymmetry keeps one delivery order per orbit of the tree's automorphism group: the tree with every
// node annotated by its delivery position is encoded canonically (children codes sorted).
func upToSymmetry(parents []int, perms [][]int) [][]int {
	n := len(parents)
	kids := make([][]int, n+1)
	for i, p := range parents {
		kids[p] = append(kids[p], i+1)
	}
	seen := map[string]bool{}
	var out [][]int
	pos := make([]int, n+1)
	var code func(x int) string
	code = func(x int) string {
		var cs []string
		for _, k := range kids[x] {
			cs = append(cs, code(k))
		}
		sort.Strings(cs)
		return "(" + strconv.Itoa(pos[x]) + strings.Join(cs, "") + ")"
	}
	for _, p := range perms {
		for i, l := range p {
			pos[l] = i + 1
		}
		k := code(0)
		if !seen[k] {
			seen[k] = true
			out = append(out, p)
		}
	}
	return out
}

func zeros(n int) []int { return make([]int, n) }

func randomTree(r *Rng, n, maxDeg int, style int) []int {
	parents := make([]int, n)
	deg := make([]int, n+1)
	for i := 1; i <= n; i++ {
		var p int
		for {
			switch style {
			case 0: // uniform recursive tree
				p = r.Intn(i)
			case 1: // bushy: prefer recent parents, several siblings
				lo := i - 1 - r.Intn(4)
				if lo < 0 {
					lo = 0
				}
				p = lo
			default: // a few hubs with many children
				if r.Chance(60) {
					p = (i - 1) / 4 * 4 / 2
				} else {
					p = r.Intn(i)
				}
			}
			if p < i && deg[p] < maxDeg {
				break
			}
			style = 0
		}
		deg[p]++
		parents[i-1] = p
	}
	return parents
}

func shuffle(r *Rng, a []int) {
	for i := len(a) - 1; i > 0; i-- {
		j := r.Intn(i + 1)
		a[i], a[j] = a[j], a[i]
	}
}

// delivery orders for big trees: uniform, reversed (children first), siblings-before-parent, nearly in order
func randomOrder(r *Rng, parents []int, style int) []int {
	n := len(parents)
	a := make([]int, n)
	for i := range a {
		a[i] = i + 1
	}
	switch style {
	case 0:
		shuffle(r, a)
	case 1: // deepest first: every parent arrives after all of its descendants
		for i, j := 0, n-1; i < j; i, j = i+1, j-1 {
			a[i], a[j] = a[j], a[i]
		}
		for k := 0; k < n/6; k++ {
			i := r.Intn(n - 1)
			a[i], a[i+1] = a[i+1], a[i]
		}
	case 2: // in order with a few blocks held back to the end
		var held, rest []int
		for _, x := range a {
			if r.Chance(15) {
				held = append(held, x)
			} else {
				rest = append(rest, x)
			}
		}
		shuffle(r, held)
		a = append(rest, held...)
	default: // level by level from the leaves: all children of a node before the node, siblings adjacent
		shuffle(r, a)
		depth := make([]int, n+1)
		for i := 1; i <= n; i++ {
			depth[i] = depth[parents[i-1]] + 1
		}
		sort.SliceStable(a, func(x, y int) bool {
			if depth[a[x]] != depth[a[y]] {
				return depth[a[x]] > depth[a[y]]
			}
			return parents[a[x]-1] < parents[a[y]-1]
		})
	}
	return a
}

// ---------------------------------------------------------------- oracle (implementation outputs only)

// closure of the delivered set: delivered, valid, and every ancestor delivered and valid.
func closure(c *Case) []bool {
	n := c.n()
	delivered := make([]bool, n+1)
	for _, l := range c.Order {
		delivered[l] = true
	}
	conn := make([]bool, n+1)
	conn[0] = true
	for i := 1; i <= n; i++ { // parents have smaller labels
		conn[i] = delivered[i] && c.Bad[i-1] == 0 && conn[c.Parents[i-1]]
	}
	return conn
}

func oracle(c *Case, r *Result) []string {
	var fails []string
	if r.Hang {
		return []string{"class=hang: block processing did not return within the time limit"}
	}
	if r.Panic != "" {
		return []string{"class=panic: the node process died while processing the deliveries: " + r.Panic}
	}
	n := c.n()
	conn := closure(c)
	delivered := make([]bool, n+1)
	for _, l := range c.Order {
		delivered[l] = true
	}
	for i := 0; i <= n; i++ {
		if r.Stored[i] != conn[i] {
			if conn[i] {
				fails = append(fails, fmt.Sprintf("class=not-connected: block %d was delivered with all its ancestors but is not stored (orphan=%v)", i, r.Orphan[i]))
			} else {
				fails = append(fails, fmt.Sprintf("class=stored-without-ancestors: block %d is stored although it is not in the closure of the delivered set", i))
			}
		}
		if r.Exist[i] != (r.Stored[i] || r.Orphan[i]) {
			fails = append(fails, fmt.Sprintf("class=block-exist: Chain.BlockExist(%d)=%v but stored=%v orphan=%v", i, r.Exist[i], r.Stored[i], r.Orphan[i]))
		}
	}
	// "connected as if the blocks had arrived in order": these trees carry no votes besides the node's
	// own (one of four validators), so nothing is justified and in-order delivery ends with the best
	// block at the greatest stored height
	{
		height := make([]uint64, n+1)
		var top uint64
		for i := 1; i <= n; i++ {
			height[i] = height[c.Parents[i-1]] + 1
		}
		for i := 0; i <= n; i++ {
			if r.Stored[i] && height[i] > top {
				top = height[i]
			}
		}
		if r.Best != top {
			fails = append(fails, fmt.Sprintf("class=best-not-highest: after the last delivery the best block is at height %d but a connected block at height %d is stored (in-order delivery ends at %d)", r.Best, top, top))
		}
	}
	if r.Ref != nil {
		for i := 0; i <= n; i++ {
			if r.Stored[i] != r.Ref[i] {
				fails = append(fails, fmt.Sprintf("class=differs-from-in-order: block %d stored=%v, but %v on a fresh node that received the same blocks parents first", i, r.Stored[i], r.Ref[i]))
			}
		}
	}
	for i := 1; i <= n; i++ {
		valid := c.Bad[i-1] == 0
		p := c.Parents[i-1]
		if r.Orphan[i] && valid && r.Stored[p] {
			fails = append(fails, fmt.Sprintf("class=orphan-left-behind: block %d waits in the orphan pool although its parent %d is stored", i, p))
		}
		if r.Orphan[i] && !delivered[i] {
			fails = append(fails, fmt.Sprintf("class=orphan-not-delivered: block %d is in the orphan pool but was never delivered", i))
		}
		if delivered[i] && valid && !r.Stored[i] && !r.Orphan[i] {
			fails = append(fails, fmt.Sprintf("class=block-lost: valid delivered block %d is neither stored nor waiting", i))
		}
		if r.Orphan[i] && valid { // an unlisted valid orphan would be left behind when its parent arrives
			found := false
			for _, l := range r.Prev[p] {
				found = found || l == i
			}
			if !found {
				fails = append(fails, fmt.Sprintf("class=orphan-not-indexed: orphan %d is not listed under its parent %d", i, p))
			}
		}
	}
	for _, s := range r.Steps {
		if s.Err == 2 {
			fails = append(fails, "class=unexpected-error: ProcessBlock returned an error other than ErrBadBlock for a block of the tree")
			break
		}
	}
	return fails
}

// ---------------------------------------------------------------- Coq expressions

func coqBoolList(b []bool) string {
	s := make([]string, len(b))
	for i, x := range b {
		s[i] = CoqBool(x)
	}
	return CoqList(s)
}

func coqNList(a []int) string {
	if len(a) == 0 {
		return "[]"
	}
	s := make([]string, len(a))
	for i, x := range a {
		if x < 0 {
			x = 1 << 30
		}
		s[i] = fmt.Sprint(x)
	}
	return "[" + strings.Join(s, ";") + "]%N"
}

func modelExpr(c *Case) string {
	depth := make([]int, c.n()+1)
	bs := make([]string, c.n())
	for i, p := range c.Parents {
		depth[i+1] = depth[p] + 1
		bs[i] = fmt.Sprintf("(%d,%d,%d)", p, depth[i+1], c.Bad[i])
	}
	blocks := "[]"
	if len(bs) > 0 {
		blocks = "[" + strings.Join(bs, ";") + "]%N"
	}
	return fmt.Sprintf("rc %s %s", blocks, coqNList(c.Order))
}

func observedExpr(r *Result) string {
	if r.Panic != "" || r.Hang {
		return "None"
	}
	steps := make([]string, len(r.Steps))
	for i, s := range r.Steps {
		steps[i] = fmt.Sprintf("(%s,%d%%N)", CoqBool(s.Orphan), s.Err)
	}
	prev := make([]string, len(r.Prev))
	for i, p := range r.Prev {
		prev[i] = coqNList(p)
	}
	return fmt.Sprintf("Some (%s, (%s, %s, %s))", CoqList(steps), coqBoolList(r.Stored), coqBoolList(r.Orphan), CoqList(prev))
}

// ---------------------------------------------------------------- main

func sizeClass(n int) string {
	switch {
	case n <= 2:
		return "1_2"
	case n <= 5:
		return "3_5"
	case n <= 7:
		return "6_7"
	case n <= 29:
		return "8_29"
	default:
		return "30_60"
	}
}

func maxSiblingOrphans(c *Case) int {
	// largest number of children of one block delivered before that block
	seen := map[int]bool{0: true}
	wait := map[int]int{}
	best := 0
	for _, l := range c.Order {
		if seen[l] {
			continue
		}
		seen[l] = true
		p := c.Parents[l-1]
		if !seen[p] {
			wait[p]++
			if wait[p] > best {
				best = wait[p]
			}
		}
	}
	return best
}

func runC12(c *Ctx) error {
	var cases []*Case
	add := func(kind string, parents, bad, order []int) {
		cases = append(cases, &Case{ID: len(cases), Kind: kind, Parents: parents, Bad: bad, Order: order,
			Ref: !strings.HasPrefix(kind, "exhaustive_")}) // the exhaustive streams contain the in-order run of every tree
	}
	// regression corpus: the historical witness (three sibling orphans, then the parent) and relatives
	add("corpus", []int{0, 1, 1, 1}, zeros(4), []int{2, 3, 4, 1})
	add("corpus", []int{0, 1, 1, 1, 1}, zeros(5), []int{5, 4, 3, 2, 1})
	add("corpus", []int{0, 1, 1, 1, 2, 2, 2}, zeros(7), []int{5, 6, 7, 2, 3, 4, 1})
	add("corpus", []int{0, 0, 0, 0}, zeros(4), []int{1, 2, 3, 4})
	add("corpus", []int{0, 1, 2, 2, 2, 1}, []int{0, 0, 1, 0, 0, 0}, []int{3, 4, 5, 6, 2, 1})

	// exhaustive: all delivery orders of all tree shapes with at most 5 blocks; thorough adds 6 blocks (and
	// the 7-block shapes with many symmetries) up to tree automorphisms: two orders that differ by a
	// symmetry of the tree (swapping isomorphic sibling subtrees) are one case
	for n := 1; n <= 5; n++ {
		perms := permutations(n)
		for _, shape := range treeShapes(n, 4) {
			ps := perms
			if n == 5 && !c.Thorough() {
				ps = upToSymmetry(shape, perms)
			}
			for _, p := range ps {
				add(fmt.Sprintf("exhaustive_%d", n), shape, zeros(n), p)
			}
		}
	}
	c.Stats.Exhaustive = true
	scope := "all delivery orders (each block once) of all rooted tree shapes with 1..5 blocks and at most 4 children per block, all blocks valid (quick tier: the 5-block shapes up to tree automorphism)"
	if c.Thorough() {
		perms6, perms7 := permutations(6), permutations(7)
		for _, shape := range treeShapes(6, 4) {
			for _, p := range upToSymmetry(shape, perms6) {
				add("exhaustive_6", shape, zeros(6), p)
			}
		}
		full7 := 0
		for _, shape := range treeShapes(7, 4) {
			if classes := upToSymmetry(shape, perms7); len(classes) <= 210 {
				full7++
				for _, p := range classes {
					add("exhaustive_7", shape, zeros(7), p)
				}
				continue
			}
			for k := 0; k < 16; k++ {
				add("sampled_7", shape, zeros(7), randomOrder(c.Rng, shape, k%4))
			}
		}
		scope += fmt.Sprintf("; all delivery orders up to tree automorphism of all shapes with 6 blocks, and of the %d shapes with 7 blocks that have at least 24 automorphisms (the other 7-block shapes: 16 sampled orders each)", full7)
	}
	c.Stats.Extra["exhaustive_scope"] = scope

	// random orders of larger trees, some with invalid blocks
	nbig := c.N(50, 400)
	for k := 0; k < nbig; k++ {
		n := 30 + c.Rng.Intn(31)
		if c.Rng.Chance(25) {
			n = 8 + c.Rng.Intn(22)
		}
		parents := randomTree(c.Rng, n, 4+c.Rng.Intn(3)*c.Rng.Intn(2), c.Rng.Intn(3))
		bad := zeros(n)
		kind := "random_big"
		if c.Rng.Chance(35) {
			kind = "random_big_invalid"
			for j := 0; j < 1+c.Rng.Intn(3); j++ {
				bad[c.Rng.Intn(n)] = 1 + c.Rng.Intn(2)
			}
		}
		add(kind, parents, bad, randomOrder(c.Rng, parents, c.Rng.Intn(4)))
	}

	// malformed stream: small trees with invalid blocks, repeated and missing deliveries
	nmal := c.N(250, 1800)
	for k := 0; k < nmal; k++ {
		n := 2 + c.Rng.Intn(7)
		parents := randomTree(c.Rng, n, 4, c.Rng.Intn(2))
		bad := zeros(n)
		if c.Rng.Chance(70) {
			for j := 0; j < 1+c.Rng.Intn(2); j++ {
				bad[c.Rng.Intn(n)] = 1 + c.Rng.Intn(2)
			}
		}
		order := randomOrder(c.Rng, parents, c.Rng.Intn(4))
		if c.Rng.Chance(50) { // omit
			order = order[:1+c.Rng.Intn(len(order))]
		}
		if c.Rng.Chance(60) { // repeat
			for j := 0; j < 1+c.Rng.Intn(3); j++ {
				x := order[c.Rng.Intn(len(order))]
				at := c.Rng.Intn(len(order) + 1)
				order = append(order[:at], append([]int{x}, order[at:]...)...)
			}
		}
		add("malformed", parents, bad, order)
	}

	// ---- concurrent deliveries (oracle only: the step answers depend on the interleaving, the final
	// state must not): a block and its parent (and an uncle) arrive from different peers at once
	for i, nc := 0, c.N(60, 300); i < nc; i++ {
		n := 12 + c.Rng.Intn(6)
		parents := make([]int, n)
		for b := 1; b <= n; b++ {
			parents[b-1] = b - 1 // a chain ...
			if b > 3 && c.Rng.Chance(20) {
				parents[b-1] = b - 2 // ... with an occasional sibling
			}
		}
		par := 2 + c.Rng.Intn(2)
		var order []int
		for at := 1; at <= n; at += par {
			var w []int
			for b := at; b < at+par && b <= n; b++ {
				w = append(w, b)
			}
			if c.Rng.Chance(70) { // child listed (started) before its parent
				for l, r := 0, len(w)-1; l < r; l, r = l+1, r-1 {
					w[l], w[r] = w[r], w[l]
				}
			}
			order = append(order, w...)
		}
		add("concurrent", parents, zeros(n), order)
		cases[len(cases)-1].Par = par
	}

	res, err := runAll(cases)
	if err != nil {
		return err
	}

	failed := 0
	for _, cs := range cases {
		r := res[cs.ID]
		if r == nil {
			return fmt.Errorf("no result for case %d", cs.ID)
		}
		fails := oracle(cs, r)
		desc := map[string]interface{}{"kind": cs.Kind, "parents": cs.Parents, "invalid": cs.Bad, "order": cs.Order}
		for _, f := range fails {
			c.Stats.Fail(f, desc)
		}
		if len(fails) > 0 {
			failed++
			c.Stats.Count("oracle_failed_cases")
		}
		// every case goes through the oracle; the model is evaluated on all of them except that the two
		// largest exhaustive streams of the thorough tier are thinned to every third case (and every failure)
		id := cs.ID
		if cs.Kind == "concurrent" {
			id = -1
			c.Stats.Count("concurrent-oracle-only")
		} else if thin := cs.Kind == "exhaustive_6" || cs.Kind == "exhaustive_7"; !thin || cs.ID%3 == 0 || len(fails) > 0 || r.Panic != "" {
			id = c.Cases.Add(modelExpr(cs), observedExpr(r))
			c.Stats.Count("model_evaluated")
		} else {
			id = -1
		}
		ms := maxSiblingOrphans(cs)
		outOfOrder := false
		for _, s := range r.Steps {
			outOfOrder = outOfOrder || s.Orphan
		}
		c.Stats.Case(fmt.Sprint(cs.Parents, cs.Bad, cs.Order), outOfOrder)
		c.Stats.Count("kind_" + cs.Kind)
		c.Stats.Count("blocks_" + sizeClass(cs.n()))
		c.Stats.Count(fmt.Sprintf("max_sibling_orphans_%s", map[bool]string{true: "3_up", false: fmt.Sprint(ms)}[ms >= 3]))
		if outOfOrder {
			c.Stats.Count("case_with_orphans")
		} else {
			c.Stats.Count("case_in_order")
		}
		for _, s := range r.Steps {
			c.Stats.Count(fmt.Sprintf("step_orphan_%v_err_%d", s.Orphan, s.Err))
		}
		if r.Panic != "" {
			c.Stats.Count("case_panic")
		}
		left := 0
		for i := range r.Orphan {
			if r.Orphan[i] {
				left++
			}
		}
		if left > 0 {
			c.Stats.Count("case_orphans_remain_at_end")
		}
		if id >= 0 && (len(fails) > 0 || id < 5 || id%(c.N(700, 5000)) == 11) {
			d := map[string]interface{}{"kind": cs.Kind, "parents": cs.Parents, "invalid": cs.Bad, "order": cs.Order,
				"steps": r.Steps, "stored": r.Stored, "orphan": r.Orphan, "panic": r.Panic}
			if len(fails) > 0 || id < 5 {
				c.Stats.CaseIndex[fmt.Sprint(id)] = d
			}
			c.Stats.Sample(d)
		}
	}
	c.Stats.Rule = "a case is a block tree rooted at genesis (real signed blocks, 4-key federation, epoch length 4) and a delivery sequence fed to Chain.ProcessBlock of a fresh node on LevelDB in a child process; streams: regression corpus (three or more sibling orphans before their parent), ALL delivery orders of ALL tree shapes up to the exhaustive bound, sampled orders of all 7-block shapes (thorough), random orders (uniform / children-first / held-back / level-by-level) of 8..60-block trees with up to 6 children per block and a few invalid blocks, and a malformed stream (invalid blocks, repeated and omitted deliveries); distinct = distinct (tree, invalid marks, order); non-trivial = at least one delivery arrived before its parent; the oracle checks on the implementation only: no panic/hang, stored set = closure of the delivered set = what a second fresh node stores when it receives the same blocks parents first (non-exhaustive streams; the exhaustive ones contain that order), no valid orphan with a stored parent, no valid delivered block lost, every valid orphan indexed under its parent, BlockExist = stored or orphan; per-delivery (orphan flag, error class), stored/orphan membership and the orphan index per parent are compared with the Coq model"
	header := "From Coq Require Import ZArith NArith List Bool.\nFrom C12 Require Import Model Run.\nImport ListNotations.\nDefinition rc := run_case.\n"
	c.Cases.Shard = c.N(160, 1500)
	return c.Cases.Write(c.Out, header, "cres", "cres_eqb")
}
