// Package wsim: the scenario engine shared by the harnesses of C24 (wallet UTXOs depend only on
// the main chain) and C25 (the wallet never reports unspendable outputs as mature).
//
// It runs the REAL wallet (wallet.NewWallet with its walletUpdater goroutine, account.Manager with
// real BIP44 accounts and P2WPKH control programs, the keeper's maturity filter) on top of a REAL
// node (protocol.Chain on LevelDB, harness/chainlib) and drives attach/detach by chain
// reorganisations.
package wsim

import (
	"bytes"
	"os"
	"encoding/json"
	"fmt"
	"runtime"
	"sort"
	"strings"
	"sync"
	"time"

	"github.com/bytom/bytom/account"
	"github.com/bytom/bytom/asset"
	"github.com/bytom/bytom/blockchain/signers"
	"github.com/bytom/bytom/consensus"
	"github.com/bytom/bytom/contract"
	"github.com/bytom/bytom/crypto"
	"github.com/bytom/bytom/crypto/ed25519/chainkd"
	"github.com/bytom/bytom/database"
	dbm "github.com/bytom/bytom/database/leveldb"
	"github.com/bytom/bytom/event"
	"github.com/bytom/bytom/protocol"
	"github.com/bytom/bytom/protocol/bc"
	"github.com/bytom/bytom/protocol/bc/types"
	"github.com/bytom/bytom/protocol/vm/vmutil"
	"github.com/bytom/bytom/wallet"

	cl "verifharness/chainlib"
)

// Program labels (the model sees programs as small numbers).
const (
	POpTrue   = 0 // 0x51: anyone can spend, not a segwit program (contract key space, never owned)
	PA1       = 1 // account A, address 1
	PA2       = 2 // account A, address 2
	PAChange  = 3 // account A, change address 1
	PB1       = 4 // account B, address 1
	PForeign  = 5 // P2WPKH of a key no account holds (segwit, not owned)
	PForeignS = 6 // P2WSH of the script OP_TRUE, not registered (segwit, not owned, spendable without a key)
	// programs of the accounts' keys that a wallet registers only LATER in a case ("rescan" stream:
	// an address handed out elsewhere, then CreateAddress + RescanBlocks); never used by the other
	// streams and not part of the model's vocabulary
	PA3    = 7 // account A, address 3
	PB2    = 8 // account B, address 2
	PA4    = 9 // account A, address 4
	// multi-signature accounts (P2WSH control programs), registered by every wallet; paid only by the
	// "msig" stream (never spent by the generator: no witness is built for them)
	PM22   = 10 // account C (2-of-2), address 1
	PM23   = 11 // account D (2-of-3), address 1
	NProgs = 12
)

// msigKeys: the xpubs of the multi-signature accounts C (label 3) and D (label 4)
func (e *Env) msigKeys(acct int) ([]chainkd.XPub, int) {
	if acct == 3 {
		return []chainkd.XPub{rootKey(0xc1).XPub(), rootKey(0xc2).XPub()}, 2
	}
	return []chainkd.XPub{rootKey(0xd1).XPub(), rootKey(0xd2).XPub(), rootKey(0xd3).XPub()}, 2
}

// IsMsig: a program of a multi-signature account
func IsMsig(p int) bool { return p == PM22 || p == PM23 }

// LatePrograms in the order in which a wallet can learn them per account (CreateAddress hands out
// the next index of the account).
var LatePrograms = []int{PA3, PB2, PA4}

// ProgInfo describes one control program of the case vocabulary.
type ProgInfo struct {
	Label  int
	Code   []byte
	P2W    bool
	Owned  bool
	Acct   int // 1 = A, 2 = B (0: not owned)
	Index  uint64
	Change bool
	Late   bool          // registered by a wallet only when the case says so (WalletNode.Learn)
	key    *chainkd.XPrv // signing key (P2WPKH programs we can spend)
}

// Env is the per-process environment: consensus parameters, the offline block builder, the
// deterministic key material, the program vocabulary and the common trunk.
type Env struct {
	W      *cl.World
	Root   [2]chainkd.XPrv // root keys of accounts A and B
	Progs  [NProgs]*ProgInfo
	byCode map[string]*ProgInfo
	Trunk  []*cl.BlockInfo // heights 1..16
	Split  *types.Tx       // the funding transaction of block 15
	VoteTo []byte          // the xpub all vote outputs vote for
}

func rootKey(tag byte) chainkd.XPrv {
	seed := make([]byte, 32)
	for i := range seed {
		seed[i] = tag ^ byte(31*i+7)
	}
	return chainkd.RootXPrv(seed)
}

func p2wpkh(pub []byte) []byte {
	prog, err := vmutil.P2WPKHProgram(crypto.Ripemd160(pub))
	if err != nil {
		panic(err)
	}
	return prog
}

// Schedule sets the vote lock schedule (consensus.ActiveNetParams.VotePendingBlockNums).
type Schedule []consensus.VotePendingBlockNum

// ConstSchedule: the same lock everywhere.
func ConstSchedule(n uint64) Schedule {
	return Schedule{{BeginBlock: 0, EndBlock: ^uint64(0), Num: n}}
}

// StepSchedule: lock a below height at, lock b from there on.
func StepSchedule(at, a, b uint64) Schedule {
	return Schedule{{BeginBlock: 0, EndBlock: at, Num: a}, {BeginBlock: at, EndBlock: ^uint64(0), Num: b}}
}

// NewEnv initialises the consensus parameters (epoch 4, 4 federation keys held by the harness), the
// accounts' keys and programs, and builds the trunk.  The accounts are the ones every wallet of
// this process registers (Manager.Create + CreateAddress derive the same programs: checked in
// NewWalletNode).
func NewEnv(sched Schedule) *Env {
	o := cl.DefaultOptions()
	e := &Env{W: cl.Init(o), byCode: map[string]*ProgInfo{}}
	if sched != nil {
		consensus.ActiveNetParams.VotePendingBlockNums = sched
	}
	e.Root[0], e.Root[1] = rootKey(0xa1), rootKey(0xb2)
	e.VoteTo = e.W.Pubs[1][:]
	add := func(p *ProgInfo) {
		e.Progs[p.Label] = p
		e.byCode[string(p.Code)] = p
	}
	add(&ProgInfo{Label: POpTrue, Code: cl.OpTrue})
	derive := func(label, acct int, idx uint64, change bool) {
		a, err := account.CreateAccount([]chainkd.XPub{e.Root[acct-1].XPub()}, 1, "x", 1, signers.BIP0044)
		if err != nil {
			panic(err)
		}
		cp, err := account.CreateCtrlProgram(a, idx, change)
		if err != nil {
			panic(err)
		}
		path, err := signers.Path(a.Signer, signers.AccountKeySpace, change, idx)
		if err != nil {
			panic(err)
		}
		k := e.Root[acct-1].Derive(path)
		if string(p2wpkh(k.XPub().PublicKey())) != string(cp.ControlProgram) {
			panic("derived key does not match the control program")
		}
		add(&ProgInfo{Label: label, Code: cp.ControlProgram, P2W: true, Owned: true, Acct: acct, Index: idx, Change: change, key: &k})
	}
	derive(PA1, 1, 1, false)
	derive(PA2, 1, 2, false)
	derive(PAChange, 1, 1, true)
	derive(PB1, 2, 1, false)
	derive(PA3, 1, 3, false)
	derive(PB2, 2, 2, false)
	derive(PA4, 1, 4, false)
	for _, l := range LatePrograms {
		e.Progs[l].Late = true
	}
	for _, x := range [][2]int{{PM22, 3}, {PM23, 4}} {
		xpubs, quorum := e.msigKeys(x[1])
		a, err := account.CreateAccount(xpubs, quorum, "x", 1, signers.BIP0044)
		if err != nil {
			panic(err)
		}
		cp, err := account.CreateCtrlProgram(a, 1, false)
		if err != nil {
			panic(err)
		}
		add(&ProgInfo{Label: x[0], Code: cp.ControlProgram, P2W: true, Owned: true, Acct: x[1], Index: 1})
	}
	fk := rootKey(0xf3)
	add(&ProgInfo{Label: PForeign, Code: p2wpkh(fk.XPub().PublicKey()), P2W: true, key: &fk})
	sh, err := vmutil.P2WSHProgram(crypto.Sha256(cl.OpTrue))
	if err != nil {
		panic(err)
	}
	add(&ProgInfo{Label: PForeignS, Code: sh, P2W: true})
	e.buildTrunk()
	return e
}

// ProgOf returns the vocabulary entry of a control program (nil: unknown program).
func (e *Env) ProgOf(code []byte) *ProgInfo { return e.byCode[string(code)] }

// Sign fills in the witness arguments of every input whose program we hold the key for
// (P2WPKH: signature, public key), or that needs the script (P2WSH of OP_TRUE).
func (e *Env) Sign(tx *types.Tx) {
	for i, in := range tx.Inputs {
		var code []byte
		switch t := in.TypedInput.(type) {
		case *types.SpendInput:
			code = t.ControlProgram
		case *types.VetoInput:
			code = t.ControlProgram
		default:
			continue
		}
		p := e.ProgOf(code)
		if p == nil {
			continue
		}
		switch {
		case p.key != nil:
			h := tx.SigHash(uint32(i))
			tx.SetInputArguments(uint32(i), [][]byte{p.key.Sign(h.Bytes()), p.key.XPub().PublicKey()})
		case p.Label == PForeignS:
			tx.SetInputArguments(uint32(i), [][]byte{cl.OpTrue})
		}
	}
}

// NewTx builds and signs a transaction.
func (e *Env) NewTx(ins []cl.Out, outs []cl.OutSpec, timeRange uint64) *types.Tx {
	tx := cl.NewTx(ins, outs, timeRange)
	e.Sign(tx)
	return tx
}

// Trunk: 16 blocks.  Rewards (per block 285388127 while nobody votes) are paid by the first block
// of the next epoch: epoch 1 (blocks 1-4) pays OP_TRUE at height 5; epoch 2 (5-8) pays A1 and B1 at
// height 9 (wallet-owned coinbase outputs, mature at 19); epoch 3 (9-12) pays A2 and OP_TRUE at
// height 13 (mature at 23); epoch 4 (13-16) pays A1 and OP_TRUE at height 17 - the first block
// above the trunk, the same coinbase on every branch (mature at 27).  Block 15 spends the height-5
// reward into the funding outputs of the cases.
func (e *Env) buildTrunk() {
	rp := map[uint64]int{5: PA1, 6: PB1, 7: PA1, 8: PB1, 9: PA2, 10: POpTrue, 11: PA2, 12: POpTrue, 13: PA1, 14: POpTrue, 15: PA1, 16: POpTrue}
	tip := e.W.Genesis
	for h := uint64(1); h <= 16; h++ {
		var txs []*types.Tx
		if h == 15 {
			src := e.Trunk[4].RewardOuts() // height 5
			if len(src) != 1 {
				panic("trunk: height-5 reward")
			}
			total := src[0].Amount() - cl.DefaultFee
			u := total / 10
			outs := []cl.OutSpec{
				{Amount: u, Program: e.Progs[PA1].Code},                   // 0 wallet normal
				{Amount: u, Program: e.Progs[PA2].Code},                   // 1 wallet normal
				{Amount: u, Program: e.Progs[PB1].Code},                   // 2 wallet normal (account B)
				{Amount: u, Program: e.Progs[PA1].Code, Vote: e.VoteTo},   // 3 wallet vote output (lock from 15)
				{Amount: u, Program: e.Progs[PForeign].Code},              // 4 segwit, not ours
				{Amount: u, Program: e.Progs[PForeignS].Code},             // 5 segwit script hash, not ours
				{Amount: u},                                               // 6 OP_TRUE
				{Amount: u},                                               // 7 OP_TRUE
				{Amount: u},                                               // 8 OP_TRUE
				{Amount: total - 9*u, Program: e.Progs[PAChange].Code},    // 9 wallet change
			}
			e.Split = e.NewTx(src, outs, 0)
			txs = []*types.Tx{e.Split}
		}
		opt := cl.BlockOpt{}
		if l, ok := rp[h]; ok && l != POpTrue {
			opt.RewardProgram = e.Progs[l].Code
		}
		tip = e.W.NewBlock(tip, txs, opt)
		e.Trunk = append(e.Trunk, tip)
	}
}

// ---------------------------------------------------------------- a node with a wallet

// gateDB is the wallet's database with a turnstile in front of the one NewBatch call that opens
// every Wallet.AttachBlock / Wallet.DetachBlock of the walletUpdater goroutine.  With the turnstile
// closed the harness decides how many attach / detach operations the updater performs before the
// node receives further blocks: a rescan (RescanBlocks) can be held half-way while the main chain
// is reorganised.  Nothing else changes: every call is forwarded to the memory DB.
type gateDB struct {
	dbm.DB
	mu       sync.Mutex
	cond     *sync.Cond
	watch    bool // look at the caller of NewBatch at all
	stepping bool // turnstile closed: an updater operation needs a token
	tokens   int
	waiting  bool // the updater stands at the turnstile
	passed   int  // operations let through (or seen) so far
	// statistics read off the updater's operations
	DetachBehind int // DetachBlock calls made while WorkHeight < BestHeight (a rescan was in progress)
	AttachBehind int // AttachBlock calls made while WorkHeight < BestHeight
}

func newGateDB() *gateDB {
	g := &gateDB{DB: dbm.NewMemDB()}
	g.cond = sync.NewCond(&g.mu)
	return g
}

// updaterOp: "attach" / "detach" when the caller is Wallet.AttachBlock / DetachBlock running on a
// walletUpdater goroutine (and not the nested batch of saveExternalAssetDefinition), "" otherwise.
func updaterOp() string {
	buf := make([]byte, 16384)
	st := string(buf[:runtime.Stack(buf, false)])
	if !strings.Contains(st, "(*Wallet).walletUpdater") || strings.Contains(st, "saveExternalAssetDefinition") {
		return ""
	}
	switch {
	case strings.Contains(st, "(*Wallet).DetachBlock"):
		return "detach"
	case strings.Contains(st, "(*Wallet).AttachBlock"):
		return "attach"
	}
	return ""
}

func (g *gateDB) NewBatch() dbm.Batch {
	g.mu.Lock()
	if g.watch {
		if op := updaterOp(); op != "" {
			var st wallet.StatusInfo
			if raw := g.DB.Get([]byte("walletInfo")); raw != nil && json.Unmarshal(raw, &st) == nil && st.WorkHeight < st.BestHeight {
				if op == "detach" {
					g.DetachBehind++
				} else {
					g.AttachBehind++
				}
			}
			for g.stepping && g.tokens == 0 {
				g.waiting = true
				g.cond.Broadcast()
				g.cond.Wait()
			}
			if g.stepping {
				g.tokens--
			}
			g.waiting = false
			g.passed++
			g.cond.Broadcast()
		}
	}
	g.mu.Unlock()
	return g.DB.NewBatch()
}

// Hold closes the turnstile.
func (g *gateDB) Hold() {
	g.mu.Lock()
	g.watch, g.stepping, g.tokens = true, true, 0
	g.mu.Unlock()
}

// Release opens it for good.
func (g *gateDB) Release() {
	g.mu.Lock()
	g.stepping, g.tokens = false, 0
	g.cond.Broadcast()
	g.mu.Unlock()
}

func (g *gateDB) state() (waiting bool, passed int) {
	g.mu.Lock()
	defer g.mu.Unlock()
	return g.waiting, g.passed
}

// Allow lets the updater perform up to n attach / detach operations and returns when it stands at
// the turnstile again or has nothing left to do (parked in walletBlockWaiter).  It returns the
// number of operations performed.
func (g *gateDB) Allow(n int, timeout time.Duration) (int, error) {
	deadline := time.Now().Add(timeout)
	done := 0
	for {
		// wait for the updater to arrive or to go idle
		for {
			w, _ := g.state()
			if w {
				break
			}
			if updatersIdle() {
				if w2, _ := g.state(); !w2 && updatersIdle() {
					return done, nil
				}
				continue
			}
			if time.Now().After(deadline) {
				return done, fmt.Errorf("the wallet updater neither reached the turnstile nor went idle")
			}
			time.Sleep(200 * time.Microsecond)
		}
		if done == n {
			return done, nil
		}
		g.mu.Lock()
		before := g.passed
		g.tokens = 1
		g.cond.Broadcast()
		for g.passed == before {
			g.cond.Wait()
		}
		g.mu.Unlock()
		done++
	}
}

// gateStore is the node's store with a turnstile between two CHAIN reads of the walletUpdater
// goroutine: the updater has found its best block in the main chain (Chain.InMainChain) and is about
// to fetch the block at WorkHeight+1 (Chain.GetBlockByHeight -> GetMainChainHash).  With the
// turnstile closed the harness can let the node reorganise exactly there.  Every call is forwarded
// to the real database.Store.
type gateStore struct {
	*database.Store
	mu      sync.Mutex
	cond    *sync.Cond
	hold    bool
	waiting bool
	Held    int // how often the updater stood at the turnstile
}

func newGateStore(st *database.Store) *gateStore {
	g := &gateStore{Store: st}
	g.cond = sync.NewCond(&g.mu)
	return g
}

func (g *gateStore) GetMainChainHash(height uint64) (*bc.Hash, error) {
	g.mu.Lock()
	if g.hold {
		buf := make([]byte, 16384)
		st := string(buf[:runtime.Stack(buf, false)])
		if strings.Contains(st, "(*Wallet).walletUpdater") && strings.Contains(st, "(*Chain).GetBlockByHeight") {
			g.Held++
			for g.hold {
				g.waiting = true
				g.cond.Wait()
			}
			g.waiting = false
		}
	}
	g.mu.Unlock()
	return g.Store.GetMainChainHash(height)
}

func (g *gateStore) Hold() {
	g.mu.Lock()
	g.hold = true
	g.mu.Unlock()
}

func (g *gateStore) Release() {
	g.mu.Lock()
	g.hold = false
	g.cond.Broadcast()
	g.mu.Unlock()
}

func (g *gateStore) Waiting() bool {
	g.mu.Lock()
	defer g.mu.Unlock()
	return g.waiting
}

// WaitHeldOrIdle: the updater stands at the turnstile, or has nothing to do.
func (g *gateStore) WaitHeldOrIdle(timeout time.Duration) (bool, error) {
	deadline := time.Now().Add(timeout)
	for {
		if g.Waiting() {
			return true, nil
		}
		if updatersIdle() && !g.Waiting() && updatersIdle() {
			return false, nil
		}
		if time.Now().After(deadline) {
			return false, fmt.Errorf("the wallet updater neither reached the chain turnstile nor went idle")
		}
		time.Sleep(200 * time.Microsecond)
	}
}

// newGatedNode: chainlib.NewNodeOnDB with the gateStore between the chain and the real store.
func newGatedNode(dir string) (*cl.Node, *gateStore, error) {
	os.MkdirAll(dir, 0755)
	db := dbm.NewDB("core", "leveldb", dir)
	store := database.NewStore(db)
	gs := newGateStore(store)
	disp := event.NewDispatcher()
	pool := protocol.NewTxPool(gs, disp)
	chain, err := protocol.NewChain(gs, pool, disp)
	if err != nil {
		return nil, nil, err
	}
	return &cl.Node{Dir: dir, DB: db, Store: store, Pool: pool, Disp: disp, Chain: chain}, gs, nil
}

type WalletNode struct {
	CGate   *gateStore
	Env     *Env
	N       *cl.Node
	DB      dbm.DB
	Gate    *gateDB
	Mgr     *account.Manager
	W       *wallet.Wallet
	Keeper  *account.VerifKeeper
	AcctID  [5]string // label -> account id (uuid, differs per wallet): A, B, C (2-of-2), D (2-of-3)
	Learned map[int]bool // late programs this wallet has registered

	// transaction pool messages: the node's pool posts them on the node's dispatcher; the harness
	// queues them (one batch per node event) and hands them to the wallet's own dispatcher, in order,
	// when the case says so - the delay of wallet.memPoolTxQueryLoop is the scheduler's in reality
	poolSub *event.Subscription
	wdisp   *event.Dispatcher
	queue   [][]protocol.TxMsgEvent
}

// NewWalletNode starts a node on LevelDB under dir and a wallet on a memory DB following it.  The
// wallet registers the late programs in learned (in the order of LatePrograms) from the start.
func (e *Env) NewWalletNode(dir string, learned ...int) (*WalletNode, error) {
	n, cgate, err := newGatedNode(dir)
	if err != nil {
		return nil, err
	}
	gate := newGateDB()
	wn := &WalletNode{Env: e, N: n, CGate: cgate, DB: gate, Gate: gate, Learned: map[int]bool{}, wdisp: event.NewDispatcher()}
	if wn.poolSub, err = n.Disp.Subscribe(protocol.TxMsgEvent{}); err != nil {
		return nil, err
	}
	wn.Mgr = account.NewManager(wn.DB, n.Chain)
	for a := 1; a <= 2; a++ {
		acc, err := wn.Mgr.Create([]chainkd.XPub{e.Root[a-1].XPub()}, 1, fmt.Sprintf("acct%d", a), signers.BIP0044)
		if err != nil {
			return nil, err
		}
		wn.AcctID[a] = acc.ID
	}
	for a := 3; a <= 4; a++ {
		xpubs, quorum := e.msigKeys(a)
		acc, err := wn.Mgr.Create(xpubs, quorum, fmt.Sprintf("acct%d", a), signers.BIP0044)
		if err != nil {
			return nil, err
		}
		wn.AcctID[a] = acc.ID
	}
	for _, l := range []int{PA1, PA2, PAChange, PB1, PM22, PM23} {
		if err := wn.register(l); err != nil {
			return nil, err
		}
	}
	for _, l := range LatePrograms {
		for _, x := range learned {
			if x == l {
				if err := wn.Learn(l); err != nil {
					return nil, err
				}
			}
		}
	}
	wn.W, err = wallet.NewWallet(wn.DB, wn.Mgr, asset.NewRegistry(wn.DB, n.Chain), contract.NewRegistry(wn.DB), nil, n.Chain, wn.wdisp, false)
	if err != nil {
		return nil, err
	}
	wn.Keeper = wn.Mgr.VerifKeeper()
	return wn, nil
}

func (wn *WalletNode) register(l int) error {
	p := wn.Env.Progs[l]
	cp, err := wn.Mgr.CreateAddress(wn.AcctID[p.Acct], p.Change)
	if err != nil {
		return err
	}
	if string(cp.ControlProgram) != string(p.Code) || cp.KeyIndex != p.Index || cp.Change != p.Change {
		return fmt.Errorf("account manager derived another program for label %d (index %d, expected %d)", l, cp.KeyIndex, p.Index)
	}
	return nil
}

// Learn registers a late program (Manager.CreateAddress hands out the account's next address).
func (wn *WalletNode) Learn(l int) error {
	if wn.Learned[l] {
		return nil
	}
	if err := wn.register(l); err != nil {
		return err
	}
	wn.Learned[l] = true
	return nil
}

// LearnedList: the late programs registered so far, in learning order.
func (wn *WalletNode) LearnedList() []int {
	var ls []int
	for _, l := range LatePrograms {
		if wn.Learned[l] {
			ls = append(ls, l)
		}
	}
	return ls
}

// Owns: the wallet has registered the program.
func (wn *WalletNode) Owns(prog int) bool {
	return (prog >= PA1 && prog <= PB1) || IsMsig(prog) || wn.Learned[prog]
}

// goroutinesParked: every goroutine of this process running fn is blocked in one of the given wait
// states (read off the goroutine dump: there is no other way to know that a loop of the wallet has
// finished its iteration and will not act again before the next event arrives).
func goroutinesParked(fn string, states ...string) bool {
	buf := make([]byte, 1<<20)
	for {
		n := runtime.Stack(buf, true)
		if n < len(buf) {
			buf = buf[:n]
			break
		}
		buf = make([]byte, 2*len(buf))
	}
	for _, g := range bytes.Split(buf, []byte("\n\n")) {
		if !bytes.Contains(g, []byte(fn)) {
			continue
		}
		head := g
		if i := bytes.IndexByte(g, '\n'); i >= 0 {
			head = g[:i]
		}
		ok := false
		for _, s := range states {
			if bytes.Contains(head, []byte("["+s)) {
				ok = true
			}
		}
		if !ok {
			return false
		}
	}
	return true
}

// updatersIdle: every walletUpdater goroutine of this process is parked in walletBlockWaiter's
// select (the only blocking select of the updater).
func updatersIdle() bool { return goroutinesParked("(*Wallet).walletUpdater", "select") }

// poolLoopsIdle: every memPoolTxQueryLoop is blocked on its (empty) subscription channel.
func poolLoopsIdle() bool {
	return goroutinesParked("(*Wallet).memPoolTxQueryLoop", "select", "chan receive")
}

// CollectPoolMsgs moves the messages the node's pool has posted since the last call into a new
// batch of the queue (the posts of one node event come in map order: a batch is forwarded as a whole).
func (wn *WalletNode) CollectPoolMsgs() int {
	var batch []protocol.TxMsgEvent
	for {
		select {
		case ev := <-wn.poolSub.Chan():
			if m, ok := ev.Data.(protocol.TxMsgEvent); ok {
				batch = append(batch, m)
			}
			continue
		default:
		}
		break
	}
	if len(batch) > 0 {
		wn.queue = append(wn.queue, batch)
	}
	return len(batch)
}

// QueuedBatches: batches of pool messages the wallet has not seen yet.
func (wn *WalletNode) QueuedBatches() int { return len(wn.queue) }

// ForwardPoolMsgs hands the oldest k batches (k < 0: all) to the wallet and waits until
// wallet.memPoolTxQueryLoop has handled them.
func (wn *WalletNode) ForwardPoolMsgs(k int, timeout time.Duration) (int, error) {
	if k < 0 || k > len(wn.queue) {
		k = len(wn.queue)
	}
	n := 0
	for _, b := range wn.queue[:k] {
		for _, m := range b {
			wn.wdisp.Post(m)
			n++
		}
	}
	wn.queue = wn.queue[k:]
	if n == 0 {
		return 0, nil
	}
	deadline := time.Now().Add(timeout)
	for !(poolLoopsIdle() && poolLoopsIdle()) {
		if time.Now().After(deadline) {
			return n, fmt.Errorf("the wallet did not handle the pool messages")
		}
		time.Sleep(200 * time.Microsecond)
	}
	return n, nil
}

// Sync waits until the wallet has caught up with the node's best block (when expect is set) and
// its updater is parked again.
func (wn *WalletNode) Sync(expect bool, timeout time.Duration) error {
	deadline := time.Now().Add(timeout)
	for {
		best := wn.N.Chain.BestBlockHash()
		st := wn.W.GetWalletStatusInfo()
		if (!expect || (st.BestHash == *best && st.WorkHash == *best)) && updatersIdle() {
			st2 := wn.W.GetWalletStatusInfo()
			if st2 == st {
				return nil
			}
		}
		if time.Now().After(deadline) {
			return fmt.Errorf("wallet did not catch up: wallet best %d work %d, chain best %d", st.BestHeight, st.WorkHeight, wn.N.Chain.BestBlockHeight())
		}
		time.Sleep(300 * time.Microsecond)
	}
}

// Rec is one wallet UTXO record, projected.
type Rec struct {
	Std    bool   `json:"std"` // key space: standard (true) or contract
	ID     bc.Hash `json:"-"`
	Out    int    `json:"o"` // label of the output id (filled by the caller)
	Asset  int    `json:"as"` // 0 = BTM, 1 = anything else
	Amount uint64 `json:"am"`
	Prog   int    `json:"p"`  // program label, -1 unknown
	Vote   int    `json:"v"`  // 0 none, 1 = Env.VoteTo, 2 = other
	Acct   int    `json:"ac"` // 1 = A, 2 = B, 0 none, -1 unknown id
	Index  uint64 `json:"ix"`
	Change bool   `json:"ch"`
	Valid  uint64 `json:"vh"`
	Usable bool   `json:"us"` // the keeper reports it mature at the node's best height
}

func (wn *WalletNode) project(std bool, u *account.UTXO) Rec {
	r := Rec{Std: std, ID: u.OutputID, Amount: u.Amount, Prog: -1, Index: u.ControlProgramIndex, Change: u.Change, Valid: u.ValidHeight}
	if u.AssetID != *consensus.BTMAssetID {
		r.Asset = 1
	}
	if p := wn.Env.ProgOf(u.ControlProgram); p != nil {
		r.Prog = p.Label
	}
	switch {
	case u.Vote == nil:
	case string(u.Vote) == string(wn.Env.VoteTo):
		r.Vote = 1
	default:
		r.Vote = 2
	}
	switch u.AccountID {
	case "":
	case wn.AcctID[1]:
		r.Acct = 1
	case wn.AcctID[2]:
		r.Acct = 2
	case wn.AcctID[3]:
		r.Acct = 3
	case wn.AcctID[4]:
		r.Acct = 4
	default:
		r.Acct = -1
	}
	return r
}

// List returns every UTXO record of the wallet (both key spaces, through Wallet.GetAccountUtxos),
// sorted by key space and output id, with the keeper's verdict.
func (wn *WalletNode) List() []Rec {
	var rs []Rec
	for _, contractSpace := range []bool{false, true} {
		for _, u := range wn.W.GetAccountUtxos("", "", false, contractSpace, false) {
			rs = append(rs, wn.project(!contractSpace, u))
		}
	}
	mature := wn.matureSet(false)
	for i := range rs {
		rs[i].Usable = wn.usable(rs[i].ID, false, mature)
	}
	sort.Slice(rs, func(i, j int) bool {
		if rs[i].Std != rs[j].Std {
			return rs[i].Std
		}
		return rs[i].ID.String() < rs[j].ID.String()
	})
	return rs
}

// matureSet: the utxos the keeper's findUtxos offers for spending, for every (account, vote) of
// the vocabulary, without or with the unconfirmed ones.
func (wn *WalletNode) matureSet(useUnconfirmed bool) map[bc.Hash]*account.UTXO {
	m := map[bc.Hash]*account.UTXO{}
	for a := 1; a <= 4; a++ {
		for _, vote := range [][]byte{nil, wn.Env.VoteTo} {
			us, _ := wn.Keeper.VerifFindUtxos(wn.AcctID[a], consensus.BTMAssetID, useUnconfirmed, vote)
			for _, u := range us {
				m[u.OutputID] = u
			}
		}
	}
	return m
}

// usable: reported by findUtxos, or accepted by ReserveParticular (the two places of the maturity filter).
func (wn *WalletNode) usable(id bc.Hash, useUnconfirmed bool, mature map[bc.Hash]*account.UTXO) bool {
	if mature[id] != nil {
		return true
	}
	return wn.reservable(id, useUnconfirmed) != nil
}

// reservable: the utxo ReserveParticular hands out for the output id (nil: refused).
func (wn *WalletNode) reservable(id bc.Hash, useUnconfirmed bool) *account.UTXO {
	res, err := wn.Keeper.ReserveParticular(id, useUnconfirmed, time.Now().Add(time.Minute))
	if err != nil || len(res.UTXOs) != 1 {
		return nil
	}
	wn.Keeper.Cancel(res.ID)
	return res.UTXOs[0]
}

// Offer: what the keeper hands out for one output id when the caller accepts unconfirmed utxos
// (useUnconfirmed = true).
type Offer struct {
	ID      bc.Hash
	Find    *account.UTXO // the utxo findUtxos(…, true, …) lists, nil when it lists none
	Reserve *account.UTXO // the utxo ReserveParticular(id, true, …) reserves, nil when it refuses
	Amount  *account.UTXO // the utxo a Reserve(account, BTM, everything offered, true, vote, …) holds for the id
	InDB    bool          // the wallet holds a confirmed record of the output
	InMap   bool          // the keeper's unconfirmed map holds a copy of the output
}

// OffersUnconfirmed queries the keeper with useUnconfirmed = true for every output the wallet's db
// or the keeper's unconfirmed map knows; sorted by output id.
func (wn *WalletNode) OffersUnconfirmed(list []Rec) []Offer {
	m := map[bc.Hash]*Offer{}
	get := func(id bc.Hash) *Offer {
		if m[id] == nil {
			m[id] = &Offer{ID: id}
		}
		return m[id]
	}
	for _, r := range list {
		get(r.ID).InDB = true
	}
	for _, u := range wn.Keeper.ListUnconfirmed() {
		get(u.OutputID).InMap = true
	}
	for id, u := range wn.matureSet(true) {
		get(id).Find = u
	}
	// Reserve by amount: ask every (account, vote) for all that findUtxos offers it
	for a := 1; a <= 4; a++ {
		for _, vote := range [][]byte{nil, wn.Env.VoteTo} {
			us, _ := wn.Keeper.VerifFindUtxos(wn.AcctID[a], consensus.BTMAssetID, true, vote)
			var sum uint64
			for _, u := range us {
				sum += u.Amount
			}
			if sum == 0 {
				continue
			}
			res, err := wn.Keeper.Reserve(wn.AcctID[a], consensus.BTMAssetID, sum, true, vote, time.Now().Add(time.Minute))
			if err != nil {
				continue
			}
			for _, u := range res.UTXOs {
				get(u.OutputID).Amount = u
			}
			wn.Keeper.Cancel(res.ID)
		}
	}
	var os []Offer
	for id, o := range m {
		o.Reserve = wn.reservable(id, true)
		os = append(os, *o)
	}
	sort.Slice(os, func(i, j int) bool { return os[i].ID.String() < os[j].ID.String() })
	return os
}
