package wsim

import (
	"encoding/hex"
	"fmt"
	"os"
	"sort"
	"strings"
	"time"

	"github.com/bytom/bytom/consensus"
	"github.com/bytom/bytom/database/storage"
	"github.com/bytom/bytom/protocol/bc"
	"github.com/bytom/bytom/protocol/bc/types"
	"github.com/bytom/bytom/protocol/state"

	cl "verifharness/chainlib"
	. "verifharness/hlib"
)

// ---------------------------------------------------------------- case / result format

type Case struct {
	ID    int    `json:"id"`
	Seed  uint64 `json:"seed"`
	Kind  string `json:"kind"`
	Sched string `json:"sched"` // "" = constant lock 3; "step" = lock 2 below height 20, 6 from there on
}

func SchedOf(name string) Schedule {
	if name == "step" {
		return StepSchedule(20, 2, 6)
	}
	return ConstSchedule(3)
}

// SchedCoq is the schedule table passed to the model.
func SchedCoq(name string) string {
	if name == "step" {
		return "[(0, 20, 2); (20, 18446744073709551615, 6)]"
	}
	return "[(0, 18446744073709551615, 3)]"
}

// model-side transaction / block (labels)
type MOut struct {
	Kind   int    `json:"k"` // 0 original, 1 vote, 2 other
	ID     int    `json:"i"`
	Asset  int    `json:"a"`
	Amount uint64 `json:"m"`
	Prog   int    `json:"p"`
	Vote   int    `json:"v"`
}
type MIn struct {
	Kind   int    `json:"k"` // 0 spend, 1 veto, 2 other
	ID     int    `json:"i"`
	Asset  int    `json:"a"`
	Amount uint64 `json:"m"`
	Prog   int    `json:"p"`
	Vote   int    `json:"v"`
}
type MTx struct {
	CB   bool   `json:"cb"`
	Ins  []MIn  `json:"ins"`
	Outs []MOut `json:"outs"`
}
type MBlock struct {
	Label  int    `json:"l"`
	Prev   int    `json:"pv"`
	Height uint64 `json:"h"`
	Txs    []MTx  `json:"txs"`
}

// ORec: one observed record ([] = absent): asset, amount, prog, vote, acct, index, change, valid height, usable, spend status
type ORec []int64

type Deliv struct {
	Block  int      `json:"b"`
	Step   bool     `json:"step"`
	K      int      `json:"k"`
	News   []int    `json:"news"`
	Synced bool     `json:"sy"`
	Height uint64   `json:"h"`
	Recs   [][2]ORec `json:"r"` // per tracked output id: standard key, contract key
}

// KRec: one utxo of a keeper observation (labels): output id, asset, amount, program, vote, account, index, change, valid height
type KRec [9]int64

// KFlag: what the keeper hands out with one value of useUnconfirmed: per query (account 1 / 2 x
// no vote / the vote key) the (id, valid height) pairs of findUtxos sorted by id and the immature
// amount; per asked id the valid height of the utxo ReserveParticular reserves (-1: refused)
type KFlag struct {
	Find [][][2]int64 `json:"f"`
	Imm  []uint64     `json:"i"`
	Res  []int64      `json:"r"`
}

// KObs: one observation of the real keeper (C25/KeeperRun.v)
type KObs struct {
	H    uint64   `json:"h"`
	Std  []KRec   `json:"s"`
	Ctr  []KRec   `json:"c"`
	Unc  []KRec   `json:"u"`
	Ids  []int    `json:"ids"`
	True KFlag    `json:"t"`
	False KFlag   `json:"n"`
}

type Result struct {
	Keeper  []KObs         `json:"keeper,omitempty"`
	ID      int            `json:"id"`
	Panic   string         `json:"panic,omitempty"`
	Hang    bool           `json:"hang,omitempty"`
	Blocks  []MBlock       `json:"blocks"` // blocks above the trunk
	NOuts   int            `json:"nouts"`
	Delivs  []Deliv        `json:"delivs"`
	Fails24 []string       `json:"f24"`
	Fails25 []string       `json:"f25"`
	Fails26 []string       `json:"f26"`
	Count   map[string]int `json:"count"`
	Abort   bool           `json:"abort,omitempty"` // the wallet stopped following: the case ended there and the child process exits (its updater may spin)
	Detach  bool           `json:"detach"`  // the wallet detached at least one block
	Restore bool           `json:"restore"` // ... and a wallet-owned output was un-spent by it
	Descr   string         `json:"descr"`
}

// ---------------------------------------------------------------- labels

type Labeler struct {
	env   *Env
	outs  map[bc.Hash]int
	OutID []bc.Hash
	votes map[string]int
	progs map[string]int
}

func NewLabeler(e *Env) *Labeler {
	return &Labeler{env: e, outs: map[bc.Hash]int{}, votes: map[string]int{string(e.VoteTo): 1}, progs: map[string]int{}}
}

func (l *Labeler) out(h bc.Hash) int {
	if v, ok := l.outs[h]; ok {
		return v
	}
	v := len(l.OutID) + 1
	l.outs[h] = v
	l.OutID = append(l.OutID, h)
	return v
}

func (l *Labeler) prog(code []byte) int {
	if p := l.env.ProgOf(code); p != nil {
		return p.Label
	}
	if v, ok := l.progs[string(code)]; ok {
		return v
	}
	v := 100 + len(l.progs)
	l.progs[string(code)] = v
	return v
}

func (l *Labeler) vote(v []byte) int {
	if x, ok := l.votes[string(v)]; ok {
		return x
	}
	x := len(l.votes) + 1
	l.votes[string(v)] = x
	return x
}

func assetLabel(a bc.AssetID) int {
	if a == *consensus.BTMAssetID {
		return 0
	}
	return 1
}

// ModelBlock reads off exactly what wallet/utxo.go and protocol/state/utxo_view.go look at.
func (l *Labeler) ModelBlock(label, prev int, b *types.Block) MBlock {
	mb := MBlock{Label: label, Prev: prev, Height: b.Height}
	for _, tx := range b.Transactions {
		mt := MTx{CB: len(tx.Inputs) > 0 && tx.Inputs[0].InputType() == types.CoinbaseInputType}
		for _, inpID := range tx.Tx.InputIDs {
			switch inp := tx.Entries[inpID].(type) {
			case *bc.Spend:
				o, err := tx.OriginalOutput(*inp.SpentOutputId)
				if err != nil {
					mt.Ins = append(mt.Ins, MIn{Kind: 2})
					continue
				}
				mt.Ins = append(mt.Ins, MIn{Kind: 0, ID: l.out(*inp.SpentOutputId), Asset: assetLabel(*o.Source.Value.AssetId), Amount: o.Source.Value.Amount, Prog: l.prog(o.ControlProgram.Code)})
			case *bc.VetoInput:
				o, err := tx.VoteOutput(*inp.SpentOutputId)
				if err != nil {
					mt.Ins = append(mt.Ins, MIn{Kind: 2})
					continue
				}
				mt.Ins = append(mt.Ins, MIn{Kind: 1, ID: l.out(*inp.SpentOutputId), Asset: assetLabel(*o.Source.Value.AssetId), Amount: o.Source.Value.Amount, Prog: l.prog(o.ControlProgram.Code), Vote: l.vote(o.Vote)})
			default:
				mt.Ins = append(mt.Ins, MIn{Kind: 2})
			}
		}
		for i, out := range tx.Outputs {
			mo := MOut{ID: l.out(*tx.ResultIds[i]), Asset: assetLabel(*out.AssetAmount.AssetId), Amount: out.AssetAmount.Amount, Prog: l.prog(out.ControlProgram)}
			switch e := tx.Entries[*tx.ResultIds[i]].(type) {
			case *bc.OriginalOutput:
				mo.Kind = 0
			case *bc.VoteOutput:
				mo.Kind, mo.Vote = 1, l.vote(e.Vote)
			default:
				mo.Kind = 2
			}
			mt.Outs = append(mt.Outs, mo)
		}
		mb.Txs = append(mb.Txs, mt)
	}
	return mb
}

// ---------------------------------------------------------------- generator bookkeeping

type uinfo struct {
	out  cl.Out
	vote bool
	cb   bool
	h    uint64
	prog int
}

type bstate struct{ avail []uinfo }

func (s *bstate) clone() *bstate { return &bstate{avail: append([]uinfo(nil), s.avail...)} }

func pend(h uint64) uint64 { return consensus.VotePendingBlockNums(h) }

func unlockedAt(u uinfo, H uint64) bool {
	if u.cb {
		return u.h+10 <= H
	}
	if u.vote {
		return u.h+pend(H) <= H
	}
	return true
}

func (s *bstate) find(id bc.Hash) int {
	for i, u := range s.avail {
		if u.out.ID() == id {
			return i
		}
	}
	return -1
}

func (s *bstate) applyBlock(e *Env, b *types.Block) {
	for ti, tx := range b.Transactions {
		for _, id := range tx.SpentOutputIDs {
			if i := s.find(id); i >= 0 {
				s.avail = append(s.avail[:i:i], s.avail[i+1:]...)
			}
		}
		for pos, o := range tx.Outputs {
			if o.Amount == 0 {
				continue
			}
			switch tx.Entries[*tx.ResultIds[pos]].(type) {
			case *bc.OriginalOutput, *bc.VoteOutput:
			default:
				continue
			}
			pl := -1
			if p := e.ProgOf(o.ControlProgram); p != nil {
				pl = p.Label
			}
			s.avail = append(s.avail, uinfo{out: cl.Out{Tx: tx, Pos: pos}, vote: o.OutputType() == types.VoteOutputType, cb: ti == 0, h: b.Height, prog: pl})
		}
	}
}

type gblock struct {
	label  int
	parent int
	info   *cl.BlockInfo
	st     *bstate
	just   bool // delivered with sup links of keys 1..3 from genesis: its checkpoint is justified
}

type world struct {
	e      *Env
	r      *Rng
	kind   string
	blocks []*gblock // index = label; 0 = genesis, 1..16 trunk
	byHash map[bc.Hash]int
	pool   []*types.Tx
	cnt    map[string]int
	nchild map[int]int
	order  []int // delivery order (labels above the trunk)
	// "rescan" stream: rescans[i] starts before delivery i
	rescans map[int]*rescanOp
	late    []int // late programs no rescan of the case has taught the wallet yet
}

// rescanOp: the wallet (optionally after registering a late program) is told to rescan from
// genesis.  len(Steps) = 0: the updater runs freely and the wallet is observed when it has caught
// up.  Otherwise the updater is held at the turnstile of its database (gateDB): it performs
// Steps[0] attach / detach operations, then the next delivery reaches the node, then Steps[1]
// operations, ... and after len(Steps) deliveries the updater is released.
type rescanOp struct {
	Race  bool   // no rescan: the updater is held at the CHAIN turnstile (gateStore) - it has found its best
	             // block in the main chain and is about to fetch the block at WorkHeight+1 - during len(Steps) deliveries
	Learn int    // late program registered first (0: none)
	Alias bool   // trigger: Wallet.UpdateAccountAlias (which rescans) instead of Wallet.RescanBlocks
	Steps []int
}

const TrunkLen = 16

func newWorld(e *Env, r *Rng, kind string) *world {
	g := &world{e: e, r: r, kind: kind, byHash: map[bc.Hash]int{}, cnt: map[string]int{}, nchild: map[int]int{}, rescans: map[int]*rescanOp{}}
	if kind == "rescan" {
		g.late = append([]int(nil), LatePrograms...)
	}
	st := &bstate{}
	st.applyBlock(e, e.W.Genesis.Block)
	g.blocks = append(g.blocks, &gblock{label: 0, parent: -1, info: e.W.Genesis, st: st})
	g.byHash[e.W.Genesis.Hash] = 0
	for i, bi := range e.Trunk {
		st = st.clone()
		st.applyBlock(e, bi.Block)
		g.blocks = append(g.blocks, &gblock{label: i + 1, parent: i, info: bi, st: st})
		g.byHash[bi.Hash] = i + 1
	}
	return g
}

func (g *world) count(k string) { g.cnt[k]++ }
func (g *world) height(l int) uint64 { return g.blocks[l].info.Block.Height }

func (g *world) path(l int) []int {
	var p []int
	for x := l; x >= 0; x = g.blocks[x].parent {
		p = append([]int{x}, p...)
	}
	return p
}

// addBlock builds a block with the given transactions on parent (the generator's bookkeeping follows).
func (g *world) addBlock(parent int, txs []*types.Tx, reward int, just bool) int {
	opt := cl.BlockOpt{Skip: g.nchild[parent]}
	if reward != POpTrue {
		opt.RewardProgram = g.e.Progs[reward].Code
	}
	g.nchild[parent]++
	bi := g.e.W.NewBlock(g.blocks[parent].info, txs, opt)
	st := g.blocks[parent].st.clone()
	st.applyBlock(g.e, bi.Block)
	l := len(g.blocks)
	g.blocks = append(g.blocks, &gblock{label: l, parent: parent, info: bi, st: st, just: just})
	g.byHash[bi.Hash] = l
	g.order = append(g.order, l)
	return l
}

var walletProgs = []int{PA1, PA2, PAChange, PB1}

// keyedWalletProg: a program of the accounts' keys (registered from the start, or a late one)
func keyedWalletProg(p int) bool { return (p >= PA1 && p <= PB1) || (p >= PA3 && p <= PA4) }

func (g *world) pickProg() int {
	if g.kind == "msig" && g.r.Chance(35) {
		// a multi-signature account of the wallet: P2WSH, standard key space
		return []int{PM22, PM23}[g.r.Intn(2)]
	}
	if g.kind == "rescan" && g.r.Chance(22) {
		// a program of the accounts' keys the wallet registers late or never
		return LatePrograms[g.r.Intn(len(LatePrograms))]
	}
	x := g.r.Intn(100)
	switch {
	case x < 62:
		return walletProgs[g.r.Intn(len(walletProgs))]
	case x < 74:
		return PForeign
	case x < 82:
		return PForeignS
	default:
		return POpTrue
	}
}

const minVote = 100000000

// makeTx spends ins into 1..3 outputs of random programs; vote outputs when the value allows.
func (g *world) makeTx(ins []uinfo) *types.Tx {
	var sum uint64
	var outs []cl.Out
	for _, u := range ins {
		sum += u.out.Amount()
		outs = append(outs, u.out)
	}
	if sum <= cl.DefaultFee+10 {
		return nil
	}
	val := sum - cl.DefaultFee
	n := 1 + g.r.Intn(3)
	voteChance := 30
	if g.kind == "votes" || g.kind == "down" || g.kind == "pool" {
		voteChance = 55
	}
	var specs []cl.OutSpec
	for i := 0; i < n; i++ {
		amt := val / uint64(n-i)
		if i == n-1 {
			amt = val
		}
		val -= amt
		if amt == 0 {
			continue
		}
		s := cl.OutSpec{Amount: amt, Program: g.e.Progs[g.pickProg()].Code}
		if amt >= minVote && g.r.Chance(voteChance) {
			s.Vote = g.e.VoteTo
			g.count("out:vote")
		} else {
			g.count("out:plain")
		}
		specs = append(specs, s)
	}
	return g.e.NewTx(outs, specs, 0)
}

// pickInputs chooses 1..2 outputs spendable at height H, preferring the wallet's.
func (g *world) pickInputs(st *bstate, H uint64) []uinfo {
	var mine, other []uinfo
	for _, u := range st.avail {
		if !unlockedAt(u, H) {
			continue
		}
		if u.prog < 0 || IsMsig(u.prog) { // genesis output etc.: no key; multi-signature: no witness built
			continue
		}
		if keyedWalletProg(u.prog) {
			mine = append(mine, u)
		} else {
			other = append(other, u)
		}
	}
	var ins []uinfo
	take := func(l *[]uinfo) {
		i := g.r.Intn(len(*l))
		if g.kind == "down" && g.r.Chance(60) {
			// prefer outputs with a maturity rule (coinbase, vote): un-spending them is what C25 is about
			for j, u := range *l {
				if u.cb || u.vote {
					i = j
					break
				}
			}
		}
		ins = append(ins, (*l)[i])
		*l = append((*l)[:i:i], (*l)[i+1:]...)
	}
	n := 1 + g.r.Intn(2)
	for k := 0; k < n; k++ {
		switch {
		case len(mine) > 0 && (len(other) == 0 || g.r.Chance(75)):
			take(&mine)
		case len(other) > 0:
			take(&other)
		}
	}
	return ins
}

func (g *world) countIns(ins []uinfo) {
	for _, u := range ins {
		k := "in:plain"
		switch {
		case u.cb:
			k = "in:coinbase"
		case u.vote:
			k = "in:veto"
		}
		if keyedWalletProg(u.prog) {
			k += "-wallet"
		}
		g.count(k)
	}
}

// randomBlock: 0..3 fresh transactions (later ones may spend outputs of earlier ones), sometimes a
// transaction already used on another branch.
func (g *world) randomBlock(parent int, just bool) int {
	H := g.height(parent) + 1
	st := g.blocks[parent].st.clone()
	var txs []*types.Tx
	n := g.r.Intn(4)
	if g.kind == "deep" {
		n = g.r.Intn(3)
	}
	for i := 0; i < n; i++ {
		if len(g.pool) > 0 && g.r.Chance(25) {
			tx := g.pool[g.r.Intn(len(g.pool))]
			ok := true
			for _, id := range tx.SpentOutputIDs {
				j := st.find(id)
				if j < 0 || !unlockedAt(st.avail[j], H) {
					ok = false
				}
			}
			for _, t := range txs {
				if t.ID == tx.ID {
					ok = false
				}
			}
			for _, rid := range tx.ResultIds {
				if st.find(*rid) >= 0 {
					ok = false
				}
			}
			if ok {
				txs = append(txs, tx)
				applyTx(g.e, st, tx, H)
				g.count("tx:reused-on-another-branch")
				continue
			}
		}
		ins := g.pickInputs(st, H)
		if len(ins) == 0 {
			continue
		}
		tx := g.makeTx(ins)
		if tx == nil {
			continue
		}
		g.countIns(ins)
		g.count("tx:fresh")
		txs = append(txs, tx)
		g.pool = append(g.pool, tx)
		applyTx(g.e, st, tx, H)
	}
	reward := POpTrue
	if g.r.Chance(50) {
		reward = walletProgs[g.r.Intn(len(walletProgs))]
	}
	return g.addBlock(parent, txs, reward, just)
}

// applyTx: bookkeeping of a non-coinbase transaction at height H
func applyTx(e *Env, st *bstate, tx *types.Tx, H uint64) {
	for _, id := range tx.SpentOutputIDs {
		if i := st.find(id); i >= 0 {
			st.avail = append(st.avail[:i:i], st.avail[i+1:]...)
		}
	}
	for pos, o := range tx.Outputs {
		if o.Amount == 0 {
			continue
		}
		pl := -1
		if p := e.ProgOf(o.ControlProgram); p != nil {
			pl = p.Label
		}
		st.avail = append(st.avail, uinfo{out: cl.Out{Tx: tx, Pos: pos}, vote: o.OutputType() == types.VoteOutputType, h: H, prog: pl})
	}
}

// ---------------------------------------------------------------- tree generators

func (g *world) best() int {
	// the harness's expectation is not used for anything but steering the generator
	b := TrunkLen
	for l := TrunkLen + 1; l < len(g.blocks); l++ {
		if g.height(l) > g.height(b) {
			b = l
		}
	}
	return b
}

// randomTree: 6..12 blocks above the trunk, delivered in creation order; forks overtake the best branch.
func (g *world) randomTree() {
	n := 6 + g.r.Intn(7)
	if g.kind == "deep" {
		n = 10 + g.r.Intn(6)
	}
	overtake := -1
	for i := 0; i < n; i++ {
		parent := g.best()
		x := g.r.Intn(100)
		switch {
		case overtake >= 0:
			parent = overtake
		case i >= 2 && x < 30:
			// fork: a block somewhere on the best branch (or the trunk tip)
			p := g.path(g.best())
			depth := 1 + g.r.Intn(3)
			if g.kind == "deep" {
				depth = 1 + g.r.Intn(6)
			}
			k := len(p) - 1 - depth
			if k < TrunkLen {
				k = TrunkLen
			}
			parent = p[k]
			if g.r.Chance(70) {
				overtake = -2 // set below
			}
		case i >= 3 && x < 40:
			parent = TrunkLen + 1 + g.r.Intn(len(g.blocks)-TrunkLen-1)
		}
		l := g.randomBlock(parent, false)
		if overtake == -2 || overtake >= 0 {
			overtake = l
			if g.height(l) > g.height(g.bestExcept(l)) {
				overtake = -1
			}
		}
	}
}

func (g *world) bestExcept(x int) int {
	b := TrunkLen
	for l := TrunkLen + 1; l < len(g.blocks); l++ {
		if l != x && g.height(l) > g.height(b) {
			b = l
		}
	}
	return b
}

// downTree: a best branch A growing past an epoch boundary, a reorganisation that un-spends, then a
// LOWER branch ending at an epoch boundary whose checkpoint is justified by sup links, then growth.
func (g *world) downTree() {
	a := TrunkLen
	na := 5 + g.r.Intn(5) // A up to height 21..25
	var as []int
	for i := 0; i < na; i++ {
		a = g.randomBlock(a, false)
		as = append(as, a)
	}
	// side branch that overtakes A (un-spends what A's upper blocks spent)
	if g.r.Chance(70) {
		k := g.r.Intn(len(as))
		b := as[k]
		for g.height(b) <= g.height(a) {
			b = g.randomBlock(b, false)
		}
		a = b
	}
	// lower justified branch: forks below the next boundary under the tip
	top := g.height(a)
	// an epoch boundary below the tip (20, 24, ...), not always the highest one: the lower the node
	// goes, the more outputs spent above are immature / locked again at its new height
	bnd := uint64(20)
	if hi := (top - 1) / 4 * 4; hi > 20 && g.r.Chance(40) {
		bnd = 20 + 4*uint64(g.r.Intn(int((hi-20)/4)+1))
	}
	p := g.path(a)
	lo := TrunkLen
	hi := int(bnd) - 1
	if hi >= len(p) {
		hi = len(p) - 1
	}
	fork := p[lo+g.r.Intn(hi-lo+1)]
	z := fork
	for g.height(z) < bnd {
		z = g.randomBlock(z, g.height(z)+1 == bnd)
	}
	// growth on top of the justified checkpoint until the wallet wakes up again
	extra := int(top-bnd) + 1 + g.r.Intn(2)
	if g.r.Chance(25) {
		extra = g.r.Intn(int(top-bnd) + 1) // stays lower: the case ends with a stale wallet
	}
	for i := 0; i < extra; i++ {
		z = g.randomBlock(z, false)
	}
}

// rescanTree ("rescan" stream): a growing best branch with 1..3 rescans from genesis.  A rescan is
// triggered by Wallet.RescanBlocks (or by UpdateAccountAlias), often right after the wallet has
// registered a late program that earlier blocks already pay.  Some rescans run freely; most are
// held after a random number of the updater's operations (anywhere between genesis and the tip,
// more often above the funding block 15) while the node receives further blocks: extensions of the
// best branch, or a side branch that overtakes it so that the updater, resumed, finds its best
// block off the main chain and detaches in the middle of the rescan.
func (g *world) rescanTree() {
	tip := TrunkLen
	for i, n := 0, 3+g.r.Intn(5); i < n; i++ {
		tip = g.randomBlock(tip, false)
	}
	for ep, neps := 0, 1+g.r.Intn(3); ep < neps; ep++ {
		op := &rescanOp{Alias: g.r.Chance(15)}
		if len(g.late) > 0 && g.r.Chance(65) {
			op.Learn, g.late = g.late[0], g.late[1:]
		}
		at := len(g.order)
		if g.r.Chance(80) {
			H := int(g.height(tip))
			first := g.r.Intn(H + 3)
			if g.r.Chance(60) {
				first = 15 + g.r.Intn(H-13)
			}
			op.Steps = []int{first}
			more := func() {
				x := 0
				if g.r.Chance(40) {
					x = 1 + g.r.Intn(4)
				}
				op.Steps = append(op.Steps, x)
			}
			if g.r.Chance(70) {
				// a side branch overtakes the best branch while the rescan is held
				p := g.path(tip)
				k := len(p) - 1 - (1 + g.r.Intn(4))
				if k < TrunkLen {
					k = TrunkLen
				}
				b := p[k]
				for g.height(b) <= g.height(tip) {
					b = g.randomBlock(b, false)
					more()
				}
				if g.r.Chance(30) {
					b = g.randomBlock(b, false)
					more()
				}
				tip = b
			} else {
				for i, n := 0, 1+g.r.Intn(2); i < n; i++ {
					tip = g.randomBlock(tip, false)
					more()
				}
			}
			op.Steps = op.Steps[:len(op.Steps)-1] // one allowance before each held delivery
		}
		g.rescans[at] = op
		for i, n := 0, 1+g.r.Intn(3); i < n; i++ {
			tip = g.randomBlock(tip, false)
		}
		if g.r.Chance(35) {
			// an ordinary reorganisation between the rescans
			p := g.path(tip)
			k := len(p) - 1 - (1 + g.r.Intn(3))
			if k < TrunkLen {
				k = TrunkLen
			}
			b := p[k]
			for g.height(b) <= g.height(tip) {
				b = g.randomBlock(b, false)
			}
			tip = b
		}
	}
}

// raceTree ("race" stream): a growing best branch A with 1..3 episodes in which the walletUpdater is
// held BETWEEN its two chain reads: the next block of A wakes it, it finds its best block in the main
// chain and stands at the turnstile of the node's store (gateStore) before fetching the block at
// WorkHeight+1; meanwhile a side branch forking 1..3 blocks below the wallet's best block overtakes
// A; released, the updater fetches a block of the other branch at WorkHeight+1.  Ordinary blocks and
// reorganisations in between.
func (g *world) raceTree() {
	tip := TrunkLen
	for i, n := 0, 2+g.r.Intn(4); i < n; i++ {
		tip = g.randomBlock(tip, false)
	}
	for ep, neps := 0, 1+g.r.Intn(3); ep < neps; ep++ {
		at := len(g.order)
		p := g.path(tip) // the wallet's chain when the episode starts
		ext := g.randomBlock(tip, false)
		nheld := 1
		k := len(p) - 1 - (1 + g.r.Intn(3))
		if k < TrunkLen {
			k = TrunkLen
		}
		b := p[k]
		if g.r.Chance(85) {
			for g.height(b) <= g.height(ext) {
				b = g.randomBlock(b, false)
				nheld++
			}
			tip = b
		} else {
			// the side branch stays shorter: nothing but a delay for the updater
			b = g.randomBlock(b, false)
			nheld++
			tip = ext
		}
		g.rescans[at] = &rescanOp{Race: true, Steps: make([]int, nheld)}
		for i, n := 0, 1+g.r.Intn(3); i < n; i++ {
			tip = g.randomBlock(tip, false)
		}
	}
}

// corpus cases (scripted; run first on every check)
func (g *world) corpus(name string) {
	e := g.e
	tip := TrunkLen
	split := func(pos int) uinfo {
		return uinfo{out: cl.Out{Tx: e.Split, Pos: pos}, h: 15, prog: e.ProgOf(e.Split.Outputs[pos].ControlProgram).Label, vote: pos == 3}
	}
	rewardOf := func(h int, prog int) cl.Out {
		for _, o := range e.Trunk[h-1].RewardOuts() {
			if e.ProgOf(o.Tx.Outputs[o.Pos].ControlProgram).Label == prog {
				return o
			}
		}
		panic("no such reward output")
	}
	empty := func(parent int, n int) int {
		for i := 0; i < n; i++ {
			parent = g.addBlock(parent, nil, POpTrue, false)
		}
		return parent
	}
	switch name {
	case "corpus-vote-detach":
		// X17 creates a wallet-owned vote output; Y17, Y18 replace X17
		u := split(0)
		tx := e.NewTx([]cl.Out{u.out}, []cl.OutSpec{{Amount: u.out.Amount() - cl.DefaultFee, Program: e.Progs[PA2].Code, Vote: e.VoteTo}}, 0)
		g.addBlock(tip, []*types.Tx{tx}, POpTrue, false)
		y := g.addBlock(tip, nil, POpTrue, false)
		g.addBlock(y, nil, POpTrue, false)
	case "corpus-cb-unspend-down":
		// A17..A23, A23 spends the height-13 coinbase output of A2 (mature at 23); B forks at A22 and
		// reaches 24 (un-spends it); Z forks at A18 and ends at Z20 with a justified checkpoint: the
		// node goes down to height 20 while the wallet stays on B24
		a22 := empty(tip, 6)
		src := rewardOf(13, PA2)
		tx := e.NewTx([]cl.Out{src}, []cl.OutSpec{{Amount: src.Amount() - cl.DefaultFee}}, 0)
		g.addBlock(a22, []*types.Tx{tx}, POpTrue, false)
		b := empty(a22, 2)
		_ = b
		p := g.path(a22)
		z := g.addBlock(p[18], nil, POpTrue, false)
		g.addBlock(z, nil, POpTrue, true)
	case "corpus-vote-unspend-down":
		// the trunk's vote output (height 15, lock 3) is vetoed at A23; B un-spends it; then Z20 justified.
		// A fresh vote output created at A19 and vetoed at A23 as well (locked until 22).
		u := split(0)
		a18 := empty(tip, 2)
		mk := e.NewTx([]cl.Out{u.out}, []cl.OutSpec{{Amount: u.out.Amount() - cl.DefaultFee, Program: e.Progs[PB1].Code, Vote: e.VoteTo}}, 0)
		a19 := g.addBlock(a18, []*types.Tx{mk}, POpTrue, false)
		a22 := empty(a19, 3)
		v1 := e.NewTx([]cl.Out{{Tx: mk, Pos: 0}}, []cl.OutSpec{{Amount: mk.Outputs[0].Amount - cl.DefaultFee}}, 0)
		v2 := e.NewTx([]cl.Out{split(3).out}, []cl.OutSpec{{Amount: split(3).out.Amount() - cl.DefaultFee}}, 0)
		g.addBlock(a22, []*types.Tx{v1, v2}, POpTrue, false)
		empty(a22, 2)
		z := g.addBlock(a19, nil, POpTrue, true) // Z20 on top of A19
		_ = z
	case "corpus-step-schedule":
		// schedule: lock 2 below height 20, 6 from there on.  A vote output created at 18 is reported
		// mature from 20 on (18 + 2) while consensus keeps it locked until 24 (18 + 6 <= s)
		a17 := empty(tip, 1)
		u := split(0)
		mk := e.NewTx([]cl.Out{u.out}, []cl.OutSpec{{Amount: u.out.Amount() - cl.DefaultFee, Program: e.Progs[PA2].Code, Vote: e.VoteTo}}, 0)
		a18 := g.addBlock(a17, []*types.Tx{mk}, POpTrue, false)
		empty(a18, 4)
	case "corpus-rescan-reorg":
		// A17..A21; A18 pays account A's address 3, which the wallet has not registered yet.  Before
		// the sixth delivery the wallet registers it and rescans; the updater is held after 16
		// operations (genesis..15 re-attached) while B21 and B22 (forking at A20) reach the node; resumed,
		// it finds A21 off the main chain and detaches it in the middle of the rescan
		u := split(0)
		a17 := empty(tip, 1)
		pay := e.NewTx([]cl.Out{u.out}, []cl.OutSpec{{Amount: u.out.Amount() - cl.DefaultFee, Program: e.Progs[PA3].Code}}, 0)
		a18 := g.addBlock(a17, []*types.Tx{pay}, POpTrue, false)
		a20 := empty(a18, 2)
		empty(a20, 1)
		g.rescans[len(g.order)] = &rescanOp{Learn: PA3, Steps: []int{16, 0}}
		empty(a20, 2)
		g.late = nil
	case "corpus-pool-vote-lag":
		// the transaction creating a wallet-owned vote output at A17 goes through the node's pool; the
		// wallet hears of it at once, but the pool's removal message reaches the wallet only after A20
		// (regression: before /repo commit 781a2de1 ReserveParticular with useUnconfirmed reserved the
		// locked output at heights 17..19 through the copy)
		u := split(0)
		mk := e.NewTx([]cl.Out{u.out}, []cl.OutSpec{{Amount: u.out.Amount() - cl.DefaultFee, Program: e.Progs[PA2].Code, Vote: e.VoteTo}}, 0)
		a17 := g.addBlock(tip, []*types.Tx{mk}, POpTrue, false)
		empty(a17, 4)
	case "corpus-pool-spent-later":
		// the transaction paying the wallet at A17 goes through the node's pool; the wallet attaches A17
		// BEFORE it hears of the removal (handled after A18); A19 spends the output: from then on nothing
		// may offer or reserve it, with or without useUnconfirmed
		u := split(0)
		pay := e.NewTx([]cl.Out{u.out}, []cl.OutSpec{{Amount: u.out.Amount() - cl.DefaultFee, Program: e.Progs[PA2].Code}}, 0)
		a17 := g.addBlock(tip, []*types.Tx{pay}, POpTrue, false)
		a18 := empty(a17, 1)
		spend := e.NewTx([]cl.Out{{Tx: pay, Pos: 0}}, []cl.OutSpec{{Amount: pay.Outputs[0].Amount - cl.DefaultFee}}, 0)
		a19 := g.addBlock(a18, []*types.Tx{spend}, POpTrue, false)
		empty(a19, 1)
	default:
		panic("unknown corpus case " + name)
	}
}

// ---------------------------------------------------------------- one case on real nodes

func (g *world) deliverTo(n *cl.Node, l int) (bool, error) {
	gb := g.blocks[l]
	b := cl.CloneBlock(gb.info.Block)
	if gb.just {
		for k := 1; k <= 3; k++ {
			b.SupLinks.AddSupLink(0, g.e.W.Genesis.Hash, cl.SignVote(g.e.W.Keys[k], g.e.W.Genesis.Hash, gb.info.Hash), k)
		}
	}
	return n.Chain.ProcessBlock(b)
}

// consensus view of a chain: the real UtxoViewpoint applied to the blocks of the path
func (g *world) viewOf(path []int) (*state.UtxoViewpoint, error) {
	v := state.NewUtxoViewpoint()
	for _, l := range path {
		if err := v.ApplyBlock(types.MapBlock(g.blocks[l].info.Block)); err != nil {
			return nil, fmt.Errorf("block %d: %v", l, err)
		}
	}
	return v, nil
}

// spendStatus: 0 not an unspent output of the view, 1 exists but applySpendUtxo refuses it at height H, 2 spendable
func spendStatus(v *state.UtxoViewpoint, id bc.Hash, H uint64) (int, *storage.UtxoEntry) {
	e := v.Entries[id]
	if e == nil || e.Spent {
		return 0, nil
	}
	blk := &bc.Block{BlockHeader: &bc.BlockHeader{Height: H}}
	tx := &bc.Tx{TxHeader: &bc.TxHeader{}, SpentOutputIDs: []bc.Hash{id}, Entries: map[bc.Hash]bc.Entry{}}
	if err := v.ApplyTransaction(blk, tx); err != nil {
		return 1, e
	}
	e.UnspendOutput()
	return 2, e
}

func recKey(r Rec) string {
	return fmt.Sprintf("asset=%d amount=%d prog=%d vote=%d acct=%d idx=%d change=%v", r.Asset, r.Amount, r.Prog, r.Vote, r.Acct, r.Index, r.Change)
}

func boolU(b bool) int64 {
	if b {
		return 1
	}
	return 0
}

// RunCase builds the tree, delivers it to a node with a wallet and observes the wallet after every delivery.
func RunCase(e *Env, c *Case, base string) (*Result, error) {
	g := newWorld(e, NewRng(c.Seed), c.Kind)
	switch {
	case strings.HasPrefix(c.Kind, "corpus-"):
		g.corpus(c.Kind)
	case c.Kind == "down":
		g.downTree()
	case c.Kind == "rescan":
		g.rescanTree()
	case c.Kind == "race":
		g.raceTree()
	default:
		g.randomTree()
	}
	res := &Result{ID: c.ID, Count: g.cnt}
	lab := NewLabeler(e)
	// label genesis and trunk first: deterministic, the parent emits them once in the header
	lab.ModelBlock(0, 0, e.W.Genesis.Block)
	for i, bi := range e.Trunk {
		lab.ModelBlock(i+1, i, bi.Block)
	}
	for l := TrunkLen + 1; l < len(g.blocks); l++ {
		res.Blocks = append(res.Blocks, lab.ModelBlock(l, g.blocks[l].parent, g.blocks[l].info.Block))
	}
	res.NOuts = len(lab.OutID)
	res.Descr = g.describe()

	os.MkdirAll(base, 0755)
	defer os.RemoveAll(base)
	wn, err := e.NewWalletNode(base + "/hist")
	if err != nil {
		return nil, err
	}
	const patience = 15 * time.Second // generous: the machine may be heavily loaded
	for _, bi := range e.Trunk {
		if _, err := wn.N.Process(bi.Block); err != nil {
			return nil, fmt.Errorf("trunk: %v", err)
		}
		if err := wn.Sync(true, patience); err != nil {
			return nil, fmt.Errorf("trunk: %v", err)
		}
	}
	fail24 := func(f string, a ...interface{}) { res.Fails24 = append(res.Fails24, fmt.Sprintf(f, a...)) }
	fail25 := func(f string, a ...interface{}) { res.Fails25 = append(res.Fails25, fmt.Sprintf(f, a...)) }
	fail26 := func(f string, a ...interface{}) { res.Fails26 = append(res.Fails26, fmt.Sprintf(f, a...)) }
	// which transaction of the case creates an output id (to ask the node's pool about it)
	// (two transactions that spend the same inputs create the same output id at a position where they
	// pay the same amount to the same program: an id can have several creators)
	creator := map[bc.Hash][]*types.Tx{}
	for _, gb := range g.blocks {
		for _, tx := range gb.info.Block.Transactions {
			for _, rid := range tx.ResultIds {
				dup := false
				for _, t := range creator[*rid] {
					dup = dup || t.ID == tx.ID
				}
				if !dup {
					creator[*rid] = append(creator[*rid], tx)
				}
			}
		}
	}
	// the scheduler's choices of the "pool" stream (which transactions reach the pool before their
	// block, how long the wallet's pool message loop lags behind) come from a second stream of the seed
	r2 := NewRng(c.Seed ^ 0x5bd1e995)
	lagUntil, scripted := map[string]int{"corpus-pool-vote-lag": 3, "corpus-pool-spent-later": 1}[c.Kind]
	poolKind := c.Kind == "pool" || scripted
	forward := func(k int) error {
		n, err := wn.ForwardPoolMsgs(k, patience)
		g.cnt["pool:messages-handled-by-wallet"] += n
		return err
	}
	cur := g.path(TrunkLen)
	fresh := 0
	lastObs := wn.W.GetWalletStatusInfo() // the wallet's status at the last observation
	var held *rescanOp                    // the rescan whose updater is being held
	heldIdx := 0
	rescanned := false // a rescan has been triggered since the last observation

	// observe: the wallet has settled; look at it (d describes the node's last delivery)
	observe := func(di int, d Deliv, forceFresh bool) error {
		bestHash := wn.N.Chain.BestBlockHash()
		after := wn.W.GetWalletStatusInfo()
		d.Synced = after.BestHash == *bestHash
		if !d.Synced {
			g.count("obs:wallet-stale")
		}
		wl, ok := g.byHash[after.BestHash]
		if !ok {
			return fmt.Errorf("wallet best block unknown")
		}
		wpath := g.path(wl)
		detachedNow := false
		if after.BestHash != lastObs.BestHash {
			// did the wallet detach?
			bp := g.path(g.byHash[lastObs.BestHash])
			j := 0
			for j < len(bp) && j < len(wpath) && bp[j] == wpath[j] {
				j++
			}
			if j < len(bp) {
				res.Detach, detachedNow = true, true
				g.count("wallet:detached-blocks")
			}
		}
		lastObs = after
		view, err := g.viewOf(wpath)
		if err != nil {
			return fmt.Errorf("the real utxo view refuses the wallet's chain: %v", err)
		}
		// ---- observe
		list := wn.List()
		d.Recs = make([][2]ORec, len(lab.OutID))
		seen := map[bc.Hash]bool{}
		reported := map[bc.Hash]bool{} // usable records the cheap oracle has already refused
		usableConfirmed := map[bc.Hash]bool{}
		for _, r := range list {
			ol, ok := lab.outs[r.ID]
			if !ok {
				fail24("class=unknown-utxo: the wallet lists an output id no block of the case created: %s", r.ID.String())
				continue
			}
			st, ent := spendStatus(view, r.ID, d.Height+1)
			vote := int64(r.Vote)
			col := 1
			if r.Std {
				col = 0
			}
			d.Recs[ol-1][col] = ORec{int64(r.Asset), int64(r.Amount), int64(r.Prog), vote, int64(r.Acct), int64(r.Index), boolU(r.Change), int64(r.Valid), boolU(r.Usable), int64(st)}
			seen[r.ID] = true
			// ---- C24, cheap form: every record is an unspent output of the wallet's chain paying a wallet program
			if st == 0 {
				fail24("class=phantom-utxo: after delivery %d the wallet (best block %d, height %d) holds output %d (%s) which is not an unspent output of that chain", di, wl, after.BestHeight, ol, recKey(r))
			}
			// ---- C25: usable at the node's height => consensus accepts a spend at the next height
			if r.Usable {
				usableConfirmed[r.ID] = true
				g.count("obs:usable")
				if st != 2 {
					reported[r.ID] = true
				}
				// what is offered must be spendable AS OFFERED: the keeper files a utxo under (account, asset,
				// vote key); a vote output offered as plain BTM (or the reverse) yields a spend input where
				// consensus demands a veto input of that vote key
				if st == 2 {
					if onChainVote := ent.Type == storage.VoteUTXOType; onChainVote != (r.Vote != 0) {
						reported[r.ID] = true
						fail25("class=offered-as-wrong-kind: after delivery %d the keeper offers output %d (%s, valid height %d) at height %d; on the wallet's chain it is a %s created at %d: not spendable as offered", di, ol, recKey(r), r.Valid, d.Height, map[bool]string{true: "vote output", false: "plain output"}[onChainVote], ent.BlockHeight)
					}
				}
				switch st {
				case 0:
					fail25("class=phantom-reported-mature: after delivery %d the keeper offers output %d (%s, valid height %d) at height %d; it is not an unspent output of the wallet's chain (best block %d)", di, ol, recKey(r), r.Valid, d.Height, wl)
				case 1:
					kind := "coinbase output"
					if ent.Type == storage.VoteUTXOType {
						kind = "vote output"
					}
					// the known finding: the record's valid height is a height at which the wallet's own rule
					// (creation + lock(creation)) or consensus (a veto at that height was legal: restored by a
					// detach) unlocks the vote output, and the lock at the spending height is a different one
					byWallet := r.Valid == ent.BlockHeight+pend(ent.BlockHeight) && pend(d.Height+1) != pend(ent.BlockHeight)
					byVeto := ent.BlockHeight+pend(r.Valid) <= r.Valid && pend(d.Height+1) != pend(r.Valid)
					if ent.Type == storage.VoteUTXOType && (byWallet || byVeto) {
						fail25("class=vote-lock-schedule: after delivery %d the keeper offers vote output %d (created at %d, valid height %d, lock(%d) = %d, lock(%d) = %d) at height %d; applySpendUtxo refuses it at height %d (lock at the spending height = %d)", di, ol, ent.BlockHeight, r.Valid, ent.BlockHeight, pend(ent.BlockHeight), r.Valid, pend(r.Valid), d.Height, d.Height+1, pend(d.Height+1))
					} else {
						fail25("class=immature-reported-mature: after delivery %d the keeper offers %s %d (%s, created at %d, valid height %d) at height %d; applySpendUtxo refuses it at height %d", di, kind, ol, recKey(r), ent.BlockHeight, r.Valid, d.Height, d.Height+1)
					}
				}
			} else {
				g.count("obs:immature")
				if st == 2 && !d.Synced {
					g.count("obs:conservative-while-stale")
				}
			}
		}
		// ---- C25, the caller accepts unconfirmed utxos (useUnconfirmed = true): whatever the keeper
		// hands out IN ADDITION must, when it is an unspent output of the wallet's chain, be spendable
		// at the next height as well.  An output that is not (or no longer) on that chain is what the
		// caller asked for (a pool output, or the copy of a spent one whose removal message is late).
		for _, o := range wn.OffersUnconfirmed(list) {
			st, ent := spendStatus(view, o.ID, d.Height+1)
			if o.InDB && o.InMap {
				// the ingredient: a confirmed record and a copy in the keeper's unconfirmed map at once
				g.count("obs:record-and-unconfirmed-copy:" + [3]string{"not-on-chain", "immature-or-locked", "spendable"}[st])
			}
			if (o.Find == nil && o.Reserve == nil && o.Amount == nil) || usableConfirmed[o.ID] {
				continue
			}
			switch st {
			case 0:
				g.count("obs:unconfirmed-offer-not-on-chain")
				if u := o.Find; u != nil && u.Vote != nil {
					// not judged (see the report): a vote output that only the pool knows is offered for a veto
					g.count("obs:unconfirmed-offer-not-on-chain-is-vote-output")
				}
				// ---- C25 / C26: what is offered or reserved exists: an unspent output of the wallet's chain, or
				// an output of a transaction that is in the node's pool right now.  Judged when the wallet has
				// handled every message the pool has posted (a late removal message explains a stale copy).
				pooled := false
				for _, tx := range creator[o.ID] {
					pooled = pooled || wn.N.Pool.IsTransactionInPool(&tx.ID)
				}
				switch {
				case pooled:
					g.count("obs:unconfirmed-offer-created-by-pooled-transaction")
				case wn.QueuedBatches() > 0:
					g.count("obs:unconfirmed-offer-gone-while-pool-messages-pending")
				default:
					what := "an output no transaction of the case creates"
					if e := view.Entries[o.ID]; e != nil && e.Spent {
						what = "an output that a block of the wallet's chain has spent"
					} else if creator[o.ID] != nil {
						what = "an output whose transaction is neither on the wallet's chain nor in the pool"
					}
					for _, tx := range creator[o.ID] {
						if perr := wn.N.Pool.GetErrCache(&tx.ID); perr != nil {
							what += fmt.Sprintf("; the pool has refused its transaction: %v", perr)
						}
					}
					var how []string
					if o.Find != nil {
						how = append(how, "findUtxos lists it")
					}
					if o.Amount != nil {
						how = append(how, "Reserve (by amount) holds it")
					}
					if o.Reserve != nil {
						how = append(how, "ReserveParticular reserves it")
					}
					msg := fmt.Sprintf("class=spent-or-unknown-output-offered: after delivery %d, all pool messages handled, with useUnconfirmed=true %s: output %d, %s (wallet record: %v, copy in the unconfirmed map: %v, node height %d, wallet in step with the node: %v)", di, strings.Join(how, ", "), lab.outs[o.ID], what, o.InDB, o.InMap, d.Height, d.Synced)
					fail25("%s", msg)
					if o.Amount != nil || o.Reserve != nil {
						fail26("%s", msg)
					}
				}
			case 2:
				g.count("obs:unconfirmed-offer-spendable")
			case 1:
				kind := "coinbase output"
				if ent.Type == storage.VoteUTXOType {
					kind = "vote output"
				}
				dbValid := "none"
				for _, r := range list {
					if r.ID == o.ID {
						dbValid = fmt.Sprint(r.Valid)
					}
				}
				if o.Find != nil {
					fail25("class=immature-reported-mature: after delivery %d findUtxos with useUnconfirmed=true offers %s %d (created at %d; valid height of the wallet's record: %s, of the utxo handed out: %d) at height %d (wallet in step with the node: %v) although findUtxos with useUnconfirmed=false withholds it; applySpendUtxo refuses it at height %d", di, kind, lab.outs[o.ID], ent.BlockHeight, dbValid, o.Find.ValidHeight, d.Height, d.Synced, d.Height+1)
				}
				if o.Reserve != nil {
					fail25("class=immature-reserved-unconfirmed-copy: after delivery %d ReserveParticular with useUnconfirmed=true reserves %s %d (created at %d; valid height of the wallet's record: %s, of the utxo handed out: %d) at height %d (wallet in step with the node: %v) although ReserveParticular with useUnconfirmed=false refuses it; applySpendUtxo refuses it at height %d", di, kind, lab.outs[o.ID], ent.BlockHeight, dbValid, o.Reserve.ValidHeight, d.Height, d.Synced, d.Height+1)
				}
			}
		}
		// ---- C25, correspondence of the keeper's lookups (C25/Keeper.v): observations with copies in the map
		if len(res.Keeper) < 8 {
			if ko := wn.keeperObs(list, lab, d.Height); ko != nil {
				res.Keeper = append(res.Keeper, *ko)
			}
		}
		// the converse: every unspent output of the chain that pays a wallet program is listed
		for id, ent := range view.Entries {
			if ent.Spent || seen[id] {
				continue
			}
			if i := g.blocks[wl].st.find(id); i >= 0 {
				if u := g.blocks[wl].st.avail[i]; wn.Owns(u.prog) {
					fail24("class=missing-utxo: after delivery %d the wallet (best block %d) does not hold output %d (program %d) which is unspent on that chain", di, wl, lab.outs[id], u.prog)
				}
			}
		}
		res.Delivs = append(res.Delivs, d)
		// ---- the expensive oracles: a FRESH node + wallet fed exactly the wallet's chain
		if (detachedNow && fresh < 3) || forceFresh {
			fresh++
			if err := g.freshOracle(wn, wpath, list, reported, lab, di, d, fmt.Sprintf("%s/fresh%d", base, fresh), fail24, fail25); err != nil {
				if err == errFreshStuck {
					res.Abort = true
					return nil
				}
				return err
			}
		}
		return nil
	}

	// the wallet does not settle: the case ends here with the history so far as replay (the updater
	// may be spinning: nothing more can be learnt from this wallet, and the child process is replaced)
	notFollowing := func(f string, a ...interface{}) (*Result, error) {
		st := wn.W.GetWalletStatusInfo()
		msg := fmt.Sprintf("class=wallet-not-following: "+f, a...) + fmt.Sprintf(" [wallet best %d, work %d; node best %d; deliveries so far: %s]", st.BestHeight, st.WorkHeight, wn.N.Chain.BestBlockHeight(), g.describe())
		fail24("%s", msg)
		fail25("%s", msg)
		wn.Gate.Release()
		wn.CGate.Release()
		res.Abort = true
		return res, nil
	}

	for di, l := range g.order {
		// ---- "race" stream: the updater will be held between its two chain reads
		if op := g.rescans[di]; op != nil && op.Race {
			wn.CGate.Hold()
			held, heldIdx = op, 0
			g.count("race:episodes")
		}
		// ---- "rescan" stream: a rescan starts before this delivery
		if op := g.rescans[di]; op != nil && !op.Race {
			if op.Learn != 0 {
				if err := wn.Learn(op.Learn); err != nil {
					return nil, err
				}
				g.count("rescan:late-program-registered")
			}
			if len(op.Steps) > 0 {
				wn.Gate.Hold()
			}
			if op.Alias {
				if err := wn.W.UpdateAccountAlias(wn.AcctID[1], fmt.Sprintf("acct1-%d", di)); err != nil {
					return nil, err
				}
			} else {
				wn.W.RescanBlocks()
			}
			g.count("rescan:triggered")
			rescanned = true
			if len(op.Steps) > 0 {
				held, heldIdx = op, 0
				n, err := wn.Gate.Allow(op.Steps[0], patience)
				if err != nil {
					return notFollowing("rescan before delivery %d: %v", di, err)
				}
				g.cnt["rescan:operations-before-held-deliveries"] += n
				g.count("rescan:held")
			} else {
				if err := wn.Sync(true, patience); err != nil {
					return notFollowing("rescan before delivery %d: %v", di, err)
				}
				rescanned = false
				g.count("rescan:free-running")
				if err := observe(di, Deliv{Block: -1, Height: wn.N.Chain.BestBlockHeight()}, true); err != nil {
					return nil, err
				}
			}
		}
		d := Deliv{Block: l}
		// ---- "pool" stream: transactions of the block reach the node's pool before the block does
		if poolKind && len(cur) > 0 && g.blocks[l].parent == cur[len(cur)-1] {
			for _, tx := range g.blocks[l].info.Block.Transactions[1:] {
				if scripted && di > 0 {
					continue // only the first block's transactions go through the pool
				}
				if !scripted && !r2.Chance(65) {
					continue
				}
				orphan, err := wn.N.Chain.ValidateTx(tx)
				switch {
				case err != nil:
					g.count("pool:refused")
				case orphan:
					g.count("pool:orphan")
				default:
					g.count("pool:accepted")
				}
			}
			wn.CollectPoolMsgs()
			if scripted || r2.Chance(85) {
				if err := forward(-1); err != nil {
					return nil, err
				}
			}
		}
		if _, err := g.deliverTo(wn.N, l); err != nil {
			return nil, fmt.Errorf("delivery of block %d (height %d) failed: %v\n%s", l, g.height(l), err, res.Descr)
		}
		wn.CollectPoolMsgs()
		if scripted {
			if di >= lagUntil {
				err = forward(-1)
			}
		} else if poolKind {
			switch x := r2.Intn(100); {
			case x < 45: // the wallet's pool loop lags behind
			case x < 80:
				err = forward(-1)
			default:
				err = forward(1)
			}
		} else {
			err = forward(-1)
		}
		if err != nil {
			return nil, err
		}
		if wn.QueuedBatches() > 0 {
			g.count("pool:observations-with-messages-pending")
		}
		bestHash := wn.N.Chain.BestBlockHash()
		bl, ok := g.byHash[*bestHash]
		if !ok {
			return nil, fmt.Errorf("unknown best block")
		}
		np := g.path(bl)
		k := 0
		for k < len(np) && k < len(cur) && np[k] == cur[k] {
			k++
		}
		if len(np) != len(cur) || k != len(cur) {
			d.Step, d.K, d.News = true, len(cur)-k, np[k:]
			if len(cur)-k > 0 {
				g.count("node:reorganisation")
				if len(np) < len(cur) {
					g.count("node:reorganisation-to-lower-chain")
				}
				if held != nil {
					g.count("rescan:node-reorganised-while-held")
				}
			}
		}
		cur = np
		d.Height = wn.N.Chain.BestBlockHeight()
		if held != nil && held.Race {
			heldIdx++
			if heldIdx == 1 {
				// the extension has woken the updater: it must now stand between its two chain reads
				atGate, err := wn.CGate.WaitHeldOrIdle(patience)
				if err != nil {
					return notFollowing("race at delivery %d: %v", di, err)
				}
				if atGate {
					g.count("race:updater-held-between-chain-reads")
				}
			}
			if d.Step && d.K > 0 {
				g.count("race:node-reorganised-while-held")
			}
			if heldIdx < len(held.Steps) {
				continue
			}
			wn.CGate.Release()
			held = nil
			rescanned = true // the updater walks whatever the heights are
		} else if held != nil {
			heldIdx++
			if heldIdx < len(held.Steps) {
				n, err := wn.Gate.Allow(held.Steps[heldIdx], patience)
				if err != nil {
					return notFollowing("rescan held at delivery %d: %v", di, err)
				}
				g.cnt["rescan:operations-between-held-deliveries"] += n
				continue
			}
			wn.Gate.Release()
			held = nil
		}
		// the updater is woken only when the best height exceeds the wallet's (a rescan makes it walk anyway)
		if err := wn.Sync(rescanned || d.Height > lastObs.WorkHeight, patience); err != nil {
			return notFollowing("after delivery %d (block %d): %v", di, l, err)
		}
		forceFresh := di == len(g.order)-1 || (rescanned && fresh < 5)
		rescanned = false
		if err := observe(di, d, forceFresh); err != nil {
			return nil, err
		}
		if res.Abort {
			return res, nil
		}
	}
	if poolKind && wn.QueuedBatches() > 0 {
		// the wallet catches up with the pool's messages: one more look at the settled state
		if err := forward(-1); err != nil {
			return nil, err
		}
		g.count("pool:final-observation-after-all-messages")
		if err := observe(len(g.order)-1, Deliv{Block: -1, Height: wn.N.Chain.BestBlockHeight()}, false); err != nil {
			return nil, err
		}
	}
	g.cnt["race:updater-held-total"] += wn.CGate.Held
	g.cnt["rescan:detach-while-rescanning"] += wn.Gate.DetachBehind
	g.cnt["rescan:attach-while-rescanning"] += wn.Gate.AttachBehind
	return res, nil
}

var errFreshStuck = fmt.Errorf("the fresh wallet does not follow its node")

// freshOracle: the same accounts on a fresh node that is fed only the wallet's chain must list the
// same utxos (C24); a block at the next height spending every utxo the history wallet calls usable
// must be accepted by that fresh node (C25; only when the wallet is in step with its node).
func (g *world) freshOracle(wn *WalletNode, wpath []int, list []Rec, reported map[bc.Hash]bool, lab *Labeler, di int, d Deliv, dir string,
	fail24, fail25 func(string, ...interface{})) error {
	fn, err := g.e.NewWalletNode(dir, wn.LearnedList()...)
	if err != nil {
		return err
	}
	for _, l := range wpath[1:] {
		if _, err := g.deliverTo(fn.N, l); err != nil {
			fail24("class=fresh-node-refuses-chain: block %d: %v", l, err)
			return nil
		}
	}
	if fn.N.Chain.BestBlockHash().String() != g.blocks[wpath[len(wpath)-1]].info.Hash.String() {
		// a fresh node may prefer nothing else: it has only this chain
		fail24("class=fresh-node-refuses-chain: best block differs")
		return nil
	}
	if err := fn.Sync(true, 5*time.Second); err != nil {
		fail24("class=wallet-not-following: fresh wallet fed only the chain %v: %v [%s]", wpath, err, g.describe())
		return errFreshStuck
	}
	g.count("oracle:fresh-wallet-comparisons")
	fl := fn.List()
	type pr struct{ h, f *Rec }
	m := map[string]*pr{}
	key := func(r Rec) string { return fmt.Sprintf("%v/%s", r.Std, r.ID.String()) }
	for i := range list {
		m[key(list[i])] = &pr{h: &list[i]}
	}
	for i := range fl {
		if p := m[key(fl[i])]; p != nil {
			p.f = &fl[i]
		} else {
			m[key(fl[i])] = &pr{f: &fl[i]}
		}
	}
	var keys []string
	for k := range m {
		keys = append(keys, k)
	}
	sort.Strings(keys)
	for _, k := range keys {
		p := m[k]
		switch {
		case p.f == nil:
			fail24("class=utxo-set: after delivery %d the wallet that saw the forks lists output %d (%s, standard=%v); a fresh wallet scanning the same chain does not", di, lab.outs[p.h.ID], recKey(*p.h), p.h.Std)
		case p.h == nil:
			fail24("class=utxo-set: after delivery %d a fresh wallet scanning the chain lists output %d (%s, standard=%v); the wallet that saw the forks does not", di, lab.outs[p.f.ID], recKey(*p.f), p.f.Std)
		case recKey(*p.h) != recKey(*p.f):
			fail24("class=utxo-fields: after delivery %d output %d: history wallet {%s}, fresh wallet {%s}", di, lab.outs[p.h.ID], recKey(*p.h), recKey(*p.f))
		}
	}
	if !d.Synced {
		return nil
	}
	// ---- C25: spend everything the history wallet calls usable, one transaction each, at the next height
	var txs []*types.Tx
	var ids []string
	st := g.blocks[wpath[len(wpath)-1]].st
	for _, r := range list {
		if !r.Usable || reported[r.ID] {
			continue // not offered, or already refused by the utxo view (reported there)
		}
		i := st.find(r.ID)
		if i < 0 {
			continue // reported by the cheap oracle as a phantom
		}
		u := st.avail[i]
		if u.out.Amount() <= cl.DefaultFee || IsMsig(u.prog) {
			continue
		}
		txs = append(txs, g.e.NewTx([]cl.Out{u.out}, []cl.OutSpec{{Amount: u.out.Amount() - cl.DefaultFee}}, 0))
		ids = append(ids, fmt.Sprint(lab.outs[r.ID]))
	}
	if len(txs) == 0 {
		return nil
	}
	tip := g.blocks[wpath[len(wpath)-1]]
	probe := g.e.W.NewBlock(tip.info, txs, cl.BlockOpt{Skip: 7})
	g.count("oracle:probe-blocks")
	_, perr := fn.N.Process(probe.Block)
	fn.CollectPoolMsgs()
	if perr != nil || *fn.N.Chain.BestBlockHash() != probe.Hash {
		fail25("class=probe-block-rejected: after delivery %d a block at height %d spending the outputs the keeper offers (%s) is refused by a fresh node holding the same chain: %v", di, probe.Block.Height, strings.Join(ids, ","), perr)
	}
	return nil
}

func (g *world) describe() string {
	var sb strings.Builder
	for _, l := range g.order {
		b := g.blocks[l]
		fmt.Fprintf(&sb, "%d<-%d@%d", l, b.parent, g.height(l))
		if b.just {
			sb.WriteString("J")
		}
		for _, tx := range b.info.Block.Transactions[1:] {
			sb.WriteString("[")
			for _, id := range tx.SpentOutputIDs {
				sb.WriteString(hex.EncodeToString(id.Bytes()[:2]) + " ")
			}
			sb.WriteString("->")
			for i, o := range tx.Outputs {
				t := "o"
				if o.OutputType() == types.VoteOutputType {
					t = "v"
				}
				p := -1
				if pi := g.e.ProgOf(o.ControlProgram); pi != nil {
					p = pi.Label
				}
				fmt.Fprintf(&sb, " %s%d:%s", t, p, hex.EncodeToString(tx.ResultIds[i].Bytes()[:2]))
			}
			sb.WriteString("]")
		}
		sb.WriteString(" ")
	}
	return sb.String()
}

// keeperObs: the keeper's inputs (the wallet's records, the copies in the unconfirmed map, the
// node's height) and everything it hands out, both ways; nil when the map is empty or holds an
// output no block of the case creates.
func (wn *WalletNode) keeperObs(list []Rec, lab *Labeler, h uint64) *KObs {
	unc := wn.Keeper.ListUnconfirmed()
	if len(unc) == 0 {
		return nil
	}
	ko := &KObs{H: h}
	krec := func(r Rec) (KRec, bool) {
		ol, ok := lab.outs[r.ID]
		if !ok || r.Prog < 0 || r.Acct < 0 {
			return KRec{}, false
		}
		return KRec{int64(ol), int64(r.Asset), int64(r.Amount), int64(r.Prog), int64(r.Vote), int64(r.Acct), int64(r.Index), boolU(r.Change), int64(r.Valid)}, true
	}
	ids := map[int]bool{}
	for _, r := range list {
		k, ok := krec(r)
		if !ok {
			return nil
		}
		if r.Std {
			ko.Std = append(ko.Std, k)
		} else {
			ko.Ctr = append(ko.Ctr, k)
		}
		ids[int(k[0])] = true
	}
	var us []Rec
	for _, u := range unc {
		us = append(us, wn.project(true, u))
	}
	sort.Slice(us, func(i, j int) bool { return us[i].ID.String() < us[j].ID.String() })
	for _, r := range us {
		k, ok := krec(r)
		if !ok {
			return nil
		}
		ko.Unc = append(ko.Unc, k)
		ids[int(k[0])] = true
	}
	for id := range ids {
		ko.Ids = append(ko.Ids, id)
	}
	sort.Ints(ko.Ids)
	for _, flag := range []bool{true, false} {
		var kf KFlag
		for a := 1; a <= 2; a++ {
			for _, vote := range [][]byte{nil, wn.Env.VoteTo} {
				found, imm := wn.Keeper.VerifFindUtxos(wn.AcctID[a], consensus.BTMAssetID, flag, vote)
				prs := [][2]int64{}
				for _, u := range found {
					prs = append(prs, [2]int64{int64(lab.outs[u.OutputID]), int64(u.ValidHeight)})
				}
				sort.Slice(prs, func(i, j int) bool { return prs[i][0] < prs[j][0] })
				kf.Find = append(kf.Find, prs)
				kf.Imm = append(kf.Imm, imm)
			}
		}
		for _, id := range ko.Ids {
			v := int64(-1)
			if u := wn.reservable(lab.OutID[id-1], flag); u != nil {
				v = int64(u.ValidHeight)
			}
			kf.Res = append(kf.Res, v)
		}
		if flag {
			ko.True = kf
		} else {
			ko.False = kf
		}
	}
	return ko
}
