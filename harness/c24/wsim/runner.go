package wsim

import (
	"bufio"
	"bytes"
	"encoding/json"
	"fmt"
	"os"
	"os/exec"
	"path/filepath"
	"strconv"
	"strings"
	"sync"
	"time"

	. "verifharness/hlib"
)

// ---------------------------------------------------------------- child process: a batch of cases (one schedule)

// ChildBatch: child batch <cases.json> <scratch dir>; prints "BEGIN <id>" before and one JSON result
// line after every case.
func ChildBatch(args []string) int {
	if len(args) != 2 {
		return 2
	}
	raw, err := os.ReadFile(args[0])
	if err != nil {
		fmt.Fprintln(os.Stderr, err)
		return 2
	}
	var cases []*Case
	if err := json.Unmarshal(raw, &cases); err != nil || len(cases) == 0 {
		fmt.Fprintln(os.Stderr, "bad case file", err)
		return 2
	}
	e := NewEnv(SchedOf(cases[0].Sched))
	out := bufio.NewWriter(os.Stdout)
	for _, c := range cases {
		if c.Sched != cases[0].Sched {
			fmt.Fprintln(os.Stderr, "harness child error: mixed schedules in one batch")
			return 3
		}
		fmt.Fprintf(out, "BEGIN %d\n", c.ID)
		out.Flush()
		r, err := RunCase(e, c, filepath.Join(args[1], fmt.Sprintf("c%d", c.ID)))
		if err != nil {
			fmt.Fprintln(os.Stderr, "harness child error:", err)
			return 3
		}
		js, _ := json.Marshal(r)
		out.Write(js)
		out.WriteString("\n")
		out.Flush()
		if r.Abort {
			// a wallet of this process did not settle (its updater may spin): the parent starts a
			// new child for the remaining cases
			return 4
		}
	}
	return 0
}

// ---------------------------------------------------------------- parent: dispatch

func jobs() int {
	if v, err := strconv.Atoi(os.Getenv("VERIF_JOBS")); err == nil && v > 0 {
		if v > 12 {
			v = 12
		}
		return v
	}
	return 6
}

func tail(s string, n int) string {
	if len(s) > n {
		return s[len(s)-n:]
	}
	return s
}

func panicHead(trace string) string {
	var keep []string
	for _, l := range strings.Split(trace, "\n") {
		l = strings.TrimSpace(l)
		if strings.HasPrefix(l, "panic:") || strings.HasPrefix(l, "[signal") || strings.HasPrefix(l, "fatal error:") ||
			(strings.HasPrefix(l, "github.com/bytom/bytom/") && len(keep) < 8) {
			if i := strings.Index(l, "(0x"); i > 0 {
				l = l[:i]
			}
			keep = append(keep, l)
		}
	}
	if len(keep) == 0 {
		return "abnormal exit: " + tail(trace, 300)
	}
	return strings.Join(keep, " | ")
}

func runChunk(dir string, k int, cases []*Case, res map[int]*Result, mu *sync.Mutex) error {
	round := 0
	for len(cases) > 0 {
		round++
		f := filepath.Join(dir, fmt.Sprintf("chunk_%d_%d.json", k, round))
		js, _ := json.Marshal(cases)
		if err := os.WriteFile(f, js, 0644); err != nil {
			return err
		}
		base := filepath.Join(dir, fmt.Sprintf("nodes_%d_%d", k, round))
		cmd := exec.Command(os.Args[0], "child", "batch", f, base)
		var stderr bytes.Buffer
		cmd.Stderr = &stderr
		stdout, err := cmd.StdoutPipe()
		if err != nil {
			return err
		}
		if err := cmd.Start(); err != nil {
			return err
		}
		lines := make(chan string, 16)
		go func() {
			sc := bufio.NewScanner(stdout)
			sc.Buffer(make([]byte, 1<<20), 1<<27)
			for sc.Scan() {
				lines <- sc.Text()
			}
			close(lines)
		}()
		current, done, hang, aborted := -1, 0, false, false
	loop:
		for {
			select {
			case l, ok := <-lines:
				if !ok {
					break loop
				}
				if strings.HasPrefix(l, "BEGIN ") {
					current, _ = strconv.Atoi(l[6:])
					continue
				}
				r := &Result{}
				if err := json.Unmarshal([]byte(l), r); err != nil {
					cmd.Process.Kill()
					cmd.Wait()
					return fmt.Errorf("unparseable child output %q", tail(l, 200))
				}
				mu.Lock()
				res[r.ID] = r
				mu.Unlock()
				done++
				current = -1
				aborted = r.Abort
			case <-time.After(400 * time.Second):
				hang = true
				cmd.Process.Kill()
				break loop
			}
		}
		err = cmd.Wait()
		os.RemoveAll(base)
		if (err == nil || aborted) && !hang && done == len(cases) {
			return nil
		}
		if aborted && !hang && current < 0 {
			cases = cases[done:]
			continue
		}
		if current < 0 || done >= len(cases) || cases[done].ID != current {
			return fmt.Errorf("child failed outside a case: %v: %s", err, tail(stderr.String(), 800))
		}
		if ee, ok := err.(*exec.ExitError); ok && ee.ExitCode() == 3 {
			return fmt.Errorf("child: %s", tail(stderr.String(), 1500))
		}
		r := &Result{ID: current, Hang: hang}
		if !hang {
			r.Panic = panicHead(stderr.String())
		}
		mu.Lock()
		res[current] = r
		mu.Unlock()
		cases = cases[done+1:]
	}
	return nil
}

// RunAll runs the cases in child processes (chunks of one schedule each).
func RunAll(tag string, cases []*Case) (map[int]*Result, error) {
	tmp := ""
	if st, err := os.Stat("/dev/shm"); err == nil && st.IsDir() {
		tmp = "/dev/shm"
	}
	dir, err := os.MkdirTemp(tmp, tag+"-run-")
	if err != nil {
		return nil, err
	}
	defer os.RemoveAll(dir)
	res := map[int]*Result{}
	var mu sync.Mutex
	var chunks [][]*Case
	per := 6
	bySched := map[string][]*Case{}
	var scheds []string
	for _, c := range cases {
		if _, ok := bySched[c.Sched]; !ok {
			scheds = append(scheds, c.Sched)
		}
		bySched[c.Sched] = append(bySched[c.Sched], c)
	}
	for _, s := range scheds {
		cs := bySched[s]
		for lo := 0; lo < len(cs); lo += per {
			hi := lo + per
			if hi > len(cs) {
				hi = len(cs)
			}
			chunks = append(chunks, cs[lo:hi])
		}
	}
	ch := make(chan int)
	errs := make(chan error, len(chunks)+1)
	var wg sync.WaitGroup
	for wk := 0; wk < jobs(); wk++ {
		wg.Add(1)
		go func() {
			defer wg.Done()
			for k := range ch {
				if err := runChunk(dir, k, chunks[k], res, &mu); err != nil {
					errs <- err
				}
			}
		}()
	}
	for k := range chunks {
		ch <- k
	}
	close(ch)
	wg.Wait()
	select {
	case err := <-errs:
		return nil, err
	default:
	}
	return res, nil
}

// ---------------------------------------------------------------- parent: Coq output

func coqRec(id int, asset int, amount uint64, prog int) string {
	return fmt.Sprintf("(mkO %d %d %d %d)", id, asset, amount, prog)
}

func CoqTx(t MTx) string {
	var ins, outs []string
	for _, i := range t.Ins {
		switch i.Kind {
		case 0:
			ins = append(ins, "ISpend "+coqRec(i.ID, i.Asset, i.Amount, i.Prog))
		case 1:
			ins = append(ins, fmt.Sprintf("IVeto %s %d", coqRec(i.ID, i.Asset, i.Amount, i.Prog), i.Vote))
		default:
			ins = append(ins, "IOther")
		}
	}
	for _, o := range t.Outs {
		switch o.Kind {
		case 0:
			outs = append(outs, "OOrig "+coqRec(o.ID, o.Asset, o.Amount, o.Prog))
		case 1:
			outs = append(outs, fmt.Sprintf("OVote %s %d", coqRec(o.ID, o.Asset, o.Amount, o.Prog), o.Vote))
		default:
			outs = append(outs, "OOther "+coqRec(o.ID, o.Asset, o.Amount, o.Prog))
		}
	}
	return fmt.Sprintf("mkTx %s %s %s", CoqBool(t.CB), CoqList(ins), CoqList(outs))
}

// block ids are label+1 (0 is the empty hash of the wallet's initial status)
func CoqBlock(b MBlock) string {
	var txs []string
	for _, t := range b.Txs {
		txs = append(txs, CoqTx(t))
	}
	prev := b.Prev + 1
	if b.Label == 0 {
		prev = 0
	}
	return fmt.Sprintf("(mkB %d %d %d %s)", b.Label+1, prev, b.Height, CoqList(txs))
}

// Header: imports plus the genesis block and the trunk, labelled exactly as every child labels them.
func Header(imports string) string {
	e := NewEnv(nil)
	lab := NewLabeler(e)
	gm := lab.ModelBlock(0, 0, e.W.Genesis.Block)
	var tb []string
	for i, bi := range e.Trunk {
		tb = append(tb, CoqBlock(lab.ModelBlock(i+1, i, bi.Block)))
	}
	return imports + "Definition genesis : block := " + CoqBlock(gm) + ".\n" +
		"Definition trunk : list block := " + CoqList(tb) + ".\n"
}

// CoqDelivs renders the delivery list of a result.
func CoqDelivs(r *Result) string {
	blocks := map[int]MBlock{}
	for _, b := range r.Blocks {
		blocks[b.Label] = b
	}
	var ds []string
	for _, d := range r.Delivs {
		if !d.Step {
			ds = append(ds, "DNone")
			continue
		}
		var news []string
		for _, l := range d.News {
			news = append(news, CoqBlock(blocks[l]))
		}
		ds = append(ds, fmt.Sprintf("DStep %d%%nat %s", d.K, CoqList(news)))
	}
	return CoqList(ds)
}

func CoqIDs(n int) string {
	var ids []string
	for i := 1; i <= n; i++ {
		ids = append(ids, fmt.Sprint(i))
	}
	return CoqList(ids)
}

func CoqVote(v int64) string {
	if v == 0 {
		return "None"
	}
	return fmt.Sprintf("(Some %d)", v)
}

// ---------------------------------------------------------------- parent: keeper cases (C25/KeeperRun.v)

func coqKRec(k KRec) string {
	cp := "None"
	if k[5] != 0 {
		cp = fmt.Sprintf("(Some (mkCP %d %d %s))", k[5], k[6], CoqBool(k[7] == 1))
	}
	return fmt.Sprintf("mkU %d %d %d %d %s %s %d", k[0], k[1], k[2], k[3], CoqVote(k[4]), cp, k[8])
}

func coqKRecs(ks []KRec) string {
	var xs []string
	for _, k := range ks {
		xs = append(xs, coqKRec(k))
	}
	return CoqList(xs)
}

func coqKFlag(f KFlag) string {
	var qs, rs []string
	for i, prs := range f.Find {
		var ps []string
		for _, p := range prs {
			ps = append(ps, fmt.Sprintf("(%d, %d)", p[0], p[1]))
		}
		qs = append(qs, fmt.Sprintf("(%s, %d)", CoqList(ps), f.Imm[i]))
	}
	for _, v := range f.Res {
		if v < 0 {
			rs = append(rs, "None")
		} else {
			rs = append(rs, fmt.Sprintf("Some %d", v))
		}
	}
	return fmt.Sprintf("(%s, %s)", CoqList(qs), CoqList(rs))
}

// CoqKeeperCase renders one keeper observation: the model expression and the observed value.
func CoqKeeperCase(k KObs) (string, string) {
	var ids []string
	for _, id := range k.Ids {
		ids = append(ids, fmt.Sprint(id))
	}
	model := fmt.Sprintf("run_keeper %d %s %s %s %s", k.H, coqKRecs(k.Std), coqKRecs(k.Ctr), coqKRecs(k.Unc), CoqList(ids))
	return model, fmt.Sprintf("(%s, %s)", coqKFlag(k.True), coqKFlag(k.False))
}
