package main

import (
	"fmt"
	"os"
	"time"

	"github.com/bytom/bytom/protocol/bc/types"

	"verifharness/c24/wsim"
	cl "verifharness/chainlib"
)

func show(wn *wsim.WalletNode, what string) {
	fmt.Printf("-- %s: best %d\n", what, wn.N.Chain.BestBlockHeight())
	for _, r := range wn.List() {
		fmt.Printf("   std=%v id=%s amt=%d prog=%d vote=%d acct=%d idx=%d ch=%v vh=%d usable=%v\n", r.Std, r.ID.String()[:8], r.Amount, r.Prog, r.Vote, r.Acct, r.Index, r.Change, r.Valid, r.Usable)
	}
}

func deliver(wn *wsim.WalletNode, b *cl.BlockInfo) {
	orphan, err := wn.N.Process(b.Block)
	if err != nil || orphan {
		fmt.Println("deliver:", orphan, err)
	}
	if err := wn.Sync(10 * time.Second); err != nil {
		fmt.Println("sync:", err)
	}
}

func main() {
	dir, _ := os.MkdirTemp("/dev/shm", "c24s-")
	defer os.RemoveAll(dir)
	e := wsim.NewEnv(nil)
	w := e.W
	wn, err := e.NewWalletNode(dir + "/n1")
	if err != nil {
		panic(err)
	}
	for _, b := range e.Trunk {
		deliver(wn, b)
	}
	show(wn, "trunk")
	tip := e.Trunk[15]
	switch os.Args[1] {
	case "c24":
		tx := e.NewTx([]cl.Out{{Tx: e.Split, Pos: 0}}, []cl.OutSpec{{Amount: e.Split.Outputs[0].Amount - cl.DefaultFee, Program: e.Progs[wsim.PA2].Code, Vote: e.VoteTo}}, 0)
		x17 := w.NewBlock(tip, []*types.Tx{tx}, cl.BlockOpt{})
		deliver(wn, x17)
		show(wn, "X17 (vote output created)")
		y17 := w.NewBlock(tip, nil, cl.BlockOpt{Skip: 1})
		y18 := w.NewBlock(y17, nil, cl.BlockOpt{})
		deliver(wn, y17)
		deliver(wn, y18)
		show(wn, "Y18 (X17 detached)")
	case "c25":
		// A17..A23, A23 spends the height-13 coinbase output paid to A2
		a := tip
		var as []*cl.BlockInfo
		for h := 17; h <= 23; h++ {
			var txs []*types.Tx
			if h == 23 {
				var src cl.Out
				for _, o := range e.Trunk[12].RewardOuts() {
					if e.ProgOf(o.Tx.Outputs[o.Pos].ControlProgram).Label == wsim.PA2 {
						src = o
					}
				}
				txs = append(txs, e.NewTx([]cl.Out{src}, []cl.OutSpec{{Amount: src.Amount() - cl.DefaultFee}}, 0))
			}
			a = w.NewBlock(a, txs, cl.BlockOpt{})
			as = append(as, a)
			deliver(wn, a)
		}
		show(wn, "A23 (coinbase of 13 spent)")
		b := as[1] // A18
		b19 := w.NewBlock(b, nil, cl.BlockOpt{Skip: 1})
		b20 := w.NewBlock(b19, nil, cl.BlockOpt{})
		deliver(wn, b19)
		blk := cl.CloneBlock(b20.Block)
		for k := 1; k <= 3; k++ {
			blk.SupLinks.AddSupLink(0, w.Genesis.Hash, cl.SignVote(w.Keys[k], w.Genesis.Hash, b20.Hash), k)
		}
		orphan, err := wn.N.Chain.ProcessBlock(blk)
		fmt.Println("B20 with suplinks:", orphan, err)
		if err := wn.Sync(10 * time.Second); err != nil {
			fmt.Println("sync:", err)
		}
		show(wn, "B20 justified")
		time.Sleep(300 * time.Millisecond)
	}
}
