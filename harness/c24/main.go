// Command c24: correspondence harness + direct oracle for property C24 — the wallet's unspent
// outputs depend only on the main chain (wallet/utxo.go attachUtxos / detachUtxos / txInToUtxos /
// txOutToUtxos / filterAccountUtxo, wallet/wallet.go AttachBlock / DetachBlock / walletUpdater).
//
// A case (package wsim, run in CHILD processes): a real node (protocol.Chain on LevelDB, 4-key
// federation, epoch length 4) with a REAL wallet (wallet.NewWallet with its updater goroutine,
// account.Manager with two BIP44 accounts and four P2WPKH addresses) is fed the common trunk of 16
// blocks (wallet-owned coinbase outputs at heights 9, 13, 17; block 15 pays plain, vote, change and
// foreign outputs) and then a random block tree of 6..15 blocks whose transactions spend and
// create wallet-owned plain / coinbase / vote outputs, veto vote outputs, pay foreign segwit
// programs and OP_TRUE, chain inside a block, and re-appear on sibling branches; forks overtake
// the best branch (reorganisations of depth 1..6), and in the "down" stream a LOWER branch whose
// checkpoint is justified by sup links wins (the node goes down; the wallet is only woken when the
// best height exceeds its own).  Scripted corpus cases run first.
//
// The "rescan" stream (generated from the seed; corpus case corpus-rescan-reorg): on a growing block
// tree the wallet is told 1..3 times to rescan from genesis (Wallet.RescanBlocks or
// UpdateAccountAlias), mostly right after it has registered a LATE program (account A's addresses
// 3, 4, account B's address 2: outputs of earlier blocks already pay them, so only a complete rescan
// finds them).  A rescan either runs freely or is HELD: the wallet's database (wsim.gateDB) has a
// turnstile in front of the NewBatch call that opens every AttachBlock / DetachBlock of the real
// walletUpdater goroutine, so the updater performs a generated number of operations (anywhere
// between genesis and the tip), then the node receives further blocks - extensions, or a side branch
// that overtakes the best branch - with more operations in between, and then the updater is
// released: it attaches and detaches with WorkHeight < BestHeight (rescan:detach-while-rescanning,
// rescan:attach-while-rescanning in the distribution).  The wallet is observed only when it has
// settled (work = best = the node's best block); a fresh wallet that registers the same programs is
// the oracle.  Rescans are not in the model: these cases are judged by the oracle alone.
//
// The "race" stream: 1..3 episodes per case in which the real walletUpdater is held BETWEEN its two
// chain reads.  The wallet's node reads its store through wsim.gateStore (forwards every call to the
// real database.Store; the store caches, so the turnstile sits on Store.GetMainChainHash called from
// Chain.GetBlockByHeight on the walletUpdater goroutine): the next block of the best branch wakes the
// updater, it finds its best block in the main chain (InMainChain) and stands at the turnstile before
// fetching the block at WorkHeight+1; a side branch forking 1..3 blocks below the wallet's best block
// overtakes meanwhile (race:node-reorganised-while-held); released, the updater is handed a block of
// the other branch.  Oracle only (held deliveries are not observed one by one).
//
// The "msig" stream: random trees that also pay the wallet's multi-signature accounts C (2-of-2) and
// D (2-of-3): P2WSH programs, standard key space; run through the model (labels 10, 11 of Run.h_owner).
//
// A wallet that does not settle within 5 s (wallet best = work = node best, updater parked) ends the
// case at once: class=wallet-not-following with the wallet's / node's heights and the deliveries as
// replay; the child process then exits (its updater may be spinning) and the parent starts a new one for
// the remaining cases, so a spinning or stuck updater cannot stall the run.
//
// Direct oracle (implementation outputs only):
//   - after every delivery: every record Wallet.GetAccountUtxos lists is an unspent output, in the
//     REAL state.UtxoViewpoint applied to the chain the wallet is attached to (class=phantom-utxo),
//     and every unspent output of that chain paying one of the wallet's programs is listed
//     (class=missing-utxo);
//   - after every delivery that made the wallet detach (at most 3 per case), after every rescan
//     and at the end: a FRESH
//     node + wallet (same accounts) fed only that chain lists the same records — identity, key
//     space, asset, amount, program, vote key, account, program index, change flag
//     (class=utxo-set / class=utxo-fields);
//   - class=wallet-not-following when the updater does not catch up with a higher best block.
//
// Correspondence: per delivery (wallet in step with the node?, node height, and for every output id
// of the case the raw record under the standard and the contract key incl. ValidHeight) against
// C24.Run.run_c24 (the repaired model).
package main

import (
	"fmt"
	"strings"

	. "verifharness/hlib"
	"verifharness/c24/wsim"
)

func main() { Main("C24", run, map[string]func([]string) int{"batch": wsim.ChildBatch}) }

func coqObs24(d wsim.Deliv) string {
	var rs []string
	for i, pr := range d.Recs {
		for col, r := range pr {
			if len(r) == 0 {
				continue
			}
			rs = append(rs, fmt.Sprintf("(%d, %s, (%d, %d, %d, %s, %d, %d, %s, %d))", i+1, CoqBool(col == 0),
				r[0], r[1], r[2], wsim.CoqVote(r[3]), r[4], r[5], CoqBool(r[6] == 1), r[7]))
		}
	}
	return fmt.Sprintf("(%s, %d, %s)", CoqBool(d.Synced), d.Height, CoqList(rs))
}

func run(c *Ctx) error {
	c.Stats.Rule = "a case counts as non-trivial when the wallet detached at least one block (a reorganisation reached the wallet); distinct = distinct (kind, seed)"
	var cases []*wsim.Case
	for _, k := range []string{"corpus-vote-detach", "corpus-cb-unspend-down", "corpus-vote-unspend-down", "corpus-rescan-reorg"} {
		cases = append(cases, &wsim.Case{ID: len(cases), Seed: 1, Kind: k})
	}
	n := c.N(100, 400)
	kinds := []string{"random", "random", "votes", "votes", "deep", "down", "down"}
	for i := 0; i < n; i++ {
		cases = append(cases, &wsim.Case{ID: len(cases), Seed: c.Rng.Next(), Kind: kinds[c.Rng.Intn(len(kinds))]})
	}
	// the "rescan" stream (rescans from genesis, free-running or held half-way while the node receives
	// blocks and reorganises, late programs); appended so that the cases above keep their seeds
	for i, n := 0, c.N(48, 120); i < n; i++ {
		cases = append(cases, &wsim.Case{ID: len(cases), Seed: c.Rng.Next(), Kind: "rescan"})
	}
	// the "race" stream: the updater held between its two chain reads while the node reorganises
	for i, n := 0, c.N(30, 80); i < n; i++ {
		cases = append(cases, &wsim.Case{ID: len(cases), Seed: c.Rng.Next(), Kind: "race"})
	}
	// the "msig" stream: random trees that also pay the wallet's multi-signature accounts (P2WSH)
	for i, n := 0, c.N(24, 80); i < n; i++ {
		cases = append(cases, &wsim.Case{ID: len(cases), Seed: c.Rng.Next(), Kind: "msig"})
	}
	res, err := wsim.RunAll("c24", cases)
	if err != nil {
		return err
	}
	header := wsim.Header("From Coq Require Import List NArith Bool.\nFrom C24 Require Import Model Run.\nImport ListNotations.\nOpen Scope N_scope.\n")
	for _, cs := range cases {
		r := res[cs.ID]
		if r == nil {
			return fmt.Errorf("no result for case %d", cs.ID)
		}
		key := fmt.Sprintf("%s/%d", cs.Kind, cs.Seed)
		descr := map[string]interface{}{"id": cs.ID, "kind": cs.Kind, "seed": cs.Seed, "descr": r.Descr}
		if r.Panic != "" || r.Hang {
			what := "class=crash: the node/wallet process died: " + r.Panic
			if r.Hang {
				what = "class=hang: no answer within 400 s"
			}
			c.Stats.Fail(what, descr)
			c.Stats.Case(key, false)
			c.Cases.Add("run_c24 [] genesis trunk [] 0", "[(false, 0, [])]")
			continue
		}
		c.Stats.Case(key, r.Detach)
		c.Stats.Count("kind:" + cs.Kind)
		for k, v := range r.Count {
			for i := 0; i < v; i++ {
				c.Stats.Count(k)
			}
		}
		for _, f := range r.Fails24 {
			c.Stats.Fail(f, descr)
			c.Stats.Count("oracle-failure:" + strings.SplitN(strings.TrimPrefix(f, "class="), ":", 2)[0])
		}
		if cs.Kind == "rescan" || cs.Kind == "corpus-rescan-reorg" || cs.Kind == "race" || r.Abort {
			// rescans are not in the model (trusted base): these cases are judged by the oracle alone
			c.Stats.Count("oracle_only_cases")
			if r.Detach {
				c.Stats.Sample(descr)
			}
			continue
		}
		var obs []string
		for _, d := range r.Delivs {
			obs = append(obs, coqObs24(d))
		}
		id := c.Cases.Add(fmt.Sprintf("run_c24 %s genesis trunk %s %d", wsim.SchedCoq(cs.Sched), wsim.CoqDelivs(r), r.NOuts), CoqList(obs))
		c.Stats.CaseIndex[fmt.Sprint(id)] = descr
		c.Stats.Count("model_evaluated")
		if r.Detach {
			c.Stats.Sample(descr)
		}
	}
	c.Cases.Shard = 20
	return c.Cases.Write(c.Out, header, "c24_res", "c24_res_eqb")
}
