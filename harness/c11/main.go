// C11 — best chain follows the fork-choice rule and the main-chain index stays consistent.
//
// A case is a block tree (real signed coinbase-only blocks of a 4-key federation, epoch length 4,
// built offline by chainlib) plus an event list: deliveries to Chain.ProcessBlock in an arbitrary
// order (orphans, repeats, blocks signed by the wrong key) and verification messages of the
// federation keys fed to Chain.ProcessBlockVerification.  Every case runs on a fresh node
// (protocol.Chain on LevelDB) in a child process.  After every event the child dumps
// BestBlockHeader, GetHeaderByHeight for every height up to the highest block of the tree,
// InMainChain for every block of the tree, the last finalized header and the stored status of every
// epoch-boundary checkpoint.
//
// Direct oracle (implementation outputs + the harness's own bookkeeping of the tree only):
//
//	best   = arg-max of (height of the highest justified checkpoint on the branch, height, hash
//	         string) over the delivered-and-connected valid blocks that descend from the last
//	         finalized checkpoint (statuses as stored by the node);
//	index  = for every h <= best height, GetHeaderByHeight(h) is the ancestor of best at h;
//	inmain = InMainChain(b) <=> b is best or an ancestor of best, for every block of the tree.
//
// Correspondence: the same events (a verification message is passed to the model as its observed
// effect: "checkpoint t became justified through source s", or nothing) are run through the Coq
// model C11.Model (fork choice over the checkpoint tree, calcReorganizeChain, SaveChainStatus index
// writes, InMainChain); compared per step: best, finalized root, index, InMainChain of every block.
package main

import (
	"bufio"
	"bytes"
	"encoding/json"
	"fmt"
	"os"
	"os/exec"
	"path/filepath"
	"sort"
	"strconv"
	"strings"
	"sync"
	"time"

	"github.com/bytom/bytom/protocol/bc"
	cl "verifharness/chainlib"
	. "verifharness/hlib"
)

const epoch = 4

func main() { Main("C11", runC11, map[string]func([]string) int{"batch": childBatch}) }

// ---------------------------------------------------------------- case format

type BlockSpec struct {
	Parent int  `json:"p"` // label of the parent (0 = genesis); block i+1 is Blocks[i]
	Bad    bool `json:"bad,omitempty"`
	// epoch-boundary blocks may carry a sup link (votes of the listed keys for source -> this block)
	SupSource int   `json:"ss,omitempty"`
	SupKeys   []int `json:"sk,omitempty"`
}

type Event struct {
	Kind   string `json:"k"`           // "deliver" | "vote"
	Block  int    `json:"b,omitempty"` // deliver: label
	Key    int    `json:"key,omitempty"`
	Source int    `json:"s,omitempty"`
	Target int    `json:"t,omitempty"`
	// vote: send it even when the harness predicts that it moves the best chain (the node then
	// deadlocks: AuthVerification holds the casper lock while the chain's rollback needs it)
	Risky bool `json:"risky,omitempty"`
}

type Case struct {
	ID     int    `json:"id"`
	Stream string `json:"stream"`
	// Early: verification messages may precede their target block; the node caches them and
	// applies them from a background goroutine, so the child lets the node settle after every
	// delivery; such cases are judged by the oracle only (not passed to the model)
	Early  bool        `json:"early,omitempty"`
	Blocks []BlockSpec `json:"blocks"`
	Events []Event     `json:"events"`
}

type Step struct {
	Orphan    bool           `json:"orphan"`
	Err       bool           `json:"err"`
	Skipped   bool           `json:"skipped,omitempty"` // vote not sent (see runOne)
	Best      int            `json:"best"`              // label (-1 unknown hash)
	Height    uint64         `json:"height"`            // BestBlockHeader().Height
	Index     []int          `json:"index"`             // per height 0..maxH: label, -1 = no entry, -2 = unknown hash
	InMain    []bool         `json:"inmain"`            // per label
	Finalized int            `json:"fin"`               // label of LastFinalizedHeader
	Status    map[int]string `json:"st"`                // per epoch-boundary label with a stored checkpoint
}

type Result struct {
	ID     int      `json:"id"`
	Hashes []string `json:"hashes"` // per label
	Steps  []Step   `json:"steps"`  // Steps[0] = fresh node; Steps[i] = after event i-1
	// Deadlock = i > 0: event i-1 (a vote predicted to move the best chain) did not return; the case ends there
	Deadlock int    `json:"deadlock,omitempty"`
	Panic    string `json:"panic,omitempty"`
	Hang     bool   `json:"hang,omitempty"`
}

func (c *Case) heights() []uint64 {
	h := make([]uint64, len(c.Blocks)+1)
	for i, b := range c.Blocks {
		h[i+1] = h[b.Parent] + 1
	}
	return h
}

func (c *Case) parent(l int) int {
	if l == 0 {
		return -1
	}
	return c.Blocks[l-1].Parent
}

// ---------------------------------------------------------------- child

func buildTree(w *cl.World, c *Case) []*cl.BlockInfo {
	blocks := []*cl.BlockInfo{w.Genesis}
	nchild := map[int]int{}
	for _, b := range c.Blocks {
		opt := cl.BlockOpt{Skip: nchild[b.Parent], BadSigner: b.Bad}
		nchild[b.Parent]++
		blocks = append(blocks, w.NewBlock(blocks[b.Parent], nil, opt))
	}
	return blocks
}

func runOne(w *cl.World, c *Case, base string) (*Result, error) {
	blocks := buildTree(w, c)
	n, err := cl.NewNode(filepath.Join(base, fmt.Sprintf("node_%d", c.ID)))
	if err != nil {
		return nil, err
	}
	// the DB stays open until the child exits (background goroutines of the node keep reading it)
	label := map[string]int{}
	var hashes []bc.Hash
	var boundary []bc.Hash
	var maxH uint64
	r := &Result{ID: c.ID}
	for i, b := range blocks {
		label[b.Hash.String()] = i
		hashes = append(hashes, b.Hash)
		r.Hashes = append(r.Hashes, b.Hash.String())
		if b.Block.Height%epoch == 0 {
			boundary = append(boundary, b.Hash)
		}
		if b.Block.Height > maxH {
			maxH = b.Block.Height
		}
	}
	lab := func(s string) int {
		if l, ok := label[s]; ok {
			return l
		}
		return -2
	}
	dump := func(orphan bool, err error) {
		d := n.Dump(nil, hashes, maxH)
		st := Step{Orphan: orphan, Err: err != nil, Best: lab(d.Best), Height: d.Height, Finalized: lab(d.Finalized), Status: map[int]string{}}
		for _, x := range d.Index {
			if x == "" {
				st.Index = append(st.Index, -1)
			} else {
				st.Index = append(st.Index, lab(x))
			}
		}
		for _, h := range hashes {
			st.InMain = append(st.InMain, d.InMain[h.String()])
		}
		for _, cp := range n.Checkpoints(boundary) {
			st.Status[lab(cp.Hash)] = cp.Status
		}
		r.Steps = append(r.Steps, st)
	}
	dump(false, nil)
	v := &view{c: c, h: c.heights(), hashes: r.Hashes}
	delivered := make([]bool, len(blocks))
	delivered[0] = true
	for i, e := range c.Events {
		switch e.Kind {
		case "deliver":
			b := cl.CloneBlock(blocks[e.Block].Block)
			if sp := c.Blocks[e.Block-1]; len(sp.SupKeys) > 0 {
				src := blocks[sp.SupSource]
				for _, k := range sp.SupKeys {
					b.SupLinks.AddSupLink(src.Block.Height, src.Hash, cl.SignVote(w.Keys[k], src.Hash, b.Hash()), k)
				}
			}
			delivered[e.Block] = true
			orphan, err := n.Chain.ProcessBlock(b)
			if c.Early {
				time.Sleep(200 * time.Millisecond)
			}
			dump(orphan, err)
		case "vote":
			last := r.Steps[len(r.Steps)-1]
			// a verification message whose target is the last finalized checkpoint crashes the node
			// (nil Parent in convertVerification): not this property's business, never sent
			moves := v.voteMovesBest(delivered, last, e)
			if e.Target == last.Finalized || (moves && !e.Risky) {
				last.Skipped, last.Orphan, last.Err = true, false, false
				r.Steps = append(r.Steps, last)
				continue
			}
			done := make(chan error, 1)
			go func() {
				done <- n.Chain.ProcessBlockVerification(w.Vote(e.Key, blocks[e.Source].Hash, blocks[e.Target].Hash))
			}()
			wait := 150 * time.Second
			if moves {
				wait = 10 * time.Second
			}
			select {
			case err := <-done:
				dump(false, err)
			case <-time.After(wait):
				if !moves {
					return nil, fmt.Errorf("HANG")
				}
				r.Deadlock = i + 1
				return r, nil
			}
		default:
			return nil, fmt.Errorf("unknown event kind %q", e.Kind)
		}
	}
	return r, nil
}

// child batch <file> <scratch dir>: prints "BEGIN <id>" before and one JSON result line after every case.
func childBatch(args []string) int {
	if len(args) != 2 {
		return 2
	}
	raw, err := os.ReadFile(args[0])
	if err != nil {
		fmt.Fprintln(os.Stderr, err)
		return 2
	}
	var cases []*Case
	if err := json.Unmarshal(raw, &cases); err != nil {
		fmt.Fprintln(os.Stderr, err)
		return 2
	}
	w := cl.Init(cl.DefaultOptions())
	out := bufio.NewWriter(os.Stdout)
	for _, c := range cases {
		fmt.Fprintf(out, "BEGIN %d\n", c.ID)
		out.Flush()
		r, err := runOne(w, c, args[1])
		if err != nil && err.Error() == "HANG" {
			js, _ := json.Marshal(&Result{ID: c.ID, Hang: true})
			out.Write(js)
			out.WriteString("\n")
			out.Flush()
			continue
		}
		if err != nil {
			fmt.Fprintln(os.Stderr, "harness child error:", err)
			return 3
		}
		js, _ := json.Marshal(r)
		out.Write(js)
		out.WriteString("\n")
		out.Flush()
	}
	return 0
}

// ---------------------------------------------------------------- parent: dispatch to children

func jobs() int {
	if v, err := strconv.Atoi(os.Getenv("VERIF_JOBS")); err == nil && v > 0 {
		if v > 12 {
			v = 12
		}
		return v
	}
	return 6
}

func runChunk(dir string, k int, cases []*Case, res map[int]*Result, mu *sync.Mutex) error {
	for len(cases) > 0 {
		f := filepath.Join(dir, fmt.Sprintf("chunk_%d.json", k))
		js, _ := json.Marshal(cases)
		if err := os.WriteFile(f, js, 0644); err != nil {
			return err
		}
		base := filepath.Join(dir, fmt.Sprintf("nodes_%d_%d", k, len(cases)))
		cmd := exec.Command(os.Args[0], "child", "batch", f, base)
		var stderr bytes.Buffer
		cmd.Stderr = &stderr
		stdout, err := cmd.StdoutPipe()
		if err != nil {
			return err
		}
		if err := cmd.Start(); err != nil {
			return err
		}
		lines := make(chan string, 16)
		go func() {
			sc := bufio.NewScanner(stdout)
			sc.Buffer(make([]byte, 1<<20), 1<<26)
			for sc.Scan() {
				lines <- sc.Text()
			}
			close(lines)
		}()
		current, done, hang := -1, 0, false
	loop:
		for {
			select {
			case l, ok := <-lines:
				if !ok {
					break loop
				}
				if strings.HasPrefix(l, "BEGIN ") {
					current, _ = strconv.Atoi(l[6:])
					continue
				}
				r := &Result{}
				if err := json.Unmarshal([]byte(l), r); err != nil {
					cmd.Process.Kill()
					cmd.Wait()
					return fmt.Errorf("unparseable child output %q", l)
				}
				mu.Lock()
				res[r.ID] = r
				mu.Unlock()
				done++
				current = -1
			case <-time.After(400 * time.Second):
				hang = true
				cmd.Process.Kill()
				break loop
			}
		}
		err = cmd.Wait()
		os.RemoveAll(base)
		if err == nil && !hang && done == len(cases) {
			return nil
		}
		if current < 0 || done >= len(cases) || cases[done].ID != current {
			return fmt.Errorf("child failed outside a case: %v: %s", err, tail(stderr.String(), 800))
		}
		if ee, ok := err.(*exec.ExitError); ok && ee.ExitCode() == 3 {
			return fmt.Errorf("child: %s", tail(stderr.String(), 800))
		}
		r := &Result{ID: current, Hang: hang}
		if !hang {
			r.Panic = panicHead(stderr.String())
		}
		mu.Lock()
		res[current] = r
		mu.Unlock()
		cases = cases[done+1:]
	}
	return nil
}

func tail(s string, n int) string {
	if len(s) > n {
		return s[len(s)-n:]
	}
	return s
}

func panicHead(trace string) string {
	var keep []string
	for _, l := range strings.Split(trace, "\n") {
		l = strings.TrimSpace(l)
		if strings.HasPrefix(l, "panic:") || strings.HasPrefix(l, "[signal") || strings.HasPrefix(l, "fatal error:") ||
			(strings.HasPrefix(l, "github.com/bytom/bytom/") && len(keep) < 8) {
			if i := strings.Index(l, "(0x"); i > 0 {
				l = l[:i]
			}
			keep = append(keep, l)
		}
	}
	if len(keep) == 0 {
		return "abnormal exit: " + tail(trace, 300)
	}
	return strings.Join(keep, " | ")
}

func runAll(cases []*Case) (map[int]*Result, error) {
	tmp := ""
	if st, err := os.Stat("/dev/shm"); err == nil && st.IsDir() {
		tmp = "/dev/shm"
	}
	dir, err := os.MkdirTemp(tmp, "c11-run-")
	if err != nil {
		return nil, err
	}
	defer os.RemoveAll(dir)
	res := map[int]*Result{}
	var mu sync.Mutex
	var chunks [][]*Case
	per := 12
	for lo := 0; lo < len(cases); lo += per {
		hi := lo + per
		if hi > len(cases) {
			hi = len(cases)
		}
		chunks = append(chunks, cases[lo:hi])
	}
	ch := make(chan int)
	errs := make(chan error, len(chunks)+1)
	var wg sync.WaitGroup
	for wk := 0; wk < jobs(); wk++ {
		wg.Add(1)
		go func() {
			defer wg.Done()
			for k := range ch {
				if err := runChunk(dir, k, chunks[k], res, &mu); err != nil {
					errs <- err
				}
			}
		}()
	}
	for k := range chunks {
		ch <- k
	}
	close(ch)
	wg.Wait()
	select {
	case err := <-errs:
		return nil, err
	default:
	}
	return res, nil
}

// ---------------------------------------------------------------- generator

// chainFrom appends n blocks on top of `from` and returns their labels.
func (c *Case) chainFrom(from, n int, bad bool) []int {
	var r []int
	for i := 0; i < n; i++ {
		c.Blocks = append(c.Blocks, BlockSpec{Parent: from, Bad: bad && i == 0})
		from = len(c.Blocks)
		r = append(r, from)
	}
	return r
}

func (c *Case) deliver(ls ...int) {
	for _, l := range ls {
		c.Events = append(c.Events, Event{Kind: "deliver", Block: l})
	}
}

func (c *Case) votes(source, target int, keys ...int) {
	for _, k := range keys {
		c.Events = append(c.Events, Event{Kind: "vote", Key: k, Source: source, Target: target})
	}
}

// corpus: fixed scenarios that run first.
func corpus() []*Case {
	var cs []*Case
	// 1. reorganisation to a SHORTER chain: trunk 1..4, branch A 5..12, branch B 5'..8'; the
	// checkpoint 8' is justified from genesis by keys 1..3 -> best = 8' (height 8) while the old
	// best had height 12.
	{
		c := &Case{Stream: "corpus-shorter"}
		t := c.chainFrom(0, 4, false)
		a := c.chainFrom(t[3], 8, false)
		b := c.chainFrom(t[3], 4, false)
		c.Blocks[b[3]-1].SupSource, c.Blocks[b[3]-1].SupKeys = 0, []int{1, 2, 3}
		c.deliver(t...)
		c.deliver(a...)
		c.deliver(b...)
		// grow again past the stale entries
		b2 := c.chainFrom(b[3], 2, false)
		c.deliver(b2...)
		cs = append(cs, c)
	}
	// 1b. the same through verification messages: the third vote moves the best chain
	{
		c := &Case{Stream: "corpus-shorter-by-votes"}
		t := c.chainFrom(0, 4, false)
		a := c.chainFrom(t[3], 8, false)
		b := c.chainFrom(t[3], 4, false)
		c.deliver(t...)
		c.deliver(a...)
		c.deliver(b...)
		c.votes(0, b[3], 1, 2, 3)
		for i := range c.Events {
			c.Events[i].Risky = true
		}
		cs = append(cs, c)
	}
	// 2. same, with finalization of checkpoint 4 first (root moves), then the shorter branch wins
	{
		c := &Case{Stream: "corpus-shorter-finalized"}
		t := c.chainFrom(0, 4, false)
		a := c.chainFrom(t[3], 9, false)
		b := c.chainFrom(t[3], 5, false)
		c.deliver(t...)
		c.votes(0, t[3], 1, 2, 3)
		c.Blocks[b[3]-1].SupSource, c.Blocks[b[3]-1].SupKeys = t[3], []int{3, 2, 1}
		c.deliver(a...)
		c.deliver(b...)
		// a block on the pruned side of the new root and one on the surviving side
		x := c.chainFrom(a[8], 1, false)
		y := c.chainFrom(b[4], 1, false)
		c.deliver(x...)
		c.deliver(y...)
		cs = append(cs, c)
	}
	// 3. tie-break by hash: three siblings at the same height, every arrival order of two of them
	{
		c := &Case{Stream: "corpus-tiebreak"}
		t := c.chainFrom(0, 2, false)
		s1 := c.chainFrom(t[1], 1, false)
		s2 := c.chainFrom(t[1], 1, false)
		s3 := c.chainFrom(t[1], 1, false)
		c.deliver(t...)
		c.deliver(s2[0], s1[0], s3[0])
		e := c.chainFrom(s1[0], 1, false)
		c.deliver(e...)
		cs = append(cs, c)
	}
	// 4. orphans first, children before parents, repeats
	{
		c := &Case{Stream: "corpus-orphans"}
		t := c.chainFrom(0, 6, false)
		u := c.chainFrom(t[2], 5, false)
		c.deliver(t[5], t[4], u[4], u[3], t[0], t[1], t[1], t[2], u[0], u[1], u[2], t[3], t[0], u[4])
		cs = append(cs, c)
	}
	// 5. fork inside an epoch, below the tip of a growing checkpoint; justification moves the best
	// chain to the lower branch and back by length
	{
		c := &Case{Stream: "corpus-mid-epoch"}
		t := c.chainFrom(0, 6, false)
		u := c.chainFrom(t[4], 3, false) // 6',7',8'
		v := c.chainFrom(t[5], 4, false) // 7..10
		c.Blocks[u[2]-1].SupSource, c.Blocks[u[2]-1].SupKeys = 0, []int{2, 3, 1}
		c.deliver(t...)
		c.deliver(v...)
		c.deliver(u...)
		c.votes(0, t[3], 1, 2, 3)
		cs = append(cs, c)
	}
	// 6. verification messages before their target block: trunk 1..4, branch A 5..12, then the
	// votes genesis -> 8' of keys 1..3 (cached), then branch B 5'..9'
	{
		c := &Case{Stream: "corpus-early-vote", Early: true}
		t := c.chainFrom(0, 4, false)
		a := c.chainFrom(t[3], 8, false)
		b := c.chainFrom(t[3], 5, false)
		c.deliver(t...)
		c.deliver(a...)
		c.votes(0, b[3], 1, 2, 3)
		c.deliver(b...)
		cs = append(cs, c)
	}
	return cs
}

type gen struct {
	r *Rng
}

// random tree: trunk + branches, at most `extra` blocks beyond the trunk.
func (g *gen) tree(c *Case, structured bool, bad bool) {
	trunk := g.r.Intn(7)
	t := c.chainFrom(0, trunk, false)
	tip := 0
	if trunk > 0 {
		tip = t[trunk-1]
	}
	extra := 5 + g.r.Intn(11)
	nchild := map[int]int{}
	for _, b := range c.Blocks {
		nchild[b.Parent]++
	}
	add := func(p int, isBad bool) int {
		c.Blocks = append(c.Blocks, BlockSpec{Parent: p, Bad: isBad})
		nchild[p]++
		return len(c.Blocks)
	}
	if structured {
		// 2..3 branches from fork points near the trunk's tip, of different lengths
		nb := 2 + g.r.Intn(2)
		left := extra
		for k := 0; k < nb && left > 0; k++ {
			fp := tip
			if trunk > 0 && g.r.Chance(40) {
				fp = t[g.r.Intn(trunk)]
			}
			ln := 1 + g.r.Intn(left)
			if k < nb-1 && ln > left*2/3 {
				ln = left*2/3 + 1
			}
			for i := 0; i < ln && left > 0; i++ {
				if nchild[fp] >= 3 {
					break
				}
				fp = add(fp, false)
				left--
			}
		}
		for ; left > 0; left-- {
			p := g.r.Intn(len(c.Blocks) + 1)
			if nchild[p] >= 3 {
				continue
			}
			add(p, bad && g.r.Chance(15))
		}
	} else {
		h := c.heights()
		for i := 0; i < extra; i++ {
			var p int
			if g.r.Chance(65) {
				// extend a tip (a block without children), preferring high ones
				best := -1
				for try := 0; try < 3; try++ {
					q := g.r.Intn(len(c.Blocks) + 1)
					if nchild[q] == 0 && (best < 0 || h[q] > h[best]) {
						best = q
					}
				}
				if best < 0 {
					best = len(c.Blocks)
				}
				p = best
			} else {
				p = g.r.Intn(len(c.Blocks) + 1)
			}
			if nchild[p] >= 3 {
				continue
			}
			l := add(p, bad && g.r.Chance(12))
			h = append(h, h[p]+1)
			_ = l
		}
	}
}

// order: a delivery order of all labels 1..n.
func (g *gen) order(c *Case) []int {
	n := len(c.Blocks)
	ord := make([]int, n)
	for i := range ord {
		ord[i] = i + 1
	}
	switch m := g.r.Intn(10); {
	case m < 3: // creation order (parents first, branch after branch)
	case m < 6: // random topological order
		ready := []int{}
		placed := map[int]bool{0: true}
		var out []int
		for len(out) < n {
			ready = ready[:0]
			for l := 1; l <= n; l++ {
				if !placed[l] && placed[c.parent(l)] {
					ready = append(ready, l)
				}
			}
			x := ready[g.r.Intn(len(ready))]
			placed[x] = true
			out = append(out, x)
		}
		ord = out
	case m < 9: // mostly in order with a few blocks held back (orphans)
		k := 1 + g.r.Intn(3)
		for i := 0; i < k; i++ {
			a := g.r.Intn(n)
			b := a + 1 + g.r.Intn(4)
			if b >= n {
				b = n - 1
			}
			x := ord[a]
			copy(ord[a:b], ord[a+1:b+1])
			ord[b] = x
		}
	default: // uniform shuffle
		for i := n - 1; i > 0; i-- {
			j := g.r.Intn(i + 1)
			ord[i], ord[j] = ord[j], ord[i]
		}
	}
	return ord
}

func (g *gen) random(id int, malformed bool, early bool) *Case {
	c := &Case{ID: id, Stream: "random", Early: early}
	if malformed {
		c.Stream = "malformed"
	}
	if early {
		c.Stream = "early-votes"
	}
	g.tree(c, g.r.Chance(60), malformed)
	n := len(c.Blocks)
	h := c.heights()
	ord := g.order(c)
	// position at which a block is connected (all ancestors delivered), ignoring validity
	pos := map[int]int{0: -1}
	for i, l := range ord {
		pos[l] = i
	}
	conn := make([]int, n+1)
	for l := 1; l <= n; l++ { // parents have smaller labels
		conn[l] = pos[l]
		if p := c.parent(l); conn[p] > conn[l] {
			conn[l] = conn[p]
		}
	}
	// justification attempts: (source, target) pairs, three votes each, placed after the target is connected
	type att struct {
		at     int
		events []Event
	}
	var atts []att
	var boundary []int
	for l := 1; l <= n; l++ {
		if h[l]%epoch == 0 {
			boundary = append(boundary, l)
		}
	}
	intended := map[int]bool{0: true}
	// sup links carried by epoch-boundary blocks (justification while the block is applied)
	for _, t := range boundary {
		if !g.r.Chance(35) {
			continue
		}
		s := 0
		for x := c.parent(t); x > 0; x = c.parent(x) {
			if h[x]%epoch == 0 && intended[x] && g.r.Chance(80) {
				s = x
				break
			}
		}
		keys := []int{1, 2, 3}
		switch x := g.r.Intn(10); {
		case x == 0:
			keys = []int{1 + g.r.Intn(3)} // no majority
		case x <= 2:
			keys = []int{1 + g.r.Intn(3), 0}
			if keys[0] == 3 {
				keys = []int{2, 3} // with the node's own vote (same source only)
			}
		}
		c.Blocks[t-1].SupSource, c.Blocks[t-1].SupKeys = s, keys
		if len(keys) >= 3 {
			intended[t] = true
		}
	}
	if len(boundary) > 0 {
		na := g.r.Intn(4)
		if g.r.Chance(30) {
			na += 2
		}
		// earlier attempts tend to be placed earlier: sort targets by a random key afterwards
		for a := 0; a < na; a++ {
			t := boundary[g.r.Intn(len(boundary))]
			// source: nearest intended-justified ancestor boundary block, or genesis, or (rarely) any boundary block
			s := 0
			for x := c.parent(t); x > 0; x = c.parent(x) {
				if h[x]%epoch == 0 && intended[x] {
					s = x
					break
				}
			}
			if g.r.Chance(20) {
				s = 0
			}
			if malformed && g.r.Chance(15) {
				s = boundary[g.r.Intn(len(boundary))]
			}
			keys := []int{1, 2, 3}
			for i := 2; i > 0; i-- {
				j := g.r.Intn(i + 1)
				keys[i], keys[j] = keys[j], keys[i]
			}
			switch x := g.r.Intn(10); {
			case x == 0:
				keys = keys[:2] // two external votes (+ the node's own, if it voted with the same source)
			case x == 1:
				keys = append(keys, 0)
			}
			tt := t
			if malformed && g.r.Chance(10) {
				tt = 1 + g.r.Intn(n) // any block, mostly not a checkpoint
			}
			at := conn[t] + 1 + g.r.Intn(n-conn[t])
			if conn[tt]+1 > at {
				at = conn[tt] + 1
			}
			if early && g.r.Chance(70) {
				at = g.r.Intn(conn[t] + 1) // before the target is connected: the node caches the message
			}
			var evs []Event
			risky := g.r.Chance(12)
			for _, k := range keys {
				evs = append(evs, Event{Kind: "vote", Key: k, Source: s, Target: tt, Risky: risky})
			}
			atts = append(atts, att{at, evs})
			intended[t] = true
		}
	}
	sort.SliceStable(atts, func(i, j int) bool { return atts[i].at < atts[j].at })
	ai := 0
	for i, l := range ord {
		for ai < len(atts) && atts[ai].at <= i {
			c.Events = append(c.Events, atts[ai].events...)
			ai++
		}
		c.deliver(l)
		if malformed && g.r.Chance(12) {
			c.deliver(ord[g.r.Intn(i+1)]) // repeat an earlier delivery
		}
	}
	for ; ai < len(atts); ai++ {
		c.Events = append(c.Events, atts[ai].events...)
	}
	if g.r.Chance(30) { // repeats at the end (blocks higher than best are processed again)
		for k := 0; k < 2; k++ {
			c.deliver(1 + g.r.Intn(n))
		}
	}
	return c
}

// ---------------------------------------------------------------- oracle

type view struct {
	c      *Case
	h      []uint64
	hashes []string
}

func (v *view) isAncOrSelf(a, b int) bool {
	for x := b; x >= 0; x = v.c.parent(x) {
		if x == a {
			return true
		}
	}
	return false
}

func (v *view) ancAt(b int, h uint64) int {
	for x := b; x >= 0; x = v.c.parent(x) {
		if v.h[x] == h {
			return x
		}
	}
	return -1
}

func (v *view) connected(delivered []bool) []bool {
	n := len(v.c.Blocks)
	connected := make([]bool, n+1)
	connected[0] = true
	for l := 1; l <= n; l++ {
		connected[l] = delivered[l] && !v.c.Blocks[l-1].Bad && connected[v.c.parent(l)]
	}
	return connected
}

// voteMovesBest predicts (for the generator only, never for a verdict) whether the vote, if it
// completes a supermajority, moves the best block.
func (v *view) voteMovesBest(delivered []bool, last Step, e Event) bool {
	conn := v.connected(delivered)
	if !conn[e.Target] || last.Status[e.Target] != "unjustified" || last.Best < 0 || last.Finalized < 0 {
		return false
	}
	hyp := map[int]string{}
	for k, s := range last.Status {
		hyp[k] = s
	}
	hyp[e.Target] = "justified"
	root := last.Finalized
	pb := -1
	for x := v.c.parent(e.Target); x >= 0; x = v.c.parent(x) {
		if v.h[x]%epoch == 0 {
			pb = x
			break
		}
	}
	if pb == e.Source && v.isAncOrSelf(root, e.Source) {
		root = e.Source
	}
	return v.forkChoice(conn, root, hyp) != last.Best
}

// forkChoice: the harness's own evaluation over the connected valid blocks below the finalized root.
func (v *view) forkChoice(connected []bool, root int, status map[int]string) int {
	best, bestJ := -1, uint64(0)
	for l := range connected {
		if !connected[l] || !v.isAncOrSelf(root, l) {
			continue
		}
		j := v.h[root]
		for x := l; x != root; x = v.c.parent(x) {
			if v.h[x]%epoch == 0 && status[x] == "justified" && v.h[x] > j {
				j = v.h[x]
			}
		}
		if best < 0 || j > bestJ || (j == bestJ && v.h[l] > v.h[best]) ||
			(j == bestJ && v.h[l] == v.h[best] && v.hashes[l] > v.hashes[best]) {
			best, bestJ = l, j
		}
	}
	return best
}

// oracle: the property predicate on the implementation's outputs of one step.
func (v *view) oracle(i int, s Step, connected []bool, earlyTargets map[int]bool, fail func(int, string)) {
	n := len(v.c.Blocks)
	// --- best = fork choice
	want := v.forkChoice(connected, s.Finalized, s.Status)
	cached := false
	for t := range earlyTargets {
		if s.Status[t] == "justified" || s.Status[t] == "finalized" {
			cached = true
		}
	}
	if want != s.Best && cached {
		fail(i, fmt.Sprintf("class=cached-vote-no-rollback: a checkpoint was justified by verification messages that arrived before their target block (applied by authVerificationLoop without tryRollback); best block is label %d (height %d) but the fork-choice rule selects label %d (height %d)", s.Best, v.h[s.Best], want, v.h[want]))
	} else if want != s.Best {
		fail(i, fmt.Sprintf("class=best-not-fork-choice: best block is label %d (height %d) but the fork-choice rule over the known valid tree selects label %d (height %d)", s.Best, v.h[s.Best], want, v.h[want]))
	}
	if s.Height != v.h[s.Best] {
		fail(i, fmt.Sprintf("class=best-height: best header height %d differs from the block's height %d", s.Height, v.h[s.Best]))
	}
	// --- index: every height up to best maps to the ancestor of best
	for hh := uint64(0); hh <= v.h[s.Best] && int(hh) < len(s.Index); hh++ {
		if a := v.ancAt(s.Best, hh); s.Index[hh] != a {
			fail(i, fmt.Sprintf("class=index-not-ancestor: height %d maps to label %d, the ancestor of the best block (label %d) at that height is label %d", hh, s.Index[hh], s.Best, a))
			break
		}
	}
	// --- InMainChain(b) <=> b ancestor-or-self of best
	for l := 0; l <= n; l++ {
		if anc := v.isAncOrSelf(l, s.Best); s.InMain[l] != anc {
			kind := "class=inmain-stale-index"
			if !s.InMain[l] {
				kind = "class=inmain-missing"
			} else if v.h[l] <= v.h[s.Best] {
				kind = "class=inmain-wrong-branch"
			}
			fail(i, fmt.Sprintf("%s: InMainChain(label %d, height %d) = %v but the block is%s an ancestor of the best block (label %d, height %d)",
				kind, l, v.h[l], s.InMain[l], map[bool]string{true: "", false: " not"}[anc], s.Best, v.h[s.Best]))
			break
		}
	}
}

type caseStats struct {
	orphans, reorgs, shorter, justified, supJustified, finalized, errs, skipped, early int
	nontrivial, deadlock                                                               bool
}

// check applies the oracle to every step and returns the model events.
func check(c *Ctx, cs *Case, r *Result) (events []string, bjust map[int]bool, st caseStats) {
	bjust = map[int]bool{}
	v := &view{c: cs, h: cs.heights(), hashes: r.Hashes}
	n := len(cs.Blocks)
	delivered := make([]bool, n+1)
	delivered[0] = true
	fail := func(step int, what string) {
		c.Stats.Fail(what, map[string]interface{}{"case": cs, "step": step, "hashes": r.Hashes, "observed": r.Steps[step]})
	}
	earlyTargets := map[int]bool{}
	for i, s := range r.Steps {
		var ev *Event
		if i > 0 {
			ev = &cs.Events[i-1]
			if ev.Kind == "deliver" {
				delivered[ev.Block] = true
			}
		}
		connected := v.connected(delivered)
		if ev != nil && ev.Kind == "vote" && !s.Skipped && !connected[ev.Target] {
			earlyTargets[ev.Target] = true
			st.early++
		}
		if s.Best < 0 || s.Finalized < 0 {
			fail(i, fmt.Sprintf("class=unknown-best: best block or finalized block is not a block of the tree (best %d, finalized %d)", s.Best, s.Finalized))
		} else {
			v.oracle(i, s, connected, earlyTargets, fail)
		}
		// --- statistics and model events
		if i == 0 {
			continue
		}
		prev := r.Steps[i-1]
		if s.Best >= 0 && prev.Best >= 0 && s.Best != prev.Best {
			if !v.isAncOrSelf(prev.Best, s.Best) {
				st.reorgs++
				if v.h[s.Best] < v.h[prev.Best] {
					st.shorter++
				}
			}
		}
		if s.Err {
			st.errs++
		}
		if s.Finalized != prev.Finalized {
			st.finalized++
		}
		switch ev.Kind {
		case "deliver":
			if s.Orphan {
				st.orphans++
			}
			events = append(events, "Deliver")
			// a block whose checkpoint is justified at the step in which it is first stored was
			// justified by the sup link it carries, while it was applied
			for l, status := range s.Status {
				if _, seen := prev.Status[l]; !seen && l > 0 && len(cs.Blocks[l-1].SupKeys) > 0 && (status == "justified" || status == "finalized") {
					bjust[l] = true
					st.justified++
					st.supJustified++
				}
			}
		case "vote":
			if s.Skipped {
				st.skipped++
				events = append(events, "Nop")
			} else if prev.Status[ev.Target] == "unjustified" && s.Status[ev.Target] == "justified" {
				st.justified++
				events = append(events, "J")
			} else {
				events = append(events, "Nop")
			}
		}
	}
	if r.Deadlock > 0 {
		st.deadlock = true
		events = append(events, "J")
	}
	st.nontrivial = st.reorgs > 0
	return
}

// ---------------------------------------------------------------- model expressions

func ranks(hashes []string) []int {
	idx := make([]int, len(hashes))
	for i := range idx {
		idx[i] = i
	}
	sort.Slice(idx, func(a, b int) bool { return hashes[idx[a]] < hashes[idx[b]] })
	rk := make([]int, len(hashes))
	for pos, l := range idx {
		rk[l] = pos + 1
	}
	return rk
}

func modelCase(cs *Case, r *Result, events []string, bjust map[int]bool) (string, string) {
	rk := ranks(r.Hashes)
	h := cs.heights()
	n := len(cs.Blocks)
	var maxH uint64
	for _, x := range h {
		if x > maxH {
			maxH = x
		}
	}
	var bl []string
	for l := 0; l <= n; l++ {
		p, ok, just := 0, true, "None"
		if l > 0 {
			p, ok = rk[cs.parent(l)], !cs.Blocks[l-1].Bad
			if bjust[l] {
				just = fmt.Sprintf("(Some %d)", rk[cs.Blocks[l-1].SupSource])
			}
		}
		bl = append(bl, fmt.Sprintf("(%d, mkb %d %d %s %s)", rk[l], p, h[l], CoqBool(ok), just))
	}
	var evs []string
	for i, e := range events {
		ev := cs.Events[i]
		switch {
		case strings.HasPrefix(e, "Deliver"):
			evs = append(evs, fmt.Sprintf("Deliver %d", rk[ev.Block]))
		case e == "J":
			evs = append(evs, fmt.Sprintf("Justify %d %d", rk[ev.Target], rk[ev.Source]))
		default:
			evs = append(evs, "Nop")
		}
	}
	var qs []string
	for l := 0; l <= n; l++ {
		qs = append(qs, fmt.Sprint(rk[l]))
	}
	model := fmt.Sprintf("run_case current_code %d %s %d %s %s %d", epoch, CoqList(bl), rk[0], CoqList(evs), CoqList(qs), maxH)
	var obs []string
	for _, s := range r.Steps {
		var ix, im []string
		for _, x := range s.Index {
			if x < 0 {
				ix = append(ix, "None")
			} else {
				ix = append(ix, fmt.Sprintf("Some %d", rk[x]))
			}
		}
		for _, b := range s.InMain {
			im = append(im, CoqBool(b))
		}
		best, fin := 0, 0
		if s.Best >= 0 {
			best = rk[s.Best]
		}
		if s.Finalized >= 0 {
			fin = rk[s.Finalized]
		}
		obs = append(obs, fmt.Sprintf("Some (%d, %d, %s, %s)", best, fin, CoqList(ix), CoqList(im)))
	}
	if r.Deadlock > 0 {
		obs = append(obs, "None")
	}
	return model, CoqList(obs)
}

// ---------------------------------------------------------------- run

func runC11(c *Ctx) error {
	g := &gen{r: c.Rng}
	cases := corpus()
	nRandom, nMal, nEarly := c.N(70, 700), c.N(25, 250), c.N(8, 60)
	for i := 0; i < nRandom; i++ {
		cases = append(cases, g.random(0, false, false))
	}
	for i := 0; i < nMal; i++ {
		cases = append(cases, g.random(0, true, false))
	}
	for i := 0; i < nEarly; i++ {
		cases = append(cases, g.random(0, false, true))
	}
	for i, cs := range cases {
		cs.ID = i
	}
	if c.Replay != "" {
		// a replay file carries the failing case in failure.case.case
		var rp struct {
			Failure struct {
				Case struct {
					Case *Case `json:"case"`
				} `json:"case"`
			} `json:"failure"`
		}
		if raw, err := os.ReadFile(c.Replay); err == nil && json.Unmarshal(raw, &rp) == nil && rp.Failure.Case.Case != nil {
			rp.Failure.Case.Case.ID = 0
			cases = []*Case{rp.Failure.Case.Case}
		}
	}
	res, err := runAll(cases)
	if err != nil {
		return err
	}
	for _, cs := range cases {
		r := res[cs.ID]
		if r == nil {
			return fmt.Errorf("no result for case %d", cs.ID)
		}
		c.Stats.Count("stream:" + cs.Stream)
		c.Stats.Count(fmt.Sprintf("blocks:%02d-%02d", len(cs.Blocks)/5*5, len(cs.Blocks)/5*5+4))
		key, _ := json.Marshal([]interface{}{cs.Blocks, cs.Events})
		if r.Panic != "" || r.Hang {
			c.Stats.Case(string(key), true)
			what := "class=panic: " + r.Panic
			if r.Hang {
				what = "class=hang: the node did not answer within 180 s"
			}
			c.Stats.Fail(what, map[string]interface{}{"case": cs})
			continue
		}
		if (r.Deadlock == 0 && len(r.Steps) != len(cs.Events)+1) || (r.Deadlock > 0 && len(r.Steps) != r.Deadlock) {
			return fmt.Errorf("case %d: %d steps for %d events (deadlock %d)", cs.ID, len(r.Steps), len(cs.Events), r.Deadlock)
		}
		events, bjust, st := check(c, cs, r)
		c.Stats.Case(string(key), st.nontrivial)
		nv := 0
		for _, e := range cs.Events {
			if e.Kind == "vote" {
				nv++
			}
		}
		bucket := func(name string, k int) {
			switch {
			case k == 0:
				c.Stats.Count(name + ":0")
			case k == 1:
				c.Stats.Count(name + ":1")
			case k <= 3:
				c.Stats.Count(name + ":2-3")
			default:
				c.Stats.Count(name + ":4+")
			}
		}
		bucket("orphan-deliveries", st.orphans)
		bucket("reorganisations", st.reorgs)
		bucket("reorganisations-to-shorter-chain", st.shorter)
		bucket("justifications", st.justified)
		bucket("finalizations", st.finalized)
		bucket("event-errors", st.errs)
		bucket("votes", nv)
		for _, e := range cs.Events {
			c.Stats.Count("event:" + e.Kind)
		}
		if st.deadlock {
			c.Stats.Count("vote-moves-best-chain:node-deadlocks(C37)")
		}
		bucket("votes-withheld(would-deadlock)", st.skipped)
		bucket("justified-by-block-suplink", st.supJustified)
		bucket("votes-before-target(cached)", st.early)
		if cs.Early {
			c.Stats.Count("oracle-only(early votes)")
		} else {
			model, obs := modelCase(cs, r, events, bjust)
			id := c.Cases.Add(model, obs)
			c.Stats.CaseIndex[fmt.Sprint(id)] = cs
			c.Stats.Count("model_evaluated")
		}
		last := r.Steps[len(r.Steps)-1]
		c.Stats.Sample(map[string]interface{}{"stream": cs.Stream, "blocks": len(cs.Blocks), "events": len(cs.Events),
			"final_best_height": last.Height, "reorganisations": st.reorgs, "to_shorter_chain": st.shorter, "justifications": st.justified})
	}
	c.Stats.Rule = "a case is a block tree (trunk of 0..6 blocks plus up to 15 more, real signed coinbase-only blocks, 4-key federation, epoch length 4; 35% of the epoch-boundary blocks carry a sup link signed by 1..3 keys) and an event list for a fresh node on LevelDB in a child process: every block delivered in an arbitrary order (creation order, random topological, held-back blocks, uniform shuffle; malformed stream: wrongly signed blocks, repeated deliveries, votes for non-checkpoints and from arbitrary sources) and 0..5 justification attempts of real verification messages from keys 1..3 (sometimes 2 keys, or with key 0) after the target is connected; a vote that the harness predicts to move the best chain is withheld (the pinned node deadlocks on it) except for 12% of the attempts, where the deadlock itself is the expected observation; early-votes stream: votes before their target block (cached by the node, oracle only); a fixed corpus (shorter-chain reorganisation by sup link, by votes, with finalization, hash tie-break, orphans, mid-epoch fork, early vote) runs first; distinct = distinct (tree, event list); non-trivial = at least one reorganisation (best block moved to a block that does not descend from the previous best); oracle per step on implementation outputs only: best = harness's own fork choice over connected valid blocks below the last finalized checkpoint, index = ancestry of best, InMainChain = ancestor-or-self of best"
	if c.Cases.Len() == 0 { // a replay of an oracle-only case: keep the case file well-typed
		c.Cases.Add("(@nil (option obs))", "(@nil (option obs))")
	}
	c.Cases.Shard = 25
	return c.Cases.Write(c.Out, "From Coq Require Import List NArith. Import ListNotations. Open Scope N_scope.\nFrom C11 Require Import Model Run.", "list (option obs)", "obs_list_eqb")
}
