package main

// C06 — VM values behave as immutable byte strings.
//
// Every generated program is run under several memory layouts of the same
// byte values:
//   A  every caller buffer an independent exact-capacity copy,
//   B  code, arguments, state data and the context strings as sub-slices of
//      ONE buffer, produced by the real decoder (blockchain.ReadVarstr31:
//      each slice's capacity runs to the end of the buffer, so an item's
//      spare capacity IS the following items) or with random capacities;
//      some arguments are windows into the program or into other arguments,
//   I  (hook VerifRunWith) layout A and, after every top-level instruction,
//      every stack item moved into a buffer of its own, so that no sharing
//      between items can exist.
// Direct oracle (implementation only): identical gas / error class / trace
// with all stack dumps under A and B; per-step stack values of the hook run
// on B equal to those of the isolated run I; every byte of every caller
// buffer (spare capacity and neighbouring regions included) unchanged after
// each run; vm.BoolBytes(true) still [1] and BoolBytes(false) empty.
// Correspondence: the layout-B run against the memory-level model
// coq/C06/VMmem.v (descriptors over a heap), evaluated in Coq: gas, error,
// final stack values, step trace and the post-run contents of the buffers.

import (
	"bytes"
	"encoding/binary"
	"encoding/hex"
	"fmt"
	"strings"

	"github.com/bytom/bytom/encoding/blockchain"
	"github.com/bytom/bytom/protocol/vm"
	. "verifharness/hlib"
	"verifharness/vmlib"
)

func main() { Main("C06", run, nil) }

func exact(b []byte) []byte {
	r := make([]byte, len(b))
	copy(r, b)
	return r
}

// ---------------------------------------------------------------- layouts

type alias struct {
	src int // index into items: 0 = code, 1.. = args
	off int
}

type tcase struct {
	cs      *vmlib.Case
	argAl   map[int]alias // argument index -> window of an earlier item
	kind    string
	decoder bool // layout B through ReadVarstr31 (else random capacities)
}

type layout struct {
	ctx      *vm.Context
	bufs     [][]byte // backing arrays owned by the caller, full capacity
	pristine [][]byte
	// layout B only: descriptors (offset, len, cap) into bufs[0]; off < 0 = nil slice
	code, entry      [3]int
	args, state      [][3]int
	asset, spent, sh *[3]int
}

func (l *layout) own(b []byte) {
	if cap(b) == 0 {
		return
	}
	full := b[:cap(b)]
	l.bufs = append(l.bufs, full)
	l.pristine = append(l.pristine, exact(full))
}

func layoutA(cs *vmlib.Case) *layout {
	l := &layout{ctx: cs.Context()}
	l.own(l.ctx.Code)
	for _, a := range l.ctx.Arguments {
		l.own(a)
	}
	for _, a := range l.ctx.StateData {
		l.own(a)
	}
	l.own(l.ctx.EntryID)
	if l.ctx.AssetID != nil {
		l.own(*l.ctx.AssetID)
	}
	if l.ctx.SpentOutputID != nil {
		l.own(*l.ctx.SpentOutputID)
	}
	if l.ctx.TxSigHash != nil {
		l.own(l.ctx.TxSigHash())
	}
	return l
}

// layoutB puts every byte string of the case into one buffer.
func layoutB(t *tcase, r *Rng) *layout {
	cs := t.cs
	l := &layout{}
	var items [][]byte
	items = append(items, cs.Code)
	items = append(items, cs.Args...)
	items = append(items, cs.State...)
	items = append(items, cs.EntryID)
	if cs.AssetID != nil {
		items = append(items, *cs.AssetID)
	}
	if cs.SpentID != nil {
		items = append(items, *cs.SpentID)
	}
	if cs.SigHash != nil {
		items = append(items, cs.SigHash)
	}
	aliased := func(i int) (alias, bool) {
		if i >= 1 && i <= len(cs.Args) {
			al, ok := t.argAl[i-1]
			return al, ok
		}
		return alias{}, false
	}
	descs := make([][3]int, len(items))
	slices := make([][]byte, len(items))
	var buf []byte
	if t.decoder {
		var w bytes.Buffer
		for i, it := range items {
			if _, ok := aliased(i); ok {
				continue
			}
			blockchain.WriteVarstr31(&w, it)
		}
		w.Write(r.Bytes(r.Intn(9))) // the rest of the transaction
		buf = exact(w.Bytes())
		rd := blockchain.NewReader(buf)
		for i := range items {
			if _, ok := aliased(i); ok {
				continue
			}
			s, err := blockchain.ReadVarstr31(rd)
			if err != nil {
				panic(err)
			}
			slices[i] = s
			if s == nil {
				descs[i] = [3]int{-1, 0, 0}
			} else {
				descs[i] = [3]int{len(buf) - cap(s), len(s), cap(s)}
			}
		}
	} else {
		offs := make([]int, len(items))
		for i, it := range items {
			if _, ok := aliased(i); ok {
				continue
			}
			buf = append(buf, r.Bytes(r.Intn(4))...)
			offs[i] = len(buf)
			buf = append(buf, it...)
		}
		buf = append(buf, r.Bytes(r.Intn(12))...)
		buf = exact(buf)
		for i, it := range items {
			if _, ok := aliased(i); ok {
				continue
			}
			c := len(it)
			switch r.Intn(3) {
			case 0:
				c = len(buf) - offs[i]
			case 1:
				c = len(it) + r.Intn(len(buf)-offs[i]-len(it)+1)
			}
			slices[i] = buf[offs[i] : offs[i]+len(it) : offs[i]+c]
			descs[i] = [3]int{offs[i], len(it), c}
		}
	}
	for i := range items {
		if al, ok := aliased(i); ok {
			src := descs[al.src]
			n := len(items[i])
			// a window of the source item; capacity the Go way (to the end of the source's capacity)
			slices[i] = slices[al.src][al.off : al.off+n]
			descs[i] = [3]int{src[0] + al.off, n, src[2] - al.off}
		}
	}
	l.bufs = [][]byte{buf}
	l.pristine = [][]byte{exact(buf)}
	k := 0
	next := func() ([]byte, [3]int) { k++; return slices[k-1], descs[k-1] }
	ctx := &vm.Context{VMVersion: cs.VMVersion, TxVersion: cs.TxVersion, BlockHeight: cs.Height, Amount: cs.Amount, DestPos: cs.DestPos}
	ctx.Code, l.code = next()
	for range cs.Args {
		s, d := next()
		ctx.Arguments = append(ctx.Arguments, s)
		l.args = append(l.args, d)
	}
	for range cs.State {
		s, d := next()
		ctx.StateData = append(ctx.StateData, s)
		l.state = append(l.state, d)
	}
	ctx.EntryID, l.entry = next()
	if cs.AssetID != nil {
		s, d := next()
		ctx.AssetID, l.asset = &s, &d
	}
	if cs.SpentID != nil {
		s, d := next()
		ctx.SpentOutputID, l.spent = &s, &d
	}
	if cs.SigHash != nil {
		s, d := next()
		ctx.TxSigHash, l.sh = func() []byte { return s }, &d
	}
	if cs.HasCO {
		ctx.CheckOutput = vmlib.TestCheckOutput
	}
	l.ctx = ctx
	return l
}

func (l *layout) changed() string {
	for i, b := range l.bufs {
		if !bytes.Equal(b, l.pristine[i]) {
			for j := range b {
				if b[j] != l.pristine[i][j] {
					return fmt.Sprintf("caller buffer %d changed at byte %d of %d: %02x -> %02x", i, j, len(b), l.pristine[i][j], b[j])
				}
			}
		}
	}
	return ""
}

func globalsBroken() string {
	t := vm.BoolBytes(true)
	if len(t) != 1 || t[0] != 1 {
		return fmt.Sprintf("vm.BoolBytes(true) = %x", t)
	}
	if full := t[:cap(t)]; !bytes.Equal(full, append([]byte{1}, make([]byte, cap(t)-1)...)) {
		return fmt.Sprintf("backing array of trueBytes = %x", full)
	}
	if f := vm.BoolBytes(false); len(f) != 0 {
		return fmt.Sprintf("vm.BoolBytes(false) = %x", f)
	}
	return ""
}

// ---------------------------------------------------------------- runs

type rawObs struct {
	gas   int64
	err   string
	trace string
}

func rawVerify(ctx *vm.Context, gas int64) rawObs {
	var buf bytes.Buffer
	vm.TraceOut = &buf
	g, err := vm.Verify(ctx, gas)
	vm.TraceOut = nil
	return rawObs{g, vmlib.ErrClass(err), buf.String()}
}

type stepObs struct {
	gas   int64
	err   string
	steps []string // per top-level step: data stack | alt stack (values)
}

func hookRun(ctx *vm.Context, gas int64, isolate bool) stepObs {
	var o stepObs
	between := func(d, a [][]byte) {
		var sb strings.Builder
		for _, x := range d {
			fmt.Fprintf(&sb, "%x,", x)
		}
		sb.WriteString("|")
		for _, x := range a {
			fmt.Fprintf(&sb, "%x,", x)
		}
		o.steps = append(o.steps, sb.String())
		if isolate {
			for i := range d {
				d[i] = exact(d[i])
			}
			for i := range a {
				a[i] = exact(a[i])
			}
		}
	}
	g, err := vm.VerifRunWith(ctx, gas, between)
	o.gas, o.err = g, vmlib.ErrClass(err)
	return o
}

// ---------------------------------------------------------------- generator

type pgen struct {
	r     *Rng
	p     []byte
	depth int
	alt   int
	ctx   bool // context opcodes usable
	level int
}

func (g *pgen) small(n int) {
	if n == 0 {
		g.p = append(g.p, 0x00)
	} else {
		g.p = append(g.p, byte(0x50+n))
	}
	g.depth++
}
func (g *pgen) data(b []byte) {
	g.p = append(g.p, vm.PushDataBytes(b)...)
	g.depth++
}
func (g *pgen) op(b byte, pops, pushes int) {
	g.p = append(g.p, b)
	g.depth += pushes - pops
	if g.depth < 0 {
		g.depth = 0
	}
}

func (g *pgen) predicate(n int) []byte {
	sub := &pgen{r: g.r, depth: n, ctx: g.ctx, level: g.level + 1}
	k := 1 + g.r.Intn(6)
	for i := 0; i < k; i++ {
		sub.inst()
	}
	if g.r.Chance(60) {
		sub.small(1)
	}
	return sub.p
}

func (g *pgen) inst() {
	r := g.r
	d := g.depth
	switch x := r.Intn(100); {
	case x < 12: // pushes
		switch r.Intn(5) {
		case 0:
			g.small(r.Intn(17))
		case 1, 2:
			g.data(r.Bytes(1 + r.Intn(6)))
		case 3:
			g.data(r.Bytes(r.Intn(90)))
		default:
			g.data(vmlib.Item(r))
		}
	case x < 24: // same descriptor again
		switch k := r.Intn(8); {
		case k == 0 && d >= 1:
			g.op(0x76, 0, 1) // DUP
		case k == 1 && d >= 2:
			g.op(0x78, 0, 1) // OVER
		case k == 2 && d >= 1:
			g.small(r.Intn(d))
			g.op(0x79, 1, 1) // PICK
		case k == 3 && d >= 2:
			g.op(0x6e, 0, 2) // 2DUP
		case k == 4 && d >= 3:
			g.op(0x6f, 0, 3) // 3DUP
		case k == 5 && d >= 4:
			g.op(0x70, 0, 2) // 2OVER
		case k == 6 && d >= 1:
			g.op(0x73, 0, 1) // IFDUP (maybe)
		case k == 7 && d >= 2:
			g.op(0x7d, 0, 1) // TUCK
		default:
			g.data(r.Bytes(2 + r.Intn(5)))
		}
	case x < 38: // sub-slices
		if d < 1 {
			g.data(r.Bytes(3 + r.Intn(6)))
			return
		}
		switch r.Intn(3) {
		case 0:
			g.small(r.Intn(3))
			g.op(0x80, 2, 1) // LEFT
		case 1:
			g.small(r.Intn(3))
			g.op(0x81, 2, 1) // RIGHT
		default:
			g.small(r.Intn(2))
			g.small(r.Intn(2))
			g.op(0x7f, 3, 1) // SUBSTR
		}
	case x < 52: // CAT family
		if d < 2 || r.Chance(40) {
			g.data(r.Bytes(r.Intn(4)))
		}
		if g.depth < 2 {
			g.data(r.Bytes(1 + r.Intn(3)))
		}
		if r.Chance(80) {
			g.op(0x7e, 2, 1)
		} else {
			g.op(0x89, 2, 1)
		}
	case x < 60: // bitwise / allocation
		switch k := r.Intn(5); {
		case k == 0 && d >= 1:
			g.op(0x83, 1, 1)
		case k >= 1 && k <= 3 && d >= 2:
			g.op(byte(0x84+k-1), 2, 1)
		case d >= 1:
			g.op(0x82, 0, 1) // SIZE
		default:
			g.small(1)
		}
	case x < 70: // booleans: results are the global trueBytes / fresh empty
		switch k := r.Intn(7); {
		case k == 0 && d >= 2:
			g.op(0x87, 2, 1) // EQUAL
		case k == 1 && d >= 1:
			g.op(0x76, 0, 1)
			g.op(0x87, 2, 1) // DUP EQUAL -> TRUE
		case k == 2:
			g.small(r.Intn(3))
			g.op(0x91, 1, 1) // NOT
		case k == 3:
			g.small(r.Intn(3))
			g.small(r.Intn(3))
			g.op(byte(0x9c+r.Intn(7)), 2, 1)
			if r.Chance(20) {
				g.p[len(g.p)-1] = 0x9a + byte(r.Intn(2))
			}
		case k == 4:
			g.small(r.Intn(4))
			g.op(0x92, 1, 1) // 0NOTEQUAL
		case k == 5:
			g.small(1)
			g.small(0)
			g.op(0x80, 2, 1) // TRUE 0 LEFT
		default:
			g.small(1)
		}
	case x < 80: // moves
		switch k := r.Intn(9); {
		case k == 0 && d >= 2:
			g.op(0x7c, 0, 0)
		case k == 1 && d >= 3:
			g.op(0x7b, 0, 0)
		case k == 2 && d >= 1:
			g.op(0x6b, 1, 0)
			g.alt++
		case k == 3 && g.alt >= 1:
			g.op(0x6c, 0, 1)
			g.alt--
		case k == 4 && d >= 4:
			g.op(0x72, 0, 0)
		case k == 5 && d >= 6:
			g.op(0x71, 0, 0)
		case k == 6 && d >= 1:
			g.small(r.Intn(d))
			g.op(0x7a, 1, 0) // ROLL
		case k == 7 && d >= 2:
			g.op(0x77, 1, 0) // NIP
		case k == 8 && d >= 1:
			g.op(0x75, 1, 0) // DROP
		default:
			g.small(2)
		}
	case x < 86: // context strings (the caller's buffers go on the stack)
		if !g.ctx {
			g.op(0xc4, 0, 1)
			return
		}
		g.op([]byte{0xc4, 0xca, 0xc2, 0xcb, 0xae, 0xc3, 0xc9, 0xcd}[r.Intn(8)], 0, 1)
	case x < 90: // numbers and hashes
		switch k := r.Intn(5); {
		case k == 0 && d >= 1:
			g.op([]byte{0xa8, 0xaa, 0xab}[r.Intn(3)], 1, 1)
		case k == 1:
			g.small(r.Intn(17))
			g.small(r.Intn(17))
			g.op([]byte{0x93, 0x94, 0x95, 0xa3, 0xa4}[r.Intn(5)], 2, 1)
		case k == 2:
			g.small(r.Intn(17))
			g.op([]byte{0x8b, 0x8c, 0x8d, 0x8e}[r.Intn(4)], 1, 1)
		default:
			g.op(0x74, 0, 1) // DEPTH
		}
	case x < 94 && g.level < 2: // CHECKPREDICATE
		n := 0
		if d > 0 {
			n = r.Intn(d + 1)
		}
		eff := n
		if n == 0 {
			eff = d
		}
		g.small(n % 17)
		g.data(g.predicate(eff))
		if r.Chance(70) {
			g.small(0)
		} else {
			g.data(vm.Uint64Bytes(uint64(20 + r.Intn(400))))
		}
		g.op(0xc0, 3+eff, 1)
	case x < 96: // forward jump over one instruction
		if r.Chance(50) {
			g.small(r.Intn(2))
			g.depth--
			g.p = append(g.p, 0x64)
		} else {
			g.p = append(g.p, 0x63)
		}
		at := len(g.p)
		g.p = append(g.p, 0, 0, 0, 0)
		g.inst()
		binary.LittleEndian.PutUint32(g.p[at:], uint32(len(g.p)))
	case x < 97 && d >= 1:
		g.op(0x69, 1, 0) // VERIFY
	default:
		g.data(r.Bytes(1 + r.Intn(8)))
	}
}

func genCase(r *Rng) *tcase {
	t := &tcase{argAl: map[int]alias{}, decoder: r.Chance(60)}
	cs := &vmlib.Case{VMVersion: 1, EntryID: r.Bytes(32)}
	t.cs = cs
	hasCtx := r.Chance(75)
	if hasCtx {
		cs.Height = vmlib.U64(r.Next() >> uint(r.Intn(64)))
		cs.AssetID = vmlib.Bp(r.Bytes(32))
		cs.Amount = vmlib.U64(r.Next() >> uint(r.Intn(64)))
		cs.DestPos = vmlib.U64(uint64(r.Intn(5)))
		cs.SpentID = vmlib.Bp(r.Bytes(32))
		cs.SigHash = r.Bytes(32)
		cs.HasCO = true
	}
	switch r.Intn(3) {
	case 0:
		cs.TxVersion = vmlib.U64(1)
	case 1:
		cs.TxVersion = vmlib.U64(2)
	}
	nargs := r.Intn(5)
	for i := 0; i < nargs; i++ {
		switch r.Intn(6) {
		case 0:
			cs.Args = append(cs.Args, vmlib.Item(r))
		case 1:
			cs.Args = append(cs.Args, []byte{})
		default:
			cs.Args = append(cs.Args, r.Bytes(1+r.Intn(12)))
		}
	}
	for i := r.Intn(3); i > 0; i-- {
		cs.State = append(cs.State, r.Bytes(r.Intn(10)))
	}
	malformed := r.Chance(12)
	if malformed {
		t.kind = "malformed"
		switch r.Intn(3) {
		case 0:
			cs.Code = r.Bytes(1 + r.Intn(12))
		case 1:
			g := &pgen{r: r, depth: nargs, ctx: hasCtx}
			for i := 2 + r.Intn(6); i > 0; i-- {
				g.inst()
			}
			cs.Code = g.p[:len(g.p)-r.Intn(len(g.p))]
		default:
			// boundary operands for PICK / ROLL / LEFT / RIGHT / SUBSTR
			g := &pgen{r: r, depth: nargs, ctx: hasCtx}
			g.data(r.Bytes(r.Intn(9)))
			g.data(vmlib.Item(r))
			g.op([]byte{0x79, 0x7a, 0x80, 0x81, 0x7f, 0xc0}[r.Intn(6)], 1, 0)
			cs.Code = g.p
		}
	} else {
		t.kind = "structured"
		g := &pgen{r: r, depth: nargs, alt: len(cs.State), ctx: hasCtx}
		for i := 3 + r.Intn(18); i > 0; i-- {
			g.inst()
		}
		if r.Chance(50) {
			g.small(1)
		}
		cs.Code = g.p
	}
	// some arguments are windows of the program or of an earlier argument
	for i := 0; i < nargs; i++ {
		if !r.Chance(25) {
			continue
		}
		src := r.Intn(i + 1) // 0 = code, k = argument k-1 (must not itself be an alias: keep one level)
		if src > 0 {
			if _, al := t.argAl[src-1]; al {
				continue
			}
		}
		var sv []byte
		if src == 0 {
			sv = cs.Code
		} else {
			sv = cs.Args[src-1]
		}
		if len(sv) == 0 {
			continue
		}
		off := r.Intn(len(sv))
		n := r.Intn(len(sv) - off + 1)
		cs.Args[i] = exact(sv[off : off+n])
		t.argAl[i] = alias{src, off}
	}
	cs.Gas = []int64{2000, 10000, 50000, 100000}[r.Intn(4)]
	if r.Chance(6) {
		cs.Gas = int64(r.Intn(300))
	}
	if r.Chance(2) {
		cs.VMVersion = 2
	}
	return t
}

// the three historical witnesses (CAT appending in place)
func corpus() []*tcase {
	mk := func(code string, args ...string) *tcase {
		c, _ := hex.DecodeString(code)
		cs := &vmlib.Case{VMVersion: 1, EntryID: make([]byte, 32), Code: c, Gas: 10000}
		for _, a := range args {
			b, _ := hex.DecodeString(a)
			cs.Args = append(cs.Args, b)
		}
		return &tcase{cs: cs, argAl: map[int]alias{}, kind: "corpus", decoder: true}
	}
	return []*tcase{
		mk("7c"+"02eeff"+"7e"+"7c"+"51", "a1a2a3", "b1b2b3b4"), // SWAP <eeff> CAT SWAP 1: neighbouring argument
		mk("76"+"51"+"80"+"01ee"+"7e"+"7c"+"51", "c1c2c3c4"),    // DUP 1 LEFT <ee> CAT SWAP 1: sibling copy
		mk("76"+"51"+"80"+"01ee"+"89"+"7c"+"51", "c1c2c3c4"),    // same with CATPUSHDATA
		mk("c4" + "52" + "80" + "01ee" + "7e" + "51"),           // PROGRAM 2 LEFT <ee> CAT: the program buffer itself
		// a value against a proper prefix / window of itself that shares its memory: values are
		// compared as byte strings, never as buffers
		mk("76"+"52"+"80"+"87"+"91", "c1c2c3c4"),                // DUP 2 LEFT EQUAL NOT
		mk("76"+"54"+"80"+"88"+"51", "c1c2c3c4c5"),              // DUP 4 LEFT EQUALVERIFY 1 (must fail)
		mk("76"+"00"+"53"+"7f"+"87"+"91", "d1d2d3d4d5d6"),       // DUP 0 3 SUBSTR EQUAL NOT
		mk("76"+"53"+"80"+"78"+"87"+"91", "e1e2e3e4"),           // DUP 3 LEFT OVER EQUAL NOT
		mk("6e"+"51"+"80"+"87"+"91", "a1a2a3", "a1a2a3"),        // 2DUP 1 LEFT EQUAL NOT
		mk("76"+"54"+"80"+"87", "c1c2c3c4"),                     // DUP 4 LEFT EQUAL (whole value: TRUE)
		// last, because a failure here destroys the process-wide constant and ends the run:
		mk("5151870080" + "0100" + "7e" + "51" + "51" + "87"), // 1 1 EQUAL 0 LEFT <00> CAT 1 1 EQUAL: TRUE must still be 01
	}
}

// ---------------------------------------------------------------- Coq printing

func dstr(d [3]int, bufID int) string {
	if d[0] < 0 {
		return "(D 0 0 0 0)"
	}
	return fmt.Sprintf("(D %d %d %d %d)", bufID, d[0], d[1], d[2])
}
func dlist(ds [][3]int) string {
	var s []string
	for _, d := range ds {
		s = append(s, dstr(d, 1))
	}
	return CoqList(s)
}
func dopt(d *[3]int) string {
	if d == nil {
		return "None"
	}
	return "(Some " + dstr(*d, 1) + ")"
}
func optN(p *uint64) string {
	if p == nil {
		return "None"
	}
	return fmt.Sprintf("(Some %d%%N)", *p)
}

// the "(mk_crypto …)" argument vmlib prints (hash / signature tables over every item the run touched)
func cryptoOf(cs *vmlib.Case, o *vmlib.Obs, trace string) string {
	// SHA3 is evaluated in Coq; the tables are needed only when SHA256 / HASH160 / signature checks ran
	if !strings.Contains(trace, " SHA256") && !strings.Contains(trace, " HASH160") && !strings.Contains(trace, " CHECKSIG") && !strings.Contains(trace, " CHECKMULTISIG") {
		return "(mk_crypto [] [] [])"
	}
	s := vmlib.CoqModel(cs, o)
	i := strings.Index(s, "(mk_crypto")
	depth := 0
	for j := i; j < len(s); j++ {
		switch s[j] {
		case '(':
			depth++
		case ')':
			depth--
			if depth == 0 {
				return s[i : j+1]
			}
		}
	}
	panic("mk_crypto not found")
}

func coqModel(t *tcase, l *layout, o *vmlib.Obs, trace string) string {
	cs := t.cs
	mcx := fmt.Sprintf("(mk_mcontext %d%%N %s %s %s %s %s %s %s %s %s %s (D 0 0 1 1))", cs.VMVersion, dstr(l.code, 1), dstr(l.entry, 1),
		optN(cs.TxVersion), optN(cs.Height), dopt(l.asset), optN(cs.Amount), optN(cs.DestPos), dopt(l.spent), dopt(l.sh), CoqBool(cs.HasCO))
	heap := CoqList([]string{"[1]%N", CoqBytes(l.pristine[0])})
	return fmt.Sprintf("mem_case %s %s %s %s %s %s", cryptoOf(cs, o, trace), mcx, heap, dlist(l.state), dlist(l.args), CoqZ(cs.Gas))
}

func coqObs(o *vmlib.Obs, l *layout) string {
	s := vmlib.CoqObs(o)
	s = strings.NewReplacer("o_gas", "mo_gas", "o_err", "mo_err", "o_stack", "mo_stack", "o_trace", "mo_trace", "o_steps", "mo_steps").Replace(s)
	t := vm.BoolBytes(true)
	caller := CoqList([]string{CoqBytes(t[:cap(t)]), CoqBytes(l.bufs[0])})
	return strings.TrimSuffix(s, " |}") + "; mo_caller := " + caller + " |}"
}

// ---------------------------------------------------------------- main loop

func run(c *Ctx) error {
	n := c.N(2000, 12000)
	cases := corpus()
	for i := 0; i < n; i++ {
		cases = append(cases, genCase(c.Rng))
	}
	evalEvery := 2 // every second case also goes through the Coq model
	if c.Thorough() {
		evalEvery = 4 // every fourth case also goes through the Coq model
	}
	for idx, t := range cases {
		cs := t.cs
		la, lb := layoutA(cs), layoutB(t, c.Rng)
		desc := map[string]interface{}{"code": hex.EncodeToString(cs.Code), "gas": cs.Gas, "kind": t.kind}
		var hx []string
		for _, a := range cs.Args {
			hx = append(hx, hex.EncodeToString(a))
		}
		desc["args"] = hx
		if dis, e := vm.Disassemble(cs.Code); e == nil {
			desc["asm"] = dis
		}
		desc["layoutB"] = map[string]interface{}{"buffer": hex.EncodeToString(lb.pristine[0]), "code": lb.code, "args": lb.args, "state": lb.state, "decoder": t.decoder}
		fail := func(class, what string) {
			c.Stats.Fail("class="+class+": "+what, desc)
		}
		fatal := false
		check := func(l *layout, name string) {
			if w := l.changed(); w != "" {
				fail("caller-buffer", "running the program under layout "+name+" changed the caller's memory: "+w)
			}
			if w := globalsBroken(); w != "" {
				fail("global-constant", "after the run under layout "+name+": "+w)
				fatal = true
			}
		}
		ra := rawVerify(la.ctx, cs.Gas)
		check(la, "A")
		var rb rawObs
		var ob *vmlib.Obs
		if !fatal {
			rb = rawVerify(lb.ctx, cs.Gas)
			check(lb, "B")
		}
		if !fatal {
			if ra.gas != rb.gas || ra.err != rb.err {
				fail("layout-dependence", fmt.Sprintf("independent buffers: gas %d err %q; sub-slices of one buffer: gas %d err %q", ra.gas, ra.err, rb.gas, rb.err))
			} else if ra.trace != rb.trace {
				fail("layout-dependence", "same result but the step traces (stack contents) differ between independent buffers and sub-slices of one buffer: "+firstDiff(ra.trace, rb.trace))
			}
			// per-step values with sharing (layout B) against the run in which no two items share memory
			li := layoutA(cs)
			hi := hookRun(li.ctx, cs.Gas, true)
			check(li, "I")
			hb := hookRun(lb.ctx, cs.Gas, false)
			check(lb, "B(hook)")
			if !fatal {
				if hi.gas != hb.gas || hi.err != hb.err {
					fail("cross-item", fmt.Sprintf("with every stack item in its own buffer: gas %d err %q; with shared buffers: gas %d err %q", hi.gas, hi.err, hb.gas, hb.err))
				} else {
					for k := range hi.steps {
						if k >= len(hb.steps) || hi.steps[k] != hb.steps[k] {
							w := "missing"
							if k < len(hb.steps) {
								w = hb.steps[k]
							}
							fail("cross-item", fmt.Sprintf("after instruction %d the stacks are %s when items share buffers but %s when every item has its own buffer", k, w, hi.steps[k]))
							break
						}
					}
				}
			}
		}
		if !fatal {
			ob = vmlib.RunCtx(cs, lb.ctx)
			check(lb, "B(trace)")
		}
		if fatal {
			// the process-wide constants are gone: later cases would be garbage
			c.Stats.Count("aborted_after_global_corruption")
			break
		}
		key := fmt.Sprintf("%x|%x|%x|%d|%v", cs.Code, cs.Args, cs.State, cs.Gas, lb.args)
		c.Stats.Case(key, len(ob.Trace) >= 3)
		c.Stats.Count("kind_" + t.kind)
		if t.decoder {
			c.Stats.Count("layoutB_decoder")
		} else {
			c.Stats.Count("layoutB_random_caps")
		}
		if len(t.argAl) > 0 {
			c.Stats.Count("overlapping_argument_windows")
		}
		if ob.Err == "" {
			c.Stats.Count("ok")
		} else {
			c.Stats.Count(ob.Err)
		}
		switch k := len(ob.Trace); {
		case k < 3:
			c.Stats.Count("steps_0_2")
		case k < 10:
			c.Stats.Count("steps_3_9")
		default:
			c.Stats.Count("steps_10plus")
		}
		for _, ln := range strings.Split(rb.trace, "\n") {
			if strings.HasPrefix(ln, "vm ") {
				f := strings.Fields(ln)
				if len(f) >= 7 {
					c.Stats.Count("op_" + f[6])
				}
			}
		}
		if idx%500 == 7 || t.kind == "corpus" {
			c.Stats.Sample(desc)
		}
		if strings.HasPrefix(ob.Err, "EOther") {
			fail("unknown-error", "error outside the VM error set: "+ob.Err)
			continue
		}
		if t.kind == "corpus" || idx%evalEvery == 0 {
			id := c.Cases.Add(coqModel(t, lb, ob, rb.trace), coqObs(ob, lb))
			c.Stats.CaseIndex[fmt.Sprint(id)] = desc
		}
	}
	c.Stats.Distribution["model_evaluated"] = c.Cases.Len()
	c.Stats.Rule = "programs of 3..25 instructions drawn from an alphabet weighted towards operations that share or allocate memory (DUP OVER PICK 2DUP 3DUP 2OVER IFDUP TUCK, LEFT RIGHT SUBSTR, CAT CATPUSHDATA, INVERT AND OR XOR, TOALTSTACK FROMALTSTACK, SWAP ROT ROLL NIP, boolean results = the global TRUE, context strings PROGRAM ENTRYID ASSET OUTPUTID TXSIGHASH, hashes, CHECKPREDICATE with generated predicates, forward jumps) on 0..4 arguments and 0..2 state items, plus a malformed stream (random bytes, truncated programs, boundary operands); each run under independent buffers, under one shared buffer (real decoder layout or random capacities; some arguments are windows of the program / of other arguments) and with every stack item isolated; distinct = distinct (program, arguments, state, gas, layout-B descriptors); non-trivial = at least 3 top-level instructions executed"
	c.Cases.Shard = 100
	return c.Cases.Write(c.Out, vmlib.Header+"From C06 Require Import VMmem Run.\n", "memobs", "memobs_eqb")
}

func firstDiff(a, b string) string {
	la, lb := strings.Split(a, "\n"), strings.Split(b, "\n")
	for i := range la {
		if i >= len(lb) || la[i] != lb[i] {
			o := ""
			if i < len(lb) {
				o = lb[i]
			}
			return fmt.Sprintf("line %d: %q vs %q", i, la[i], o)
		}
	}
	return "length"
}
