package main

import "fmt"

var children = map[string]func([]string) int{}

func childMain(args []string) int {
	if len(args) == 0 {
		return 2
	}
	f, ok := children[args[0]]
	if !ok {
		fmt.Println("unknown child", args[0])
		return 2
	}
	return f(args[1:])
}
