package main

// C26 — UTXO reservations never overlap and cover the request (account/utxo_keeper.go).
//
// Each case: a small set of outputs (labels 1..n; two accounts, two assets, three
// vote keys; small amounts with many ties, or large ones; mature / immature around
// the current height) placed in the wallet DB ("ACU:"), the contract DB ("SCU:"),
// the unconfirmed map, or in BOTH the DB and the unconfirmed map (the state between
// the wallet attaching a block and the pool's removal event), and a sequence of
// Reserve / ReserveParticular / Cancel / expireReservation calls interleaved with
// wallet and chain events (AddUnconfirmedUtxo, RemoveUnconfirmedUtxo, DB put/delete,
// height changes), applied to a real utxoKeeper over a MemDB (hook
// account/utxo_keeper_verif.go).
//
// Direct oracle, on the implementation's outputs only (the harness keeps its own
// record of what it put into the DB and the unconfirmed map):
//   * every successful reservation holds pairwise distinct outputs, each one a known
//     output of the requested account/asset/vote that is in the DB (or unconfirmed map,
//     when allowed), mature at the current height and not reserved before the call;
//     the sum of their true amounts reaches the request and change = sum - request;
//   * Insufficient / Immature / Reserved / success are returned exactly when the
//     total / mature / mature-unreserved funds fall short / suffice, in that order;
//     ReserveParticular: Reserved / not found / Immature / success likewise;
//   * after every operation the live reservations are pairwise disjoint and the
//     reserved map has exactly their outputs, each mapped to its reservation.
// The same operation lists (keeper operations only) are then replayed split over 4
// goroutines on a fresh keeper; the scheduling-independent parts of the oracle run
// on every result and on snapshots taken during and after the run.
//
// Correspondence: per-operation results, the final reserved map, reservations and
// unconfirmed labels against the Coq model C26.Run.run_case.  sort.Slice is not
// stable and its input order comes from a Go map, so the order among equal amounts
// is reconstructed from the observed result and handed to the model as the explicit
// permutation argument of OReserve (the theorems hold for every such permutation).

import (
	"crypto/sha256"
	"encoding/hex"
	"encoding/json"
	"fmt"
	"math/big"
	"os"
	"os/exec"
	"sort"
	"strconv"
	"strings"
	"sync"
	"sync/atomic"
	"time"

	"github.com/bytom/bytom/account"
	dbm "github.com/bytom/bytom/database/leveldb"
	"github.com/bytom/bytom/errors"
	"github.com/bytom/bytom/protocol/bc"
	"verifharness/c24/wsim"
	. "verifharness/hlib"
)

func main() {
	Main("C26", runC26, map[string]func([]string) int{"stress": stressChild, "batch": wsim.ChildBatch})
}

// ---- vocabulary -------------------------------------------------------------------

var baseTime = time.Unix(4102444800, 0) // 2100-01-01: the keeper's own 1s worker (wall clock) never expires anything

func tick(t int) time.Time { return baseTime.Add(time.Duration(t) * time.Second) }

func outHash(label int) bc.Hash {
	var b [32]byte
	h := sha256.Sum256([]byte(fmt.Sprintf("c26-output-%d", label)))
	copy(b[:], h[:])
	return bc.NewHash(b)
}

func acctName(l int) string { return fmt.Sprintf("acct-%d", l) }
func assetOf(l int) bc.AssetID {
	return bc.AssetID{V0: uint64(l), V1: 7, V2: 7, V3: uint64(l) * 31}
}

// vote variants: 0 = nil, 1 = empty non-nil (equal to nil for bytes.Equal: label 0), 2, 3 = keys
func voteBytes(variant int) []byte {
	switch variant {
	case 0:
		return nil
	case 1:
		return []byte{}
	case 2:
		return []byte{0xaa, 0x01}
	default:
		return []byte{0xaa, 0x02}
	}
}
func voteLabel(variant int) int {
	if variant <= 1 {
		return 0
	}
	return variant - 1
}

type uspec struct {
	label   int
	acct    int
	asset   int
	voteVar int
	amount  uint64
	vh      uint64
}

func (u uspec) utxo() *account.UTXO {
	return &account.UTXO{
		OutputID:       outHash(u.label),
		SourceID:       outHash(1000 + u.label),
		AssetID:        assetOf(u.asset),
		Amount:         u.amount,
		SourcePos:      uint64(u.label),
		ControlProgram: []byte{0x00, 0x14, byte(u.label)},
		Vote:           voteBytes(u.voteVar),
		AccountID:      acctName(u.acct),
		Address:        fmt.Sprintf("addr-%d", u.label),
		ValidHeight:    u.vh,
	}
}
func (u uspec) coq() string {
	return fmt.Sprintf("(U %d %d %d %d %d %d)", u.label, u.acct, u.asset, voteLabel(u.voteVar), u.amount, u.vh)
}

type opSpec struct {
	kind    string // reserve particular cancel expire addUnconf removeUnconf dbPut dbDel contractPut contractDel setHeight
	acct    int
	asset   int
	voteVar int
	amount  uint64
	uu      bool
	exp     int
	out     int    // label
	rid     uint64 // cancel
	now     int
	labels  []int
	height  uint64
	cancelK int // concurrent mode: cancel the k-th own success
}

type genCase struct {
	kind   string
	utxos  []uspec // the universe, by label-1
	conf   []int   // labels initially in the DB ("ACU:")
	contr  []int   // "SCU:"
	unc    []int   // unconfirmed
	height uint64
	ops    []opSpec
	ctor   bool // build through newUtxoKeeper (with the expiry worker)
}

// ---- the harness's own record of what it stored ------------------------------------------

type shadow struct {
	conf, contr, unc map[int]bool
	height           uint64
}

type world struct {
	g      *genCase
	db     dbm.DB
	k      *account.VerifKeeper
	height uint64 // atomic
	sh     shadow
	byHash map[bc.Hash]int
}

func newWorld(g *genCase) *world {
	w := &world{g: g, db: dbm.NewMemDB(), byHash: map[bc.Hash]int{}}
	w.height = g.height
	hf := func() uint64 { return atomic.LoadUint64(&w.height) }
	if g.ctor {
		w.k = account.VerifNewKeeper(hf, w.db)
	} else {
		w.k = account.VerifNewKeeperNoWorker(hf, w.db)
	}
	w.sh = shadow{conf: map[int]bool{}, contr: map[int]bool{}, unc: map[int]bool{}, height: g.height}
	for _, u := range g.utxos {
		w.byHash[outHash(u.label)] = u.label
	}
	for _, l := range g.conf {
		w.dbPut(l, false)
	}
	for _, l := range g.contr {
		w.dbPut(l, true)
	}
	var us []*account.UTXO
	for _, l := range g.unc {
		us = append(us, g.utxos[l-1].utxo())
		w.sh.unc[l] = true
	}
	w.k.AddUnconfirmedUtxo(us)
	return w
}

func (w *world) dbPut(l int, contract bool) {
	u := w.g.utxos[l-1].utxo()
	data, err := json.Marshal(u)
	if err != nil {
		panic(err)
	}
	if contract {
		w.db.Set(account.ContractUTXOKey(u.OutputID), data)
		w.sh.contr[l] = true
	} else {
		w.db.Set(account.StandardUTXOKey(u.OutputID), data)
		w.sh.conf[l] = true
	}
}
func (w *world) dbDel(l int, contract bool) {
	if contract {
		w.db.Delete(account.ContractUTXOKey(outHash(l)))
		delete(w.sh.contr, l)
	} else {
		w.db.Delete(account.StandardUTXOKey(outHash(l)))
		delete(w.sh.conf, l)
	}
}

func (w *world) label(h bc.Hash) int {
	if l, ok := w.byHash[h]; ok {
		return l
	}
	return 999999
}

// the funds of a request according to the harness's record: labels, each once
func (w *world) fundsOf(o opSpec) []int {
	var out []int
	vl := voteLabel(o.voteVar)
	for _, u := range w.g.utxos {
		if u.acct != o.acct || u.asset != o.asset || voteLabel(u.voteVar) != vl {
			continue
		}
		if w.sh.conf[u.label] || (o.uu && w.sh.unc[u.label]) {
			out = append(out, u.label)
		}
	}
	return out
}

// ---- results ---------------------------------------------------------------------------------

type result struct {
	kind   string // none res err panic
	id     uint64
	labels []int
	amts   []uint64
	change uint64
	code   int // 1 insufficient 2 immature 3 reserved 4 match 9 other
	expiry time.Time
}

func errCode(err error) int {
	switch errors.Root(err) {
	case account.ErrInsufficient:
		return 1
	case account.ErrImmature:
		return 2
	case account.ErrReserved:
		return 3
	case account.ErrMatchUTXO:
		return 4
	}
	return 9
}

func (w *world) mkResult(r *account.VerifReservation, err error, panicked bool) result {
	if panicked {
		return result{kind: "panic"}
	}
	if err != nil {
		return result{kind: "err", code: errCode(err)}
	}
	if r == nil {
		return result{kind: "err", code: 9}
	}
	res := result{kind: "res", id: r.ID, change: r.Change, expiry: r.Expiry}
	for _, u := range r.UTXOs {
		if u == nil {
			res.labels = append(res.labels, 999998)
			res.amts = append(res.amts, 0)
			continue
		}
		res.labels = append(res.labels, w.label(u.OutputID))
		res.amts = append(res.amts, u.Amount)
	}
	return res
}

func (w *world) doReserve(o opSpec) (res result) {
	defer func() {
		if p := recover(); p != nil {
			res = result{kind: "panic"}
		}
	}()
	asset := assetOf(o.asset)
	r, err := w.k.Reserve(acctName(o.acct), &asset, o.amount, o.uu, voteBytes(o.voteVar), tick(o.exp))
	return w.mkResult(r, err, false)
}

func (w *world) doParticular(o opSpec) (res result) {
	defer func() {
		if p := recover(); p != nil {
			res = result{kind: "panic"}
		}
	}()
	r, err := w.k.ReserveParticular(outHash(o.out), o.uu, tick(o.exp))
	return w.mkResult(r, err, false)
}

func (r result) coq() string {
	switch r.kind {
	case "none":
		return "(0, [])"
	case "res":
		l := []string{fmt.Sprint(r.id), fmt.Sprint(r.change)}
		for _, x := range r.labels {
			l = append(l, fmt.Sprint(x))
		}
		return "(1, " + CoqList(l) + ")"
	case "err":
		return fmt.Sprintf("(2, [%d])", r.code)
	default:
		return "(3, [])"
	}
}

// ---- the order among equal amounts, reconstructed from the observed picks -----------------------

// window of optUTXOs over the amounts of the available outputs (largest first): the
// final optList is always a contiguous run [f, e) of that list.  Used only to place
// the observed picks among equal amounts; the model recomputes the selection itself.
func window(A []uint64, amount uint64) (f, e int, ok bool) {
	var opt []int
	var optAmt uint64
	i := 0
	for i < len(A) {
		if optAmt < amount {
			opt = append(opt, i)
			optAmt += A[i]
			i++
			continue
		}
		if len(opt) == 0 {
			return 0, 0, false
		}
		replAmt := optAmt - A[opt[0]]
		var repl []int
		replaced := false
		for ; i < len(A) && len(repl) <= 5-len(opt); i++ {
			repl = append(repl, i)
			replAmt += A[i]
			if replAmt >= amount {
				opt = append(append([]int{}, opt[1:]...), repl...)
				optAmt = replAmt
				replaced = true
				break
			}
		}
		if !replaced {
			break
		}
		i++
	}
	if len(opt) == 0 {
		return 0, 0, true
	}
	return opt[0], opt[len(opt)-1] + 1, true
}

// sorted order (labels) of all mature candidates, consistent with the observed picks
func (w *world) sortOrder(o opSpec, reservedBefore map[int]bool, res result, c *Ctx) []int {
	amt := func(l int) uint64 { return w.g.utxos[l-1].amount }
	var avail, resd []int
	for _, l := range w.fundsOf(o) {
		if w.g.utxos[l-1].vh > w.sh.height {
			continue
		}
		if reservedBefore[l] {
			resd = append(resd, l)
		} else {
			avail = append(avail, l)
		}
	}
	sort.SliceStable(avail, func(i, j int) bool {
		if amt(avail[i]) != amt(avail[j]) {
			return amt(avail[i]) > amt(avail[j])
		}
		return avail[i] < avail[j]
	})
	final := avail
	if res.kind == "res" && len(res.labels) > 0 {
		A := make([]uint64, len(avail))
		for i, l := range avail {
			A[i] = amt(l)
		}
		f, e, ok := window(A, o.amount)
		good := ok && e-f == len(res.labels)
		if good {
			for i, l := range res.labels {
				if l < 1 || l > len(w.g.utxos) || amt(l) != A[f+i] {
					good = false
				}
			}
		}
		if good {
			picked := map[int]bool{}
			for _, l := range res.labels {
				picked[l] = true
			}
			queue := map[uint64][]int{}
			for _, l := range avail {
				if !picked[l] {
					queue[amt(l)] = append(queue[amt(l)], l)
				}
			}
			final = make([]int, len(avail))
			for p := range final {
				if p >= f && p < e {
					final[p] = res.labels[p-f]
					continue
				}
				q := queue[A[p]]
				if len(q) == 0 {
					good = false
					break
				}
				final[p] = q[0]
				queue[A[p]] = q[1:]
			}
			if good && f > 0 && e < len(avail) && A[f] == A[e-1] {
				c.Stats.Count("tie_window_strictly_inside_one_group")
			}
		}
		if !good {
			c.Stats.Count("tie_order_not_reconstructed")
			final = avail
		} else {
			c.Stats.Count("tie_order_reconstructed")
		}
	}
	all := append(append([]int{}, resd...), final...)
	sort.SliceStable(all, func(i, j int) bool { return amt(all[i]) > amt(all[j]) })
	return all
}

// ---- oracle -----------------------------------------------------------------------------------------

func bigSum(w *world, ls []int) *big.Int {
	s := new(big.Int)
	for _, l := range ls {
		s.Add(s, new(big.Int).SetUint64(w.g.utxos[l-1].amount))
	}
	return s
}

var two64 = new(big.Int).Lsh(big.NewInt(1), 64)


// scheduling-independent part: what a successful Reserve must hold
func (w *world) coverOracle(o opSpec, res result, conf, unc map[int]bool, height uint64) string {
	seen := map[int]bool{}
	sum := new(big.Int)
	vl := voteLabel(o.voteVar)
	for i, l := range res.labels {
		if l < 1 || l > len(w.g.utxos) {
			return fmt.Sprintf("class=unknown-output: reservation %d holds an output the wallet never had", res.id)
		}
		if seen[l] {
			return fmt.Sprintf("class=dup-output: reservation %d holds output %d twice (request %d)", res.id, l, o.amount)
		}
		seen[l] = true
		u := w.g.utxos[l-1]
		if u.acct != o.acct || u.asset != o.asset || voteLabel(u.voteVar) != vl {
			return fmt.Sprintf("class=foreign-output: reservation %d holds output %d of another account/asset/vote", res.id, l)
		}
		if !(conf[l] || (o.uu && unc[l])) {
			return fmt.Sprintf("class=absent-output: reservation %d holds output %d which is neither in the DB nor (allowed) unconfirmed", res.id, l)
		}
		if u.vh > height {
			return fmt.Sprintf("class=immature-output: reservation %d holds output %d valid from %d at height %d", res.id, l, u.vh, height)
		}
		if res.amts[i] != u.amount {
			return fmt.Sprintf("class=wrong-amount: output %d reported with amount %d, is %d", l, res.amts[i], u.amount)
		}
		sum.Add(sum, new(big.Int).SetUint64(u.amount))
	}
	req := new(big.Int).SetUint64(o.amount)
	if sum.Cmp(req) < 0 {
		return fmt.Sprintf("class=cover-short: reservation %d holds %s for a request of %d", res.id, sum, o.amount)
	}
	if new(big.Int).Sub(sum, req).Cmp(new(big.Int).SetUint64(res.change)) != 0 {
		return fmt.Sprintf("class=change-wrong: reservation %d holds %s for a request of %d, change %d", res.id, sum, o.amount, res.change)
	}
	if !res.expiry.Equal(tick(o.exp)) {
		return fmt.Sprintf("class=expiry-wrong: reservation %d", res.id)
	}
	return ""
}

// expected class of a Reserve from the funds (0 = success)
func (w *world) expectedClass(o opSpec, reservedBefore map[int]bool, height uint64, funds []int) (int, bool) {
	var mature, unres []int
	for _, l := range funds {
		if w.g.utxos[l-1].vh <= height {
			mature = append(mature, l)
			if !reservedBefore[l] {
				unres = append(unres, l)
			}
		}
	}
	total := bigSum(w, funds)
	if total.Cmp(two64) >= 0 {
		return 0, false // outside the stated precondition: uint64 sums wrap
	}
	req := new(big.Int).SetUint64(o.amount)
	switch {
	case total.Cmp(req) < 0:
		return 1, true
	case bigSum(w, mature).Cmp(req) < 0:
		return 2, true
	case bigSum(w, unres).Cmp(req) < 0:
		return 3, true
	}
	return 0, true
}

func classOf(res result) int {
	switch res.kind {
	case "res":
		return 0
	case "err":
		return res.code
	}
	return -1
}

func className(c int) string {
	return map[int]string{0: "success", 1: "insufficient", 2: "immature", 3: "reserved", 4: "not-found", 9: "other-error", -1: "panic"}[c]
}

// disjointness and the reserved map, on an atomic snapshot
func (w *world) snapshotOracle() (string, map[int]bool) {
	reserved, reservations := w.k.Snapshot()
	held := map[int]uint64{}
	ids := make([]uint64, 0, len(reservations))
	for id := range reservations {
		ids = append(ids, id)
	}
	sort.Slice(ids, func(i, j int) bool { return ids[i] < ids[j] })
	for _, id := range ids {
		r := reservations[id]
		if r.ID != id {
			return fmt.Sprintf("class=reservation-id: reservation stored under %d has id %d", id, r.ID), nil
		}
		for _, u := range r.UTXOs {
			l := w.label(u.OutputID)
			if other, ok := held[l]; ok {
				if other == id {
					return fmt.Sprintf("class=dup-output: live reservation %d holds output %d twice", id, l), nil
				}
				return fmt.Sprintf("class=overlap: output %d is held by the live reservations %d and %d", l, other, id), nil
			}
			held[l] = id
			if rid, ok := reserved[u.OutputID]; !ok || rid != id {
				return fmt.Sprintf("class=reserved-map: output %d of live reservation %d is not reserved for it", l, id), nil
			}
		}
	}
	rb := map[int]bool{}
	for h := range reserved {
		l := w.label(h)
		rb[l] = true
		if _, ok := held[l]; !ok {
			return fmt.Sprintf("class=reserved-map: output %d is reserved but no live reservation holds it", l), nil
		}
	}
	return "", rb
}

// ---- one sequential case ------------------------------------------------------------------------------

func (g *genCase) describe(upto int) map[string]interface{} {
	var us, ops []string
	for _, u := range g.utxos {
		us = append(us, fmt.Sprintf("out%d{acct %d asset %d vote %d amount %d validHeight %d}", u.label, u.acct, u.asset, voteLabel(u.voteVar), u.amount, u.vh))
	}
	for i, o := range g.ops {
		if i >= upto {
			break
		}
		ops = append(ops, o.String())
	}
	return map[string]interface{}{"kind": g.kind, "outputs": us, "db": g.conf, "contract_db": g.contr, "unconfirmed": g.unc,
		"height": g.height, "ops": ops, "ops_total": len(g.ops)}
}

func (o opSpec) String() string {
	switch o.kind {
	case "reserve":
		return fmt.Sprintf("Reserve(acct %d, asset %d, amount %d, useUnconfirmed %v, vote %d, exp %d)", o.acct, o.asset, o.amount, o.uu, voteLabel(o.voteVar), o.exp)
	case "particular":
		return fmt.Sprintf("ReserveParticular(out%d, useUnconfirmed %v, exp %d)", o.out, o.uu, o.exp)
	case "cancel":
		return fmt.Sprintf("Cancel(%d)", o.rid)
	case "expire":
		return fmt.Sprintf("expireReservation(%d)", o.now)
	case "setHeight":
		return fmt.Sprintf("height=%d", o.height)
	case "addUnconf", "removeUnconf":
		return fmt.Sprintf("%s%v", o.kind, o.labels)
	}
	return fmt.Sprintf("%s(out%d)", o.kind, o.out)
}

func labelsCoq(ls []int) string {
	s := make([]string, len(ls))
	for i, l := range ls {
		s[i] = fmt.Sprint(l)
	}
	return CoqList(s)
}

func runCase(c *Ctx, g *genCase) {
	w := newWorld(g)
	var obs, mops []string
	failed := ""
	nontrivial := false
	successes := 0
	fail := func(k int, what string) {
		if failed == "" {
			failed = what
			d := g.describe(k + 1)
			c.Stats.Fail(fmt.Sprintf("%s (operation %d: %s)", what, k, g.ops[k]), d)
			c.Stats.Count("oracle_failure")
		}
	}
	for k, o := range g.ops {
		c.Stats.Count("op_" + o.kind)
		res := result{kind: "none"}
		switch o.kind {
		case "reserve":
			_, rb := w.snapshotOracle()
			if rb == nil {
				rb = map[int]bool{}
			}
			funds := w.fundsOf(o)
			res = w.doReserve(o)
			c.Stats.Count("reserve_" + className(classOf(res)))
			both := 0
			for _, l := range funds {
				if w.sh.conf[l] && w.sh.unc[l] && o.uu {
					both++
				}
			}
			if both > 0 {
				c.Stats.Count("reserve_with_output_both_confirmed_and_unconfirmed")
			}
			exp, ok := w.expectedClass(o, rb, w.sh.height, funds)
			if res.kind == "res" && ok {
				successes++
				if len(res.labels) >= 2 {
					nontrivial = true
				}
				c.Stats.Count(fmt.Sprintf("reserve_success_utxos_%s", sizeClass(len(res.labels))))
				if what := w.coverOracle(o, res, w.sh.conf, w.sh.unc, w.sh.height); what != "" {
					fail(k, what)
				}
				for _, l := range res.labels {
					if rb[l] {
						fail(k, fmt.Sprintf("class=already-reserved: reservation %d takes output %d which was reserved", res.id, l))
					}
				}
			}
			switch {
			case !ok:
				c.Stats.Count("reserve_funds_sum_above_2^64_oracle_skipped")
			case o.amount == 0:
				c.Stats.Count("reserve_amount_0_class_oracle_skipped")
			case res.kind == "panic":
				fail(k, "class=panic: Reserve panicked on a request > 0")
			case classOf(res) != exp:
				fail(k, fmt.Sprintf("class=wrong-result-class: Reserve answered %s, the funds say %s", className(classOf(res)), className(exp)))
			}
			ord := w.sortOrder(o, rb, res, c)
			mops = append(mops, fmt.Sprintf("OReserve %d %d %d %s %d %d %s", o.acct, o.asset, o.amount, CoqBool(o.uu), voteLabel(o.voteVar), o.exp, labelsCoq(ord)))
		case "particular":
			_, rb := w.snapshotOracle()
			if rb == nil {
				rb = map[int]bool{}
			}
			res = w.doParticular(o)
			c.Stats.Count("particular_" + className(classOf(res)))
			exp := 0
			known := o.out >= 1 && o.out <= len(g.utxos)
			found := known && ((o.uu && w.sh.unc[o.out]) || w.sh.conf[o.out] || w.sh.contr[o.out])
			switch {
			case rb[o.out]:
				exp = 3
			case !found:
				exp = 4
			case g.utxos[o.out-1].vh > w.sh.height:
				exp = 2
			}
			if classOf(res) != exp {
				fail(k, fmt.Sprintf("class=wrong-result-class: ReserveParticular answered %s, expected %s", className(classOf(res)), className(exp)))
			}
			if res.kind == "res" {
				successes++
				if len(res.labels) != 1 || res.labels[0] != o.out || res.change != 0 || res.amts[0] != g.utxos[o.out-1].amount || !res.expiry.Equal(tick(o.exp)) {
					fail(k, fmt.Sprintf("class=particular-cover: reservation %d for output %d holds %v change %d", res.id, o.out, res.labels, res.change))
				}
			}
			mops = append(mops, fmt.Sprintf("OReserveParticular %d %s %d", o.out, CoqBool(o.uu), o.exp))
		case "cancel":
			w.k.Cancel(o.rid)
			mops = append(mops, fmt.Sprintf("OCancel %d", o.rid))
		case "expire":
			w.k.Expire(tick(o.now))
			mops = append(mops, fmt.Sprintf("OExpire %d", o.now))
		case "addUnconf":
			var us []*account.UTXO
			var cs []string
			for _, l := range o.labels {
				us = append(us, g.utxos[l-1].utxo())
				cs = append(cs, g.utxos[l-1].coq())
				w.sh.unc[l] = true
			}
			w.k.AddUnconfirmedUtxo(us)
			mops = append(mops, "OAddUnconfirmed "+CoqList(cs))
		case "removeUnconf":
			var hs []*bc.Hash
			for _, l := range o.labels {
				h := outHash(l)
				hs = append(hs, &h)
				delete(w.sh.unc, l)
			}
			w.k.RemoveUnconfirmedUtxo(hs)
			mops = append(mops, "ORemoveUnconfirmed "+labelsCoq(o.labels))
		case "dbPut":
			w.dbPut(o.out, false)
			mops = append(mops, "ODbPut "+g.utxos[o.out-1].coq())
		case "dbDel":
			w.dbDel(o.out, false)
			mops = append(mops, fmt.Sprintf("ODbDel %d", o.out))
		case "contractPut":
			w.dbPut(o.out, true)
			mops = append(mops, "OContractPut "+g.utxos[o.out-1].coq())
		case "contractDel":
			w.dbDel(o.out, true)
			mops = append(mops, fmt.Sprintf("OContractDel %d", o.out))
		case "setHeight":
			atomic.StoreUint64(&w.height, o.height)
			w.sh.height = o.height
			mops = append(mops, fmt.Sprintf("OSetHeight %d", o.height))
		}
		obs = append(obs, res.coq())
		if what, _ := w.snapshotOracle(); what != "" {
			fail(k, what)
		}
	}
	// final projection
	reserved, reservations := w.k.Snapshot()
	var rm [][2]uint64
	for h, id := range reserved {
		rm = append(rm, [2]uint64{uint64(w.label(h)), id})
	}
	sort.Slice(rm, func(i, j int) bool { return rm[i][0] < rm[j][0] })
	var rms []string
	for _, p := range rm {
		rms = append(rms, fmt.Sprintf("(%d, %d)", p[0], p[1]))
	}
	var ids []uint64
	for id := range reservations {
		ids = append(ids, id)
	}
	sort.Slice(ids, func(i, j int) bool { return ids[i] < ids[j] })
	var rss []string
	for _, id := range ids {
		r := reservations[id]
		var ls []int
		for _, u := range r.UTXOs {
			ls = append(ls, w.label(u.OutputID))
		}
		t := int64(r.Expiry.Sub(baseTime) / time.Second)
		if t < 0 || !r.Expiry.Equal(tick(int(t))) {
			t = 999999
		}
		rss = append(rss, fmt.Sprintf("(%d, (%s, (%d, %d)))", id, labelsCoq(ls), r.Change, t))
	}
	var uls []int
	for _, u := range w.k.ListUnconfirmed() {
		uls = append(uls, w.label(u.OutputID))
	}
	sort.Ints(uls)
	observed := fmt.Sprintf("(%s, (%s, (%s, %s)))", CoqList(obs), CoqList(rms), CoqList(rss), labelsCoq(uls))
	coqU := func(ls []int) string {
		var s []string
		for _, l := range ls {
			s = append(s, g.utxos[l-1].coq())
		}
		return CoqList(s)
	}
	model := fmt.Sprintf("run_case %s %s %s %d %s", coqU(g.conf), coqU(g.contr), coqU(g.unc), g.height, CoqList(parens(mops)))
	id := c.Cases.Add(model, observed)
	c.Stats.Count("model_evaluated")
	h := sha256.Sum256([]byte(model))
	c.Stats.Case(hex.EncodeToString(h[:8]), nontrivial && successes >= 2)
	c.Stats.Count("case_" + g.kind)
	c.Stats.Count("ops_len_" + sizeClass(len(g.ops)))
	c.Stats.Count("outputs_" + sizeClass(len(g.utxos)))
	overlap := 0
	inConf := map[int]bool{}
	for _, l := range g.conf {
		inConf[l] = true
	}
	for _, l := range g.unc {
		if inConf[l] {
			overlap++
		}
	}
	if overlap > 0 {
		c.Stats.Count("case_initial_output_both_confirmed_and_unconfirmed")
	}
	if failed != "" || id%(c.N(300, 3000)) == 5 {
		d := g.describe(10)
		d["final_reservations"] = len(ids)
		if failed != "" {
			c.Stats.CaseIndex[fmt.Sprint(id)] = g.describe(len(g.ops))
		}
		c.Stats.Sample(d)
	} else if id < 30 {
		c.Stats.CaseIndex[fmt.Sprint(id)] = map[string]interface{}{"kind": g.kind, "outputs": len(g.utxos), "ops_total": len(g.ops)}
	}
}

func parens(l []string) []string {
	out := make([]string, len(l))
	for i, s := range l {
		out[i] = "(" + s + ")"
	}
	return out
}

func sizeClass(n int) string {
	switch {
	case n == 0:
		return "0"
	case n == 1:
		return "1"
	case n <= 3:
		return "2_3"
	case n <= 5:
		return "4_5"
	case n <= 8:
		return "6_8"
	case n <= 15:
		return "9_15"
	case n <= 30:
		return "16_30"
	default:
		return "31_up"
	}
}

// ---- the same keeper operations, split over 4 goroutines ---------------------------------------------------

func runConcurrent(c *Ctx, g *genCase) {
	var kops []opSpec
	for _, o := range g.ops {
		switch o.kind {
		case "reserve", "particular", "expire":
			kops = append(kops, o)
		case "cancel":
			o.cancelK = int(o.rid) // cancel one of the worker's own reservations
			kops = append(kops, o)
		}
	}
	if len(kops) < 4 {
		return
	}
	c.Stats.Count("concurrent_runs")
	per := make([][]opSpec, 4)
	for i, o := range kops {
		per[i%4] = append(per[i%4], o)
	}
	concurrentRun(c, g, per, 1)
}

// stress: 4 goroutines, each a long pre-generated list of Reserve / Cancel / ReserveParticular
// on one keeper over a larger DB, released together
func runStress(c *Ctx) {
	r := c.Rng
	g := &genCase{kind: "stress", height: 100}
	n := 16 + r.Intn(12)
	for i := 1; i <= n; i++ {
		u := uspec{label: i, acct: 1, asset: 1, amount: uint64(1 + r.Intn(5))}
		if r.Chance(8) {
			u.vh = 150
		}
		g.utxos = append(g.utxos, u)
		g.conf = append(g.conf, i)
		if r.Chance(30) {
			g.unc = append(g.unc, i)
		}
	}
	per := make([][]opSpec, 4)
	for wk := range per {
		m := c.N(120, 300)
		for i := 0; i < m; i++ {
			switch p := r.Intn(100); {
			case p < 50:
				per[wk] = append(per[wk], opSpec{kind: "reserve", acct: 1, asset: 1, amount: uint64(1 + r.Intn(9)), uu: r.Chance(70), exp: 10 + r.Intn(50)})
			case p < 88:
				per[wk] = append(per[wk], opSpec{kind: "cancel", cancelK: r.Intn(1000)})
			default:
				per[wk] = append(per[wk], opSpec{kind: "particular", out: 1 + r.Intn(n), uu: r.Chance(70), exp: 10 + r.Intn(50)})
			}
		}
	}
	g.ops = nil
	concurrentRun(c, g, per, 8)
}

// The stress runs happen in a child process: unsynchronised access to the keeper's maps
// is a fatal runtime error ("concurrent map writes") that cannot be recovered, and it is
// an observable of its own.
type stressOut struct {
	Runs     int             `json:"runs"`
	Failures []OracleFailure `json:"failures"`
}

func stressChild(args []string) int {
	seed, _ := strconv.ParseUint(args[0], 10, 64)
	runs, _ := strconv.Atoi(args[1])
	c := &Ctx{Prop: "C26", Seed: seed, Tier: args[2], Rng: NewRng(seed), Stats: NewStats("C26", seed, args[2])}
	for i := 0; i < runs; i++ {
		runStress(c)
	}
	js, _ := json.Marshal(stressOut{Runs: runs, Failures: c.Stats.OracleFailures})
	fmt.Println(string(js))
	return 0
}

func stressStage(c *Ctx) error {
	seed := c.Rng.Next() >> 1
	runs := c.N(40, 150)
	cmd := exec.Command(os.Args[0], "child", "stress", fmt.Sprint(seed), fmt.Sprint(runs), c.Tier)
	var stdout, stderr strings.Builder
	cmd.Stdout, cmd.Stderr = &stdout, &stderr
	done := make(chan error, 1)
	if err := cmd.Start(); err != nil {
		return err
	}
	go func() { done <- cmd.Wait() }()
	replay := map[string]interface{}{"stage": "stress", "child_seed": seed, "runs": runs, "tier": c.Tier,
		"how": "4 goroutines x pre-generated Reserve/Cancel/ReserveParticular lists on one keeper, released together"}
	select {
	case err := <-done:
		if err != nil {
			line := "abnormal exit: " + err.Error()
			for _, l := range strings.Split(stderr.String(), "\n") {
				if strings.HasPrefix(l, "fatal error:") || strings.HasPrefix(l, "panic:") {
					line = l
					break
				}
			}
			c.Stats.Fail("class=keeper-crash: concurrent keeper calls crashed the process: "+line, replay)
			c.Stats.Count("oracle_failure")
			return nil
		}
	case <-time.After(10 * time.Minute):
		cmd.Process.Kill()
		c.Stats.Fail("class=keeper-hang: concurrent keeper calls did not finish within 10 minutes", replay)
		c.Stats.Count("oracle_failure")
		return nil
	}
	var out stressOut
	if err := json.Unmarshal([]byte(strings.TrimSpace(stdout.String())), &out); err != nil {
		return fmt.Errorf("stress child output: %v: %q", err, stdout.String())
	}
	for i := 0; i < out.Runs; i++ {
		c.Stats.Count("stress_runs")
	}
	for _, f := range out.Failures {
		c.Stats.Fail(f.What, f.Case)
		c.Stats.Count("oracle_failure")
	}
	return nil
}

func concurrentRun(c *Ctx, g *genCase, per [][]opSpec, snapEvery int) {
	w := newWorld(g)
	workers := len(per)
	start := make(chan struct{})
	var mu sync.Mutex
	var fails []string
	report := func(what string, o opSpec) {
		mu.Lock()
		fails = append(fails, fmt.Sprintf("%s (concurrent run, %s)", what, o))
		mu.Unlock()
	}
	type okRes struct {
		res       result
		cancelled bool
	}
	all := make([][]*okRes, workers)
	var wg sync.WaitGroup
	height := w.sh.height
	expireUsed := false
	for _, l := range per {
		for _, o := range l {
			if o.kind == "expire" {
				expireUsed = true
			}
		}
	}
	for wk := 0; wk < workers; wk++ {
		wg.Add(1)
		go func(wk int) {
			defer wg.Done()
			var mine []*okRes
			<-start
			for i, o := range per[wk] {
				switch o.kind {
				case "reserve":
					funds := w.fundsOf(o)
					res := w.doReserve(o)
					if res.kind == "res" {
						mine = append(mine, &okRes{res: res})
					}
					exp, ok := w.expectedClass(o, map[int]bool{}, height, funds) // as if nothing were reserved
					if ok && o.amount != 0 {
						got := classOf(res)
						// scheduling-independent: insufficient / immature are exact; reserved or success need mature funds
						if (exp == 1 || exp == 2) && got != exp || exp == 0 && got != 0 && got != 3 {
							report(fmt.Sprintf("class=wrong-result-class: Reserve answered %s, the funds say %s", className(got), className(exp)), o)
						}
						if res.kind == "res" {
							if what := w.coverOracle(o, res, w.sh.conf, w.sh.unc, height); what != "" {
								report(what, o)
							}
						}
					}
				case "particular":
					res := w.doParticular(o)
					if res.kind == "res" {
						if len(res.labels) != 1 || res.labels[0] != o.out || res.change != 0 {
							report(fmt.Sprintf("class=particular-cover: reservation %d for output %d holds %v", res.id, o.out, res.labels), o)
						}
						mine = append(mine, &okRes{res: res})
					} else if res.kind == "panic" {
						report("class=panic: ReserveParticular panicked", o)
					}
				case "cancel":
					if len(mine) > 0 {
						r := mine[o.cancelK%len(mine)]
						w.k.Cancel(r.res.id)
						r.cancelled = true
					}
				case "expire":
					w.k.Expire(tick(o.now))
				}
				if i%snapEvery == 0 {
					if what, _ := w.snapshotOracle(); what != "" {
						report(what, o)
					}
				}
			}
			all[wk] = mine
		}(wk)
	}
	close(start)
	wg.Wait()
	// final: the live reservations are exactly successes (not cancelled; possibly expired), with the same outputs
	_, reservations := w.k.Snapshot()
	byID := map[uint64]*okRes{}
	for _, mine := range all {
		for _, r := range mine {
			if byID[r.res.id] != nil {
				fails = append(fails, fmt.Sprintf("class=reservation-id: id %d returned twice (concurrent run)", r.res.id))
			}
			byID[r.res.id] = r
		}
	}
	for id, r := range reservations {
		ok := byID[id]
		if ok == nil || ok.cancelled {
			fails = append(fails, fmt.Sprintf("class=ghost-reservation: live reservation %d was never returned or was cancelled (concurrent run)", id))
			continue
		}
		if len(r.UTXOs) != len(ok.res.labels) {
			fails = append(fails, fmt.Sprintf("class=ghost-reservation: live reservation %d differs from the returned one (concurrent run)", id))
		}
	}
	if !expireUsed {
		for id, r := range byID {
			if !r.cancelled && reservations[id] == nil {
				fails = append(fails, fmt.Sprintf("class=lost-reservation: reservation %d was returned, not cancelled, and is gone (concurrent run)", id))
			}
		}
	}
	if what, _ := w.snapshotOracle(); what != "" {
		fails = append(fails, what+" (concurrent run, final)")
	}
	sort.Strings(fails)
	if len(fails) > 0 {
		d := g.describe(len(g.ops))
		var ws []string
		for wk, l := range per {
			var os []string
			for i, o := range l {
				if i >= 40 {
					os = append(os, "...")
					break
				}
				os = append(os, o.String())
			}
			ws = append(ws, fmt.Sprintf("worker %d: %s", wk, strings.Join(os, "; ")))
		}
		d["workers"] = ws
		c.Stats.Fail(fails[0], d)
		c.Stats.Count("oracle_failure")
	}
}

// ---- generators ----------------------------------------------------------------------------------------------

func genUniverse(r *Rng, c *Ctx, kind string) *genCase {
	g := &genCase{kind: kind, height: 100}
	n := 3 + r.Intn(8)
	if kind == "many-equal" {
		n = 9 + r.Intn(6)
	}
	amountOf := func() uint64 {
		switch kind {
		case "many-equal":
			return uint64(1 + r.Intn(2))
		case "large":
			return uint64(1)<<60 + uint64(r.Intn(3))
		case "overflow":
			return uint64(1)<<63 - uint64(r.Intn(3))
		}
		if r.Chance(70) {
			return uint64(1 + r.Intn(5)) // many ties
		}
		return uint64(1 + r.Intn(30))
	}
	for i := 1; i <= n; i++ {
		u := uspec{label: i, acct: 1, asset: 1, voteVar: 0, amount: amountOf()}
		if r.Chance(12) {
			u.acct = 2
		}
		if r.Chance(12) {
			u.asset = 2
		}
		switch {
		case r.Chance(10):
			u.voteVar = 2
		case r.Chance(5):
			u.voteVar = 3
		case r.Chance(10):
			u.voteVar = 1
		}
		switch {
		case r.Chance(12):
			u.vh = []uint64{101, 150, 102}[r.Intn(3)]
		case r.Chance(10):
			u.vh = []uint64{100, 50, 99}[r.Intn(3)]
		}
		g.utxos = append(g.utxos, u)
		switch p := r.Intn(100); {
		case p < 40:
			g.conf = append(g.conf, i)
		case p < 60:
			g.unc = append(g.unc, i)
		case p < 85:
			g.conf = append(g.conf, i)
			g.unc = append(g.unc, i)
		case p < 91:
			g.contr = append(g.contr, i)
		default: // appears later
		}
	}
	g.ctor = r.Chance(6)
	return g
}

func genOps(r *Rng, g *genCase, c *Ctx) {
	n := 4 + r.Intn(28)
	nextID := uint64(0) // a guess of the ids handed out (every success increments)
	expT := 10
	heights := []uint64{100, 101, 150, 99, 100}
	anyLabel := func() int { return 1 + r.Intn(len(g.utxos)) }
	for i := 0; i < n; i++ {
		p := r.Intn(100)
		switch {
		case p < 38:
			o := opSpec{kind: "reserve", acct: 1, asset: 1, voteVar: 0, uu: r.Chance(75)}
			if r.Chance(10) {
				o.acct = 2
			}
			if r.Chance(10) {
				o.asset = 2
			}
			switch {
			case r.Chance(10):
				o.voteVar = 2
			case r.Chance(4):
				o.voteVar = 3
			case r.Chance(10):
				o.voteVar = 1
			}
			var total uint64
			for _, u := range g.utxos {
				if u.acct == o.acct && u.asset == o.asset && voteLabel(u.voteVar) == voteLabel(o.voteVar) {
					total += u.amount
				}
			}
			switch q := r.Intn(100); {
			case q < 3:
				o.amount = 0
			case q < 6:
				o.amount = ^uint64(0) - uint64(r.Intn(2))
			case q < 50:
				o.amount = 1 + uint64(r.Intn(8))
				if g.kind == "large" || g.kind == "overflow" {
					o.amount = g.utxos[r.Intn(len(g.utxos))].amount + uint64(r.Intn(3)) - 1
				}
			case q < 90:
				if total > 1 {
					o.amount = 1 + r.Next()%(total/2+1)
				} else {
					o.amount = 1
				}
			default:
				o.amount = total + uint64(r.Intn(3))
			}
			expT += r.Intn(4)
			o.exp = expT + r.Intn(6)
			g.ops = append(g.ops, o)
			nextID++
		case p < 52:
			o := opSpec{kind: "particular", out: anyLabel(), uu: r.Chance(70)}
			if r.Chance(4) {
				o.out = len(g.utxos) + 1 + r.Intn(3) // unknown output
			}
			expT += r.Intn(4)
			o.exp = expT + r.Intn(6)
			g.ops = append(g.ops, o)
			nextID++
		case p < 64:
			o := opSpec{kind: "cancel"}
			switch {
			case nextID > 0 && r.Chance(85):
				o.rid = 1 + r.Next()%nextID
			case r.Chance(50):
				o.rid = 0
			default:
				o.rid = nextID + 1 + uint64(r.Intn(3))
			}
			g.ops = append(g.ops, o)
		case p < 72:
			o := opSpec{kind: "expire", now: r.Intn(expT + 12)}
			if r.Chance(10) {
				o.now = 0
			}
			g.ops = append(g.ops, o)
		case p < 78:
			o := opSpec{kind: "addUnconf"}
			for k := 0; k <= r.Intn(3); k++ {
				o.labels = append(o.labels, anyLabel())
			}
			g.ops = append(g.ops, o)
		case p < 84:
			o := opSpec{kind: "removeUnconf"}
			for k := 0; k <= r.Intn(3); k++ {
				o.labels = append(o.labels, anyLabel())
			}
			g.ops = append(g.ops, o)
		case p < 90:
			g.ops = append(g.ops, opSpec{kind: "dbPut", out: anyLabel()})
		case p < 94:
			g.ops = append(g.ops, opSpec{kind: "dbDel", out: anyLabel()})
		case p < 95:
			g.ops = append(g.ops, opSpec{kind: "contractPut", out: anyLabel()})
		case p < 96:
			g.ops = append(g.ops, opSpec{kind: "contractDel", out: anyLabel()})
		default:
			g.ops = append(g.ops, opSpec{kind: "setHeight", height: heights[r.Intn(len(heights))]})
		}
	}
}

// fixed cases that always run first
func fixedCases() []*genCase {
	var out []*genCase
	mk := func(kind string, amounts []uint64) *genCase {
		g := &genCase{kind: kind, height: 100}
		for i, a := range amounts {
			g.utxos = append(g.utxos, uspec{label: i + 1, acct: 1, asset: 1, amount: a})
			g.conf = append(g.conf, i+1)
		}
		return g
	}
	res := func(amount uint64, uu bool, exp int) opSpec {
		return opSpec{kind: "reserve", acct: 1, asset: 1, amount: amount, uu: uu, exp: exp}
	}
	// the witness of the defect: one 5-unit output both confirmed and unconfirmed, request 8
	g := mk("fixed", []uint64{5})
	g.unc = []int{1}
	g.ops = []opSpec{res(8, true, 10), res(5, true, 11), res(1, true, 12), {kind: "cancel", rid: 1}, res(5, false, 13)}
	out = append(out, g)
	// two outputs, both in both sets
	g = mk("fixed", []uint64{5, 3})
	g.unc = []int{1, 2}
	g.ops = []opSpec{res(9, true, 10), res(8, true, 11), res(1, true, 12), {kind: "expire", now: 12}, res(3, true, 20), res(5, true, 21)}
	out = append(out, g)
	// ties and the sliding window; more than desireUtxoCount outputs
	g = mk("fixed", []uint64{5, 5, 5, 5, 1})
	g.ops = []opSpec{res(5, false, 10), res(10, false, 11), res(5, false, 12), {kind: "cancel", rid: 2}, res(11, false, 13)}
	out = append(out, g)
	g = mk("fixed", []uint64{1, 1, 1, 1, 1, 1, 1, 1, 6})
	g.ops = []opSpec{res(5, false, 10), res(6, false, 11), res(4, false, 12), {kind: "expire", now: 11}, res(7, false, 13), res(2, false, 14)}
	out = append(out, g)
	g = mk("fixed", []uint64{2, 2, 2, 2, 2, 2, 2, 2, 2, 2})
	g.ops = []opSpec{res(13, false, 10), res(4, false, 11), res(5, false, 12), {kind: "cancel", rid: 1}, res(20, false, 13), res(16, false, 14)}
	out = append(out, g)
	g = mk("fixed", []uint64{1, 3, 5, 7, 11, 13, 23, 31})
	g.ops = []opSpec{res(13, false, 10), res(13, false, 11), res(13, false, 12), res(100, false, 13), res(40, false, 14)}
	out = append(out, g)
	// request 0 (optUTXOs dereferences the front of an empty list when something is available)
	g = mk("fixed", []uint64{4})
	g.ops = []opSpec{res(0, false, 10), res(4, false, 11), res(0, false, 12)}
	out = append(out, g)
	return out
}

// walletStage: the keeper behind a REAL wallet on a real node (scenario engine harness/c24/wsim, child
// processes).  "pool" stream: transactions reach the node's pool before their block, the wallet's pool
// message loop (AddUnconfirmedTx / RemoveUnconfirmedTx) lags behind the chain by a generated number of
// node events, later blocks spend the outputs, reorganisations put transactions back into the pool.
// After every delivery the account manager's own keeper is asked with useUnconfirmed = true (findUtxos,
// Reserve by amount for everything offered, ReserveParticular for every id the db or the unconfirmed map
// knows).  Direct oracle, once the wallet has handled every pool message: every output a reservation
// holds is an unspent output of the wallet's chain (the real UtxoViewpoint) or is created by a
// transaction that is in the node's pool right now (class=spent-or-unknown-output-offered).  Oracle
// only: the model of C26 takes the content of the db and of the unconfirmed map as inputs.
func walletStage(c *Ctx) error {
	var cases []*wsim.Case
	cases = append(cases, &wsim.Case{ID: 0, Seed: 1, Kind: "corpus-pool-spent-later"})
	for i, n := 0, c.N(36, 100); i < n; i++ {
		cases = append(cases, &wsim.Case{ID: len(cases), Seed: c.Rng.Next(), Kind: "pool"})
	}
	res, err := wsim.RunAll("c26", cases)
	if err != nil {
		return err
	}
	for _, cs := range cases {
		r := res[cs.ID]
		if r == nil {
			return fmt.Errorf("no result for wallet case %d", cs.ID)
		}
		descr := map[string]interface{}{"stage": "wallet", "id": cs.ID, "kind": cs.Kind, "seed": cs.Seed, "descr": r.Descr}
		c.Stats.Count("wallet-stage:kind:" + cs.Kind)
		if r.Panic != "" || r.Hang {
			what := "class=crash: the node/wallet process died: " + r.Panic
			if r.Hang {
				what = "class=hang: no answer within 400 s"
			}
			c.Stats.Fail(what, descr)
			continue
		}
		for k, v := range r.Count {
			if strings.HasPrefix(k, "pool:") || strings.HasPrefix(k, "obs:unconfirmed") || strings.HasPrefix(k, "obs:record-and") {
				c.Stats.Distribution["wallet-stage:"+k] += v
			}
		}
		for _, f := range r.Fails26 {
			c.Stats.Fail(f, descr)
			c.Stats.Count("oracle-failure:" + strings.SplitN(strings.TrimPrefix(f, "class="), ":", 2)[0])
		}
	}
	return nil
}

func runC26(c *Ctx) error {
	for _, g := range fixedCases() {
		runCase(c, g)
		runConcurrent(c, g)
	}
	n := c.N(1500, 9000)
	for i := 0; i < n; i++ {
		kind := "mixed"
		switch p := c.Rng.Intn(100); {
		case p < 12:
			kind = "many-equal"
		case p < 18:
			kind = "large"
		case p < 22:
			kind = "overflow"
		}
		g := genUniverse(c.Rng, c, kind)
		genOps(c.Rng, g, c)
		runCase(c, g)
		if i%3 == 0 {
			runConcurrent(c, g)
		}
	}
	if err := stressStage(c); err != nil {
		return err
	}
	if err := walletStage(c); err != nil {
		return err
	}
	c.Stats.Rule = "a case is a universe of 3..14 outputs (two accounts, two assets, three vote keys incl. nil/empty; amounts mostly 1..5 so that ties are the rule, or 1..30, or ~2^60, or ~2^63 so that uint64 sums wrap; valid heights around the current height 100) placed in the wallet DB, the contract DB, the unconfirmed map or both DB and unconfirmed map (25% of the outputs), and 4..31 operations: Reserve (amount 0, tiny, up to the total, total+0..2, 2^64-1), ReserveParticular (incl. unknown outputs), Cancel (live, dead, unknown ids), expireReservation, AddUnconfirmedUtxo, RemoveUnconfirmedUtxo, DB put/delete (confirming an unconfirmed output creates the overlap), height changes; distinct = distinct (universe, sequence); non-trivial = at least two successful reservations, one of them holding >= 2 outputs; after every operation the implementation's results and bookkeeping are checked against the property (distinct, real, matching, mature, unreserved outputs; sum >= request; change = excess; result class from the funds; live reservations pairwise disjoint; reserved map exact); every third case is replayed split over 4 goroutines, and 40 (thorough 150) stress runs of 4 goroutines x 120 (300) Reserve/Cancel/ReserveParticular calls on one keeper over 16..27 outputs are released together, with the scheduling-independent part of the oracle (cover of every success, exact insufficient/immature, disjointness and reserved map on snapshots, final live set = returned and not cancelled); the per-operation results and the final bookkeeping are compared with the Coq model"
	header := "From Coq Require Import ZArith NArith List Bool.\nFrom C26 Require Import Model Run.\nImport ListNotations.\nOpen Scope N_scope.\n"
	c.Cases.Shard = c.N(250, 500)
	return c.Cases.Write(c.Out, header, "cres", "cres_eqb")
}

var _ = strings.Join
