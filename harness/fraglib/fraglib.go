// Package fraglib: the per-run cross-check of translator T4 (tools/gofrag).  For every function
// the translator turns into Gallina (coq/gen/Frag*.v) the COMPILED Go function is run on a
// boundary grid plus seeded random inputs; every case is
//
//   - checked against a direct oracle: the function's mathematical specification (the statement of
//     the spec theorem in coq/Cxx/Tie.v) evaluated with math/big on the inputs - a failure is an
//     oracle failure of the property (class=frag-...), and
//   - written, as (generated Gallina expression, observed result), into an additional case file
//     cases_frag_<name>_<k>.v of the property's run, which the driver evaluates with vm_compute
//     like every other shard: a difference is a correspondence mismatch (the translator's
//     statement/operator semantics, or its reading of the source, is wrong).
//
// A property harness calls the function(s) for the definitions its Tie.v is about, AFTER its own
// Cases.Write.
package fraglib

import (
	"fmt"
	"math"
	"math/big"
	"sort"
	"strings"

	"github.com/bytom/bytom/consensus"
	"github.com/bytom/bytom/errors"
	"github.com/bytom/bytom/protocol/bc/types"
	"github.com/bytom/bytom/protocol/state"
	"github.com/bytom/bytom/protocol/validation"

	. "verifharness/hlib"
)

const idBase = 1000000

var (
	minI64 = big.NewInt(math.MinInt64)
	maxI64 = big.NewInt(math.MaxInt64)
	two64  = new(big.Int).Lsh(big.NewInt(1), 64)
)

func bi(x int64) *big.Int { return big.NewInt(x) }

func fitsI64(x *big.Int) bool { return x.Cmp(minI64) >= 0 && x.Cmp(maxI64) <= 0 }

// wrapI64: two's complement wrap of an exact result to int64
func wrapI64(x *big.Int) int64 {
	m := new(big.Int).Mod(x, two64)
	if m.Cmp(maxI64) > 0 {
		m.Sub(m, two64)
	}
	return m.Int64()
}

func dedupI64(xs []int64) []int64 {
	seen := map[int64]bool{}
	var out []int64
	for _, x := range xs {
		if !seen[x] {
			seen[x] = true
			out = append(out, x)
		}
	}
	sort.Slice(out, func(i, j int) bool { return out[i] < out[j] })
	return out
}

func randI64(r *Rng) int64 {
	w := uint(r.Intn(64)) + 1
	x := int64(r.Next() >> (64 - w))
	if w == 64 {
		return x
	}
	if r.Bool() {
		return -x
	}
	return x
}

// ------------------------------------------------------------------ GasState (C01, C07)

var sentinels = map[error]string{
	validation.ErrGasCalculate:  "ErrGasCalculate",
	validation.ErrOverGasCredit: "ErrOverGasCredit",
	validation.ErrOverflow:      "ErrOverflow",
	validation.ErrUnbalanced:    "ErrUnbalanced",
	validation.ErrNoSource:      "ErrNoSource",
	validation.ErrMissingField:  "ErrMissingField",
	validation.ErrPosition:      "ErrPosition",
}

func errTag(err error) string {
	if err == nil {
		return ""
	}
	if n, ok := sentinels[errors.Root(err)]; ok {
		return n
	}
	return "ErrUnknownSentinel"
}

func coqTag(tag string) string {
	if tag == "" {
		return "None"
	}
	return "(Some " + tag + ")"
}

func coqGas(g validation.GasState) string {
	return fmt.Sprintf("(mkGasState %d %s %s %s)", g.BTMValue, CoqZ(g.GasLeft), CoqZ(g.GasUsed), CoqZ(g.StorageGas))
}

type gasExpect struct {
	tag string
	g   validation.GasState
}

// the specification of setGas (coq/C01/Tie.v setGas_spec), in exact arithmetic
func specSetGas(g validation.GasState, btm, size int64) gasExpect {
	if btm < 0 {
		return gasExpect{"ErrGasCalculate", g}
	}
	gl := new(big.Int).Div(bi(btm), bi(consensus.VMGasRate))
	if gl.Cmp(bi(consensus.MaxGasAmount)) > 0 {
		gl = bi(consensus.MaxGasAmount)
	}
	sg := new(big.Int).Mul(bi(size), bi(consensus.StorageGasRate))
	out := validation.GasState{BTMValue: uint64(btm), GasLeft: gl.Int64(), GasUsed: g.GasUsed}
	if !fitsI64(sg) {
		return gasExpect{"ErrGasCalculate", out}
	}
	out.StorageGas = sg.Int64()
	return gasExpect{"", out}
}

func specCharge(g validation.GasState) gasExpect {
	d := new(big.Int).Sub(bi(g.GasLeft), bi(g.StorageGas))
	out := g
	if !fitsI64(d) {
		out.GasLeft = 0
		return gasExpect{"ErrGasCalculate", out}
	}
	out.GasLeft = d.Int64()
	if d.Sign() < 0 {
		return gasExpect{"ErrGasCalculate", out}
	}
	u := new(big.Int).Add(bi(g.GasUsed), bi(g.StorageGas))
	if !fitsI64(u) {
		out.GasUsed = 0
		return gasExpect{"ErrGasCalculate", out}
	}
	out.GasUsed = u.Int64()
	return gasExpect{"", out}
}

func specUpdate(g validation.GasState, gasLeft int64) gasExpect {
	d := new(big.Int).Sub(bi(g.GasLeft), bi(gasLeft))
	if gasLeft < 0 || !fitsI64(d) {
		return gasExpect{"ErrGasCalculate", g}
	}
	out := g
	out.GasLeft = gasLeft
	out.GasUsed = wrapI64(new(big.Int).Add(bi(g.GasUsed), d))
	if g.StorageGas > gasLeft {
		return gasExpect{"ErrOverGasCredit", out}
	}
	return gasExpect{"", out}
}

// GasState cross-checks GasState.setGas / chargeStorageGas / updateUsage (coq/gen/FragValidation.v).
// only: "" = all three methods, or the name of one.
func GasState(c *Ctx, only string) error {
	cf := NewCaseFile(idBase)
	cf.Shard = 1200 // the generated definitions are cheap to evaluate: few, large shards
	rate, maxg := consensus.VMGasRate, consensus.MaxGasAmount
	base := []int64{math.MinInt64, math.MinInt64 + 1, -2, -1, 0, 1, 2, rate - 1, rate, rate + 1, maxg - 1, maxg, maxg + 1,
		rate*maxg - 1, rate * maxg, rate*maxg + rate - 1, rate*maxg + rate, 1 << 31, 1 << 32, 1 << 62, math.MaxInt64 - 1, math.MaxInt64}
	small := []int64{math.MinInt64, -1, 0, 1, maxg, 1 << 62, math.MaxInt64}
	for i := 0; i < c.N(6, 10); i++ {
		base = append(base, randI64(c.Rng))
		small = append(small, randI64(c.Rng))
	}
	base, small = dedupI64(base), dedupI64(small)
	btms := []uint64{0, 1, 1 << 63, math.MaxUint64, c.Rng.Next()}
	k := 0
	emit := func(fn string, before validation.GasState, args []int64, call func(g *validation.GasState) error, want gasExpect, toCoq bool) {
		g := before
		tag := errTag(call(&g))
		var as []string
		for _, a := range args {
			as = append(as, CoqZ(a))
		}
		desc := map[string]interface{}{"fn": "GasState." + fn, "before": fmt.Sprintf("%+v", before), "args": fmt.Sprint(args), "error": tag, "after": fmt.Sprintf("%+v", g)}
		c.Stats.Case(fmt.Sprintf("%s %+v %v", fn, before, args), true)
		c.Stats.Count("frag:" + fn + ":" + map[bool]string{true: "nil", false: tag}[tag == ""])
		if tag != want.tag || g != want.g {
			c.Stats.Fail(fmt.Sprintf("class=frag-gas-%s: GasState.%s%v on %+v answered (%s, %+v), the specification says (%s, %+v)",
				fn, fn, args, before, coqTag(tag), g, coqTag(want.tag), want.g), desc)
			toCoq = toCoq || len(c.Stats.OracleFailures) < 20
		}
		if toCoq {
			model := strings.TrimSpace(fmt.Sprintf("GasState_%s %s %s", fn, coqGas(before), strings.Join(as, " ")))
			id := cf.Add(model, fmt.Sprintf("Some (%s, %s)", coqTag(tag), coqGas(g)))
			c.Stats.CaseIndex[fmt.Sprint(id)] = desc
			c.Stats.Count("model_evaluated")
			if k%211 == 0 {
				c.Stats.Sample(desc)
			}
		}
		k++
	}
	pick := func(mod int) bool { k0 := k; return k0%mod == 0 }
	if only == "" || only == "setGas" {
		for ia, btm := range base {
			for ib, size := range base {
				before := validation.GasState{BTMValue: btms[(ia+ib)%len(btms)], GasLeft: small[(ia*3+ib)%len(small)],
					GasUsed: small[(ia+ib*5)%len(small)], StorageGas: small[(ia*7+ib)%len(small)]}
				b, s := btm, size
				emit("setGas", before, []int64{b, s}, func(g *validation.GasState) error { return g.SetGasVerif(b, s) },
					specSetGas(before, b, s), c.Thorough() || pick(2))
			}
		}
	}
	if only == "" || only == "chargeStorageGas" {
		for ia, l := range base {
			for ib, u := range small {
				for ic, s := range base {
					before := validation.GasState{BTMValue: btms[(ia+ib+ic)%len(btms)], GasLeft: l, GasUsed: u, StorageGas: s}
					emit("chargeStorageGas", before, nil, func(g *validation.GasState) error { return g.ChargeStorageGasVerif() },
						specCharge(before), pick(c.N(9, 13)))
				}
			}
		}
	}
	if only == "" || only == "updateUsage" {
		for ia, l := range base {
			for ib, u := range small {
				for ic, s := range small {
					for id, gl := range base {
						before := validation.GasState{BTMValue: btms[(ia+ib+ic+id)%len(btms)], GasLeft: l, GasUsed: u, StorageGas: s}
						x := gl
						emit("updateUsage", before, []int64{x}, func(g *validation.GasState) error { return g.UpdateUsageVerif(x) },
							specUpdate(before, x), pick(c.N(83, 401)))
					}
				}
			}
		}
	}
	header := "From Coq Require Import ZArith List Bool.\nFrom Verif Require Import GoInt GoFrag.\nFrom VerifGen Require Import Checked FragConsensus FragValidation.\nImport ListNotations.\nOpen Scope Z_scope.\n" +
		"Definition gres := option (option validation_err * GasState).\n" +
		"Definition gres_eqb (x y : gres) : bool :=\n  match x, y with\n  | None, None => true\n  | Some (e1, s1), Some (e2, s2) =>\n" +
		"    (match e1, e2 with None, None => true | Some a, Some b => validation_err_eqb a b | _, _ => false end) && GasState_eqb s1 s2\n  | _, _ => false\n  end.\n"
	return cf.WriteNamed(c.Out, "frag_gas", header, "gres", "gres_eqb")
}

// ------------------------------------------------------------------ SupLink.IsMajority (C17)

// IsMajority cross-checks (*SupLink).IsMajority (coq/gen/FragTypes.v).
func IsMajority(c *Ctx) error {
	cf := NewCaseFile(idBase)
	cf.Shard = 1200 // the generated definitions are cheap to evaluate: few, large shards
	ns := []int64{math.MinInt64, math.MinInt64 + 1, -4, -3, -2, -1, (1 << 62) - 2, (1 << 62) - 1, 1 << 62, (1 << 62) + 1, (1 << 62) + 2,
		(1 << 62) + (1 << 61), math.MaxInt64 - 2, math.MaxInt64 - 1, math.MaxInt64, 3074457345618258602, 3074457345618258603, 4611686018427387903}
	for n := int64(0); n <= 16; n++ {
		ns = append(ns, n)
	}
	for i := 0; i < c.N(8, 40); i++ {
		ns = append(ns, randI64(c.Rng))
	}
	ns = dedupI64(ns)
	lensOf := []int{0, 1, 2, 64}
	k := 0
	for _, n := range ns {
		for cnt := 0; cnt <= consensus.MaxNumOfValidators; cnt++ {
			reps := 1
			if n >= 0 && n <= 16 {
				reps = 2
			}
			for rep := 0; rep < reps; rep++ {
				// cnt non-empty signatures at random slots
				perm := make([]int, consensus.MaxNumOfValidators)
				for i := range perm {
					perm[i] = i
				}
				for i := len(perm) - 1; i > 0; i-- {
					j := c.Rng.Intn(i + 1)
					perm[i], perm[j] = perm[j], perm[i]
				}
				var sl types.SupLink
				lens := make([]string, consensus.MaxNumOfValidators)
				for i := range lens {
					lens[i] = "0"
				}
				for _, slot := range perm[:cnt] {
					l := lensOf[1+c.Rng.Intn(len(lensOf)-1)]
					sl.Signatures[slot] = make([]byte, l)
					lens[slot] = fmt.Sprint(l)
				}
				if cnt < consensus.MaxNumOfValidators && c.Rng.Bool() {
					sl.Signatures[perm[cnt]] = []byte{} // empty but non-nil
				}
				got := sl.IsMajority(int(n))
				desc := map[string]interface{}{"fn": "SupLink.IsMajority", "lens": strings.Join(lens, ","), "numOfValidators": n, "result": got}
				c.Stats.Case(fmt.Sprintf("IsMajority %v %d", lens, n), true)
				c.Stats.Count(fmt.Sprintf("frag:IsMajority:%v", got))
				// oracle: the supermajority test 3 * count > 2 * n, where the protocol defines it
				if n >= 0 && n < 1<<62 {
					want := new(big.Int).Mul(bi(3), bi(int64(cnt))).Cmp(new(big.Int).Mul(bi(2), bi(n))) > 0
					if got != want {
						c.Stats.Fail(fmt.Sprintf("class=frag-ismajority: IsMajority(%d) with %d non-empty signatures answered %v, 3*%d > 2*%d is %v", n, cnt, got, cnt, n, want), desc)
					}
				}
				id := cf.Add(fmt.Sprintf("SupLink_IsMajority %s %s", CoqList(lens), CoqZ(n)), "Some "+CoqBool(got))
				c.Stats.CaseIndex[fmt.Sprint(id)] = desc
				c.Stats.Count("model_evaluated")
				if k%97 == 3 {
					c.Stats.Sample(desc)
				}
				k++
			}
		}
	}
	header := "From Coq Require Import ZArith List Bool.\nFrom Verif Require Import GoInt GoFrag.\nFrom VerifGen Require Import FragTypes.\nImport ListNotations.\nOpen Scope Z_scope.\n" +
		"Definition obool_eqb (x y : option bool) : bool := match x, y with Some a, Some b => Bool.eqb a b | None, None => true | _, _ => false end.\n"
	return cf.WriteNamed(c.Out, "frag_majority", header, "option bool", "obool_eqb")
}

// ------------------------------------------------------------------ consensus.VotePendingBlockNums (C25)

const ozHeader = "Definition oz_eqb (x y : option Z) : bool := match x, y with Some a, Some b => Z.eqb a b | None, None => true | _, _ => false end.\n"

// VotePending cross-checks consensus.VotePendingBlockNums (coq/gen/FragConsensus.v).  It replaces
// consensus.ActiveNetParams.VotePendingBlockNums while it runs and restores it.
func VotePending(c *Ctx) error {
	cf := NewCaseFile(idBase)
	cf.Shard = 1200 // the generated definitions are cheap to evaluate: few, large shards
	saved := consensus.ActiveNetParams.VotePendingBlockNums
	defer func() { consensus.ActiveNetParams.VotePendingBlockNums = saved }()
	type tbl = []consensus.VotePendingBlockNum
	mx := uint64(math.MaxUint64)
	tables := []tbl{
		nil,
		consensus.MainNetParams.VotePendingBlockNums,
		consensus.TestNetParams.VotePendingBlockNums,
		{{BeginBlock: 0, EndBlock: 20, Num: 2}, {BeginBlock: 20, EndBlock: mx, Num: 6}},
		{{BeginBlock: 5, EndBlock: 10, Num: 1}, {BeginBlock: 0, EndBlock: 100, Num: 2}, {BeginBlock: 7, EndBlock: 8, Num: 3}},    // overlapping: the first wins
		{{BeginBlock: 10, EndBlock: 10, Num: 1}, {BeginBlock: 12, EndBlock: 11, Num: 2}, {BeginBlock: 11, EndBlock: 12, Num: 0}}, // empty intervals, Num 0
		{{BeginBlock: mx, EndBlock: mx, Num: 9}, {BeginBlock: mx - 1, EndBlock: mx, Num: mx}, {BeginBlock: 1 << 63, EndBlock: mx - 1, Num: 1 << 63}},
	}
	edge := []uint64{0, 1, 2, 5, 10, 1 << 31, 1 << 32, 1 << 63, mx - 1, mx}
	for i := 0; i < c.N(20, 50); i++ {
		var t tbl
		for j, n := 0, c.Rng.Intn(6); j < n; j++ {
			pick := func() uint64 {
				if c.Rng.Chance(50) {
					return edge[c.Rng.Intn(len(edge))]
				}
				return c.Rng.Next() >> uint(c.Rng.Intn(64))
			}
			t = append(t, consensus.VotePendingBlockNum{BeginBlock: pick(), EndBlock: pick(), Num: pick()})
		}
		tables = append(tables, t)
	}
	k := 0
	for _, t := range tables {
		hs := append([]uint64{}, edge...)
		for _, e := range t {
			hs = append(hs, e.BeginBlock, e.BeginBlock-1, e.BeginBlock+1, e.EndBlock, e.EndBlock-1, e.EndBlock+1)
		}
		hs = append(hs, 431999, 432000, 432001, c.Rng.Next(), c.Rng.Next()>>40)
		seen := map[uint64]bool{}
		var recs []string
		for _, e := range t {
			recs = append(recs, fmt.Sprintf("mkVotePendingBlockNum %d %d %d", e.BeginBlock, e.EndBlock, e.Num))
		}
		consensus.ActiveNetParams.VotePendingBlockNums = t
		for _, h := range hs {
			if seen[h] {
				continue
			}
			seen[h] = true
			got := consensus.VotePendingBlockNums(h)
			// oracle: the Num of the first entry covering h, else 302400 (the value the lock schedule of
			// the protocol documents as default)
			want, found := uint64(0), false
			for _, e := range t {
				if e.BeginBlock <= h && h < e.EndBlock {
					want, found = e.Num, true
					break
				}
			}
			desc := map[string]interface{}{"fn": "consensus.VotePendingBlockNums", "table": fmt.Sprintf("%+v", t), "height": h, "result": got}
			c.Stats.Case(fmt.Sprintf("VotePendingBlockNums %+v %d", t, h), true)
			c.Stats.Count(fmt.Sprintf("frag:VotePendingBlockNums:found=%v", found))
			if found && got != want {
				c.Stats.Fail(fmt.Sprintf("class=frag-votepending: VotePendingBlockNums(%d) under %+v answered %d, the first covering entry says %d", h, t, got, want), desc)
			}
			id := cf.Add(fmt.Sprintf("VotePendingBlockNums %s %d", CoqList(recs), h), fmt.Sprintf("Some %d", got))
			c.Stats.CaseIndex[fmt.Sprint(id)] = desc
			c.Stats.Count("model_evaluated")
			if k%131 == 7 {
				c.Stats.Sample(desc)
			}
			k++
		}
	}
	header := "From Coq Require Import ZArith List Bool.\nFrom Verif Require Import GoInt GoFrag.\nFrom VerifGen Require Import FragConsensus.\nImport ListNotations.\nOpen Scope Z_scope.\n" + ozHeader
	return cf.WriteNamed(c.Out, "frag_votepending", header, "option Z", "oz_eqb")
}

// ------------------------------------------------------------------ state.getValidatorOrder (C15)

// ValidatorOrder cross-checks getValidatorOrder (coq/gen/FragState.v).  It replaces
// consensus.ActiveNetParams.BlockTimeInterval while it runs and restores it.
func ValidatorOrder(c *Ctx) error {
	cf := NewCaseFile(idBase)
	cf.Shard = 1200 // the generated definitions are cheap to evaluate: few, large shards
	saved := consensus.ActiveNetParams.BlockTimeInterval
	defer func() { consensus.ActiveNetParams.BlockTimeInterval = saved }()
	mx := uint64(math.MaxUint64)
	intervals := []uint64{0, 1, 2, 500, 6000, 1 << 32, 1 << 62, 1 << 63, mx}
	nsl := []uint64{0, 1, 2, 3, 4, 7, 10, 1 << 32, 1 << 63, mx}
	times := []uint64{0, 1, 5999, 6000, 6001, 24000, 1 << 32, 1 << 63, mx - 1, mx}
	for i := 0; i < c.N(3, 8); i++ {
		intervals = append(intervals, c.Rng.Next()>>uint(c.Rng.Intn(64)))
		nsl = append(nsl, c.Rng.Next()>>uint(c.Rng.Intn(64)))
		times = append(times, c.Rng.Next()>>uint(c.Rng.Intn(64)))
	}
	call := func(start, t, n uint64) (r uint64, panicked bool) {
		defer func() {
			if recover() != nil {
				panicked = true
			}
		}()
		return state.VerifGetValidatorOrder(start, t, n), false
	}
	k := 0
	for ii, iv := range intervals {
		consensus.ActiveNetParams.BlockTimeInterval = iv
		for in, n := range nsl {
			for is, start := range times {
				for it, t := range times {
					if (ii*3+in*5+is*7+it*11)%c.N(12, 40) != 0 {
						continue
					}
					got, panicked := call(start, t, n)
					desc := map[string]interface{}{"fn": "getValidatorOrder", "interval": iv, "start": start, "t": t, "n": n, "result": got, "panic": panicked}
					c.Stats.Case(fmt.Sprintf("getValidatorOrder %d %d %d %d", iv, start, t, n), true)
					c.Stats.Count(fmt.Sprintf("frag:getValidatorOrder:panic=%v", panicked))
					// oracle (where the round length does not wrap and time does not run backwards):
					// the slot of t is ((t - start) / interval) mod n
					round := new(big.Int).Mul(new(big.Int).SetUint64(n), new(big.Int).SetUint64(iv))
					if n >= 1 && iv >= 1 && round.Cmp(two64) < 0 && start <= t {
						want := ((t - start) / iv) % n
						if panicked || got != want {
							c.Stats.Fail(fmt.Sprintf("class=frag-validatororder: getValidatorOrder(%d, %d, %d) with interval %d answered %d (panic %v), ((t-start)/interval) mod n = %d", start, t, n, iv, got, panicked, want), desc)
						}
					}
					obs := fmt.Sprintf("Some %d", got)
					if panicked {
						obs = "None"
					}
					id := cf.Add(fmt.Sprintf("getValidatorOrder %d %d %d %d", iv, start, t, n), obs)
					c.Stats.CaseIndex[fmt.Sprint(id)] = desc
					c.Stats.Count("model_evaluated")
					if k%397 == 11 {
						c.Stats.Sample(desc)
					}
					k++
				}
			}
		}
	}
	header := "From Coq Require Import ZArith List Bool.\nFrom Verif Require Import GoInt GoFrag.\nFrom VerifGen Require Import FragState.\nImport ListNotations.\nOpen Scope Z_scope.\n" + ozHeader
	return cf.WriteNamed(c.Out, "frag_order", header, "option Z", "oz_eqb")
}
