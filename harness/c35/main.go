package main

// C35 — peer ban scores follow the documented decay rule.
//
// Implementation under test: DynamicBanScore of p2p/security and of p2p/trust
// (two copies of the same file), driven through the hooks VerifIncrease /
// VerifInt (increase / int at an explicit unix time) and the public Reset.
//
// A case is a history: a start clock and a list of events
//   Inc step p t | Query step | Reset step
// (the clock moves by step, then the call happens).  The harness records every
// returned uint32.  Correspondence: Coq runs the proved fixed-point enclosure of
// the real-valued model on the same history (C35/Run.v check_run) and every Go
// result must fall into its enclosure.  Direct oracle (Go only, independent of
// the Coq model): a float64 reference following the documented rule with
// math.Exp2 (formula within +-1, forgetting after 1800 s exact), monotonicity
// (exact), Int() = value returned by the Increase just before (exact) and
// non-negativity (exact) under a no-overflow premise computed from
// the inputs alone.

import (
	"crypto/sha256"
	"encoding/hex"
	"fmt"
	"math"
	"strings"

	"github.com/bytom/bytom/p2p/security"
	"github.com/bytom/bytom/p2p/trust"
	. "verifharness/hlib"
)

func main() { Main("C35", run, nil) }

const (
	kInc = iota
	kQuery
	kReset
)

type event struct {
	kind int
	step int64
	p, t uint32
}

type history struct {
	kind  string
	clock int64
	evs   []event
}

type banScore interface {
	VerifIncrease(persistent, transient uint32, unix int64) uint32
	VerifInt(unix int64) uint32
	Reset()
}

const two32 = int64(1) << 32
const lifetime = 1800

// ---- generator -------------------------------------------------------------

var boundarySteps = []int64{0, 0, 1, 1, 2, 30, 59, 60, 61, 62, 63, 64, 65, 119, 120, 121, 180, 600,
	1740, 1799, 1800, 1801, 1860, 3600}
var negativeSteps = []int64{-1, -2, -59, -60, -61, -1799, -1800, -1801, -5000}

func pickStep(r *Rng, style string) int64 {
	x := r.Intn(100)
	switch style {
	case "halving":
		if x < 70 {
			return 60 * int64(r.Intn(4))
		}
	case "lifetime":
		if x < 60 {
			return []int64{1799, 1800, 1801, 1740, 1860, 0, 60}[r.Intn(7)]
		}
	case "backwards":
		if x < 40 {
			return negativeSteps[r.Intn(len(negativeSteps))]
		}
	case "table":
		if x < 70 {
			return 60 + int64(r.Intn(8)) // around precomputedLen = 64
		}
	}
	switch {
	case x < 35:
		return boundarySteps[r.Intn(len(boundarySteps))]
	case x < 65:
		return int64(r.Intn(130))
	case x < 85:
		return int64(r.Intn(2000))
	case x < 90:
		return int64(r.Intn(100000))
	case x < 95:
		return negativeSteps[r.Intn(len(negativeSteps))]
	default:
		return -int64(r.Intn(3000))
	}
}

func pickAmount(r *Rng, style string, transient bool) uint32 {
	x := r.Intn(100)
	switch style {
	case "halving":
		if transient && x < 75 {
			return uint32(1) << uint(r.Intn(32))
		}
	case "overflow", "lifetime":
		if x < 60 {
			return math.MaxUint32 - uint32(r.Intn(3))
		}
		if x < 75 {
			return uint32(1)<<31 + uint32(r.Intn(3)) - 1
		}
	case "unit":
		if transient && x < 70 {
			return uint32(1 + r.Intn(2))
		}
	}
	switch {
	case x < 25:
		return 0
	case x < 35:
		return 1
	case x < 45:
		return 2
	case x < 75:
		return uint32(1 + r.Intn(120)) // the amounts the node really uses are 1..100
	case x < 85:
		return uint32(1) << uint(r.Intn(32))
	case x < 93:
		return uint32(r.Next() >> uint(32+r.Intn(32)))
	case x < 97:
		return math.MaxUint32 - uint32(r.Intn(3))
	default:
		return uint32(1)<<31 + uint32(r.Intn(3)) - 1
	}
}

var styles = []string{"random", "random", "random", "halving", "lifetime", "overflow", "backwards", "table", "unit"}

func genHistory(r *Rng) history {
	style := styles[r.Intn(len(styles))]
	var h history
	h.kind = style
	switch x := r.Intn(100); {
	case x < 50:
		h.clock = 1600000000 + int64(r.Intn(200000000))
	case x < 65:
		h.clock = int64(r.Intn(4000)) // close to the zero value's lastUnix = 0
	case x < 72:
		h.clock = 0
	case x < 80:
		h.clock = -int64(r.Intn(4000))
	case x < 90:
		h.clock = int64(1)<<40 - int64(r.Intn(5000))
	default:
		h.clock = int64(r.Intn(3000000))
	}
	n := 1 + r.Intn(24)
	if r.Chance(10) {
		n = 1 + r.Intn(3)
	}
	for i := 0; i < n; i++ {
		x := r.Intn(100)
		switch {
		case x < 62:
			e := event{kind: kInc, step: pickStep(r, style)}
			switch y := r.Intn(100); {
			case y < 45: // transient only (the common call: Increase(0, t))
				e.t = pickAmount(r, style, true)
			case y < 65: // persistent only
				e.p = pickAmount(r, style, false)
			default:
				e.p, e.t = pickAmount(r, style, false), pickAmount(r, style, true)
			}
			if r.Chance(60) { // read the score just before and just after, at the same time
				h.evs = append(h.evs, event{kind: kQuery, step: e.step})
				e.step = 0
				h.evs = append(h.evs, e, event{kind: kQuery})
			} else {
				h.evs = append(h.evs, e)
			}
		case x < 96:
			h.evs = append(h.evs, event{kind: kQuery, step: pickStep(r, style)})
		default:
			h.evs = append(h.evs, event{kind: kReset, step: pickStep(r, style)})
		}
	}
	return h
}

// ---- running the implementation ------------------------------------------------

func execute(bs banScore, h history) (out []uint32, panicked interface{}) {
	defer func() { panicked = recover() }()
	now := h.clock
	for _, e := range h.evs {
		now += e.step
		switch e.kind {
		case kInc:
			out = append(out, bs.VerifIncrease(e.p, e.t, now))
		case kQuery:
			out = append(out, bs.VerifInt(now))
		case kReset:
			bs.Reset()
		}
	}
	return out, nil
}

func (h history) String() string {
	var sb strings.Builder
	fmt.Fprintf(&sb, "clock=%d", h.clock)
	for _, e := range h.evs {
		switch e.kind {
		case kInc:
			fmt.Fprintf(&sb, " Inc(%+d,p=%d,t=%d)", e.step, e.p, e.t)
		case kQuery:
			fmt.Fprintf(&sb, " Int(%+d)", e.step)
		case kReset:
			fmt.Fprintf(&sb, " Reset(%+d)", e.step)
		}
	}
	return sb.String()
}

func (h history) coq() string {
	items := make([]string, len(h.evs))
	for i, e := range h.evs {
		switch e.kind {
		case kInc:
			items[i] = fmt.Sprintf("Inc %s %d %d", CoqZ(e.step), e.p, e.t)
		case kQuery:
			items[i] = "Query " + CoqZ(e.step)
		case kReset:
			items[i] = "Reset " + CoqZ(e.step)
		}
	}
	return CoqList(items)
}

// ---- direct oracle ---------------------------------------------------------------

func stepClass(d int64) string {
	switch {
	case d < -lifetime:
		return "step_below_-1800"
	case d < 0:
		return "step_negative"
	case d == 0:
		return "step_0"
	case d < 59:
		return "step_1_58"
	case d <= 61:
		return fmt.Sprintf("step_%d", d)
	case d <= 66:
		return "step_62_66_table_end"
	case d < 1799:
		return "step_67_1798"
	case d <= 1801:
		return fmt.Sprintf("step_%d", d)
	default:
		return "step_above_1801"
	}
}

func amountClass(prefix string, v uint32) string {
	switch {
	case v == 0:
		return prefix + "_0"
	case v == 1:
		return prefix + "_1"
	case v <= 120:
		return prefix + "_2_120"
	case v < 1<<31-1:
		return prefix + "_121_2^31"
	case v < math.MaxUint32-2:
		return prefix + "_2^31_up"
	default:
		return prefix + "_max"
	}
}

// mod32 reduces to [0, 2^32)
func mod32(x int64) int64 { return ((x % two32) + two32) % two32 }

// near reports whether the uint32 values a and b differ by at most 1 (mod 2^32)
func near(a, b int64) bool {
	d := mod32(a - b)
	return d == 0 || d == 1 || d == two32-1
}

type oracleResult struct {
	failures   []string
	decayed    bool // some query saw a genuinely decayed transient part
	nearOne    bool
	overflowed bool
}

// oracle checks the outputs of one history against the property, using only
// the inputs and the outputs.
func oracle(h history, out []uint32, count func(string)) oracleResult {
	var res oracleResult
	fail := func(class, format string, a ...interface{}) {
		res.failures = append(res.failures, "class="+class+": "+fmt.Sprintf(format, a...))
	}
	var pSum uint64   // persistent increments since the last reset (exact)
	var tBound uint64 // all transient increments since the last reset: an upper bound of the transient part
	refT := 0.0       // reference transient part (float64, math.Exp2)
	refLast := int64(0)
	synced := true // false after an increment at dt < 0 (not covered by the documented rule) until the next forgetting
	now := h.clock
	k := 0
	var prevQuery int64 = -1 // score read at the same instant just before an Inc
	prevQueryNow := int64(0)
	var afterInc *event
	var afterBase, afterRet int64
	for i, e := range h.evs {
		now += e.step
		count(stepClass(e.step))
		noOverflow := pSum+tBound+uint64(e.p)+uint64(e.t)+2 < uint64(two32)
		pw := int64(pSum % uint64(two32))
		switch e.kind {
		case kReset:
			pSum, tBound, refT, refLast, synced = 0, 0, 0, 0, true
			prevQuery, afterInc = -1, nil
			count("op_reset")
		case kQuery:
			o := int64(out[k])
			k++
			count("op_int")
			dt := now - refLast
			if noOverflow {
				if o < int64(pSum) {
					fail("negative", "event %d: Int() = %d is below the persistent score %d (transient contribution negative)", i, o, pSum)
				}
			} else {
				res.overflowed = true
			}
			if synced {
				switch {
				case dt > lifetime:
					count("int_after_lifetime")
					if o != pw {
						fail("lifetime", "event %d: Int() = %d, %d s after the last transient increment: expected the persistent score %d only", i, o, dt, pw)
					}
				case dt >= 0:
					x := 0.0
					if refT >= 1 {
						x = refT * math.Exp2(-float64(dt)/60)
						if dt > 0 && x >= 1 {
							res.decayed = true
						}
						count("int_decayed")
					} else {
						count("int_transient_below_1")
					}
					if math.Abs(refT-1) < 1e-9 || math.Abs(x-math.Round(x)) < 1e-9 && x >= 1 {
						res.nearOne = true
					}
					if !near(o-pw, int64(math.Floor(x))) {
						fail("formula", "event %d: Int() = %d, expected persistent %d + floor(%.6f * 2^(-%d/60) = %.6f) within 1", i, o, pw, refT, dt, x)
					}
				default:
					count("int_negative_dt")
				}
			} else {
				count("int_unsynced")
			}
			if afterInc != nil && i > 0 && e.step == 0 {
				// score right after Increase at the same instant: with a transient increment the
				// age is 0 and the decay factor 1, so Int() is exactly the value Increase returned
				if afterInc.t > 0 {
					if o != afterRet {
						fail("returned-score", "event %d: Int() = %d right after Increase(%d,%d) returned %d at the same instant", i, o, afterInc.p, afterInc.t, afterRet)
					} else {
						count("returned_score_checked")
					}
				}
				if noOverflow && afterBase >= 0 && o < afterBase+int64(afterInc.p) {
					fail("monotone", "event %d: score %d after Increase(%d,%d) is below score before %d + %d", i, o, afterInc.p, afterInc.t, afterBase, afterInc.p)
				} else if noOverflow && afterBase >= 0 {
					count("monotone_checked")
				}
			}
			afterInc = nil
			prevQuery, prevQueryNow = o, now
		case kInc:
			r := int64(out[k])
			k++
			count("op_increase")
			count(amountClass("p", e.p))
			count(amountClass("t", e.t))
			dt := now - refLast
			pSum += uint64(e.p)
			tBound += uint64(e.t)
			pw = int64(pSum % uint64(two32))
			if e.t > 0 {
				switch {
				case dt > lifetime:
					refT, synced = 0, true
					count("inc_forgets")
				case dt < 0:
					synced = false
					count("inc_negative_dt")
				case refT > 1 && dt > 0:
					refT *= math.Exp2(-float64(dt) / 60)
					count("inc_decays")
				default:
					count("inc_no_decay")
				}
				refT += float64(e.t)
				refLast = now
			} else {
				count("inc_persistent_only")
			}
			if noOverflow {
				if r < int64(pSum) {
					fail("negative", "event %d: Increase returned %d, below the persistent score %d", i, r, pSum)
				}
				if prevQuery >= 0 && prevQueryNow == now && e.step == 0 && r < prevQuery+int64(e.p) {
					fail("monotone", "event %d: Increase(%d,%d) returned %d, below the score before %d + %d", i, e.p, e.t, r, prevQuery, e.p)
				}
			} else {
				res.overflowed = true
			}
			if synced && !near(r-pw, int64(math.Floor(refT))) {
				fail("increase-result", "event %d: Increase(%d,%d) returned %d, expected persistent %d + floor(%.6f) within 1", i, e.p, e.t, r, pw, refT)
			}
			ev := e
			afterInc = &ev
			afterRet = r
			if prevQuery >= 0 && prevQueryNow == now && e.step == 0 {
				afterBase = prevQuery
			} else {
				afterBase = -1
			}
			prevQuery = -1
		}
	}
	return res
}

// publicAPI exercises Increase / Int / Reset with the real clock.
func publicAPI(c *Ctx, name string, fresh func() interface {
	Increase(p, t uint32) uint32
	Int() uint32
	Reset()
}) {
	bs := fresh()
	c.Stats.Count("public_api_" + name)
	if r := bs.Increase(7, 100); r != 107 {
		c.Stats.Fail(fmt.Sprintf("class=public-api: %s: Increase(7,100) on a fresh score returned %d, expected 107", name, r),
			map[string]interface{}{"package": name, "calls": "Increase(7,100)"})
	}
	// read back within a few seconds: 7 + floor(100 * 2^(-dt/60)), dt in 0..10
	lo := uint32(7 + int(math.Floor(100*math.Exp2(-10.0/60))) - 1)
	if o := bs.Int(); o < lo || o > 107 {
		c.Stats.Fail(fmt.Sprintf("class=public-api: %s: Int() right after Increase(7,100) on a fresh score = %d, expected %d..107 (transient part lost)", name, o, lo),
			map[string]interface{}{"package": name, "calls": "Increase(7,100); Int()"})
	}
	bs.Reset()
	if o := bs.Int(); o != 0 {
		c.Stats.Fail(fmt.Sprintf("class=public-api: %s: Int() after Reset = %d", name, o),
			map[string]interface{}{"package": name, "calls": "Increase(7,100); Reset(); Int()"})
	}
}

// ---- main loop ------------------------------------------------------------------------------

func run(c *Ctx) error {
	publicAPI(c, "security", func() interface {
		Increase(p, t uint32) uint32
		Int() uint32
		Reset()
	} {
		return new(security.DynamicBanScore)
	})
	publicAPI(c, "trust", func() interface {
		Increase(p, t uint32) uint32
		Int() uint32
		Reset()
	} {
		return new(trust.DynamicBanScore)
	})

	n := c.N(2500, 9000)
	// fixed boundary histories first (regression witnesses and exact boundaries)
	fixed := []history{
		{"fixed", 1000, []event{{kInc, 0, 0, 100}, {kQuery, 1, 0, 0}, {kQuery, 62, 0, 0}, {kQuery, 1, 0, 0}, {kInc, -34, 0, 1}}},
		{"fixed", 1700000000, []event{{kInc, 0, 0, 2}, {kQuery, 60, 0, 0}, {kInc, 0, 0, 1}, {kQuery, 0, 0, 0}}},
		{"fixed", 1700000000, []event{{kInc, 0, 0, 1}, {kInc, 59, 0, 1}, {kQuery, 0, 0, 0}, {kQuery, 60, 0, 0}}},
		{"fixed", 1700000000, []event{{kInc, 0, 5, math.MaxUint32}, {kQuery, 1800, 0, 0}, {kQuery, 1, 0, 0}, {kInc, -1, 0, math.MaxUint32}, {kQuery, 1800, 0, 0}, {kInc, 1, 1, 1}}},
		{"fixed", 50, []event{{kInc, 0, math.MaxUint32, math.MaxUint32}, {kInc, 0, 0, math.MaxUint32}, {kQuery, 60, 0, 0}, {kReset, 0, 0, 0}, {kQuery, 5, 0, 0}}},
		{"fixed", 1700000000, []event{{kInc, 0, 0, 1 << 31}, {kQuery, 1860, 0, 0}, {kQuery, -60, 0, 0}, {kQuery, -1, 0, 0}, {kQuery, -1799, 0, 0}, {kQuery, -1, 0, 0}}},
	}
	for i := 0; i < n; i++ {
		var h history
		if i < len(fixed) {
			h = fixed[i]
		} else {
			h = genHistory(c.Rng)
		}
		c.Stats.Count("history_" + h.kind)
		switch l := len(h.evs); {
		case l <= 3:
			c.Stats.Count("events_1_3")
		case l <= 12:
			c.Stats.Count("events_4_12")
		case l <= 30:
			c.Stats.Count("events_13_30")
		default:
			c.Stats.Count("events_31_up")
		}
		sum := sha256.Sum256([]byte(h.String()))
		key := hex.EncodeToString(sum[:8])
		for _, pkg := range []string{"security", "trust"} {
			var bs banScore
			if pkg == "security" {
				bs = new(security.DynamicBanScore)
			} else {
				bs = new(trust.DynamicBanScore)
			}
			out, panicked := execute(bs, h)
			if panicked != nil {
				c.Stats.Fail(fmt.Sprintf("class=panic: the ban score code panicked after %d results: %v [p2p/%s]", len(out), panicked, pkg),
					map[string]interface{}{"package": pkg, "history": h.String(), "results": out})
				c.Stats.Count("oracle_failure")
				c.Stats.Case(pkg+":"+key, false)
				continue
			}
			cnt := func(string) {}
			if pkg == "security" {
				cnt = c.Stats.Count
			}
			res := oracle(h, out, cnt)
			desc := map[string]interface{}{"package": pkg, "history": h.String(), "results": out}
			for _, f := range res.failures {
				c.Stats.Fail(f+" [p2p/"+pkg+"]", desc)
				c.Stats.Count("oracle_failure")
			}
			if pkg == "security" {
				if res.decayed {
					c.Stats.Count("case_decay_observed")
				}
				if res.nearOne {
					c.Stats.Count("case_value_at_integer_boundary")
				}
				if res.overflowed {
					c.Stats.Count("case_uint32_overflow_possible")
				}
			}
			obs := make([]string, len(out))
			for j, o := range out {
				obs[j] = fmt.Sprint(o)
			}
			id := c.Cases.Add(fmt.Sprintf("check_run %s %s %s", CoqZ(h.clock), h.coq(), CoqList(obs)), "(-1)")
			c.Stats.Count("model_evaluated")
			c.Stats.CaseIndex[fmt.Sprint(id)] = desc
			c.Stats.Case(pkg+":"+key, res.decayed && len(out) >= 2)
			if res.decayed {
				c.Stats.Sample(desc)
			}
		}
	}
	c.Stats.Rule = "a case is one package (p2p/security or p2p/trust), a start clock (realistic unix time, near 0, negative, near 2^40) and a history of 1..~60 events Increase(p,t) / Int() / Reset(), each after a time step drawn from boundary steps (0, 1, 59, 60, 61, 62..67 around the precomputed table end, 1799, 1800, 1801, multiples of 60), random steps and negative steps; amounts are 0, 1, 2, the node's real range 1..120, powers of two (exact halving to 1.0), and values at 2^31 and 2^32-1 (uint32 overflow); distinct = distinct (package, history); non-trivial = at least two results and some Int() observed a transient part >= 1 decayed over dt > 0; every result is checked by the oracle (formula within 1 against a math.Exp2 reference, exact forgetting after 1800 s, Int() equal to the value just returned by Increase(p,t>0), monotonicity and non-negativity under a no-overflow premise computed from the inputs) and must fall into the Coq interval model's enclosure (first index outside = mismatch)"
	header := "From Coq Require Import ZArith List.\nFrom C35 Require Import Model Run.\nImport ListNotations.\nOpen Scope Z_scope.\n"
	c.Cases.Shard = c.N(400, 800)
	peersStage(c)
	return c.Cases.Write(c.Out, header, "Z", "Z.eqb")
}
