// C35 through the peer table: the node books misbehaviour with PeersBanScore.Increase(ip, level),
// which maps a level to (persistent, transient) amounts.  The documented rule: an illegal message
// adds a persistent 20 (never decays), a connection exception a transient 20 (halves every 60 s,
// gone after 1800 s).  Oracle: the score stored for the peer, read at later instants, follows that
// rule within one unit.
package main

import (
	"fmt"
	"math"
	"time"

	"github.com/bytom/bytom/p2p/security"

	. "verifharness/hlib"
)

func peersStage(c *Ctx) {
	r := c.Rng
	n := c.N(40, 300)
	for i := 0; i < n; i++ {
		ps := security.NewPeersScore()
		ip := fmt.Sprintf("10.%d.%d.%d", r.Intn(250), r.Intn(250), 1+r.Intn(250))
		illegal, exc := r.Intn(5), r.Intn(5) // at most 4 of each: stays at or below the ban threshold
		var order []string
		before := time.Now().Unix()
		for a, b := illegal, exc; a+b > 0; {
			if a > 0 && (b == 0 || r.Bool()) {
				ps.Increase(ip, security.LevelMsgIllegal, "verif")
				order = append(order, "illegal-message")
				a--
			} else {
				ps.Increase(ip, security.LevelConnException, "verif")
				order = append(order, "connection-exception")
				b--
			}
		}
		after := time.Now().Unix()
		desc := map[string]interface{}{"kind": "peers-ban-score", "offences": order}
		for _, dt := range []int64{0, 30, 60, 61, 62, 63, 64, 120, 600, 1799, 1801, 3600} {
			got, ok := ps.VerifPeerInt(ip, after+dt)
			if !ok {
				if illegal+exc > 0 {
					c.Stats.Fail("class=peer-score-missing: no score is kept for a peer that misbehaved", desc)
				}
				break
			}
			// the increases happened between `before` and `after` (normally the same second)
			lo := float64(20*illegal) + decayed(20*exc, dt+(after-before))
			hi := float64(20*illegal) + decayed(20*exc, dt)
			if float64(got) < math.Floor(lo)-1 || float64(got) > math.Ceil(hi)+1 {
				c.Stats.Fail(fmt.Sprintf("class=peer-score-rule: %d illegal message(s) and %d connection exception(s): the stored score reads %d after %d s, the documented rule (persistent 20 each, transient 20 each halving every 60 s) gives %.2f..%.2f", illegal, exc, got, dt, lo, hi), desc)
				break
			}
		}
		c.Stats.Count("peers-ban-score-case")
	}
}

func decayed(amount int, dt int64) float64 {
	if dt > 1800 {
		return 0
	}
	return float64(amount) * math.Exp2(-float64(dt)/60)
}
