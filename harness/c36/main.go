package main

// C36 — RPC access control admits only authorised callers
// (net/http/authn/authn.go, accesstoken/accesstoken.go).
//
// Each case: a real accesstoken.CredentialStore on a fresh in-memory database (every
// tenth case on a real LevelDB directory), a real authn.API (authentication enabled;
// disabled in a few cases), and a history of Create / Delete / Check / clock-advance /
// Authenticate(request) steps.  Requests are httptest requests with
//   origins: loopback v4/v6/v4-mapped, LAN, public, near-loopback, malformed RemoteAddr;
//   paths:   API endpoints, the three local-only endpoints and near misses, the static
//            /dashboard and /equity pages and near misses;
//   credentials: none, malformed Authorization headers, the exact pair of an issued
//            token (live or deleted), EVERY split / shift of the string id‖secret
//            (sweep cases: all of them; other cases: random ones, biased to the id
//            boundary), truncated / extended / re-cased secrets, id of one token with
//            the secret of another, tokens whose id is a prefix+secret-prefix of
//            another token, random pairs.
// The clock is moved by the add-only hook API.VerifAgeCache (cached results get older);
// the harness keeps the virtual time in whole seconds.
//
// Direct oracle (implementation outputs and the harness's own bookkeeping of what
// Create returned and what was deleted when; no model): with authentication enabled,
//   * a request from a non-loopback origin to a non-exempt path that Authenticate admits
//     (nil error) carries exactly the (id, secret) of a token that Create returned and
//     that is live or was deleted at most 300 s (virtual) ago;
//   * a request from a non-loopback origin to /backup-wallet, /restore-wallet,
//     /list-access-tokens (exact, or followed by '/') is refused.
//
// Correspondence: per step the result class (never the error text), authn.Token(ctx),
// authn.Localhost(ctx); at the end the token string stored under every id touched and
// the number of cache entries - against the Coq model C36.Run.run_case.

import (
	"encoding/base64"
	"encoding/hex"
	"encoding/json"
	"fmt"
	"net"
	"net/http/httptest"
	"os"
	"strconv"
	"strings"
	"time"

	"github.com/bytom/bytom/accesstoken"
	dbm "github.com/bytom/bytom/database/leveldb"
	"github.com/bytom/bytom/errors"
	"github.com/bytom/bytom/net/http/authn"
	. "verifharness/hlib"
)

func main() { Main("C36", runC36, nil) }

const windowSec = 300 // the property's "5-minute cache window"

// ---- vocabulary ---------------------------------------------------------------

const (
	lblLoop  = 0 // a well-formed loopback ip:port
	lblNon   = 1 // certainly not a loopback origin
	lblAmbig = 2 // malformed / arguable: no oracle demand, correspondence only
)

type originSpec struct {
	addr string
	lbl  int
}

var origins = []originSpec{
	{"127.0.0.1:51234", lblLoop}, {"127.0.0.2:80", lblLoop}, {"127.255.255.254:9", lblLoop},
	{"[::1]:8080", lblLoop}, {"[0:0:0:0:0:0:0:1]:1", lblLoop}, {"[::ffff:127.0.0.1]:99", lblLoop},
	{"10.0.0.5:4444", lblNon}, {"192.168.1.7:80", lblNon}, {"8.8.8.8:53", lblNon},
	{"126.255.255.255:1", lblNon}, {"128.0.0.1:1", lblNon}, {"1.0.0.127:80", lblNon},
	{"0.0.0.0:80", lblNon}, {"[::]:80", lblNon}, {"[::2]:80", lblNon}, {"[fe80::1]:80", lblNon},
	{"[2001:db8::1]:443", lblNon}, {"[::ffff:10.0.0.1]:80", lblNon}, {"[::127.0.0.1]:80", lblNon},
	{"[1::1]:80", lblNon}, {"[::1:0]:80", lblNon}, {"[::ffff:1.0.0.127]:80", lblNon},
	{"10.0.0.5", lblNon}, {"", lblNon}, {"@", lblNon}, {":80", lblNon}, {"example.org:80", lblNon},
	{"127.0.0.1", lblAmbig}, {"::1", lblAmbig}, {"[::1]", lblAmbig}, {"127.0.0.1:80:90", lblAmbig},
	{"[::1%lo]:80", lblAmbig}, {"0127.0.0.1:80", lblAmbig}, {" 127.0.0.1:80", lblAmbig},
	{"127.1:80", lblAmbig}, {"localhost:80", lblAmbig}, {"127.0.0.1.:80", lblAmbig},
}

const (
	pAPI       = 0 // the credential oracle applies
	pLocalOnly = 1 // both oracles apply (the endpoint itself)
	pExempt    = 2 // static page: no demand
	pArguable  = 3 // e.g. /dashboard/../x : no demand
)

type pathSpec struct {
	p   string
	lbl int
}

var paths = []pathSpec{
	{"/list-transactions", pAPI}, {"/create-access-token", pAPI}, {"/", pAPI}, {"", pAPI},
	{"/build-transaction", pAPI}, {"/delete-access-token", pAPI}, {"/net-info", pAPI},
	{"/backup-wallet", pLocalOnly}, {"/backup-wallet/", pLocalOnly}, {"/backup-wallet/x", pLocalOnly},
	{"/restore-wallet", pLocalOnly}, {"/restore-wallet/", pLocalOnly},
	{"/list-access-tokens", pLocalOnly}, {"/list-access-tokens/", pLocalOnly}, {"/list-access-tokens/a/b", pLocalOnly},
	{"/backup-walle", pAPI}, {"/backup-walletx", pAPI}, {"/Backup-wallet", pAPI}, {"//backup-wallet", pAPI},
	{"backup-wallet", pAPI}, {"/restore-walle", pAPI}, {"/restore-wallet2", pAPI}, {"/list-access-token", pAPI},
	{"/list-access-tokens2", pAPI}, {"/x/backup-wallet", pAPI}, {"/rescan-wallet", pAPI},
	{"/dashboard", pExempt}, {"/dashboard/", pExempt}, {"/dashboard/index.html", pExempt},
	{"/equity", pExempt}, {"/equity/", pExempt}, {"/equity/static/js/main.js", pExempt},
	{"/dashboard/../list-transactions", pArguable}, {"/equity/../backup-wallet", pArguable},
	{"/dashboardx", pAPI}, {"/dashboar", pAPI}, {"/Dashboard", pAPI}, {"/dashboard.", pAPI}, {"dashboard", pAPI},
	{"/equityx", pAPI}, {"/equit", pAPI}, {"/EQUITY/", pAPI}, {"/x/dashboard/", pAPI}, {"/x/equity", pAPI},
	{"/list-transactions\x00/dashboard/", pAPI}, {"/\xff\xfe", pAPI},
}

var invalidIDs = []string{"", "bad:id", "a b", "a.b", "\xc3\xa9", "a\n", "\xff", "a/b", "a:", ":", "ab\x00", "a+b", "%61", "a\r\n"}

const idAlphabet = "abcdef0123456789ABCxyzXYZ_-"

func randValidID(r *Rng, maxLen int) string {
	n := 1 + r.Intn(maxLen)
	b := make([]byte, n)
	for i := range b {
		if r.Chance(60) {
			b[i] = "abcdef0123456789"[r.Intn(16)] // hex-looking ids collide best with secret prefixes
		} else {
			b[i] = idAlphabet[r.Intn(len(idAlphabet))]
		}
	}
	return string(b)
}

// ---- one case -------------------------------------------------------------------

type tokRec struct {
	id, secret string
	token      string // Token.Token as returned by Create
	live       bool
	deletedAt  int // virtual second of the Delete
}

type evDesc struct {
	Vsec   int    `json:"vsec"`
	Kind   string `json:"kind"`
	A      string `json:"a,omitempty"` // id / user / RemoteAddr (Go-quoted)
	B      string `json:"b,omitempty"` // secret / pw
	Path   string `json:"path,omitempty"`
	Header string `json:"authorization,omitempty"`
	Cred   string `json:"cred_kind,omitempty"`
	Result string `json:"result,omitempty"`
}

type caseRun struct {
	c        *Ctx
	r        *Rng
	kind     string
	disable  bool
	cs       *accesstoken.CredentialStore
	api      *authn.API
	recs     []*tokRec
	vsec     int
	evs      []string // model events
	obs      []string // observed per event
	descr    []evDesc
	probeIDs []string
	seenID   map[string]bool
	idPool   []string
	fails    []OracleFailure
	counts   map[string]int
	nontriv  bool
	cleanup  func()
}

func isLowerHex(c byte) bool { return (c >= '0' && c <= '9') || (c >= 'a' && c <= 'f') }

func litPiece(b string) string {
	if len(b) == 0 {
		return ""
	}
	return fmt.Sprintf("L %d 0x%s", len(b), hex.EncodeToString([]byte(b)))
}

// pc writes s as a list of pieces of the case file: runs of at least 16 lowercase hex
// digits (even length) as one number [HX bytes value], everything else as [L len value].
func pc(s string) string {
	var out []string
	lit := 0 // start of the pending literal part
	for i := 0; i < len(s); {
		j := i
		for j < len(s) && isLowerHex(s[j]) {
			j++
		}
		n := (j - i) &^ 1
		if n >= 16 {
			if p := litPiece(s[lit:i]); p != "" {
				out = append(out, p)
			}
			out = append(out, fmt.Sprintf("HX %d 0x%s", n/2, s[i:i+n]))
			lit = i + n
			i += n
		} else if j > i {
			i = j
		} else {
			i++
		}
	}
	if p := litPiece(s[lit:]); p != "" {
		out = append(out, p)
	}
	return CoqList(out)
}

// the vocabulary of the case files: parsed origin addresses and request paths
var vocab []string
var vocabIdx = map[string]int{}

func init() {
	add := func(s string) {
		if _, ok := vocabIdx[s]; !ok {
			vocabIdx[s] = len(vocab)
			vocab = append(vocab, s)
		}
	}
	for _, o := range origins {
		if ip := parsedIP(o.addr); ip != "" {
			add(ip)
		}
	}
	for _, p := range paths {
		add(p.p)
	}
}

// the bytes of net.ParseIP(host of addr), "" when RemoteAddr does not parse
func parsedIP(addr string) string {
	if h, _, e := net.SplitHostPort(addr); e == nil {
		if a := net.ParseIP(h); a != nil {
			return string(a)
		}
	}
	return ""
}

// sx writes s as a string expression of the case file (see coq/C36/Run.v): a
// vocabulary entry, a part of an issued token, or literal pieces.
func (k *caseRun) sx(s string) string {
	if i, ok := vocabIdx[s]; ok {
		return fmt.Sprintf("(V %d)", i)
	}
	for i, t := range k.recs {
		switch s {
		case t.id:
			return fmt.Sprintf("(TI %d)", i)
		case t.secret:
			return fmt.Sprintf("(TS %d)", i)
		case t.id + t.secret:
			return fmt.Sprintf("(W %d)", i)
		case t.token:
			return fmt.Sprintf("(K %d)", i)
		}
	}
	if len(s) >= 6 {
		for i, t := range k.recs {
			if off := strings.Index(t.id+t.secret, s); off >= 0 {
				return fmt.Sprintf("(SW %d %d %d)", i, off, len(s))
			}
			if off := strings.Index(t.token, s); off >= 0 {
				return fmt.Sprintf("(SK %d %d %d)", i, off, len(s))
			}
		}
	}
	return "(P " + pc(s) + ")"
}

func (k *caseRun) cx(user, pw string, has bool) string {
	if !has {
		return "CNone"
	}
	for i, t := range k.recs {
		if t.id+t.secret == user+pw {
			return fmt.Sprintf("(CSplit %d %d)", i, len(user))
		}
	}
	return fmt.Sprintf("(CP %s %s)", k.sx(user), k.sx(pw))
}

func (k *caseRun) count(b string) { k.counts[b]++ }

func (k *caseRun) touch(id string) {
	if !k.seenID[id] {
		k.seenID[id] = true
		k.probeIDs = append(k.probeIDs, id)
	}
}

func (k *caseRun) liveRecs() []*tokRec {
	var l []*tokRec
	for _, t := range k.recs {
		if t.live {
			l = append(l, t)
		}
	}
	return l
}

func (k *caseRun) doCreate(id string) {
	k.touch(id)
	tok, err := k.cs.Create(id, []string{"client", "network", "", "x"}[k.r.Intn(4)])
	code, sec := 10, ""
	switch {
	case err == nil:
		pre := id + ":"
		if tok == nil || tok.ID != id || !strings.HasPrefix(tok.Token, pre) {
			code = 19 // not of the form id:secret - the model will disagree
		} else {
			sec = tok.Token[len(pre):]
			k.recs = append(k.recs, &tokRec{id: id, secret: sec, token: tok.Token, live: true})
			if len(sec) == 64 && strings.ToLower(sec) == sec {
				k.count("secret_64_lower_hex")
			} else {
				k.count("secret_other_shape")
			}
		}
		k.count("create_ok")
	case errors.Root(err) == accesstoken.ErrBadID:
		code = 11
		k.count("create_bad_id")
	case errors.Root(err) == accesstoken.ErrDuplicateID:
		code = 12
		k.count("create_duplicate")
	default:
		code = 18
		k.count("create_other_error")
	}
	if code == 10 {
		k.evs = append(k.evs, fmt.Sprintf("CT %d", len(k.recs)-1))
	} else {
		k.evs = append(k.evs, "CC "+k.sx(id))
	}
	k.obs = append(k.obs, fmt.Sprintf("r%d", code))
	k.descr = append(k.descr, evDesc{Vsec: k.vsec, Kind: "create", A: strconv.Quote(id), B: sec, Result: fmt.Sprint(code)})
}

func (k *caseRun) doDelete(id string) {
	k.touch(id)
	k.cs.Delete(id)
	for _, t := range k.recs {
		if t.id == id && t.live {
			t.live = false
			t.deletedAt = k.vsec
		}
	}
	k.count("delete")
	k.evs = append(k.evs, "CD "+k.sx(id))
	k.obs = append(k.obs, "r20")
	k.descr = append(k.descr, evDesc{Vsec: k.vsec, Kind: "delete", A: strconv.Quote(id)})
}

func (k *caseRun) doCheck(id, pw string) {
	err := k.cs.Check(id, pw)
	code := 30
	switch {
	case err == nil:
		k.count("check_ok")
	case errors.Root(err) == accesstoken.ErrNoMatchID:
		code = 31
		k.count("check_no_match")
	case errors.Root(err) == accesstoken.ErrInvalidToken:
		code = 32
		k.count("check_invalid")
	default:
		code = 38
		k.count("check_other_error")
	}
	// Check's own soundness (the mechanism the property anchors): ok => exactly a live issued pair
	if err == nil {
		ok := false
		for _, t := range k.recs {
			if t.live && t.id == id && t.secret == pw {
				ok = true
			}
		}
		if !ok {
			k.fail("class=check-accepts-unissued: CredentialStore.Check("+strconv.Quote(id)+", "+strconv.Quote(pw)+") = nil but no live token has this id and secret", len(k.descr))
		}
	}
	k.evs = append(k.evs, fmt.Sprintf("CK %s %s", k.sx(id), k.sx(pw)))
	k.obs = append(k.obs, fmt.Sprintf("r%d", code))
	k.descr = append(k.descr, evDesc{Vsec: k.vsec, Kind: "check", A: strconv.Quote(id), B: strconv.Quote(pw), Result: fmt.Sprint(code)})
}

func (k *caseRun) doAdvance(sec int) {
	k.api.VerifAgeCache(time.Duration(sec) * time.Second)
	k.vsec += sec
	if sec > 0 {
		k.evs = append(k.evs, fmt.Sprintf("ADV %d", sec))
	}
	k.count(fmt.Sprintf("advance_%ds", sec))
}

func (k *caseRun) fail(what string, at int) {
	d := append([]evDesc(nil), k.descr...)
	k.fails = append(k.fails, OracleFailure{What: what, Case: map[string]interface{}{
		"kind": k.kind, "disable": k.disable, "failing_event_index": at, "events": d,
		"note": "secrets come from crypto/rand inside Create; replay the listed steps literally, moving the clock between steps by the differences of vsec",
	}})
}

// header: "" = no Authorization header, otherwise the literal header value
func (k *caseRun) doRequest(o originSpec, p pathSpec, header, credKind string) {
	req := httptest.NewRequest("POST", "/", nil)
	req.URL.Path = p.p
	req.RemoteAddr = o.addr
	if header != "" {
		req.Header.Set("Authorization", header)
	}
	// headers a client is free to send: where a request comes from is decided by the connection's
	// peer address alone, never by what the request claims about itself
	if k.r.Chance(35) {
		claim := []string{"127.0.0.1", "::1", "127.0.0.9", "127.0.0.1, 10.0.0.7", "localhost", "[::1]:9888"}[k.r.Intn(6)]
		switch k.r.Intn(4) {
		case 0:
			req.Header.Set("X-Forwarded-For", claim)
		case 1:
			req.Header.Set("X-Real-IP", claim)
		case 2:
			req.Header.Set("Forwarded", "for="+claim)
		default:
			req.Header.Set("X-Forwarded-For", claim)
			req.Header.Set("X-Real-Ip", claim)
			req.Host = "localhost"
		}
		k.count("request-claims-loopback-in-headers")
	}
	user, pw, hasCreds := req.BasicAuth() // net/http's parsing: the model takes its result
	req2, err := k.api.Authenticate(req)
	code := 40
	switch {
	case err == nil:
	case err == authn.ErrNoToken:
		code = 41
	case err == authn.ErrInvalidToken:
		code = 42
	default:
		code = 43 // the three "only local" errors (compared as a class, not by text)
	}
	ctxTok, ctxLocal := "", false
	if req2 != nil {
		ctxTok, ctxLocal = authn.Token(req2.Context()), authn.Localhost(req2.Context())
	}
	admitted := err == nil

	// ---- direct oracle
	at := len(k.descr)
	if !k.disable && o.lbl == lblNon {
		if p.lbl == pLocalOnly && admitted {
			k.fail(fmt.Sprintf("class=local-only-admitted: request from %q to %q admitted (Authorization %q)", o.addr, p.p, header), at)
		}
		if (p.lbl == pAPI || p.lbl == pLocalOnly) && admitted {
			ok := false
			if hasCreds {
				for _, t := range k.recs {
					if t.id == user && t.secret == pw && (t.live || k.vsec-t.deletedAt <= windowSec) {
						ok = true
					}
				}
			}
			if !ok {
				why := "no token with this id and secret was ever issued"
				if !hasCreds {
					why = "the request carries no credentials"
				}
				for _, t := range k.recs {
					if hasCreds && t.id == user && t.secret == pw {
						why = fmt.Sprintf("the token was deleted %d s ago", k.vsec-t.deletedAt)
					}
				}
				k.fail(fmt.Sprintf("class=admitted-unissued-credentials: request from %q to %q with (user %q, password %q) admitted: %s (credential kind %s)", o.addr, p.p, user, pw, why, credKind), at)
			}
		}
		if p.lbl == pAPI && hasCreds && strings.HasPrefix(credKind, "split") {
			k.nontriv = true
		}
	}

	// ---- model event and observation
	ip := "None"
	if a := parsedIP(o.addr); a != "" {
		ip = "(Some " + k.sx(a) + ")"
	}
	k.evs = append(k.evs, fmt.Sprintf("CR %s %s %s", ip, k.sx(p.p), k.cx(user, pw, hasCreds)))
	k.obs = append(k.obs, fmt.Sprintf("r%d %s %s", code, pc(ctxTok), CoqBool(ctxLocal)))
	k.descr = append(k.descr, evDesc{Vsec: k.vsec, Kind: "request", A: strconv.Quote(o.addr), Path: strconv.Quote(p.p),
		Header: strconv.Quote(header), Cred: credKind, Result: fmt.Sprint(code)})

	// ---- distribution
	k.count("request")
	k.count([]string{"origin_loopback", "origin_non_loopback", "origin_malformed_or_arguable"}[o.lbl])
	k.count([]string{"path_api", "path_local_only", "path_exempt", "path_arguable"}[p.lbl])
	k.count("cred_" + credKind)
	k.count(fmt.Sprintf("result_%d", code))
	if admitted && o.lbl == lblNon && (p.lbl == pAPI) && !k.disable {
		k.count("admitted_nonlocal_api_by_token")
	}
}

func basic(u, p string) string {
	return "Basic " + base64.StdEncoding.EncodeToString([]byte(u+":"+p))
}

// credentials derived from the issued tokens; returns the header and the kind
func (k *caseRun) genCreds() (string, string) {
	r := k.r
	if len(k.recs) == 0 || r.Chance(6) {
		switch r.Intn(8) {
		case 0:
			return "", "none"
		case 1:
			return "Basic " + base64.StdEncoding.EncodeToString([]byte("nocolon")), "malformed_no_colon"
		case 2:
			return "Bearer abcdef", "malformed_bearer"
		case 3:
			return "Basic !!!notbase64", "malformed_base64"
		case 4:
			return "Basic", "malformed_short"
		case 5:
			return basic("", ""), "empty_pair"
		default:
			return basic(randValidID(r, 4), hex.EncodeToString(r.Bytes(1+r.Intn(32)))), "random_pair"
		}
	}
	t := k.recs[r.Intn(len(k.recs))]
	if r.Chance(35) { // prefer the most recent tokens: they are the ones in the cache
		t = k.recs[len(k.recs)-1-r.Intn(min(2, len(k.recs)))]
	}
	w := t.id + t.secret
	switch x := r.Intn(100); {
	case x < 30:
		if r.Chance(8) {
			return "basic " + base64.StdEncoding.EncodeToString([]byte(t.id+":"+t.secret)), "exact_lowercase_scheme"
		}
		return basic(t.id, t.secret), "exact"
	case x < 62:
		var cut int
		switch y := r.Intn(10); {
		case y < 5: // around the id boundary
			cut = len(t.id) - 3 + r.Intn(7)
		case y < 9:
			cut = r.Intn(len(w) + 1)
		case y == 9:
			cut = []int{0, len(w)}[r.Intn(2)]
		}
		if cut < 0 {
			cut = 0
		}
		if cut > len(w) {
			cut = len(w)
		}
		if cut == len(t.id) {
			return basic(t.id, t.secret), "exact"
		}
		return basic(w[:cut], w[cut:]), "split"
	case x < 68: // the shifted part of the id moved into the password with the colon kept
		if len(t.id) > 1 {
			cut := 1 + r.Intn(len(t.id)-1)
			return basic(t.id[:cut], t.id[cut:]+":"+t.secret), "split_colon"
		}
		return basic(t.id, ":"+t.secret), "colon_secret"
	case x < 72:
		return basic(t.id, t.id+":"+t.secret), "id_with_full_token"
	case x < 82:
		s := t.secret
		switch r.Intn(6) {
		case 0:
			if len(s) > 0 {
				s = s[:len(s)-1]
			}
		case 1:
			s += "0"
		case 2:
			s = strings.ToUpper(s)
		case 3:
			s = ""
		case 4:
			if len(s) > 0 {
				b := []byte(s)
				i := r.Intn(len(b))
				b[i] ^= 1
				s = string(b)
			}
		case 5:
			s = s + ":"
		}
		if s == t.secret {
			return basic(t.id, s), "exact"
		}
		return basic(t.id, s), "mutated_secret"
	case x < 90:
		o := k.recs[r.Intn(len(k.recs))]
		if o.secret == t.secret {
			return basic(t.id, t.secret), "exact"
		}
		return basic(t.id, o.secret), "cross_secret"
	case x < 95:
		id := t.id
		switch r.Intn(3) {
		case 0:
			id = strings.ToUpper(id)
		case 1:
			id = id + " "
		case 2:
			id = " " + id
		}
		if id == t.id {
			return basic(id, t.secret), "exact"
		}
		return basic(id, t.secret), "mutated_id"
	default:
		return basic(t.id+":"+t.secret, ""), "token_as_user"
	}
}

func min(a, b int) int {
	if a < b {
		return a
	}
	return b
}

func (k *caseRun) genOrigin() originSpec {
	r := k.r
	switch x := r.Intn(100); {
	case x < 62: // mostly the interesting side: not loopback
		for {
			o := origins[r.Intn(len(origins))]
			if o.lbl == lblNon {
				return o
			}
		}
	case x < 80:
		for {
			o := origins[r.Intn(len(origins))]
			if o.lbl == lblLoop {
				return o
			}
		}
	default:
		return origins[r.Intn(len(origins))]
	}
}

func (k *caseRun) genPath() pathSpec {
	r := k.r
	if r.Chance(55) {
		for {
			p := paths[r.Intn(len(paths))]
			if p.lbl == pAPI {
				return p
			}
		}
	}
	return paths[r.Intn(len(paths))]
}

var lanAPI = struct {
	o originSpec
	p pathSpec
}{originSpec{"10.0.0.5:4444", lblNon}, pathSpec{"/list-transactions", pAPI}}

var advances = []int{0, 1, 2, 30, 60, 120, 150, 298, 300, 301, 400, 600}

func (k *caseRun) genID() string {
	r := k.r
	switch x := r.Intn(100); {
	case x < 12:
		return invalidIDs[r.Intn(len(invalidIDs))]
	case x < 30 && len(k.recs) > 0: // an id made of another token's id and a prefix of its secret
		t := k.recs[r.Intn(len(k.recs))]
		return t.id + t.secret[:min(len(t.secret), 1+r.Intn(4))]
	case x < 40 && len(k.recs) > 0: // a proper prefix of an issued id
		t := k.recs[r.Intn(len(k.recs))]
		if len(t.id) > 1 {
			return t.id[:1+r.Intn(len(t.id)-1)]
		}
		return t.id
	case x < 50:
		return strings.Repeat("a", 40) + randValidID(r, 3)
	default:
		return k.idPool[r.Intn(len(k.idPool))]
	}
}

func (k *caseRun) randomOps(n int) {
	r := k.r
	for i := 0; i < n; i++ {
		switch x := r.Intn(100); {
		case x < 18 || (len(k.recs) == 0 && x < 60):
			k.doCreate(k.genID())
		case x < 27:
			live := k.liveRecs()
			switch {
			case len(live) > 0 && r.Chance(70):
				k.doDelete(live[r.Intn(len(live))].id)
			case len(k.recs) > 0 && r.Chance(50):
				k.doDelete(k.recs[r.Intn(len(k.recs))].id)
			default:
				k.doDelete(k.genID())
			}
		case x < 33:
			if len(k.recs) > 0 && r.Chance(80) {
				t := k.recs[r.Intn(len(k.recs))]
				switch r.Intn(4) {
				case 0, 1:
					k.doCheck(t.id, t.secret)
				case 2:
					k.doCheck(t.id, t.secret+"0")
				default:
					w := t.id + t.secret
					cut := r.Intn(len(w) + 1)
					k.doCheck(w[:cut], w[cut:])
				}
			} else {
				k.doCheck(k.genID(), "00")
			}
		case x < 45:
			k.doAdvance(advances[r.Intn(len(advances))])
		default:
			h, kind := k.genCreds()
			k.doRequest(k.genOrigin(), k.genPath(), h, kind)
		}
	}
}

// every split of id‖secret against a cached token, then the window after its deletion
func (k *caseRun) sweepOps() {
	r := k.r
	id := randValidID(r, 4)
	k.doCreate(id)
	if r.Bool() { // a second token whose id is a neighbour of the first
		switch r.Intn(3) {
		case 0:
			k.doCreate(id + "0")
		case 1:
			if len(id) > 1 {
				k.doCreate(id[:len(id)-1])
			}
		case 2:
			k.doCreate(id[:1])
		}
	}
	if len(k.recs) == 0 {
		return
	}
	t := k.recs[0]
	warm := r.Chance(85)
	if warm {
		k.doRequest(lanAPI.o, lanAPI.p, basic(t.id, t.secret), "exact")
	}
	w := t.id + t.secret
	for cut := 0; cut <= len(w); cut++ {
		kind := "split"
		if cut == len(t.id) {
			kind = "exact"
		}
		o, p := lanAPI.o, lanAPI.p
		if r.Chance(15) {
			o = k.genOrigin()
		}
		if r.Chance(10) {
			p = k.genPath()
		}
		k.doRequest(o, p, basic(w[:cut], w[cut:]), kind)
	}
	k.doAdvance([]int{0, 100, 298}[r.Intn(3)])
	k.doDelete(t.id)
	for _, cut := range []int{len(t.id) - 1, len(t.id), len(t.id) + 1, r.Intn(len(w) + 1)} {
		if cut >= 0 && cut <= len(w) {
			kind := "split"
			if cut == len(t.id) {
				kind = "exact"
			}
			k.doRequest(lanAPI.o, lanAPI.p, basic(w[:cut], w[cut:]), kind)
		}
	}
	k.doAdvance([]int{2, 300, 301}[r.Intn(3)])
	k.doRequest(lanAPI.o, lanAPI.p, basic(t.id, t.secret), "exact")
	k.doRequest(lanAPI.o, lanAPI.p, basic(w[:1], w[1:]), "split")
}

// create, validate, age, delete, age, retry: both sides of the window and re-creation
func (k *caseRun) windowOps() {
	r := k.r
	adv := func() { k.doAdvance(advances[r.Intn(len(advances))]) }
	id := k.idPool[r.Intn(len(k.idPool))]
	k.doCreate(id)
	if len(k.recs) == 0 {
		return
	}
	t := k.recs[0]
	ex := func() { k.doRequest(k.genOrigin(), k.genPath(), basic(t.id, t.secret), "exact") }
	lan := func() { k.doRequest(lanAPI.o, lanAPI.p, basic(t.id, t.secret), "exact") }
	if r.Chance(85) {
		lan()
	}
	adv()
	if r.Bool() {
		lan() // within the window: no refresh; after it: validated again while live
	}
	if r.Bool() {
		adv()
	}
	k.doDelete(t.id)
	if r.Chance(40) {
		lan()
	}
	adv()
	lan()
	if r.Chance(50) { // the id is issued again with another secret; the old pair is only in the cache
		k.doCreate(t.id)
		lan()
		n := k.recs[len(k.recs)-1]
		k.doRequest(lanAPI.o, lanAPI.p, basic(n.id, n.secret), "exact")
		k.doRequest(lanAPI.o, lanAPI.p, basic(n.id, t.secret), "cross_secret")
	}
	adv()
	lan()
	ex()
	k.randomOps(r.Intn(8))
}

func newCase(c *Ctx, seed uint64, kind string, idx int) *caseRun {
	r := NewRng(seed)
	k := &caseRun{c: c, r: r, kind: kind, seenID: map[string]bool{}, counts: map[string]int{}}
	k.disable = kind == "random" && r.Chance(8)
	var db dbm.DB
	if r.Chance(10) {
		dir, err := os.MkdirTemp("", "c36db")
		if err != nil {
			panic(err)
		}
		db = dbm.NewDB("tok", "leveldb", dir)
		k.cleanup = func() { db.Close(); os.RemoveAll(dir) }
		k.count("db_leveldb")
	} else {
		db = dbm.NewMemDB()
		k.cleanup = func() {}
		k.count("db_mem")
	}
	k.cs = accesstoken.NewStore(db)
	k.api = authn.NewAPI(k.cs, k.disable)
	base := randValidID(r, 5)
	k.idPool = []string{base, base + "x", base + base, base + "0", "ab", "a", "abc", "0", "00", "deadbeef", "A1", "_x", "a-b", "-", randValidID(r, 8)}
	if len(base) > 1 {
		k.idPool = append(k.idPool, base[:len(base)-1])
	}
	return k
}

func (k *caseRun) run() time.Duration {
	t0 := time.Now()
	switch k.kind {
	case "sweep":
		k.sweepOps()
	case "window":
		k.windowOps()
	default:
		k.randomOps(8 + k.r.Intn(32))
	}
	return time.Since(t0)
}

func (k *caseRun) finish(idx int, seed uint64) {
	c := k.c
	// final projection: the stored token strings and the size of the cache
	var toks []string
	for _, id := range k.probeIDs {
		v := k.cs.DB.Get([]byte(id))
		if v == nil {
			toks = append(toks, "None")
			continue
		}
		var t accesstoken.Token
		idx := 999 // unreadable entry, or a token string that Create never returned
		if err := json.Unmarshal(v, &t); err == nil {
			for i, rec := range k.recs {
				if rec.token == t.Token {
					idx = i
					break
				}
			}
		}
		toks = append(toks, fmt.Sprintf("(Some %d)", idx))
	}
	var ids []string
	for _, id := range k.probeIDs {
		ids = append(ids, k.sx(id))
	}
	var tbl []string
	for _, t := range k.recs {
		tbl = append(tbl, "("+pc(t.id)+", "+pc(t.secret)+")")
	}
	var evs []string
	for _, e := range k.evs {
		evs = append(evs, "("+e+")")
	}
	model := fmt.Sprintf("rc %s %s %s %s", CoqBool(k.disable), CoqList(tbl), CoqList(evs), CoqList(ids))
	var obs []string
	for _, o := range k.obs {
		if strings.Contains(o, " ") {
			o = "(" + o + ")"
		}
		obs = append(obs, o)
	}
	observed := fmt.Sprintf("observed %s %s %d", CoqList(obs), CoqList(toks), k.api.VerifCacheLen())
	id := c.Cases.Add(model, observed)
	c.Stats.Count("model_evaluated")
	c.Stats.Case(fmt.Sprintf("%s-%d", k.kind, seed), k.nontriv)
	for b, n := range k.counts {
		for i := 0; i < n; i++ {
			c.Stats.Count(b)
		}
	}
	c.Stats.Count("case_" + k.kind)
	if k.disable {
		c.Stats.Count("case_auth_disabled")
	}
	c.Stats.Count("events_" + sizeClass(len(k.obs)))
	for _, f := range k.fails {
		c.Stats.Fail(f.What, f.Case)
	}
	d := map[string]interface{}{"kind": k.kind, "case_seed": seed, "disable": k.disable, "events": len(k.obs)}
	if id < 40 || len(k.fails) > 0 {
		d["steps"] = k.descr
	}
	c.Stats.CaseIndex[fmt.Sprint(id)] = d
	if idx%97 == 3 || len(k.fails) > 0 {
		n := len(k.descr)
		if n > 14 {
			n = 14
		}
		c.Stats.Sample(map[string]interface{}{"kind": k.kind, "disable": k.disable, "events_total": len(k.descr), "first_steps": k.descr[:n]})
	}
}

func sizeClass(n int) string {
	switch {
	case n <= 3:
		return "0_3"
	case n <= 12:
		return "4_12"
	case n <= 30:
		return "13_30"
	case n <= 60:
		return "31_60"
	default:
		return "61_up"
	}
}

// A case is executed with a generator seeded by its own seed.  The model reads the
// clock as (virtual seconds, step counter); the implementation reads the real clock,
// which differs from the virtual one by the real time the case takes.  The two agree
// as long as a case takes well under a second; a slower execution (loaded machine) is
// repeated, and dropped from the correspondence (never from the oracle, which cannot be
// misled by a slow clock: slowness only makes cached results expire earlier).
func oneCase(c *Ctx, kind string, idx int) {
	seed := c.Rng.Next()
	for attempt := 0; ; attempt++ {
		k := newCase(c, seed, kind, idx)
		el := k.run()
		if el < 400*time.Millisecond {
			k.finish(idx, seed)
			k.cleanup()
			return
		}
		c.Stats.Count("case_repeated_slow_execution")
		if attempt == 3 {
			for _, f := range k.fails {
				c.Stats.Fail(f.What, f.Case)
			}
			c.Stats.Count("case_dropped_slow_execution")
			k.cleanup()
			return
		}
		k.cleanup()
	}
}

func runC36(c *Ctx) error {
	nSweep, nWindow, nRandom := c.N(14, 160), c.N(150, 1500), c.N(420, 4200)
	for i := 0; i < nSweep; i++ {
		oneCase(c, "sweep", i)
	}
	for i := 0; i < nWindow; i++ {
		oneCase(c, "window", nSweep+i)
	}
	for i := 0; i < nRandom; i++ {
		oneCase(c, "random", nSweep+nWindow+i)
	}
	c.Stats.Rule = "a case is a fresh token store + authn.API and a history of Create/Delete/Check/clock-advance/Authenticate steps " +
		"(sweep: every split of id||secret of a cached token from a LAN address, then deletion and both sides of the 5-minute window; " +
		"window: create, validate, age, delete, age, retry, re-create; random: 8-40 weighted steps over origins x paths x derived credentials); " +
		"distinct = distinct case seed; non-trivial = the case contains a request from a non-loopback origin to an API path whose credentials are a proper split of an issued id||secret; " +
		"on every request the implementation's answer is checked against the property (admitted from a non-loopback origin on a non-exempt path => exactly an issued pair, live or deleted <= 300 s ago; local-only endpoints refused); " +
		"per-step result classes, context token/localhost flag, final stored token strings and cache size are compared with the Coq model"
	var vs []string
	for _, v := range vocab {
		vs = append(vs, pc(v))
	}
	header := "From Coq Require Import ZArith NArith List Bool.\nFrom Verif Require Import Cmp.\nFrom C36 Require Import Model Run.\nImport ListNotations.\nOpen Scope N_scope.\n" +
		"Definition vocab : list str := Eval vm_compute in map ps " + CoqList(vs) + ".\n" +
		"Definition rc := run_case vocab.\n"
	c.Cases.Shard = c.N(100, 300)
	return c.Cases.Write(c.Out, header, "cres", "cres_eqb")
}
