package chainlib

import (
	"bytes"

	"golang.org/x/crypto/sha3"

	"github.com/bytom/bytom/crypto/ed25519/chainkd"
	"github.com/bytom/bytom/protocol/bc"
)

// SignVote signs the casper verification message sha3(source ‖ target).
func SignVote(k chainkd.XPrv, source, target bc.Hash) []byte {
	buf := new(bytes.Buffer)
	source.WriteTo(buf)
	target.WriteTo(buf)
	msg := sha3.Sum256(buf.Bytes())
	return k.Sign(msg[:])
}
