// Package chainlib: shared Go side of the chain-level properties (C10–C14,
// C16–C19, C23, C37, C38). It configures small consensus parameters, builds
// real signed blocks and transactions OFFLINE (its own bookkeeping of
// timestamps, proposer slots, vote tallies and epoch rewards — independent of
// the node under test), runs real nodes (protocol.Chain on LevelDB in a scratch
// directory) and dumps their projected state.
//
// Funding: every block's coinbase pays the program OP_TRUE (0x51), so epoch
// rewards become anyone-can-spend outputs (first block of every epoch from
// epoch 2 on, spendable after the 10-block coinbase maturity). No signatures
// are needed in transactions; block headers and votes are signed with the
// federation keys, all held by the harness.
package chainlib

import (
	"encoding/hex"
	"encoding/json"
	"fmt"
	"os"
	"sort"
	"time"

	log "github.com/sirupsen/logrus"

	"github.com/bytom/bytom/config"
	"github.com/bytom/bytom/consensus"
	"github.com/bytom/bytom/crypto/ed25519/chainkd"
	"github.com/bytom/bytom/database"
	dbm "github.com/bytom/bytom/database/leveldb"
	"github.com/bytom/bytom/event"
	"github.com/bytom/bytom/protocol"
	"github.com/bytom/bytom/protocol/bc"
	"github.com/bytom/bytom/protocol/bc/types"
	"github.com/bytom/bytom/protocol/casper"
	"github.com/bytom/bytom/protocol/state"
)

// OpTrue is the anyone-can-spend control program used for all outputs.
var OpTrue = []byte{0x51}

type Options struct {
	NKeys         int    // 1 (solonet: the node self-justifies every epoch) or 4 (federation, harness holds all keys)
	LocalKey      int    // which key is the node's own (config.CommonConfig.XPrv)
	BlocksOfEpoch uint64 // e.g. 4
	MinVote       uint64 // MinValidatorVoteNum; keep huge so that the federation stays effective
	VotePending   uint64 // blocks a vote output stays locked
	// VotePendingSwitch > 0: from that height on the lock is VotePendingLate blocks (a two-range
	// schedule like mainnet's, whose lock lengthens at a fixed height)
	VotePendingSwitch uint64
	VotePendingLate   uint64
}

func DefaultOptions() Options {
	return Options{NKeys: 4, LocalKey: 0, BlocksOfEpoch: 4, MinVote: 1 << 62, VotePending: 3}
}

// World is the harness's own view of the block tree it has built.
type World struct {
	Opt     Options
	Keys    []chainkd.XPrv
	Pubs    []chainkd.XPub
	Genesis *BlockInfo
	Blocks  map[bc.Hash]*BlockInfo
}

type BlockInfo struct {
	Block  *types.Block
	Hash   bc.Hash
	Parent *BlockInfo
	// timestamp of the last epoch-boundary block (height % E == 0) at or before this block
	CkTimestamp uint64
	// rewards accumulated by the epoch this block belongs to, up to and including it (program hex -> amount)
	EpochRewards map[string]uint64
	// rewards of the last finished epoch before this block's epoch (what the next epoch-first coinbase must pay)
	PrevRewards map[string]uint64
	Votes       map[string]uint64 // tally pubkey-hex -> amount along the branch (as Checkpoint.Votes)
	Proposer    int
}

func init() {
	log.SetLevel(log.PanicLevel) // the node logs a lot; keep child output parseable
}

// Init sets the global consensus parameters and the node's key. Must be called
// before any node is created. Keys are deterministic.
func Init(o Options) *World {
	w := &World{Opt: o, Blocks: map[bc.Hash]*BlockInfo{}}
	for i := 0; i < o.NKeys; i++ {
		seed := make([]byte, 32)
		for j := range seed {
			seed[j] = byte(17*i + j + 1)
		}
		xprv := chainkd.RootXPrv(seed)
		w.Keys = append(w.Keys, xprv)
		w.Pubs = append(w.Pubs, xprv.XPub())
	}
	if o.NKeys == 1 {
		consensus.ActiveNetParams = consensus.SoloNetParams
	} else {
		consensus.ActiveNetParams = consensus.TestNetParams
		consensus.ActiveNetParams.FederationXpubs = append([]chainkd.XPub{}, w.Pubs...)
		consensus.ActiveNetParams.MaxTimeOffsetMs = 24000
	}
	consensus.ActiveNetParams.BlocksOfEpoch = o.BlocksOfEpoch
	consensus.ActiveNetParams.MinValidatorVoteNum = o.MinVote
	consensus.ActiveNetParams.VotePendingBlockNums = []consensus.VotePendingBlockNum{{BeginBlock: 0, EndBlock: ^uint64(0), Num: o.VotePending}}
	if o.VotePendingSwitch > 0 {
		consensus.ActiveNetParams.VotePendingBlockNums = []consensus.VotePendingBlockNum{
			{BeginBlock: 0, EndBlock: o.VotePendingSwitch, Num: o.VotePending},
			{BeginBlock: o.VotePendingSwitch, EndBlock: ^uint64(0), Num: o.VotePendingLate}}
	}
	config.CommonConfig = config.DefaultConfig()
	k := w.Keys[o.LocalKey]
	config.CommonConfig.XPrv = &k
	if o.NKeys == 1 {
		consensus.ActiveNetParams.FederationXpubs = []chainkd.XPub{w.Pubs[0]}
	}
	g := config.GenesisBlock()
	gi := &BlockInfo{Block: g, Hash: g.Hash(), CkTimestamp: g.Timestamp, EpochRewards: map[string]uint64{},
		PrevRewards: map[string]uint64{}, Votes: map[string]uint64{}}
	w.Genesis = gi
	w.Blocks[gi.Hash] = gi
	return w
}

// ---------------------------------------------------------------- nodes

type Node struct {
	Dir   string
	DB    dbm.DB
	Store *database.Store
	Pool  *protocol.TxPool
	Disp  *event.Dispatcher
	Chain *protocol.Chain
}

// NewNode opens (or re-opens) a node on LevelDB under dir.
func NewNode(dir string) (*Node, error) {
	os.MkdirAll(dir, 0755)
	db := dbm.NewDB("core", "leveldb", dir)
	return NewNodeOnDB(dir, db)
}

func NewNodeOnDB(dir string, db dbm.DB) (*Node, error) {
	store := database.NewStore(db)
	disp := event.NewDispatcher()
	pool := protocol.NewTxPool(store, disp)
	chain, err := protocol.NewChain(store, pool, disp)
	if err != nil {
		return nil, err
	}
	return &Node{Dir: dir, DB: db, Store: store, Pool: pool, Disp: disp, Chain: chain}, nil
}

func (n *Node) Close() { n.DB.Close() }

// CloseSettled waits until casper's background loop has worked off what the delivered blocks queued
// (it reads the store; closing the database under it makes the goroutine panic) and closes the node.
func (n *Node) CloseSettled() {
	n.Chain.VerifCasper().VerifSettle()
	n.Chain.VerifCasper().VerifSettle()
	time.Sleep(5 * time.Millisecond)
	n.DB.Close()
}

// CloneBlock deep-copies a block (the node mutates block.SupLinks while processing).
func CloneBlock(b *types.Block) *types.Block {
	bs, err := b.MarshalText()
	if err != nil {
		panic(err)
	}
	nb := &types.Block{}
	if err := nb.UnmarshalText(bs); err != nil {
		panic(err)
	}
	return nb
}

// Process delivers a copy of the block.
func (n *Node) Process(b *types.Block) (orphan bool, err error) {
	return n.Chain.ProcessBlock(CloneBlock(b))
}

// ---------------------------------------------------------------- transactions

// Out identifies an output of a transaction built by the harness.
type Out struct {
	Tx  *types.Tx
	Pos int
}

func (o Out) ID() bc.Hash       { return *o.Tx.ResultIds[o.Pos] }
func (o Out) Amount() uint64    { return o.Tx.Outputs[o.Pos].Amount }
func (o Out) Asset() bc.AssetID { return *o.Tx.Outputs[o.Pos].AssetId }
func (o Out) IsVote() bool      { return o.Tx.Outputs[o.Pos].OutputType() == types.VoteOutputType }

func muxID(tx *types.Tx, pos int) bc.Hash {
	switch e := tx.Entries[*tx.ResultIds[pos]].(type) {
	case *bc.OriginalOutput:
		return *e.Source.Ref
	case *bc.VoteOutput:
		return *e.Source.Ref
	}
	panic("muxID: not a spendable output")
}

// SpendInput spends (or, for a vote output, vetoes) the output.
func SpendInput(o Out) *types.TxInput {
	out := o.Tx.Outputs[o.Pos]
	if t, ok := out.TypedOutput.(*types.VoteOutput); ok {
		return types.NewVetoInput(nil, muxID(o.Tx, o.Pos), *out.AssetId, out.Amount, uint64(o.Pos), out.ControlProgram, t.Vote, out.StateData)
	}
	return types.NewSpendInput(nil, muxID(o.Tx, o.Pos), *out.AssetId, out.Amount, uint64(o.Pos), out.ControlProgram, out.StateData)
}

// OutSpec describes an output to create.
type OutSpec struct {
	Amount  uint64
	Vote    []byte // non-nil: vote output for this xpub (64 bytes)
	Program []byte // nil: OP_TRUE
	State   [][]byte
}

// DefaultFee covers storage and VM gas of the small transactions built here.
const DefaultFee = 2000000

// NewTx builds a BTM transaction spending ins into outs. The fee is whatever is left.
// salt makes otherwise identical transactions distinct (it goes into TimeRange-free data: an extra state item).
func NewTx(ins []Out, outs []OutSpec, timeRange uint64) *types.Tx {
	td := types.TxData{Version: 1, TimeRange: timeRange}
	for _, in := range ins {
		td.Inputs = append(td.Inputs, SpendInput(in))
	}
	for _, o := range outs {
		prog := o.Program
		if prog == nil {
			prog = OpTrue
		}
		if o.Vote != nil {
			td.Outputs = append(td.Outputs, types.NewVoteOutput(*consensus.BTMAssetID, o.Amount, prog, o.Vote, o.State))
		} else {
			td.Outputs = append(td.Outputs, types.NewOriginalTxOutput(*consensus.BTMAssetID, o.Amount, prog, o.State))
		}
	}
	return finishTx(td)
}

func finishTx(td types.TxData) *types.Tx {
	bs, err := td.MarshalText()
	if err != nil {
		panic(err)
	}
	td.SerializedSize = uint64(len(bs))
	return types.NewTx(td)
}

// Transfer spends ins into one OP_TRUE output of (sum - fee) (splitting into n equal outputs when n > 1).
func Transfer(ins []Out, n int, fee uint64, timeRange uint64) *types.Tx {
	var sum uint64
	for _, in := range ins {
		sum += in.Amount()
	}
	if n < 1 {
		n = 1
	}
	each := (sum - fee) / uint64(n)
	var outs []OutSpec
	for i := 0; i < n; i++ {
		outs = append(outs, OutSpec{Amount: each})
	}
	return NewTx(ins, outs, timeRange)
}

// ---------------------------------------------------------------- blocks

func cloneMap(m map[string]uint64) map[string]uint64 {
	r := map[string]uint64{}
	for k, v := range m {
		r[k] = v
	}
	return r
}

// subsidy mirrors the documented rule: BlockReward when the pledge rate exceeds 0.5,
// otherwise (rate + 0.5) * BlockReward, rate = total votes / (height*BlockReward/2 + initial supply).
func subsidy(votes map[string]uint64, height uint64) uint64 {
	var total uint64
	for _, v := range votes {
		total += v
	}
	supply := height*consensus.BlockReward/2 + consensus.InitBTMSupply
	rate := float64(total) / float64(supply)
	if rate <= consensus.RewardThreshold {
		return uint64((rate + consensus.RewardThreshold) * float64(consensus.BlockReward))
	}
	return consensus.BlockReward
}

// ProposerSlot returns the smallest timestamp >= parent.Timestamp + interval (+ skip slots) and the
// federation index scheduled for it. Only valid while the federation is the effective validator set.
func (w *World) ProposerSlot(parent *BlockInfo, skip int) (uint64, int) {
	iv := consensus.ActiveNetParams.BlockTimeInterval
	start := parent.CkTimestamp + iv
	t := parent.Block.Timestamp + iv + uint64(skip)*iv
	// align to slot start so that distinct skips give distinct proposers
	t = start + (t-start)/iv*iv
	if t < parent.Block.Timestamp+iv {
		t += iv
	}
	n := uint64(len(w.Keys))
	return t, int(((t - start) / iv) % n)
}

type BlockOpt struct {
	Skip          int                  // extra time slots to skip
	RewardProgram []byte               // nil: OP_TRUE
	Mutate        func(b *types.Block) // applied before the merkle root and signature are computed
	MutateAfter   func(b *types.Block) // applied after signing (signature then does not match)
	BadSigner     bool                 // sign with the wrong key
	CoinbaseOuts  []OutSpec            // overrides the coinbase outputs entirely
}

// NewBlock builds and signs a block on parent containing txs (after the coinbase).
func (w *World) NewBlock(parent *BlockInfo, txs []*types.Tx, o BlockOpt) *BlockInfo {
	E := w.Opt.BlocksOfEpoch
	height := parent.Block.Height + 1
	ts, proposer := w.ProposerSlot(parent, o.Skip)
	prog := o.RewardProgram
	if prog == nil {
		prog = OpTrue
	}
	// coinbase
	arbitrary := append([]byte{0x00}, []byte(fmt.Sprint(height))...)
	cb := types.TxData{Version: 1, Inputs: []*types.TxInput{types.NewCoinbaseInput(arbitrary)}}
	if o.CoinbaseOuts != nil {
		for _, s := range o.CoinbaseOuts {
			p := s.Program
			if p == nil {
				p = OpTrue
			}
			cb.Outputs = append(cb.Outputs, types.NewOriginalTxOutput(*consensus.BTMAssetID, s.Amount, p, nil))
		}
	} else {
		cb.Outputs = []*types.TxOutput{types.NewOriginalTxOutput(*consensus.BTMAssetID, 0, prog, nil)}
		if height%E == 1 && height != 1 {
			var progs []string
			for p := range parent.EpochRewards {
				progs = append(progs, p)
			}
			sort.Strings(progs)
			for _, p := range progs {
				amt := parent.EpochRewards[p]
				if p == hex.EncodeToString(prog) {
					cb.Outputs[0].Amount = amt
					continue
				}
				pb, _ := hex.DecodeString(p)
				cb.Outputs = append(cb.Outputs, types.NewOriginalTxOutput(*consensus.BTMAssetID, amt, pb, nil))
			}
		}
	}
	cbTx := finishTx(cb)
	b := &types.Block{BlockHeader: types.BlockHeader{Version: 1, Height: height, PreviousBlockHash: parent.Hash, Timestamp: ts},
		Transactions: append([]*types.Tx{cbTx}, txs...)}
	if o.Mutate != nil {
		o.Mutate(b)
	}
	var bcTxs []*bc.Tx
	for _, tx := range b.Transactions {
		bcTxs = append(bcTxs, tx.Tx)
	}
	root, err := types.TxMerkleRoot(bcTxs)
	if err != nil {
		panic(err)
	}
	b.TransactionsMerkleRoot = root
	signer := proposer
	if o.BadSigner {
		signer = (proposer + 1) % len(w.Keys)
		if len(w.Keys) == 1 {
			seed := make([]byte, 32)
			seed[0] = 0xee
			k := chainkd.RootXPrv(seed)
			b.BlockWitness = k.Sign(b.Hash().Bytes())
		}
	}
	if !(o.BadSigner && len(w.Keys) == 1) {
		b.BlockWitness = w.Keys[signer].Sign(b.Hash().Bytes())
	}
	if o.MutateAfter != nil {
		o.MutateAfter(b)
	}
	// bookkeeping
	bi := &BlockInfo{Block: b, Hash: b.Hash(), Parent: parent, Proposer: proposer, CkTimestamp: parent.CkTimestamp}
	bi.Votes = cloneMap(parent.Votes)
	for k, v := range bi.Votes {
		if v == 0 {
			delete(bi.Votes, k)
		}
	}
	for _, tx := range b.Transactions {
		for _, in := range tx.Inputs {
			if v, ok := in.TypedInput.(*types.VetoInput); ok {
				pk := hex.EncodeToString(v.Vote)
				if bi.Votes[pk] > v.Amount {
					bi.Votes[pk] -= v.Amount
				} else {
					delete(bi.Votes, pk)
				}
			}
		}
		for _, out := range tx.Outputs {
			if v, ok := out.TypedOutput.(*types.VoteOutput); ok {
				bi.Votes[hex.EncodeToString(v.Vote)] += out.Amount
			}
		}
	}
	if height%E == 1 {
		bi.PrevRewards = cloneMap(parent.EpochRewards)
		bi.EpochRewards = map[string]uint64{}
	} else {
		bi.PrevRewards = parent.PrevRewards
		bi.EpochRewards = cloneMap(parent.EpochRewards)
	}
	rp := hex.EncodeToString(b.Transactions[0].Outputs[0].ControlProgram)
	for _, tx := range b.Transactions {
		bi.EpochRewards[rp] += tx.Fee()
	}
	bi.EpochRewards[rp] += subsidy(bi.Votes, height)
	if height%E == 0 {
		bi.CkTimestamp = ts
	}
	w.Blocks[bi.Hash] = bi
	return bi
}

// RewardOuts lists the spendable outputs of a block's coinbase (amount > 0).
func (bi *BlockInfo) RewardOuts() []Out {
	var r []Out
	cb := bi.Block.Transactions[0]
	for i, o := range cb.Outputs {
		if o.Amount > 0 {
			r = append(r, Out{cb, i})
		}
	}
	return r
}

// Chain returns the path genesis..bi.
func (bi *BlockInfo) Chain() []*BlockInfo {
	var r []*BlockInfo
	for x := bi; x != nil; x = x.Parent {
		r = append([]*BlockInfo{x}, r...)
	}
	return r
}

// Trunk extends parent by n empty blocks and returns them.
func (w *World) Trunk(parent *BlockInfo, n int) []*BlockInfo {
	var r []*BlockInfo
	for i := 0; i < n; i++ {
		parent = w.NewBlock(parent, nil, BlockOpt{})
		r = append(r, parent)
	}
	return r
}

// ---------------------------------------------------------------- votes (verification messages)

// Vote builds the verification message of federation member k for the link source -> target
// (both epoch-boundary blocks).
func (w *World) Vote(k int, source, target bc.Hash) *casper.ValidCasperSignMsg {
	msg := &casper.ValidCasperSignMsg{SourceHash: source, TargetHash: target, PubKey: w.Pubs[k].String()}
	msg.Signature = SignVote(w.Keys[k], source, target)
	return msg
}

// ---------------------------------------------------------------- state dump

type UtxoDump struct {
	Type   string `json:"type"`
	Height uint64 `json:"height"`
	Spent  bool   `json:"spent"`
}

type CheckpointDump struct {
	Height   uint64 `json:"height"`
	Hash     string `json:"hash"`
	Parent   string `json:"parent"`
	Status   string `json:"status"`
	SupLinks []struct {
		Source string `json:"source"`
		Slots  []int  `json:"slots"`
	} `json:"suplinks,omitempty"`
}

type Dump struct {
	Best        string               `json:"best"`
	Height      uint64               `json:"height"`
	Index       []string             `json:"index"` // main-chain hash by height, "" when absent
	Justified   string               `json:"justified"`
	Finalized   string               `json:"finalized"`
	Utxos       map[string]*UtxoDump `json:"utxos"` // tracked output id -> entry (absent: nil)
	InMain      map[string]bool      `json:"in_main"`
	Pool        []string             `json:"pool"`
	Checkpoints []CheckpointDump     `json:"checkpoints,omitempty"`
}

func statusName(s state.CheckpointStatus) string {
	return []string{"growing", "unjustified", "justified", "finalized"}[s]
}

// Dump projects the node's state. outs = output ids to look up; blocks = hashes to query InMainChain for;
// maxHeight = highest height to query in the index (queries beyond best reveal stale entries).
func (n *Node) Dump(outs []bc.Hash, blocks []bc.Hash, maxHeight uint64) *Dump {
	d := &Dump{Utxos: map[string]*UtxoDump{}, InMain: map[string]bool{}}
	bh := n.Chain.BestBlockHeader()
	h := bh.Hash()
	d.Best, d.Height = h.String(), bh.Height
	for i := uint64(0); i <= maxHeight; i++ {
		hh, err := n.Chain.GetHeaderByHeight(i)
		if err != nil {
			d.Index = append(d.Index, "")
		} else {
			x := hh.Hash()
			d.Index = append(d.Index, x.String())
		}
	}
	if j, err := n.Chain.LastJustifiedHeader(); err == nil {
		x := j.Hash()
		d.Justified = x.String()
	}
	if f, err := n.Chain.LastFinalizedHeader(); err == nil {
		x := f.Hash()
		d.Finalized = x.String()
	}
	for _, o := range outs {
		o := o
		e, err := n.Store.GetUtxo(&o)
		if err != nil || e == nil {
			d.Utxos[o.String()] = nil
			continue
		}
		d.Utxos[o.String()] = &UtxoDump{Type: fmt.Sprint(e.Type), Height: e.BlockHeight, Spent: e.Spent}
	}
	for _, b := range blocks {
		d.InMain[b.String()] = n.Chain.InMainChain(b)
	}
	for _, t := range n.Pool.GetTransactions() {
		d.Pool = append(d.Pool, t.Tx.ID.String())
	}
	sort.Strings(d.Pool)
	return d
}

// Checkpoints dumps the stored checkpoints at the given epoch-boundary block hashes.
func (n *Node) Checkpoints(hashes []bc.Hash) []CheckpointDump {
	var r []CheckpointDump
	for _, h := range hashes {
		h := h
		c, err := n.Store.GetCheckpoint(&h)
		if err != nil {
			continue
		}
		cd := CheckpointDump{Height: c.Height, Hash: c.Hash.String(), Parent: c.ParentHash.String(), Status: statusName(c.Status)}
		for _, sl := range c.SupLinks {
			var slots []int
			for i, s := range sl.Signatures {
				if len(s) != 0 {
					slots = append(slots, i)
				}
			}
			cd.SupLinks = append(cd.SupLinks, struct {
				Source string `json:"source"`
				Slots  []int  `json:"slots"`
			}{sl.SourceHash.String(), slots})
		}
		r = append(r, cd)
	}
	return r
}

func JSON(v interface{}) string {
	b, _ := json.Marshal(v)
	return string(b)
}
