package main

// C10 — ledger state depends only on the main chain, not on reorg history
// (protocol/state/utxo_view.go, contract_view.go, database/utxo_view.go, contract_view.go,
// protocol/block.go reorganizeChain).
//
// A case is a history for one real node (protocol.Chain on LevelDB, in a CHILD PROCESS): a trunk
// of 16 blocks (block 15 splits the first epoch reward into four plain outputs), then a random
// block tree of 5..12 blocks above it carrying transactions — spends, coinbase spends (the
// reward outputs of heights 9, 13, 17 ...), vote outputs, vetoes, BCRP contract registrations
// (three contracts: the same one on two branches and twice on one; sometimes registered by the
// coinbase), the same transaction on two branches — delivered in an order that is a random
// linear extension of the tree with some children before their parents.  Fork choice (highest
// block, then hash string) decides which deliveries reorganise; the harness reads the best block
// after every delivery and derives the detach/attach lists from its own copy of the tree.  The
// last deliveries of a case are a PROBE branch (malformed/boundary stream): a branch that ends
// one block above everything delivered and contains a double spend, an immature coinbase spend,
// a veto inside the lock, a spend of an output that exists only on another branch or nowhere —
// or nothing wrong at all.
//
// Everything the model is given is read off the real blocks mechanically (labels for hashes): per
// transaction the spent output ids with the kind of the carried entry, the result ids with kind
// and "amount != 0", the contract hashes of its BCRP outputs.
//
// Direct oracle (implementation outputs only, never the model): after every real reorganisation
// (and at the end) a FRESH node is fed only the current main chain; store.GetUtxo of every output
// id ever created and the raw contract records must agree with the node that saw the forks:
//   class=utxo-set              an output is spendable on one node and not on the other
//   class=utxo-type             type of a spendable output differs
//   class=coinbase-height       height of a spendable coinbase output differs (maturity)
//   class=vote-utxo-height-lost height of a spendable vote output differs (vote lock)   [known finding]
//   class=contract-table        registering transaction of a contract differs
//   class=contract-get          Store.GetContract disagrees with the raw record
//   class=acceptance            the probe branch is adopted by one node and refused by the other
//   class=vote-utxo-height-lost-acceptance   the same, when the probe spends a vote output whose
//                               height was lost                                            [known finding]
//   class=unexpected-error / class=crash / class=hang
// (the height of a spendable NORMAL output is no spending constraint and is not compared).
//
// Correspondence: per delivery (reorganisation succeeded, store.GetUtxo (type, height, spent) of
// every tracked output, registering transaction of every tracked contract) against
// C10.Run.run_case.

import (
	"bufio"
	"bytes"
	"encoding/json"
	"fmt"
	"os"
	"os/exec"
	"path/filepath"
	"sort"
	"strconv"
	"strings"
	"sync"
	"time"

	"github.com/bytom/bytom/consensus/bcrp"
	"github.com/bytom/bytom/crypto/sha3pool"
	"github.com/bytom/bytom/database"
	"github.com/bytom/bytom/protocol/bc"
	"github.com/bytom/bytom/protocol/bc/types"
	"github.com/bytom/bytom/protocol/vm/vmutil"
	cl "verifharness/chainlib"
	. "verifharness/hlib"
)

func main() { Main("C10", runC10, map[string]func([]string) int{"batch": childBatch}) }

// ---------------------------------------------------------------- case / result format

type Case struct {
	ID   int    `json:"id"`
	Seed uint64 `json:"seed"`
	Kind string `json:"kind"` // "random", "votes", "contracts", "deep" or a corpus name
}

// model-side transaction / block
type MTx struct {
	ID     int      `json:"id"`
	Spends [][2]int `json:"sp"`  // (output label, kind 0 original / 1 vote / 2 other)
	Outs   [][3]int `json:"out"` // (output label, kind, amount != 0)
	Regs   []int    `json:"reg"` // contract labels
}

type MBlock struct {
	Label  int    `json:"l"`
	Height uint64 `json:"h"`
	Txs    []MTx  `json:"txs"`
}

type Deliv struct {
	Block int       `json:"b"`    // label of the delivered block
	Step  bool      `json:"step"` // a reorganisation was performed or attempted
	K     int       `json:"k"`
	News  []int     `json:"news"` // labels, bottom up
	Ok    bool      `json:"ok"`
	Utxo  []*[3]int `json:"u"` // per tracked output: nil or (type, height, spent)
	Cons  []int     `json:"c"` // per tracked contract: tx label or -1
}

type Result struct {
	ID     int            `json:"id"`
	Blocks []MBlock       `json:"blocks"` // the case's own blocks (labels > trunk)
	Outs   [][2]int       `json:"outs"`   // tracked outputs (label, kind)
	Cons   []int          `json:"cons"`   // tracked contract labels
	Delivs []Deliv        `json:"d"`
	Fails  []string       `json:"fails"`
	Count  map[string]int `json:"count"`
	Descr  string         `json:"descr"`
	Reorg  bool           `json:"reorg"` // at least one reorganisation detached a block
	Panic  string         `json:"panic,omitempty"`
	Hang   bool           `json:"hang,omitempty"`
}

// ---------------------------------------------------------------- labels: real blocks -> model blocks

type labeler struct {
	outs  map[bc.Hash]int
	kinds map[int]int
	nz    map[int]bool
	txs   map[bc.Hash]int
	cons  map[[32]byte]int
	conL  [][32]byte
	outL  []bc.Hash
}

func newLabeler() *labeler {
	return &labeler{outs: map[bc.Hash]int{}, kinds: map[int]int{}, nz: map[int]bool{}, txs: map[bc.Hash]int{}, cons: map[[32]byte]int{}}
}

func (l *labeler) out(h bc.Hash, kind int) int {
	if v, ok := l.outs[h]; ok {
		return v
	}
	v := len(l.outs) + 1
	l.outs[h] = v
	l.kinds[v] = kind
	l.outL = append(l.outL, h)
	return v
}

func (l *labeler) tx(h bc.Hash) int {
	if v, ok := l.txs[h]; ok {
		return v
	}
	v := len(l.txs) + 1
	l.txs[h] = v
	return v
}

func (l *labeler) con(h [32]byte) int {
	if v, ok := l.cons[h]; ok {
		return v
	}
	v := len(l.cons) + 1
	l.cons[h] = v
	l.conL = append(l.conL, h)
	return v
}

func entryKind(e bc.Entry) (kind int, amount uint64) {
	switch o := e.(type) {
	case *bc.OriginalOutput:
		return 0, o.Source.Value.Amount
	case *bc.VoteOutput:
		return 1, o.Source.Value.Amount
	}
	return 2, 0
}

// modelBlock reads off what utxo_view.go and contract_view.go look at.
func (l *labeler) modelBlock(label int, b *types.Block) MBlock {
	mb := MBlock{Label: label, Height: b.Height}
	for _, tx := range b.Transactions {
		mt := MTx{ID: l.tx(tx.ID), Spends: [][2]int{}, Outs: [][3]int{}, Regs: []int{}}
		for _, prev := range tx.SpentOutputIDs {
			kind := 2
			if e, ok := tx.Entries[prev]; ok {
				kind, _ = entryKind(e)
			}
			mt.Spends = append(mt.Spends, [2]int{l.out(prev, kind), kind})
		}
		for _, id := range tx.ResultIds {
			kind, amt := 2, uint64(0)
			if e, ok := tx.Entries[*id]; ok {
				kind, amt = entryKind(e)
			}
			nz := 0
			if amt != 0 {
				nz = 1
			}
			lab := l.out(*id, kind)
			if nz == 1 && kind != 2 {
				l.nz[lab] = true
			}
			mt.Outs = append(mt.Outs, [3]int{lab, kind, nz})
		}
		for _, o := range tx.Outputs {
			if bcrp.IsBCRPScript(o.ControlProgram) {
				contract, err := bcrp.ParseContract(o.ControlProgram)
				if err != nil {
					continue
				}
				var h [32]byte
				sha3pool.Sum256(h[:], contract)
				mt.Regs = append(mt.Regs, l.con(h))
			}
		}
		mb.Txs = append(mb.Txs, mt)
	}
	return mb
}

// ---------------------------------------------------------------- trunk (the same for every case)

type trunkT struct {
	blocks []*cl.BlockInfo // heights 1..16
	fund   *types.Tx       // in block 15: reward of height 5 split into four outputs
}

const trunkLen = 16

func buildTrunk(w *cl.World) *trunkT {
	t := &trunkT{}
	t.blocks = w.Trunk(w.Genesis, 14)
	r5 := t.blocks[4].RewardOuts()[0]
	t.fund = cl.Transfer([]cl.Out{r5}, 4, cl.DefaultFee, 0)
	b15 := w.NewBlock(t.blocks[13], []*types.Tx{t.fund}, cl.BlockOpt{})
	b16 := w.NewBlock(b15, nil, cl.BlockOpt{})
	t.blocks = append(t.blocks, b15, b16)
	return t
}

func (t *trunkT) tip() *cl.BlockInfo { return t.blocks[len(t.blocks)-1] }

// labels genesis (block label 0) and the trunk (labels 1..16) — deterministic
func (t *trunkT) label(w *cl.World, l *labeler) (MBlock, []MBlock) {
	g := l.modelBlock(0, w.Genesis.Block)
	var bs []MBlock
	for i, b := range t.blocks {
		bs = append(bs, l.modelBlock(i+1, b.Block))
	}
	return g, bs
}

// ---------------------------------------------------------------- generator (runs in the child, next to the real blocks)

type uinfo struct {
	out  cl.Out
	kind int // 0 normal, 1 vote
	h    uint64
	cb   bool
}

type bstate struct {
	avail   []uinfo
	spent   []uinfo
	applied map[string]bool // tx ids on this branch
}

func (s *bstate) clone() *bstate {
	n := &bstate{avail: append([]uinfo(nil), s.avail...), spent: append([]uinfo(nil), s.spent...), applied: map[string]bool{}}
	for k := range s.applied {
		n.applied[k] = true
	}
	return n
}

func unlocked(u uinfo, H uint64) bool {
	if u.cb {
		return u.h+10 <= H
	}
	if u.kind == 1 {
		return u.h+3 <= H
	}
	return true
}

func (s *bstate) find(o cl.Out) int {
	id := o.ID()
	for i, u := range s.avail {
		if u.out.ID() == id {
			return i
		}
	}
	return -1
}

// apply a transaction to the generator's own bookkeeping
func (s *bstate) apply(tx *types.Tx, ins []uinfo, H uint64, cb bool) {
	for _, in := range ins {
		if i := s.find(in.out); i >= 0 {
			s.spent = append(s.spent, s.avail[i])
			s.avail = append(s.avail[:i:i], s.avail[i+1:]...)
		}
	}
	for pos, o := range tx.Outputs {
		if o.Amount == 0 || bcrp.IsBCRPScript(o.ControlProgram) {
			continue
		}
		kind := 0
		if o.OutputType() == types.VoteOutputType {
			kind = 1
		}
		s.avail = append(s.avail, uinfo{out: cl.Out{Tx: tx, Pos: pos}, kind: kind, h: H, cb: cb})
	}
	s.applied[tx.ID.String()] = true
}

type gblock struct {
	label  int
	parent int // label; 0 = trunk tip
	info   *cl.BlockInfo
	st     *bstate
	probe  bool
}

type world struct {
	w      *cl.World
	tk     *trunkT
	r      *Rng
	kind   string
	blocks []*gblock // index = label-trunkLen-1
	byHash map[bc.Hash]*gblock
	txs    []*builtTx
	cnt    map[string]int
	nchild map[int]int
	contr  [][]byte
}

type builtTx struct {
	tx  *types.Tx
	ins []uinfo
}

func (g *world) count(k string) { g.cnt[k]++ }

func (g *world) blk(label int) *gblock {
	if label == 0 {
		return nil
	}
	return g.blocks[label-trunkLen-1]
}

func (g *world) height(label int) uint64 {
	if label == 0 {
		return trunkLen
	}
	return g.blk(label).info.Block.Height
}

func (g *world) trunkState() *bstate {
	s := &bstate{applied: map[string]bool{}}
	for i := range g.tk.fund.Outputs {
		s.avail = append(s.avail, uinfo{out: cl.Out{Tx: g.tk.fund, Pos: i}, kind: 0, h: 15})
	}
	for _, h := range []int{9, 13} {
		for _, o := range g.tk.blocks[h-1].RewardOuts() {
			s.avail = append(s.avail, uinfo{out: o, kind: 0, h: uint64(h), cb: true})
		}
	}
	return s
}

func (g *world) stateOf(label int) *bstate {
	if label == 0 {
		return g.trunkState()
	}
	return g.blk(label).st
}

func regProgram(contract []byte) []byte {
	p, err := vmutil.RegisterProgram(contract)
	if err != nil {
		panic(err)
	}
	return p
}

// makeTx builds a transaction spending ins; nOut outputs of random kinds (weights depend on the case kind).
func (g *world) makeTx(ins []uinfo, nOut int, salt uint64) *types.Tx {
	var sum uint64
	var outs []cl.Out
	for _, in := range ins {
		sum += in.out.Amount()
		outs = append(outs, in.out)
	}
	if sum < cl.DefaultFee+uint64(nOut)*1000 {
		nOut = 1
	}
	const minVote = 100000000 // consensus.MinVoteOutputAmount
	left := uint64(0) // dust inputs (only reachable through the deliberately invalid kinds) leave nothing to pay out
	if sum > cl.DefaultFee {
		left = sum - cl.DefaultFee
	}
	kinds := make([]int, nOut) // 0 normal, 1 vote, 2 contract registration
	nVote := 0
	for i := range kinds {
		p := g.r.Intn(100)
		voteW, regW := 25, 12
		switch g.kind {
		case "votes":
			voteW, regW = 55, 5
		case "contracts":
			voteW, regW = 10, 45
		}
		switch {
		case p < voteW && left >= uint64(nVote+1)*minVote+uint64(nOut)*1000:
			kinds[i] = 1
			nVote++
		case p < voteW+regW:
			kinds[i] = 2
		}
	}
	rest := left - uint64(nVote)*minVote
	nOther := nOut - nVote
	var specs []cl.OutSpec
	for i, k := range kinds {
		amt := uint64(minVote)
		if k != 1 {
			amt = rest / uint64(nOther)
		} else if nOther == 0 && i == nOut-1 {
			amt += rest
		}
		switch k {
		case 1:
			specs = append(specs, cl.OutSpec{Amount: amt, Vote: g.w.Pubs[1+g.r.Intn(3)][:]})
			g.count("out:vote")
		case 2:
			specs = append(specs, cl.OutSpec{Amount: amt, Program: regProgram(g.contr[g.r.Intn(len(g.contr))])})
			g.count("out:contract-registration")
		default:
			specs = append(specs, cl.OutSpec{Amount: amt})
			g.count("out:normal")
		}
	}
	return cl.NewTx(outs, specs, salt)
}

func pickInputs(r *Rng, s *bstate, H uint64, kind string) []uinfo {
	var votes, cbs, normals []uinfo
	for _, u := range s.avail {
		if !unlocked(u, H) || u.out.Amount() < cl.DefaultFee+3000 {
			continue
		}
		switch {
		case u.kind == 1:
			votes = append(votes, u)
		case u.cb:
			cbs = append(cbs, u)
		default:
			normals = append(normals, u)
		}
	}
	vetoW := 40
	if kind == "votes" {
		vetoW = 70
	}
	var first []uinfo
	switch {
	case len(votes) > 0 && r.Chance(vetoW):
		first = votes
	case len(cbs) > 0 && r.Chance(35):
		first = cbs
	case len(normals) > 0:
		first = normals
	case len(votes) > 0:
		first = votes
	case len(cbs) > 0:
		first = cbs
	default:
		return nil
	}
	ins := []uinfo{first[r.Intn(len(first))]}
	if r.Chance(20) {
		all := append(append(append([]uinfo(nil), normals...), votes...), cbs...)
		x := all[r.Intn(len(all))]
		if x.out.ID() != ins[0].out.ID() {
			ins = append(ins, x)
		}
	}
	return ins
}

func (g *world) countIns(ins []uinfo) {
	for _, in := range ins {
		switch {
		case in.kind == 1:
			g.count("in:veto")
		case in.cb:
			g.count("in:coinbase-spend")
		default:
			g.count("in:spend")
		}
	}
}

// newBlock adds a block with fresh (or re-used) valid transactions on top of parent.
func (g *world) newBlock(parent int, maxTx int) *gblock {
	H := g.height(parent) + 1
	st := g.stateOf(parent).clone()
	var txs []*types.Tx
	ntx := 0
	switch p := g.r.Intn(100); {
	case p < 25:
		ntx = 0
	case p < 70:
		ntx = 1
	default:
		ntx = 2
	}
	if ntx > maxTx {
		ntx = maxTx
	}
	for i := 0; i < ntx; i++ {
		// the same transaction as on another branch
		if len(g.txs) > 0 && g.r.Chance(18) {
			bt := g.txs[g.r.Intn(len(g.txs))]
			ok := !st.applied[bt.tx.ID.String()]
			for _, in := range bt.ins {
				j := st.find(in.out)
				if j < 0 || !unlocked(st.avail[j], H) {
					ok = false
				}
			}
			if ok {
				st.apply(bt.tx, bt.ins, H, false)
				txs = append(txs, bt.tx)
				g.count("tx:same-on-two-branches")
				g.countIns(bt.ins)
				continue
			}
		}
		ins := pickInputs(g.r, st, H, g.kind)
		if ins == nil {
			break
		}
		tx := g.makeTx(ins, 1+g.r.Intn(3), 0)
		st.apply(tx, ins, H, false)
		g.txs = append(g.txs, &builtTx{tx, ins})
		txs = append(txs, tx)
		g.count("tx:new")
		g.countIns(ins)
	}
	opt := cl.BlockOpt{Skip: g.nchild[parent]}
	if g.r.Chance(6) || (g.kind == "contracts" && g.r.Chance(20)) {
		opt.RewardProgram = regProgram(g.contr[g.r.Intn(len(g.contr))])
		g.count("block:coinbase-registers-contract")
	}
	return g.addBlock(parent, txs, opt, st, false)
}

func (g *world) addBlock(parent int, txs []*types.Tx, opt cl.BlockOpt, st *bstate, probe bool) *gblock {
	pi := g.tk.tip()
	if parent != 0 {
		pi = g.blk(parent).info
	}
	opt.Skip = g.nchild[parent]
	g.nchild[parent]++
	bi := g.w.NewBlock(pi, txs, opt)
	// coinbase outputs with an amount become coinbase utxos (spendable after 10 blocks)
	for _, o := range bi.RewardOuts() {
		if !bcrp.IsBCRPScript(o.Tx.Outputs[o.Pos].ControlProgram) {
			st.avail = append(st.avail, uinfo{out: o, kind: 0, h: bi.Block.Height, cb: true})
		}
	}
	gb := &gblock{label: trunkLen + 1 + len(g.blocks), parent: parent, info: bi, st: st, probe: probe}
	g.blocks = append(g.blocks, gb)
	g.byHash[bi.Hash] = gb
	g.count(fmt.Sprintf("block:txs=%d", len(txs)))
	return gb
}

// path above the trunk, bottom up, as labels
func (g *world) path(label int) []int {
	var p []int
	for l := label; l != 0; l = g.blk(l).parent {
		p = append([]int{l}, p...)
	}
	return p
}

// ---------------------------------------------------------------- child: one case on real nodes

type nodeDump struct {
	utxo []*[3]int
	cons []int
	raw  []string
}

func (g *world) dump(n *cl.Node, l *labeler, outs [][2]int, cons []int, fails *[]string, who string) nodeDump {
	var d nodeDump
	for _, o := range outs {
		h := l.outL[o[0]-1]
		e, err := n.Store.GetUtxo(&h)
		if err != nil || e == nil {
			d.utxo = append(d.utxo, nil)
			continue
		}
		sp := 0
		if e.Spent {
			sp = 1
		}
		d.utxo = append(d.utxo, &[3]int{int(e.Type), int(e.BlockHeight), sp})
	}
	for _, c := range cons {
		h := l.conL[c-1]
		raw := n.DB.Get(database.CalcContractKey(h))
		code, err := n.Store.GetContract(h)
		if (raw == nil) != (err != nil) && !(raw != nil && len(raw) <= 32) {
			*fails = append(*fails, fmt.Sprintf("class=contract-get: %s: contract %d raw record present=%v but GetContract err=%v", who, c, raw != nil, err))
		}
		if raw != nil && err == nil && !bytes.Equal(raw[32:], code) {
			*fails = append(*fails, fmt.Sprintf("class=contract-get: %s: contract %d GetContract returns other bytes than the record", who, c))
		}
		if raw == nil || len(raw) < 32 {
			d.cons = append(d.cons, -1)
			d.raw = append(d.raw, "")
			continue
		}
		var th bc.Hash
		var b32 [32]byte
		copy(b32[:], raw[:32])
		th = bc.NewHash(b32)
		if v, ok := l.txs[th]; ok {
			d.cons = append(d.cons, v)
		} else {
			d.cons = append(d.cons, 0)
		}
		d.raw = append(d.raw, fmt.Sprintf("%x", raw))
	}
	return d
}

var typeName = []string{"normal", "coinbase", "vote"}

// compare the node that saw the forks with a fresh node fed only the main chain: the property itself
func compareDumps(a, f nodeDump, outs [][2]int, cons []int, when string) (fails []string, lostVotes map[int]bool) {
	lostVotes = map[int]bool{}
	for i, o := range outs {
		x, y := a.utxo[i], f.utxo[i]
		sx, sy := x != nil && x[2] == 0, y != nil && y[2] == 0
		switch {
		case sx != sy:
			fails = append(fails, fmt.Sprintf("class=utxo-set: %s: output %d spendable on the node with history: %v, on the fresh node: %v", when, o[0], sx, sy))
		case !sx:
		case x[0] != y[0]:
			fails = append(fails, fmt.Sprintf("class=utxo-type: %s: output %d type %d vs %d on the fresh node", when, o[0], x[0], y[0]))
		case x[0] == 1 && x[1] != y[1]:
			fails = append(fails, fmt.Sprintf("class=coinbase-height: %s: coinbase output %d height %d vs %d on the fresh node", when, o[0], x[1], y[1]))
		case x[0] == 2 && x[1] != y[1]:
			lostVotes[o[0]] = true
			fails = append(fails, fmt.Sprintf("class=vote-utxo-height-lost: %s: vote output %d has height %d, a node fed only the main chain has %d", when, o[0], x[1], y[1]))
		}
	}
	for i, c := range cons {
		if a.raw[i] != f.raw[i] {
			fails = append(fails, fmt.Sprintf("class=contract-table: %s: contract %d registered by tx %d, on the fresh node by tx %d", when, c, a.cons[i], f.cons[i]))
		}
	}
	return
}

var nodeSeq int

func (g *world) freshNode(base string, chainLabels []int) (*cl.Node, error) {
	nodeSeq++
	n, err := cl.NewNode(filepath.Join(base, fmt.Sprintf("n%d", nodeSeq)))
	if err != nil {
		return nil, err
	}
	for _, b := range g.tk.blocks {
		if o, err := n.Process(b.Block); err != nil || o {
			return nil, &refused{-int(b.Block.Height), fmt.Sprintf("orphan=%v err=%v", o, err)}
		}
	}
	for _, l := range chainLabels {
		if o, err := n.Process(g.blk(l).info.Block); err != nil || o {
			return nil, &refused{l, fmt.Sprintf("orphan=%v err=%v", o, err)}
		}
	}
	return n, nil
}

// the main chain of the node with history is not acceptable to a fresh node: an oracle failure, not a harness error
type refused struct {
	label int
	why   string
}

func (r *refused) Error() string {
	if r.label < 0 {
		return fmt.Sprintf("class=unexpected-error: the valid trunk block at height %d (empty blocks; block 15 spends the reward of height 5 exactly at maturity) is refused by a fresh node (%s)", -r.label, r.why)
	}
	if strings.Contains(r.why, "voting lock time") {
		// the node with history connected a veto of a still-locked vote output: only possible when the
		// output's creation height was lost in a reorganisation (recorded finding C10-vote-utxo-height-lost)
		return fmt.Sprintf("class=vote-utxo-height-lost-acceptance: block %d of the main chain of the node with history vetoes a vote output that is still locked and is refused by a fresh node fed only that chain (%s)", r.label, r.why)
	}
	return fmt.Sprintf("class=acceptance: block %d of the main chain of the node with history is refused by a fresh node fed only that chain (%s)", r.label, r.why)
}

func commonPrefix(a, b []int) int {
	i := 0
	for i < len(a) && i < len(b) && a[i] == b[i] {
		i++
	}
	return i
}

func (g *world) tracked(l *labeler) [][2]int {
	var t [][2]int
	for lab := 1; lab <= len(l.outL); lab++ {
		if l.nz[lab] {
			t = append(t, [2]int{lab, l.kinds[lab]})
		}
	}
	return t
}

func runCase(w *cl.World, tk *trunkT, c *Case, base string) (*Result, error) {
	g := &world{w: w, tk: tk, r: NewRng(c.Seed), kind: c.Kind, byHash: map[bc.Hash]*gblock{}, cnt: map[string]int{}, nchild: map[int]int{}}
	g.contr = [][]byte{{0x51}, {0x52, 0x53, 0x93}, {0x00, 0x51, 0x9a}}
	res := &Result{ID: c.ID, Count: g.cnt, Fails: []string{}}
	var order []int
	scripted := strings.HasPrefix(c.Kind, "corpus-")
	if scripted {
		order = g.corpus(c.Kind)
	} else {
		order = g.randomTree()
	}
	if order == nil {
		return nil, fmt.Errorf("unknown case kind %q", c.Kind)
	}

	lab := newLabeler()
	tk.label(w, lab)
	for _, ct := range g.contr {
		var h [32]byte
		sha3pool.Sum256(h[:], ct)
		res.Cons = append(res.Cons, lab.con(h))
	}
	labelled := 0
	labelNew := func() {
		for ; labelled < len(g.blocks); labelled++ {
			gb := g.blocks[labelled]
			res.Blocks = append(res.Blocks, lab.modelBlock(gb.label, gb.info.Block))
		}
	}
	labelNew()
	main, err := g.freshNode(base, nil)
	if rf, ok := err.(*refused); ok {
		res.Fails = append(res.Fails, rf.Error())
		res.Outs = g.tracked(lab)
		res.Descr = g.describe(order, nil)
		return res, nil
	}
	if err != nil {
		return nil, err
	}
	cur := []int{} // main chain above the trunk, bottom up
	delivered := map[int]bool{}
	lost := map[int]bool{}
	oracleRuns := 0

	oracle := func(when string) error {
		oracleRuns++
		f, err := g.freshNode(base, cur)
		if rf, ok := err.(*refused); ok {
			res.Fails = append(res.Fails, rf.Error()+" "+when)
			return nil
		}
		if err != nil {
			return err
		}
		outs := g.tracked(lab)
		var none []string
		a := g.dump(main, lab, outs, res.Cons, &res.Fails, "node with history")
		b := g.dump(f, lab, outs, res.Cons, &none, "fresh node")
		fails, lv := compareDumps(a, b, outs, res.Cons, when)
		res.Fails = append(res.Fails, fails...)
		for k := range lv {
			lost[k] = true
		}
		g.count("oracle:fresh-node-comparisons")
		return nil
	}

	deliver := func(l int, isProbeTip bool) error {
		gb := g.blk(l)
		if p := gb.parent; p != 0 && !delivered[p] {
			g.count("delivery:child-before-parent")
		}
		_, perr := main.Process(gb.info.Block)
		delivered[l] = true
		g.count("delivery:blocks")
		best := main.Chain.BestBlockHeader().Hash()
		var np []int
		if best == tk.tip().Hash {
			np = []int{}
		} else if b, ok := g.byHash[best]; ok {
			np = g.path(b.label)
		} else {
			return fmt.Errorf("best block is not a block of the case")
		}
		d := Deliv{Block: l, News: []int{}, Ok: true}
		p := commonPrefix(cur, np)
		changed := !(p == len(cur) && p == len(np))
		switch {
		case changed:
			d.Step, d.K, d.News = true, len(cur)-p, append([]int{}, np[p:]...)
			if perr != nil {
				res.Fails = append(res.Fails, fmt.Sprintf("class=unexpected-error: delivering block %d changed the main chain and returned %v", l, perr))
			}
			g.count(fmt.Sprintf("reorg:detach=%d", d.K))
			g.count(fmt.Sprintf("reorg:attach=%d", len(d.News)))
			if d.K > 0 {
				res.Reorg = true
				for _, dl := range cur[p:] {
					for _, tx := range g.blk(dl).info.Block.Transactions {
						for _, in := range tx.Inputs {
							if _, ok := in.TypedInput.(*types.VetoInput); ok {
								g.count("reorg:detached-a-veto")
							}
						}
					}
				}
			}
		case perr != nil:
			// the node tried to reorganise to its highest block (the one just delivered) and gave up:
			// only a block of the probe branch may do that
			if !gb.probe {
				res.Fails = append(res.Fails, fmt.Sprintf("class=unexpected-error: delivering block %d returned %v", l, perr))
			} else {
				tp := g.path(l)
				q := commonPrefix(cur, tp)
				d.Step, d.K, d.News, d.Ok = true, len(cur)-q, append([]int{}, tp[q:]...), false
			}
		default:
			g.count("delivery:no-change")
		}
		cur = np
		dd := g.dump(main, lab, g.tracked(lab), res.Cons, &res.Fails, "node with history")
		d.Utxo, d.Cons = dd.utxo, dd.cons
		res.Delivs = append(res.Delivs, d)
		if d.Step && d.K > 0 && d.Ok && oracleRuns < 2 {
			return oracle(fmt.Sprintf("after delivery %d (block %d: detach %d, attach %d)", len(res.Delivs), l, d.K, len(d.News)))
		}
		return nil
	}

	// the valid part of the history
	var probeOrder []int
	for _, l := range order {
		if g.blk(l).probe {
			probeOrder = append(probeOrder, l)
			continue
		}
		if err := deliver(l, false); err != nil {
			return nil, err
		}
	}
	if err := oracle("after the last valid delivery"); err != nil {
		return nil, err
	}

	// the probe branch
	if !scripted {
		probeOrder = g.makeProbe(cur)
	}
	if len(probeOrder) > 0 {
		labelNew()
		outs := g.tracked(lab)
		for i := range res.Delivs { // ids that did not exist yet were absent
			for len(res.Delivs[i].Utxo) < len(outs) {
				res.Delivs[i].Utxo = append(res.Delivs[i].Utxo, nil)
			}
		}
		before := append([]int{}, cur...)
		tip := probeOrder[len(probeOrder)-1]
		for _, l := range probeOrder {
			if err := deliver(l, l == tip); err != nil {
				return nil, err
			}
		}
		accepted := len(cur) > 0 && cur[len(cur)-1] == tip
		f, err := g.freshNode(base, before)
		if rf, ok := err.(*refused); ok {
			res.Fails = append(res.Fails, rf.Error()+" before the probe")
			res.Outs = g.tracked(lab)
			res.Descr = g.describe(order, probeOrder)
			return res, nil
		}
		if err != nil {
			return nil, err
		}
		var ferr error
		for _, l := range probeOrder {
			_, ferr = f.Process(g.blk(l).info.Block)
		}
		fAccepted := f.Chain.BestBlockHeader().Hash() == g.blk(tip).info.Hash
		g.count(fmt.Sprintf("probe:accepted=%v", accepted))
		if accepted != fAccepted {
			class := "acceptance"
			for _, l := range probeOrder {
				for _, tx := range g.blk(l).info.Block.Transactions {
					for _, prev := range tx.SpentOutputIDs {
						if lost[lab.outs[prev]] {
							class = "vote-utxo-height-lost-acceptance"
						}
					}
				}
			}
			res.Fails = append(res.Fails, fmt.Sprintf("class=%s: probe branch %v adopted by the node with history: %v, by a fresh node with the same main chain: %v (fresh node error: %v)", class, probeOrder, accepted, fAccepted, ferr))
		} else {
			var none []string
			a := g.dump(main, lab, outs, res.Cons, &res.Fails, "node with history")
			b := g.dump(f, lab, outs, res.Cons, &none, "fresh node")
			fails, _ := compareDumps(a, b, outs, res.Cons, "after the probe")
			res.Fails = append(res.Fails, fails...)
		}
	}
	res.Outs = g.tracked(lab)
	res.Descr = g.describe(order, probeOrder)
	return res, nil
}

func (g *world) describe(order, probe []int) string {
	var sb strings.Builder
	for _, b := range g.blocks {
		fmt.Fprintf(&sb, "b%d<-%d h%d txs%d", b.label, b.parent, b.info.Block.Height, len(b.info.Block.Transactions)-1)
		if b.probe {
			sb.WriteString(" probe")
		}
		sb.WriteString("; ")
	}
	fmt.Fprintf(&sb, "order %v probe %v", order, probe)
	return sb.String()
}

// ---------------------------------------------------------------- tree generators

// randomTree: 5..11 blocks above the trunk; returns a delivery order.
func (g *world) randomTree() []int {
	n := 5 + g.r.Intn(6)
	if g.kind == "deep" {
		n = 9 + g.r.Intn(4)
	}
	last := 0
	for i := 0; i < n; i++ {
		parent := last
		if i > 0 && g.r.Chance(40) {
			// fork: some earlier block (or the trunk tip)
			parent = 0
			if k := g.r.Intn(len(g.blocks) + 1); k > 0 {
				parent = g.blocks[k-1].label
			}
		}
		last = g.newBlock(parent, 2).label
	}
	// random linear extension, then a few children moved before their parents
	var order []int
	placed := map[int]bool{0: true}
	for len(order) < len(g.blocks) {
		var ready []int
		for _, b := range g.blocks {
			if !placed[b.label] && placed[b.parent] {
				ready = append(ready, b.label)
			}
		}
		// prefer to continue the branch delivered last (longer runs before the competitor shows up)
		pick := ready[g.r.Intn(len(ready))]
		if len(order) > 0 && g.r.Chance(55) {
			for _, x := range ready {
				if g.blk(x).parent == order[len(order)-1] {
					pick = x
				}
			}
		}
		placed[pick] = true
		order = append(order, pick)
	}
	if g.r.Chance(35) {
		for k := 0; k < 1+g.r.Intn(2); k++ {
			i := g.r.Intn(len(order))
			j := g.r.Intn(len(order))
			order[i], order[j] = order[j], order[i]
		}
		g.count("delivery:shuffled-order")
	}
	return order
}

// makeProbe: a branch that ends one block above everything delivered, forking 0..2 blocks below the tip
// of the main chain, with one transaction of the chosen kind in one of its blocks.
func (g *world) makeProbe(cur []int) []int {
	maxH := uint64(trunkLen)
	for _, b := range g.blocks {
		if h := b.info.Block.Height; h > maxH {
			maxH = h
		}
	}
	depth := g.r.Intn(3)
	if depth > len(cur) {
		depth = len(cur)
	}
	fork := 0
	if len(cur)-depth > 0 {
		fork = cur[len(cur)-depth-1]
	}
	length := int(maxH+1) - int(g.height(fork))
	if length < 1 {
		length = 1
	}
	bad := g.r.Intn(length) // which block of the branch carries the special transaction
	kinds := []string{"valid", "double-spend", "immature-coinbase", "early-veto", "foreign-output", "missing-output", "respend-in-branch"}
	kind := kinds[g.r.Intn(len(kinds))]
	var out []int
	parent := fork
	for i := 0; i < length; i++ {
		H := g.height(parent) + 1
		st := g.stateOf(parent).clone()
		var txs []*types.Tx
		if i == bad {
			tx, ins, k := g.probeTx(kind, st, H)
			kind = k
			if tx != nil {
				st.apply(tx, ins, H, false)
				txs = append(txs, tx)
			}
		}
		gb := g.addBlock(parent, txs, cl.BlockOpt{}, st, true)
		out = append(out, gb.label)
		parent = gb.label
	}
	g.count("probe:kind=" + kind)
	g.count(fmt.Sprintf("probe:fork-depth=%d", depth))
	return out
}

func (g *world) probeTx(kind string, st *bstate, H uint64) (*types.Tx, []uinfo, string) {
	pickFrom := func(l []uinfo) []uinfo {
		var ok []uinfo
		for _, u := range l {
			if u.out.Amount() >= cl.DefaultFee+3000 {
				ok = append(ok, u)
			}
		}
		if len(ok) == 0 {
			return nil
		}
		return []uinfo{ok[g.r.Intn(len(ok))]}
	}
	var ins []uinfo
	switch kind {
	case "double-spend":
		ins = pickFrom(st.spent)
	case "immature-coinbase":
		var l []uinfo
		for _, u := range st.avail {
			if u.cb && !unlocked(u, H) {
				l = append(l, u)
			}
		}
		ins = pickFrom(l)
	case "early-veto":
		var l []uinfo
		for _, u := range st.avail {
			if u.kind == 1 && !unlocked(u, H) {
				l = append(l, u)
			}
		}
		ins = pickFrom(l)
	case "foreign-output":
		var l []uinfo
		for _, b := range g.blocks {
			for _, u := range b.st.avail {
				if st.find(u.out) < 0 && !u.cb {
					seen := false
					for _, s := range st.spent {
						if s.out.ID() == u.out.ID() {
							seen = true
						}
					}
					if !seen {
						l = append(l, u)
					}
				}
			}
		}
		ins = pickFrom(l)
	case "missing-output":
		// an output of a transaction that is in no block
		src := pickFrom(st.avail)
		if src != nil {
			ghost := g.makeTx(src, 2, 77)
			ins = []uinfo{{out: cl.Out{Tx: ghost, Pos: 0}, kind: 0, h: H}}
			if ghost.Outputs[0].OutputType() == types.VoteOutputType {
				ins[0].kind = 1
			}
			if bcrp.IsBCRPScript(ghost.Outputs[0].ControlProgram) {
				ins = nil
			}
		}
	case "respend-in-branch":
		// two transactions of the same block spend the same output: built as one tx with a doubled input
		one := pickInputs(g.r, st, H, g.kind)
		if one != nil {
			ins = []uinfo{one[0], one[0]}
		}
	}
	if ins == nil {
		kind = "valid"
		ins = pickInputs(g.r, st, H, g.kind)
		if ins == nil {
			return nil, nil, "empty"
		}
	}
	return g.makeTx(ins, 1+g.r.Intn(2), 0), ins, kind
}

// corpus cases (scripted; run first on every check)
func (g *world) corpus(name string) []int {
	switch name {
	case "corpus-vote-veto-reorg":
		// a17: vote output V; branch X: x18, x19, x20 (veto of V at 20 = 17 + lock 3); branch Y: y18..y21 wins;
		// probe branch Z from a17: z18, z19 (veto of V at 19, inside the lock), z20, z21, z22.
		st := g.trunkState()
		f0 := st.avail[0]
		vt := cl.NewTx([]cl.Out{f0.out}, []cl.OutSpec{{Amount: 100000000, Vote: g.w.Pubs[1][:]}, {Amount: f0.out.Amount() - 100000000 - cl.DefaultFee}}, 0)
		st.apply(vt, []uinfo{f0}, 17, false)
		a17 := g.addBlock(0, []*types.Tx{vt}, cl.BlockOpt{}, st, false)
		V := uinfo{out: cl.Out{Tx: vt, Pos: 0}, kind: 1, h: 17}
		x18 := g.addBlock(a17.label, nil, cl.BlockOpt{}, a17.st.clone(), false)
		x19 := g.addBlock(x18.label, nil, cl.BlockOpt{}, x18.st.clone(), false)
		veto := cl.Transfer([]cl.Out{V.out}, 1, cl.DefaultFee, 0)
		sx := x19.st.clone()
		sx.apply(veto, []uinfo{V}, 20, false)
		x20 := g.addBlock(x19.label, []*types.Tx{veto}, cl.BlockOpt{}, sx, false)
		order := []int{a17.label, x18.label, x19.label, x20.label}
		p := a17
		for i := 0; i < 4; i++ {
			p = g.addBlock(p.label, nil, cl.BlockOpt{}, p.st.clone(), false)
			order = append(order, p.label)
		}
		p = a17
		for i := 0; i < 5; i++ {
			s := p.st.clone()
			var txs []*types.Tx
			if i == 1 {
				early := cl.Transfer([]cl.Out{V.out}, 2, cl.DefaultFee, 0)
				s.apply(early, []uinfo{V}, 19, false)
				txs = append(txs, early)
			}
			p = g.addBlock(p.label, txs, cl.BlockOpt{}, s, true)
			order = append(order, p.label)
		}
		g.count("in:veto")
		g.count("in:veto")
		g.count("out:vote")
		return order
	case "corpus-coinbase-respend":
		// the reward of height 9 is spent at 19 on branch X; branch Y (without the spend) wins; the probe spends it again
		st := g.trunkState()
		var r9 uinfo
		for _, u := range st.avail {
			if u.cb && u.h == 9 {
				r9 = u
			}
		}
		p := (*gblock)(nil)
		parent := 0
		var order []int
		for i := 0; i < 2; i++ {
			s := g.stateOf(parent).clone()
			p = g.addBlock(parent, nil, cl.BlockOpt{}, s, false)
			parent = p.label
			order = append(order, p.label)
		}
		base := p
		sp := cl.Transfer([]cl.Out{r9.out}, 2, cl.DefaultFee, 0)
		sx := base.st.clone()
		sx.apply(sp, []uinfo{r9}, 19, false)
		x := g.addBlock(base.label, []*types.Tx{sp}, cl.BlockOpt{}, sx, false)
		order = append(order, x.label)
		y := base
		for i := 0; i < 2; i++ {
			y = g.addBlock(y.label, nil, cl.BlockOpt{}, y.st.clone(), false)
			order = append(order, y.label)
		}
		sy := y.st.clone()
		again := cl.Transfer([]cl.Out{r9.out}, 1, cl.DefaultFee, 0)
		sy.apply(again, []uinfo{r9}, 21, false)
		pr := g.addBlock(y.label, []*types.Tx{again}, cl.BlockOpt{}, sy, true)
		order = append(order, pr.label)
		g.count("in:coinbase-spend")
		g.count("in:coinbase-spend")
		return order
	case "corpus-contract-two-branches":
		// contract 1 registered at 17 on branch X and again at 18; branch Y registers it at 18 and wins; the probe registers it again
		reg := func(st *bstate, H uint64) *types.Tx {
			in := st.avail[0]
			tx := cl.NewTx([]cl.Out{in.out}, []cl.OutSpec{{Amount: 1000000, Program: regProgram(g.contr[0])}, {Amount: in.out.Amount() - 1000000 - cl.DefaultFee}}, 0)
			st.apply(tx, []uinfo{in}, H, false)
			return tx
		}
		var order []int
		s := g.trunkState()
		t1 := reg(s, 17)
		x17 := g.addBlock(0, []*types.Tx{t1}, cl.BlockOpt{}, s, false)
		s = x17.st.clone()
		t2 := reg(s, 18)
		x18 := g.addBlock(x17.label, []*types.Tx{t2}, cl.BlockOpt{}, s, false)
		order = append(order, x17.label, x18.label)
		y17 := g.addBlock(0, nil, cl.BlockOpt{}, g.trunkState(), false)
		s = y17.st.clone()
		s.avail = s.avail[1:] // another funding output than branch X: a different transaction
		t3 := reg(s, 18)
		y18 := g.addBlock(y17.label, []*types.Tx{t3}, cl.BlockOpt{}, s, false)
		y19 := g.addBlock(y18.label, nil, cl.BlockOpt{RewardProgram: regProgram(g.contr[0])}, y18.st.clone(), false)
		order = append(order, y17.label, y18.label, y19.label)
		s = y19.st.clone()
		t4 := reg(s, 20)
		pr := g.addBlock(y19.label, []*types.Tx{t4}, cl.BlockOpt{}, s, true)
		order = append(order, pr.label)
		g.count("out:contract-registration")
		return order
	}
	return nil
}

// ---------------------------------------------------------------- child process: a batch of cases

func childBatch(args []string) int {
	if len(args) != 2 {
		return 2
	}
	raw, err := os.ReadFile(args[0])
	if err != nil {
		fmt.Fprintln(os.Stderr, err)
		return 2
	}
	var cases []*Case
	if err := json.Unmarshal(raw, &cases); err != nil {
		fmt.Fprintln(os.Stderr, err)
		return 2
	}
	w := cl.Init(cl.DefaultOptions())
	tk := buildTrunk(w)
	out := bufio.NewWriter(os.Stdout)
	for _, c := range cases {
		fmt.Fprintf(out, "BEGIN %d\n", c.ID)
		out.Flush()
		r, err := runCase(w, tk, c, filepath.Join(args[1], fmt.Sprintf("c%d", c.ID)))
		if err != nil {
			fmt.Fprintln(os.Stderr, "harness child error:", err)
			return 3
		}
		js, _ := json.Marshal(r)
		out.Write(js)
		out.WriteString("\n")
		out.Flush()
	}
	return 0
}

// ---------------------------------------------------------------- parent: dispatch

func jobs() int {
	if v, err := strconv.Atoi(os.Getenv("VERIF_JOBS")); err == nil && v > 0 {
		if v > 12 {
			v = 12
		}
		return v
	}
	return 6
}

func tail(s string, n int) string {
	if len(s) > n {
		return s[len(s)-n:]
	}
	return s
}

func panicHead(trace string) string {
	var keep []string
	for _, l := range strings.Split(trace, "\n") {
		l = strings.TrimSpace(l)
		if strings.HasPrefix(l, "panic:") || strings.HasPrefix(l, "[signal") || strings.HasPrefix(l, "fatal error:") ||
			(strings.HasPrefix(l, "github.com/bytom/bytom/") && len(keep) < 8) {
			if i := strings.Index(l, "(0x"); i > 0 {
				l = l[:i]
			}
			keep = append(keep, l)
		}
	}
	if len(keep) == 0 {
		return "abnormal exit: " + tail(trace, 300)
	}
	return strings.Join(keep, " | ")
}

func runChunk(dir string, k int, cases []*Case, res map[int]*Result, mu *sync.Mutex) error {
	round := 0
	for len(cases) > 0 {
		round++
		f := filepath.Join(dir, fmt.Sprintf("chunk_%d_%d.json", k, round))
		js, _ := json.Marshal(cases)
		if err := os.WriteFile(f, js, 0644); err != nil {
			return err
		}
		base := filepath.Join(dir, fmt.Sprintf("nodes_%d_%d", k, round))
		cmd := exec.Command(os.Args[0], "child", "batch", f, base)
		var stderr bytes.Buffer
		cmd.Stderr = &stderr
		stdout, err := cmd.StdoutPipe()
		if err != nil {
			return err
		}
		if err := cmd.Start(); err != nil {
			return err
		}
		lines := make(chan string, 16)
		go func() {
			sc := bufio.NewScanner(stdout)
			sc.Buffer(make([]byte, 1<<20), 1<<27)
			for sc.Scan() {
				lines <- sc.Text()
			}
			close(lines)
		}()
		current, done, hang := -1, 0, false
	loop:
		for {
			select {
			case l, ok := <-lines:
				if !ok {
					break loop
				}
				if strings.HasPrefix(l, "BEGIN ") {
					current, _ = strconv.Atoi(l[6:])
					continue
				}
				r := &Result{}
				if err := json.Unmarshal([]byte(l), r); err != nil {
					cmd.Process.Kill()
					cmd.Wait()
					return fmt.Errorf("unparseable child output %q", tail(l, 200))
				}
				mu.Lock()
				res[r.ID] = r
				mu.Unlock()
				done++
				current = -1
			case <-time.After(300 * time.Second):
				hang = true
				cmd.Process.Kill()
				break loop
			}
		}
		err = cmd.Wait()
		os.RemoveAll(base)
		if err == nil && !hang && done == len(cases) {
			return nil
		}
		if current < 0 || done >= len(cases) || cases[done].ID != current {
			return fmt.Errorf("child failed outside a case: %v: %s", err, tail(stderr.String(), 800))
		}
		if ee, ok := err.(*exec.ExitError); ok && ee.ExitCode() == 3 {
			return fmt.Errorf("child: %s", tail(stderr.String(), 800))
		}
		r := &Result{ID: current, Hang: hang}
		if !hang {
			r.Panic = panicHead(stderr.String())
		}
		mu.Lock()
		res[current] = r
		mu.Unlock()
		cases = cases[done+1:]
	}
	return nil
}

func runAll(cases []*Case) (map[int]*Result, error) {
	tmp := ""
	if st, err := os.Stat("/dev/shm"); err == nil && st.IsDir() {
		tmp = "/dev/shm"
	}
	dir, err := os.MkdirTemp(tmp, "c10-run-")
	if err != nil {
		return nil, err
	}
	defer os.RemoveAll(dir)
	res := map[int]*Result{}
	var mu sync.Mutex
	var chunks [][]*Case
	per := 8
	for lo := 0; lo < len(cases); lo += per {
		hi := lo + per
		if hi > len(cases) {
			hi = len(cases)
		}
		chunks = append(chunks, cases[lo:hi])
	}
	ch := make(chan int)
	errs := make(chan error, len(chunks)+1)
	var wg sync.WaitGroup
	for wk := 0; wk < jobs(); wk++ {
		wg.Add(1)
		go func() {
			defer wg.Done()
			for k := range ch {
				if err := runChunk(dir, k, chunks[k], res, &mu); err != nil {
					errs <- err
				}
			}
		}()
	}
	for k := range chunks {
		ch <- k
	}
	close(ch)
	wg.Wait()
	select {
	case err := <-errs:
		return nil, err
	default:
	}
	return res, nil
}

// ---------------------------------------------------------------- parent: Coq output

var kindName = []string{"KOrig", "KVote", "KOther"}

func coqOut(o [2]int) string { return fmt.Sprintf("(%d, %s)", o[0], kindName[o[1]]) }

func coqTx(t MTx) string {
	var sp, outs, regs []string
	for _, s := range t.Spends {
		sp = append(sp, coqOut(s))
	}
	for _, o := range t.Outs {
		outs = append(outs, fmt.Sprintf("(%s, %s)", coqOut([2]int{o[0], o[1]}), CoqBool(o[2] == 1)))
	}
	for _, r := range t.Regs {
		regs = append(regs, fmt.Sprint(r))
	}
	return fmt.Sprintf("mkTx %d %s %s %s", t.ID, CoqList(sp), CoqList(outs), CoqList(regs))
}

func coqBlock(b MBlock) string {
	var txs []string
	for _, t := range b.Txs {
		txs = append(txs, coqTx(t))
	}
	return fmt.Sprintf("(mkB %d %d %s)", b.Label, b.Height, CoqList(txs))
}

func coqObs(d Deliv) string {
	var us, cs []string
	for _, u := range d.Utxo {
		if u == nil {
			us = append(us, "None")
		} else {
			us = append(us, fmt.Sprintf("Some (%d, %d, %s)", u[0], u[1], CoqBool(u[2] == 1)))
		}
	}
	for _, c := range d.Cons {
		if c < 0 {
			cs = append(cs, "None")
		} else {
			cs = append(cs, fmt.Sprintf("Some %d", c))
		}
	}
	return fmt.Sprintf("(%s, %s, %s)", CoqBool(d.Ok), CoqList(us), CoqList(cs))
}

func runC10(c *Ctx) error {
	c.Stats.Rule = "a case counts as non-trivial when at least one delivery made the node detach a block (a real reorganisation); distinct = distinct (kind, seed)"
	var cases []*Case
	for _, k := range []string{"corpus-vote-veto-reorg", "corpus-coinbase-respend", "corpus-contract-two-branches"} {
		cases = append(cases, &Case{ID: len(cases), Seed: 1, Kind: k})
	}
	n := c.N(150, 900)
	kinds := []string{"random", "random", "votes", "votes", "contracts", "deep"}
	for i := 0; i < n; i++ {
		cases = append(cases, &Case{ID: len(cases), Seed: c.Rng.Next(), Kind: kinds[c.Rng.Intn(len(kinds))]})
	}
	res, err := runAll(cases)
	if err != nil {
		return err
	}
	// the trunk, labelled exactly as every child labels it
	w := cl.Init(cl.DefaultOptions())
	tk := buildTrunk(w)
	gm, tm := tk.label(w, newLabeler())
	var tb []string
	for _, b := range tm {
		tb = append(tb, coqBlock(b))
	}
	header := "From Coq Require Import List NArith Bool.\nFrom C10 Require Import Model Run.\nImport ListNotations.\nOpen Scope N_scope.\n" +
		"Definition genesis : block := " + coqBlock(gm) + ".\n" +
		"Definition trunk : list block := " + CoqList(tb) + ".\n"

	type failRec struct {
		what  string
		descr interface{}
	}
	var knownFails []failRec
	for _, cs := range cases {
		r := res[cs.ID]
		if r == nil {
			return fmt.Errorf("no result for case %d", cs.ID)
		}
		key := fmt.Sprintf("%s/%d", cs.Kind, cs.Seed)
		descr := map[string]interface{}{"id": cs.ID, "kind": cs.Kind, "seed": cs.Seed, "descr": r.Descr}
		if r.Panic != "" || r.Hang {
			what := "class=crash: the node process died: " + r.Panic
			if r.Hang {
				what = "class=hang: the node did not answer within 300 s"
			}
			c.Stats.Fail(what, descr)
			c.Stats.Case(key, false)
			c.Cases.Add("run_case genesis trunk [] [] []", "None")
			continue
		}
		c.Stats.Case(key, r.Reorg)
		c.Stats.Count("kind:" + cs.Kind)
		for k, v := range r.Count {
			for i := 0; i < v; i++ {
				c.Stats.Count(k)
			}
		}
		for _, f := range r.Fails {
			// the evidence keeps the first 20 failures: witnesses of the recorded finding must not crowd out anything else
			if strings.Contains(f, "class=vote-utxo-height-lost") {
				knownFails = append(knownFails, failRec{f, descr})
			} else {
				c.Stats.Fail(f, descr)
			}
		}
		if len(r.Fails) > 0 {
			c.Stats.Count("cases-with-oracle-failures")
		}
		blocks := map[int]MBlock{}
		for _, b := range r.Blocks {
			blocks[b.Label] = b
		}
		var ds, obs, outs, cons []string
		for _, d := range r.Delivs {
			if !d.Step {
				ds = append(ds, "DNone")
			} else {
				var news []string
				for _, l := range d.News {
					news = append(news, coqBlock(blocks[l]))
				}
				ds = append(ds, fmt.Sprintf("DStep %d%%nat %s", d.K, CoqList(news)))
			}
			obs = append(obs, coqObs(d))
		}
		for _, o := range r.Outs {
			outs = append(outs, coqOut(o))
		}
		for _, x := range r.Cons {
			cons = append(cons, fmt.Sprint(x))
		}
		id := c.Cases.Add(fmt.Sprintf("run_case genesis trunk %s %s %s", CoqList(ds), CoqList(outs), CoqList(cons)),
			"Some "+CoqList(obs))
		c.Stats.CaseIndex[fmt.Sprint(id)] = descr
		c.Stats.Count("model_evaluated")
		if r.Reorg {
			c.Stats.Sample(descr)
		}
	}
	for i, f := range knownFails {
		if i >= 6 {
			break
		}
		c.Stats.Fail(f.what, f.descr)
	}
	c.Stats.Extra["known_finding_witnesses"] = len(knownFails)
	c.Cases.Shard = 40
	return c.Cases.Write(c.Out, header, "cres", "cres_eqb")
}

var _ = sort.Ints
