package main

// C08 — every opcode against the reference semantics: single-instruction
// programs for every opcode byte 0x00..0xff on random and boundary stacks,
// both expansion settings. The Coq model (coq/lib/VM.v, proved to refine the
// reference semantics coq/C08/Spec.v: c08_exec_refines_spec_partial) is the
// reference: a mismatch IS the failing input. Direct oracles on the implementation's
// outputs: (1) class=numeric-semantics — for the numeric opcodes 0x8b..0xa5 the expected
// final stack / error class is recomputed with math/big from the decoded operands
// (written from the documented semantics, independent of vm and of the Coq model);
// (2) class=gas-range — 0 <= gas left <= gas limit; (3) class=unknown-error.

import (
	"bytes"
	"crypto/ed25519"
	"encoding/binary"
	"fmt"
	"math/big"

	"github.com/bytom/bytom/protocol/vm"
	. "verifharness/hlib"
	"verifharness/vmlib"
)

func main() { Main("C08", run, nil) }

func num(r *Rng) []byte {
	if r.Chance(50) {
		return vm.Uint64Bytes(uint64(r.Intn(300)))
	}
	return vmlib.Item(r)
}

// numOperand: an operand for the numeric opcodes, mostly valid (< 2^255), concentrated on
// the boundaries where sums / products / shifts cross 2^63, 2^64, 2^255, 2^256.
func numOperand(r *Rng) []byte {
	pow := func(k uint, d int64) []byte {
		n := new(big.Int).Lsh(big.NewInt(1), k)
		n.Add(n, big.NewInt(d))
		return encodeNum(n)
	}
	switch r.Intn(12) {
	case 0:
		return []byte{}
	case 1:
		return vm.Uint64Bytes(uint64(r.Intn(4)))
	case 2:
		return vm.Uint64Bytes(uint64(r.Intn(300)))
	case 3:
		ks := []uint{8, 63, 64, 127, 128, 192, 253, 254}
		return pow(ks[r.Intn(len(ks))], int64(r.Intn(3))-1)
	case 4, 5:
		return pow(255, -1-int64(r.Intn(3))) // 2^255-1, -2, -3
	case 6:
		return pow(254, int64(r.Intn(3))-1)
	case 7:
		b := r.Bytes(32) // random, valid
		b[31] &= 0x7f
		return b
	case 8:
		b := r.Bytes(1 + r.Intn(31))
		return b
	case 9:
		return append(vm.Uint64Bytes(uint64(r.Intn(300))), make([]byte, r.Intn(4))...) // non-minimal
	case 10:
		return vm.Uint64Bytes(r.Next() >> uint(r.Intn(64)))
	default:
		return vmlib.Item(r) // includes invalid: 2^255, 2^256-1, 33 bytes
	}
}

func shiftAmount(r *Rng) []byte {
	ks := []uint64{0, 1, 7, 8, 63, 64, 127, 128, 200, 253, 254, 255, 256, 257, 511, 1 << 32, 1 << 63}
	if r.Chance(20) {
		return numOperand(r)
	}
	if r.Chance(35) {
		return vm.Uint64Bytes(uint64(254 + r.Intn(3))) // the 255 / 256 boundary
	}
	return vm.Uint64Bytes(ks[r.Intn(len(ks))])
}

var predicates = [][]byte{
	{}, {0x51}, {0x00}, {0x51, 0x51, 0x93}, {0x75, 0x51}, {0x6a}, {0x76, 0x76, 0x76, 0x76},
	{0x51, 0x63, 0x00, 0x00, 0x00, 0x00}, // loop until gas runs out
	{0x6b, 0x51}, {0x50}, {0x87}, {0x51, 0x00, 0xc0},
	// children that end with items still on their alt stack (refunded to the parent) or tidy up
	{0x51, 0x6b, 0x51}, {0x52, 0x53, 0x6b, 0x6b, 0x51}, {0x51, 0x6b, 0x6c}, {0x20, 1, 2, 3, 4, 5, 6, 7, 8, 9, 10, 11, 12, 13, 14, 15, 16, 17, 18, 19, 20, 21, 22, 23, 24, 25, 26, 27, 28, 29, 30, 31, 32, 0x6b, 0x51},
	{0x51, 0x6b, 0x00}, {0x51, 0x6b, 0x6a},
}

func stackFor(op byte, r *Rng) [][]byte {
	var st [][]byte
	rnd := func(n int) {
		for i := 0; i < n; i++ {
			st = append(st, vmlib.Item(r))
		}
	}
	if r.Chance(25) {
		rnd(r.Intn(9))
		return st
	}
	rnd(r.Intn(3))
	switch {
	case op == 0x79 || op == 0x7a: // PICK ROLL
		k := r.Intn(5)
		rnd(k)
		if r.Chance(70) {
			st = append(st, vm.Uint64Bytes(uint64(r.Intn(k+2))))
		} else {
			st = append(st, num(r))
		}
	case op == 0x7f: // SUBSTR: string offset size — half of the cases exactly at / one off the end
		s := r.Bytes(r.Intn(20))
		off := r.Intn(len(s) + 2)
		size := r.Intn(len(s) + 2)
		if r.Chance(50) {
			off = r.Intn(len(s) + 1)
			size = len(s) - off + r.Intn(3) - 1
			if size < 0 {
				size = 0
			}
		}
		offB, sizeB := vm.Uint64Bytes(uint64(off)), vm.Uint64Bytes(uint64(size))
		if r.Chance(20) {
			// int64 boundary: offset + size around and beyond 2^63 (the sum must be overflow-checked),
			// operands at 2^63-1, 2^63, 2^64-1
			big := []uint64{1<<63 - 1, 1<<63 - 2, 1 << 63, 1<<64 - 1, 1 << 62, 1<<63 - uint64(len(s)) - 1}
			switch r.Intn(3) {
			case 0:
				offB = vm.Uint64Bytes(big[r.Intn(len(big))])
			case 1:
				sizeB = vm.Uint64Bytes(big[r.Intn(len(big))])
			default:
				offB, sizeB = vm.Uint64Bytes(big[r.Intn(len(big))]), vm.Uint64Bytes(big[r.Intn(len(big))])
			}
		}
		st = append(st, s, offB, sizeB)
	case op == 0x80 || op == 0x81: // LEFT / RIGHT: string size
		s := r.Bytes(r.Intn(20))
		size := r.Intn(len(s) + 2)
		if r.Chance(50) {
			size = len(s) + r.Intn(3) - 1
			if size < 0 {
				size = 0
			}
		}
		st = append(st, s, vm.Uint64Bytes(uint64(size)))
	case op == 0xac: // CHECKSIG
		pub, priv, _ := ed25519.GenerateKey(detRand{r})
		msg := r.Bytes(32)
		sig := ed25519.Sign(priv, msg)
		switch r.Intn(6) {
		case 0:
			sig[r.Intn(64)] ^= 1
		case 1:
			msg[r.Intn(32)] ^= 1
		case 2:
			pub = pub[:31]
		case 3:
			msg = msg[:r.Intn(32)]
		}
		st = append(st, sig, msg, []byte(pub))
	case op == 0xad: // CHECKMULTISIG
		n := r.Intn(4)
		m := 0
		if n > 0 {
			m = 1 + r.Intn(n)
		}
		msg := r.Bytes(32)
		var pubs [][]byte
		var privs []ed25519.PrivateKey
		for i := 0; i < n; i++ {
			pub, priv, _ := ed25519.GenerateKey(detRand{r})
			pubs = append(pubs, pub)
			privs = append(privs, priv)
		}
		// choose m signers in order, sometimes out of order / wrong
		idx := r.Intn(n + 1)
		var sigs [][]byte
		for i := 0; i < m; i++ {
			k := (idx + i) % max(n, 1)
			if n > 0 {
				sigs = append(sigs, ed25519.Sign(privs[k], msg))
			}
		}
		if r.Chance(20) && len(sigs) > 0 {
			sigs[0][3] ^= 1
		}
		if n > 0 && r.Chance(25) {
			// a public key of the wrong length at any position, also below the last key the
			// signatures match (the up-front length check must make the whole op false)
			k := r.Intn(n)
			switch r.Intn(3) {
			case 0:
				pubs[k] = pubs[k][:31]
			case 1:
				pubs[k] = append(append([]byte{}, pubs[k]...), 0)
			default:
				pubs[k] = []byte{}
			}
			if r.Chance(60) && m < n {
				// all m signatures valid and matched by the keys popped first
				sigs = nil
				cnt := 0
				for i := 0; i < n && cnt < m; i++ {
					if i != k {
						sigs = append(sigs, ed25519.Sign(privs[i], msg))
						cnt++
					}
				}
			}
		}
		// stack (bottom→top): sigs (last popped first...) msg pubs m n ; pops: n, m, pubs..., msg, sigs...
		for i := len(sigs) - 1; i >= 0; i-- {
			st = append(st, sigs[i])
		}
		st = append(st, msg)
		for i := len(pubs) - 1; i >= 0; i-- {
			st = append(st, pubs[i])
		}
		mm, nn := uint64(m), uint64(n)
		if r.Chance(25) {
			mm = uint64(r.Intn(5)) // including more signatures than keys, zero signatures
		}
		if r.Chance(15) {
			nn = uint64(r.Intn(5))
		}
		st = append(st, vm.Uint64Bytes(mm), vm.Uint64Bytes(nn))
	case op == 0xc1: // CHECKOUTPUT: index amount asset vmver code
		asset := r.Bytes(32)
		if r.Chance(15) {
			asset = r.Bytes(r.Intn(33))
		}
		st = append(st, vm.Uint64Bytes(uint64(r.Intn(8))), num(r), asset, vm.Uint64Bytes(uint64(r.Intn(3))), r.Bytes(r.Intn(6)))
	case op == 0xc0: // CHECKPREDICATE: args... n predicate limit
		k := r.Intn(4)
		rnd(k)
		lim := uint64(0)
		if r.Chance(60) {
			lim = uint64(r.Intn(400))
		}
		limB := vm.Uint64Bytes(lim)
		if r.Chance(15) {
			// limit operands at the int64 boundary (must be BadValue from 2^63 on)
			limB = vm.Uint64Bytes([]uint64{1<<63 - 1, 1 << 63, 1<<64 - 1, 1<<64 - 50000, 1 << 62}[r.Intn(5)])
		}
		st = append(st, vm.Uint64Bytes(uint64(r.Intn(k+2))), predicates[r.Intn(len(predicates))], limB)
	default:
		if _, _, ar, isNum := numericExpect(op, nil); isNum && r.Chance(85) {
			for i := 0; i < ar; i++ {
				if (op == 0x98 || op == 0x99) && i == ar-1 {
					st = append(st, shiftAmount(r))
				} else if (op == 0x98 || op == 0x99) && r.Chance(30) {
					st = append(st, vm.Uint64Bytes(uint64(1+r.Intn(4)))) // small x: x·2^255 is 2^255 (odd x) or 0
				} else {
					st = append(st, numOperand(r))
				}
			}
			if r.Chance(5) && len(st) > 0 {
				st = st[1:] // one operand short
			}
			return st
		}
		k := 1 + r.Intn(3)
		for i := 0; i < k; i++ {
			st = append(st, num(r))
		}
	}
	return st
}

func max(a, b int) int {
	if a > b {
		return a
	}
	return b
}

type detRand struct{ r *Rng }

func (d detRand) Read(p []byte) (int, error) {
	copy(p, d.r.Bytes(len(p)))
	return len(p), nil
}

// ---- independent numeric oracle (math/big), written from the documented semantics ----

var (
	two255 = new(big.Int).Lsh(big.NewInt(1), 255)
	two256 = new(big.Int).Lsh(big.NewInt(1), 256)
)

// decodeNum: little-endian, at most 32 bytes, below 2^255.
func decodeNum(b []byte) (*big.Int, string) {
	if len(b) > 32 {
		return nil, "EBadValue"
	}
	be := make([]byte, len(b))
	for i := range b {
		be[len(b)-1-i] = b[i]
	}
	n := new(big.Int).SetBytes(be)
	if n.Cmp(two255) >= 0 {
		return nil, "ERange"
	}
	return n, ""
}

// encodeNum: minimal little-endian.
func encodeNum(n *big.Int) []byte {
	be := n.Bytes()
	le := make([]byte, len(be))
	for i := range be {
		le[len(be)-1-i] = be[i]
	}
	return le
}

func boolItem(b bool) []byte {
	if b {
		return []byte{1}
	}
	return []byte{}
}

func ranged(n *big.Int) ([]byte, string) {
	if n.Sign() < 0 || n.Cmp(two255) >= 0 {
		return nil, "ERange"
	}
	return encodeNum(n), ""
}

// numericExpect: expected top of stack or error class of a numeric opcode on the given
// argument stack (bottom first); ok=false when the opcode is not a numeric one.
func numericExpect(op byte, args [][]byte) (top []byte, errc string, arity int, ok bool) {
	switch {
	case op >= 0x8b && op <= 0x8e, op == 0x91, op == 0x92:
		arity = 1
	case op >= 0x93 && op <= 0x99, op >= 0x9c && op <= 0xa4:
		arity = 2
	case op == 0xa5:
		arity = 3
	default:
		return nil, "", 0, false
	}
	ok = true
	// operands are consumed top first, each validated when consumed
	var v []*big.Int
	for k := 0; k < arity; k++ {
		if len(args)-1-k < 0 {
			return nil, "EDataStackUnderflow", arity, true
		}
		n, e := decodeNum(args[len(args)-1-k])
		if e != "" {
			return nil, e, arity, true
		}
		v = append(v, n)
	}
	z := new(big.Int)
	switch op {
	case 0x8b:
		top, errc = ranged(z.Add(v[0], big.NewInt(1)))
	case 0x8c:
		top, errc = ranged(z.Sub(v[0], big.NewInt(1)))
	case 0x8d:
		top, errc = ranged(z.Mul(v[0], big.NewInt(2)))
	case 0x8e:
		top, errc = ranged(z.Quo(v[0], big.NewInt(2)))
	case 0x91:
		top = boolItem(v[0].Sign() == 0)
	case 0x92:
		top = boolItem(v[0].Sign() != 0)
	}
	if arity == 2 {
		y, x := v[0], v[1]
		switch op {
		case 0x93:
			top, errc = ranged(z.Add(x, y))
		case 0x94:
			top, errc = ranged(z.Sub(x, y))
		case 0x95:
			top, errc = ranged(z.Mul(x, y))
		case 0x96:
			if y.Sign() == 0 {
				errc = "EDivZero"
			} else {
				top, errc = ranged(z.Quo(x, y))
			}
		case 0x97:
			if y.Sign() == 0 {
				errc = "EDivZero"
			} else {
				top, errc = ranged(z.Rem(x, y))
			}
		case 0x98: // x·2^y mod 2^256, then the range check; y >= 256 gives 0
			if y.Cmp(big.NewInt(256)) >= 0 {
				top = []byte{}
			} else {
				z.Lsh(x, uint(y.Uint64()))
				z.Mod(z, two256)
				top, errc = ranged(z)
			}
		case 0x99:
			if y.Cmp(big.NewInt(256)) >= 0 {
				top = []byte{}
			} else {
				top, errc = ranged(z.Rsh(x, uint(y.Uint64())))
			}
		case 0x9c:
			top = boolItem(x.Cmp(y) == 0)
		case 0x9d:
			if x.Cmp(y) != 0 {
				errc = "EVerifyFailed"
			}
		case 0x9e:
			top = boolItem(x.Cmp(y) != 0)
		case 0x9f:
			top = boolItem(x.Cmp(y) < 0)
		case 0xa0:
			top = boolItem(x.Cmp(y) > 0)
		case 0xa1:
			top = boolItem(x.Cmp(y) <= 0)
		case 0xa2:
			top = boolItem(x.Cmp(y) >= 0)
		case 0xa3:
			if x.Cmp(y) < 0 {
				top = encodeNum(x)
			} else {
				top = encodeNum(y)
			}
		case 0xa4:
			if x.Cmp(y) > 0 {
				top = encodeNum(x)
			} else {
				top = encodeNum(y)
			}
		}
	}
	if arity == 3 {
		mx, mn, x := v[0], v[1], v[2]
		top = boolItem(mn.Cmp(x) <= 0 && x.Cmp(mx) < 0)
	}
	return top, errc, arity, true
}

// numericOracle compares vm's result of a single numeric instruction with the oracle.
// Only runs that were not cut short by gas are judged (class=numeric-semantics).
func numericOracle(cs *vmlib.Case, o *vmlib.Obs) string {
	if len(cs.Code) != 1 || cs.VMVersion != 1 || o.Err == "ERunLimitExceeded" {
		return ""
	}
	op := cs.Code[0]
	top, errc, arity, ok := numericExpect(op, cs.Args)
	if !ok {
		return ""
	}
	if errc != "" {
		if o.Err != errc {
			return fmt.Sprintf("op %#02x: expected error %s, vm returned %q", op, errc, o.Err)
		}
		return ""
	}
	// success: the final stack is args minus the operands plus (for all but NUMEQUALVERIFY) the result
	want := append([][]byte{}, cs.Args[:len(cs.Args)-arity]...)
	if op != 0x9d {
		want = append(want, top)
	}
	wantErr := ""
	if len(want) == 0 || !vm.AsBool(want[len(want)-1]) {
		wantErr = "EFalseVMResult"
	}
	if o.Err != wantErr {
		return fmt.Sprintf("op %#02x: expected outcome %q, vm returned %q", op, wantErr, o.Err)
	}
	if !o.HasStk || len(o.Stack) != len(want) {
		return fmt.Sprintf("op %#02x: expected %d stack items, vm left %d", op, len(want), len(o.Stack))
	}
	for k := range want {
		if !bytes.Equal(want[k], o.Stack[k]) {
			return fmt.Sprintf("op %#02x: stack item %d is %x, expected %x", op, k, o.Stack[k], want[k])
		}
	}
	return ""
}

func progFor(op byte, r *Rng) []byte {
	p := []byte{op}
	switch {
	case op >= 1 && op <= 75:
		n := int(op)
		if r.Chance(15) {
			n = r.Intn(int(op) + 1)
		}
		p = append(p, r.Bytes(n)...)
	case op == 0x4c:
		n := r.Intn(80)
		p = append(p, byte(n))
		if r.Chance(15) {
			n = r.Intn(n + 1)
		}
		p = append(p, r.Bytes(n)...)
		if r.Chance(5) {
			p = p[:1]
		}
	case op == 0x4d:
		n := r.Intn(300)
		var b [2]byte
		binary.LittleEndian.PutUint16(b[:], uint16(n))
		p = append(p, b[:]...)
		if r.Chance(15) {
			n = r.Intn(n + 1)
		}
		p = append(p, r.Bytes(n)...)
		if r.Chance(5) {
			p = p[:1+r.Intn(2)]
		}
	case op == 0x4e:
		n := r.Intn(300)
		var b [4]byte
		binary.LittleEndian.PutUint32(b[:], uint32(n))
		if r.Chance(10) {
			binary.LittleEndian.PutUint32(b[:], 0xfffffffb+uint32(r.Intn(5)))
		}
		p = append(p, b[:]...)
		if r.Chance(15) {
			n = r.Intn(n + 1)
		}
		p = append(p, r.Bytes(n)...)
		if r.Chance(5) {
			p = p[:1+r.Intn(4)]
		}
	case op == 0x63 || op == 0x64:
		var b [4]byte
		targets := []uint32{0, 1, 5, 6, 100, 0xffffffff, 3}
		binary.LittleEndian.PutUint32(b[:], targets[r.Intn(len(targets))])
		p = append(p, b[:]...)
		if r.Chance(10) {
			p = p[:1+r.Intn(4)]
		}
	}
	// sometimes a trailing instruction so that the result of the op is consumed
	if r.Chance(15) {
		p = append(p, []byte{0x51, 0x75, 0x76, 0x82}[r.Intn(4)])
	}
	return p
}

func run(c *Ctx) error {
	per := c.N(8, 40)
	eval := func(cs *vmlib.Case, op byte, sample bool) {
		o := vmlib.Run(cs)
		desc := vmlib.Describe(cs, o)
		key := fmt.Sprintf("%x|%x|%x|%d|%v", cs.Code, cs.Args, cs.State, cs.Gas, cs.TxVersion != nil && *cs.TxVersion == 1)
		nontrivial := o.Err != "EDataStackUnderflow" && o.Err != "ERunLimitExceeded" && o.Err != "EUnsupportedVM"
		c.Stats.Case(key, nontrivial)
		if o.Err == "" {
			c.Stats.Count("ok")
		} else {
			c.Stats.Count(o.Err)
		}
		if len(o.Err) > 6 && o.Err[:6] == "EOther" {
			c.Stats.Fail("class=unknown-error: opcode returned an error outside the VM error set: "+o.Err, desc)
			return
		}
		if o.Gas < 0 || o.Gas > cs.Gas {
			c.Stats.Fail(fmt.Sprintf("class=gas-range: gas left %d outside [0,%d]", o.Gas, cs.Gas), desc)
		}
		if msg := numericOracle(cs, o); msg != "" {
			c.Stats.Fail("class=numeric-semantics: "+msg, desc)
		} else if _, _, _, isNum := numericExpect(op, cs.Args); isNum && len(cs.Code) == 1 {
			c.Stats.Count("numeric_oracle_checked")
		}
		if sample {
			c.Stats.Sample(desc)
		}
		id := c.Cases.Add(vmlib.CoqModel(cs, o), vmlib.CoqObs(o))
		c.Stats.CaseIndex[fmt.Sprint(id)] = desc
	}
	// ---- fixed boundary corpus (runs in every tier): int64 boundaries of splice operands and
	// CHECKPREDICATE limits, malformed CHECKMULTISIG keys at every position relative to the match
	{
		u := vm.Uint64Bytes
		str := []byte("helloworld")
		for _, os := range [][2]uint64{{1<<63 - 1, 1}, {1<<63 - 1, 1<<63 - 1}, {1, 1<<63 - 1}, {1 << 62, 1 << 62}, {1<<63 - 2, 3}, {1<<63 - 10, 10}, {1<<63 - 10, 11}, {1 << 63, 0}, {0, 1 << 63}, {1<<64 - 1, 1}, {3, 1<<64 - 3}} {
			eval(&vmlib.Case{Code: []byte{0x7f}, Args: [][]byte{str, u(os[0]), u(os[1])}, VMVersion: 1, Gas: 20000, EntryID: make([]byte, 32)}, 0x7f, false)
		}
		for _, sz := range []uint64{1<<63 - 1, 1 << 63, 1<<64 - 1, 10, 11} {
			eval(&vmlib.Case{Code: []byte{0x80}, Args: [][]byte{str, u(sz)}, VMVersion: 1, Gas: 20000, EntryID: make([]byte, 32)}, 0x80, false)
			eval(&vmlib.Case{Code: []byte{0x81}, Args: [][]byte{str, u(sz)}, VMVersion: 1, Gas: 20000, EntryID: make([]byte, 32)}, 0x81, false)
		}
		for _, lim := range []uint64{1<<63 - 1, 1 << 63, 1<<64 - 1, 1<<64 - 50000} {
			eval(&vmlib.Case{Code: []byte{0xc0}, Args: [][]byte{u(0), {0x51}, u(lim)}, VMVersion: 1, Gas: 5000, EntryID: make([]byte, 32)}, 0xc0, false)
		}
		msg := c.Rng.Bytes(32)
		var pubs [][]byte
		var privs []ed25519.PrivateKey
		for i := 0; i < 5; i++ {
			pub, priv, _ := ed25519.GenerateKey(detRand{c.Rng})
			pubs = append(pubs, pub)
			privs = append(privs, priv)
		}
		bad := func(k []byte, how int) []byte {
			switch how {
			case 0:
				return k[:31]
			case 1:
				return append(append([]byte{}, k...), 7)
			}
			return []byte{}
		}
		for _, mn := range [][2]int{{1, 2}, {1, 3}, {2, 3}, {2, 4}, {3, 5}} {
			m, n := mn[0], mn[1]
			for badPos := 0; badPos < n; badPos++ {
				for how := 0; how < 3; how++ {
					// keys in pop order k0..k(n-1); signatures by the first m good keys in pop order
					var keys, sigs [][]byte
					for i := 0; i < n; i++ {
						if i == badPos {
							keys = append(keys, bad(pubs[i], how))
						} else {
							keys = append(keys, pubs[i])
							if len(sigs) < m {
								sigs = append(sigs, ed25519.Sign(privs[i], msg))
							}
						}
					}
					var st [][]byte
					for i := len(sigs) - 1; i >= 0; i-- {
						st = append(st, sigs[i])
					}
					st = append(st, msg)
					for i := len(keys) - 1; i >= 0; i-- {
						st = append(st, keys[i])
					}
					st = append(st, u(uint64(m)), u(uint64(n)))
					eval(&vmlib.Case{Code: []byte{0xad}, Args: st, VMVersion: 1, Gas: 20000, EntryID: make([]byte, 32)}, 0xad, false)
				}
			}
		}
		// 256-bit numeric boundary grid: products / sums / differences that cross 2^255 and 2^256
		// (a product >= 2^256 whose low 256 bits look like a valid number must still be ERange)
		{
			pw := func(k uint, d int64) []byte {
				n := new(big.Int).Lsh(big.NewInt(1), k)
				n.Add(n, big.NewInt(d))
				return encodeNum(n)
			}
			grid := [][]byte{u(0), u(1), u(2), u(3), u(1<<63 - 1), u(1 << 63), u(1<<64 - 1), pw(64, 0), pw(127, 0), pw(128, -1), pw(128, 0), pw(128, 1),
				pw(192, 0), pw(254, -1), pw(254, 0), pw(255, -3), pw(255, -2), pw(255, -1)}
			small := [][]byte{u(0), u(1), u(2), u(3), u(1<<64 - 1), pw(64, 0), pw(128, 0), pw(254, -1), pw(254, 0), pw(255, -2), pw(255, -1)}
			for _, a := range grid {
				for _, b := range grid {
					eval(&vmlib.Case{Code: []byte{0x95}, Args: [][]byte{a, b}, VMVersion: 1, Gas: 20000, EntryID: make([]byte, 32)}, 0x95, false)
				}
			}
			for _, op := range []byte{0x93, 0x94, 0x96, 0x97, 0xa3, 0xa4, 0x9f, 0xa2} {
				for _, a := range small {
					for _, b := range small {
						eval(&vmlib.Case{Code: []byte{op}, Args: [][]byte{a, b}, VMVersion: 1, Gas: 20000, EntryID: make([]byte, 32)}, op, false)
					}
				}
			}
			for _, op := range []byte{0x8b, 0x8c, 0x8d, 0x8e, 0x91, 0x92} {
				for _, a := range grid {
					eval(&vmlib.Case{Code: []byte{op}, Args: [][]byte{a}, VMVersion: 1, Gas: 20000, EntryID: make([]byte, 32)}, op, false)
				}
			}
		}
		c.Stats.Count("boundary-corpus")
	}
	for opi := 0; opi < 256; opi++ {
		op := byte(opi)
		n := per
		if _, _, _, isNum := numericExpect(op, nil); isNum {
			n += c.N(10, 40) // numeric opcodes: more boundary operands for the math/big oracle
		}
		switch op {
		case 0x79, 0x7a, 0x7f, 0x80, 0x81, 0xac, 0xad, 0xc0, 0xc1: // structured operands: index / bounds / counts
			n += c.N(10, 30)
		}
		for k := 0; k < n; k++ {
			cs := &vmlib.Case{Code: progFor(op, c.Rng), Args: stackFor(op, c.Rng), VMVersion: 1, EntryID: c.Rng.Bytes(32)}
			cs.Gas = []int64{300, 2000, 5000, 20000, 60000}[c.Rng.Intn(5)]
			if c.Rng.Chance(5) {
				cs.Gas = int64(c.Rng.Intn(150))
			}
			switch c.Rng.Intn(4) {
			case 0:
				cs.TxVersion = vmlib.U64(1)
			case 1:
				cs.TxVersion = vmlib.U64(2)
			case 2:
				cs.TxVersion = vmlib.U64(1)
			}
			if c.Rng.Chance(3) {
				cs.VMVersion = 2
			}
			if c.Rng.Chance(75) {
				cs.Height = vmlib.U64(c.Rng.Next() >> uint(c.Rng.Intn(64)))
				cs.AssetID = vmlib.Bp(c.Rng.Bytes(32))
				cs.Amount = vmlib.U64(c.Rng.Next() >> uint(c.Rng.Intn(64)))
				cs.DestPos = vmlib.U64(uint64(c.Rng.Intn(5)))
				cs.SpentID = vmlib.Bp(c.Rng.Bytes(32))
				cs.SigHash = c.Rng.Bytes(32)
				cs.HasCO = true
			}
			if c.Rng.Chance(20) {
				cs.State = [][]byte{vmlib.Item(c.Rng)}
			}
			eval(cs, op, k == 0 && opi%40 == 7)
		}
	}
	// ---- sequences: short programs in which an item is copied (DUP, OVER, PICK, 2DUP, 3DUP, TUCK,
	// IFDUP, FROMALTSTACK after TOALTSTACK ...) or produced as a boolean and then transformed by
	// a second opcode while the other copy (or a later boolean) is still observed: every value on
	// the final stack must be what the reference semantics says, i.e. no opcode may write through
	// to a copy, to an argument, or to a shared constant.
	{
		copiers := [][]byte{{0x76}, {0x78}, {0x6e}, {0x6f}, {0x7d}, {0x73}, {0x51, 0x79}, {0x00, 0x79}, {0x6b, 0x6c, 0x76}, {0x70}}
		mutators := []byte{0x83, 0x8b, 0x8c, 0x8d, 0x8e, 0x91, 0x92, 0x84, 0x85, 0x86, 0x7e, 0x93, 0x94, 0x95, 0x98, 0x99, 0x80, 0x81, 0x89, 0xa8, 0xaa, 0x82}
		boolops := [][]byte{{0x87}, {0x9c}, {0x9f}, {0x91}, {0x9a}, {0x9b}}
		nseq := c.N(120, 600)
		for i := 0; i < nseq; i++ {
			var code []byte
			var args [][]byte
			switch c.Rng.Intn(4) {
			case 3: // copy, take a window of the copy, compare with the original
				code = append(code, copiers[c.Rng.Intn(len(copiers))]...)
				switch c.Rng.Intn(3) {
				case 0:
					code = append(code, byte(0x50+1+c.Rng.Intn(8)), 0x80) // n LEFT
				case 1:
					code = append(code, byte(0x50+1+c.Rng.Intn(8)), 0x81) // n RIGHT
				default:
					code = append(code, 0x00, byte(0x50+1+c.Rng.Intn(8)), 0x7f) // 0 n SUBSTR
				}
				code = append(code, []byte{0x87, 0x88, 0x87}[c.Rng.Intn(3)])
			case 0: // copy, mutate, keep both
				code = append(code, copiers[c.Rng.Intn(len(copiers))]...)
				code = append(code, mutators[c.Rng.Intn(len(mutators))])
				if c.Rng.Chance(40) {
					code = append(code, copiers[c.Rng.Intn(len(copiers))]...)
					code = append(code, mutators[c.Rng.Intn(len(mutators))])
				}
			case 1: // boolean result, mutate it, drop, a fresh boolean afterwards
				code = append(code, boolops[c.Rng.Intn(len(boolops))]...)
				code = append(code, mutators[c.Rng.Intn(4)], 0x75)
				code = append(code, 0x57, 0x57)
				code = append(code, boolops[c.Rng.Intn(3)]...)
			default: // mutate an argument, then copy the argument below it
				code = append(code, mutators[c.Rng.Intn(len(mutators))], 0x78, 0x78)
			}
			for k := 0; k < 4; k++ {
				if c.Rng.Chance(60) {
					args = append(args, vm.Uint64Bytes(uint64(c.Rng.Intn(1000))))
				} else {
					args = append(args, c.Rng.Bytes(1+c.Rng.Intn(12)))
				}
			}
			cs := &vmlib.Case{Code: code, Args: args, VMVersion: 1, Gas: 50000, EntryID: make([]byte, 32)}
			before := fmt.Sprintf("%x", args)
			eval(cs, code[0], i == 3)
			if fmt.Sprintf("%x", cs.Args) != before {
				c.Stats.Fail("class=argument-mutated: running a program changed the caller's argument slices", vmlib.Describe(cs, vmlib.Run(cs)))
			}
		}
		c.Stats.Count("sequence-stream")
	}
	c.Stats.Count("model_evaluated")
	c.Stats.Distribution["model_evaluated"] = c.Cases.Len()
	c.Stats.Rule = "for every opcode byte 0x00..0xff: programs consisting of that instruction (well-formed and truncated immediates, occasionally followed by one consumer op) on op-shaped stacks (numeric opcodes get extra cases with operands concentrated on 0, 1, 2^63, 2^64, 2^128, 2^254±1, 2^255-1..3, random 32-byte values, shift amounts around 0/255/256/2^63, plus invalid ones: 2^255, 2^256-1, 33-byte, non-minimal encodings; splice bounds; real ed25519 keys/signatures with corruptions; CHECKPREDICATE children) and on random stacks of 0..8 items of 0..40 bytes; tx version 1 / other / absent; distinct = distinct (program, stack, state, gas, expansion flag); non-trivial = not merely stack underflow / out of gas / unsupported VM"
	c.Cases.Shard = 150
	return c.Cases.Write(c.Out, vmlib.Header, "vmobs", "vmobs_eqb")
}
