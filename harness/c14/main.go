package main

// C14 — coinbase rewards are exact and create no extra money
// (protocol/state/reward.go, protocol/state/checkpoint.go, protocol/validation/block.go,
// proposal/proposal.go).
//
// Streams:
//  A  subsidy: (Votes, Height) -> state.VerifValidatorReward, checked against the exact rational
//     formula (math/big) and sent to C14.Run.run_subs.
//  B  direct checks: synthetic (E, height, coinbase-like tx, reward table) ->
//     validation.VerifCheckCoinbaseAmount, checked against the payout predicate and sent to
//     C14.Run.run_checks.
//  C  chains: real nodes (LevelDB, child processes) fed honest chains of 25..55 blocks with
//     transactions (fees, votes, vetoes, retirements) and mutant sibling blocks whose coinbase
//     pays something else; per delivery the result class, per epoch end the node's reward table,
//     at the end the unspent BTM total; sent to C14.Run.run_case.
//  D  proposer: proposal.NewBlockTemplate on the node at epoch-first heights; its coinbase must
//     pay exactly the expected table and pass checkCoinbaseAmount (Go-only oracle).
//
// Direct oracles use the implementation's outputs and the harness's own bookkeeping only.

import (
	"bufio"
	"bytes"
	"encoding/hex"
	"encoding/json"
	"fmt"
	"math/big"
	"os"
	"os/exec"
	"path/filepath"
	"sort"
	"strconv"
	"strings"
	"sync"
	"time"

	"github.com/bytom/bytom/consensus"
	"github.com/bytom/bytom/proposal"
	"github.com/bytom/bytom/protocol/bc"
	"github.com/bytom/bytom/protocol/bc/types"
	"github.com/bytom/bytom/protocol/state"
	"github.com/bytom/bytom/protocol/validation"
	"github.com/bytom/bytom/protocol/vm/vmutil"
	cl "verifharness/chainlib"
	. "verifharness/hlib"
)

func main() { Main("C14", run, map[string]func([]string) int{"batch": childBatch}) }

// ---------------------------------------------------------------- small helpers

type labeler struct{ m map[string]int }

func newLabeler() *labeler { return &labeler{m: map[string]int{}} }
func (l *labeler) get(k string) int {
	if v, ok := l.m[k]; ok {
		return v
	}
	v := len(l.m) + 1
	l.m[k] = v
	return v
}

func bytesExpr(b []byte) string {
	var sb strings.Builder
	sb.WriteString("[")
	for i, x := range b {
		if i > 0 {
			sb.WriteString(";")
		}
		sb.WriteString(strconv.Itoa(int(x)))
	}
	sb.WriteString("]")
	return sb.String()
}

func cloneU(m map[string]uint64) map[string]uint64 {
	r := map[string]uint64{}
	for k, v := range m {
		r[k] = v
	}
	return r
}

func sortedKeys(m map[string]uint64) []string {
	var ks []string
	for k := range m {
		ks = append(ks, k)
	}
	sort.Strings(ks)
	return ks
}

func equalU(a, b map[string]uint64) bool {
	if len(a) != len(b) {
		return false
	}
	for k, v := range a {
		if w, ok := b[k]; !ok || w != v {
			return false
		}
	}
	return true
}

func finishTx(td types.TxData) *types.Tx {
	bs, err := td.MarshalText()
	if err != nil {
		panic(err)
	}
	td.SerializedSize = uint64(len(bs))
	return types.NewTx(td)
}

var otherAsset = bc.NewAssetID([32]byte{0xa5, 1, 2, 3})

// ---------------------------------------------------------------- subsidy: hook and exact oracle

func hookSubsidy(votes map[string]uint64, h uint64) uint64 {
	return state.VerifValidatorReward(&state.Checkpoint{Height: h, Votes: votes})
}

func totalOf(votes map[string]uint64) uint64 {
	var t uint64
	for _, v := range votes {
		t += v
	}
	return t
}

func supplyOf(h uint64) uint64 { return h*consensus.BlockReward/2 + consensus.InitBTMSupply }

// subsidyOracle: "" when v is within one unit of floor(x) and within [BlockReward/2, BlockReward],
// x = BlockReward if supply == 0 or 2*total > supply, else (total/supply + 1/2) * BlockReward.
func subsidyOracle(total, h, v uint64) string {
	s := supplyOf(h)
	br := new(big.Int).SetUint64(consensus.BlockReward)
	bt := new(big.Int).SetUint64(total)
	bs := new(big.Int).SetUint64(s)
	two := big.NewInt(2)
	fl := new(big.Int).Set(br)
	if s != 0 && new(big.Int).Mul(two, bt).Cmp(bs) <= 0 {
		num := new(big.Int).Mul(br, new(big.Int).Add(new(big.Int).Mul(two, bt), bs))
		fl = new(big.Int).Div(num, new(big.Int).Mul(two, bs))
	}
	bv := new(big.Int).SetUint64(v)
	d := new(big.Int).Sub(bv, fl)
	if v < consensus.BlockReward/2 || v > consensus.BlockReward || d.CmpAbs(big.NewInt(1)) > 0 {
		return fmt.Sprintf("validatorReward(totalVotes=%d, height=%d) = %d but the exact formula gives floor %s (supply %d, bounds [%d,%d])",
			total, h, v, fl.String(), s, consensus.BlockReward/2, consensus.BlockReward)
	}
	return ""
}

// ---------------------------------------------------------------- stream A

func invOdd(a uint64) uint64 { // inverse of an odd number modulo 2^64
	x := a
	for i := 0; i < 6; i++ {
		x *= 2 - a*x
	}
	return x
}

func splitVotes(r *Rng, total uint64, wrap bool) map[string]uint64 {
	n := 1 + r.Intn(4)
	m := map[string]uint64{}
	rest := total
	for i := 0; i < n-1; i++ {
		var p uint64
		if wrap {
			p = r.Next()
		} else if rest == ^uint64(0) {
			p = r.Next() // rest+1 wraps to 0
		} else if rest > 0 {
			p = r.Next() % (rest + 1)
		}
		m[fmt.Sprintf("%02x", i)] = p
		rest -= p
	}
	m[fmt.Sprintf("%02x", n-1)] = rest
	return m
}

type subCase struct {
	kind  string
	votes map[string]uint64
	h     uint64
}

func genSub(r *Rng, i int) subCase {
	kinds := []string{"random", "random", "boundary", "supply", "zero", "huge", "wrap", "bigheight", "smallsupply", "tiny", "edge", "edge", "random-low"}
	k := kinds[i%len(kinds)]
	h := 1 + r.Next()%10000000
	switch k {
	case "bigheight":
		hs := []uint64{1 << 35, 1 << 40, 1 << 63, 1<<63 + 1, ^uint64(0), 1<<34 + r.Next()%(1<<30), r.Next(), r.Next() | 1<<63}
		h = hs[r.Intn(len(hs))]
	case "smallsupply":
		h = uint64(r.Intn(12)) * invOdd(consensus.BlockReward)
	}
	s := supplyOf(h)
	var total uint64
	wrap := false
	switch k {
	case "random", "bigheight", "smallsupply":
		total = r.Next() % (s/2 + s/16 + 1)
		if r.Chance(25) {
			total = s/2 - 2 + uint64(r.Intn(5))
		}
	case "random-low":
		total = r.Next() % (s/1000 + 1)
	case "boundary":
		total = s/2 - 2 + uint64(r.Intn(5))
	case "supply":
		total = s
	case "zero":
		total = 0
	case "huge":
		total = ^uint64(0) - uint64(r.Intn(1000))
	case "wrap":
		total = r.Next() % (s/2 + s/16 + 1)
		wrap = true
	case "tiny":
		total = uint64(r.Intn(2000))
	case "edge":
		// x crosses an integer: total ~ (m + 1/2) * supply / BlockReward
		m := new(big.Int).SetUint64(2*(r.Next()%(consensus.BlockReward/2)) + 1)
		t := new(big.Int).Mul(m, new(big.Int).SetUint64(s))
		t.Div(t, new(big.Int).SetUint64(2*consensus.BlockReward))
		total = t.Uint64() + uint64(r.Intn(3)) - 1
		if total > s/2 {
			total = s / 2
		}
	}
	votes := splitVotes(r, total, wrap)
	if k == "zero" && r.Bool() {
		votes = map[string]uint64{}
	}
	return subCase{k, votes, h}
}

func streamA(c *Ctx) {
	n := c.N(320, 6000)
	var batch []string
	var descs []interface{}
	nBatch := 0
	flush := func() {
		if len(batch) == 0 {
			return
		}
		id := c.Cases.Add("run_subs "+CoqList(batch), "RS true")
		c.Stats.Count("coq_cases_subsidy")
		c.Stats.Case(fmt.Sprint("sub", id, batch[0]), true)
		d := map[string]interface{}{"stream": "subsidy", "run_seed": c.Seed, "tier": c.Tier, "batch": nBatch, "count": len(batch)}
		if nBatch%20 == 0 {
			d["entries"] = descs
		}
		c.Stats.CaseIndex[fmt.Sprint(id)] = d
		nBatch++
		batch, descs = nil, nil
	}
	failed := 0
	for i := 0; i < n; i++ {
		sc := genSub(c.Rng, i)
		total := totalOf(sc.votes)
		v := hookSubsidy(sc.votes, sc.h)
		c.Stats.Count("subsidy_kind_" + sc.kind)
		if v == consensus.BlockReward {
			c.Stats.Count("subsidy_value_full")
		} else {
			c.Stats.Count("subsidy_value_partial")
		}
		d := map[string]interface{}{"kind": sc.kind, "votes": sc.votes, "height": sc.h, "total": total, "value": v}
		if msg := subsidyOracle(total, sc.h, v); msg != "" {
			c.Stats.Count("oracle_class=subsidy-formula")
			if failed < 3 {
				c.Stats.Fail("class=subsidy-formula: "+msg, d)
			}
			failed++
		}
		batch = append(batch, fmt.Sprintf("(%d, %d, %d)", total, sc.h, v))
		descs = append(descs, d)
		if i == 0 {
			c.Stats.Sample(d)
		}
		if len(batch) == 40 {
			flush()
		}
	}
	flush()
}

// ---------------------------------------------------------------- stream B: direct calls of checkCoinbaseAmount

type cOut struct {
	Prog  []byte `json:"prog"`
	Amt   uint64 `json:"amt"`
	Asset int    `json:"asset"` // 0 BTM, 1 another asset
	Vote  bool   `json:"vote"`
}

type cRew struct {
	Prog []byte `json:"prog"`
	Amt  uint64 `json:"amt"`
}

type cCheck struct {
	Kind    string `json:"kind"`
	E       uint64 `json:"e"`
	H       uint64 `json:"h"`
	NoTx    bool   `json:"notx"`
	Outs    []cOut `json:"outs"`
	Extra   int    `json:"extra"`
	Rewards []cRew `json:"rewards"`
	Honest  bool   `json:"honest"`
}

var progsB = [][]byte{{0x51}, {0x52}, {0x53}, {0x54}, {0x55},
	{0x00, 0x14, 1, 2, 3, 4, 5, 6, 7, 8, 9, 10, 11, 12, 13, 14, 15, 16, 17, 18, 19, 20}, {0x6a}, {}}

var votePubB = func() []byte {
	b := make([]byte, 64)
	for i := range b {
		b[i] = byte(3*i + 7)
	}
	return b
}()

func genAmtB(r *Rng) uint64 {
	switch r.Intn(10) {
	case 0:
		return 1
	case 1:
		return 1<<63 + r.Next()%1000
	case 2:
		return ^uint64(0) - uint64(r.Intn(3))
	case 3:
		return 285388127 + uint64(r.Intn(10))
	default:
		return 1 + r.Next()%2000000000
	}
}

func genCheck(r *Rng) *cCheck {
	ck := &cCheck{E: uint64(1 + r.Intn(6))}
	k := uint64(1 + r.Intn(50))
	switch r.Intn(8) {
	case 0:
		ck.H = 1
	case 1:
		ck.H = ck.E + 1
	case 2, 3, 7:
		ck.H = ck.E*k + 1
	case 4:
		ck.H = ck.E * k
	case 5:
		ck.H = ck.E*k + 2
	case 6:
		ck.H = 1 + r.Next()%1000
	}
	if r.Chance(4) {
		ck.H = (r.Next()>>3)/ck.E*ck.E + 1
	}
	due := ck.H%ck.E == 1
	// reward table
	perm := []int{0, 1, 2, 3, 4, 5}
	for i := len(perm) - 1; i > 0; i-- {
		j := r.Intn(i + 1)
		perm[i], perm[j] = perm[j], perm[i]
	}
	n := r.Intn(5)
	for i := 0; i < n; i++ {
		p := progsB[perm[i]]
		if r.Chance(5) {
			p = progsB[6+r.Intn(2)]
			dup := false
			for _, e := range ck.Rewards {
				if bytes.Equal(e.Prog, p) {
					dup = true
				}
			}
			if dup {
				p = progsB[perm[i]]
			}
		}
		ck.Rewards = append(ck.Rewards, cRew{p, genAmtB(r)})
	}
	zeroEntry := false
	if n > 0 && r.Chance(10) {
		ck.Rewards[r.Intn(n)].Amt = 0
		zeroEntry = true
	}
	inTable := func(p []byte) bool {
		for _, e := range ck.Rewards {
			if bytes.Equal(e.Prog, p) {
				return true
			}
		}
		return false
	}
	foreign := func() []byte {
		for tries := 0; tries < 20; tries++ {
			p := progsB[r.Intn(len(progsB))]
			if !inTable(p) {
				return p
			}
		}
		return []byte{0x59}
	}
	known := func() []byte {
		if len(ck.Rewards) == 0 {
			return foreign()
		}
		return ck.Rewards[r.Intn(len(ck.Rewards))].Prog
	}
	// honest base
	shape := "off-epoch"
	if due {
		var tab []cOut
		for _, e := range ck.Rewards {
			tab = append(tab, cOut{Prog: e.Prog, Amt: e.Amt})
		}
		for i := len(tab) - 1; i > 0; i-- {
			j := r.Intn(i + 1)
			tab[i], tab[j] = tab[j], tab[i]
		}
		switch r.Intn(4) {
		case 0:
			shape = "table-permuted"
			ck.Outs = tab
		case 1:
			shape = "proposer-merged"
			if len(tab) > 1 {
				rest := tab[1:]
				sort.Slice(rest, func(a, b int) bool { return hex.EncodeToString(rest[a].Prog) < hex.EncodeToString(rest[b].Prog) })
			}
			ck.Outs = tab
		case 2:
			shape = "zero-first-own"
			ck.Outs = append([]cOut{{Prog: known()}}, tab...)
		case 3:
			shape = "zero-first-foreign"
			ck.Outs = append([]cOut{{Prog: foreign()}}, tab...)
		}
		if len(ck.Outs) == 0 {
			ck.Outs = []cOut{{Prog: foreign()}}
		}
	} else {
		ck.Outs = []cOut{{Prog: progsB[r.Intn(len(progsB))]}}
	}
	ck.Kind = shape
	ck.Honest = !zeroEntry
	if zeroEntry {
		ck.Kind += "+zero-entry"
	}
	// mutations
	nm := 0
	if x := r.Intn(100); x < 55 {
		nm = 1
	} else if x < 70 {
		nm = 2
	}
	big := func() uint64 {
		if r.Bool() {
			return 1<<63 + r.Next()%(1<<62)
		}
		return 1000000000 + r.Next()%1000000000
	}
	insert := func(o cOut, pos int) {
		if pos > len(ck.Outs) {
			pos = len(ck.Outs)
		}
		ck.Outs = append(ck.Outs, cOut{})
		copy(ck.Outs[pos+1:], ck.Outs[pos:])
		ck.Outs[pos] = o
	}
	for m := 0; m < nm; m++ {
		muts := []string{"plus1", "minus1", "extra-known-0", "extra-known-1", "extra-known-big", "extra-new-0", "extra-new-1", "extra-new-big",
			"missing", "wrong-prog", "split", "zero-insert", "wrap2", "wrap3", "asset", "vote", "notx", "nooutputs", "swap", "pay-table", "two-zero", "amount1"}
		mu := muts[r.Intn(len(muts))]
		idx := 0
		if len(ck.Outs) > 0 {
			idx = r.Intn(len(ck.Outs))
		}
		applied := true
		switch mu {
		case "plus1":
			if len(ck.Outs) > 0 {
				ck.Outs[idx].Amt++
			}
		case "minus1":
			if len(ck.Outs) > 0 {
				ck.Outs[idx].Amt--
			}
		case "extra-known-0":
			insert(cOut{Prog: known()}, 1+r.Intn(len(ck.Outs)+1))
		case "extra-known-1":
			insert(cOut{Prog: known(), Amt: 1}, r.Intn(len(ck.Outs)+1))
		case "extra-known-big":
			insert(cOut{Prog: known(), Amt: big()}, r.Intn(len(ck.Outs)+1))
		case "extra-new-0":
			insert(cOut{Prog: foreign()}, 1+r.Intn(len(ck.Outs)+1))
		case "extra-new-1":
			insert(cOut{Prog: foreign(), Amt: 1}, r.Intn(len(ck.Outs)+1))
		case "extra-new-big":
			insert(cOut{Prog: foreign(), Amt: big()}, r.Intn(len(ck.Outs)+1))
		case "missing":
			if len(ck.Outs) > 0 {
				ck.Outs = append(append([]cOut{}, ck.Outs[:idx]...), ck.Outs[idx+1:]...)
			}
		case "wrong-prog":
			if len(ck.Outs) > 0 {
				ck.Outs[idx].Prog = foreign()
			}
		case "split":
			if len(ck.Outs) > 0 && ck.Outs[idx].Amt >= 2 {
				a := 1 + r.Next()%(ck.Outs[idx].Amt-1)
				o := ck.Outs[idx]
				ck.Outs[idx].Amt -= a
				o.Amt = a
				insert(o, r.Intn(len(ck.Outs)+1))
			} else {
				applied = false
			}
		case "zero-insert":
			p := known()
			if r.Bool() {
				p = foreign()
			}
			insert(cOut{Prog: p}, r.Intn(len(ck.Outs)+1))
		case "wrap2":
			if len(ck.Outs) > 0 {
				o := ck.Outs[idx]
				ck.Outs[idx].Amt = 1 << 63
				o.Amt += 1 << 63
				insert(o, r.Intn(len(ck.Outs)+1))
			}
		case "wrap3":
			if len(ck.Outs) > 0 {
				o := ck.Outs[idx]
				a, b := uint64(6000000000000000000), uint64(6000000000000000000)+r.Next()%1000
				c3 := o.Amt - a - b // wraps: a + b + c3 = 2^64 + amount
				ck.Outs[idx].Amt = a
				insert(cOut{Prog: o.Prog, Amt: b}, r.Intn(len(ck.Outs)+1))
				insert(cOut{Prog: o.Prog, Amt: c3}, r.Intn(len(ck.Outs)+1))
			}
		case "asset":
			if len(ck.Outs) > 0 {
				ck.Outs[idx].Asset = 1
			}
		case "vote":
			if len(ck.Outs) > 0 {
				ck.Outs[idx].Vote = true
			}
		case "notx":
			ck.NoTx = true
		case "nooutputs":
			ck.Outs = nil
		case "swap":
			if len(ck.Outs) >= 2 {
				j := r.Intn(len(ck.Outs))
				ck.Outs[idx].Amt, ck.Outs[j].Amt = ck.Outs[j].Amt, ck.Outs[idx].Amt
			} else {
				applied = false
			}
		case "pay-table":
			ck.Outs = nil
			for _, e := range ck.Rewards {
				ck.Outs = append(ck.Outs, cOut{Prog: e.Prog, Amt: e.Amt})
			}
		case "two-zero":
			ck.Outs = []cOut{{Prog: known()}, {Prog: foreign()}}
		case "amount1":
			ck.Outs = []cOut{{Prog: known(), Amt: 1}}
		}
		if applied {
			ck.Kind += "+" + mu
			ck.Honest = false
		}
	}
	if r.Chance(15) {
		ck.Extra = 1 + r.Intn(2)
	}
	return ck
}

func buildOutputs(outs []cOut, vote []byte) []*types.TxOutput {
	var res []*types.TxOutput
	for _, o := range outs {
		asset := *consensus.BTMAssetID
		if o.Asset == 1 {
			asset = otherAsset
		}
		if o.Vote {
			res = append(res, types.NewVoteOutput(asset, o.Amt, o.Prog, vote, nil))
		} else {
			res = append(res, types.NewOriginalTxOutput(asset, o.Amt, o.Prog, nil))
		}
	}
	return res
}

// runCheck builds the synthetic block and checkpoint, calls the hook; ok=false when the transaction cannot be built.
func runCheck(ck *cCheck) (accepted bool, ok bool) {
	defer func() {
		if e := recover(); e != nil {
			ok = false
		}
	}()
	b := &types.Block{BlockHeader: types.BlockHeader{Version: 1, Height: ck.H}}
	if !ck.NoTx {
		td := types.TxData{Version: 1, Inputs: []*types.TxInput{types.NewCoinbaseInput([]byte{0, 0x31})}, Outputs: buildOutputs(ck.Outs, votePubB)}
		b.Transactions = append(b.Transactions, types.NewTx(td))
		for i := 0; i < ck.Extra; i++ {
			td := types.TxData{Version: 1,
				Inputs:  []*types.TxInput{types.NewSpendInput(nil, bc.NewHash([32]byte{byte(i + 1)}), *consensus.BTMAssetID, 5000000, 0, []byte{0x51}, nil)},
				Outputs: []*types.TxOutput{types.NewOriginalTxOutput(*consensus.BTMAssetID, 3000000, []byte{0x52}, nil)}}
			b.Transactions = append(b.Transactions, types.NewTx(td))
		}
	}
	cp := &state.Checkpoint{Rewards: map[string]uint64{}}
	for _, e := range ck.Rewards {
		cp.Rewards[hex.EncodeToString(e.Prog)] = e.Amt
	}
	saved := consensus.ActiveNetParams.BlocksOfEpoch
	consensus.ActiveNetParams.BlocksOfEpoch = ck.E
	defer func() { consensus.ActiveNetParams.BlocksOfEpoch = saved }()
	err := validation.VerifCheckCoinbaseAmount(b, cp)
	return err == nil, true
}

func outExpr(id int, plab *labeler, prog []byte, amt uint64, btm, orig bool) string {
	return fmt.Sprintf("O %d %d %d %s %s %s", id, plab.get(hex.EncodeToString(prog)), amt, CoqBool(btm), CoqBool(orig), CoqBool(!vmutil.IsUnspendable(prog)))
}

func checkExpr(ck *cCheck, plab *labeler) string {
	var txs []string
	if !ck.NoTx {
		var outs, votes []string
		for i, o := range ck.Outs {
			outs = append(outs, outExpr(i+1, plab, o.Prog, o.Amt, o.Asset == 0, !o.Vote))
			if o.Vote {
				votes = append(votes, fmt.Sprintf("(%s, %d)", bytesExpr(votePubB), o.Amt))
			}
		}
		txs = append(txs, fmt.Sprintf("T true [] %s [] %s", CoqList(outs), CoqList(votes)))
		for i := 0; i < ck.Extra; i++ {
			txs = append(txs, fmt.Sprintf("T false [I %d 5000000 true] [%s] [] []", 900+i, outExpr(950+i, plab, []byte{0x52}, 3000000, true, true)))
		}
	}
	var rw []string
	for _, e := range ck.Rewards {
		rw = append(rw, fmt.Sprintf("(%d, %d)", plab.get(hex.EncodeToString(e.Prog)), e.Amt))
	}
	return fmt.Sprintf("(%d, %d, %s, %s)", ck.E, ck.H, CoqList(txs), CoqList(rw))
}

// checkOracle: the payout predicate on an accepted synthetic block (implementation verdict only).
func checkOracle(ck *cCheck, accepted bool) string {
	if !accepted {
		if ck.Honest {
			return fmt.Sprintf("class=honest-rejected: checkCoinbaseAmount rejects the honest coinbase shape %q (E=%d, height=%d)", ck.Kind, ck.E, ck.H)
		}
		return ""
	}
	if ck.NoTx {
		return "class=check-wrong-payout: checkCoinbaseAmount accepts a block without transactions"
	}
	if ck.H%ck.E != 1 {
		if len(ck.Outs) != 1 || ck.Outs[0].Amt != 0 {
			return fmt.Sprintf("class=check-nonzero-off-epoch: checkCoinbaseAmount accepts a coinbase other than one zero output at height %d (E=%d), shape %q", ck.H, ck.E, ck.Kind)
		}
		return ""
	}
	sums := map[string]uint64{}
	for i, o := range ck.Outs {
		if i == 0 && o.Amt == 0 {
			continue
		}
		sums[hex.EncodeToString(o.Prog)] += o.Amt
	}
	allNonzero := true
	rew := map[string]uint64{}
	for _, e := range ck.Rewards {
		rew[hex.EncodeToString(e.Prog)] = e.Amt
		if e.Amt == 0 {
			allNonzero = false
		}
	}
	for p, v := range rew {
		if sums[p] != v {
			return fmt.Sprintf("class=check-wrong-payout: checkCoinbaseAmount accepts a coinbase paying %d to program %s whose table entry is %d (E=%d, height=%d, shape %q)", sums[p], p, v, ck.E, ck.H, ck.Kind)
		}
	}
	if allNonzero {
		for p, v := range sums {
			if _, ok := rew[p]; !ok && v != 0 {
				return fmt.Sprintf("class=check-wrong-payout: checkCoinbaseAmount accepts a coinbase paying %d to program %s which is not in the table (E=%d, height=%d, shape %q)", v, p, ck.E, ck.H, ck.Kind)
			}
		}
	}
	return ""
}

func streamB(c *Ctx) {
	n := c.N(350, 3500)
	var batch, obs []string
	var descs []interface{}
	nBatch := 0
	plab := newLabeler()
	flush := func() {
		if len(batch) == 0 {
			return
		}
		id := c.Cases.Add("run_checks "+CoqList(batch), "RK "+CoqList(obs))
		c.Stats.Count("coq_cases_checks")
		c.Stats.Case(fmt.Sprint("chk", id, batch[0]), true)
		d := map[string]interface{}{"stream": "checks", "run_seed": c.Seed, "tier": c.Tier, "batch": nBatch, "count": len(batch)}
		if nBatch%10 == 0 {
			d["entries"] = descs
		}
		c.Stats.CaseIndex[fmt.Sprint(id)] = d
		nBatch++
		batch, obs, descs = nil, nil, nil
		plab = newLabeler()
	}
	perClass := map[string]int{}
	for i := 0; i < n; i++ {
		ck := genCheck(c.Rng)
		acc, ok := runCheck(ck)
		if !ok {
			c.Stats.Count("check_unbuildable")
			continue
		}
		for _, part := range strings.Split(ck.Kind, "+") {
			c.Stats.Count("check_shape_" + part)
		}
		c.Stats.Count(fmt.Sprintf("check_E_%d", ck.E))
		c.Stats.Count(fmt.Sprintf("check_due_%v_accepted_%v", ck.H%ck.E == 1, acc))
		if ck.Honest {
			c.Stats.Count("check_honest")
		}
		if msg := checkOracle(ck, acc); msg != "" {
			cls := strings.SplitN(msg, ":", 2)[0]
			c.Stats.Count("oracle_" + cls)
			if perClass[cls] < 2 {
				perClass[cls]++
				c.Stats.Fail(msg, map[string]interface{}{"stream": "checks", "check": ck})
			}
		}
		batch = append(batch, checkExpr(ck, plab))
		if acc {
			obs = append(obs, "0")
		} else {
			obs = append(obs, "1")
		}
		descs = append(descs, ck)
		if i == 1 {
			c.Stats.Sample(map[string]interface{}{"stream": "checks", "check": ck, "accepted": acc})
		}
		if len(batch) == 25 {
			flush()
		}
	}
	flush()
}

// ---------------------------------------------------------------- stream C: chains (child side)

type caseSpec struct {
	ID   int    `json:"id"`
	Seed uint64 `json:"seed"`
}

type batchFile struct {
	E     uint64     `json:"e"`
	Cases []caseSpec `json:"cases"`
}

// one line of child output
type line struct {
	T  string `json:"t"` // plan | step | result
	ID int    `json:"id"`
	// plan
	E      uint64   `json:"e,omitempty"`
	Subtab string   `json:"subtab,omitempty"`
	U0     string   `json:"u0,omitempty"`
	Steps  []string `json:"steps,omitempty"`
	Kinds  []string `json:"kinds,omitempty"`
	// step
	I     int    `json:"i,omitempty"`
	Cls   int    `json:"cls,omitempty"`
	Table string `json:"table,omitempty"`
	// result
	NSteps     int                    `json:"nsteps,omitempty"`
	Total      string                 `json:"total,omitempty"`
	Fails      []string               `json:"fails,omitempty"`
	HarnessErr string                 `json:"harness_err,omitempty"`
	Counts     map[string]int         `json:"counts,omitempty"`
	Nontrivial bool                   `json:"nontrivial,omitempty"`
	Desc       map[string]interface{} `json:"desc,omitempty"`
	ProbeM     []string               `json:"probe_m,omitempty"` // stream D: model tuples (E, h, script, iter)
	ProbeO     []string               `json:"probe_o,omitempty"` // stream D: observed output lists
}

var (
	progA       = []byte{0x51}
	progB       = []byte{0x52}
	progC       = []byte{0x53}
	progD       = []byte{0x54} // "new" program
	progBurn    = []byte{0x6a}
	rewardProgs = [][]byte{progA, progB, progC}
)

type mOut struct {
	prog  []byte
	amt   uint64
	asset int
	vote  bool
}

type stepInfo struct {
	adv      bool
	honest   bool // expected to be accepted (honest shape or accepted-by-design variant)
	kind     string
	height   uint64
	block    *types.Block
	hash     bc.Hash
	due      map[string]uint64 // table this height's coinbase must pay (empty when nothing is due)
	epochEnd map[string]uint64 // for honest blocks closing an epoch: the expected table of that epoch
	expr     string
	probe    bool    // before this delivery ask the node for a block template (stream D)
	parent   bc.Hash // honest parent
}

type poolEnt struct {
	out    cl.Out
	height uint64
	cb     bool
	vote   bool
	amt    uint64
}

type caseBuilder struct {
	w        *cl.World
	E        uint64
	r        *Rng
	plab     *labeler
	olab     *labeler
	counts   map[string]int
	fails    []string
	subtab   []string
	subSeen  map[string]bool
	steps    []*stepInfo
	herr     string
	worldOff bool // the World's copy of the subsidy formula disagrees with the implementation: no cross-check
	probeM   []string
	probeO   []string
}

func (cb *caseBuilder) count(k string) { cb.counts[k]++ }

// tallyAfter: the vote tally after a block (own implementation of the documented rule: a veto
// removes its amount (the key disappears when nothing is left), a vote output adds its amount).
func tallyAfter(parent map[string]uint64, b *types.Block) map[string]uint64 {
	t := cloneU(parent)
	for _, tx := range b.Transactions {
		for _, in := range tx.Inputs {
			if v, ok := in.TypedInput.(*types.VetoInput); ok {
				k := hex.EncodeToString(v.Vote)
				if t[k] > v.Amount {
					t[k] -= v.Amount
				} else {
					delete(t, k)
				}
			}
		}
		for _, o := range tx.Outputs {
			if v, ok := o.TypedOutput.(*types.VoteOutput); ok {
				t[hex.EncodeToString(v.Vote)] += o.Amount
			}
		}
	}
	return t
}

// subsidyFor records the subsidy table entry of (tally, height) and checks it against the exact formula.
func (cb *caseBuilder) subsidyFor(tally map[string]uint64, h uint64) uint64 {
	total := totalOf(tally)
	v := hookSubsidy(tally, h)
	key := fmt.Sprintf("(%d, %d, %d)", total, h, v)
	if !cb.subSeen[key] {
		cb.subSeen[key] = true
		cb.subtab = append(cb.subtab, key)
		if msg := subsidyOracle(total, h, v); msg != "" {
			cb.fails = append(cb.fails, "class=subsidy-formula: "+msg)
		}
	}
	return v
}

func (cb *caseBuilder) blockExpr(b *types.Block) string {
	var txs []string
	for _, tx := range b.Transactions {
		isCb := false
		var ins, outs, vetoes, votes []string
		sp := 0
		for _, in := range tx.Inputs {
			switch t := in.TypedInput.(type) {
			case *types.CoinbaseInput:
				isCb = true
			case *types.SpendInput:
				ins = append(ins, fmt.Sprintf("I %d %d %s", cb.olab.get(tx.SpentOutputIDs[sp].String()), t.Amount, CoqBool(*t.AssetId == *consensus.BTMAssetID)))
				sp++
			case *types.VetoInput:
				ins = append(ins, fmt.Sprintf("I %d %d %s", cb.olab.get(tx.SpentOutputIDs[sp].String()), t.Amount, CoqBool(*t.AssetId == *consensus.BTMAssetID)))
				vetoes = append(vetoes, fmt.Sprintf("(%s, %d)", bytesExpr(t.Vote), t.Amount))
				sp++
			}
		}
		for i, o := range tx.Outputs {
			outs = append(outs, outExpr(cb.olab.get(tx.ResultIds[i].String()), cb.plab, o.ControlProgram, o.Amount,
				*o.AssetId == *consensus.BTMAssetID, o.OutputType() == types.OriginalOutputType))
			if v, ok := o.TypedOutput.(*types.VoteOutput); ok {
				votes = append(votes, fmt.Sprintf("(%s, %d)", bytesExpr(v.Vote), o.Amount))
			}
		}
		txs = append(txs, fmt.Sprintf("T %s %s %s %s %s", CoqBool(isCb), CoqList(ins), CoqList(outs), CoqList(vetoes), CoqList(votes)))
	}
	return fmt.Sprintf("B %d %s", b.Height, CoqList(txs))
}

// defaultPayout: proposer's program first (its table amount, or zero), the rest sorted by program.
func defaultPayout(table map[string]uint64, prog []byte) []mOut {
	ph := hex.EncodeToString(prog)
	outs := []mOut{{prog: prog, amt: table[ph]}}
	for _, k := range sortedKeys(table) {
		if k == ph {
			continue
		}
		p, _ := hex.DecodeString(k)
		outs = append(outs, mOut{prog: p, amt: table[k]})
	}
	return outs
}

func copyOuts(o []mOut) []mOut { return append([]mOut{}, o...) }

func insertOut(outs []mOut, o mOut, pos int) []mOut {
	if pos > len(outs) {
		pos = len(outs)
	}
	outs = append(outs, mOut{})
	copy(outs[pos+1:], outs[pos:])
	outs[pos] = o
	return outs
}

// buildBlock builds a signed block on parent with the given coinbase outputs. bi is nil when the
// World cannot keep books for the shape (a coinbase without outputs).
func (cb *caseBuilder) buildBlock(parent *cl.BlockInfo, txs []*types.Tx, outs []mOut) (*types.Block, *cl.BlockInfo) {
	plain := len(outs) > 0
	for _, o := range outs {
		if o.asset != 0 || o.vote {
			plain = false
		}
	}
	if plain {
		var specs []cl.OutSpec
		for _, o := range outs {
			specs = append(specs, cl.OutSpec{Amount: o.amt, Program: o.prog})
		}
		bi := cb.w.NewBlock(parent, txs, cl.BlockOpt{CoinbaseOuts: specs})
		return bi.Block, bi
	}
	var captured *types.Block
	var bi *cl.BlockInfo
	mut := func(b *types.Block) {
		captured = b
		td := b.Transactions[0].TxData
		var co []cOut
		for _, o := range outs {
			co = append(co, cOut{Prog: o.prog, Amt: o.amt, Asset: o.asset, Vote: o.vote})
		}
		td.Outputs = buildOutputs(co, cb.w.Pubs[1][:])
		b.Transactions[0] = finishTx(td)
	}
	func() {
		defer func() { recover() }() // the World's bookkeeping reads Outputs[0] (after signing)
		bi = cb.w.NewBlock(parent, txs, cl.BlockOpt{CoinbaseOuts: []cl.OutSpec{{Amount: 0, Program: progA}}, Mutate: mut})
	}()
	return captured, bi
}

func (cb *caseBuilder) foreignProg(table map[string]uint64) []byte {
	var cands [][]byte
	for _, p := range append(append([][]byte{}, rewardProgs...), progD) {
		if _, ok := table[hex.EncodeToString(p)]; !ok {
			cands = append(cands, p)
		}
	}
	if len(cands) == 0 {
		return []byte{0x55}
	}
	return cands[cb.r.Intn(len(cands))]
}

// mutantOuts returns the coinbase outputs of a mutant of the given kind ("" = not applicable).
func (cb *caseBuilder) mutantOuts(kind string, base []mOut, due, older, lastPaid map[string]uint64, prog []byte, ownSubsidy uint64) ([]mOut, bool) {
	r := cb.r
	o := copyOuts(base)
	pick := func() int { return r.Intn(len(o)) }
	nonzero := func() int {
		var idx []int
		for i, x := range o {
			if x.amt > 0 {
				idx = append(idx, i)
			}
		}
		if len(idx) == 0 {
			return -1
		}
		return idx[r.Intn(len(idx))]
	}
	knownProg := func() []byte {
		ks := sortedKeys(due)
		if len(ks) == 0 {
			return prog
		}
		p, _ := hex.DecodeString(ks[r.Intn(len(ks))])
		return p
	}
	big := uint64(1000000000 + r.Next()%1000000000)
	switch kind {
	case "plus1":
		i := pick()
		o[i].amt++
	case "minus1":
		i := nonzero()
		if i < 0 {
			return nil, false
		}
		o[i].amt--
	case "extra-known-1":
		o = insertOut(o, mOut{prog: knownProg(), amt: 1}, r.Intn(len(o)+1))
	case "extra-known-big":
		o = insertOut(o, mOut{prog: knownProg(), amt: big}, r.Intn(len(o)+1))
	case "extra-new-0":
		o = insertOut(o, mOut{prog: cb.foreignProg(due)}, 1+r.Intn(len(o)))
	case "extra-new-1":
		o = insertOut(o, mOut{prog: cb.foreignProg(due), amt: 1}, r.Intn(len(o)+1))
	case "extra-new-big":
		o = insertOut(o, mOut{prog: cb.foreignProg(due), amt: big}, r.Intn(len(o)+1))
	case "missing":
		i := nonzero()
		if i < 0 {
			return nil, false
		}
		o = append(o[:i], o[i+1:]...)
		if len(o) == 0 {
			o = []mOut{{prog: prog}}
		}
	case "wrong-prog":
		i := nonzero()
		if i < 0 {
			return nil, false
		}
		o[i].prog = cb.foreignProg(due)
	case "swap":
		var idx []int
		for i, x := range o {
			if x.amt > 0 {
				idx = append(idx, i)
			}
		}
		if len(idx) < 2 || o[idx[0]].amt == o[idx[1]].amt {
			return nil, false
		}
		o[idx[0]].amt, o[idx[1]].amt = o[idx[1]].amt, o[idx[0]].amt
	case "no-payout":
		o = []mOut{{prog: prog}}
	case "overflow3":
		i := nonzero()
		if i < 0 {
			return nil, false
		}
		a, b := uint64(6000000000000000000), uint64(6000000000000000000)+r.Next()%1000
		c3 := o[i].amt - a - b
		p := o[i].prog
		o[i].amt = a
		o = insertOut(o, mOut{prog: p, amt: b}, r.Intn(len(o)+1))
		o = insertOut(o, mOut{prog: p, amt: c3}, r.Intn(len(o)+1))
	case "overflow4": // amounts of 2^63 and more cannot be serialised: four outputs below 2^63 summing to 2^64 + amount
		i := nonzero()
		if i < 0 {
			return nil, false
		}
		x := o[i]
		o[i].amt = 1 << 62
		o = insertOut(o, mOut{prog: x.prog, amt: 1 << 62}, r.Intn(len(o)+1))
		o = insertOut(o, mOut{prog: x.prog, amt: 1 << 62}, r.Intn(len(o)+1))
		o = insertOut(o, mOut{prog: x.prog, amt: 1<<62 + x.amt}, r.Intn(len(o)+1))
	case "asset":
		i := pick()
		o[i].asset = 1
	case "vote-type":
		i := pick()
		o[i].vote = true
	case "older-table":
		if older == nil || equalU(older, due) {
			return nil, false
		}
		o = defaultPayout(older, prog)
	case "self-pay":
		o[0].amt += ownSubsidy
	case "amount1":
		o = []mOut{{prog: prog, amt: 1}}
	case "prev-table-again":
		if len(lastPaid) == 0 {
			return nil, false
		}
		o = defaultPayout(lastPaid, prog)
	case "two-zero":
		o = []mOut{{prog: prog}, {prog: rewardProgs[r.Intn(3)]}}
	case "no-outputs":
		o = nil
	case "asset-zero":
		o = []mOut{{prog: prog, asset: 1}}
	case "vote-zero":
		o = []mOut{{prog: prog, vote: true}}
	case "subsidy-now":
		o = []mOut{{prog: prog, amt: ownSubsidy}}
	default:
		return nil, false
	}
	return o, true
}

var mutantsDue = []string{"plus1", "minus1", "extra-known-1", "extra-known-big", "extra-new-0", "extra-new-1", "extra-new-big", "missing",
	"wrong-prog", "swap", "no-payout", "overflow3", "overflow4", "asset", "vote-type", "older-table", "self-pay", "no-outputs"}
var mutantsOff = []string{"amount1", "prev-table-again", "two-zero", "no-outputs", "asset-zero", "vote-zero", "subsidy-now", "amount1"}

func matured(e *poolEnt, h uint64, votePending uint64) bool {
	switch {
	case e.cb:
		return e.height+consensus.CoinbasePendingBlockNumber <= h
	case e.vote:
		return e.height+votePending <= h
	}
	return e.height < h
}

// genTxs builds 0..3 transactions for the block at height h from matured outputs of the honest chain.
func (cb *caseBuilder) genTxs(pool *[]*poolEnt, h uint64) (txs []*types.Tx, fees uint64) {
	r := cb.r
	n := r.Intn(4)
	for t := 0; t < n; t++ {
		var cands []int
		for i, e := range *pool {
			if matured(e, h, cb.w.Opt.VotePending) && e.amt >= 3*cl.DefaultFee {
				cands = append(cands, i)
			}
		}
		if len(cands) == 0 {
			break
		}
		nin := 1
		if len(cands) >= 2 && r.Chance(30) {
			nin = 2
		}
		chosen := map[int]bool{}
		// prefer a matured vote output now and then (a veto)
		if r.Chance(50) {
			for _, i := range cands {
				if (*pool)[i].vote {
					chosen[i] = true
					break
				}
			}
		}
		for len(chosen) < nin {
			chosen[cands[r.Intn(len(cands))]] = true
		}
		var ins []cl.Out
		var sumIn uint64
		var rest []*poolEnt
		for i, e := range *pool {
			if chosen[i] {
				ins = append(ins, e.out)
				sumIn += e.amt
				if e.vote {
					cb.count("tx_veto_inputs")
				}
				if e.cb {
					cb.count("tx_coinbase_inputs")
				}
			} else {
				rest = append(rest, e)
			}
		}
		*pool = rest
		fee := uint64(cl.DefaultFee)
		switch r.Intn(4) {
		case 1:
			fee += r.Next() % 1000000
		case 2:
			fee += r.Next() % (sumIn/10 + 1)
		case 3:
			fee += r.Next() % (sumIn/10*9 + 1)
		}
		nOut := uint64(1 + r.Intn(3))
		if fee+nOut > sumIn {
			fee = cl.DefaultFee
		}
		left := sumIn - fee
		var specs []cl.OutSpec
		for i := uint64(0); i < nOut; i++ {
			part := left
			if i < nOut-1 {
				part = 1 + r.Next()%(left-(nOut-1-i))
			}
			left -= part
			x := r.Intn(100)
			switch {
			case part >= consensus.MinVoteOutputAmount && x < 25:
				k := r.Intn(len(cb.w.Pubs))
				specs = append(specs, cl.OutSpec{Amount: part, Vote: cb.w.Pubs[k][:], Program: rewardProgs[r.Intn(3)]})
				cb.count("tx_vote_outputs")
			case x >= 25 && x < 35 && part < sumIn/2:
				specs = append(specs, cl.OutSpec{Amount: part, Program: progBurn})
				cb.count("tx_retirement_outputs")
			default:
				specs = append(specs, cl.OutSpec{Amount: part, Program: rewardProgs[r.Intn(3)]})
				cb.count("tx_plain_outputs")
			}
		}
		tx := cl.NewTx(ins, specs, 0)
		txs = append(txs, tx)
		fees += fee
		switch {
		case fee == cl.DefaultFee:
			cb.count("tx_fee_default")
		case fee < sumIn/10:
			cb.count("tx_fee_small")
		default:
			cb.count("tx_fee_large")
		}
	}
	return txs, fees
}

// variant: coinbase shapes the rule accepts by design.
func (cb *caseBuilder) variant(base []mOut, due map[string]uint64) (string, []mOut) {
	r := cb.r
	var tab []mOut
	for _, k := range sortedKeys(due) {
		p, _ := hex.DecodeString(k)
		tab = append(tab, mOut{prog: p, amt: due[k]})
	}
	for i := len(tab) - 1; i > 0; i-- {
		j := r.Intn(i + 1)
		tab[i], tab[j] = tab[j], tab[i]
	}
	switch r.Intn(4) {
	case 0:
		return "reordered", tab
	case 1:
		o := copyOuts(base)
		var idx []int
		for i, x := range o {
			if x.amt >= 2 {
				idx = append(idx, i)
			}
		}
		if len(idx) == 0 {
			return "reordered", tab
		}
		i := idx[r.Intn(len(idx))]
		a := 1 + r.Next()%(o[i].amt-1)
		o[i].amt -= a
		return "split", insertOut(o, mOut{prog: o[i].prog, amt: a}, 1+r.Intn(len(o)))
	case 2:
		return "zero-first-foreign", append([]mOut{{prog: cb.foreignProg(due)}}, tab...)
	}
	o := copyOuts(base)
	return "extra-zero-known", insertOut(o, mOut{prog: tab[r.Intn(len(tab))].prog}, 1+r.Intn(len(o)))
}

// build constructs the whole case offline: honest chain plus mutant siblings.
func (cb *caseBuilder) build() {
	w, E, r := cb.w, cb.E, cb.r
	L := E + 11 + E*uint64(4+r.Intn(4)) + uint64(r.Intn(int(E)))
	tip := w.Genesis
	tally := map[string]uint64{}
	cur := map[string]uint64{}
	finished := map[uint64]map[string]uint64{}
	var lastPaid map[string]uint64
	var pool []*poolEnt
	epochMode, epochProg := 0, progA
	probes := 0
	cb.count(fmt.Sprintf("chain_length_%d_%d", L/10*10, L/10*10+9))
	for h := uint64(1); h <= L; h++ {
		dueNow := h%E == 1
		due := map[string]uint64{}
		var older map[string]uint64
		if dueNow && h > 1 {
			due = finished[(h-1)/E]
			if !cb.worldOff && !equalU(due, tip.EpochRewards) {
				cb.herr = fmt.Sprintf("height %d: own table %v differs from the World's %v", h, due, tip.EpochRewards)
				return
			}
			older = finished[(h-1)/E-1]
			cb.count(fmt.Sprintf("table_programs_%d", len(due)))
		}
		if dueNow {
			epochMode, epochProg = r.Intn(3), rewardProgs[r.Intn(3)]
			cb.count(fmt.Sprintf("epoch_proposer_mode_%d", epochMode))
		}
		prog := epochProg
		switch epochMode {
		case 1:
			prog = rewardProgs[int(h)%3]
		case 2:
			prog = rewardProgs[r.Intn(3)]
		}
		txs, fee := cb.genTxs(&pool, h)
		cb.count(fmt.Sprintf("block_txs_%d", len(txs)))
		// the honest block
		variant := "plain"
		base := defaultPayout(due, prog)
		var blk *types.Block
		var bi *cl.BlockInfo
		if dueNow && h > 1 && r.Chance(50) {
			var outs []mOut
			variant, outs = cb.variant(base, due)
			blk, bi = cb.buildBlock(tip, txs, outs)
		} else if dueNow && h > 1 {
			// always from the harness's own table (the World keeps its own copy of the subsidy formula)
			blk, bi = cb.buildBlock(tip, txs, base)
		} else {
			bi = w.NewBlock(tip, txs, cl.BlockOpt{RewardProgram: prog})
			blk = bi.Block
		}
		if dueNow && h > 1 {
			cb.count("honest_payout_" + variant)
		}
		newTally := tallyAfter(tally, blk)
		sub := cb.subsidyFor(newTally, h)
		// mutant siblings, delivered before the honest block
		first := len(cb.steps)
		if h < L && r.Chance(35) {
			nm := 1 + r.Intn(2)
			seen := map[bc.Hash]bool{blk.Hash(): true}
			for m := 0; m < nm; m++ {
				kinds := mutantsOff
				if dueNow && h > 1 {
					kinds = mutantsDue
				}
				kind := kinds[r.Intn(len(kinds))]
				outs, ok := cb.mutantOuts(kind, base, due, older, lastPaid, prog, sub)
				if !ok {
					cb.count("mutant_not_applicable_" + kind)
					continue
				}
				mtxs := txs
				if len(txs) > 0 && r.Bool() {
					mtxs = nil
				}
				mb, _ := cb.buildBlock(tip, mtxs, outs)
				if mb == nil || seen[mb.Hash()] {
					cb.count("mutant_dropped_identical")
					continue
				}
				seen[mb.Hash()] = true
				cb.subsidyFor(tallyAfter(tally, mb), h)
				cb.steps = append(cb.steps, &stepInfo{adv: false, kind: kind, height: h, block: mb, hash: mb.Hash(), due: due,
					expr: "(false, " + cb.blockExpr(mb) + ")", parent: tip.Hash})
			}
		}
		// own bookkeeping of the honest chain
		tally = newTally
		if dueNow {
			cur = map[string]uint64{}
		}
		p0 := hex.EncodeToString(blk.Transactions[0].Outputs[0].ControlProgram)
		cur[p0] += fee + sub
		if bi == nil {
			cb.herr = fmt.Sprintf("height %d: honest block without bookkeeping", h)
			return
		}
		if !cb.worldOff && !equalU(cur, bi.EpochRewards) {
			// the World's own copy of the subsidy formula against the implementation's value
			worldGain := bi.EpochRewards[p0]
			if !dueNow {
				worldGain -= tip.EpochRewards[p0]
			}
			if worldGain-fee != sub {
				cb.worldOff = true
				cb.count("world_subsidy_differs_from_implementation")
			} else {
				cb.herr = fmt.Sprintf("height %d: own growing table %v differs from the World's %v", h, cur, bi.EpochRewards)
				return
			}
		}
		st := &stepInfo{adv: true, honest: true, kind: "honest-" + variant, height: h, block: blk, hash: blk.Hash(), due: due,
			expr: "(true, " + cb.blockExpr(blk) + ")", parent: tip.Hash}
		if h%E == 0 {
			finished[h/E] = cloneU(cur)
			st.epochEnd = finished[h/E]
		}
		if dueNow && h > 1 {
			lastPaid = due
		}
		cb.steps = append(cb.steps, st)
		if dueNow && h > 1 && probes < 2 && r.Chance(30) {
			cb.steps[first].probe = true
			probes++
		}
		for ti, tx := range blk.Transactions {
			for i, o := range tx.Outputs {
				if o.Amount == 0 || *o.AssetId != *consensus.BTMAssetID || vmutil.IsUnspendable(o.ControlProgram) {
					continue
				}
				pool = append(pool, &poolEnt{out: cl.Out{Tx: tx, Pos: i}, height: h, cb: ti == 0, vote: o.OutputType() == types.VoteOutputType, amt: o.Amount})
			}
		}
		tip = bi
	}
}

func groupCoinbase(b *types.Block) map[string]*big.Int {
	g := map[string]*big.Int{}
	if len(b.Transactions) == 0 {
		return g
	}
	for _, o := range b.Transactions[0].Outputs {
		k := hex.EncodeToString(o.ControlProgram)
		if g[k] == nil {
			g[k] = new(big.Int)
		}
		g[k].Add(g[k], new(big.Int).SetUint64(o.Amount))
	}
	for k, v := range g {
		if v.Sign() == 0 {
			delete(g, k)
		}
	}
	return g
}

func sameGroups(g map[string]*big.Int, table map[string]uint64) bool {
	n := 0
	for k, v := range table {
		if v == 0 {
			continue
		}
		n++
		if g[k] == nil || g[k].Cmp(new(big.Int).SetUint64(v)) != 0 {
			return false
		}
	}
	return n == len(g)
}

func showGroups(g map[string]*big.Int) string {
	var ks []string
	for k := range g {
		ks = append(ks, k)
	}
	sort.Strings(ks)
	var it []string
	for _, k := range ks {
		it = append(it, k+":"+g[k].String())
	}
	return "{" + strings.Join(it, " ") + "}"
}

func showTable(t map[string]uint64) string {
	var it []string
	for _, k := range sortedKeys(t) {
		it = append(it, fmt.Sprintf("%s:%d", k, t[k]))
	}
	return "{" + strings.Join(it, " ") + "}"
}

func (cb *caseBuilder) tableExpr(h uint64, t map[string]uint64) string {
	type e struct {
		l int
		v uint64
	}
	var es []e
	for _, k := range sortedKeys(t) {
		es = append(es, e{cb.plab.get(k), t[k]})
	}
	sort.Slice(es, func(i, j int) bool { return es[i].l < es[j].l })
	var it []string
	for _, x := range es {
		it = append(it, fmt.Sprintf("(%d, %d)", x.l, x.v))
	}
	return fmt.Sprintf("(%d, %s)", h, CoqList(it))
}

func runChainCase(w *cl.World, E uint64, cs caseSpec, base string, emit func(*line)) error {
	cb := &caseBuilder{w: w, E: E, r: NewRng(cs.Seed), plab: newLabeler(), olab: newLabeler(), counts: map[string]int{}, subSeen: map[string]bool{}}
	// genesis outputs
	var u0 []string
	gsum := new(big.Int)
	for _, tx := range w.Genesis.Block.Transactions {
		for i, o := range tx.Outputs {
			l := cb.olab.get(tx.ResultIds[i].String())
			if *o.AssetId == *consensus.BTMAssetID && o.Amount > 0 {
				u0 = append(u0, fmt.Sprintf("(%d, %d)", l, o.Amount))
				gsum.Add(gsum, new(big.Int).SetUint64(o.Amount))
			}
		}
	}
	cb.build()
	if cb.herr != "" {
		return fmt.Errorf("case %d (seed %d): %s", cs.ID, cs.Seed, cb.herr)
	}
	plan := &line{T: "plan", ID: cs.ID, E: E, Subtab: CoqList(cb.subtab), U0: CoqList(u0)}
	for _, st := range cb.steps {
		plan.Steps = append(plan.Steps, st.expr)
		plan.Kinds = append(plan.Kinds, st.kind)
	}
	emit(plan)

	dir := filepath.Join(base, fmt.Sprintf("node_%d", cs.ID))
	os.RemoveAll(dir)
	n, err := cl.NewNode(dir)
	if err != nil {
		return err
	}
	fails := append([]string{}, cb.fails...)
	fail := func(f string, a ...interface{}) { fails = append(fails, fmt.Sprintf(f, a...)) }
	acceptedMut := map[uint64]map[bc.Hash]bool{}
	var lastHonest *stepInfo
	broken := false
	nontrivial := false
	paidExpected := new(big.Int)
	nsteps := 0
	for i, st := range cb.steps {
		if st.probe {
			cb.probeTemplate(n, st, &fails)
		}
		// a node also answers validator queries about its tip (API, proposer, vote handling) between
		// blocks; they must not change which checkpoint's reward table the next block is held to
		if cb.r.Chance(40) {
			tip := n.Chain.BestBlockHeader().Hash()
			n.Chain.AllValidators(&tip)
			n.Chain.GetValidator(&tip, n.Chain.BestBlockHeader().Timestamp)
		}
		orphan, perr := n.Process(st.block)
		cls := 0
		if perr != nil || orphan {
			cls = 1
		}
		nsteps = i + 1
		sl := &line{T: "step", ID: cs.ID, I: i, Cls: cls}
		dueNow := st.height%E == 1
		if !st.adv {
			cb.count(fmt.Sprintf("mutant_%s_class_%d", st.kind, cls))
		}
		if cls == 0 {
			// no extra money: the coinbase of an accepted block pays exactly what is due
			g := groupCoinbase(st.block)
			if !sameGroups(g, st.due) {
				if dueNow {
					fail("class=extra-money: the node accepts block %d (%s) at epoch-first height %d whose coinbase pays %s while the finished epoch's table is %s", i, st.kind, st.height, showGroups(g), showTable(st.due))
				} else {
					fail("class=extra-money: the node accepts block %d (%s) at height %d (not the first of an epoch) whose coinbase pays %s", i, st.kind, st.height, showGroups(g))
				}
			}
			if !st.adv {
				if acceptedMut[st.height] == nil {
					acceptedMut[st.height] = map[bc.Hash]bool{}
				}
				acceptedMut[st.height][st.hash] = true
			}
		}
		if st.honest {
			if cls != 0 {
				fail("class=honest-rejected: honest block %d (%s, height %d) is rejected (orphan=%v, err=%v)", i, st.kind, st.height, orphan, perr)
				broken = true
			} else {
				best := n.Chain.BestBlockHeader().Hash()
				switch {
				case best == st.hash:
				case acceptedMut[st.height][best] && n.Chain.BlockExist(&st.hash):
					// an accepted mutant sibling outranks it by hash; the next honest block must take over
				default:
					fail("class=honest-not-best: after honest block %d (height %d) the best block is neither it nor an accepted sibling", i, st.height)
				}
				lastHonest = st
				for _, v := range st.due {
					paidExpected.Add(paidExpected, new(big.Int).SetUint64(v))
				}
				if len(st.due) >= 2 || len(st.block.Transactions) > 1 {
					nontrivial = true
				}
				if st.epochEnd != nil {
					cp, err := n.Chain.PrevCheckpointByPrevHash(&st.hash)
					if err != nil || cp == nil {
						fail("class=table-mismatch: no checkpoint readable at epoch end height %d: %v", st.height, err)
						sl.Table = cb.tableExpr(st.height, map[string]uint64{})
					} else {
						sl.Table = cb.tableExpr(st.height, cp.Rewards)
						if !equalU(cp.Rewards, st.epochEnd) {
							fail("class=table-mismatch: at epoch end height %d the node's reward table is %s, expected %s", st.height, showTable(cp.Rewards), showTable(st.epochEnd))
						}
					}
				}
			}
		}
		emit(sl)
		if broken {
			break
		}
	}
	// supply at the end
	bestH := n.Chain.BestBlockHeader()
	if !broken && lastHonest != nil && bestH.Hash() != lastHonest.hash {
		fail("class=honest-not-best: at the end the best block (height %d) is not the honest tip (height %d)", bestH.Height, lastHonest.height)
	}
	U, P := new(big.Int), new(big.Int)
	seen := map[bc.Hash]bool{}
	for h := uint64(0); h <= bestH.Height; h++ {
		b, err := n.Chain.GetBlockByHeight(h)
		if err != nil {
			return fmt.Errorf("case %d: main chain block %d unreadable: %v", cs.ID, h, err)
		}
		for ti, tx := range b.Transactions {
			for i, o := range tx.Outputs {
				if *o.AssetId != *consensus.BTMAssetID {
					continue
				}
				if h >= 1 && ti == 0 {
					P.Add(P, new(big.Int).SetUint64(o.Amount))
				}
				id := *tx.ResultIds[i]
				if seen[id] {
					continue
				}
				seen[id] = true
				if e, err := n.Store.GetUtxo(&id); err == nil && e != nil && !e.Spent {
					U.Add(U, new(big.Int).SetUint64(o.Amount))
				}
			}
		}
	}
	if U.Cmp(new(big.Int).Add(gsum, P)) > 0 {
		fail("class=supply-exceeded: unspent BTM %s exceeds genesis %s plus coinbase payouts %s", U, gsum, P)
	}
	if lastHonest != nil && bestH.Hash() == lastHonest.hash && P.Cmp(paidExpected) > 0 {
		fail("class=supply-exceeded: coinbase payouts on the main chain %s exceed the expected tables of the paid epochs %s", P, paidExpected)
	}
	cb.count(fmt.Sprintf("E_%d", E))
	emit(&line{T: "result", ID: cs.ID, NSteps: nsteps, Total: U.String(), Fails: fails, Counts: cb.counts, Nontrivial: nontrivial, ProbeM: cb.probeM, ProbeO: cb.probeO,
		Desc: map[string]interface{}{"stream": "chain", "seed": cs.Seed, "E": E, "steps": len(cb.steps), "kinds": plan.Kinds, "best_height": bestH.Height, "paid": P.String(), "unspent": U.String()}})
	return nil
}

// probeTemplate (stream D): the node's own block template at an epoch-first height pays exactly the due table.
func (cb *caseBuilder) probeTemplate(n *cl.Node, st *stepInfo, fails *[]string) {
	if n.Chain.BestBlockHeader().Hash() != st.parent {
		cb.count("proposer_probe_skipped")
		return
	}
	tmpl, err := proposal.NewBlockTemplate(n.Chain, nil, nil, n.Chain.BestBlockHeader().Timestamp+consensus.ActiveNetParams.BlockTimeInterval, 10*time.Second, 20*time.Second)
	if err != nil || tmpl == nil || len(tmpl.Transactions) == 0 {
		*fails = append(*fails, fmt.Sprintf("class=proposer-disagrees: NewBlockTemplate at height %d fails: %v", st.height, err))
		return
	}
	cb.count("proposer_probe")
	cb.recordProbe(tmpl, st)
	g := groupCoinbase(tmpl)
	if !sameGroups(g, st.due) {
		*fails = append(*fails, fmt.Sprintf("class=proposer-disagrees: the template for height %d pays %s, the finished epoch's table is %s", st.height, showGroups(g), showTable(st.due)))
	}
	cp, err := n.Chain.PrevCheckpointByPrevHash(&tmpl.PreviousBlockHash)
	if err != nil {
		*fails = append(*fails, fmt.Sprintf("class=proposer-disagrees: no checkpoint for the template at height %d: %v", st.height, err))
		return
	}
	if err := validation.VerifCheckCoinbaseAmount(tmpl, cp); err != nil {
		*fails = append(*fails, fmt.Sprintf("class=proposer-disagrees: checkCoinbaseAmount rejects the node's own template at height %d", st.height))
	}
}

// recordProbe (stream D, model tie): the output list of the node's own createCoinbaseTx against the
// model's create_coinbase.  The iteration order of the reward map is read off the template: the
// expected table's entries in the order their programs first appear among outputs 1.., the rest after.
func (cb *caseBuilder) recordProbe(tmpl *types.Block, st *stepInfo) {
	outs := tmpl.Transactions[0].Outputs
	if len(outs) == 0 {
		return
	}
	script := hex.EncodeToString(outs[0].ControlProgram)
	var obs, iter []string
	used := map[string]bool{}
	for i, o := range outs {
		p := hex.EncodeToString(o.ControlProgram)
		obs = append(obs, fmt.Sprintf("(%d, %d)", cb.plab.get(p), o.Amount))
		if v, ok := st.due[p]; ok && i > 0 && !used[p] {
			used[p] = true
			iter = append(iter, fmt.Sprintf("(%d, %d)", cb.plab.get(p), v))
		}
	}
	for _, p := range sortedKeys(st.due) {
		if !used[p] {
			iter = append(iter, fmt.Sprintf("(%d, %d)", cb.plab.get(p), st.due[p]))
		}
	}
	cb.probeM = append(cb.probeM, fmt.Sprintf("(%d, %d, %d, %s)", cb.E, st.height, cb.plab.get(script), CoqList(iter)))
	cb.probeO = append(cb.probeO, CoqList(obs))
}

// child batch <file> <scratch dir>
func childBatch(args []string) int {
	if len(args) != 2 {
		return 2
	}
	raw, err := os.ReadFile(args[0])
	if err != nil {
		fmt.Fprintln(os.Stderr, err)
		return 2
	}
	var bf batchFile
	if err := json.Unmarshal(raw, &bf); err != nil {
		fmt.Fprintln(os.Stderr, err)
		return 2
	}
	opts := cl.DefaultOptions()
	opts.BlocksOfEpoch = bf.E
	w := cl.Init(opts)
	out := bufio.NewWriter(os.Stdout)
	emit := func(l *line) {
		js, _ := json.Marshal(l)
		out.Write(js)
		out.WriteString("\n")
		out.Flush()
	}
	for _, cs := range bf.Cases {
		fmt.Fprintf(out, "BEGIN %d\n", cs.ID)
		out.Flush()
		if err := runChainCase(w, bf.E, cs, args[1], emit); err != nil {
			fmt.Fprintln(os.Stderr, "harness child error:", err)
			return 3
		}
	}
	return 0
}

// ---------------------------------------------------------------- stream C: parent side

func jobs() int {
	if v, err := strconv.Atoi(os.Getenv("VERIF_JOBS")); err == nil && v > 0 {
		if v > 12 {
			v = 12
		}
		return v
	}
	return 6
}

type chainResult struct {
	spec   caseSpec
	E      uint64
	plan   *line
	steps  []*line
	result *line
	panic  string
	hang   bool
}

func tail(s string, n int) string {
	if len(s) > n {
		return s[len(s)-n:]
	}
	return s
}

func panicHead(trace string) string {
	var keep []string
	for _, l := range strings.Split(trace, "\n") {
		l = strings.TrimSpace(l)
		if strings.HasPrefix(l, "panic:") || strings.HasPrefix(l, "[signal") || strings.HasPrefix(l, "fatal error:") ||
			(strings.HasPrefix(l, "github.com/bytom/bytom/") && len(keep) < 8) {
			if i := strings.Index(l, "(0x"); i > 0 {
				l = l[:i]
			}
			keep = append(keep, l)
		}
	}
	if len(keep) == 0 {
		return "abnormal exit: " + tail(trace, 300)
	}
	return strings.Join(keep, " | ")
}

func runChunk(dir string, k int, E uint64, cases []caseSpec, res map[int]*chainResult, mu *sync.Mutex) error {
	for len(cases) > 0 {
		f := filepath.Join(dir, fmt.Sprintf("chunk_%d.json", k))
		js, _ := json.Marshal(batchFile{E: E, Cases: cases})
		if err := os.WriteFile(f, js, 0644); err != nil {
			return err
		}
		base := filepath.Join(dir, fmt.Sprintf("nodes_%d_%d", k, len(cases)))
		cmd := exec.Command(os.Args[0], "child", "batch", f, base)
		var stderr bytes.Buffer
		cmd.Stderr = &stderr
		stdout, err := cmd.StdoutPipe()
		if err != nil {
			return err
		}
		if err := cmd.Start(); err != nil {
			return err
		}
		lines := make(chan string, 16)
		go func() {
			sc := bufio.NewScanner(stdout)
			sc.Buffer(make([]byte, 1<<20), 1<<27)
			for sc.Scan() {
				lines <- sc.Text()
			}
			close(lines)
		}()
		var cur *chainResult
		done, hang := 0, false
	loop:
		for {
			select {
			case l, ok := <-lines:
				if !ok {
					break loop
				}
				if strings.HasPrefix(l, "BEGIN ") {
					id, _ := strconv.Atoi(l[6:])
					cur = &chainResult{E: E}
					for _, cs := range cases {
						if cs.ID == id {
							cur.spec = cs
						}
					}
					continue
				}
				ln := &line{}
				if err := json.Unmarshal([]byte(l), ln); err != nil || cur == nil {
					cmd.Process.Kill()
					cmd.Wait()
					return fmt.Errorf("unparseable child output %q", tail(l, 300))
				}
				switch ln.T {
				case "plan":
					cur.plan = ln
				case "step":
					cur.steps = append(cur.steps, ln)
				case "result":
					cur.result = ln
					mu.Lock()
					res[cur.spec.ID] = cur
					mu.Unlock()
					done++
					cur = nil
				}
			case <-time.After(150 * time.Second):
				hang = true
				cmd.Process.Kill()
				break loop
			}
		}
		err = cmd.Wait()
		os.RemoveAll(base)
		if err == nil && !hang && done == len(cases) {
			return nil
		}
		if ee, ok := err.(*exec.ExitError); ok && ee.ExitCode() == 3 {
			return fmt.Errorf("child: %s", tail(stderr.String(), 800))
		}
		if cur == nil || cur.plan == nil || done >= len(cases) || cases[done].ID != cur.spec.ID {
			return fmt.Errorf("child failed outside the delivery of a case: %v: %s", err, tail(stderr.String(), 1500))
		}
		cur.hang = hang
		if !hang {
			cur.panic = panicHead(stderr.String())
			if !strings.Contains(cur.panic, "github.com/bytom/bytom/") {
				return fmt.Errorf("child crashed outside the node's code: %s", tail(stderr.String(), 1500))
			}
		}
		mu.Lock()
		res[cur.spec.ID] = cur
		mu.Unlock()
		cases = cases[done+1:]
	}
	return nil
}

type chunk struct {
	E     uint64
	cases []caseSpec
}

func runAll(chunks []chunk) (map[int]*chainResult, error) {
	tmp := ""
	if st, err := os.Stat("/dev/shm"); err == nil && st.IsDir() {
		tmp = "/dev/shm"
	}
	dir, err := os.MkdirTemp(tmp, "c14-run-")
	if err != nil {
		return nil, err
	}
	defer os.RemoveAll(dir)
	res := map[int]*chainResult{}
	var mu sync.Mutex
	ch := make(chan int)
	errs := make(chan error, len(chunks)+1)
	var wg sync.WaitGroup
	for wk := 0; wk < jobs(); wk++ {
		wg.Add(1)
		go func() {
			defer wg.Done()
			for k := range ch {
				if err := runChunk(dir, k, chunks[k].E, chunks[k].cases, res, &mu); err != nil {
					errs <- err
				}
			}
		}()
	}
	for k := range chunks {
		ch <- k
	}
	close(ch)
	wg.Wait()
	select {
	case err := <-errs:
		return nil, err
	default:
	}
	return res, nil
}

func streamC(c *Ctx) error {
	nCases := c.N(72, 504)
	per := 12
	var chunks []chunk
	var all []caseSpec
	for lo := 0; lo < nCases; lo += per {
		k := len(chunks)
		E := uint64(4)
		switch k % 4 {
		case 1:
			E = 3
		case 3:
			E = 5
		}
		ck := chunk{E: E}
		for i := lo; i < lo+per && i < nCases; i++ {
			cs := caseSpec{ID: i, Seed: c.Rng.Next()}
			ck.cases = append(ck.cases, cs)
			all = append(all, cs)
		}
		chunks = append(chunks, ck)
	}
	res, err := runAll(chunks)
	if err != nil {
		return err
	}
	perClass := map[string]int{}
	for _, cs := range all {
		r := res[cs.ID]
		if r == nil || r.plan == nil {
			return fmt.Errorf("no result for chain case %d", cs.ID)
		}
		var fails []string
		nsteps := len(r.steps)
		total := "0"
		crashed := r.panic != "" || r.hang
		if crashed {
			nsteps++ // the delivery during which the child died
			if nsteps > len(r.plan.Steps) {
				nsteps = len(r.plan.Steps)
			}
			if r.hang {
				fails = append(fails, fmt.Sprintf("class=hang: the node did not answer within the time limit while processing step %d (%s)", len(r.steps), r.plan.Kinds[nsteps-1]))
			} else {
				fails = append(fails, fmt.Sprintf("class=panic: the node process died while processing step %d (%s): %s", len(r.steps), r.plan.Kinds[nsteps-1], r.panic))
			}
		} else {
			nsteps = r.result.NSteps
			total = r.result.Total
			fails = r.result.Fails
			for k, v := range r.result.Counts {
				c.Stats.Distribution[k] += v
			}
		}
		var classes, tables []string
		for _, s := range r.steps {
			classes = append(classes, fmt.Sprint(s.Cls))
			if s.Table != "" {
				tables = append(tables, s.Table)
			}
		}
		if crashed && len(classes) < nsteps {
			classes = append(classes, "2")
		}
		model := fmt.Sprintf("run_case %d %s %s %s", r.E, r.plan.Subtab, r.plan.U0, CoqList(r.plan.Steps[:nsteps]))
		observed := fmt.Sprintf("RC %s %s %s true", CoqList(classes), CoqList(tables), total)
		id := c.Cases.Add(model, observed)
		c.Stats.Count("coq_cases_chain")
		desc := map[string]interface{}{"stream": "chain", "seed": cs.Seed, "E": r.E, "case": cs.ID, "run_seed": c.Seed, "tier": c.Tier, "kinds": r.plan.Kinds[:nsteps], "classes": strings.Join(classes, "")}
		if !crashed {
			desc["unspent"] = r.result.Desc["unspent"]
			desc["paid"] = r.result.Desc["paid"]
		}
		c.Stats.CaseIndex[fmt.Sprint(id)] = desc
		if !crashed && len(r.result.ProbeM) > 0 {
			pid := c.Cases.Add("run_creates "+CoqList(r.result.ProbeM), "RO "+CoqList(r.result.ProbeO))
			c.Stats.Count("coq_cases_proposer")
			c.Stats.Case(fmt.Sprint("proposer", cs.Seed, r.E), true)
			c.Stats.CaseIndex[fmt.Sprint(pid)] = map[string]interface{}{"stream": "proposer", "seed": cs.Seed, "E": r.E, "case": cs.ID, "run_seed": c.Seed, "tier": c.Tier}
		}
		c.Stats.Case(fmt.Sprint("chain", cs.Seed, r.E), crashed || r.result.Nontrivial)
		for _, f := range fails {
			cls := strings.SplitN(f, ":", 2)[0]
			c.Stats.Count("oracle_" + cls)
			if perClass[cls] < 2 {
				perClass[cls]++
				c.Stats.Fail(f, desc)
			}
		}
		if len(fails) > 0 {
			c.Stats.Count("oracle_failed_chain_cases")
		}
		if cs.ID < 2 {
			c.Stats.Sample(desc)
		}
	}
	return nil
}

// ---------------------------------------------------------------- the run

func run(c *Ctx) error {
	streamA(c)
	streamB(c)
	if err := streamC(c); err != nil {
		return err
	}
	c.Stats.Rule = "three streams. subsidy: (vote tally, height) pairs (random totals up to a bit above supply/2, the threshold supply/2 +-2, total = supply, 0, near 2^64, sums that wrap uint64, heights whose supply wraps, totals placing the exact value next to an integer) -> validatorReward, oracle = exact rational formula within one unit and within [BlockReward/2, BlockReward]; checks: synthetic (epoch length 1..6, height, coinbase outputs, reward table) -> checkCoinbaseAmount, honest shapes (table permuted, proposer merged, zero first output) and mutations (+-1, extra/missing/wrong program, split, zero outputs, wrapping sums, other asset, vote type, no transactions, no outputs), oracle = an accepted coinbase pays every table entry exactly (nothing when no payout is due) and honest shapes are accepted; chains: a fresh real node (LevelDB, child process, 4-key federation, epoch length 3/4/5) is fed an honest chain of 25..55 blocks with varying proposer programs and transactions (fees from minimal to 90% of the inputs, votes, vetoes, retirements, coinbase spends), accepted-by-design payout shapes, and mutant sibling blocks whose coinbase pays something else (delivered first), oracle = honest blocks accepted and best, every accepted block pays exactly the harness's own table of the finished epoch (zero otherwise), the node's reward table at each epoch end equals the harness's, unspent BTM <= genesis + coinbase payouts <= expected tables, no crash/hang, the node's own block template pays the expected table; distinct = distinct seeds/batches; non-trivial (chain) = a payout with >= 2 programs or a fee-paying transaction"
	c.Cases.Shard = c.N(12, 40)
	return c.Cases.Write(c.Out, "From Coq Require Import List NArith Bool.\nFrom C14 Require Import Model Run.\nImport ListNotations.\nOpen Scope N_scope.", "res", "res_eqb")
}
